"""SELECT legs shared by C01 (plain), C02 (group), C03 (order), C05 (invalid), C07 (names), C15 (pivot).

MC   MC_Select.tla with the property's query set: the stepped mechanism against the declarative laws
S2C  the same states emitted as (table code, query, verdict, names, types, rows) and replayed on the real code
C2S  random larger tables and random queries of the family executed on the real code, logged, judged by TLC
     (Trace_Select: Compile + Exec of the specification)
"""
import copy
import json
import os

import beanquery

from harness import bql
from harness import selectq
from harness import tables as ht
from harness.core import MachineryError, SPEC

ALL_INVS = 'CompileIffValid SteppedIsExec ScanLaw GroupLaw Additivity HavingLaw SortLaw PhaseOrderLaw DistinctLaw PivotLaw'
SCH = {'k': 'int', 's': 'str', 'v': 'int', 'w': 'dec', 'p': 'int'}
COLS = [('k', 'int'), ('s', 'str'), ('v', 'int'), ('w', 'Decimal'), ('p', 'int')]


def write_cfg(ctx, name, maxrows, queryset, emit, stride, variant='ok', invs=ALL_INVS, props=True):
    """cfg files are generated into spec/ under a per-run name and removed afterwards (constants are literals)"""
    path = os.path.join(SPEC, name)
    with open(path, 'w') as f:
        f.write('CONSTANTS\n  MaxRows = %d\n  QuerySet = "%s"\n  EmitMode = "%s"\n  TableStride = %d\n  Variant = "%s"\n'
                % (maxrows, queryset, emit, stride, variant))
        f.write('INIT Init\nNEXT Next\nINVARIANTS %s %s\n' % (invs, 'Emit EmitTable' if emit != 'none' else ''))
        if props:
            f.write('PROPERTIES ScanPrefix GroupIsolation\n')
        f.write('CHECK_DEADLOCK FALSE\n')
    return name


class SelectReplayer:
    def __init__(self, ctx, prop):
        self.ctx = ctx
        self.prop = prop
        self.rowvals = None
        self.conns = {}
        self.pending = []
        self.n = 0
        self.n_text = 0
        self.n_rej = 0

    def feed(self, msg):
        if 'rowvals' in msg:
            self.rowvals = msg['rowvals']
            for m in self.pending:
                self._case(m)
            self.pending = []
            return
        if self.rowvals is None:
            self.pending.append(msg)
        else:
            self._case(msg)

    def _conn(self, code):
        key = tuple(code)
        c = self.conns.get(key)
        if c is None:
            c = ht.connection(selectq.table_from_code(self.rowvals, code))
            if len(self.conns) < 6000:
                self.conns[key] = c
        return c

    def _case(self, m):
        ctx = self.ctx
        q = m['q']
        code = m['code']
        self.n += 1
        qk = selectq.q_key(q)
        ctx.case(qk + '#' + ','.join(map(str, code)), nontrivial=len(code) > 0)
        if self.n <= 2:
            ctx.sample({'leg': 'S2C', 'table_code': code, 'query': selectq.query_text(q, 'g'), 'spec_ok': m['ok'], 'spec_rows': m['out'][:4]})
        conn = self._conn(code)
        try:
            stmt = selectq.query_ast(q, 'g')
        except bql.OutOfDomain:
            ctx.skipped += 1
            return
        use_text = (self.n % 37 == 0)
        if use_text:
            try:
                stmt = selectq.query_text(q, 'g')
                self.n_text += 1
            except bql.OutOfDomain:
                pass
        status, desc, rows = selectq.run_query(conn, stmt)
        ctx.traces += 1
        case = {'code': code, 'q': q, 'text': selectq.query_text(q, 'g'), 'rowvals': self.rowvals}
        judge(ctx, 'select:' + qk, case, m, status, desc, rows, 'S2C')
        if not m['ok']:
            self.n_rej += 1


def judge(ctx, key, case, m, status, desc, rows, leg):
    """compare one execution with the specification's verdict m = {ok, err, ood, names, types, out}"""
    if not m['ok']:
        if status == 'rejected':
            if not isinstance(desc, beanquery.CompilationError):
                ctx.violation(key + ':wrongclass', 'rejected with %s, expected CompilationError' % type(desc).__name__, case, leg)
            return
        if status == 'ok':
            ctx.violation(key + ':accepted', 'statement violating rule "%s" is accepted' % m['err'], case, leg,
                          'CompilationError (%s)' % m['err'], 'accepted; rows=%r' % (rows[:4],))
        else:
            ctx.violation(key + ':' + type(desc).__name__, 'statement violating rule "%s": %s escapes: %s' % (m['err'], type(desc).__name__, desc),
                          case, leg, 'CompilationError (%s)' % m['err'], repr(desc))
        return
    if status == 'rejected':
        ctx.violation(key + ':rejected', 'valid statement rejected: %s' % desc, case, leg, 'accepted', repr(desc))
        return
    if status == 'error':
        if m.get('ood'):
            ctx.skipped += 1
            return
        ctx.violation(key + ':' + type(desc).__name__, 'accepted statement fails at run time: %s: %s' % (type(desc).__name__, desc),
                      case, leg, m['out'][:6], repr(desc))
        return
    if m.get('ood'):
        ctx.skipped += 1
        return
    pivot = bool(case['q']['pivot'])
    names = [c.name for c in desc]
    if (not pivot or m['names']) and names != list(m['names']):      # pivoted headers with decimal / date keys: names not modelled
        ctx.violation(key + ':names', 'description names', case, leg, m['names'], names)
        return
    types = [c.datatype for c in desc]
    want = [selectq.TYPEMAP[t] for t in m['types']]
    if types != want:
        ctx.violation(key + ':types', 'description datatypes', case, leg, m['types'], [t.__name__ for t in types])
        return
    for r in rows:
        if len(r) != len(desc):
            ctx.violation(key + ':arity', 'row arity differs from the description', case, leg, len(desc), len(r))
            return
    ok, detail, skipped = selectq.compare_rows(m['out'], rows)
    if skipped:
        ctx.skipped += 1
        return
    if not ok:
        ctx.violation(key, 'result rows: ' + detail, case, leg, m['out'][:8], [list(map(repr, r)) for r in rows[:8]])


def run_mc_and_replay(ctx, queryset, maxrows_q, stride_q, maxrows_t, stride_t, nonvac=None):
    """MC + S2C legs for one query family.  nonvac = (variant, invariant that TLC must violate)"""
    tag = '%s_%d' % (queryset, os.getpid())
    maxrows, stride = ctx.pick((maxrows_q, stride_q), (maxrows_t, stride_t))
    cfg = write_cfg(ctx, 'Tmp_MCSel_%s.cfg' % tag, maxrows, queryset, 'cases', stride)
    rp = SelectReplayer(ctx, ctx.prop)
    try:
        res = ctx.tlc('MC_Select', cfg, leg='MC+GEN', on_json=rp.feed, timeout=ctx.pick(1200, 7200))
        if res.violated:
            ctx.violation('spec:' + ','.join(res.violated), 'TLC: the mechanism violates a declarative law', {'behaviour': res.behaviour[:4000]}, 'MC')
        if rp.rowvals is None or rp.pending:
            raise MachineryError('row values were not emitted')
        if nonvac:
            cfg3 = write_cfg(ctx, 'Tmp_MCSelNV_%s.cfg' % tag, 2, queryset, 'none', 3 if queryset == 'order' else 1, variant=nonvac[0], props=False,
                             invs=nonvac[2] if len(nonvac) > 2 else ALL_INVS)
            ctx.tlc('MC_Select', cfg3, leg='MC-nonvacuity', expect_violation=nonvac[1], workers=8)
    finally:
        for n in ('Tmp_MCSel_%s.cfg' % tag, 'Tmp_MCSelRV_%s.cfg' % tag, 'Tmp_MCSelNV_%s.cfg' % tag):
            try:
                os.remove(os.path.join(SPEC, n))
            except OSError:
                pass
    if rp.n == 0:
        raise MachineryError('no case emitted for query set %s' % queryset)
    ctx.leg('S2C', cases=rp.n, via_text=rp.n_text, rejected_by_spec=rp.n_rej)
    return rp


# ---- C2S -------------------------------------------------------------------------------------------------------
class RandomQueries:
    """random source-level queries of one family over the (k, s, v, w, p) schema (candidates; TLC judges)"""

    def __init__(self, rng):
        self.rng = rng

    def val(self, t, nullp=0.25):
        r = self.rng
        if r.random() < nullp:
            return {'t': 'null', 'n': 0, 'd': 1, 's': '', 'l': []}
        if t == 'int':
            return {'t': 'int', 'n': r.choice([0, 1, 2, 3, -1, 5, 10, 12, -10, 9, 100]), 'd': 1, 's': '', 'l': []}
        if t == 'dec':
            n, d = r.choice([(0, 1), (1, 2), (-3, 2), (9, 4), (2, 1), (1, 4), (21, 2), (10, 1), (-25, 2)])
            return {'t': 'dec', 'n': n, 'd': d, 's': '', 'l': []}
        return {'t': 'str', 'n': 0, 'd': 1, 's': r.choice(['a', 'b', 'B', 'ab', '', 'aB', 'b a']), 'l': []}

    def table(self, n):
        return [{'k': self.val('int'), 's': self.val('str'), 'v': self.val('int'), 'w': self.val('dec'),
                 'p': {'t': 'int', 'n': i, 'd': 1, 's': '', 'l': []}} for i in range(1, n + 1)]

    @staticmethod
    def col(n):
        return {'k': 'col', 'n': n}

    @staticmethod
    def const_int(i):
        return {'k': 'const', 'v': {'t': 'int', 'n': i, 'd': 1, 's': '', 'l': []}}

    def scalar(self):
        r = self.rng
        c = self.col
        return r.choice([c('k'), c('s'), c('v'), c('w'), {'k': 'un', 'op': 'neg', 'a': c('v')},
                         {'k': 'bin', 'op': 'add', 'a': c('k'), 'b': c('v')}, {'k': 'bin', 'op': 'mul', 'a': c('w'), 'b': self.const_int(2)},
                         {'k': 'un', 'op': 'isnull', 'a': c('k')}, {'k': 'call', 'f': 'upper', 'args': [c('s')]},
                         {'k': 'bin', 'op': 'mod', 'a': c('v'), 'b': self.const_int(2)}])

    def where(self):
        r = self.rng
        c = self.col
        if r.random() < 0.35:
            return {'k': 'none'}
        if r.random() < 0.3:
            return {'k': 'and', 'args': [self.where_atom(), self.where_atom()]}
        return self.where_atom()

    def where_atom(self):
        r = self.rng
        c = self.col
        return r.choice([{'k': 'bin', 'op': 'gt', 'a': c('v'), 'b': self.const_int(0)}, {'k': 'un', 'op': 'isnotnull', 'a': c('k')},
                         {'k': 'or', 'args': [{'k': 'bin', 'op': 'eq', 'a': c('s'), 'b': {'k': 'const', 'v': self.val('str', 0)}}, {'k': 'un', 'op': 'isnull', 'a': c('v')}]},
                         c('v'), {'k': 'bin', 'op': 'lt', 'a': c('w'), 'b': self.const_int(1)},
                         {'k': 'and', 'args': [c('k'), {'k': 'un', 'op': 'not', 'a': c('v')}]}])

    def agg(self):
        r = self.rng
        c = self.col
        base = r.choice([{'k': 'agg', 'f': 'count', 'a': {'k': 'star'}}, {'k': 'agg', 'f': 'count', 'a': c(r.choice('ksvw'))},
                         {'k': 'agg', 'f': 'sum', 'a': c(r.choice('vwk'))}, {'k': 'agg', 'f': r.choice(['min', 'max', 'first', 'last']), 'a': c(r.choice('ksvw'))},
                         {'k': 'agg', 'f': 'sum', 'a': {'k': 'bin', 'op': 'add', 'a': c('v'), 'b': c('k')}}])
        k = r.random()
        if k > 0.85:          # operands that differ only below a unary operator / a test
            f = r.choice(['sum', 'min', 'max', 'first', 'last', 'count'])
            return {'k': 'agg', 'f': f, 'a': {'k': 'un', 'op': 'neg', 'a': c(r.choice('vk'))}} if r.random() < 0.6 else \
                {'k': 'agg', 'f': r.choice(['first', 'last', 'count', 'max']), 'a': {'k': 'un', 'op': r.choice(['isnull', 'isnotnull']), 'a': c(r.choice('ksvw'))}}
        if k < 0.15:
            return {'k': 'bin', 'op': r.choice(['add', 'sub', 'mul']), 'a': {'k': 'agg', 'f': 'sum', 'a': c('v')}, 'b': {'k': 'agg', 'f': 'count', 'a': {'k': 'star'}}}
        if k < 0.22:
            return {'k': 'bin', 'op': 'div', 'a': {'k': 'agg', 'f': 'sum', 'a': c('v')}, 'b': {'k': 'agg', 'f': 'count', 'a': c('v')}}
        return base

    def order(self, targets, nvis_names, allow_agg, hidden_ok=True, keys=None):
        r = self.rng
        out = []
        for _ in range(r.randint(1, 5)):
            k = r.random()
            if k < 0.3:
                ref = {'k': 'idx', 'i': r.randint(1, len(targets))}
            elif k < 0.55 and nvis_names:
                ref = {'k': 'expr', 'e': self.col(r.choice(nvis_names))}
            elif allow_agg:
                ref = {'k': 'expr', 'e': self.agg() if r.random() < 0.6 or not keys else r.choice(keys)}
            elif hidden_ok:
                ref = {'k': 'expr', 'e': self.scalar()}
            else:
                ref = {'k': 'idx', 'i': r.randint(1, len(targets))}
            out.append({'r': ref, 'desc': r.random() < 0.5})
        return out

    def query(self, family):
        r = self.rng
        q = {'targets': [], 'where': self.where(), 'group': [], 'having': {'k': 'none'}, 'order': [], 'pivot': [],
             'distinct': False, 'limit': -1}
        if family == 'plain':
            n = r.randint(1, 4)
            q['targets'] = [{'e': self.col('p'), 'as': ''}] + [{'e': self.scalar(), 'as': 'c%d' % i} for i in range(n)]
            return q
        if family == 'order':
            n = r.randint(1, 3)
            with_p = r.random() < 0.6
            q['targets'] = ([{'e': self.col('p'), 'as': ''}] if with_p else []) + [{'e': self.scalar(), 'as': 'c%d' % i} for i in range(n)]
            if r.random() < 0.12:          # an alias that hides a table column (and is not that column): ORDER BY the name = the output
                t = r.choice([t for t in q['targets'] if t['as']])
                hid = r.choice(['k', 'v', 'w', 's'])
                if not (t['e'].get('k') == 'col' and t['e']['n'] == hid) and all(x['as'] != hid and x['e'] != self.col(hid) for x in q['targets']):
                    t['as'] = hid
            names = [t['as'] or t['e']['n'] for t in q['targets']]
            if r.random() < 0.85:
                q['order'] = self.order(q['targets'], names, False)
            q['distinct'] = r.random() < 0.4
            q['limit'] = r.choice([-1, -1, 0, 1, 2, 5, 100])
            if r.random() < 0.25:      # aggregate query with ordering
                keys = [self.col('k'), self.col('s')][:r.randint(1, 2)]
                q['targets'] = [{'e': e, 'as': 'g%d' % i} for i, e in enumerate(keys)] + [{'e': self.agg(), 'as': 'a0'}]
                q['group'] = [{'k': 'idx', 'i': i + 1} for i in range(len(keys))]
                q['order'] = self.order(q['targets'], ['g%d' % i for i in range(len(keys))] + ['a0'], True, keys=keys)
                if r.random() < 0.35:          # a key that is not selected: groups may coincide in their visible values
                    hid = r.choice([self.col('s'), self.col('k'), {'k': 'un', 'op': 'isnull', 'a': self.col('v')}])
                    q['group'] = q['group'] + [{'k': 'expr', 'e': hid}]
                    q['distinct'] = r.random() < 0.8
                    if r.random() < 0.5:
                        q['targets'] = [{'e': {'k': 'agg', 'f': 'count', 'a': {'k': 'star'}}, 'as': 'a0'}]
                        q['group'] = [{'k': 'expr', 'e': e} for e in keys] + [{'k': 'expr', 'e': hid}]
                        q['order'] = [] if r.random() < 0.5 else [{'r': {'k': 'idx', 'i': 1}, 'desc': r.random() < 0.5}]
            return q
        if family == 'group':
            keys = r.sample([self.col('k'), self.col('s'), {'k': 'un', 'op': 'isnull', 'a': self.col('v')},
                             {'k': 'bin', 'op': 'mod', 'a': self.col('v'), 'b': self.const_int(2)}], r.randint(0, 2))
            naggs = r.randint(1, 3)
            style = r.choice(['expr', 'idx', 'name', 'implicit', 'hidden'])
            if len(keys) == 2 and r.random() < 0.12:          # grouping without any aggregate function, one key not selected
                q['targets'] = [{'e': keys[0], 'as': 'g0'}]
                q['group'] = [{'k': 'expr', 'e': keys[0]}, {'k': 'expr', 'e': keys[1]}]
                r.shuffle(q['group'])
                return q
            aggs = [{'e': self.agg(), 'as': 'a%d' % i} for i in range(naggs)]
            if style == 'hidden' and keys:
                q['targets'] = aggs
                q['group'] = [{'k': 'expr', 'e': e} for e in keys]
            else:
                q['targets'] = [{'e': e, 'as': 'g%d' % i} for i, e in enumerate(keys)] + aggs
                if r.random() < 0.3:
                    r.shuffle(q['targets'])
                pos = {t['as']: i + 1 for i, t in enumerate(q['targets'])}
                if style == 'expr':
                    q['group'] = [{'k': 'expr', 'e': e} for e in keys]
                elif style == 'idx':
                    q['group'] = [{'k': 'idx', 'i': pos['g%d' % i]} for i in range(len(keys))]
                elif style == 'name':
                    q['group'] = [{'k': 'expr', 'e': self.col('g%d' % i)} for i in range(len(keys))]
            if q['group'] and style != 'hidden' and r.random() < 0.2:          # the same target named twice
                k = r.randrange(len(q['group']))
                pos_ = {t['as']: i + 1 for i, t in enumerate(q['targets'])}
                names_ = [t['as'] for t in q['targets'] if t['as'].startswith('g')]
                if k < len(names_):
                    dup = r.choice([{'k': 'idx', 'i': pos_[names_[k]]}, {'k': 'expr', 'e': self.col(names_[k])}, {'k': 'expr', 'e': keys[int(names_[k][1:])]}])
                    q['group'] = q['group'][:r.randint(0, len(q['group']))] + [dup] + q['group']
                    q['group'] = q['group'] if r.random() < 0.5 else q['group'][1:] + q['group'][:1]
            if q['group'] and r.random() < 0.35:
                q['having'] = r.choice([{'k': 'bin', 'op': 'gt', 'a': {'k': 'agg', 'f': 'count', 'a': {'k': 'star'}}, 'b': self.const_int(1)},
                                        {'k': 'agg', 'f': 'sum', 'a': self.col('v')},
                                        {'k': 'un', 'op': 'isnotnull', 'a': {'k': 'agg', 'f': 'max', 'a': self.col('w')}}])
            return q
        if family == 'pivot':
            others = [{'e': self.agg(), 'as': 'a%d' % i} for i in range(r.randint(1, 3))]
            tg = [{'e': self.col('k'), 'as': 'kk'}, {'e': self.col('s'), 'as': 'ss'}] + others
            r.shuffle(tg)
            pos = {t['as']: i + 1 for i, t in enumerate(tg)}
            q['targets'] = tg
            q['group'] = [{'k': 'idx', 'i': pos['kk']}, {'k': 'idx', 'i': pos['ss']}]
            first, second = r.choice([('kk', 'ss'), ('ss', 'kk')])
            q['pivot'] = [({'k': 'idx', 'i': pos[n]} if r.random() < 0.5 else {'k': 'expr', 'e': self.col(n)}) for n in (first, second)]
            q['where'] = {'k': 'and', 'args': [{'k': 'un', 'op': 'isnotnull', 'a': self.col('k')}, {'k': 'un', 'op': 'isnotnull', 'a': self.col('s')}]} \
                if r.random() < 0.8 else q['where']
            if r.random() < 0.25:
                q['having'] = r.choice([{'k': 'bin', 'op': 'gt', 'a': {'k': 'agg', 'f': 'count', 'a': {'k': 'star'}}, 'b': self.const_int(r.choice([0, 1]))},
                                        {'k': 'un', 'op': 'isnotnull', 'a': {'k': 'agg', 'f': 'max', 'a': self.col('w')}}])
            if r.random() < 0.15:
                q['order'] = [{'r': {'k': 'expr', 'e': r.choice([{'k': 'agg', 'f': 'count', 'a': self.col('v')}, {'k': 'agg', 'f': 'max', 'a': self.col('w')}])},
                               'desc': r.random() < 0.5}]
            elif r.random() < 0.4:
                q['order'] = [{'r': r.choice([{'k': 'idx', 'i': pos[first]}, {'k': 'expr', 'e': self.col(first)}, {'k': 'idx', 'i': pos[second]},
                                              {'k': 'idx', 'i': pos['a0']}]), 'desc': r.random() < 0.6} for _ in range(r.randint(1, 2))]
            return q
        if family == 'nested':
            q = self.nested(r.choice([1, 1, 2])) if r.random() < 0.6 else self.query('plain')
            k = r.random()
            if k < 0.45:
                q['where'] = self.insub() if r.random() < 0.7 else {'k': 'and', 'args': [self.insub(), self.where_atom()]}
                if selectq.has_sub(q):
                    q['where'] = {'k': 'none'}          # the outer names differ: keep IN conditions on base-table statements
            elif k < 0.75 and not selectq.has_sub(q) and not q.get('star'):
                q['targets'] = q['targets'] + [{'e': self.insub(), 'as': 'm'}]
            return q
        raise ValueError(family)

    def insub(self):
        """x [NOT] IN (SELECT c FROM #g [WHERE ..] [ORDER / LIMIT]) -- candidates; may be ill-typed or multi-column on purpose"""
        r = self.rng
        col = self.col
        left = r.choice(['k', 'v', 's', 'w', 'k', 's'])
        right = left if r.random() < 0.7 else r.choice(['k', 'v', 's', 'w'])
        inner = {'targets': [{'e': col(right) if r.random() < 0.8 else {'k': 'bin', 'op': 'add', 'a': col('k'), 'b': self.const_int(1)}, 'as': 'c'}],
                 'where': r.choice([{'k': 'none'}, {'k': 'bin', 'op': 'gt', 'a': col('v'), 'b': self.const_int(r.choice([0, 2, 100]))},
                                    {'k': 'un', 'op': 'isnotnull', 'a': col(right)}, {'k': 'un', 'op': 'isnull', 'a': col('k')},
                                    {'k': 'un', 'op': 'isnull', 'a': col(right)}]),      # the last one: rows, all of them NULL
                 'group': [], 'having': {'k': 'none'}, 'order': [], 'pivot': [], 'distinct': r.random() < 0.2, 'limit': r.choice([-1, -1, -1, 0, 2]),
                 'sub': {'k': 'none'}, 'star': False}
        if r.random() < 0.06:
            inner['targets'].append({'e': col('p'), 'as': 'd'})          # two columns: must be rejected
        return {'k': 'insub', 'neg': r.random() < 0.4, 'a': col(left), 'q': inner}

    def nested(self, depth):
        """outer query over FROM (inner): inner outputs are all named (aliases / bare columns), the outer one addresses them by
        name, by position or through the wildcard, possibly with hidden ordering / grouping keys"""
        r = self.rng
        inner = self.query(r.choice(['plain', 'order', 'group', 'order', 'plain', 'order', 'group', 'pivot'])) if depth <= 1 or r.random() < 0.6 else self.nested(depth - 1)
        if not (inner['pivot'] and r.random() < 0.5):
            inner['pivot'] = []          # (a pivoted inner statement is kept now and then: it must be rejected)
        if not inner.get('star') and r.random() < 0.15:
            cands = [t for t in inner['targets'] if t['as'] and t['as'] != 'gg']
            refd = json.dumps([inner['group'], inner['order']])
            if cands and all(('"' + t['as'] + '"') not in refd for t in cands):
                r.choice(cands)['as'] = 'meta'          # an output that happens to be called like a special column
        names = ['p' if (t['as'] == '' and t['e'].get('n') == 'p') else t['as'] for t in inner['targets']] if not inner.get('star') else None
        if names is None or any(not n for n in names):
            names = inner.get('_names') or ['p']
        col = self.col
        q = {'targets': [], 'where': {'k': 'none'}, 'group': [], 'having': {'k': 'none'}, 'order': [], 'pivot': [], 'distinct': False,
             'limit': -1, 'sub': inner, 'star': False}
        k = r.random()
        if k < 0.3:
            q['star'] = True
            q['_names'] = names
        elif k < 0.75:
            sel = r.sample(names, r.randint(1, len(names)))
            q['targets'] = [{'e': col(n), 'as': ''} for n in sel]
            q['_names'] = sel
        else:
            g = r.choice(names)
            q['targets'] = [{'e': col(g), 'as': 'gg'}, {'e': {'k': 'agg', 'f': 'count', 'a': {'k': 'star'}}, 'as': 'nn'}]
            q['group'] = [{'k': 'idx', 'i': 1}] if r.random() < 0.5 else []
            if len(names) > 1 and r.random() < 0.5:          # a grouping key that is not selected, next to a selected one
                h = r.choice([n for n in names if n != g])
                q['group'] = [{'k': 'idx', 'i': 1}, {'k': 'expr', 'e': col(h)}] if r.random() < 0.7 else [{'k': 'expr', 'e': col(h)}, {'k': 'expr', 'e': col(g)}]
            q['_names'] = ['gg', 'nn']
        if r.random() < (0.8 if inner['order'] and inner['limit'] < 0 else 0.5) and not q['group'] \
                and not any(t['e'].get('k') == 'agg' for t in q['targets']):
            keys = r.sample(names, min(len(names), r.randint(1, 2)))
            unselected = [n for n in names if n not in q.get('_names', names)]
            if unselected and r.random() < 0.6:          # a key that is a column of the subquery but not selected
                keys = [r.choice(unselected)] + keys[:r.randint(0, 1)]
            q['order'] = [{'r': {'k': 'expr', 'e': col(n)}, 'desc': r.random() < 0.5} for n in keys]
        if r.random() < 0.3:
            n = r.choice(names)
            q['where'] = r.choice([{'k': 'un', 'op': 'isnotnull', 'a': col(n)}, {'k': 'un', 'op': 'isnull', 'a': col(n)}, col(n)])
        q['distinct'] = r.random() < 0.2
        q['limit'] = r.choice([-1, -1, -1, 0, 1, 3])
        if q.get('star') and r.random() < 0.3:          # exactly  SELECT DISTINCT * FROM (q)  - nothing else on the outer statement
            q['distinct'], q['limit'], q['order'], q['where'] = True, -1, [], {'k': 'none'}
        return q


def strip_private(q):
    q.pop('_names', None)
    if selectq.has_sub(q):
        strip_private(q['sub'])
    else:
        q.setdefault('sub', {'k': 'none'})
    q.setdefault('star', False)


def inventory_form(q):
    """the statement with sum / first / last / count over column v (as whole targets) taken over the inventory column vi instead;
    None when there is no such target"""
    q2 = copy.deepcopy(q)
    hit = False
    for t in q2['targets']:
        e = t['e']
        if e.get('k') == 'agg' and e['f'] in ('sum', 'first', 'last', 'count') and isinstance(e.get('a'), dict) and e['a'] == {'k': 'col', 'n': 'v'}:
            e['a'] = {'k': 'col', 'n': 'vi'}
            hit = True
    return q2 if hit else None


def record_and_validate(ctx, family, ncases, maxrows, extra_judge=None):
    gen = RandomQueries(ctx.rng)
    path = ctx.path('select_%s.ndjson' % family)
    n = 0
    cid = 0
    nfrom = [0]
    ninv = [0]
    with open(path, 'w') as f:
        while cid < ncases:
            rows = gen.table(ctx.rng.choice([0, 1, 2, 3, 5, 8, 13, 21, maxrows]))
            pyrows = [tuple(bql.to_py(r[c]) for c, _ in COLS) for r in rows]
            cols = COLS
            if family == 'group':
                # column v once more as stored Inventory objects (vi): aggregates over it are the int aggregates under the projection
                from beancount.core import inventory as _inventory
                cols = COLS + [('vi', _inventory.Inventory)]
                pyrows = [r + (bql.int_as_inventory(r[2]),) for r in pyrows]
            conn = ht.connection(ht.HarnessTable('g', cols, pyrows))
            for _ in range(12):
                cid += 1
                q = gen.query(family)
                strip_private(q)
                try:
                    qreal = inventory_form(q) if family == 'group' and ctx.rng.random() < 0.4 else None
                    ninv[0] += qreal is not None
                    stmt = selectq.query_ast(qreal or q, 'g')
                    w = q['where']
                    if family == 'plain' and isinstance(w, dict) and w.get('k') == 'and' and len(w['args']) == 2 and ctx.rng.random() < 0.6:
                        # the FROM expression is AND-ed in front of WHERE: submit  FROM <a> WHERE <b>  for  WHERE a AND b
                        # (the harness table is also registered as the connection's default table)
                        from beanquery.parser import ast as _ast
                        stmt = bql.select_ast([(bql.expr_ast(t['e']), t['as'] or None) for t in q['targets']],
                                              _ast.From(bql.expr_ast(w['args'][0]), None, None, None), bql.expr_ast(w['args'][1]))
                        conn.tables['postings'] = conn.tables['g']
                        nfrom[0] += 1
                except bql.OutOfDomain:
                    continue
                status, desc, out = selectq.run_query(conn, stmt)
                ev = {'id': cid, 'sch': SCH, 'cols': [c for c, _ in COLS], 'rows': rows, 'q': q, 'ok': status != 'rejected', 'names': [], 'types': [], 'out': []}
                if status == 'error':
                    ev['exc'] = '%s: %s' % (type(desc).__name__, str(desc)[:200])
                    ev['out'] = [[['exc', 0, 1, type(desc).__name__]]]
                elif status == 'ok':
                    ev['names'] = [c.name for c in desc]
                    ev['types'] = [([k for k, v in selectq.TYPEMAP.items() if v is c.datatype] or [{'Inventory': 'int'}.get(c.datatype.__name__, c.datatype.__name__)])[0] for c in desc]
                    ev['out'] = selectq.proj_rows(out)
                    if any(v[0] == 'ood' for r in ev['out'] for v in r):
                        ctx.skipped += 1
                        continue
                else:
                    ev['rejclass'] = type(desc).__name__
                    if not isinstance(desc, beanquery.CompilationError):
                        ctx.violation('select:%s:rejclass:%s' % (family, type(desc).__name__), 'rejection is not a CompilationError',
                                      {'q': q, 'text': selectq.query_text(q, 'g')}, 'C2S')
                f.write(json.dumps(ev) + '\n')
                n += 1
                ctx.case('c2s:' + selectq.q_key(q) + '#%d' % len(rows), True)
                if n <= 2:
                    ctx.sample({'leg': 'C2S', 'query': selectq.query_text(q, 'g'), 'table_rows': len(rows), 'accepted': ev['ok'], 'rows': ev['out'][:3]})
    res = ctx.tlc('Trace_Select', 'Trace_Select.cfg', leg='C2S', workers=1, env={'TRACE_FILE': path}, timeout=ctx.pick(900, 3600))
    with open(path) as f:
        lines = f.read().split('\n')
    nrej = 0
    for rj in res.printed:
        if not isinstance(rj, dict) or rj.get('verdict') != 'rejected':
            continue
        ev = json.loads(lines[rj['line'] - 1])
        nrej += 1
        key = 'select:' + selectq.q_key(ev['q']) + ':' + rj['clause'].replace(' ', '-')
        if ev.get('exc'):
            key = 'select:' + selectq.q_key(ev['q']) + ':' + ev['exc'].split(':')[0]
        ctx.violation(key, 'recorded execution not explained by the specification: %s%s' % (rj['clause'], ' (' + ev['exc'] + ')' if ev.get('exc') else ''),
                      {'q': ev['q'], 'text': selectq.query_text(ev['q'], 'g'), 'rows': ev['rows'], 'sch': ev['sch']}, 'C2S',
                      rj.get('expected'), {'ok': ev['ok'], 'names': ev['names'], 'out': ev['out'][:10]})
    if res.post_failed or res.depth - 1 != n:
        raise MachineryError('Trace_Select did not consume the trace: depth %d, lines %d, errors %s' % (res.depth, n, res.errors[:2]))
    ctx.traces += n - nrej
    ctx.leg('C2S', select_lines=n, select_rejected=nrej, family=family, via_from_expression=nfrom[0], inventory_realisation=ninv[0])
    return n


# ---- typed directive tables (attribute / item accessors): hidden keys of the same datatype as a visible target ------
TYPED_LEDGER_HEAD = """
option "name_assets" "Ab"
2020-01-01 open Ab:Ca
2020-01-01 open Ab:Da
"""


def typed_tables_leg(ctx, family, nstmts):
    """ORDER BY / GROUP BY over #transactions and #notes, whose accessors are generic attribute getters: a key that is
    not selected must not be merged with a selected column of the same datatype.  Judged by TLC (Trace_Select)."""
    import datetime
    from beancount import loader
    rng = ctx.rng
    words = ['a', 'ab', 'b', 'ba', 'c', 'ca', 'B', 'Ab', 'd e', 'f']
    lines = [TYPED_LEDGER_HEAD]
    day = datetime.date(2020, 1, 2)
    for i in range(14):
        day += datetime.timedelta(days=rng.randint(0, 2))
        payee, narr = rng.choice(words), rng.choice(words)
        flag = rng.choice(['*', '!'])
        lines.append('%s %s "%s" "%s"\n  Ab:Ca  1 USD\n  Ab:Da  -1 USD\n' % (day.isoformat(), flag, payee, narr))
        if i % 2 == 0:
            lines.append('%s note Ab:%s "%s"\n' % (day.isoformat(), rng.choice(['Ca', 'Da']), rng.choice(words)))
    entries, errors, options = loader.load_string('\n'.join(lines))
    conn = beanquery.connect('beancount:', entries=entries, errors=errors, options=options)
    tables = {'transactions': [('date', 'date'), ('flag', 'str'), ('payee', 'str'), ('narration', 'str')],
              'notes': [('date', 'date'), ('account', 'str'), ('comment', 'str')]}
    path = ctx.path('select_typed_%s.ndjson' % family)
    n = 0
    with open(path, 'w') as f:
        for tname, cols in tables.items():
            names = [c for c, _ in cols]
            base = conn.execute('SELECT %s FROM #%s' % (', '.join(names), tname)).fetchall()
            rows = [{c: dict(zip(('t', 'n', 'd', 's'), bql.from_py(v)), l=[]) for c, v in zip(names, r)} for r in base]
            sch = dict(cols)
            for _ in range(nstmts):
                q = {'targets': [], 'where': {'k': 'none'}, 'group': [], 'having': {'k': 'none'}, 'order': [], 'pivot': [],
                     'distinct': False, 'limit': -1}
                vis = rng.sample(names, rng.randint(1, 2))
                hidden = [c for c in names if c not in vis]
                col = RandomQueries.col
                if family == 'order':
                    q['targets'] = [{'e': col(c), 'as': ''} for c in vis]
                    keys = rng.sample(hidden, min(len(hidden), rng.randint(1, 2))) + (rng.sample(vis, 1) if rng.random() < 0.3 else [])
                    q['order'] = [{'r': {'k': 'expr', 'e': col(c) if rng.random() < 0.8 else {'k': 'call', 'f': 'upper', 'args': [col(c)]}
                                         if sch[c] == 'str' else col(c)}, 'desc': rng.random() < 0.5} for c in keys]
                else:
                    q['targets'] = [{'e': col(c), 'as': ''} for c in vis] + [{'e': {'k': 'agg', 'f': 'count', 'a': {'k': 'star'}}, 'as': 'n'}]
                    keys = vis + rng.sample(hidden, min(len(hidden), rng.randint(0, 2)))
                    rng.shuffle(keys)
                    if rng.random() < 0.25 and hidden:
                        keys = [k for k in keys if k != vis[0]] or [hidden[0]]      # a visible target left uncovered: must be rejected
                    q['group'] = [{'k': 'expr', 'e': col(c)} for c in keys]
                status, desc, out = selectq.run_query(conn, selectq.query_ast(q, tname))
                ev = {'id': n + 1, 'sch': sch, 'cols': names, 'rows': rows, 'q': q, 'ok': status != 'rejected', 'names': [], 'types': [], 'out': []}
                if status == 'ok':
                    ev['names'] = [c.name for c in desc]
                    ev['types'] = [([k for k, v in selectq.TYPEMAP.items() if v is c.datatype] or [c.datatype.__name__])[0] for c in desc]
                    ev['out'] = selectq.proj_rows(out)
                elif status == 'error':
                    ev['exc'] = type(desc).__name__
                    ev['out'] = [[['exc', 0, 1, type(desc).__name__]]]
                ev['table'] = tname
                f.write(json.dumps(ev) + '\n')
                n += 1
                ctx.case('typed:' + tname + ':' + selectq.q_key(q), True)
    if errors or len(entries) < 10:
        raise MachineryError('typed-table ledger did not load: %s' % (errors[:2],))
    res = ctx.tlc('Trace_Select', 'Trace_Select.cfg', leg='C2S-typed', workers=1, env={'TRACE_FILE': path}, timeout=ctx.pick(900, 3600))
    with open(path) as f:
        lines = f.read().split('\n')
    nrej = 0
    for rj in res.printed:
        if isinstance(rj, dict) and rj.get('verdict') == 'rejected':
            ev = json.loads(lines[rj['line'] - 1])
            nrej += 1
            ctx.violation('typed-table:%s:%s:%s' % (ev['table'], family, rj['clause'].replace(' ', '-')),
                          'statement over a typed directive table not explained by the specification: ' + rj['clause'],
                          {'q': ev['q'], 'text': selectq.query_text(ev['q'], ev['table']), 'rows': ev['rows'], 'sch': ev['sch']}, 'C2S',
                          rj.get('expected'), {'ok': ev['ok'], 'out': ev['out'][:10]})
    if res.post_failed or res.depth - 1 != n:
        raise MachineryError('Trace_Select did not consume the typed-table trace')
    ctx.traces += n - nrej
    ctx.leg('C2S-typed', lines=n, rejected=nrej)


def replay_case(ctx, rep):
    """./check --replay for a saved SELECT case (S2C: table code + query; C2S: logged rows + query)"""
    case = rep['case']
    q = case['q']
    if 'code' in case:
        conn = ht.connection(selectq.table_from_code(case['rowvals'], case['code']))
    else:
        pyrows = [tuple(bql.to_py(r[c]) for c, _ in COLS) for r in case['rows']]
        conn = ht.connection(ht.HarnessTable('g', COLS, pyrows))
    status, desc, rows = selectq.run_query(conn, selectq.query_ast(q, 'g'))
    print('statement:', selectq.query_text(q, 'g'))
    print('expected :', json.dumps(rep.get('expected'))[:600])
    print('observed :', status, repr(desc)[:200], repr(rows)[:600])
    return 1
