"""Shared driver code for C08 / C09: the abstract statements of spec/BQLMiniSem.tla <-> BQL text, values <-> the
spec's tagged values, harness tables from the spec's tables, running a statement and projecting what came back.

Nothing in here computes an expected result: Python renders, runs, projects and compares; the oracle is TLC.
"""
import datetime
import decimal
import os

from harness import tables as ht

TYPENAME = {int: 'int', str: 'str', bool: 'bool', type(None): 'NoneType', decimal.Decimal: 'Decimal',
            datetime.date: 'date', object: 'object', list: 'list', set: 'set', dict: 'dict'}
DEFAULT_STRINGS = ['', 'a', 'b', 'c', 'd', 'e', 'f']


class StrTab:
    """ordered string table: rank <-> string (rank order = Python string order)"""

    def __init__(self, strings=None):
        self.strings = list(strings if strings is not None else DEFAULT_STRINGS)
        assert self.strings == sorted(self.strings) and self.strings[0] == ''
        self.rank = {s: i for i, s in enumerate(self.strings)}

    @classmethod
    def of(cls, values):
        return cls(sorted(set(values) | {''}))


def to_py(v, st):
    """spec value -> Python value"""
    tag, n = v
    if tag == 'n':
        return None
    if tag == 'i':
        return n
    if tag == 's':
        return st.strings[n]
    if tag == 'b':
        return bool(n)
    raise ValueError(v)


def to_spec(x, st):
    """Python value -> spec value (a value outside the model's domain becomes a tagged representation that equals
    nothing the spec produces)"""
    if x is None:
        return ['n', 0]
    if isinstance(x, bool):
        return ['b', int(x)]
    if isinstance(x, int):
        return ['i', x] if abs(x) < 2 ** 31 else ['ood', str(x)]
    if isinstance(x, str):
        return ['s', st.rank[x]] if x in st.rank else ['ood', x]
    return ['ood', repr(x)]


def typename(t):
    return TYPENAME.get(t, getattr(t, '__name__', repr(t)))


def make_table(name, spec_table, st):
    cols = [(c[0], {'int': 'int', 'str': 'str', 'bool': 'bool'}[c[1]]) for c in spec_table['cols']]
    rows = [tuple(to_py(v, st) for v in row) for row in spec_table['rows']]
    return ht.HarnessTable(name, cols, rows)


def install_tables(conn, spec_tabs, st):
    for name, t in spec_tabs.items():
        if name == '':
            continue        # the built-in one-row null table
        conn.tables[name] = make_table(name, t, st)


# ---- rendering ------------------------------------------------------------------------------------------
BINOPS = {'add': '+', 'sub': '-', 'gt': '>', 'lt': '<', 'ge': '>=', 'le': '<=', 'eq': '=', 'ne': '!='}


def render_value(v, st):
    tag, n = v
    if tag == 'n':
        return 'NULL'
    if tag == 'i':
        return str(n)
    if tag == 's':
        return "'%s'" % st.strings[n]
    if tag == 'b':
        return 'TRUE' if n else 'FALSE'
    raise ValueError(v)


def render_expr(e, st, top=True):
    """`top` = no enclosing operator: the text of a left-nested +/- chain is printed without parentheses, which is the
    text the specification gives an expression-named output (ExprText)."""
    k = e['k']
    if k == 'c':
        return render_value(e['v'], st)
    if k == 'col':
        return e['n']
    if k == 'ph':
        return '%s' if e['nm'] == '' else '%%(%s)s' % e['nm']
    if k == 'bin':
        left = e['l']
        if left['k'] == 'bin' and left['op'] in ('add', 'sub') and e['op'] in ('add', 'sub'):
            ls = render_expr(left, st, True)
        else:
            ls = render_expr(left, st, False)
        s = '%s %s %s' % (ls, BINOPS[e['op']], render_expr(e['r'], st, False))
        return s if top else '(%s)' % s
    if k == 'and':
        s = '%s AND %s' % (render_expr(e['l'], st, False), render_expr(e['r'], st, False))
        return s if top else '(%s)' % s
    if k == 'in':
        s = '%s %s (%s)' % (render_expr(e['l'], st, False), 'NOT IN' if e['neg'] else 'IN', render_select(e['q'], st))
        return s if top else '(%s)' % s
    if k == 'agg':
        if e['f'] == 'countstar':
            return 'count(*)'
        return '%s(%s)' % (e['f'], render_expr(e['e'], st, True))
    raise ValueError(e)


def render_from(f, st):
    if f['k'] == 'tab':
        return '#' + f['n']
    return '(%s)' % render_select(f['q'], st)


def render_select(q, st):
    parts = ['SELECT']
    if q['dis']:
        parts.append('DISTINCT')
    if q['star']:
        parts.append('*')
    else:
        parts.append(', '.join(render_expr(t['e'], st) + (' AS %s' % t['nm'] if t['nm'] else '') for t in q['tg']))
    parts.append('FROM ' + render_from(q['from'], st))
    if q['wh']['k'] != 'none':
        parts.append('WHERE ' + render_expr(q['wh'], st))
    if q['ord']:
        # (an ORDER BY item that starts with an integer literal does not parse: `ORDER BY 9 - x` takes 9 for a column
        # index and stops; such an expression is written in parentheses)
        items = [render_expr(o['e'], st) for o in q['ord']]
        items = ['(%s)' % t if t[:1].isdigit() else t for t in items]
        parts.append('ORDER BY ' + ', '.join(t + (' DESC' if o['desc'] else '') for t, o in zip(items, q['ord'])))
    if q['lim'] >= 0:
        parts.append('LIMIT %d' % q['lim'])
    return ' '.join(parts)


def depth(q):
    """nesting depth of SELECTs"""
    def de(e):
        k = e.get('k')
        if k in ('bin', 'and'):
            return max(de(e['l']), de(e['r']))
        if k == 'in':
            return max(de(e['l']), depth(e['q']))
        if k == 'agg':
            return de(e['e'])
        return 0
    d = depth(q['from']['q']) if q['from']['k'] == 'sub' else 0
    for t in q['tg']:
        d = max(d, de(t['e']))
    d = max(d, de(q['wh']))
    for o in q['ord']:
        d = max(d, de(o['e']))
    return 1 + d


def features(q, acc=None):
    """what a statement exercises (for the vacuity accounting of the replay)"""
    acc = set() if acc is None else acc

    def fe(e, where):
        k = e.get('k')
        if k in ('bin', 'and'):
            fe(e['l'], where), fe(e['r'], where)
        elif k == 'in':
            acc.add(('notin-' if e['neg'] else 'in-') + where)
            fe(e['l'], where)
            features(e['q'], acc)
        elif k == 'agg':
            acc.add('aggregate')
            fe(e['e'], where)
    if q['from']['k'] == 'sub':
        acc.add('from-subquery')
        features(q['from']['q'], acc)
    if q['star']:
        acc.add('star')
    for t in q['tg']:
        fe(t['e'], 'target')
        if t['nm']:
            acc.add('alias')
        elif t['e']['k'] != 'col':
            acc.add('expression-named')
    if q['wh']['k'] != 'none':
        acc.add('where')
        fe(q['wh'], 'where')
    if q['ord']:
        acc.add('order')
        names = [t['nm'] or (t['e']['n'] if t['e']['k'] == 'col' else None) for t in q['tg']]
        if any(not (o['e']['k'] == 'col' and o['e']['n'] in names) for o in q['ord']):
            acc.add('hidden-key')
    if q['dis']:
        acc.add('distinct')
    if q['lim'] >= 0:
        acc.add('limit')
    return acc


# ---- running --------------------------------------------------------------------------------------------
_PARSED = {}


def parsed(text):
    """TatSu parsing costs 10-30 ms per statement: parse every distinct text once per process.  The parsed statement
    object is deliberately re-used across executions, data sets and connections."""
    from beanquery import parser
    p = _PARSED.get(text)
    if p is None:
        p = _PARSED[text] = parser.parse(text)
    return p


def run_raw(conn, stmt, params=None):
    """execute (text or parsed statement) -> ('ok', description, rows) or ('exc', class name, message)"""
    try:
        cur = conn.execute(stmt, params)
        return 'ok', cur.description, cur.fetchall()
    except Exception as ex:  # noqa -- every exception class is an observation
        if os.environ.get('VERIF_DEBUG_EXC') == type(ex).__name__:
            import traceback
            traceback.print_exc()
            print('DEBUG statement:', stmt, params)
        return 'exc', type(ex).__name__, str(ex)[:200]


def project(res, st):
    """-> {'ok':True,'desc':[[name,type]..],'rows':[[V..]..]} or {'ok':False,'exc':..,'msg':..}"""
    if res[0] == 'exc':
        return {'ok': False, 'exc': res[1], 'msg': res[2], 'desc': [], 'rows': []}
    _, desc, rows = res
    return {'ok': True, 'desc': [[c.name, typename(c.datatype)] for c in desc],
            'rows': [[to_spec(v, st) for v in row] for row in rows]}


def same(a, b):
    """two projected observations (or spec results) agree"""
    if not a['ok'] or not b['ok']:
        return a['ok'] == b['ok']
    return a['desc'] == b['desc'] and a['rows'] == b['rows']


def materialise(conn, name, res):
    """a harness table holding a result: columns named and typed by its description"""
    _, desc, rows = res
    conn.tables[name] = ht.HarnessTable(name, [(c.name, c.datatype) for c in desc], rows)


# ---- hand-built statements (TatSu-free) -----------------------------------------------------------------
_BINCLS = {'add': 'Add', 'sub': 'Sub', 'gt': 'Greater', 'lt': 'Less', 'ge': 'GreaterEq', 'le': 'LessEq',
           'eq': 'Equal', 'ne': 'NotEqual'}
_FRAG = {}


def parsed_fragment(text):
    """the parser's own node for an expression (carries the source text an unnamed output is named after)"""
    node = _FRAG.get(text)
    if node is None:
        from beanquery import parser
        node = _FRAG[text] = parser.parse('SELECT ' + text).targets[0].expression
    return node


def build_expr(e, st):
    from beanquery.parser import ast
    k = e['k']
    if k == 'c':
        return ast.Constant(to_py(e['v'], st))
    if k == 'col':
        return ast.Column(e['n'])
    if k == 'bin':
        return getattr(ast, _BINCLS[e['op']])(build_expr(e['l'], st), build_expr(e['r'], st))
    if k == 'and':
        return ast.And([build_expr(e['l'], st), build_expr(e['r'], st)])
    if k == 'in':
        return (ast.NotIn if e['neg'] else ast.In)(build_expr(e['l'], st), build_select(e['q'], st))
    if k == 'inlist':     # x IN (v1, v2, ..): the materialised form of x IN (subquery); values are Python values
        return (ast.NotIn if e['neg'] else ast.In)(build_expr(e['l'], st), ast.Constant(list(e['vals'])))
    if k == 'agg':
        if e['f'] == 'countstar':
            return ast.Function('count', [ast.Asterisk()])
        return ast.Function(e['f'], [build_expr(e['e'], st)])
    raise ValueError(e)


def build_select(q, st):
    """abstract statement -> beanquery.parser.ast.Select built by hand (4 ms instead of 100 ms through TatSu).  An
    output without alias that is not a plain column is named after its source text: that node comes from the parser."""
    from beanquery.parser import ast
    if q['star']:
        targets = ast.Asterisk()
    else:
        targets = []
        for t in q['tg']:
            if not t['nm'] and t['e']['k'] != 'col':
                expr = parsed_fragment(render_expr(t['e'], st))
            else:
                expr = build_expr(t['e'], st)
            targets.append(ast.Target(expr, t['nm'] or None))
    frm = ast.Table(q['from']['n']) if q['from']['k'] == 'tab' else build_select(q['from']['q'], st)
    where = None if q['wh']['k'] == 'none' else build_expr(q['wh'], st)
    order = [ast.OrderBy(build_expr(o['e'], st), ast.Ordering.DESC if o['desc'] else ast.Ordering.ASC)
             for o in q['ord']] or None
    return ast.Select(targets, frm, where, None, order, None, q['lim'] if q['lim'] >= 0 else None,
                      True if q['dis'] else None)
