"""BQL statements in three shapes and the conversions between them.

  * beanquery.parser.ast nodes (what beanquery.parser.parse returns and Cursor.execute accepts)
  * the abstract JSON of DESIGN.md Appendix C  (to_abstract / from_abstract / abstract_to_tokens)
  * the token-level form of spec/Parser.tla: tokens {"t","s","d"} and its AST records (node_to_spec / spec_to_abstract)
  * text: layout(tokens, rng) writes a token sequence as text under a seeded layout (letter case of keywords and
    identifiers, blanks / newlines / comments between tokens, quote style of strings) without ever gluing two tokens
    into something that lexes differently

Everything here is projection and driving; nothing here is an oracle.  beanquery is imported lazily so that worker
processes can put the tree under test on sys.path first.
"""
import datetime
import decimal
import fractions
import re

# ---- strings of the token model: id -> content (spec/Parser.tla treats strings as opaque ids) -------------------
STRS = {
    's0': '',
    's1': 'a',
    's2': "it's",                       # needs double quotes
    's3': 'say "x"',                    # needs single quotes
    's4': 'a;b /* c */ d',              # comment openers inside a string
    's5': 'Assets:Bank',
    's6': 'x\ny',                       # a line break inside a string
    's7': ' SELECT 1 -- ',
    's8': '%s',
    's9': 'é☃',
}
STR_IDS = {v: k for k, v in STRS.items()}
KEYWORDS = {'AND', 'AS', 'ASC', 'BY', 'DESC', 'DISTINCT', 'FALSE', 'FROM', 'GROUP', 'HAVING', 'IN', 'IS', 'LIMIT', 'NOT',
            'OR', 'ORDER', 'PIVOT', 'SELECT', 'TRUE', 'WHERE', 'BALANCES', 'JOURNAL', 'PRINT'}
SOFT = {'open', 'close', 'clear', 'on', 'at', 'between', 'null'}
UNOPS = {'Not': 'not', 'Neg': 'neg', 'IsNull': 'isnull', 'IsNotNull': 'isnotnull'}
BINOPS = {'Mul': 'mul', 'Div': 'div', 'Mod': 'mod', 'Add': 'add', 'Sub': 'sub', 'Equal': 'eq', 'NotEqual': 'ne',
          'Greater': 'gt', 'GreaterEq': 'ge', 'Less': 'lt', 'LessEq': 'le', 'Match': 'match', 'NotMatch': 'notmatch',
          'In': 'in', 'NotIn': 'notin'}
UNOPS_R = {v: k for k, v in UNOPS.items()}
BINOPS_R = {v: k for k, v in BINOPS.items()}
BIG = 2 ** 31


class Odd(Exception):
    """the value does not belong to the vocabulary (reported by the caller, never silently mapped)"""


def _ast():
    from beanquery.parser import ast
    return ast


# =====================================================================================================================
# beanquery.parser.ast  ->  token-model AST (the records of spec/Parser.tla, as JSON)
# =====================================================================================================================
def val_to_spec(v):
    if v is None:
        return {'t': 'null', 's': '', 'v': []}
    if v is True or v is False:
        return {'t': 'bool', 's': '', 'v': [1 if v else 0]}
    if type(v) is int:
        if abs(v) >= BIG:
            return {'t': 'bigint', 's': str(v), 'v': []}
        return {'t': 'int', 's': '', 'v': [v]}
    if type(v) is decimal.Decimal:
        sign, digits, exp = v.as_tuple()
        if not isinstance(exp, int) or sign:
            return {'t': 'oddnum', 's': repr(v), 'v': []}
        coef = int(''.join(map(str, digits)) or '0')
        # the written number of integer digits is not recoverable (007.5 = 7.5); the coefficient and exponent are
        if coef >= BIG:
            return {'t': 'bigdec', 's': str(v), 'v': []}
        return {'t': 'dec', 's': '', 'v': [coef, exp]}
    if type(v) is datetime.date:
        return {'t': 'date', 's': '', 'v': [v.year, v.month, v.day]}
    if type(v) is str:
        return {'t': 'str', 's': STR_IDS.get(v, '?:' + v), 'v': []}
    return {'t': 'other', 's': '%s:%r' % (type(v).__name__, v), 'v': []}


def _opt(x, f):
    return [] if x is None else [f(x)]


def _flag(x, what):
    if x is None:
        return False
    if x is True:
        return True
    raise Odd('%s = %r' % (what, x))


def _name(x, what):
    if type(x) is not str:
        raise Odd('%s = %r' % (what, x))
    return x


def expr_to_spec(n):
    ast = _ast()
    cls = type(n)
    name = cls.__name__
    if cls is ast.Constant:
        if isinstance(n.value, list):
            return {'k': 'const', 'val': {'t': 'list', 's': '', 'v': []}, 'items': [val_to_spec(x) for x in n.value]}
        return {'k': 'const', 'val': val_to_spec(n.value), 'items': []}
    if cls is ast.Column:
        return {'k': 'col', 'n': _name(n.name, 'column name')}
    if cls is ast.Placeholder:
        return {'k': 'ph', 'n': _name(n.name, 'placeholder name')}
    if cls is ast.Asterisk:
        return {'k': 'star'}
    if name in UNOPS and cls is getattr(ast, name):
        return {'k': 'un', 'op': UNOPS[name], 'e': expr_to_spec(n.operand)}
    if name in BINOPS and cls is getattr(ast, name):
        return {'k': 'bin', 'op': BINOPS[name], 'l': expr_to_spec(n.left), 'r': expr_to_spec(n.right)}
    if cls is ast.Between:
        return {'k': 'between', 'e': expr_to_spec(n.operand), 'lo': expr_to_spec(n.lower), 'hi': expr_to_spec(n.upper)}
    if cls is ast.And or cls is ast.Or:
        if not isinstance(n.args, list):
            raise Odd('boolean operator args = %r' % (n.args,))
        return {'k': name.lower(), 'a': [expr_to_spec(x) for x in n.args]}
    if cls is ast.Function:
        if not isinstance(n.operands, list):
            raise Odd('function operands = %r' % (n.operands,))
        return {'k': 'call', 'f': _name(n.fname, 'function name'), 'a': [expr_to_spec(x) for x in n.operands]}
    if cls is ast.Attribute:
        return {'k': 'attr', 'e': expr_to_spec(n.operand), 'n': _name(n.name, 'attribute name')}
    if cls is ast.Subscript:
        return {'k': 'sub', 'e': expr_to_spec(n.operand), 'key': STR_IDS.get(n.key, '?:%s' % (n.key,))}
    if cls is ast.Select:
        return {'k': 'select', 'q': stmt_to_spec(n)}
    raise Odd('expression node %r' % (n,))


def _col_to_spec(c):
    if type(c) is int:
        if c >= BIG:
            raise Odd('index %r' % c)
        return {'k': 'idx', 'i': c}
    return expr_to_spec(c)


def _date3(d, what):
    if type(d) is not datetime.date:
        raise Odd('%s = %r' % (what, d))
    return [d.year, d.month, d.day]


def from_to_spec(f):
    ast = _ast()
    if type(f) is ast.Table:
        return {'k': 'table', 'n': _name(f.name, 'table name')}
    if type(f) is ast.Select:
        return {'k': 'subq', 'q': stmt_to_spec(f)}
    if type(f) is ast.From:
        if f.close is None:
            close = []
        elif f.close is True:
            close = [[]]
        else:
            close = [_date3(f.close, 'close')]
        return {'k': 'from', 'e': _opt(f.expression, expr_to_spec), 'open': _opt(f.open, lambda d: _date3(d, 'open')),
                'close': close, 'clear': _flag(f.clear, 'clear')}
    raise Odd('from clause %r' % (f,))


def stmt_to_spec(q):
    ast = _ast()
    if type(q) is ast.Select:
        star = type(q.targets) is ast.Asterisk
        if not star and not isinstance(q.targets, list):
            raise Odd('targets = %r' % (q.targets,))
        targets = []
        if not star:
            for t in q.targets:
                if type(t) is not ast.Target:
                    raise Odd('target %r' % (t,))
                targets.append({'e': expr_to_spec(t.expression), 'as': _opt(t.name, lambda x: _name(x, 'target name'))})
        group = []
        if q.group_by is not None:
            if type(q.group_by) is not ast.GroupBy or not isinstance(q.group_by.columns, list):
                raise Odd('group by %r' % (q.group_by,))
            group = [{'cols': [_col_to_spec(c) for c in q.group_by.columns], 'having': _opt(q.group_by.having, expr_to_spec)}]
        order = []
        if q.order_by is not None:
            if not isinstance(q.order_by, list):
                raise Odd('order by %r' % (q.order_by,))
            for o in q.order_by:
                if type(o) is not ast.OrderBy or type(o.ordering) is not ast.Ordering:
                    raise Odd('order item %r' % (o,))
                order.append({'c': _col_to_spec(o.column), 'desc': o.ordering is ast.Ordering.DESC})
        pivot = []
        if q.pivot_by is not None:
            if type(q.pivot_by) is not ast.PivotBy or not isinstance(q.pivot_by.columns, list):
                raise Odd('pivot by %r' % (q.pivot_by,))
            pivot = [_col_to_spec(c) for c in q.pivot_by.columns]
        limit = []
        if q.limit is not None:
            if type(q.limit) is not int or q.limit >= BIG:
                raise Odd('limit %r' % (q.limit,))
            limit = [q.limit]
        return {'k': 'select', 'distinct': _flag(q.distinct, 'distinct'), 'star': star, 'targets': targets,
                'from': _opt(q.from_clause, from_to_spec), 'where': _opt(q.where_clause, expr_to_spec),
                'group': group, 'order': order, 'pivot': pivot, 'limit': limit}
    if type(q) is ast.Balances:
        return {'k': 'balances', 'fn': _opt(q.summary_func, lambda x: _name(x, 'summary function')),
                'from': _opt(q.from_clause, from_to_spec), 'where': _opt(q.where_clause, expr_to_spec)}
    if type(q) is ast.Journal:
        return {'k': 'journal', 'acct': _opt(q.account, lambda x: STR_IDS.get(x, '?:%s' % (x,))),
                'fn': _opt(q.summary_func, lambda x: _name(x, 'summary function')), 'from': _opt(q.from_clause, from_to_spec)}
    if type(q) is ast.Print:
        return {'k': 'print', 'from': _opt(q.from_clause, from_to_spec)}
    raise Odd('statement %r' % (q,))


# =====================================================================================================================
# token-model AST  ->  abstract JSON (Appendix C)  ->  beanquery.parser.ast   and back
# =====================================================================================================================
def _dec_abs(coef, exp):
    fr = fractions.Fraction(coef) * fractions.Fraction(10) ** exp
    return {'t': 'dec', 'n': fr.numerator, 'd': fr.denominator, 'e': exp}


def specval_to_abstract(v):
    t = v['t']
    if t == 'null':
        return {'t': 'null'}
    if t in ('bool', 'int'):
        return {'t': t, 'v': v['v'][0]}
    if t == 'dec':
        return _dec_abs(v['v'][0], v['v'][1])
    if t == 'date':
        return {'t': 'date', 'v': datetime.date(*v['v']).toordinal()}
    if t == 'str':
        return {'t': 'str', 'v': STRS[v['s']] if v['s'] in STRS else v['s'][2:]}
    raise Odd('value %r' % (v,))


def spec_to_abstract(n):
    """expression / statement / from clause of the token model -> Appendix C"""
    k = n['k']
    rec = spec_to_abstract
    if k == 'const':
        if n['val']['t'] == 'list':
            return {'k': 'const', 'v': {'t': 'list', 'v': [specval_to_abstract(x) for x in n['items']]}}
        return {'k': 'const', 'v': specval_to_abstract(n['val'])}
    if k == 'col':
        return {'k': 'col', 'n': n['n']}
    if k == 'ph':
        return {'k': 'ph', 'n': n['n']}
    if k == 'star':
        return {'k': 'star'}
    if k == 'idx':
        return n['i']
    if k == 'un':
        return {'k': 'un', 'op': n['op'], 'e': rec(n['e'])}
    if k == 'bin':
        return {'k': 'bin', 'op': n['op'], 'l': rec(n['l']), 'r': rec(n['r'])}
    if k == 'between':
        return {'k': 'between', 'e': rec(n['e']), 'lo': rec(n['lo']), 'hi': rec(n['hi'])}
    if k in ('and', 'or'):
        return {'k': k, 'a': [rec(x) for x in n['a']]}
    if k == 'call':
        return {'k': 'call', 'f': n['f'], 'a': [rec(x) for x in n['a']]}
    if k == 'attr':
        return {'k': 'attr', 'e': rec(n['e']), 'n': n['n']}
    if k == 'sub':
        return {'k': 'sub', 'e': rec(n['e']), 'key': STRS[n['key']] if n['key'] in STRS else n['key'][2:]}
    if k == 'table':
        return {'k': 'table', 'n': n['n']}
    if k == 'subq':
        return {'k': 'subq', 'q': rec(n['q'])}
    if k == 'from':
        def o(d):
            return datetime.date(*d).toordinal()
        close = None if not n['close'] else (True if n['close'][0] == [] else o(n['close'][0]))
        return {'k': 'from', 'e': rec(n['e'][0]) if n['e'] else None, 'open': o(n['open'][0]) if n['open'] else None,
                'close': close, 'clear': bool(n['clear'])}
    if k == 'select' and 'q' in n:
        return {'k': 'select', 'q': rec(n['q'])}
    if k == 'select':
        return {'k': 'select', 'distinct': bool(n['distinct']),
                'targets': '*' if n['star'] else [{'e': rec(t['e']), 'as': t['as'][0] if t['as'] else None} for t in n['targets']],
                'from': rec(n['from'][0]) if n['from'] else None,
                'where': rec(n['where'][0]) if n['where'] else None,
                'group': {'cols': [rec(c) for c in n['group'][0]['cols']],
                          'having': rec(n['group'][0]['having'][0]) if n['group'][0]['having'] else None} if n['group'] else None,
                'order': [{'c': rec(o['c']), 'desc': bool(o['desc'])} for o in n['order']] if n['order'] else None,
                'pivot': [c['i'] if c['k'] == 'idx' else c['n'] for c in n['pivot']] if n['pivot'] else None,
                'limit': n['limit'][0] if n['limit'] else None}
    if k == 'balances':
        return {'k': 'balances', 'f': n['fn'][0] if n['fn'] else None, 'from': rec(n['from'][0]) if n['from'] else None,
                'where': rec(n['where'][0]) if n['where'] else None}
    if k == 'journal':
        a = n['acct'][0] if n['acct'] else None
        return {'k': 'journal', 'a': None if a is None else (STRS[a] if a in STRS else a[2:]),
                'f': n['fn'][0] if n['fn'] else None, 'from': rec(n['from'][0]) if n['from'] else None}
    if k == 'print':
        return {'k': 'print', 'from': rec(n['from'][0]) if n['from'] else None}
    raise Odd('token-model node %r' % (n,))


def value_from_abstract(v):
    t = v['t']
    if t == 'null':
        return None
    if t == 'bool':
        return bool(v['v'])
    if t == 'int':
        return int(v['v'])
    if t == 'dec':
        fr = fractions.Fraction(v['n'], v['d'])
        if 'e' in v:
            coef = fr / fractions.Fraction(10) ** v['e']
            assert coef.denominator == 1
            return decimal.Decimal((0 if coef >= 0 else 1, tuple(int(c) for c in str(abs(coef.numerator))), v['e']))
        return decimal.Decimal(fr.numerator) / decimal.Decimal(fr.denominator)
    if t == 'str':
        return v['v']
    if t == 'date':
        return datetime.date.fromordinal(v['v'])
    if t == 'list':
        return [value_from_abstract(x) for x in v['v']]
    raise Odd('abstract value %r' % (v,))


def value_to_abstract(v):
    if v is None:
        return {'t': 'null'}
    if isinstance(v, bool):
        return {'t': 'bool', 'v': int(v)}
    if isinstance(v, int):
        return {'t': 'int', 'v': v} if abs(v) < BIG else {'t': 'ood', 'why': 'integer beyond 32 bits'}
    if isinstance(v, decimal.Decimal):
        sign, digits, exp = v.as_tuple()
        if not isinstance(exp, int):
            return {'t': 'ood', 'why': 'non-finite decimal'}
        coef = int(''.join(map(str, digits)) or '0') * (-1 if sign else 1)
        return _dec_abs(coef, exp)
    if isinstance(v, datetime.date):
        return {'t': 'date', 'v': v.toordinal()}
    if isinstance(v, str):
        return {'t': 'str', 'v': v}
    if isinstance(v, list):
        return {'t': 'list', 'v': [value_to_abstract(x) for x in v]}
    return {'t': 'ood', 'why': 'value of type %s' % type(v).__name__}


def from_abstract(j):
    """Appendix C expression / statement / from clause -> beanquery.parser.ast node (int for a bare index)"""
    ast = _ast()
    rec = from_abstract
    if j is None or isinstance(j, int):
        return j
    k = j['k']
    if k == 'const':
        return ast.Constant(value_from_abstract(j['v']))
    if k == 'col':
        return ast.Column(j['n'])
    if k == 'ph':
        return ast.Placeholder(j['n'])
    if k == 'star':
        return ast.Asterisk()
    if k == 'un':
        return getattr(ast, UNOPS_R[j['op']])(rec(j['e']))
    if k == 'bin':
        return getattr(ast, BINOPS_R[j['op']])(rec(j['l']), rec(j['r']))
    if k == 'between':
        return ast.Between(rec(j['e']), rec(j['lo']), rec(j['hi']))
    if k == 'and':
        return ast.And([rec(x) for x in j['a']])
    if k == 'or':
        return ast.Or([rec(x) for x in j['a']])
    if k == 'call':
        return ast.Function(j['f'], [rec(x) for x in j['a']])
    if k == 'attr':
        return ast.Attribute(rec(j['e']), j['n'])
    if k == 'sub':
        return ast.Subscript(rec(j['e']), j['key'])
    if k == 'table':
        return ast.Table(j['n'])
    if k == 'subq':
        return rec(j['q'])
    if k == 'from':
        def d(o):
            return None if o is None else (True if o is True else datetime.date.fromordinal(o))
        return ast.From(rec(j.get('e')), d(j.get('open')), d(j.get('close')), True if j.get('clear') else None)
    if k == 'select' and 'q' in j:
        return rec(j['q'])
    if k == 'select':
        targets = ast.Asterisk() if j['targets'] == '*' else [ast.Target(rec(t['e']), t.get('as')) for t in j['targets']]
        g = j.get('group')
        o = j.get('order')
        p = j.get('pivot')
        return ast.Select(targets, rec(j.get('from')), rec(j.get('where')),
                          None if g is None else ast.GroupBy([rec(c) for c in g['cols']], rec(g.get('having'))),
                          None if o is None else [ast.OrderBy(rec(x['c']), ast.Ordering.DESC if x.get('desc') else ast.Ordering.ASC) for x in o],
                          None if p is None else ast.PivotBy([c if isinstance(c, int) else ast.Column(c) for c in p]),
                          j.get('limit'), True if j.get('distinct') else None)
    if k == 'balances':
        return ast.Balances(j.get('f'), rec(j.get('from')), rec(j.get('where')))
    if k == 'journal':
        return ast.Journal(j.get('a'), j.get('f'), rec(j.get('from')))
    if k == 'print':
        return ast.Print(rec(j.get('from')))
    raise Odd('abstract node %r' % (j,))


def to_abstract(n, _expr=False):
    """beanquery.parser.ast node -> Appendix C (a Select met inside an expression becomes {"k":"select","q":..})"""
    ast = _ast()
    rec = lambda x: to_abstract(x, True)  # noqa: E731
    if n is None:
        return None
    if type(n) is int:
        return n
    cls = type(n)
    name = cls.__name__
    if cls is ast.Constant:
        return {'k': 'const', 'v': value_to_abstract(n.value)}
    if cls is ast.Column:
        return {'k': 'col', 'n': n.name}
    if cls is ast.Placeholder:
        return {'k': 'ph', 'n': n.name}
    if cls is ast.Asterisk:
        return {'k': 'star'}
    if name in UNOPS:
        return {'k': 'un', 'op': UNOPS[name], 'e': rec(n.operand)}
    if name in BINOPS:
        return {'k': 'bin', 'op': BINOPS[name], 'l': rec(n.left), 'r': rec(n.right)}
    if cls is ast.Between:
        return {'k': 'between', 'e': rec(n.operand), 'lo': rec(n.lower), 'hi': rec(n.upper)}
    if cls in (ast.And, ast.Or):
        return {'k': name.lower(), 'a': [rec(x) for x in n.args]}
    if cls is ast.Function:
        return {'k': 'call', 'f': n.fname, 'a': [rec(x) for x in n.operands]}
    if cls is ast.Attribute:
        return {'k': 'attr', 'e': rec(n.operand), 'n': n.name}
    if cls is ast.Subscript:
        return {'k': 'sub', 'e': rec(n.operand), 'key': n.key}
    if cls is ast.Table:
        return {'k': 'table', 'n': n.name}
    if cls is ast.From:
        def d(x):
            return None if x is None else (True if x is True else x.toordinal())
        return {'k': 'from', 'e': rec(n.expression), 'open': d(n.open), 'close': d(n.close), 'clear': bool(n.clear)}
    if cls is ast.Select:
        q = {'k': 'select', 'distinct': bool(n.distinct),
             'targets': '*' if type(n.targets) is ast.Asterisk else [{'e': rec(t.expression), 'as': t.name} for t in n.targets],
             'from': ({'k': 'subq', 'q': to_abstract(n.from_clause)} if type(n.from_clause) is ast.Select
                      else to_abstract(n.from_clause)),
             'where': rec(n.where_clause),
             'group': None if n.group_by is None else {'cols': [rec(c) for c in n.group_by.columns], 'having': rec(n.group_by.having)},
             'order': None if n.order_by is None else [{'c': rec(o.column), 'desc': o.ordering == ast.Ordering.DESC} for o in n.order_by],
             'pivot': None if n.pivot_by is None else [c if isinstance(c, int) else c.name for c in n.pivot_by.columns],
             'limit': n.limit}
        return {'k': 'select', 'q': q} if _expr else q
    if cls is ast.Balances:
        return {'k': 'balances', 'f': n.summary_func, 'from': to_abstract(n.from_clause), 'where': rec(n.where_clause)}
    if cls is ast.Journal:
        return {'k': 'journal', 'a': n.account, 'f': n.summary_func, 'from': to_abstract(n.from_clause)}
    if cls is ast.Print:
        return {'k': 'print', 'from': to_abstract(n.from_clause)}
    raise Odd('node %r' % (n,))


# =====================================================================================================================
# tokens -> text under a seeded layout
# =====================================================================================================================
def tok(t, s='', d=()):
    return {'t': t, 's': s, 'd': list(d)}


def _case(word, rng):
    r = rng.random()
    if r < 0.3:
        return word.upper()
    if r < 0.6:
        return word.lower()
    if r < 0.75:
        return word.capitalize()
    return ''.join(c.upper() if rng.random() < 0.5 else c.lower() for c in word)


def render_token(tk, rng=None, plain=False):
    """the text of one token; letter case and quote style are layout"""
    t, s, d = tk['t'], tk['s'], tk['d']
    if t == 'kw':
        return s if plain or rng is None else _case(s, rng)
    if t == 'id':
        if plain or rng is None:
            return s.upper() if s in SOFT else s
        return _case(s, rng)
    if t == 'p':
        return s
    if t == 'int':
        return ''.join(map(str, d))
    if t == 'dec':
        return ''.join('.' if x == -1 else str(x) for x in d)
    if t == 'date':
        return '%04d-%02d-%02d' % tuple(d)
    if t == 'str':
        c = STRS[s] if s in STRS else s
        quotes = [q for q in ('"', "'") if q not in c]
        if not quotes:
            raise Odd('string %r cannot be written in BQL' % c)
        q = quotes[0] if plain or rng is None else rng.choice(quotes)
        return q + c + q
    if t == 'table':
        return '#' + s
    raise Odd('token %r' % (tk,))


_WORD = re.compile(r'[A-Za-z0-9_]')
_GLUE = {'/*', '*/', '<=', '>=', '!=', '!~', '%s', '%S', '%(', ')s', ')S', '<>', '..'}


def need_separator(a, ra, b, rb):
    """True when writing rb right after ra could be read differently from the two tokens a, b"""
    x, y = ra[-1], rb[0]
    if _WORD.match(x) and _WORD.match(y):
        return True                                    # two words / numbers / keywords
    if a['t'] == 'table' and _WORD.match(y):
        return True                                    # `#` `t` -> `#t`
    if a['t'] in ('int', 'dec', 'date') and y in '.-':
        return True                                    # `1` `.` -> `1.`;  `2020` `-` `10` `-` `10` -> a date
    if x == '.' and (y.isdigit() or y == '.'):
        return True                                    # `.` `5` -> `.5`
    if x + y in _GLUE:
        return True                                    # comment openers, two-character operators, placeholders
    return False


_COMMENTS = ['/* c */', '/**/', '/* SELECT * FROM x; */', '/* multi\n line ** / */', '/*;*/', "/* it's */"]
_EOLS = ['; note', ';', "; SELECT 'x' /* ", '; "unbalanced']


def _sep(rng, must, opts):
    r = rng.random()
    if not must and r < opts.get('glue', 0.25):
        return ''
    if r < 0.62:
        return ' '
    if r < 0.70:
        return '  '
    if r < 0.78:
        return '\n'
    if r < 0.82:
        return '\t'
    if r < 0.85:
        return ' \r\n '
    if not opts.get('comments', True):
        return ' '
    if r < 0.94:
        c = rng.choice(_COMMENTS)
        return rng.choice(['', ' ']) + c + rng.choice(['', ' ', '\n'])
    return rng.choice(['', ' ']) + rng.choice(_EOLS) + '\n' + rng.choice(['', '  '])


def layout(tokens, rng, **opts):
    """token sequence -> text.  opts: glue (probability of no separator where allowed), comments, plain (canonical
    single-space upper-case form)"""
    if opts.get('plain'):
        out = []
        prev = None
        for tk in tokens:
            r = render_token(tk, plain=True)
            if prev is not None:
                out.append(' ')
            out.append(r)
            prev = tk
        return ''.join(out)
    out = []
    if rng.random() < 0.15:
        out.append(_sep(rng, True, opts))
    prev = rprev = None
    for tk in tokens:
        r = render_token(tk, rng)
        if prev is not None:
            out.append(_sep(rng, need_separator(prev, rprev, tk, r), opts))
        out.append(r)
        prev, rprev = tk, r
    x = rng.random()
    if x < 0.15:
        out.append(rng.choice([';', ' ;', ' ; ', ';\n', '; trailing words', ' /* end */', '\n', '  ', ' ;;']))
    return ''.join(out)


# =====================================================================================================================
# abstract JSON -> tokens (a plain printer for callers that start from Appendix C; C06 itself gets its tokens from TLC)
# =====================================================================================================================
_LEVEL = {'or': 1, 'and': 2, 'not': 3, 'isnull': 4, 'isnotnull': 4, 'between': 4, 'neg': 7, 'attr': 8, 'sub': 8}
_OPTOK = {'eq': '=', 'ne': '!=', 'gt': '>', 'ge': '>=', 'lt': '<', 'le': '<=', 'match': '~', 'notmatch': '!~',
          'add': '+', 'sub': '-', 'mul': '*', 'div': '/', 'mod': '%'}


def _lvl(e):
    k = e['k']
    if k == 'un':
        return _LEVEL[e['op']]
    if k == 'bin':
        return 5 if e['op'] in ('add', 'sub') else 6 if e['op'] in ('mul', 'div', 'mod') else 4
    return _LEVEL.get(k, 9)


def _value_tokens(v):
    t = v['t']
    if t == 'null':
        return [tok('id', 'null')]
    if t == 'bool':
        return [tok('kw', 'TRUE' if v['v'] else 'FALSE')]
    if t == 'int':
        if v['v'] < 0:
            raise Odd('negative literal')
        return [tok('int', '', [int(c) for c in str(v['v'])])]
    if t == 'dec':
        dv = value_from_abstract(v)
        if dv < 0:
            raise Odd('negative literal')
        s = format(dv, 'f')
        if '.' not in s:
            s += '.'
        return [tok('dec', '', [-1 if c == '.' else int(c) for c in s])]
    if t == 'date':
        d = datetime.date.fromordinal(v['v'])
        return [tok('date', '', [d.year, d.month, d.day])]
    if t == 'str':
        return [tok('str', STR_IDS.get(v['v'], v['v']))]
    if t == 'list':
        out = [tok('p', '(')]
        for i, x in enumerate(v['v']):
            if i:
                out.append(tok('p', ','))
            out += _value_tokens(x)
        if len(v['v']) == 1:
            out.append(tok('p', ','))
        return out + [tok('p', ')')]
    raise Odd('value %r' % (v,))


def _paren(ts):
    return [tok('p', '(')] + ts + [tok('p', ')')]


def expr_tokens(e, full=False):
    """Appendix C expression -> tokens with minimal (or, full=True, redundant) parentheses; sub-SELECTs always bracketed"""
    def operand(child, req):
        ts = expr_tokens(child, full)
        if child['k'] == 'select':
            return ts
        if _lvl(child) < req or (full and req < 8):
            return _paren(ts)
        return ts
    k = e['k']
    if k == 'const':
        return _value_tokens(e['v'])
    if k == 'col':
        return [tok('id', e['n'])]
    if k == 'ph':
        return [tok('p', '%s')] if e['n'] in ('', None) else [tok('p', '%('), tok('id', e['n']), tok('p', ')s')]
    if k == 'star':
        return [tok('p', '*')]
    if k == 'select':
        return _paren(stmt_tokens(e['q'], full))
    if k == 'un':
        op = e['op']
        if op == 'not':
            return [tok('kw', 'NOT')] + operand(e['e'], 3)
        if op == 'neg':
            return [tok('p', '-')] + operand(e['e'], 7)
        tail = [tok('kw', 'IS')] + ([tok('kw', 'NOT')] if op == 'isnotnull' else []) + [tok('id', 'null')]
        return operand(e['e'], 5) + tail
    if k == 'bin':
        op = e['op']
        lv = _lvl(e)
        lreq, rreq = (5, 5) if lv == 4 else (5, 6) if lv == 5 else (6, 7)
        mid = [tok('kw', 'IN')] if op == 'in' else [tok('kw', 'NOT'), tok('kw', 'IN')] if op == 'notin' else [tok('p', _OPTOK[op])]
        return operand(e['l'], lreq) + mid + operand(e['r'], rreq)
    if k == 'between':
        return operand(e['e'], 5) + [tok('id', 'between')] + operand(e['lo'], 5) + [tok('kw', 'AND')] + operand(e['hi'], 5)
    if k in ('and', 'or'):
        out = []
        for i, x in enumerate(e['a']):
            if i:
                out.append(tok('kw', k.upper()))
            out += operand(x, 3 if k == 'and' else 2)
        return out
    if k == 'call':
        out = [tok('id', e['f']), tok('p', '(')]
        for i, x in enumerate(e['a']):
            if i:
                out.append(tok('p', ','))
            out += expr_tokens(x, full)
        return out + [tok('p', ')')]
    if k == 'attr':
        return expr_tokens(e['e'], full) + [tok('p', '.'), tok('id', e['n'])]
    if k == 'sub':
        return expr_tokens(e['e'], full) + [tok('p', '['), tok('str', STR_IDS.get(e['key'], e['key'])), tok('p', ']')]
    raise Odd('expression %r' % (e,))


def _digit_lead(tk):
    return tk['t'] in ('int', 'date') or (tk['t'] == 'dec' and tk['d'][0] != -1)


def _col_tokens(c, full):
    if isinstance(c, int):
        return [tok('int', '', [int(x) for x in str(c)])]
    ts = expr_tokens(c, full)
    return _paren(ts) if _digit_lead(ts[0]) else ts


def _date_tok(o):
    d = datetime.date.fromordinal(o)
    return tok('date', '', [d.year, d.month, d.day])


def from_tokens(f, full=False, inselect=True):
    k = f['k']
    if k == 'table':
        return [tok('table', f['n'])]
    if k == 'subq':
        return _paren(stmt_tokens(f['q'], full))
    out = []
    if f.get('e') is not None:
        out = expr_tokens(f['e'], full)
        if inselect and len(out) > 1 and out[0]['s'] == '(' and out[1]['s'] == 'SELECT':
            out = _paren(out)
    if f.get('open') is not None:
        out += [tok('id', 'open'), tok('id', 'on'), _date_tok(f['open'])]
    if f.get('close') is not None:
        out += [tok('id', 'close')] + ([] if f['close'] is True else [tok('id', 'on'), _date_tok(f['close'])])
    if f.get('clear'):
        out += [tok('id', 'clear')]
    return out


def stmt_tokens(q, full=False):
    k = q['k']
    if k == 'select' and 'q' in q:
        q = q['q']
    out = []
    if k == 'select':
        out.append(tok('kw', 'SELECT'))
        if q.get('distinct'):
            out.append(tok('kw', 'DISTINCT'))
        if q['targets'] == '*':
            out.append(tok('p', '*'))
        else:
            for i, t in enumerate(q['targets']):
                if i:
                    out.append(tok('p', ','))
                out += expr_tokens(t['e'], full)
                if t.get('as'):
                    out += [tok('kw', 'AS'), tok('id', t['as'])]
        if q.get('from') is not None:
            out += [tok('kw', 'FROM')] + from_tokens(q['from'], full, True)
        if q.get('where') is not None:
            out += [tok('kw', 'WHERE')] + expr_tokens(q['where'], full)
        if q.get('group') is not None:
            out += [tok('kw', 'GROUP'), tok('kw', 'BY')]
            for i, c in enumerate(q['group']['cols']):
                if i:
                    out.append(tok('p', ','))
                out += _col_tokens(c, full)
            if q['group'].get('having') is not None:
                out += [tok('kw', 'HAVING')] + expr_tokens(q['group']['having'], full)
        if q.get('order') is not None:
            out += [tok('kw', 'ORDER'), tok('kw', 'BY')]
            for i, o in enumerate(q['order']):
                if i:
                    out.append(tok('p', ','))
                out += _col_tokens(o['c'], full)
                if o.get('desc'):
                    out.append(tok('kw', 'DESC'))
        if q.get('pivot') is not None:
            out += [tok('kw', 'PIVOT'), tok('kw', 'BY')]
            for i, c in enumerate(q['pivot']):
                if i:
                    out.append(tok('p', ','))
                out += [tok('int', '', [int(x) for x in str(c)])] if isinstance(c, int) else [tok('id', c)]
        if q.get('limit') is not None:
            out += [tok('kw', 'LIMIT'), tok('int', '', [int(x) for x in str(q['limit'])])]
        return out
    if k == 'balances':
        out.append(tok('kw', 'BALANCES'))
        if q.get('f'):
            out += [tok('id', 'at'), tok('id', q['f'])]
        if q.get('from') is not None:
            out += [tok('kw', 'FROM')] + from_tokens(q['from'], full, False)
        if q.get('where') is not None:
            out += [tok('kw', 'WHERE')] + expr_tokens(q['where'], full)
        return out
    if k == 'journal':
        out.append(tok('kw', 'JOURNAL'))
        if q.get('a') is not None:
            out.append(tok('str', STR_IDS.get(q['a'], q['a'])))
        if q.get('f'):
            out += [tok('id', 'at'), tok('id', q['f'])]
        if q.get('from') is not None:
            out += [tok('kw', 'FROM')] + from_tokens(q['from'], full, False)
        return out
    if k == 'print':
        out.append(tok('kw', 'PRINT'))
        if q.get('from') is not None:
            out += [tok('kw', 'FROM')] + from_tokens(q['from'], full, False)
        return out
    raise Odd('statement %r' % (q,))


def to_text(j, rng=None, full=False, **opts):
    """Appendix C statement -> BQL text (seeded layout when rng is given, canonical otherwise)"""
    ts = stmt_tokens(j, full)
    if rng is None:
        return layout(ts, None, plain=True)
    return layout(ts, rng, **opts)
