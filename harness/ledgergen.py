"""Abstract ledgers <-> Beancount directives (shared by the ledger properties C11..C14).

The ABSTRACT LEDGER is the JSON vocabulary the TLA+ specifications (spec/Ledger.tla) read and emit.  It is the
"Ledgers" vocabulary of DESIGN.md Appendix C in a TLC-friendly form: JSON null is not usable in TLC, so every
OPTIONAL value is wrapped -- `[]` is None, `[v]` is the value v -- and every field has one type everywhere.

    ledger   {"entries": [D, ...], "options": {name: value}}            (options: overrides of OPTIONS_DEFAULTS)
    number   [num, den]            reduced rational, den > 0, |num|, den < 2**31   (Decimal)
    date     int                   datetime.date.toordinal()
    amount   {"n": number, "c": "USD"}
    cost     {"n": number, "c": "USD", "date": []|[date], "label": []|[str]}
    MV       {"t": "str|int|dec|date|bool|amount|map|null", "s": str, "n": number}    one metadata value:
             str -> s; int/dec -> n; date -> n = [ordinal, 1]; bool -> n = [0|1, 1]; amount -> s = currency, n = number;
             map (a dictionary str -> Decimal, Beancount's __tolerances__) -> s = "CUR=num/den;..." sorted by key
    meta     [[key, MV], ...]      sorted by key, keys distinct; for directives it includes "filename" and "lineno";
                                   EVERY key of the dictionary: the keys Beancount itself writes while booking /
                                   interpolating / in plugins (__tolerances__, __automatic__, __residual__ ...) too
    posting  {"acct": str, "u": amount, "cost": []|[cost], "price": []|[amount], "flag": []|[str], "meta": []|[meta]}
    D        {"k": kind, "date": date, "meta": meta, ...kind specific fields}
      txn        flag str, payee []|[str], narration str, tags []|[[str..]], links []|[[str..]], postings [posting..]
      open       account str, currencies [str..] ([] = None), booking []|[str]
      close      account            commodity  currency
      pad        account, source    balance    account, amount, tolerance []|[number], diff []|[amount]
      note       account, comment, tags, links          document   account, filename, tags, links
      event      type, description  query      name, query_string
      price      currency, amount   custom     type, values [str..]
    tags / links are sorted lists wrapped as optionals ([] = None, [[]] = empty set).

API
    abstract_of(entries, options=None) -> abstract       project real directives (raises OutOfDomain)
    build_entries(abstract) -> (entries, options)        direct construction with beancount.core.data constructors
    load_entries(abstract) -> (entries, errors, options) print with beancount.parser.printer, re-load with
                                                         loader.load_string (booking, padding, validation run)
    connect(entries, options, errors=()) -> beanquery.Connection
    example_entries(seed=0) -> (entries, errors, options)   beancount.scripts.example ledger (cached per seed)
    windows(entries, size) -> [entries[i:i+size]...]
    random_ledger(rng, n, **kw) -> abstract              seeded random ledger (see the function)
    abs_* / *_of helpers for single values (numbers, dates, amounts, costs, metadata)

Values that do not fit the model (|int| >= 2**31 after reduction, incomplete postings, CostSpec, unknown metadata
value types) raise OutOfDomain: callers skip and count such cases, they are never judged.
"""
import copy
import datetime
import decimal
import fractions
import io

from beancount.core import data
from beancount.core import amount as amount_mod
from beancount.core import position as position_mod
from beancount.core.number import MISSING

D = decimal.Decimal
LIMIT = 2 ** 31
FILENAME = '<ledgergen>'


class OutOfDomain(Exception):
    """the value has no counterpart in the abstract vocabulary"""


# ---- single values ---------------------------------------------------------------------------------------
def abs_num(x):
    """Decimal (or int) -> [num, den] reduced"""
    if x is None or x is MISSING or not isinstance(x, (D, int)) or isinstance(x, bool):
        raise OutOfDomain('number %r' % (x,))
    if isinstance(x, D) and not x.is_finite():
        raise OutOfDomain('number %r' % (x,))
    f = fractions.Fraction(x)
    if abs(f.numerator) >= LIMIT or f.denominator >= LIMIT:
        raise OutOfDomain('number %r does not fit 32 bits' % (x,))
    return [f.numerator, f.denominator]


def num_of(n):
    """[num, den] -> Decimal (exact when den = 2^a 5^b, which every generated number satisfies)"""
    num, den = n
    if den == 1:
        return D(num)
    with decimal.localcontext() as c:
        c.prec = 40
        return D(num) / D(den)


def abs_date(d):
    if not isinstance(d, datetime.date):
        raise OutOfDomain('date %r' % (d,))
    return d.toordinal()


def date_of(o):
    return datetime.date.fromordinal(o)


def opt(x, f=lambda v: v):
    return [] if x is None else [f(x)]


def unopt(o, f=lambda v: v):
    return None if not o else f(o[0])


def abs_amount(a):
    if not isinstance(a, amount_mod.Amount) or not isinstance(a.currency, str):
        raise OutOfDomain('amount %r' % (a,))
    return {'n': abs_num(a.number), 'c': a.currency}


def amount_of(a):
    return amount_mod.Amount(num_of(a['n']), a['c'])


def abs_cost(c):
    if not isinstance(c, position_mod.Cost):
        raise OutOfDomain('cost %r' % (c,))
    return {'n': abs_num(c.number), 'c': c.currency, 'date': opt(c.date, abs_date), 'label': opt(c.label)}


def cost_of(c):
    return position_mod.Cost(num_of(c['n']), c['c'], unopt(c['date'], date_of), unopt(c['label']))


def abs_set(s):
    """tags / links: None -> [], a set -> [sorted list]"""
    if s is None:
        return []
    return [sorted(s)]


def set_of(o):
    return None if not o else frozenset(o[0])


def abs_mv(v):
    """one metadata value -> MV"""
    z = [0, 1]
    if v is None:
        return {'t': 'null', 's': '', 'n': z}
    if isinstance(v, bool):
        return {'t': 'bool', 's': '', 'n': [int(v), 1]}
    if isinstance(v, int):
        if abs(v) >= LIMIT:
            raise OutOfDomain('metadata int %r' % v)
        return {'t': 'int', 's': '', 'n': [v, 1]}
    if isinstance(v, D):
        return {'t': 'dec', 's': '', 'n': abs_num(v)}
    if isinstance(v, str):
        return {'t': 'str', 's': v, 'n': z}
    if isinstance(v, datetime.date):
        return {'t': 'date', 's': '', 'n': [v.toordinal(), 1]}
    if isinstance(v, amount_mod.Amount):
        return {'t': 'amount', 's': v.currency, 'n': abs_num(v.number)}
    if isinstance(v, dict) and all(isinstance(k, str) and k and '=' not in k and ';' not in k for k in v):
        # a dictionary of numbers (the inferred tolerances booking leaves on every transaction)
        return {'t': 'map', 's': ';'.join('%s=%d/%d' % ((k,) + tuple(abs_num(v[k]))) for k in sorted(v)), 'n': z}
    raise OutOfDomain('metadata value %r' % (v,))


def mv_of(m):
    t = m['t']
    if t == 'null':
        return None
    if t == 'bool':
        return bool(m['n'][0])
    if t == 'int':
        return int(m['n'][0])
    if t == 'dec':
        return num_of(m['n'])
    if t == 'str':
        return m['s']
    if t == 'date':
        return date_of(m['n'][0])
    if t == 'amount':
        return amount_mod.Amount(num_of(m['n']), m['s'])
    if t == 'map':
        out = {}
        for item in (m['s'].split(';') if m['s'] else []):
            k, _, frac = item.partition('=')
            num, _, den = frac.partition('/')
            out[k] = num_of([int(num), int(den)])
        return out
    raise ValueError(t)


def abs_meta(meta):
    """dict -> [[key, MV]...] sorted by key -- every key, the double-underscore keys Beancount writes itself included"""
    if not isinstance(meta, dict):
        raise OutOfDomain('meta %r' % (meta,))
    out = []
    for k in sorted(meta):
        if not isinstance(k, str):
            raise OutOfDomain('metadata key %r' % (k,))
        out.append([k, abs_mv(meta[k])])
    return out


def meta_of(pairs):
    """[[key, MV]...] -> dict; filename / lineno first, as beancount's new_metadata does"""
    d = {}
    for k in ('filename', 'lineno'):
        for kk, v in pairs:
            if kk == k:
                d[k] = mv_of(v)
    for k, v in pairs:
        if k not in d:
            d[k] = mv_of(v)
    return d


def mk_meta(lineno, extra=(), filename=FILENAME):
    """abstract meta with the two mandatory keys plus `extra` = iterable of (key, python value)"""
    d = {'filename': filename, 'lineno': lineno}
    d.update(dict(extra))
    return abs_meta(d)


# ---- directives -> abstract ----------------------------------------------------------------------------------
def abs_posting(p):
    if p.units is None or p.units is MISSING:
        raise OutOfDomain('incomplete posting')
    return {'acct': p.account, 'u': abs_amount(p.units), 'cost': opt(p.cost, abs_cost),
            'price': opt(p.price, abs_amount), 'flag': opt(p.flag), 'meta': opt(p.meta, abs_meta)}


def abs_entry(e):
    out = {'k': None, 'date': abs_date(e.date), 'meta': abs_meta(e.meta)}
    if isinstance(e, data.Transaction):
        out.update(k='txn', flag=e.flag, payee=opt(e.payee), narration=e.narration, tags=abs_set(e.tags),
                   links=abs_set(e.links), postings=[abs_posting(p) for p in e.postings])
        if not isinstance(e.flag, str) or not isinstance(e.narration, str):
            raise OutOfDomain('transaction flag / narration not a string')
    elif isinstance(e, data.Open):
        out.update(k='open', account=e.account, currencies=list(e.currencies or []),
                   booking=opt(e.booking, lambda b: getattr(b, 'name', str(b))))
    elif isinstance(e, data.Close):
        out.update(k='close', account=e.account)
    elif isinstance(e, data.Commodity):
        out.update(k='commodity', currency=e.currency)
    elif isinstance(e, data.Pad):
        out.update(k='pad', account=e.account, source=e.source_account)
    elif isinstance(e, data.Balance):
        out.update(k='balance', account=e.account, amount=abs_amount(e.amount), tolerance=opt(e.tolerance, abs_num),
                   diff=opt(e.diff_amount, abs_amount))
    elif isinstance(e, data.Note):
        out.update(k='note', account=e.account, comment=e.comment, tags=abs_set(e.tags), links=abs_set(e.links))
    elif isinstance(e, data.Event):
        out.update(k='event', type=e.type, description=e.description)
    elif isinstance(e, data.Query):
        out.update(k='query', name=e.name, query_string=e.query_string)
    elif isinstance(e, data.Price):
        out.update(k='price', currency=e.currency, amount=abs_amount(e.amount))
    elif isinstance(e, data.Document):
        out.update(k='document', account=e.account, filename=e.filename, tags=abs_set(e.tags), links=abs_set(e.links))
    elif isinstance(e, data.Custom):
        # custom values are (value, dtype) pairs; no table shows them: kept as their string forms
        out.update(k='custom', type=e.type, values=[str(v[0]) if isinstance(v, tuple) else str(v) for v in e.values])
    else:
        raise OutOfDomain('directive %r' % type(e).__name__)
    return out


def abstract_of(entries, options=None):
    """Project real directives to the abstract vocabulary.  `options` are not projected (only names of interest to
    the specifications are kept: operating currencies and the account root names)."""
    opts = {}
    if options:
        for k in ('operating_currency', 'name_assets', 'name_liabilities', 'name_equity', 'name_income',
                  'name_expenses', 'account_previous_balances', 'account_previous_earnings',
                  'account_previous_conversions', 'account_current_earnings', 'account_current_conversions'):
            if k in options:
                opts[k] = options[k]
    return {'entries': [abs_entry(e) for e in entries], 'options': opts}


# ---- abstract -> directives -------------------------------------------------------------------------------
def posting_of(p):
    return data.Posting(p['acct'], amount_of(p['u']), unopt(p['cost'], cost_of), unopt(p['price'], amount_of),
                        unopt(p['flag']), unopt(p['meta'], meta_of))


def entry_of(d):
    k = d['k']
    meta = meta_of(d['meta'])
    date = date_of(d['date'])
    if k == 'txn':
        return data.Transaction(meta, date, d['flag'], unopt(d['payee']), d['narration'], set_of(d['tags']),
                                set_of(d['links']), [posting_of(p) for p in d['postings']])
    if k == 'open':
        return data.Open(meta, date, d['account'], list(d['currencies']) or None,
                         unopt(d['booking'], lambda b: data.Booking[b]))
    if k == 'close':
        return data.Close(meta, date, d['account'])
    if k == 'commodity':
        return data.Commodity(meta, date, d['currency'])
    if k == 'pad':
        return data.Pad(meta, date, d['account'], d['source'])
    if k == 'balance':
        return data.Balance(meta, date, d['account'], amount_of(d['amount']), unopt(d['tolerance'], num_of),
                            unopt(d['diff'], amount_of))
    if k == 'note':
        return data.Note(meta, date, d['account'], d['comment'], set_of(d['tags']), set_of(d['links']))
    if k == 'event':
        return data.Event(meta, date, d['type'], d['description'])
    if k == 'query':
        return data.Query(meta, date, d['name'], d['query_string'])
    if k == 'price':
        return data.Price(meta, date, d['currency'], amount_of(d['amount']))
    if k == 'document':
        return data.Document(meta, date, d['account'], d['filename'], set_of(d['tags']), set_of(d['links']))
    if k == 'custom':
        from beancount.parser.grammar import ValueType
        return data.Custom(meta, date, d['type'], [ValueType(v, str) for v in d['values']])
    raise ValueError(k)


def default_options(overrides=None):
    from beancount.parser import options as options_mod
    o = copy.deepcopy(options_mod.OPTIONS_DEFAULTS)
    o['filename'] = FILENAME
    if overrides:
        o.update(overrides)
    return o


def build_entries(abstract):
    """abstract ledger -> (entries, options): the directives exactly as described (no booking, no sorting, no
    validation -- the list order is the order of the abstract ledger)."""
    return [entry_of(d) for d in abstract['entries']], default_options(abstract.get('options'))


def print_entries(entries):
    from beancount.parser import printer
    f = io.StringIO()
    printer.print_entries(entries, file=f)
    return f.getvalue()


def load_entries(abstract, header=''):
    """abstract ledger -> (entries, errors, options) through beancount's own pipeline: the directives are printed
    with beancount.parser.printer and re-loaded with loader.load_string, so parsing, booking, padding (pad
    directives produce 'P' transactions), sorting and validation run.  int metadata values are printed as Decimal
    (the printer rejects int).  The loaded entries are NOT the abstract ledger any more (sorted by date, lot dates
    filled in, transactions that fail booking dropped, new line numbers): project them again with abstract_of()."""
    from beancount import loader
    entries, _ = build_entries(abstract)
    text = header + print_entries([_printable(e) for e in entries])
    return loader.load_string(text)


def _printable_meta(meta):
    # the printer rejects int metadata values (the parser itself only produces Decimal): print them as Decimal
    if meta is None:
        return None
    return {k: (D(v) if isinstance(v, int) and not isinstance(v, bool) and k != 'lineno' else v) for k, v in meta.items()}


def _printable(e):
    e = e._replace(meta=_printable_meta(e.meta))
    if isinstance(e, data.Transaction):
        e = e._replace(postings=[p._replace(meta=_printable_meta(p.meta)) for p in e.postings])
    return e


def connect(entries, options, errors=()):
    import beanquery
    return beanquery.connect('beancount:', entries=entries, errors=list(errors), options=options)


_EXAMPLE = {}


def example_entries(seed=0, begin=datetime.date(2017, 1, 1), end=datetime.date(2019, 6, 1)):
    """the realistic ledger of beancount.scripts.example (deterministic per seed), loaded with loader.load_string"""
    key = (seed, begin, end)
    if key not in _EXAMPLE:
        import random
        from beancount import loader
        from beancount.scripts import example
        state = random.getstate()
        try:
            random.seed(seed)
            out = io.StringIO()
            example.write_example_file(datetime.date(1985, 1, 1), begin, end, True, out)
        finally:
            random.setstate(state)
        _EXAMPLE[key] = loader.load_string(out.getvalue())
    return _EXAMPLE[key]


def windows(entries, size):
    return [entries[i:i + size] for i in range(0, len(entries), size)]


# ---- random ledgers -----------------------------------------------------------------------------------------
ACCOUNTS = ['Assets:Bank:Checking', 'Assets:Bank:Savings', 'Assets:Broker', 'Liabilities:Card', 'Income:Salary',
            'Expenses:Food', 'Expenses:Rent', 'Equity:Opening']
CURRENCIES = ['USD', 'EUR', 'HOOL', 'VBMPX']
TAGS = ['trip', 'work', 'q1']
LINKS = ['inv-1', 'inv-2']
# metadata keys over the whole Beancount key syntax [a-z][a-zA-Z0-9\-_]+ : only the first character is lower case.
# 'bOth' / 'both' and 'isinCode' / 'isincode' are pairs of DIFFERENT keys that differ in the case of a letter only.
KEYS = ['note', 'ref', 'both', 'amt', 'when', 'ok', 'qty',
        'isinCode', 'isincode', 'bOth', 'accountNumber', 'tax-Advantaged', 'fee_Rate2', 'openedOn']
KEY_KINDS = {'note': 'str', 'ref': 'int', 'both': 'str', 'amt': 'amount', 'when': 'date', 'ok': 'bool', 'qty': 'dec',
             'isinCode': 'str', 'isincode': 'int', 'bOth': 'str', 'accountNumber': 'str', 'tax-Advantaged': 'bool',
             'fee_Rate2': 'dec', 'openedOn': 'date'}


def _rand_num(rng, small=False):
    """a terminating decimal with at most 3 fractional digits; small keeps products far below 2**31"""
    scale = rng.choice([0, 1, 2, 2, 3])
    hi = 999 if small else 99999
    v = D(rng.randint(-hi, hi)).scaleb(-scale)
    return v if v != 0 else D(1)


def _rand_mv(rng, key, allow_null=False, printable=False):
    kind = KEY_KINDS[key]
    if allow_null and rng.random() < 0.08:
        return None
    if kind == 'str':
        return rng.choice(['alpha', 'beta gamma', 'x', '', 'Assets:Bank:Checking'])
    if kind == 'int':
        return D(rng.randint(-5000, 5000)) if printable else rng.randint(-5000, 5000)   # the printer rejects int
    if kind == 'amount':
        return amount_mod.Amount(_rand_num(rng), rng.choice(CURRENCIES))
    if kind == 'date':
        return datetime.date(2020, 1, 1) + datetime.timedelta(days=rng.randint(0, 900))
    if kind == 'bool':
        return rng.random() < 0.5
    return _rand_num(rng)


def random_ledger(rng, n, direct=True, start=datetime.date(2020, 1, 1), accounts=None, pads=True):
    """A seeded random abstract ledger of about `n` directives in date order: opens first (some with metadata,
    currencies, booking), commodities (some with metadata of every value type), transactions with 1..4 postings
    (costs with / without date and label, prices, flags, posting metadata, duplicate sibling accounts, tags, links),
    closes, pads followed by balance assertions, notes, events, documents, queries, prices, customs.  Some accounts
    are opened / closed and some currencies declared by MORE THAN ONE directive (Beancount reports these and keeps every
    directive): a later commodity directive with other metadata, a further open directive dated before / on / after the
    first one (listed after it: date order only holds after loading), a further close directive.

    direct=True  : uses everything the data constructors accept (postings with meta None, null metadata values,
                   tags None, transactions that do not balance) -- meant for build_entries();
    direct=False : restricted to what survives printing and loading (balanced transactions, printable values) --
                   meant for load_entries()."""
    accounts = list(accounts or ACCOUNTS)
    line = [0]

    def meta(extra=()):
        line[0] += rng.randint(1, 7)
        return mk_meta(line[0], extra)

    def user_meta(p=0.4):
        if rng.random() > p:
            return []
        keys = rng.sample(KEYS, rng.randint(1, 4))
        return [(k, _rand_mv(rng, k, allow_null=direct, printable=not direct)) for k in keys]

    def own_meta(kind):
        """the keys Beancount writes itself (booking: __tolerances__ on transactions, interpolation: __automatic__ /
        __residual__ on postings, plugins: any __key__ on any directive) -- part of the dictionaries the tables present;
        direct construction only: the printer does not print them (loaded ledgers get theirs from the loader)"""
        if not direct or rng.random() > 0.3:
            return []
        if kind == 'posting':
            return [('__automatic__', True)] + ([('__residual__', True)] if rng.random() < 0.2 else [])
        if kind == 'txn':
            tol = {c: D(1).scaleb(-rng.randint(1, 4)) * rng.choice([1, 5]) for c in rng.sample(CURRENCIES, rng.randint(0, 2))}
            return [('__tolerances__', tol)] + ([('__automatic__', False)] if rng.random() < 0.15 else [])
        return [('__implicit_prices__', 'from_price')]

    day = [start]

    def next_date():
        day[0] += datetime.timedelta(days=rng.choice([0, 0, 1, 1, 2, 5, 30]))
        return day[0].toordinal()

    out = []
    opened = []
    for a in accounts:
        if rng.random() < 0.85:
            cur = rng.sample(CURRENCIES, rng.randint(0, 2))
            booking = [] if rng.random() < 0.7 else [rng.choice(['STRICT', 'FIFO', 'NONE'])]
            if not direct and a == 'Assets:Broker':
                booking = []
                cur = []
            if not direct:
                cur = []
            out.append({'k': 'open', 'date': start.toordinal(), 'meta': meta(user_meta(0.5) + own_meta('open')), 'account': a,
                        'currencies': sorted(cur), 'booking': booking})
            opened.append(a)
    if not opened:
        opened = accounts[:2]
        for a in opened:
            out.append({'k': 'open', 'date': start.toordinal(), 'meta': meta(), 'account': a, 'currencies': [],
                        'booking': []})
    if not direct and len(opened) < 2:
        opened = accounts[:2]
    for c in CURRENCIES:
        if rng.random() < 0.6:
            out.append({'k': 'commodity', 'date': start.toordinal(), 'meta': meta(user_meta(0.7) + own_meta('commodity')), 'currency': c})
    closed = set()
    guard = 0
    while len(out) < n and guard < 10 * n + 50:
        guard += 1
        r = rng.random()
        live = [a for a in (opened if not direct else accounts) if a not in closed] or opened
        if rng.random() < 0.07:
            # one more directive for an account / a currency that (most probably) has one already
            which = rng.random()
            if which < 0.5:
                out.append({'k': 'commodity', 'date': next_date(), 'meta': meta(user_meta(0.8)),
                            'currency': rng.choice(CURRENCIES)})
            elif which < 0.8:
                when = rng.choice([start.toordinal() - rng.randint(1, 20), start.toordinal(), next_date()])
                out.append({'k': 'open', 'date': when, 'meta': meta(user_meta(0.7)), 'account': rng.choice(opened),
                            'currencies': sorted(rng.sample(CURRENCIES, rng.randint(0, 2))) if direct else [],
                            'booking': []})
            elif closed - {'Assets:Never:Opened'}:
                a = rng.choice(sorted(closed - {'Assets:Never:Opened'}))
                when = next_date() if rng.random() < 0.6 else start.toordinal() + rng.randint(0, 3)
                out.append({'k': 'close', 'date': when, 'meta': meta(user_meta(0.5)), 'account': a})
            continue
        if r < 0.55:
            npost = rng.choice([1, 2, 2, 2, 3, 4]) if direct else rng.choice([2, 2, 3])
            cur = rng.choice(['USD', 'EUR'])
            posts = []
            total = D(0)
            for j in range(npost):
                acct = rng.choice(live)
                kind = rng.random()
                flag = [] if rng.random() < 0.8 else [rng.choice(['!', '*', 'M'])]
                pm = [meta(user_meta(0.35) + own_meta('posting'))] if (not direct or rng.random() < 0.8) else []
                if not direct and j == npost - 1:
                    # balancing posting
                    amt = -total if total != 0 else D(1)
                    posts.append({'acct': acct, 'u': {'n': abs_num(amt), 'c': cur}, 'cost': [], 'price': [],
                                  'flag': flag, 'meta': pm})
                    if total == 0:
                        posts.insert(0, {'acct': rng.choice(live), 'u': {'n': abs_num(D(-1)), 'c': cur}, 'cost': [],
                                         'price': [], 'flag': [], 'meta': [meta()]})
                    break
                if kind < 0.45:
                    u = _rand_num(rng) if direct else D(rng.randint(-99999, 99999)).scaleb(-2)
                    posts.append({'acct': acct, 'u': {'n': abs_num(u), 'c': cur}, 'cost': [], 'price': [],
                                  'flag': flag, 'meta': pm})
                    total += u
                elif kind < 0.75:
                    u = abs(_rand_num(rng, small=True)) if direct else D(rng.randint(1, 50))
                    cn = abs(_rand_num(rng, small=True)) if direct else D(rng.randint(1, 99999)).scaleb(-2)
                    cdate = [] if (direct and rng.random() < 0.3) else [day[0].toordinal() - rng.randint(0, 40)]
                    label = [] if rng.random() < 0.6 else [rng.choice(['lot-a', 'lot-b'])]
                    price = [] if rng.random() < 0.6 else [{'n': abs_num(abs(_rand_num(rng, small=True))), 'c': cur}]
                    com = rng.choice(['HOOL', 'VBMPX'])
                    posts.append({'acct': acct if direct else 'Assets:Broker', 'u': {'n': abs_num(u), 'c': com},
                                  'cost': [{'n': abs_num(cn), 'c': cur, 'date': cdate, 'label': label}],
                                  'price': price, 'flag': flag, 'meta': pm})
                    total += u * cn
                else:
                    u = _rand_num(rng, small=True) if direct else D(rng.randint(1, 999)).scaleb(-1)
                    pn = abs(_rand_num(rng, small=True)) if direct else D(rng.randint(1, 999)).scaleb(-2)
                    other = 'EUR' if cur == 'USD' else 'USD'
                    posts.append({'acct': acct, 'u': {'n': abs_num(u), 'c': other}, 'cost': [],
                                  'price': [{'n': abs_num(pn), 'c': cur}], 'flag': flag, 'meta': pm})
                    total += u * pn
            tags = [sorted(rng.sample(TAGS, rng.randint(0, 2)))]
            links = [sorted(rng.sample(LINKS, rng.randint(0, 1)))]
            if direct and rng.random() < 0.1:
                tags, links = [], []
            payee = [] if rng.random() < 0.4 else [rng.choice(['Cafe', 'Landlord', 'ACME', ''] if direct
                                                              else ['Cafe', 'Landlord', 'ACME'])]
            narr = rng.choice(['lunch', 'rent', 'buy', ''])
            out.append({'k': 'txn', 'date': next_date(), 'meta': meta(user_meta(0.4) + own_meta('txn')),
                        'flag': rng.choice(['*', '*', '!']), 'payee': payee, 'narration': narr, 'tags': tags,
                        'links': links, 'postings': posts})
        elif r < 0.62 and pads and len(live) >= 2:
            a, b = rng.sample(live, 2)
            d0 = next_date()
            out.append({'k': 'pad', 'date': d0, 'meta': meta(user_meta(0.2)), 'account': a, 'source': b})
            day[0] += datetime.timedelta(days=1)
            out.append({'k': 'balance', 'date': day[0].toordinal(), 'meta': meta(user_meta(0.2)), 'account': a,
                        'amount': {'n': abs_num(_rand_num(rng)), 'c': 'USD'}, 'tolerance': [], 'diff': []})
        elif r < 0.68:
            tol = [] if rng.random() < 0.6 else [abs_num(D('0.05'))]
            diff = [] if (not direct or rng.random() < 0.6) else [{'n': abs_num(_rand_num(rng)), 'c': 'USD'}]
            if direct:
                out.append({'k': 'balance', 'date': next_date(), 'meta': meta(user_meta(0.3)), 'account': rng.choice(live),
                            'amount': {'n': abs_num(_rand_num(rng)), 'c': rng.choice(CURRENCIES)}, 'tolerance': tol,
                            'diff': diff})
        elif r < 0.74:
            tl = ([], []) if rng.random() < 0.5 else ([sorted(rng.sample(TAGS, 1))], [sorted(rng.sample(LINKS, 1))])
            out.append({'k': 'note', 'date': next_date(), 'meta': meta(user_meta(0.3)), 'account': rng.choice(live),
                        'comment': rng.choice(['called the bank', 'n/a', '']), 'tags': tl[0], 'links': tl[1]})
        elif r < 0.79:
            out.append({'k': 'event', 'date': next_date(), 'meta': meta(user_meta(0.3)),
                        'type': rng.choice(['location', 'employer']), 'description': rng.choice(['Paris', 'ACME', ''])})
        elif r < 0.84:
            out.append({'k': 'price', 'date': next_date(), 'meta': meta(user_meta(0.3) + own_meta('price')),
                        'currency': rng.choice(['HOOL', 'EUR']), 'amount': {'n': abs_num(abs(_rand_num(rng))), 'c': 'USD'}})
        elif r < 0.88:
            tl = ([], []) if rng.random() < 0.5 else ([sorted(rng.sample(TAGS, 2))], [[]])
            out.append({'k': 'document', 'date': next_date(), 'meta': meta(user_meta(0.3)), 'account': rng.choice(live),
                        'filename': '/tmp/doc%d.pdf' % rng.randint(1, 9), 'tags': tl[0], 'links': tl[1]})
        elif r < 0.91:
            out.append({'k': 'query', 'date': next_date(), 'meta': meta(user_meta(0.3)), 'name': 'q%d' % rng.randint(1, 9),
                        'query_string': 'SELECT account'})
        elif r < 0.93:
            out.append({'k': 'custom', 'date': next_date(), 'meta': meta(user_meta(0.3)), 'type': 'budget',
                        'values': ['monthly']})
        elif r < 0.97:
            cand = [a for a in opened if a not in closed]
            if len(cand) > 2:
                a = rng.choice(cand)
                if direct or a not in ('Assets:Broker',):
                    closed.add(a)
                    out.append({'k': 'close', 'date': next_date(), 'meta': meta(user_meta(0.3)), 'account': a})
        else:
            # a close directive for an account that was never opened (direct construction only)
            a = 'Assets:Never:Opened'
            if direct and a not in closed:
                closed.add(a)
                out.append({'k': 'close', 'date': next_date(), 'meta': meta(), 'account': a})
    return {'entries': out, 'options': {}}
