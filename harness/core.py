"""Check context: tiers, seeds, work directory, TLC legs, verdict bookkeeping, known findings, evidence."""
import fnmatch
import hashlib
import json
import os
import random
import shutil
import sys
import time

from . import tlc as tlcmod

VERIF = os.path.dirname(os.path.dirname(os.path.abspath(__file__)))
REPO = os.environ.get('VERIF_REPO', '/repo')
SPEC = os.path.join(VERIF, 'spec')
EVID = os.environ.get('VERIF_EVIDENCE_DIR', os.path.join(VERIF, 'evidence'))
LEVELS = ('exploration', 'fault_enumeration', 'model_checking', 'proof', 'translation_validation', 'other')


class MachineryError(Exception):
    pass


def bootstrap_repo():
    """Make `import beanquery` resolve to the working tree under test (default /repo)."""
    if REPO not in sys.path:
        sys.path.insert(0, REPO)
    import beanquery            # noqa
    import beanquery.query_env  # noqa  (fills the function registry)
    got = os.path.dirname(os.path.dirname(os.path.abspath(beanquery.__file__)))
    if os.path.realpath(got) != os.path.realpath(REPO):
        raise MachineryError('beanquery imported from %s, expected %s' % (got, REPO))
    return beanquery


def load_findings():
    path = os.path.join(VERIF, 'known_findings.json')
    out = {'findings': [], 'fixed': []}
    paths = [path] if os.path.exists(path) else []
    frag = os.path.join(VERIF, 'known_findings.d')
    if os.path.isdir(frag):
        paths += [os.path.join(frag, n) for n in sorted(os.listdir(frag)) if n.endswith('.json')]
    for p in paths:
        with open(p) as f:
            d = json.load(f)
        out['findings'] += d.get('findings', [])
        out['fixed'] += d.get('fixed', [])
    return out


class Ctx:
    def __init__(self, prop, tier, seed):
        self.prop = prop
        self.tier = tier
        self.seed = seed
        self.rng = random.Random(seed)
        self.t0 = time.time()
        self.work = os.path.join(VERIF, '.work', '%s-%d' % (prop, os.getpid()))
        shutil.rmtree(self.work, ignore_errors=True)
        os.makedirs(self.work)
        self.states = 0
        self.transitions = 0
        self.traces = 0
        self.evaluations = 0
        self.skipped = 0
        self.distinct = set()
        self.samples = []
        self.tlc_runs = []
        self.legs = {}
        self.violations = []
        self.violation_keys = {}
        self.known_hits = {}
        self.assumptions = []
        self.notes = []
        self.rule = ''
        self.exhaustive = None
        self.extra = {}
        self._findings = [f for f in load_findings().get('findings', []) if f.get('property') == prop]

    # ---- tiers -------------------------------------------------------------------------------
    @property
    def quick(self):
        return self.tier == 'quick'

    def pick(self, quick, thorough):
        return quick if self.tier == 'quick' else thorough

    def log(self, *a):
        print('[%s %6.1fs]' % (self.prop, time.time() - self.t0), *a, flush=True)

    def path(self, name):
        return os.path.join(self.work, name)

    # ---- TLC legs ----------------------------------------------------------------------------
    def tlc(self, module, cfg, leg='MC', expect_violation=None, must_cover=(), **kw):
        """Run TLC; add its counts to the evidence.  A property violation found by TLC on the spec is returned
        to the caller (res.violated); machinery failures raise."""
        kw.setdefault('workers', 16)
        kw.setdefault('timeout', self.pick(900, 7200))
        if must_cover:
            kw['coverage'] = True
        try:
            res = tlcmod.run(module, cfg, self.work, **kw)
        except tlcmod.TLCError as ex:
            raise MachineryError(str(ex)) from ex
        self.states += res.distinct
        self.transitions += res.generated
        s = res.summary()
        s['leg'] = leg
        s['module'] = module
        s['cfg'] = cfg
        self.tlc_runs.append(s)
        self.log('TLC %s %s/%s: %d generated, %d distinct, depth %d, %d printed, %.1fs%s' % (
            leg, module, cfg, res.generated, res.distinct, res.depth, res.nprinted, res.wall,
            (' VIOLATED ' + ','.join(res.violated)) if res.violated else ''))
        for a in must_cover:
            if res.coverage.get(a, (0, 0))[1] == 0:
                raise MachineryError('vacuity: action %s of %s/%s was never taken (coverage %s)' % (
                    a, module, cfg, res.coverage))
        if expect_violation is not None:
            exp = (expect_violation,) if isinstance(expect_violation, str) else tuple(expect_violation)
            if not any(x in res.violated for x in exp):
                raise MachineryError('non-vacuity run %s/%s: expected TLC to violate %s, got %s' % (
                    module, cfg, expect_violation, res.violated))
        return res

    # ---- bookkeeping -------------------------------------------------------------------------
    def case(self, key=None, nontrivial=True, n=1):
        self.evaluations += n
        if key is not None and nontrivial:
            if not isinstance(key, (str, bytes)):
                key = json.dumps(key, sort_keys=True, default=str)
            if isinstance(key, str):
                key = key.encode()
            self.distinct.add(hashlib.blake2b(key, digest_size=8).digest())

    def sample(self, case, limit=6):
        if len(self.samples) < limit:
            self.samples.append(case)

    def leg(self, name, **kw):
        d = self.legs.setdefault(name, {})
        for k, v in kw.items():
            if isinstance(v, (int, float)) and isinstance(d.get(k), (int, float)):
                d[k] += v
            else:
                d[k] = v

    def violation(self, key, clause, case, leg='S2C', expected=None, observed=None):
        """Report a property violation on the code (or on the spec of the code's mechanism).

        key: stable identifier of WHAT fails (input / call site / history), matched against known_findings.json.
        Returns True if it is a known finding (reported once as KNOWN-FINDING), False for a new violation."""
        for f in self._findings:
            keys = f.get('keys', [])
            if any(key == k or fnmatch.fnmatchcase(key, k) for k in keys):
                hit = self.known_hits.setdefault(f['id'], {'finding': f, 'n': 0, 'example': key})
                hit['n'] += 1
                return True
        if key in self.violation_keys:
            self.violation_keys[key] += 1
            return False
        self.violation_keys[key] = 1
        if len(self.violations) < 50:
            os.makedirs(os.path.join(EVID, 'replay'), exist_ok=True)
            path = os.path.join(EVID, 'replay', '%s-%d.json' % (self.prop, len(self.violations) + 1))
            with open(path, 'w') as f:
                json.dump({'property': self.prop, 'leg': leg, 'key': key, 'clause': clause, 'case': case,
                           'expected': expected, 'observed': observed, 'seed': self.seed, 'tier': self.tier},
                          f, indent=1, default=str)
            self.violations.append((key, clause, path))
            self.log('violation key=%s clause=%s' % (key, clause))
        else:
            self.violations.append((key, clause, self.violations[0][2]))
        return False

    # ---- finishing ---------------------------------------------------------------------------
    def finish(self, level='model_checking'):
        wall = time.time() - self.t0
        cov = {
            'states': self.states,
            'transitions': self.transitions,
            'traces_validated_against_impl': self.traces,
            'evaluations': self.evaluations,
            'distinct_nontrivial': len(self.distinct),
            'rule': self.rule,
            'samples': self.samples or ['(none)'],
            'skipped_out_of_domain': self.skipped,
            'tlc_runs': self.tlc_runs,
            'legs': self.legs,
            'known_findings_hit': [{'id': k, 'n': v['n'], 'example': v['example']} for k, v in self.known_hits.items()],
            'repo': REPO,
        }
        if self.exhaustive is not None:
            cov['exhaustive'] = self.exhaustive
        cov.update(self.extra)
        ev = {
            'property_id': self.prop, 'tier': self.tier, 'seed': self.seed, 'level': level,
            'coverage': cov, 'assumptions': self.assumptions, 'wall_s': round(wall, 2),
            'violations': len(self.violations), 'notes': self.notes,
        }
        validate_evidence(ev)
        os.makedirs(EVID, exist_ok=True)
        with open(os.path.join(EVID, self.prop + '.json'), 'w') as f:
            json.dump(ev, f, indent=1, default=str)
            f.write('\n')
        for k, v in self.known_hits.items():
            print('KNOWN-FINDING: property=%s %s [%s; %d case(s), e.g. %s]' % (
                self.prop, v['finding']['what'], k, v['n'], v['example']), flush=True)
        seen = set()
        for key, clause, path in self.violations:
            if path in seen:
                continue
            seen.add(path)
            print('VIOLATION property=%s replay=%s' % (self.prop, path), flush=True)
            print('  key=%s clause=%s cases=%d' % (key, clause, self.violation_keys.get(key, 1)), flush=True)
        shutil.rmtree(self.work, ignore_errors=True)
        self.log('done: %d states, %d transitions, %d traces/cases against impl, %d evaluations, %d distinct, '
                 '%d violations, %.1fs' % (self.states, self.transitions, self.traces, self.evaluations,
                                           len(self.distinct), len(self.violations), wall))
        return 1 if self.violations else 0

    def cleanup(self):
        shutil.rmtree(self.work, ignore_errors=True)


def validate_evidence(ev):
    """Structural validation mirroring /root/.vp/EVIDENCE.schema.json (jsonschema is not importable from /venv)."""
    for k in ('property_id', 'tier', 'seed', 'level', 'coverage', 'wall_s'):
        if k not in ev:
            raise MachineryError('evidence lacks %s' % k)
    if ev['tier'] not in ('quick', 'thorough') or ev['level'] not in LEVELS or not isinstance(ev['seed'], int):
        raise MachineryError('evidence header invalid')
    c = ev['coverage']
    if ev['level'] == 'model_checking':
        if not (isinstance(c.get('states'), int) and c['states'] >= 1 and isinstance(c.get('transitions'), int)
                and c['transitions'] >= 1 and isinstance(c.get('traces_validated_against_impl'), int)
                and isinstance(c.get('samples'), list) and c['samples']):
            raise MachineryError('model_checking evidence needs states>=1, transitions>=1, traces, samples')
    else:
        if not (isinstance(c.get('evaluations'), int) and isinstance(c.get('distinct_nontrivial'), int)):
            raise MachineryError('evidence needs evaluations / distinct_nontrivial')
