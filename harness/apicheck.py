"""API-grain composition leg (spec/Beanquery.tla): histories of execute(real statement) / fetch calls on one connection,
recorded from the real code and replayed by TLC through Compile + Exec + the cursor protocol (Trace_Beanquery)."""
import json

import beanquery

from harness import bql, selectq, selectcheck
from harness import tables as ht
from harness.core import MachineryError


def run(ctx, nfiles, ntraces, maxlen):
    total = 0
    rejected = 0
    for fno in range(nfiles):
        gen = selectcheck.RandomQueries(ctx.rng)
        rows = gen.table(ctx.rng.choice([0, 2, 5, 9, 14]))
        pyrows = [tuple(bql.to_py(r[c]) for c, _ in selectcheck.COLS) for r in rows]
        path = ctx.path('api_%d.ndjson' % fno)
        events = [{'op': 'table', 'sch': selectcheck.SCH, 'rows': rows}]
        for tid in range(ntraces):
            conn = ht.connection(ht.HarnessTable('g', selectcheck.COLS, pyrows))
            cursors = {}
            events.append({'op': 'begin', 'tid': tid})
            for _ in range(ctx.rng.randint(2, maxlen)):
                c = ctx.rng.randint(1, 2)
                cur = cursors.setdefault(c, conn.cursor())
                ev = {'tid': tid, 'c': c, 'arg': 0, 'err': '', 'ret': [], 'desc': [], 'q': {}}
                k = ctx.rng.random()
                if k < 0.3 or cur.description is None and k < 0.7:
                    q = gen.query(ctx.rng.choice(['plain', 'order', 'group', 'pivot', 'order']))
                    if q['pivot']:
                        q['pivot'] = []
                    if ctx.rng.random() < 0.12:
                        q['targets'] = q['targets'] + [{'e': {'k': 'col', 'n': 'nope'}, 'as': 'bad'}]
                    ev['op'] = 'execute'
                    ev['q'] = q
                    try:
                        cur.execute(selectq.query_ast(q, 'g'))
                        ev['desc'] = [[col.name, ([t for t, v in selectq.TYPEMAP.items() if v is col.datatype] or ['?'])[0]] for col in cur.description]
                    except beanquery.CompilationError:
                        ev['err'] = 'CompilationError'
                    except bql.OutOfDomain:
                        continue
                    except Exception as ex:  # noqa
                        ev['err'] = type(ex).__name__
                elif k < 0.55:
                    ev['op'] = 'fetchone'
                    r = cur.fetchone()
                    ev['ret'] = selectq.proj_rows([r] if r is not None else [])
                elif k < 0.85:
                    ev['op'] = 'fetchmany'
                    ev['arg'] = ctx.rng.choice([1, 2, 3, 10])
                    ev['ret'] = selectq.proj_rows(cur.fetchmany(ev['arg']))
                else:
                    ev['op'] = 'fetchall'
                    ev['ret'] = selectq.proj_rows(cur.fetchall())
                ev['rownumber'] = cur.rownumber
                ev['rowcount'] = cur.rowcount
                events.append(ev)
        with open(path, 'w') as f:
            for ev in events:
                f.write(json.dumps(ev) + '\n')
        res = ctx.tlc('Trace_Beanquery', 'Trace_Beanquery.cfg', leg='C2S-api', workers=1, env={'TRACE_FILE': path},
                      timeout=ctx.pick(900, 3600))
        if res.violated:
            ctx.violation('api:trace-invariant:' + ','.join(res.violated), 'an API-grain invariant fails in a state of a recorded history',
                          {'behaviour': res.behaviour[:3000]}, 'C2S')
        for rj in res.printed:
            if isinstance(rj, dict) and rj.get('verdict') == 'rejected':
                ev = events[rj['line'] - 1]
                hist = [e for e in events[:rj['line']] if e.get('tid') == ev.get('tid')]
                rejected += 1
                ctx.violation('api:%s:%s' % (ev['op'], ev.get('err') or 'mismatch'),
                              'recorded API event not explained by Beanquery.tla',
                              {'event': ev, 'text': selectq.query_text(ev['q'], 'g') if ev.get('q') else None, 'history': hist[-8:], 'rows': rows}, 'C2S')
        if res.post_failed or res.depth != len(events):
            raise MachineryError('Trace_Beanquery did not consume the trace: depth %d, lines %d' % (res.depth, len(events)))
        total += len(events)
        ctx.case('api-file-%d' % fno, n=len(events))
    ctx.traces += nfiles * ntraces - rejected
    ctx.leg('C2S-api', histories=nfiles * ntraces, events=total, rejected=rejected)
