"""API-grain composition leg (spec/Beanquery.tla): histories of execute(real statement) / fetch calls on one connection,
recorded from the real code and replayed by TLC through Compile + Exec + the cursor protocol (Trace_Beanquery)."""
import json

import beanquery
from beanquery.parser import ast

from harness import bql, selectq, selectcheck
from harness import tables as ht
from harness.core import MachineryError


UNIVERSE = dict(selectcheck.COLS)


def table_version(ctx, gen, name):
    """a table value for the registry: the full column set or a permuted subset of it, with fresh random rows"""
    rng = ctx.rng
    cols = list(selectcheck.COLS)
    if rng.random() < 0.45:
        cols = rng.sample(cols, rng.randint(2, len(cols)))
    rows = gen.table(rng.choice([0, 1, 2, 5, 9]))
    names = [c for c, _ in cols]
    pyrows = [tuple(bql.to_py(r[c]) for c in names) for r in rows]
    ev = {'op': 'register', 'name': name, 'sch': {c: selectcheck.SCH[c] for c in names}, 'cols': names,
          'rows': [{c: r[c] for c in names} for r in rows]}
    return ht.HarnessTable(name, cols, pyrows), ev


def retarget(stmt, name):
    """the same parsed statement, pointed at another table name (the innermost FROM of a nested statement)"""
    node = stmt
    while isinstance(node.from_clause, ast.Select):
        node = node.from_clause
    if isinstance(node.from_clause, ast.Table) and node.from_clause.name != name:
        node.from_clause = ast.Table(name)


def run(ctx, nfiles, ntraces, maxlen):
    total = 0
    rejected = 0
    nreg = nreexec = 0
    for fno in range(nfiles):
        gen = selectcheck.RandomQueries(ctx.rng)
        path = ctx.path('api_%d.ndjson' % fno)
        events = [{'op': 'header'}]
        for tid in range(ntraces):
            conn = beanquery.Connection()
            cursors = {}
            events.append({'op': 'begin', 'tid': tid})
            t, rev = table_version(ctx, gen, 'g')
            conn.tables['g'] = t
            rev['tid'] = tid
            events.append(rev)
            pool = []          # statements (abstract, AST object) executed so far: re-executed as the SAME object later
            # half of the histories open with a scripted situation (then go on at random): a statement executed, the table
            # replaced (other rows / other columns) or a second table registered, the SAME statement object executed again
            script = []
            if ctx.rng.random() < 0.5:
                kind = ctx.rng.choice(['star', 'star', 'plain', 'any'])
                second = ctx.rng.choice(['g', 'g', 'h'])
                script = [('exec-new', kind, 'g'), ('fetch',), ('register', second), ('exec-same', second), ('fetchall',)]
            forced = None
            for _ in range(ctx.rng.randint(2, maxlen) + len(script)):
                c = ctx.rng.randint(1, 2)
                cur = cursors.setdefault(c, conn.cursor())
                ev = {'tid': tid, 'c': c, 'arg': 0, 'err': '', 'ret': [], 'desc': [], 'q': {}, 'name': ''}
                k = ctx.rng.random()
                forced = script.pop(0) if script else None
                if forced:
                    k = {'exec-new': 0.2, 'exec-same': 0.2, 'register': 0.0, 'fetch': 0.7, 'fetchall': 0.95}[forced[0]]
                if k < 0.15:
                    name = forced[1] if forced else ctx.rng.choice(['g', 'g', 'h', 'j'])
                    t, rev = table_version(ctx, gen, name)
                    conn.tables[name] = t          # a new table, or the replacement of a registered one
                    rev['tid'] = tid
                    events.append(rev)
                    nreg += 1
                    continue
                if k < 0.4 or cur.description is None and k < 0.7:
                    name = ctx.rng.choice(['g', 'g', 'g', 'h', 'j'])
                    if forced and forced[0] == 'exec-same' and pool:
                        q, stmt = pool[-1]
                        name = forced[1]
                        nreexec += 1
                    elif not forced and pool and ctx.rng.random() < 0.45:
                        stars = [x for x in pool if x[0].get('star')]
                        q, stmt0 = ctx.rng.choice(stars if stars and ctx.rng.random() < 0.5 else pool)
                        stmt = stmt0 if ctx.rng.random() < 0.7 else None
                        nreexec += 1
                    else:
                        fam = ctx.rng.choice(['plain', 'order', 'group', 'pivot', 'order', 'nested'])
                        if forced and forced[0] == 'exec-new':
                            name = forced[2]
                            fam = 'plain' if forced[1] in ('star', 'plain') else fam
                        q = gen.query(fam)
                        selectcheck.strip_private(q)
                        if q['pivot']:
                            q['pivot'] = []
                        if ctx.rng.random() < 0.2 or (forced and forced[1] == 'star'):
                            q['star'] = True
                            q['targets'] = []
                            q['group'] = []
                            q['having'] = {'k': 'none'}
                            q['order'] = [o for o in q['order'] if o['r']['k'] == 'expr' and o['r']['e'].get('k') == 'col']
                        elif ctx.rng.random() < 0.1:
                            q['targets'] = q['targets'] + [{'e': {'k': 'col', 'n': 'nope'}, 'as': 'bad'}]
                        stmt = None
                    if '"insub"' in json.dumps(q):
                        name = 'g'          # IN-subqueries are written against #g: keep the statement on the same base table
                    ev['op'] = 'execute'
                    ev['q'] = q
                    ev['name'] = name
                    try:
                        if stmt is None:
                            stmt = selectq.query_ast(q, name)
                            pool.append((q, stmt))
                        else:
                            retarget(stmt, name)
                        cur.execute(stmt)
                        ev['desc'] = [[col.name, ([t for t, v in selectq.TYPEMAP.items() if v is col.datatype] or ['?'])[0]] for col in cur.description]
                    except beanquery.CompilationError:
                        ev['err'] = 'CompilationError'
                    except bql.OutOfDomain:
                        continue
                    except Exception as ex:  # noqa
                        ev['err'] = type(ex).__name__
                elif k < 0.6:
                    ev['op'] = 'fetchone'
                    r = cur.fetchone()
                    ev['ret'] = selectq.proj_rows([r] if r is not None else [])
                elif k < 0.87:
                    ev['op'] = 'fetchmany'
                    ev['arg'] = ctx.rng.choice([1, 2, 3, 10])
                    ev['ret'] = selectq.proj_rows(cur.fetchmany(ev['arg']))
                else:
                    ev['op'] = 'fetchall'
                    ev['ret'] = selectq.proj_rows(cur.fetchall())
                ev['rownumber'] = cur.rownumber
                ev['rowcount'] = cur.rowcount
                events.append(ev)
        with open(path, 'w') as f:
            for ev in events:
                f.write(json.dumps(ev) + '\n')
        res = ctx.tlc('Trace_Beanquery', 'Trace_Beanquery.cfg', leg='C2S-api', workers=1, env={'TRACE_FILE': path},
                      timeout=ctx.pick(900, 3600))
        if res.violated:
            ctx.violation('api:trace-invariant:' + ','.join(res.violated), 'an API-grain invariant fails in a state of a recorded history',
                          {'behaviour': res.behaviour[:3000]}, 'C2S')
        for rj in res.printed:
            if isinstance(rj, dict) and rj.get('verdict') == 'rejected':
                ev = events[rj['line'] - 1]
                hist = [e for e in events[:rj['line']] if e.get('tid') == ev.get('tid')]
                rejected += 1
                ctx.violation('api:%s:%s' % (ev['op'], ev.get('err') or 'mismatch'),
                              'recorded API event not explained by Beanquery.tla',
                              {'event': ev, 'text': selectq.query_text(ev['q'], ev.get('name') or 'g') if ev.get('q') else None, 'history': hist[-10:]}, 'C2S')
        if res.post_failed or res.depth != len(events):
            raise MachineryError('Trace_Beanquery did not consume the trace: depth %d, lines %d' % (res.depth, len(events)))
        total += len(events)
        ctx.case('api-file-%d' % fno, n=len(events))
    ctx.traces += nfiles * ntraces - rejected
    ctx.leg('C2S-api', histories=nfiles * ntraces, events=total, rejected=rejected, registrations=nreg, statements_reexecuted=nreexec)
    if nreg < 10 or nreexec < 10:
        raise MachineryError('vacuity: too few table replacements / re-executed statements in the API histories')
