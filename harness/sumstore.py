"""Only C12: sum() over INVENTORY values (spec/InvSum.tla, spec/SumStore.tla).

Tables whose rows HOLD Inventory objects that outlive a statement (a user table registered with
`conn.tables[name] = table`, possibly shared by several connections), abstract aggregate statements
[nodes, grouped, having, limit] of InvSum <-> BQL, histories of statements, and the projection of what they return.

node = [kind, f]:  "sum" sum(inv) | "fsum" f(sum(inv)) | "sumf" sum(f(inv));  f = [name, target currency, date ordinal]
"""
import datetime

from harness import balance as hb
from harness.tables import HarnessTable

NOF = ['', '', 0]
SUM = ['sum', NOF]


def f_expr(f, x):
    name, tgt, d = f
    date = '' if not d else ', %s' % datetime.date.fromordinal(d).isoformat()
    if name in ('units', 'cost'):
        return '%s(%s)' % (name, x)
    if name == 'value':
        return 'value(%s%s)' % (x, date)
    return "convert(%s, '%s'%s)" % (x, tgt, date)


def node_expr(nd, col='inv'):
    kind, f = nd
    if kind == 'sum':
        return 'sum(%s)' % col
    if kind == 'fsum':
        return f_expr(f, 'sum(%s)' % col)
    if kind == 'sumf':
        return 'sum(%s)' % f_expr(f, col)
    raise ValueError(kind)


def node_name(nd):
    kind, f = nd
    return kind if kind == 'sum' else '%s-%s%s' % (kind, f[0], '-dated' if f[2] else '')


def stmt(nodes, grouped=False, having=False, limit=0):
    """limit: the LIMIT clause, 0 for none (no ORDER BY: which groups are returned is not C12's business)"""
    return {'nodes': [list(n) for n in nodes], 'grouped': bool(grouped), 'having': bool(having), 'limit': int(limit)}


HAVING = 'NOT empty(sum(%s))'


def stmt_text(s, source='#lots', col='inv', key='g'):
    tg = (['%s AS g' % key] if s['grouped'] else []) + ['%s AS a%d' % (node_expr(nd, col), n) for n, nd in enumerate(s['nodes'])]
    text = 'SELECT %s FROM %s' % (', '.join(tg), source)
    if s['grouped']:
        text += ' GROUP BY g'
        if s['having']:
            text += ' HAVING ' + HAVING % col
    elif s['having']:
        raise ValueError('BQL has HAVING after GROUP BY only')
    if s.get('limit'):
        text += ' LIMIT %d' % s['limit']
    return text


def stmt_ast(s, source='lots', col='inv', key='g'):
    """assembled from parsed fragments (TatSu is slow); `source`: a table name or an assembled Select"""
    from beanquery import parser
    ast = parser.ast
    tg = [ast.Target(hb.fragment(key), 'g')] if s['grouped'] else []
    tg += [ast.Target(hb.fragment(node_expr(nd, col)), 'a%d' % n) for n, nd in enumerate(s['nodes'])]
    gb = None
    if s['grouped']:
        gb = ast.GroupBy([ast.Column('g')], hb.fragment(HAVING % col) if s['having'] else None)
    elif s['having']:
        raise ValueError('BQL has HAVING after GROUP BY only')
    return ast.Select(tg, ast.Table(source) if isinstance(source, str) else source, None, gb, None, None,
                      s.get('limit') or None, None)


def project(raw, s):
    """rows of a statement -> [[key, [ {lot key: Fraction} | None, ...]], ...]; key 0 when not grouped"""
    out = []
    for r in raw:
        vals = r[1:] if s['grouped'] else r
        out.append([r[0] if s['grouped'] else 0, [hb.proj_any(v) for v in vals]])
    return out


def inventory_of(positions, scale=1):
    """specification vocabulary ([[cur, [cn, cc, cd, cl]], n], ...) -> a Beancount Inventory; units divided by scale"""
    from beancount.core import amount, inventory, position
    inv = inventory.Inventory()
    for (cur, cost), n in positions:
        inv.add_position(position.Position(amount.Amount(hb.D(n) / scale, cur), hb.mk_cost(cost)))
    return inv


def make_table(rows, name='lots'):
    """rows: [(group key, Inventory | None)]"""
    from beancount.core import inventory
    return HarnessTable(name, [('g', int), ('inv', inventory.Inventory)], rows)


class Session:
    """one table registered on one or several connections over the same ledger (the price map comes from the
    ledger); statements go to any of them, through Connection.execute or one long-lived cursor per connection, as AST
    or text"""

    def __init__(self, conns, table):
        self.conns = list(conns)
        for c in self.conns:
            c.tables[table.name] = table
        self.cursors = [None] * len(self.conns)
        self.table = table

    def execute(self, s, rng, as_text=False):
        n = rng.randrange(len(self.conns))
        what = stmt_text(s, '#' + self.table.name) if as_text else stmt_ast(s, self.table.name)
        if rng.random() < 0.5:
            cur = self.conns[n].execute(what)
        else:
            if self.cursors[n] is None:
                self.cursors[n] = self.conns[n].cursor()
            cur = self.cursors[n]
            cur.execute(what)
        return cur.fetchall()


def random_stmt(rng, fs, max_nodes=3):
    """an aggregate statement with 1..max_nodes nodes, biased towards several nodes over the same operand"""
    k = rng.choice((1, 2, 2, 3)[:max_nodes + 1])
    nodes = []
    for _ in range(k):
        r = rng.random()
        if r < 0.4 or not fs:
            nodes.append(list(SUM))
        elif r < 0.75:
            nodes.append(['fsum', list(rng.choice(fs))])
        else:
            nodes.append(['sumf', list(rng.choice(fs))])
    grouped = rng.random() < 0.5
    having = grouped and rng.random() < 0.3
    # a LIMIT smaller than the number of groups returns some of them: each one must still be complete
    limit = rng.choice((1, 1, 2, 3)) if rng.random() < (0.45 if grouped else 0.15) else 0
    return stmt(nodes, grouped, having, limit)
