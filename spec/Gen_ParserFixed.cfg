CONSTANTS
  Variant = "ok"
  MaxDepth = 0
  FullDepth = 0
  CtxDepth = 0
  StmtFull = FALSE
  Salts = {0}
  EmitMod = 1
  GenFam = {"lit", "chain", "corner", "kwprefix", "matrix"}
INIT FInit
NEXT FNext
INVARIANT EmitFixed
CHECK_DEADLOCK FALSE
