CONSTANTS
  Variant = "ok"
  Texts <- TextsSmall
  Conns <- Conns2
  MaxOps = 3
  Mode = "fresh"
INIT SInit
NEXT SNext
INVARIANT HistoryFree
INVARIANT HeldUnchanged
CHECK_DEADLOCK FALSE
