CONSTANTS
  Base = 1000000
  KeyTab = 0
  CurSeq = 0
  Special = 0
  Ledgers = 0
  OpenArgs = 0
  CloseArgs = 0
  ClearArgs = 0
  Filters = 0
  Order = 0
  CompileMode = "stated"
  Inners = 0
  ScopeMode = "stated"
  Doors = 0
  HookMode = "stated"
INIT TInit
NEXT TNext
INVARIANT TypeInv
POSTCONDITION TraceConsumed
CHECK_DEADLOCK FALSE
