------------------------------- MODULE ExprTab -------------------------------
(* The fixed base table `t` of the expression legs: 11 typed columns x 10 rows; every column is NULL in some
   row and every pair of columns is NULL / non-NULL in all four ways (checked by TLC: NullPatternOK). *)
EXTENDS BQLExpr

N == Null
Schema == [i |-> "int", j |-> "int", x |-> "dec", y |-> "dec", s |-> "str", u |-> "str",
           d |-> "date", f |-> "date", b |-> "bool", c |-> "bool", o |-> "obj"]
ColNames == <<"i", "j", "x", "y", "s", "u", "d", "f", "b", "c", "o">>
T == BoolV(TRUE)
F == BoolV(FALSE)
R(i, j, x, y, s, u, d, f, b, c, o) ==
    [i |-> i, j |-> j, x |-> x, y |-> y, s |-> s, u |-> u, d |-> d, f |-> f, b |-> b, c |-> c, o |-> o]
BaseRows == <<
  R(IntV(0),  IntV(3),  N,          N,         StrV("a"),   StrV("ab"),  DateV(737484), DateV(737425), T, N, N),
  R(IntV(1),  IntV(0),  Rat(1, 2),  N,         StrV(""),    N,          N,            N,            F, T, IntV(1)),
  R(IntV(-3), IntV(-2), N,          Rat(3, 2), N,          StrV("A"),   N,            DateV(737484), T, N, Rat(1, 2)),
  R(IntV(7),  IntV(1),  Rat(-3, 2), Rat(1, 4), N,          N,          DateV(737424), N,            N, F, N),
  R(N,       IntV(5),  N,          N,         N,          N,          DateV(737425), DateV(737424), F, T, StrV("3")),
  R(N,       N,       Rat(0, 1),  Rat(-2, 1), StrV("Ab"), StrV("7"),   N,            N,            N, N, N),
  R(N,       IntV(2),  Rat(9, 4),  N,         StrV("b c"), N,          DateV(737880), N,            T, F, StrV("x")),
  R(IntV(2),  N,       N,          N,         StrV("B"),   N,          N,            DateV(737485), N, F, DateV(737484)),
  R(N,       N,       N,          Rat(1, 1), N,          N,          DateV(737790), N,            F, N, N),
  R(IntV(-1), N,       Rat(2, 1),  N,         StrV("ab"),  StrV("1.5"), DateV(729755), DateV(737790), T, T, T)
>>
NullPatternOK ==
    \A a \in 1..Len(ColNames), bb \in 1..Len(ColNames) : a < bb =>
        \A na \in BOOLEAN, nb \in BOOLEAN :
            \E r \in 1..Len(BaseRows) :
                /\ (BaseRows[r][ColNames[a]].t = "null") = na
                /\ (BaseRows[r][ColNames[bb]].t = "null") = nb
DataConforms == \A r \in 1..Len(BaseRows) : \A k \in 1..Len(ColNames) :
                    Conforms(BaseRows[r][ColNames[k]], Schema[ColNames[k]])
=============================================================================
