\* non-vacuity: CLOSE applied before OPEN -- TLC must find a counterexample
CONSTANTS
  Base <- MCBase
  KeyTab <- MCKeyTab
  CurSeq <- MCCurSeq
  Special <- MCSpecial
  Ledgers = {}
  OpenArgs <- Open05
  CloseArgs <- Close05
  ClearArgs = {TRUE, FALSE}
  Filters <- FNone
  Order <- OrderCloseFirst
  CompileMode = "stated"
  Inners <- InnersNone
  ScopeMode = "stated"
  Doors <- DoorsApi
  HookMode = "stated"
INIT InitCover
NEXT Next
INVARIANTS KeepInv BalanceSheetInv IncomeInv EquityInv TxBalanceInv LayoutInv FilterInv CompileInv SortedInv ExpectInv
CHECK_DEADLOCK FALSE
