CONSTANTS
  Variant = "ok"
  MaxDepth = 2
  FullDepth = 2
  CtxDepth = 0
  StmtFull = FALSE
  Salts = {1}
  EmitMod = 1
  GenFam = {}
INIT GInitSpine
NEXT GNextSpine
INVARIANT Emit
CHECK_DEADLOCK FALSE
