CONSTANTS
  MaxDepth = 1
  EmitMode = "illtyped"
INIT Init
NEXT Next
INVARIANTS Emit EmitTab
CHECK_DEADLOCK FALSE
