\* non-vacuity: the table of the subquery stays current for the enclosing statement -- TLC must find a counterexample
CONSTANTS
  Base <- MCBase
  KeyTab <- MCKeyTab
  CurSeq <- MCCurSeq
  Special <- MCSpecial
  Ledgers = {}
  OpenArgs <- Open03
  CloseArgs <- Close04
  ClearArgs = {TRUE, FALSE}
  Filters <- FNone
  Order <- OrderStated
  CompileMode = "stated"
  Inners <- InnersQuick
  ScopeMode = "norestore"
  Doors <- DoorsApi
  HookMode = "stated"
INIT InitNested
NEXT Next
INVARIANTS KeepInv BalanceSheetInv IncomeInv EquityInv TxBalanceInv LayoutInv FilterInv CompileInv SortedInv ExpectInv ScopeInv
CHECK_DEADLOCK FALSE
