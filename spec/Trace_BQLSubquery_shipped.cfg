\* classification of rejected lines: the same replay through the mechanism AS SHIPPED (no restore).  A line that is
\* accepted here was produced by the listed defect (the nested SELECT leaves its table behind); no invariants.
CONSTANTS
  Tabs <- FileTabs
  Restore = FALSE
INIT TInit
NEXT TNext
POSTCONDITION Consumed
CHECK_DEADLOCK FALSE
