CONSTANTS
  Stmts <- StmtsK
  StmtParams <- ParamsK
  ManyPairs <- Pairs12
  Data <- DataA
  NumberMode = "conforming"
  MaxCalls = 2
  GenTextIdx <- Idx1234
  Depth = 2
INIT HInit
NEXT HNext
INVARIANT Emit
CHECK_DEADLOCK FALSE
