\* spec -> code (quick): every session of 2 statements on one connection, each typed or stored in the ledger and submitted with .run
CONSTANTS
  Headers <- Empty
  Pool <- Empty
  MaxPostings = 0
  Shapes <- Empty
  DirPool <- Empty
  MaxDirs = 0
  PrintShapes <- Empty
  KnownStrings <- NoStrings
  KnownPats <- NoStrings
  Variant = "shipped"
  NConn = 1
  MaxSteps = 2
  Routes = {"typed", "run"}
  Mech = "shipped"
INIT SInit
NEXT SNext
INVARIANT EmitSession
CHECK_DEADLOCK FALSE
