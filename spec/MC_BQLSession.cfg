\* exhaustive (quick): all histories of <= 5 calls on 3 statement objects x 3 parameter values,
\* parse / execute(object) / execute(text) / executemany (two pairs)
CONSTANTS
  Stmts <- Stmts3
  StmtParams <- Params3
  ManyPairs <- Pairs2
  Data <- DataA
  NumberMode = "conforming"
  MaxCalls = 5
INIT Init
NEXT Next
INVARIANTS TypeOK ResultInv DataUnchanged
PROPERTIES ResultIsDenote DataNeverChanges
CHECK_DEADLOCK FALSE
