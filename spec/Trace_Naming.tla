------------------------------- MODULE Trace_Naming -------------------------------
(* C07 code -> spec: one ndjson line per executed statement of any recorder:
   [id, ntargets, star (0/1), kind (table kind), cols (declared columns of the table, in order),
    names (rule-derived names of the targets: alias / column / source text as written by the generator),
    desc (observed description names), arities (observed length of every row, de-duplicated)] *)
EXTENDS Naming, IOUtils
Cases == ndJsonDeserialize(IOEnv.TRACE_FILE)
VARIABLE l
Expect(c) == IF c.star = 1 THEN Wildcard(c.kind, c.cols) ELSE c.names
Verdict(c) == IF c.desc # Expect(c) THEN "description" ELSE IF \E i \in 1..Len(c.arities) : c.arities[i] # Len(c.desc) THEN "arity" ELSE "ok"
Judge(c) == IF Verdict(c) = "ok" THEN TRUE
            ELSE PrintT(ToJson([verdict |-> "rejected", id |-> c.id, line |-> l, clause |-> Verdict(c), expected |-> Expect(c)]))
TInit == l = 1 /\ targets = <<>> /\ helper = 1
TNext == l <= Len(Cases) /\ Judge(Cases[l]) /\ l' = l + 1 /\ UNCHANGED vars
Consumed == TLCGet("stats").diameter - 1 = Len(Cases)
=============================================================================
