\* accounts opened / closed and currencies declared by several directives: every ledger of <= 3 directives over the
\* 10-letter alphabet of repeated open / close / commodity directives x every table
CONSTANTS
  Alpha <- DupAlpha
  MaxLen = 3
  Keys <- SmallKeys
  Mech = "ok"
  MaxStmts = 1
  QualOpts <- QNone
INIT Init
NEXT Next
INVARIANTS TypeOK MechEqDecl LookupsEqDecl RowidInv Laws
CHECK_DEADLOCK FALSE
