\* non-vacuity: the parse hook of the shell builds a new FROM clause from (expression, OPEN, default CLOSE) and does not carry
\* CLEAR over -- TLC must violate IncomeInv
CONSTANTS
  Base <- MCBase
  KeyTab <- MCKeyTab
  CurSeq <- MCCurSeq
  Special <- MCSpecial
  Ledgers = {}
  OpenArgs <- Open03
  CloseArgs <- Close04
  ClearArgs = {TRUE, FALSE}
  Filters <- FNone
  Order <- OrderStated
  CompileMode = "stated"
  Inners <- InnersNone
  ScopeMode = "stated"
  Doors <- DoorsShell
  HookMode = "rebuilt"
INIT InitDoorsCover
NEXT Next
INVARIANTS KeepInv BalanceSheetInv IncomeInv EquityInv TxBalanceInv LayoutInv FilterInv CompileInv SortedInv ExpectInv
CHECK_DEADLOCK FALSE
