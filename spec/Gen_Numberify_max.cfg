\* replay space for a formatter built for the precision setting "maximum" (AAA 1 digit, BBB 2 digits, where the
\* default setting has 0 and 1)
CONSTANTS
  Space = "gen-max"
  Shapes <- ShapesOf
  FmtChoices <- Fmt1
  DCtx <- DCAB
  Prec = "maximum"
  CurSeq <- CS3
  InvNull = "skip"
  Mut = "none"
INIT Init
NEXT GNext
INVARIANT Emit
CHECK_DEADLOCK FALSE
