\* non-vacuity: the expansion / mechanism deliberately broken (balance_raw); TLC must violate DenoteIsMeaning
CONSTANTS
  Headers <- HeadersDef
  Pool <- Pool10
  MaxPostings = 2
  Shapes <- ShapesDef
  DirPool <- DirPool9
  MaxDirs = 2
  PrintShapes <- PrintShapesDef
  KnownStrings <- KnownStringsDef
  KnownPats <- KnownPatsDef
  Variant = "balance_raw"
INIT Init
NEXT Next
INVARIANTS DenoteIsMeaning WellFormed
CHECK_DEADLOCK FALSE
