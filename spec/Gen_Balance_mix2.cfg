\* C20 schedule generator: mix2, per row context
CONSTANTS
  Threads = {1, 2}
  CacheMode = "per row context"
  Split = FALSE
  Programs = 0
  MaxLen = 0
  SchedProgs <- SP_mix2
INIT SInit
NEXT SNext
INVARIANTS SEmit SEmitProgs
CHECK_DEADLOCK FALSE
