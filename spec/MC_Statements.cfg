\* exhaustive (quick): every ledger of <= 3 postings from a pool of 10, 198 BALANCES / JOURNAL shapes;
\* every directive list of <= 3 of 9 directives, 20 PRINT filters (6 of them over tags / links)
CONSTANTS
  Headers <- HeadersDef
  Pool <- Pool10
  MaxPostings = 3
  Shapes <- ShapesDef
  DirPool <- DirPool9
  MaxDirs = 3
  PrintShapes <- PrintShapesDef
  KnownStrings <- KnownStringsDef
  KnownPats <- KnownPatsDef
  Variant = "shipped"
INIT Init
NEXT Next
INVARIANTS DenoteIsMeaning WellFormed
CHECK_DEADLOCK FALSE
