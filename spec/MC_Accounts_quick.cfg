\* quick tier: all 605 names; ordering law over pairs of names of <= 2 components (20 x 20)
CONSTANTS
  Names = {"A", "Bb", "C1"}
  MaxComps = 5
  SignTypes = "connection"
  PairComps = 2
INIT Init
NEXT Next
INVARIANTS DecomposeInv SortKeyInv PosSignInv TypesInv MechInv TypesSortInv
CHECK_DEADLOCK FALSE
