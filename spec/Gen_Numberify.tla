--------------------------- MODULE Gen_Numberify ---------------------------
(* Case generator for the spec -> code replay of Numberify: every table of the input space (the caller's AddRow
   steps only), once without and once with a formatter, one JSON line per table holding the table and what the
   property (Part 1 of Numberify, in its generative form) accepts as output:
     descs  the set of acceptable output descriptions; an item is <<name, type, input column, currency | "">>
     cells  per row and amount-like input column the pairs <<currency, set of acceptable cells>> (<<>> = NULL)
   The formatter is given as the display context it is to be built from (dc) and the precision setting it is to
   be built for (prec); q are its display precisions (FormatterQ). *)
EXTENDS MC_Numberify, Json

\* the shell route: the display context is the one the loader infers from the ledger text, of which only the most
\* common numbers of digits are pinned (the shell builds its formatter with the defaults)
DCABC == << <<"AAA", 0, 0>>, <<"BBB", 1, 1>>, <<"CCC", 2, 2>> >>
\* the same ledger after an edit (a shell session: statement, edit of the file, .reload, statement, ...): every currency
\* is now written with another number of digits; the formatter of a statement is the one of the ledger loaded WHEN THE
\* STATEMENT RUNS (3/2 AAA is exact now and 3/2 BBB, 3/2 CCC have become ties)
DCABC2 == << <<"AAA", 1, 1>>, <<"BBB", 0, 0>>, <<"CCC", 0, 0>> >>

GNext == AddRow
Emit ==
    pc = "input" =>
        PrintT(ToJson([cols |-> tbl.cols, rows |-> tbl.rows, fmt |-> fmt, q |-> Q, dc |-> DCtx, prec |-> Prec, shape |-> gen.id,
                       descs |-> AcceptDescs(tbl.cols, tbl.rows, NCols),
                       cells |-> ExpectCells(tbl.cols, tbl.rows, fmt, Q)]))
=============================================================================
