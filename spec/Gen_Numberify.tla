--------------------------- MODULE Gen_Numberify ---------------------------
(* Case generator for the spec -> code replay of Numberify: every table of the input space (the caller's AddRow
   steps only), once without and once with a formatter, one JSON line per table holding the table and what the
   property (Part 1 of Numberify, in its generative form) accepts as output:
     descs  the set of acceptable output descriptions; an item is <<name, type, input column, currency | "">>
     cells  per row and amount-like input column the pairs <<currency, set of acceptable cells>> (<<>> = NULL) *)
EXTENDS MC_Numberify, Json

QABC == << <<"AAA", 0>>, <<"BBB", 1>>, <<"CCC", 2>> >>

GNext == AddRow
Emit ==
    pc = "input" =>
        PrintT(ToJson([cols |-> tbl.cols, rows |-> tbl.rows, fmt |-> fmt, q |-> Q, shape |-> gen.id,
                       descs |-> AcceptDescs(tbl.cols, tbl.rows, NCols),
                       cells |-> ExpectCells(tbl.cols, tbl.rows, fmt, Q)]))
=============================================================================
