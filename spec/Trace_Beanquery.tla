------------------------------- MODULE Trace_Beanquery -------------------------------
(* Code -> spec at the API grain: whole histories of register / execute / fetch calls with REAL statements and REAL
   tables on one connection are replayed through Beanquery's actions.  Line 1 of the file is a header; then
   "begin" (fresh connection, nothing registered), "register" (name, sch, cols, rows: conn.tables[name] = table),
   "execute" (c, q, name, err, desc, rownumber, rowcount), "fetchone" / "fetchmany" (arg) / "fetchall" (c, ret as
   encoded rows, rownumber, rowcount).  An event the spec cannot explain is reported and the rest of its history
   skipped. *)
EXTENDS Beanquery, Json, IOUtils

Log == ndJsonDeserialize(IOEnv.TRACE_FILE)
TraceNames == {"g", "h", "j"}
VARIABLES l, dead
tvars == <<vars, l, dead>>

Step(e) ==
    \/ e.op = "execute" /\ Execute(e.c, e.q, e.name)
    \/ e.op = "fetchone" /\ FetchOne(e.c)
    \/ e.op = "fetchmany" /\ FetchMany(e.c, e.arg)
    \/ e.op = "fetchall" /\ FetchAll(e.c)
Matches(e) ==
    /\ out'.err = e.err
    /\ pos'[e.c] = e.rownumber
    /\ (IF ~executed'[e.c] THEN -1 ELSE Len(result'[e.c])) = e.rowcount
    /\ e.op = "execute" => (e.err # "" \/ desc'[e.c] = e.desc)
    /\ e.op # "execute" => EncRows(out'.val) = e.ret
Good(e) == Step(e) /\ Matches(e)
\* statements whose evaluation leaves the exact-rational domain are not judged: the history is abandoned there
OutOfDomain(e) == e.op = "execute" /\ Outcome(e.q, e.name).ood

TInit == Init /\ l = 2 /\ dead = FALSE
Reset ==
    /\ tables' = [n \in TableNames |-> <<>>]
    /\ executed' = [c \in Cursors |-> FALSE] /\ result' = [c \in Cursors |-> <<>>] /\ buf' = [c \in Cursors |-> <<>>]
    /\ pos' = [c \in Cursors |-> 0] /\ desc' = [c \in Cursors |-> <<>>] /\ fetched' = [c \in Cursors |-> <<>>]
    /\ out' = [op |-> "init", c |-> 0, val |-> <<>>, err |-> ""]
    /\ UNCHANGED cache
TNext ==
    /\ l <= Len(Log)
    /\ l' = l + 1
    /\ LET e == Log[l] IN
       IF e.op = "begin" THEN Reset /\ dead' = FALSE
       ELSE IF dead THEN UNCHANGED <<vars, dead>>
       ELSE IF e.op = "register" THEN Register(e.name, [sch |-> e.sch, cols |-> e.cols, rows |-> e.rows]) /\ UNCHANGED dead
       ELSE IF OutOfDomain(e) THEN dead' = TRUE /\ UNCHANGED vars
       ELSE IF ENABLED Good(e) THEN Good(e) /\ UNCHANGED dead
       ELSE /\ PrintT(ToJson([verdict |-> "rejected", line |-> l, op |-> e.op, tid |-> e.tid]))
            /\ dead' = TRUE /\ UNCHANGED vars
Consumed == TLCGet("stats").diameter = Len(Log)
=============================================================================
