------------------------------- MODULE Trace_Expr -------------------------------
(* Code -> spec for expressions (C01 C04 C05): each ndjson line is one expression compiled and evaluated by the
   real code over a logged table:  [id, sch, rows, e, ok (accepted), t (announced type), vals (one <<t,n,d,s>> per
   row, the expression as a target), sel (1-based indexes of the rows selected when it is the WHERE condition)] *)
EXTENDS BQLExpr, Json, IOUtils

Cases == ndJsonDeserialize(IOEnv.TRACE_FILE)
VARIABLES l
EncV(x) == <<x.t, x.n, x.d, x.s>>
Report(c, clause, exp) == PrintT(ToJson([verdict |-> "rejected", id |-> c.id, line |-> l, clause |-> clause, expected |-> exp]))
RECURSIVE EvalRows(_, _, _)
EvalRows(c, r, acc) == IF r > Len(c.rows) THEN acc ELSE EvalRows(c, r + 1, Append(acc, Eval(c.e, c.rows[r], c.sch)))
Judge(c) ==
    LET t == TypeOf(c.e, c.sch) IN
    IF (t # ERR) # c.ok THEN Report(c, IF t # ERR THEN "spec accepts, code rejects" ELSE "spec rejects, code accepts", <<t>>)
    ELSE IF t = ERR THEN TRUE
    ELSE LET vals == EvalRows(c, 1, <<>>) IN
         IF \E r \in 1..Len(vals) : vals[r].t = "ood" THEN TRUE
         ELSE IF t # c.t THEN Report(c, "announced type", <<t>>)
         ELSE IF \E r \in 1..Len(vals) : ~Conforms(vals[r], t) THEN Report(c, "spec type soundness", <<t>>)
         ELSE IF [r \in 1..Len(vals) |-> EncV(vals[r])] # c.vals THEN Report(c, "values", [r \in 1..Len(vals) |-> EncV(vals[r])])
         ELSE IF SelectSeq([r \in 1..Len(vals) |-> r], LAMBDA r : vals[r].t # "null" /\ Truthy(vals[r])) # c.sel
              THEN Report(c, "where selection", SelectSeq([r \in 1..Len(vals) |-> r], LAMBDA r : vals[r].t # "null" /\ Truthy(vals[r])))
         ELSE TRUE
Init == l = 1
Next == l <= Len(Cases) /\ Judge(Cases[l]) /\ l' = l + 1
Spec == Init /\ [][Next]_l
Consumed == TLCGet("stats").diameter - 1 = Len(Cases)
=============================================================================
