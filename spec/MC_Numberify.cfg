\* quick: the mechanism (None skipped in Inventory columns) satisfies the property on every table of the quick space
CONSTANTS
  Space = "quick"
  Shapes <- ShapesOf
  FmtChoices <- Fmt01
  DCtx <- DCAB
  Prec = "most_common"
  CurSeq <- CS3
  InvNull = "skip"
  Mut = "none"
INIT Init
NEXT Next
INVARIANTS TypeOK Total Correct CorrectGen NoCurrencyDropped SumPreserved NothingInvented PlainIdentity RowsPreserved FreqOrdered
CHECK_DEADLOCK FALSE
