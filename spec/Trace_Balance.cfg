\* recorded runs judged against the property-conforming mechanism
CONSTANTS
  Threads = {1, 2, 3, 4}
  CacheMode = "per row context"
  Split = FALSE
INIT TInit
NEXT TNext
INVARIANTS TypeOK SerialInv ConsultedInv
CHECK_DEADLOCK FALSE
