--------------------------- MODULE Gen_BQLSubquery ---------------------------
(* Case generator for the spec->code replay of BQLSubquery.  The walk is run to its end for every statement of
   the explored set and one JSON line is printed per statement:
     res     what the specification says the statement returns (the declarative result; MC_BQLSubquery has shown
             that the conforming mechanism returns exactly this)
     shipped what the mechanism configured by Restore returns.  The Gen configurations run the mechanism AS SHIPPED
             (Restore = FALSE) so that a mismatch of the code can be attributed to the listed defect (the nested
             SELECT leaves its table behind) or reported as something else; `cfail` = compilation failed; `clean` = that walk
             nevertheless used every SELECT's own table;
             `ops` = the kinds of walk steps taken for the statement (every pc value is passed exactly once).
   EmitTabs prints the tables of the data set (run with a one-statement set). *)
EXTENDS MC_BQLSubquery

GNext == Next
Emit == (Compiled \/ CompileFailed) =>
            PrintT(ToJson([q |-> q, res |-> Denote(q, Tabs), shipped |-> Exec, cfail |-> CompileFailed,
                           clean |-> (ResolvesOwnTable /\ StarOwnTable /\ IteratesOwnTable),
                           ops |-> {Prog[i].op : i \in 1..(IF CompileFailed THEN 1 ELSE Len(Prog))}]))
EmitTabs == q = q /\ PrintT(ToJson([tabs |-> Tabs]))
=============================================================================
