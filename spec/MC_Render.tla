----------------------------- MODULE MC_Render -----------------------------
(* Exhaustive model-checking instances of Render: every column of <= N abstract values (NULL included) of every type,
   next to a fixed companion text column (so that offsets and separators matter), all 2^5 option combinations,
   placeholder lengths 0..4, header lengths 1..6.  Inventory columns also alone (a row of empty inventories). *)
EXTENDS Render, Json

NullV == [k |-> "null"]
S(n) == [k |-> "str", n |-> n]
I(s, i) == [k |-> "int", s |-> s, i |-> i]
D(s, i, f) == [k |-> "dec", s |-> s, i |-> i, f |-> f]
DE(n) == [k |-> "decE", n |-> n]
Dt == [k |-> "date"]
Bo(n) == [k |-> "bool", n |-> n]
St(items) == [k |-> "set", items |-> items]
Am(s, i, f, c) == [k |-> "amt", s |-> s, i |-> i, f |-> f, c |-> c]
Iv(pos) == [k |-> "inv", pos |-> pos]

Types == {"str", "int", "dec", "date", "bool", "set", "amt", "inv"}
Vals(t) ==
    CASE t = "str"  -> {S(0), S(1), S(3), S(7)}
      [] t = "int"  -> {I(0, 1), I(1, 1), I(0, 3), I(1, 5)}
      [] t = "dec"  -> {D(0, 1, 0), D(1, 1, 2), D(0, 3, 1), D(1, 2, 0), D(0, 1, 4), DE(4)}
      [] t = "date" -> {Dt}
      [] t = "bool" -> {Bo(0), Bo(1)}
      [] t = "set"  -> {St(<<>>), St(<<1>>), St(<<2, 3>>), St(<<1, 1, 1>>)}
      [] t = "amt"  -> {Am(0, 1, 2, 3), Am(1, 3, 2, 3), Am(0, 2, 0, 4), Am(1, 1, 0, 4)}     \* USD-like .2, HOOL-like .0
      [] t = "inv"  -> {Iv(<<>>), Iv(<<Am(0, 1, 2, 3)>>), Iv(<<Am(1, 3, 2, 3), Am(0, 2, 0, 4)>>),
                        Iv(<<Am(0, 2, 0, 4), Am(1, 1, 0, 4)>>)}
SeqsUpTo(X, n) == UNION {[1..m -> X] : m \in 0..n}
ColsOf(t, n, HL) == {[t |-> t, hl |-> h, vals |-> vs] : h \in HL, vs \in SeqsUpTo(Vals(t) \cup {NullV}, n)}
Comp(n) == [t |-> "str", hl |-> 3, vals |-> SubSeq(<<S(2), NullV, S(0)>>, 1, n)]
TablesN(n, HL) ==
    {<<c, Comp(Len(c.vals))>> : c \in UNION {ColsOf(t, n, HL) : t \in Types}}
    \cup {<<c>> : c \in ColsOf("inv", n, {2})}

HL16 == 1..6
T3 == TablesN(3, HL16)
T2 == TablesN(2, HL16)
TSmall == TablesN(2, {1, 5})
TQuick == TablesN(2, {1, 4})
TTiny == TablesN(1, {1, 5})
NL014 == {0, 1, 4}
NL04 == 0..4
NL03 == {0, 3}
SL2 == {2}
SL12 == {1, 2}
SL013 == {0, 1, 3}
\* list-valued columns only (the separator length matters to nothing else)
TSep == {<<c, Comp(Len(c.vals))>> : c \in ColsOf("set", 3, {2}) \cup ColsOf("inv", 3, {2})}
=============================================================================
