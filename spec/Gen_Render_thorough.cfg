\* thorough: columns of <= 3 values, header lengths 2 and 5, placeholder lengths 0 and 4, all 2^5 options
CONSTANTS
  Tables <- TGenT
  NullLens <- NL04g
  SepLens <- SL2
  WidthRule = "full"
  ExpandRule = "atleast1"
  CsvCtx = "own"
INIT Init
NEXT Next
INVARIANT Emit
CHECK_DEADLOCK FALSE
