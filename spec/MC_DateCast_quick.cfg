\* dates of 1900-01-01 .. 2100-12-31, every 41st
CONSTANTS
  Lo = 693596
  Hi = 767009
  Step = 41
  Mode = "format"
INIT Init
NEXT Next
INVARIANT CastInv
CHECK_DEADLOCK FALSE
