---------------------------- MODULE Trace_Render ----------------------------
(* Code -> spec (C16): every line of the trace file is ONE rendered table: the abstract input (columns, values,
   options), the layout record parsed from the text render_text wrote, and the fields render_csv wrote.  Judge
   evaluates the declarative predicates of Render (the same ones the mechanism is model-checked against) and the
   mechanism's own prediction (Update* ; Prepare ; Format, the width rule) on it and names every failed clause with
   its column.  One TLC step per line; a rejected line is printed and the run continues. *)
EXTENDS Render, Json, IOUtils

TraceLog == ndJsonDeserialize(IOEnv.TRACE_FILE)

VARIABLES l, nbad
tvars == <<vars, l, nbad>>

Exact == {"str", "obj", "int", "bool", "date", "set", "dec"}
AmtLike == {"amount", "position", "cost", "inventory"}
Range(s) == {s[k] : k \in 1..Len(s)}

-----------------------------------------------------------------------------
(* adapter: the recorded table in the vocabulary of Render.  Amount digits come from Beancount's display context and
   are uninterpreted: an amount shows at least one digit, a blank and its currency. *)
MinAmt(p) == [k |-> "amt", s |-> 0, i |-> 1, f |-> 0, c |-> p.cl]
SpecType(t) == IF t \in {"amount", "position", "cost"} THEN "amt" ELSE IF t = "inventory" THEN "inv" ELSE t
SpecVal(t, v) ==
    IF v.k # "amt" THEN v
    ELSE IF t = "inventory"          \* the order in which the positions are listed is free: bound by the shortest currency
         THEN [k |-> "inv", pos |-> [q \in 1..Len(v.pos) |->
                  [MinAmt(v.pos[q]) EXCEPT !.c = CHOOSE m \in {v.pos[z].cl : z \in 1..Len(v.pos)} :
                                                    \A z \in 1..Len(v.pos) : m <= v.pos[z].cl]]]
    ELSE MinAmt(v.pos[1])
TB(rec) == [c \in 1..Len(rec.tab) |->
              [t |-> SpecType(rec.tab[c].t), hl |-> rec.tab[c].hl,
               vals |-> [q \in 1..Len(rec.tab[c].vals) |-> SpecVal(rec.tab[c].t, rec.tab[c].vals[q])]]]
Opt(rec) == [boxed |-> rec.o.boxed, unicode |-> rec.o.unicode, spaced |-> rec.o.spaced, expand |-> rec.o.expand,
             narrow |-> rec.o.narrow, nl |-> rec.o.nl, sl |-> rec.o.sl]

(* the parser cannot tell a spacing line from a row of empty cells: it says "body"; the skeleton decides *)
KindFits(obs, want) == IF want \in {"row", "space"} THEN obs = "body" ELSE obs = want
SkeletonFits(rec, want) ==
    /\ Len(rec.text.lines) = Len(want)
    /\ \A k \in 1..Len(want) : KindFits(rec.text.lines[k].kind, want[k][1])
CellDot(rec, c, x) ==     \* the dot offset that takes part in the column alignment
    LET t == rec.tab[c].t
    IN IF t \in AmtLike THEN (IF (t # "inventory" \/ rec.o.expand) /\ Len(x.toks) = 1 THEN x.toks[1].dot ELSE -1)
       ELSE x.dot
(* a header cut right after a blank: the parser cannot tell that blank from padding, the header text can *)
RECURSIVE RStripHex(_)
RStripHex(h) == IF Len(h) >= 6 /\ SubSeq(h, Len(h) - 5, Len(h)) = "000020" THEN RStripHex(SubSeq(h, 1, Len(h) - 6)) ELSE h
HeaderShown(rec, c) ==      \* the (cp-hex) text the header cell of column c must hold, before stripping
    LET n == IF rec.o.narrow THEN Min2(rec.tab[c].hl, rec.text.ws[c]) ELSE rec.tab[c].hl
    IN SubSeq(rec.tab[c].hx, 1, 6 * n)
HeaderLost(rec, c) == (Len(HeaderShown(rec, c)) - Len(RStripHex(HeaderShown(rec, c)))) \div 6
LS(rec, want) ==
    [k \in 1..Len(want) |->
        LET ln == rec.text.lines[k]
        IN [kind |-> want[k][1], style |-> ln.style, w |-> ln.w, r |-> want[k][2], j |-> want[k][3],
            cells |-> [c \in 1..Len(ln.cells) |->
                          LET x == ln.cells[c]
                              lost == IF want[k][1] = "head" /\ x.y = RStripHex(HeaderShown(rec, c)) /\ x.n > 0
                                         /\ x.rp >= HeaderLost(rec, c)
                                      THEN HeaderLost(rec, c) ELSE 0
                          IN [off |-> x.off, lp |-> x.lp, n |-> x.n + lost, rp |-> x.rp - lost,
                              \* a placeholder that happens to look like a number takes no part in the alignment
                              dot |-> IF want[k][1] = "row" /\ rec.tab[c].vals[want[k][2]].k = "null" THEN -1
                                      ELSE CellDot(rec, c, x)]]]]

-----------------------------------------------------------------------------
(* reading the cells back *)
Pow10(k) == CASE k = 0 -> 1 [] k = 1 -> 10 [] k = 2 -> 100 [] k = 3 -> 1000 [] k = 4 -> 10000 [] k = 5 -> 100000
              [] k = 6 -> 1000000 [] k = 7 -> 10000000 [] k = 8 -> 100000000 [] OTHER -> 1000000000
NDigits(n) == LET a == Abs(n) IN CHOOSE d \in 1..10 : a < Pow10(d) /\ (d = 1 \/ a >= Pow10(d - 1))
(* shown = a / 10^fa must be input = b / 10^fb at the display precision fa: exactly when fa >= fb, else within half a
   unit of the last shown digit.  Products beyond 32 bits are not judged. *)
NumOK(a, fa, b, fb, ood) ==
    IF ood = 1 THEN TRUE
    ELSE IF fa >= fb THEN (IF NDigits(b) + (fa - fb) > 9 THEN TRUE ELSE a = b * Pow10(fa - fb))
    ELSE (IF NDigits(a) + (fb - fa) > 9 THEN TRUE
          ELSE Abs(b - a * Pow10(fb - fa)) <= Pow10(fb - fa) \div 2)      \* (no doubling: 32-bit integers)
TokMatch(t, tk, p) ==
    /\ tk.c = p.c
    /\ NumOK(tk.num, tk.f, p.num, p.sc, IF tk.big = 1 THEN 1 ELSE p.ood)
    /\ (p.p >= 0 => tk.f = p.p)                   \* the ledger's display precision when it has one for the currency
    /\ IF t = "cost"
       THEN tk.k = 0 /\ tk.hd = p.hd /\ (p.hd = 1 => tk.date = p.date) /\ tk.hl = p.hl /\ (p.hl = 1 => tk.label = p.label)
       ELSE /\ tk.k = p.k
            /\ p.k = 1 => /\ tk.kc = p.kc
                          /\ NumOK(tk.knum, tk.kf, p.knum, p.ksc, IF tk.kbig = 1 THEN 1 ELSE p.kood)
                          /\ (p.kp >= 0 => tk.kf = p.kp)
BagMatch(t, toks, ps) ==
    /\ Len(toks) = Len(ps)
    /\ \A a \in 1..Len(toks) : \E b \in 1..Len(ps) : TokMatch(t, toks[a], ps[b])
    /\ \A b \in 1..Len(ps) : \E a \in 1..Len(toks) : TokMatch(t, toks[a], ps[b])

RowLinesOf(ls, rr) == {k \in 1..Len(ls) : ls[k].kind = "row" /\ ls[k].r = rr}
RECURSIVE Concat(_, _, _)
Concat(f, from, to) == IF from > to THEN <<>> ELSE f[from] \o Concat(f, from + 1, to)

ReadbackCol(rec, ls, c) ==
    LET t == rec.tab[c].t
        raw(k) == rec.text.lines[k].cells[c]
    IN \A rr \in 1..Len(rec.tab[c].vals) :
        LET v == rec.tab[c].vals[rr]
            ks == RowLinesOf(ls, rr)
            k1 == CHOOSE k \in ks : ls[k].j = 1
        IN IF v.k = "ood" THEN TRUE
           ELSE IF v.k = "null" THEN TRUE                           \* judged by NullCol
           ELSE IF v.k = "set" THEN Len(raw(k1).items) = Len(v.x) /\ Range(raw(k1).items) = Range(v.x)
           ELSE IF v.k = "amt" THEN
                  /\ \A k \in ks : raw(k).junk = 0
                  /\ IF t = "inventory" /\ rec.o.expand
                     THEN LET kmin == CHOOSE k \in ks : \A k2 \in ks : k <= k2
                              kmax == CHOOSE k \in ks : \A k2 \in ks : k >= k2
                          IN /\ \A k \in ks : Len(raw(k).toks) = IF ls[k].j <= Len(v.pos) THEN 1 ELSE 0
                             /\ BagMatch(t, Concat([k \in kmin..kmax |-> raw(k).toks], kmin, kmax), v.pos)
                     ELSE BagMatch(t, raw(k1).toks, v.pos)
           ELSE raw(k1).y = v.x
NullCol(rec, ls, c) ==
    \A k \in 1..Len(ls) : (ls[k].kind = "row" /\ ls[k].j = 1 /\ rec.tab[c].vals[ls[k].r].k = "null") =>
        rec.text.lines[k].cells[c].tx = rec.o.nv
HeaderTextCol(rec, ls, c) ==
    \A k \in 1..Len(ls) : ls[k].kind = "head" =>
        rec.text.lines[k].cells[c].y = RStripHex(HeaderShown(rec, c))

(* alignment inside amount-like columns: numbers on the decimal point, currencies at one offset, costs likewise *)
AlignedToks(t1, t2) ==
    /\ t1.dot = t2.dot /\ t1.cur = t2.cur
    /\ (t1.k = 1 /\ t2.k = 1) => (t1.kdot = t2.kdot /\ t1.kcur = t2.kcur)
AmtAlignCol(rec, ls, c) ==
    LET t == rec.tab[c].t
        rows == {k \in 1..Len(ls) : ls[k].kind = "row"}
        toks(k) == rec.text.lines[k].cells[c].toks
        vals == rec.tab[c].vals
        curs == UNION {{vals[q].pos[z].c : z \in 1..Len(vals[q].pos)} : q \in {q \in 1..Len(vals) : vals[q].k = "amt"}}
        count(q, cur) == Cardinality({z \in 1..Len(vals[q].pos) : vals[q].pos[z].c = cur})
        cnt(cur) == LET qs == {q \in 1..Len(vals) : vals[q].k = "amt"}
                    IN CHOOSE m \in 0..50 : (\A q \in qs : count(q, cur) <= m) /\ (m = 0 \/ \E q \in qs : count(q, cur) = m)
        RECURSIVE SumCnt(_)
        SumCnt(S) == IF S = {} THEN 0 ELSE LET e == CHOOSE e \in S : TRUE IN cnt(e) + SumCnt(S \ {e})
    IN IF t \notin AmtLike THEN TRUE
       ELSE IF t # "inventory" \/ rec.o.expand
       THEN \A k1 \in rows, k2 \in rows : \A a \in 1..Len(toks(k1)), b \in 1..Len(toks(k2)) :
                AlignedToks(toks(k1)[a], toks(k2)[b])
       ELSE \* one renderer per currency, laid out as a table when at most five slots are needed
            SumCnt(curs) <= 5 =>
              \A k1 \in rows, k2 \in rows : \A a \in 1..Len(toks(k1)), b \in 1..Len(toks(k2)) :
                (toks(k1)[a].c = toks(k2)[b].c /\ toks(k1)[a].c \in curs /\ cnt(toks(k1)[a].c) = 1) =>
                    AlignedToks(toks(k1)[a], toks(k2)[b])

(* the mechanism's own prediction for exactly modelled types: the width rule and every cell *)
WidthCol(rec, tb, c, o) == tb[c].t \in Exact => rec.text.ws[c] = RuleWidth(tb[c], o)
MechCol(rec, ls, tb, c, o) ==
    tb[c].t \in Exact =>
        LET rs == Prepared(tb[c], o) IN
        \A k \in 1..Len(ls) : (ls[k].kind = "row" /\ ls[k].j = 1) =>
            LET v == tb[c].vals[ls[k].r] x == ls[k].cells[c]
            IN (~IsNull(v) /\ x.n > 0) =>
                 LET p == Justify(Format(tb[c].t, rs, v, o)[1], rec.text.ws[c], RightAligned(tb[c].t))
                 IN x.lp = p.lp /\ x.n = p.n /\ x.rp = p.rp /\ x.dot = (IF p.dot < 0 THEN -1 ELSE x.off + p.dot)

(* CSV: a header, one record per (expanded) row, one field per column, the field = the text cell, padding aside.
   rec.csv is a SEQUENCE of observations of the same table under the same option record: "api" = render_csv called
   with the two options it documents, "app" = the per-format entry point beanquery.render.csv.render handed EVERY
   option of the record (boxed, unicode, spaced, expand, narrow, nullvalue, listsep and the application's other
   settings), "shell" = the output of a BQLShell after .set <every option> and .set format csv.  Each is judged
   against the specification's CsvWant, which knows nothing of the text-only options. *)
CsvShape(cv, rec, tb, o) ==
    /\ cv.ok = 1 /\ Len(cv.hdr) = Len(rec.tab) /\ Len(cv.recs) = Len(CsvWant(tb, o))
    /\ \A q \in 1..Len(cv.nf) : cv.nf[q] = Len(rec.tab)
CsvHeaderCol(cv, rec, c) == cv.hdr[c] = rec.tab[c].hx
RECURSIVE RowIdx(_, _)
RowIdx(ls, k) == IF k = 0 THEN 0 ELSE (IF ls[k].kind = "row" THEN 1 ELSE 0) + RowIdx(ls, k - 1)
CsvFieldCol(cv, rec, ls, c) ==
    \A k \in 1..Len(ls) : ls[k].kind = "row" =>
        LET f == cv.recs[RowIdx(ls, k)][c] x == rec.text.lines[k].cells[c]
        IN \/ rec.tab[c].vals[ls[k].r].k = "ood"
           \/ IF rec.tab[c].vals[ls[k].r].k = "null" THEN f.tx = x.tx ELSE f.items = x.items

-----------------------------------------------------------------------------
Judge(rec) ==
    LET o == Opt(rec) tb == TB(rec) want == WantSkeleton(tb, o)
        cols == 1..Len(rec.tab)
        textok == rec.text.ok = 1 /\ Len(rec.text.ws) = Len(rec.tab)
        skelok == textok /\ SkeletonFits(rec, want)
        ls == LS(rec, want)
        ws == rec.text.ws
        tablevel ==
            (IF RectOK(ls, ws, o) THEN {} ELSE {<<"rect", 0>>})
            \cup (IF StyleOK(ls, o) THEN {} ELSE {<<"style", 0>>})
            \cup (IF ShapeOK(ls, ws) /\ RulesOK(ls, ws) THEN {} ELSE {<<"rules", 0>>})
        percol(c) ==
            (IF OffsetsCol(ls, ws, o, c) THEN {} ELSE {<<"offsets", c>>})
            \cup (IF HeaderCol(ls, tb, ws, o, c) THEN {} ELSE {<<"header", c>>})
            \cup (IF HeaderTextCol(rec, ls, c) THEN {} ELSE {<<"headertext", c>>})
            \cup (IF WidthFloorCol(tb, ws, o, c) THEN {} ELSE {<<"floor", c>>})
            \cup (IF WidthCol(rec, tb, c, o) THEN {} ELSE {<<"width", c>>})
            \cup (IF ShowsCol(ls, tb, o, c) THEN {} ELSE {<<"shows", c>>})
            \cup (IF NullCol(rec, ls, c) THEN {} ELSE {<<"null", c>>})
            \cup (IF JustifyCol(ls, tb, c) THEN {} ELSE {<<"justify", c>>})
            \cup (IF DotsCol(ls, tb, c) /\ DotsShownCol(ls, tb, c) THEN {} ELSE {<<"dots", c>>})
            \cup (IF AmtAlignCol(rec, ls, c) THEN {} ELSE {<<"amtalign", c>>})
            \cup (IF MechCol(rec, ls, tb, c, o) THEN {} ELSE {<<"mech", c>>})
            \cup (IF ReadbackCol(rec, ls, c) THEN {} ELSE {<<"readback", c>>})
        textlevel ==
            IF ~textok THEN {<<"parse", 0>>}
            ELSE IF ~skelok THEN {<<"skeleton", 0>>}
            ELSE tablevel \cup UNION {percol(c) : c \in cols}
        \* the shape of the CSV is judged whatever became of the text; field = text cell needs the text lines
        csvobs(q) ==
            LET cv == rec.csv[q]
                sfx == IF cv.call = "api" THEN "" ELSE "@" \o cv.call
            IN IF ~CsvShape(cv, rec, tb, o) THEN {<<"csvshape" \o sfx, 0>>}
               ELSE UNION {(IF CsvHeaderCol(cv, rec, c) THEN {} ELSE {<<"csvheader" \o sfx, c>>})
                           \cup (IF ~skelok \/ CsvFieldCol(cv, rec, ls, c) THEN {} ELSE {<<"csvfield" \o sfx, c>>})
                           : c \in cols}
    IN textlevel \cup UNION {csvobs(q) : q \in 1..Len(rec.csv)}

\* the mechanism's variables are not used here (Judge folds the operators itself)
TInit == l = 1 /\ nbad = 0 /\ tab = <<>> /\ opt = 0 /\ phase = "trace" /\ r = 0 /\ rst = <<>> /\ widths = <<>> /\ lines = <<>>
TNext ==
    /\ l <= Len(TraceLog)
    /\ l' = l + 1
    /\ UNCHANGED vars
    /\ LET rec == TraceLog[l] fails == Judge(rec)
       IN IF fails = {} THEN UNCHANGED nbad
          ELSE /\ PrintT(ToJson([verdict |-> "rejected", line |-> l, id |-> rec.id, fails |-> fails]))
               /\ nbad' = nbad + 1
TSpec == TInit /\ [][TNext]_tvars
TraceConsumed == TLCGet("stats").diameter - 1 = Len(TraceLog)
=============================================================================
