\* exhaustive (thorough, deeper): every ledger of <= 4 postings from the pool of 10, 198 shapes
CONSTANTS
  Headers <- HeadersDef
  Pool <- Pool10
  MaxPostings = 4
  Shapes <- ShapesDef
  DirPool <- DirPool9
  MaxDirs = 2
  PrintShapes <- PrintShapesDef
  KnownStrings <- KnownStringsDef
  KnownPats <- KnownPatsDef
  Variant = "shipped"
INIT Init
NEXT Next
INVARIANTS DenoteIsMeaning WellFormed
CHECK_DEADLOCK FALSE
