---------------------------- MODULE MC_BQLSession ----------------------------
(* Model-checking instance of BQLSession: four statement texts (two / three positional placeholders in targets,
   WHERE, ORDER BY expression and subquery; repeated named placeholders; one statement object whose tree order
   differs from its text order), three parameter values each (two matching, one not), all histories. *)
EXTENDS BQLSession, Json

NullTab == [cols |-> <<>>, rows |-> << <<>> >>]
DataA == [n \in {"t", "u", ""} |->
    CASE n = "t" -> [cols |-> << <<"x", "int">>, <<"s", "str">> >>,
                     rows |-> << <<I(1), S(1)>>, <<I(4), S(2)>>, <<Null, S(1)>>, <<I(0), S(2)>>, <<I(2), S(3)>> >>]
      [] n = "u" -> [cols |-> << <<"y", "int">>, <<"z", "int">> >>,
                     rows |-> << <<I(2), I(5)>>, <<I(0), I(7)>>, <<I(3), Null>> >>]
      [] OTHER -> NullTab]

Ph(pos, nm) == [k |-> "ph", pos |-> pos, nm |-> nm]
None == NoExpr

\* S1  SELECT %s - %s AS r FROM #
S1 == Select(<<Tg(Bin("sub", Ph(1, ""), Ph(2, "")), "r")>>, Tab(""), None, <<>>, FALSE, -1)
\* S2  SELECT x - %s AS r, s FROM #t WHERE x > %s ORDER BY %s - x
S2 == Select(<<Tg(Bin("sub", Col("x"), Ph(1, "")), "r"), Tg(Col("s"), "")>>, Tab("t"),
             Bin("gt", Col("x"), Ph(2, "")), <<Asc(Bin("sub", Ph(3, ""), Col("x")))>>, FALSE, -1)
\* S3  SELECT %(a)s - %(b)s AS r, x FROM #t WHERE x IN (SELECT x - %(b)s AS d FROM #t WHERE x > %(a)s)
S3 == Select(<<Tg(Bin("sub", Ph(1, "a"), Ph(2, "b")), "r"), Tg(Col("x"), "")>>, Tab("t"),
             InQ(Col("x"), Select(<<Tg(Bin("sub", Col("x"), Ph(3, "b")), "d")>>, Tab("t"),
                                  Bin("gt", Col("x"), Ph(4, "a")), <<>>, FALSE, -1)),
             <<>>, FALSE, -1)
\* S4  SELECT x FROM #t WHERE x > %s AND x < %s   -- as a statement OBJECT whose AND operands were exchanged after
\*     parsing (a semantics-preserving rewrite of the tree): walking it meets the second placeholder first
S4 == Select(<<Tg(Col("x"), "")>>, Tab("t"),
             And2(Bin("lt", Col("x"), Ph(2, "")), Bin("gt", Col("x"), Ph(1, ""))), <<>>, FALSE, -1)
\* S5  SELECT x FROM #t WHERE x > %s    (one positional placeholder: index 0 only)
S5 == Select(<<Tg(Col("x"), "")>>, Tab("t"), Bin("gt", Col("x"), Ph(1, "")), <<>>, FALSE, -1)

PSeq(s) == [kind |-> "seq", seq |-> s, map |-> <<>>]
PMap(m) == [kind |-> "map", seq |-> <<>>, map |-> m]

Stmts4 == << [q |-> S1, swapped |-> FALSE], [q |-> S2, swapped |-> FALSE], [q |-> S3, swapped |-> FALSE],
             [q |-> S4, swapped |-> TRUE] >>
Params4 == << << PSeq(<<I(5), I(3)>>), PSeq(<<I(3), I(5)>>), PSeq(<<I(4)>>) >>,
              << PSeq(<<I(1), I(0), I(9)>>), PSeq(<<I(0), I(1), I(2)>>), PMap(<< <<"a", I(1)>> >>) >>,
              << PMap(<< <<"a", I(5)>>, <<"b", I(3)>> >>), PMap(<< <<"b", I(1)>>, <<"a", I(0)>>, <<"c", I(7)>> >>),
                 PMap(<< <<"a", I(1)>> >>) >>,
              << PSeq(<<I(0), I(3)>>), PSeq(<<I(3), I(0)>>), PSeq(<<I(1), I(2), I(3)>>) >> >>
Stmts3 == SubSeq(Stmts4, 1, 3)
Stmts2 == << Stmts4[1], Stmts4[3] >>
Params2 == << Params4[1], Params4[3] >>
Params3 == SubSeq(Params4, 1, 3)
Stmts5 == Stmts4 \o << [q |-> S5, swapped |-> FALSE] >>
Params5 == Params4 \o << << PSeq(<<I(1)>>), PSeq(<<I(0)>>), PSeq(<<>>) >> >>
\* S6  SELECT %s AND %s AS r, x FROM #t WHERE x > %s          parameters of the literal kinds NULL / TRUE / FALSE: the
\*     constant conjunction is observable as an output (a NULL operand BEFORE a FALSE one gives NULL, not FALSE)
S6 == Select(<<Tg(And2(Ph(1, ""), Ph(2, "")), "r"), Tg(Col("x"), "")>>, Tab("t"), Bin("gt", Col("x"), Ph(3, "")), <<>>, FALSE, -1)
\* S7  SELECT x, x > %(lo)s AND %(p)s AS r FROM #t              a row-dependent operand (NULL in the row whose x is NULL)
\*     before a constant one
S7 == Select(<<Tg(Col("x"), ""), Tg(And2(Bin("gt", Col("x"), Ph(1, "lo")), Ph(2, "p")), "r")>>, Tab("t"), None, <<>>, FALSE, -1)
Stmts7 == Stmts5 \o << [q |-> S6, swapped |-> FALSE], [q |-> S7, swapped |-> FALSE] >>
Params7 == Params5 \o << << PSeq(<<Null, B(FALSE), I(0)>>), PSeq(<<B(TRUE), Null, I(1)>>), PSeq(<<B(FALSE), Null>>) >>,
                         << PMap(<< <<"lo", I(1)>>, <<"p", B(FALSE)>> >>), PMap(<< <<"p", B(TRUE)>>, <<"lo", I(0)>> >>),
                            PMap(<< <<"p", Null>>, <<"lo", I(0)>>, <<"q", I(1)>> >>) >> >>
\* S8  SELECT %s AS v, x FROM #t WHERE x > %s                  the parameter itself is an output: its literal KIND shows in
\*     the value and in the announced type.  1 and TRUE, 0 and FALSE are different BQL values (the literals `1` and `TRUE`
\*     denote different things) although the host language compares and hashes them as equal
S8 == Select(<<Tg(Ph(1, ""), "v"), Tg(Col("x"), "")>>, Tab("t"), Bin("gt", Col("x"), Ph(2, "")), <<>>, FALSE, -1)
\* S9  SELECT x, %(p)s AS v, %(p)s AS w FROM (SELECT x FROM #t WHERE x > %(lo)s)      the same with a repeated name and a
\*     placeholder inside a FROM-subquery
S9 == Select(<<Tg(Col("x"), ""), Tg(Ph(1, "p"), "v"), Tg(Ph(2, "p"), "w")>>,
             Sub(Select(<<Tg(Col("x"), "")>>, Tab("t"), Bin("gt", Col("x"), Ph(3, "lo")), <<>>, FALSE, -1)), None, <<>>, FALSE, -1)
StmtsK == << [q |-> S8, swapped |-> FALSE], [q |-> S9, swapped |-> FALSE] >>
ParamsK == << << PSeq(<<I(1), I(0)>>), PSeq(<<B(TRUE), I(0)>>), PSeq(<<B(FALSE), I(0)>>), PSeq(<<I(0), I(0)>>) >>,
              << PMap(<< <<"p", I(0)>>, <<"lo", I(1)>> >>), PMap(<< <<"lo", I(1)>>, <<"p", B(FALSE)>> >>),
                 PMap(<< <<"p", B(TRUE)>>, <<"lo", I(1)>>, <<"q", I(0)>> >>), PMap(<< <<"p", I(1)>>, <<"lo", I(1)>> >>) >> >>
Stmts9 == Stmts7 \o StmtsK
Params9 == Params7 \o << SubSeq(ParamsK[1], 1, 3), SubSeq(ParamsK[2], 1, 3) >>
CacheExact == "exact"
CacheHost == "host"
\* the smallest history on which the mechanism as shipped fails: one statement with two positional placeholders
Stmts1 == << [q |-> S1, swapped |-> FALSE] >>
Params1 == SubSeq(Params4, 1, 1)

Pairs9 == {<<i, j>> : i \in 1..3, j \in 1..3}
Pairs2 == {<<1, 2>>, <<3, 1>>}
Pairs1 == {<<1, 2>>}
Pairs0 == {}
Pairs12 == {<<1, 2>>, <<2, 1>>}
Idx2 == {2}
Idx1234 == {1, 2, 3, 4}
Idx123 == {1, 2, 3}

(* ---- folding: well-typed expressions of depth <= 2 over constants and three columns (int, int, str).
        The sets take a dummy argument so that TLC builds them only in the configurations that use them. ---- *)
Acc(i, ty) == [k |-> "acc", i |-> i, ty |-> ty]
IntLeaves == {Const(I(0)), Const(I(2)), Const(I(-3)), Acc(1, "int"), Acc(2, "int")}
StrLeaves == {Const(S(1)), Const(S(2)), Acc(3, "str")}
Int1(u) == IntLeaves \cup {Bin(op, a, b) : op \in {"add", "sub"}, a \in IntLeaves, b \in IntLeaves}
Bool1(u) == {Bin(op, a, b) : op \in {"gt", "eq", "le"}, a \in IntLeaves, b \in IntLeaves}
            \cup {Bin(op, a, b) : op \in {"eq", "lt"}, a \in StrLeaves, b \in StrLeaves}
Int2(u) == {Bin(op, a, b) : op \in {"add", "sub"}, a \in Int1(u), b \in Int1(u)}
Bool2(u) == {Bin(op, a, b) : op \in {"gt", "eq", "ne"}, a \in Int1(u), b \in Int1(u)}
            \cup {And2(a, b) : a \in Bool1(u), b \in Bool1(u)}
FoldSpace(u) == Int1(u) \cup Bool1(u) \cup Int2(u) \cup Bool2(u)
FoldRows == { <<I(1), I(4), S(1), B(TRUE)>>, <<Null, I(0), S(2), B(FALSE)>>, <<I(-3), Null, Null, Null>>, <<I(2), I(2), S(0), B(TRUE)>> }
(* boolean connectives and NULL tests over NULL / TRUE / FALSE literals, a bool column, comparisons that are NULL in
   some rows (column 1 is NULL in the second row) and constant comparisons: every pair of operand values in both
   orders, two levels *)
BoolLeaves == {Const(Null), Const(B(TRUE)), Const(B(FALSE)), Acc(4, "bool"), Bin("gt", Acc(1, "int"), Const(I(0))),
               Bin("gt", Const(I(2)), Const(I(0))), Bin("eq", Const(I(0)), Const(I(2)))}
Conn1(u) == {And2(a, b) : a \in BoolLeaves, b \in BoolLeaves} \cup {Or2(a, b) : a \in BoolLeaves, b \in BoolLeaves}
            \cup {NotX(a) : a \in BoolLeaves} \cup {IsNullX(a) : a \in BoolLeaves}
BoolLeaves2 == {Const(Null), Const(B(TRUE)), Const(B(FALSE)), Acc(4, "bool")}
Conn2(u) == {And2(a, b) : a \in Conn1(u), b \in BoolLeaves2} \cup {And2(b, a) : a \in Conn1(u), b \in BoolLeaves2}
            \cup {Or2(a, b) : a \in Conn1(u), b \in BoolLeaves2} \cup {Or2(b, a) : a \in Conn1(u), b \in BoolLeaves2}
            \cup {NotX(a) : a \in Conn1(u)} \cup {IsNullX(a) : a \in Conn1(u)}
ConnSpace(u) == Conn1(u) \cup Conn2(u)
FoldLaw == cur = cur /\ FoldLawOn(FoldSpace(0), FoldRows) /\ FoldLawIn("shipped", ConnSpace(0), FoldRows)
(* non-vacuity: the short-cut `a constant FALSE decides an AND wherever it stands` must be rejected (NULL AND FALSE) *)
FoldLawAbsorb == cur = cur /\ FoldLawIn("absorb", Conn1(0), FoldRows)
(* constant expressions for the spec->code replay of folding *)
ConstLeavesI == {Const(I(0)), Const(I(2)), Const(I(7)), Const(I(3))}
ConstLeavesS == {Const(S(1)), Const(S(2))}
CInt1(u) == ConstLeavesI \cup {Bin(op, a, b) : op \in {"add", "sub"}, a \in ConstLeavesI, b \in ConstLeavesI}
CBool1(u) == {Bin(op, a, b) : op \in {"gt", "eq", "le", "ne"}, a \in ConstLeavesI, b \in ConstLeavesI}
             \cup {Bin(op, a, b) : op \in {"eq", "lt", "ge"}, a \in ConstLeavesS, b \in ConstLeavesS}
CInt2(u) == {Bin(op, a, b) : op \in {"add", "sub"}, a \in CInt1(u), b \in CInt1(u)}
CBool2(u) == {Bin(op, a, b) : op \in {"gt", "eq", "lt"}, a \in CInt1(u), b \in CInt1(u)}
(* constant connectives: NULL / TRUE / FALSE literals and constant comparisons, two levels *)
CBoolLits == {Const(Null), Const(B(TRUE)), Const(B(FALSE))}
CBoolLeaves == CBoolLits \cup {Bin("gt", Const(I(2)), Const(I(0))), Bin("eq", Const(I(0)), Const(I(2)))}
AndOr(as, bs) == {And2(a, b) : a \in as, b \in bs} \cup {Or2(a, b) : a \in as, b \in bs}
Unary(as) == {NotX(a) : a \in as} \cup {IsNullX(a) : a \in as}
CConn1(u) == AndOr(CBoolLeaves, CBoolLeaves) \cup Unary(CBoolLeaves)
CConn2Quick(u) == LET inner == AndOr(CBoolLits, CBoolLits)
                  IN AndOr(inner, CBoolLits) \cup AndOr(CBoolLits, inner) \cup Unary(inner)
CConn2All(u) == AndOr(CConn1(u), CBoolLeaves) \cup AndOr(CBoolLeaves, CConn1(u)) \cup Unary(CConn1(u))
(* folding the connectives as well is a legal optimisation as long as it evaluates them *)
FoldLawFull == cur = cur /\ FoldLawIn("full", Conn1(0) \cup CConn1(0) \cup CConn2Quick(0), FoldRows)
ConstSpaceQuick(u) == {e \in CInt1(u) \cup CBool1(u) : e.k # "c"}
                      \cup {Bin(op, a, b) : op \in {"sub"}, a \in CInt1(u), b \in ConstLeavesI}
                      \cup CConn1(u) \cup CConn2Quick(u)
ConstSpaceAll(u) == {e \in CInt1(u) \cup CBool1(u) \cup CInt2(u) \cup CBool2(u) : e.k # "c"}
                    \cup CConn1(u) \cup CConn2All(u)
(* ---- scans: tables of 1..2 rows; the fourth column is untyped (as a metadata value is): it holds TRUE in one row and 1
        in another, FALSE and 0 -- different BQL values the host language calls equal -- next to rows that differ plainly
        and rows that repeat.  Expressions: the columns themselves, one level of operators and of connectives. ---- *)
ScanRows == { <<I(1), I(4), S(1), B(TRUE)>>, <<I(1), I(4), S(1), I(1)>>, <<Null, I(0), S(2), B(FALSE)>>,
              <<Null, I(0), S(2), I(0)>>, <<I(2), I(2), S(0), B(TRUE)>> }
ScanTables(u) == UNION { [1..n -> ScanRows] : n \in 1..2 }
ScanExprs(u) == {Acc(1, "int"), Acc(3, "str"), Acc(4, "bool")} \cup Int1(u) \cup Bool1(u) \cup Conn1(u)
ScanLaw == cur = cur /\ ScanLawIn("plain", ScanExprs(0), ScanTables(0)) /\ ScanLawIn("memo-value", ScanExprs(0), ScanTables(0))
(* non-vacuity: a memo keyed by the host language's equality must be rejected (TRUE, then 1, in one column) *)
ScanLawHost == cur = cur /\ ScanLawIn("memo-host", ScanExprs(0), ScanTables(0))
=============================================================================
