----------------------------- MODULE MC_Ledger -----------------------------
(* Model-checking instance of Ledger: directive alphabets (a small one for the exhaustive run, a large one built
   from option products for the generator) and the key lists. *)
EXTENDS Ledger, Json

(* ---- constructors of the abstract vocabulary ---- *)
MVs(s) == [t |-> "str", s |-> s, n |-> <<0, 1>>]
MVi(i) == [t |-> "int", s |-> "", n |-> <<i, 1>>]
MVd(a, b) == [t |-> "dec", s |-> "", n |-> <<a, b>>]
MVdate(o) == [t |-> "date", s |-> "", n |-> <<o, 1>>]
MVb(b) == [t |-> "bool", s |-> "", n |-> <<b, 1>>]
MVa(a, b, c) == [t |-> "amount", s |-> c, n |-> <<a, b>>]
MVnull == [t |-> "null", s |-> "", n |-> <<0, 1>>]
MVm(s) == [t |-> "map", s |-> s, n |-> <<0, 1>>]     \* a dictionary str -> number, "CUR=num/den;..." sorted by key
M0(line) == << <<"filename", MVs("<gen>")>>, <<"lineno", MVi(line)>> >>
A(a, b, c) == [n |-> <<a, b>>, c |-> c]
C(a, b, c, date, label) == [n |-> <<a, b>>, c |-> c, date |-> date, label |-> label]
P(acct, u, cost, price, flag, meta) == [acct |-> acct, u |-> u, cost |-> cost, price |-> price, flag |-> flag, meta |-> meta]
Txn(date, meta, flag, payee, narr, tags, links, ps) ==
    [k |-> "txn", date |-> date, meta |-> meta, flag |-> flag, payee |-> payee, narration |-> narr, tags |-> tags,
     links |-> links, postings |-> ps]
Open(date, meta, a, cur, booking) == [k |-> "open", date |-> date, meta |-> meta, account |-> a, currencies |-> cur, booking |-> booking]
Close(date, meta, a) == [k |-> "close", date |-> date, meta |-> meta, account |-> a]
Commodity(date, meta, c) == [k |-> "commodity", date |-> date, meta |-> meta, currency |-> c]
Pad(date, meta, a, s) == [k |-> "pad", date |-> date, meta |-> meta, account |-> a, source |-> s]
Balance(date, meta, a, amt, tol, diff) == [k |-> "balance", date |-> date, meta |-> meta, account |-> a, amount |-> amt, tolerance |-> tol, diff |-> diff]
Note(date, meta, a, c, tags, links) == [k |-> "note", date |-> date, meta |-> meta, account |-> a, comment |-> c, tags |-> tags, links |-> links]
Event(date, meta, t, d) == [k |-> "event", date |-> date, meta |-> meta, type |-> t, description |-> d]
Query(date, meta, n, q) == [k |-> "query", date |-> date, meta |-> meta, name |-> n, query_string |-> q]
Price(date, meta, c, amt) == [k |-> "price", date |-> date, meta |-> meta, currency |-> c, amount |-> amt]
Document(date, meta, a, f, tags, links) == [k |-> "document", date |-> date, meta |-> meta, account |-> a, filename |-> f, tags |-> tags, links |-> links]
Custom(date, meta, t, v) == [k |-> "custom", date |-> date, meta |-> meta, type |-> t, values |-> v]

AcA == "Assets:A"
AcB == "Assets:B"
AcF == "Expenses:F"
D0 == 737425      \* 2020-01-01
D1 == 737484      \* 2020-02-29
D2 == 737790      \* 2020-12-31

K1s == <<"k1", MVs("p-one")>>
BothP == <<"both", MVs("from-posting")>>
BothT == <<"both", MVs("from-txn")>>
K2T == <<"k2", MVi(42)>>
(* keys over the whole key syntax [a-z][a-zA-Z0-9\-_]+ : camel case, its lower-case twin (a DIFFERENT key that may sit in
   the same dictionary), a twin of "both" that differs in one letter's case, a key with a dash, an underscore, a digit *)
KCamel == <<"isinCode", MVs("US9229087690")>>
KTwin == <<"isincode", MVs("lower-case-twin")>>
BothCamelT == <<"bOth", MVs("camel-from-txn")>>
BothCamelP == <<"bOth", MVs("camel-from-posting")>>
KDash == <<"tax-Id_2", MVi(7)>>
(* keys Beancount writes itself: the tolerances booking infers (on transactions), the mark of an interpolated posting,
   a plugin's annotation (any directive); one of them on a posting AND on its transaction with different values *)
KTol == <<"__tolerances__", MVm("EUR=1/100;USD=1/200")>>
KTol0 == <<"__tolerances__", MVm("")>>
KAuto == <<"__automatic__", MVb(1)>>
KAutoT == <<"__automatic__", MVb(0)>>
KPlug == <<"__plugin__", MVs("annotated")>>

(* ---- the small alphabet of the exhaustive run: every directive kind, every structural option once ---- *)
SmallAlpha == <<
    Txn(D0, M0(1) \o <<BothT, K2T, BothCamelT, KTol, KAutoT>>, "*", Some("Payee"), "Narr", Some(<<"t1", "t2">>), Some(<<"l1">>),
        << P(AcA, A(-10, 1, "USD"), NULL, NULL, NULL, Some(M0(2) \o <<K1s, BothP, KAuto>>)),
           P(AcF, A(10, 1, "USD"), NULL, NULL, Some("!"), NULL) >>),
    Txn(D1, M0(3) \o <<K1s, KTol0>>, "!", NULL, "", Some(<<>>), Some(<<>>),
        << P(AcA, A(2, 1, "HOOL"), Some(C(21, 4, "USD", Some(D0), Some("lot1"))), Some(A(6, 1, "USD")), NULL, Some(M0(4) \o <<KAuto>>)),
           P(AcA, A(-21, 2, "USD"), NULL, NULL, NULL, Some(M0(5) \o <<K2T, KCamel, BothCamelP>>)),
           P(AcB, A(3, 2, "HOOL"), Some(C(5, 1, "USD", NULL, NULL)), NULL, NULL, NULL) >>),
    Txn(D2, M0(6), "*", Some(""), "Only", NULL, NULL,
        << P(AcB, A(-8, 1, "EUR"), NULL, Some(A(5, 4, "USD")), NULL, Some(M0(7) \o << <<"k2", MVnull>> >>)) >>),
    Open(D0, M0(10) \o <<K1s, BothT, KCamel, KTwin, KPlug>>, AcA, <<"USD">>, Some("FIFO")),
    Open(D0, M0(11) \o <<BothCamelT>>, AcB, <<>>, NULL),
    Close(D2, M0(12) \o <<K1s>>, AcA),
    Commodity(D0, M0(13) \o << <<"k1", MVa(3, 2, "USD")>>, K2T, KCamel, KPlug >>, "USD"),
    Commodity(D1, M0(14) \o <<KTwin, BothCamelT>>, "HOOL"),
    Price(D1, M0(15), "HOOL", A(11, 2, "USD")),
    Balance(D1, M0(16), AcA, A(100, 1, "USD"), Some(<<1, 20>>), Some(A(-1, 2, "USD"))),
    Note(D1, M0(17), AcA, "a note", NULL, Some(<<"l1">>)),
    Event(D1, M0(18), "location", "Paris"),
    Document(D1, M0(19), AcB, "/tmp/x.pdf", Some(<<"t1">>), NULL),
    Pad(D0, M0(20), AcA, AcB),
    Query(D1, M0(21), "q", "SELECT 1"),
    Custom(D1, M0(22), "budget", <<"monthly">>) >>

(* ten of them for the deeper run (<= 4 directives): the three transactions, open / close of one account, a commodity,
   a price, a balance, a note, a pad *)
SmallAlpha10 == [n \in 1..10 |-> SmallAlpha[<<1, 2, 3, 4, 6, 7, 9, 10, 11, 14>>[n]]]

SmallKeys == <<"filename", "lineno", "k1", "k2", "both", "nokey", "isinCode", "isincode", "bOth",
               "__tolerances__", "__automatic__", "__plugin__">>

(* ---- the generator alphabet ---- *)
CostOpts == << NULL, Some(C(5, 1, "USD", NULL, NULL)), Some(C(21, 4, "USD", Some(D0), NULL)),
               Some(C(5, 1, "EUR", NULL, Some("lot1"))), Some(C(7, 2, "USD", Some(D1), Some("lot2"))) >>
PriceOpts == << NULL, Some(A(6, 1, "USD")), Some(A(3, 2, "EUR")) >>
PMetaOpts == << NULL, Some(M0(31) \o <<KAuto>>), Some(M0(32) \o <<K1s, BothP, KCamel>>),
                Some(M0(33) \o << <<"k2", MVnull>>, <<"kd", MVdate(D1)>>, <<"kx", MVd(-7, 4)>>, BothCamelP, KTwin, KAuto >>) >>
Pick(s, n) == s[(n % Len(s)) + 1]
OddNums == <<3, 7, 9, 11, 13, 17, 19, 21, 23, 27, -3, -7, -9>>     \* coprime to 2 and 5: n / (1|2|4|5) is reduced

(* 60 transactions: every combination of cost x price x posting-metadata option on the first posting *)
FocusTxn(v) ==
    LET co == Pick(CostOpts, v) pr == Pick(PriceOpts, v \div 5) pm == Pick(PMetaOpts, v \div 15) IN
    Txn(D0 + v, M0(100 + v) \o <<BothT, K2T>> \o (IF v % 4 < 2 THEN <<BothCamelT>> ELSE <<KCamel, KDash>>)
            \o (IF v % 3 = 0 THEN <<>> ELSE IF v % 3 = 1 THEN <<KTol>> ELSE <<KTol0, KAutoT>>),
        IF v % 2 = 0 THEN "*" ELSE "!", Some("Pay"), "Narr", Some(<<"t1">>), Some(<<>>),
        << P(AcA, A(Pick(OddNums, v), Pick(<<1, 2, 4, 5>>, v \div 3), "HOOL"), co, pr, IF v % 3 = 0 THEN Some("!") ELSE NULL, pm),
           P(AcF, A(-3, 1, "USD"), NULL, NULL, NULL, Some(M0(200 + v))) >>)
PayeeOpts == << NULL, Some(""), Some("Pay") >>
NarrOpts == << "", "Narr" >>
TagOpts == << <<NULL, NULL>>, <<Some(<<>>), Some(<<>>)>>, <<Some(<<"t1", "t2">>), Some(<<"l1">>)>> >>
(* 18 transactions: payee x narration x tags/links *)
AttrTxn(v) ==
    LET tl == Pick(TagOpts, v \div 6) IN
    Txn(D1 + v, M0(300 + v) \o (IF v % 2 = 0 THEN <<>> ELSE <<K1s>>), IF v % 2 = 0 THEN "*" ELSE "T",
        Pick(PayeeOpts, v), Pick(NarrOpts, v \div 3), tl[1], tl[2],
        << P(AcB, A(-5, 2, "EUR"), NULL, NULL, NULL, IF v % 2 = 0 THEN NULL ELSE Some(M0(320 + v))) >>)
ShapeTxns == <<
    Txn(D2, M0(400), "*", NULL, "dup siblings", Some(<<>>), Some(<<>>),
        << P(AcA, A(1, 1, "USD"), NULL, NULL, NULL, Some(M0(401))), P(AcA, A(2, 1, "USD"), NULL, NULL, NULL, NULL),
           P(AcB, A(-3, 1, "USD"), NULL, NULL, Some("*"), Some(M0(403))) >>),
    Txn(D2, M0(410), "*", NULL, "same account", Some(<<>>), Some(<<>>),
        << P(AcF, A(1, 1, "USD"), NULL, NULL, NULL, NULL), P(AcF, A(-1, 1, "USD"), NULL, NULL, NULL, NULL) >>),
    Txn(D2 + 1, M0(420) \o <<KTol>>, "P", NULL, "(Padding inserted)", Some(<<>>), Some(<<>>),
        << P(AcA, A(110, 1, "USD"), NULL, NULL, NULL, NULL), P("Equity:O", A(-110, 1, "USD"), NULL, NULL, NULL, NULL) >>),
    Txn(D2 + 2, M0(430) \o << <<"kb", MVb(1)>>, <<"ka", MVa(5, 2, "EUR")>> >>, "*", Some("Four"), "four postings", Some(<<"t2">>), Some(<<"l1", "l2">>),
        << P(AcA, A(1, 4, "EUR"), NULL, Some(A(9, 8, "USD")), NULL, Some(M0(431) \o << <<"kb", MVb(0)>> >>)),
           P(AcB, A(1, 4, "EUR"), NULL, NULL, NULL, Some(M0(432))),
           P(AcF, A(-1, 2, "EUR"), NULL, NULL, Some("!"), Some(M0(433) \o << <<"ka", MVa(1, 1, "USD")>> >>)),
           P("Assets:Z", A(0, 1, "EUR"), NULL, NULL, NULL, NULL) >>),
    Txn(D0, M0(440), "*", NULL, "no postings", Some(<<>>), Some(<<>>), <<>>) >>
OtherDirectives == <<
    Open(D0, M0(500) \o <<K1s, BothT, KCamel, KTwin, <<"tax-Id_2", MVb(1)>> >>, AcA, <<"USD", "HOOL">>, Some("FIFO")),
    Open(D0 + 1, M0(501) \o <<BothCamelT, KPlug>>, AcB, <<>>, NULL),
    Open(D0 + 2, M0(502) \o << <<"kd", MVdate(D2)>>, <<"kx", MVd(5, 2)>>, <<"k2", MVnull>>, <<"isinCode", MVdate(D1)>> >>, AcF, <<>>, Some("STRICT")),
    Close(D2, M0(503) \o <<K1s>>, AcA),
    Close(D2 + 3, M0(504), AcB),
    Close(D2, M0(505), "Assets:Z"),
    Commodity(D0, M0(506) \o << <<"k1", MVa(3, 2, "USD")>>, K2T, <<"kb", MVb(1)>>, <<"kd", MVdate(D0)>>, <<"kx", MVd(1, 8)>>,
                               <<"isinCode", MVs("US0000000001")>>, <<"isincode", MVi(840)>> >>, "USD"),
    Commodity(D1, M0(507) \o <<KCamel, KDash, KPlug>>, "HOOL"),
    Commodity(D1, M0(508) \o << <<"both", MVs("eur")>>, <<"k2", MVnull>>, <<"bOth", MVd(3, 8)>>, KTwin >>, "EUR"),
    Price(D1, M0(509), "HOOL", A(11, 2, "USD")),
    Price(D2, M0(510) \o <<K1s, KPlug>>, "EUR", A(9, 8, "USD")),
    Balance(D1, M0(511), AcA, A(100, 1, "USD"), NULL, NULL),
    Balance(D1, M0(512) \o <<K2T>>, AcB, A(-5, 4, "EUR"), Some(<<1, 20>>), Some(A(-1, 2, "EUR"))),
    Note(D1, M0(513), AcA, "a note", NULL, NULL),
    Note(D1, M0(514) \o <<BothT>>, AcB, "", Some(<<"t1">>), Some(<<"l1">>)),
    Event(D1, M0(515), "location", "Paris"),
    Document(D1, M0(516), AcB, "/tmp/x.pdf", NULL, NULL),
    Document(D2, M0(517) \o <<K1s>>, AcA, "/tmp/y.pdf", Some(<<"t1", "t2">>), Some(<<>>)),
    Pad(D0, M0(518), AcA, AcB),
    Query(D1, M0(519), "q", "SELECT 1"),
    Custom(D1, M0(520), "budget", <<"monthly">>) >>

(* ---- the connection: qualifier options, a small alphabet for the multi-statement run ---- *)
QNone == {NoQual}
Q(o, c, clr) == [open |-> o, close |-> c, clear |-> clr]
QConn == {NoQual, Q(NULL, NULL, TRUE), Q(Some(D1), NULL, FALSE), Q(NULL, Some(D1 + 1), FALSE), Q(NULL, Some(0), FALSE),
          Q(Some(D1), Some(D2), TRUE)}
(* two transactions (one posting to an expenses account; one dated later, with cost and price), the open and the close
   of one account, a commodity, a price *)
ConnAlpha == [n \in 1..6 |-> SmallAlpha[<<1, 2, 4, 6, 7, 9>>[n]]]

(* ---- accounts opened / closed and currencies declared by SEVERAL directives ---- *)
(* a transaction posting HOOL to Assets:A (and USD to Expenses:F), three open directives of Assets:A (the second one
   dated before the first, the third one on the first one's date), two close directives (the second dated before the
   first), three commodity directives of HOOL whose dates and metadata differ (keys on the first only, on the later
   only, on both with different values), one of USD *)
DupDirectives == <<
    Open(D1, M0(600) \o <<K1s, BothT>>, AcA, <<>>, NULL),
    Open(D0, M0(601) \o <<K2T, <<"both", MVs("earlier-open")>> >>, AcA, <<"USD">>, Some("FIFO")),
    Open(D1, M0(602) \o <<KCamel>>, AcA, <<>>, NULL),
    Close(D2, M0(603), AcA),
    Close(D1 + 1, M0(604) \o <<K1s>>, AcA),
    Commodity(D0, M0(605) \o <<K1s, K2T, KCamel>>, "HOOL"),
    Commodity(D1, M0(606) \o << <<"k1", MVs("superseding")>>, KTwin, BothT >>, "HOOL"),
    Commodity(D0, M0(607), "HOOL"),
    Commodity(D0, M0(608) \o <<K1s>>, "USD") >>
DupAlpha == << FocusTxn(17) >> \o DupDirectives
(* the generator's: two transactions (posting with / without metadata dictionary), the same directives *)
DupGenAlpha == << FocusTxn(17), FocusTxn(2) >> \o DupDirectives

GenAlpha == [v \in 1..60 |-> FocusTxn(v - 1)] \o [v \in 1..18 |-> AttrTxn(v - 1)] \o ShapeTxns \o OtherDirectives
GenKeys == <<"filename", "lineno", "k1", "k2", "both", "kd", "kx", "kb", "ka", "nokey",
             "isinCode", "isincode", "bOth", "tax-Id_2", "ISINCODE", "__tolerances__", "__automatic__", "__plugin__">>
=============================================================================
