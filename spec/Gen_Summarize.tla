---------------------------- MODULE Gen_Summarize ----------------------------
(* Case generator for the spec -> code leg of C13: the same mechanism; in every terminal state one JSON line with the
   case (ledger, clauses, filter) and what the statement determines of the rows the real code must return (ExpectKept,
   ExpectTotals, ExpectValue -- tied to the mechanism by ExpectInv, which is checked in the same run).
   EmitKeys prints the key table once (Gen_SummarizeKeys.cfg). *)
EXTENDS MC_Summarize

GenCfgs ==      \* every clause combination without a filter; the filters on a grid of clause combinations
    [open : Open05, close : Close05, clear : BOOLEAN, filter : {NoFilter}]
      \cup [open : {0, 3}, close : {-1, 0, 4}, clear : BOOLEAN, filter : FAll \ {NoFilter}]
GenCfgsThorough ==
    [open : Open06, close : Close06, clear : BOOLEAN, filter : {NoFilter}]
      \cup [open : {0, 2, 3, 4}, close : {-1, 0, 3, 4, 5}, clear : BOOLEAN, filter : FAll \ {NoFilter}]

GStatement(cfgs) ==
    /\ status = "parse"
    /\ cfg' \in cfgs
    /\ status' = "compile"
    /\ UNCHANGED <<ledger, pc, entries, report>>
GNext == GStatement(GenCfgs) \/ (status # "parse" /\ Next)
GNextThorough == GStatement(GenCfgsThorough) \/ (status # "parse" /\ Next)

\* ledgers for the replay (x 156 statements each in the quick grid, x 352 in the thorough one)
GenLedgerSet(name) ==
    CASE name = "quick" ->
            LedgersOf(0, {2}, AllT) \cup LedgersOf(1, {3}, AllT)
              \cup { l \in LedgersOf(2, {2, 4}, {1, 4, 9}) : l[1].date < l[2].date \/ l[1].ps # l[2].ps }
              \cup { l \in LedgersOf(3, 2..4, {1, 4, 5, 6, 3}) :
                       l[1].date = 2 /\ l[3].date = 4 /\ <<l[1].ps, l[2].ps, l[3].ps>> \in
                          { <<Templates[1], Templates[4], Templates[6]>>, <<Templates[5], Templates[6], Templates[3]>>,
                            <<Templates[4], Templates[1], Templates[5]>> } }
      [] name = "thorough" ->
            LedgersOf(0, {2}, AllT) \cup LedgersOf(1, {2, 4}, AllT) \cup LedgersOf(2, {2, 3, 5}, {1, 3, 4, 6, 9})
              \cup { l \in LedgersOf(3, 2..5, {1, 2, 4, 5, 6, 7, 8}) :
                       <<l[1].ps, l[2].ps, l[3].ps>> \in
                          { <<Templates[1], Templates[4], Templates[6]>>, <<Templates[5], Templates[6], Templates[2]>>,
                            <<Templates[7], Templates[4], Templates[8]>> } }
              \cup { l \in LedgersOf(4, {2, 3, 4}, {1, 4, 5, 6}) :
                       l[1].date < l[4].date /\ <<l[1].ps, l[2].ps, l[3].ps, l[4].ps>> =
                           <<Templates[1], Templates[5], Templates[4], Templates[6]>> }
GInitQuick == InitWith(GenLedgerSet("quick"))
GInitThorough == InitWith(GenLedgerSet("thorough"))

CoreOut(s) == [i \in 1..Len(s) |-> <<s[i].t, s[i].date, s[i].flag, s[i].k, s[i].u, s[i].px>>]
Emit ==
    (status \in {"done", "rejected"}) =>
        PrintT(ToJson([
            ledger |-> [i \in 1..Len(ledger) |-> [date |-> ledger[i].date, t |-> ledger[i].t, flag |-> ledger[i].flag,
                                                 ps |-> ledger[i].ps]],
            c |-> cfg,
            status |-> status,
            kept |-> IF status = "done" THEN CoreOut(ExpectKept(LP, cfg)) ELSE <<>>,
            cmp |-> SynthPass(cfg.filter) # "some",
            tot |-> IF status = "done" THEN ExpectTotals(KeyTab, LP, cfg) ELSE <<>>,
            val |-> IF status = "done" THEN [i \in 1..Len(CurSeq) |-> <<CurSeq[i], ExpectValue(KeyTab, LP, cfg, CurSeq[i])>>]
                    ELSE <<>>]))

EmitKeys == status = status /\ PrintT(ToJson([keys |-> KeyTab, special |-> Special, curs |-> CurSeq, base |-> Base]))
KNext == FALSE /\ UNCHANGED vars
=============================================================================
