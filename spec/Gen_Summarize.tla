---------------------------- MODULE Gen_Summarize ----------------------------
(* Case generator for the spec -> code leg of C13: the same mechanism; in every terminal state one JSON line with the
   case (ledger, clauses, filter) and what the statement determines of the rows the real code must return (ExpectKept,
   ExpectTotals, ExpectValue -- tied to the mechanism by ExpectInv, which is checked in the same run).
   EmitKeys prints the key table once (Gen_SummarizeKeys.cfg). *)
EXTENDS MC_Summarize

GenCfgs ==      \* every clause combination without a filter; the filters on a grid of clause combinations
    [open : Open05, close : Close05, clear : BOOLEAN, filter : {NoFilter}]
      \cup [open : {0, 3}, close : {-1, 0, 4}, clear : BOOLEAN, filter : FAll \ {NoFilter}]
GenCfgsThorough ==
    [open : Open06, close : Close06, clear : BOOLEAN, filter : {NoFilter}]
      \cup [open : {0, 2, 3, 4}, close : {-1, 0, 3, 4, 5}, clear : BOOLEAN, filter : FAll \ {NoFilter}]

GStatement(cfgs) == Arrives(cfgs, {NoInner}, {ApiDoor})

(* Entry points: the same statements given to the shell (typed at the prompt / on the command line) and run as named queries
   of the ledger (.run, the query directive dated before, on, between and after the entry dates), on the ledgers with income,
   expenses and a conversion on different dates: every clause subset, CLOSE bare / dated, a filter expression or none. *)
GenDoors(name) ==
    CASE name = "quick" ->
            [cfgs |-> [open : Open03, close : Close04, clear : BOOLEAN, filter : {NoFilter, F("ge", 3)}]
                        \cup [open : {0, 2, 5}, close : {-1, 3}, clear : BOOLEAN, filter : {NoFilter}],
             doors |-> {ShellDoor, RunDoor(2), RunDoor(4), RunDoor(5)}]
      [] name = "thorough" ->
            [cfgs |-> [open : Open05, close : Close05, clear : BOOLEAN, filter : {NoFilter}]
                        \cup [open : Open03, close : Close04, clear : BOOLEAN, filter : FAll \ {NoFilter}],
             doors |-> {ShellDoor} \cup {RunDoor(q) : q \in 1..5}]
DoorLedger(name, l) ==
    CASE name = "quick" -> Len(l) = 3 /\ l[2].date = 3
      [] name = "thorough" -> (Len(l) = 3 /\ l[1].date = 2 /\ l[3].date = 5) \/ Len(l) = 4
GDoor(name) == DoorLedger(name, ledger) /\ Arrives(GenDoors(name).cfgs, {NoInner}, GenDoors(name).doors)

(* Nested statements  ... FROM <clauses> WHERE account IN (SELECT account FROM <filter> <clauses>)  on the ledgers whose
   transactions differ in date and accounts.  Only the subqueries whose selection the statement determines (no clause: the
   plain ledger -- with every filter expression; clauses: with the filters that pass no synthetic transaction) and the
   rejected ones (CLOSE before OPEN inside the subquery). *)
Emittable(x) == InnerDetermined(x.c) \/ Rejected(x.c)
GenNested(name) ==
    CASE name = "quick" ->
            [cfgs |-> [open : Open03, close : Close04, clear : BOOLEAN, filter : {NoFilter}],
             inners |-> { x \in InnersOf(Open03, Close04, FAll) \cup InnersOf({3}, {2}, {NoFilter}) :
                            /\ Emittable(x)
                            /\ HasClauses(x.c) =>
                                 <<x.c.open, x.c.close, x.c.clear>> \in
                                    {<<3, -1, FALSE>>, <<0, 4, FALSE>>, <<0, -1, TRUE>>, <<3, 4, TRUE>>, <<3, 0, FALSE>>, <<3, 2, FALSE>>} }]
      [] name = "thorough" ->
            [cfgs |-> [open : Open03, close : Close04, clear : BOOLEAN, filter : {NoFilter, F("ge", 3)}],
             inners |-> { x \in InnersOf(Open03, Close024, FAll) : Emittable(x) }]
\* the ledgers (among those of the replay) the nested statements are run on: transactions that differ in date and accounts
NestedLedger(name, l) ==
    CASE name = "quick" -> \/ Len(l) = 2 /\ l[1].date < l[2].date /\ l[1].ps # l[2].ps
                           \/ Len(l) = 3 /\ l[2].date = 3 /\ l[1].ps = Templates[5]
      [] name = "thorough" -> \/ Len(l) = 2 /\ l[1].date = 2 /\ l[2].date = 5 /\ l[1].ps # l[2].ps
                              \/ Len(l) = 3 /\ l[1].date = 2 /\ l[2].date = 3 /\ l[3].date = 5
GNested(name) == NestedLedger(name, ledger) /\ Arrives(GenNested(name).cfgs, GenNested(name).inners, {ApiDoor})
GNext == GStatement(GenCfgs) \/ GNested("quick") \/ GDoor("quick") \/ (status # "parse" /\ Next)
GNextThorough == GStatement(GenCfgsThorough) \/ GNested("thorough") \/ GDoor("thorough") \/ (status # "parse" /\ Next)

\* ledgers for the replay (x 156 statements each in the quick grid, x 352 in the thorough one)
GenLedgerSet(name) ==
    CASE name = "quick" ->
            LedgersOf(0, {2}, AllT) \cup LedgersOf(1, {3}, AllT)
              \cup { l \in LedgersOf(2, {2, 4}, {1, 4, 9}) : l[1].date < l[2].date \/ l[1].ps # l[2].ps }
              \cup { l \in LedgersOf(3, 2..4, {1, 4, 5, 6, 3}) :
                       l[1].date = 2 /\ l[3].date = 4 /\ <<l[1].ps, l[2].ps, l[3].ps>> \in
                          { <<Templates[1], Templates[4], Templates[6]>>, <<Templates[5], Templates[6], Templates[3]>>,
                            <<Templates[4], Templates[1], Templates[5]>> } }
      [] name = "thorough" ->
            LedgersOf(0, {2}, AllT) \cup LedgersOf(1, {2, 4}, AllT) \cup LedgersOf(2, {2, 3, 5}, {1, 3, 4, 6, 9})
              \cup { l \in LedgersOf(3, 2..5, {1, 2, 4, 5, 6, 7, 8}) :
                       <<l[1].ps, l[2].ps, l[3].ps>> \in
                          { <<Templates[1], Templates[4], Templates[6]>>, <<Templates[5], Templates[6], Templates[2]>>,
                            <<Templates[7], Templates[4], Templates[8]>> } }
              \cup { l \in LedgersOf(4, {2, 3, 4}, {1, 4, 5, 6}) :
                       l[1].date < l[4].date /\ <<l[1].ps, l[2].ps, l[3].ps, l[4].ps>> =
                           <<Templates[1], Templates[5], Templates[4], Templates[6]>> }
GInitQuick == InitWith(GenLedgerSet("quick"))
GInitThorough == InitWith(GenLedgerSet("thorough"))

CoreOut(s) == [i \in 1..Len(s) |-> <<s[i].t, s[i].date, s[i].flag, s[i].k, s[i].u, s[i].px>>]
Emit ==
    (status \in {"done", "rejected"}) =>
        PrintT(ToJson([
            ledger |-> [i \in 1..Len(ledger) |-> [date |-> ledger[i].date, t |-> ledger[i].t, flag |-> ledger[i].flag,
                                                 ps |-> ledger[i].ps]],
            c |-> cfg,
            door |-> door,
            sub |-> inner,
            status |-> status,
            kept |-> IF status # "done" THEN <<>>
                     ELSE IF inner.on THEN CoreOut(ExpectKeptN(KeyTab, LP, W, inner.c)) ELSE CoreOut(ExpectKept(LP, W)),
            cmp |-> SynthPass(W.filter) # "some",
            tot |-> IF status # "done" THEN <<>>
                    ELSE IF inner.on THEN ExpectTotalsN(KeyTab, LP, W, inner.c) ELSE ExpectTotals(KeyTab, LP, W),
            \* the value at cost of the rows a WHERE clause picks is not determined (Equity rows are picked by account)
            val |-> IF status = "done" /\ ~inner.on
                    THEN [i \in 1..Len(CurSeq) |-> <<CurSeq[i], ExpectValue(KeyTab, LP, W, CurSeq[i])>>]
                    ELSE <<>>]))

EmitKeys == status = status /\ PrintT(ToJson([keys |-> KeyTab, special |-> Special, curs |-> CurSeq, base |-> Base]))
KNext == FALSE /\ UNCHANGED vars
=============================================================================
