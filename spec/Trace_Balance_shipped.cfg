\* recorded runs replayed on the mechanism as shipped before fix 678e809: recognises the known cache defect (classification only)
CONSTANTS
  Threads = {1, 2, 3, 4}
  CacheMode = "process-wide one entry"
  Split = FALSE
INIT TInit
NEXT TNext
INVARIANTS TypeOK
CHECK_DEADLOCK FALSE
