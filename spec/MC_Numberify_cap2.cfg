\* non-vacuity: census sees only the first two currencies of each inventory.  TLC must violate NoCurrencyDropped.
CONSTANTS
  Space = "inv3"
  Shapes <- ShapesOf
  FmtChoices <- Fmt0
  DCtx <- DCAB
  Prec = "most_common"
  CurSeq <- CS3
  InvNull = "skip"
  Mut = "cap2"
INIT Init
NEXT Next
INVARIANTS NoCurrencyDropped
CHECK_DEADLOCK FALSE
