----------------------------- MODULE MC_Reload -----------------------------
(* Model-checking instance of Reload (C12): four small ledgers (a lot at cost, cash, a sale reducing the lot, a second
   lot) x three price tables (none / prices / the same pairs at other rates) x five conversions x up to MaxAttach
   attachments of one connection x up to MaxStmts statements in any interleaving. *)
EXTENDS Reload

D1 == 737434   \* 2020-01-10
D2 == 737444
C1 == <<10, "USD", D1, "">>
C2 == <<12, "USD", D2, "">>
pU == Pos("USD", NoCost, 1)
pH == Pos("HOOL", C1, 2)
pR == Pos("HOOL", C1, -2)
pK == Pos("HOOL", C2, 1)

MCLedgers == { <<pH>>, <<pH, pU>>, <<pH, pK, pR>>, <<pU, pK>> }
MCPriceTabs == << {},
                  { <<"HOOL", "USD", D1, 11>>, <<"USD", "EUR", D1, 2>> },
                  { <<"HOOL", "USD", D1, 15>>, <<"HOOL", "USD", D2, 13>>, <<"USD", "EUR", D1, 3>> } >>
MCFs == { <<"value", "", 0>>, <<"value", "", D1>>, <<"convert", "EUR", 0>>, <<"convert", "USD", D2>>, <<"cost", "", 0>> }
MemosOK == {NoMemo, Dropped}
MemosBad == {ByArgs}
=============================================================================
