\* quick tier: date_bin with the full set of strides and origins, every date of 2019-07-01 .. 2020-12-31
CONSTANTS
  Lo = 737241
  Hi = 737790
  Step = 1
  ChainLen = 16
  BinImpl = "spec"
  BinFull = TRUE
INIT Init
NEXT Next
INVARIANTS BinInv
CHECK_DEADLOCK FALSE
