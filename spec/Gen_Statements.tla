--------------------------- MODULE Gen_Statements ---------------------------
(* Spec -> code generator for C14.  Three configurations:
     Gen_StatementsTab   one state: the constant tables (pools, and per statement shape the SHORT statement and the
                         EXPANDED SELECT as token sequences)
     Gen_Statements      every (ledger, statement) pair within the bounds, with the rows the specification says the
                         statement returns (the declarative meaning -- MC_Statements shows the expansion denotes it)
     Gen_StatementsSim   random deeper ledgers (tlc -simulate): the ledger grows one posting / directive per step   *)
EXTENDS MC_Statements, Json

ShapeInfo(s) == [kind |-> s.kind, f |-> s.f, from |-> s.from, where |-> s.where, acct |-> s.acct, short |-> StmtTokens(s),
                 expanded |-> IF s.kind = "print" THEN <<>> ELSE SelectTokens(Expand(s)),
                 clauses |-> HasClauses(s.from), chain |-> ClauseChain(s.from), filtered |-> s.from.expr.k # "true" \/ s.where.k # "true" \/ s.acct.present]
Tables == [headers |-> HeadersV, pool |-> PoolV, dirpool |-> [k \in DOMAIN DirPoolV |-> DirPoolV[k]],
           shapes |-> [n \in DOMAIN ShapesV |-> ShapeInfo(ShapesV[n])],
           printshapes |-> [n \in DOMAIN PrintShapesV |-> ShapeInfo(PrintShapesV[n])],
           bigshapes |-> [n \in DOMAIN BigShapes |-> ShapeInfo(BigShapes[n])]]

TabInit == /\ tbl = "postings" /\ ledger = <<>> /\ si = 1
           /\ phase = "stmt" /\ pos = 1 /\ ctxbal = {} /\ out = <<>> /\ gkeys = <<>> /\ gvals = <<>>
Stutter == FALSE /\ UNCHANGED vars
EmitTables == phase = "stmt" /\ PrintT(ToJson(Tables))

\* one JSON line per case: t = table, l = ledger (pool indices), s = statement index, rows = what must be returned
EmitCase == PrintT(ToJson([t |-> tbl, l |-> ledger, s |-> si, rows |-> Meaning]))

\* growing ledgers for simulation
GrowInit ==
    /\ \/ tbl = "postings" /\ si \in 1..Len(ShapesV)
       \/ tbl = "entries" /\ si \in 1..Len(PrintShapesV)
    /\ ledger = <<>>
    /\ phase = "stmt" /\ pos = 1 /\ ctxbal = {} /\ out = <<>> /\ gkeys = <<>> /\ gvals = <<>>
Bound == IF tbl = "postings" THEN MaxPostings ELSE MaxDirs
GrowNext ==
    /\ Len(ledger) < Bound
    /\ \/ /\ tbl = "postings"
          /\ \E k \in DOMAIN PoolV : /\ (ledger # <<>> => PoolV[ledger[Len(ledger)]].txn <= PoolV[k].txn)
                                     /\ ledger' = Append(ledger, k)
       \/ /\ tbl = "entries"
          /\ \E k \in DOMAIN DirPoolV : /\ (ledger # <<>> => DirPoolV[ledger[Len(ledger)]].date <= DirPoolV[k].date)
                                        /\ ledger' = Append(ledger, k)
    /\ UNCHANGED <<tbl, si, phase, pos, ctxbal, out, gkeys, gvals>>
EmitGrown == (Len(ledger) = Bound) => EmitCase
=============================================================================
