CONSTANTS
  NCursors = 2
  TableNames <- MNames
  TableValues <- MTables
  Queries <- MQueries
  FetchSizes <- Sizes
  Variant = "cachebyname"
  MaxLevel = 5
INIT Init
NEXT Next
CONSTRAINT Bounded
INVARIANTS PrefixInv RowNumberInv ShapeInv
PROPERTIES RejectedChangesNothing RegisterKeepsCursors HistoryIndependent
CHECK_DEADLOCK FALSE
