------------------------------ MODULE Numeric ------------------------------
(* C18 -- numeric operators and type casts, transcribed from the property statement ("abs, neg, round, safediv
   equal decimal arithmetic; casts return the converted value or NULL, never an error") and Python's documented
   semantics: round() is round-half-to-even at the given number of decimal digits (negative digits round to
   tens, hundreds), int(Decimal) truncates toward zero, int(str) / Decimal(str) accept an optionally signed
   decimal numeral surrounded by blanks, bool() is truthiness, str() of a number is its plain numeral.

   A decimal is an exact rational <<num, den>> in lowest terms with den > 0.  Optional results are sequences:
   <<>> = NULL, <<v>> = v.                                                                                  *)
EXTENDS Strings

RECURSIVE Gcd(_, _)
Gcd(a, b) == IF b = 0 THEN a ELSE Gcd(b, a % b)
AbsI(n) == IF n < 0 THEN -n ELSE n
Rat(n, d) == LET s == IF d < 0 THEN -1 ELSE 1
                 g == Gcd(AbsI(n), AbsI(d))
             IN IF n = 0 THEN <<0, 1>> ELSE <<(s * n) \div g, (s * d) \div g>>
IsRat(x) == x[2] > 0 /\ Gcd(AbsI(x[1]), x[2]) = 1
RZero == <<0, 1>>
RInt(n) == <<n, 1>>
RNeg(x) == <<-x[1], x[2]>>
RAbs(x) == <<AbsI(x[1]), x[2]>>
RAdd(x, y) == Rat(x[1] * y[2] + y[1] * x[2], x[2] * y[2])
RSub(x, y) == RAdd(x, RNeg(y))
RMul(x, y) == Rat(x[1] * y[1], x[2] * y[2])
RDiv(x, y) == Rat(x[1] * y[2], x[2] * y[1])                 \* y # 0
RLess(x, y) == x[1] * y[2] < y[1] * x[2]
RLeq(x, y) == x[1] * y[2] <= y[1] * x[2]
RIsInt(x) == x[2] = 1
RFloor(x) == x[1] \div x[2]                                  \* \div is the floor for a positive divisor
RECURSIVE Pow10(_)
Pow10(k) == IF k = 0 THEN 1 ELSE 10 * Pow10(k - 1)

Neg(x) == RNeg(x)
Abs(x) == RAbs(x)
\* safediv: the quotient, zero for a zero divisor
SafeDiv(x, y) == IF y[1] = 0 THEN RZero ELSE RDiv(x, y)
\* round(x, digits): the multiple of 10^-digits nearest to x, ties to the even multiple
Scale(x, digits) == IF digits >= 0 THEN RMul(x, RInt(Pow10(digits))) ELSE RDiv(x, RInt(Pow10(-digits)))
Round(x, digits) ==
  LET sc == Scale(x, digits)
      fl == RFloor(sc)
      twice == RMul(RSub(sc, RInt(fl)), RInt(2))             \* 2 * fractional part, in [0, 2)
      q == IF RLess(twice, RInt(1)) THEN fl
           ELSE IF RLess(RInt(1), twice) THEN fl + 1
           ELSE IF fl % 2 = 0 THEN fl ELSE fl + 1
  IN Scale(RInt(q), -digits)
RoundInt(n, digits) == Round(RInt(n), digits)[1]             \* integral: digits >= 0 leaves n unchanged

(* ---- casts -------------------------------------------------------------------------------------------- *)
BoolOfInt(n) == n # 0
BoolOfDec(x) == x[1] # 0
BoolOfStr(s) == s # ""
IntOfDec(x) == IF x[1] >= 0 THEN x[1] \div x[2] ELSE -((-x[1]) \div x[2])      \* toward zero
DecOfInt(n) == RInt(n)

Digits == "0123456789"
DigitSet == {Ch(Digits, i) : i \in 1..10}
DigitVal(c) == Code(c) - Code("0")
IsDigits(s) == s # "" /\ \A i \in 1..Len(s) : Ch(s, i) \in DigitSet
RECURSIVE DigitsVal(_)
DigitsVal(s) == IF s = "" THEN 0 ELSE 10 * DigitsVal(SubSeq(s, 1, Len(s) - 1)) + DigitVal(Ch(s, Len(s)))
RECURSIVE LStrip(_), RStrip(_)
LStrip(s) == IF s # "" /\ Ch(s, 1) = " " THEN LStrip(SubSeq(s, 2, Len(s))) ELSE s
RStrip(s) == IF s # "" /\ Ch(s, Len(s)) = " " THEN RStrip(SubSeq(s, 1, Len(s) - 1)) ELSE s
Strip(s) == RStrip(LStrip(s))
HasChar(s, set) == \E i \in 1..Len(s) : Ch(s, i) \in set
SignOf(t) == IF t # "" /\ Ch(t, 1) = "-" THEN -1 ELSE 1
Unsigned(t) == IF t # "" /\ Ch(t, 1) \in {"+", "-"} THEN SubSeq(t, 2, Len(t)) ELSE t

\* int(str): [blanks] [sign] digits [blanks] -> the number, anything else -> NULL.  Not judged: digit grouping
\* with "_", numerals too long for the model's integers, characters outside the table.
ParseIntDomain(s) == /\ \A i \in 1..Len(s) : Ch(s, i) \in Chars
                     /\ ~HasChar(s, {"_"})
                     /\ Len(Unsigned(Strip(s))) <= 9
ParseInt(s) == LET t == Strip(s)
                   u == Unsigned(t)
               IN IF IsDigits(u) THEN <<SignOf(t) * DigitsVal(u)>> ELSE <<>>
\* Decimal(str): [blanks] [sign] digits [. digits] [blanks] with at least one digit -> the number, else NULL.
\* Not judged: exponents, NaN / Infinity spellings, "_" (any text containing e E n N i I _), long numerals.
ParseDecDomain(s) == /\ \A i \in 1..Len(s) : Ch(s, i) \in Chars
                     /\ ~HasChar(s, {"e", "E", "n", "N", "i", "I", "_"})
                     /\ Len(Unsigned(Strip(s))) <= 9
ParseDec(s) == LET t == Strip(s)
                   u == Unsigned(t)
                   parts == Split(u, ".")
                   ip == parts[1]
                   fp == IF Len(parts) = 2 THEN parts[2] ELSE ""
               IN IF /\ Len(parts) <= 2
                     /\ ip \o fp # ""
                     /\ (ip = "" \/ IsDigits(ip)) /\ (fp = "" \/ IsDigits(fp))
                  THEN <<Rat(SignOf(t) * DigitsVal(ip \o fp), Pow10(Len(fp)))>>
                  ELSE <<>>

\* str(int), str(decimal): the plain numeral (shortest form; domain: at most two fractional digits)
StrOfInt(n) == ToString(n)
FracDigits(x) == IF 1 % x[2] = 0 THEN 0 ELSE IF 10 % x[2] = 0 THEN 1 ELSE IF 100 % x[2] = 0 THEN 2 ELSE 99
StrOfDecDomain(x) == FracDigits(x) <= 2
StrOfDec(x) ==
  LET k == FracDigits(x)
      sc == (AbsI(x[1]) * Pow10(k)) \div x[2]
      ip == sc \div Pow10(k)
      fp == sc % Pow10(k)
      fs == IF k = 0 THEN "" ELSE IF k = 1 THEN "." \o ToString(fp)
            ELSE "." \o (IF fp < 10 THEN "0" ELSE "") \o ToString(fp)
  IN (IF x[1] < 0 THEN "-" ELSE "") \o ToString(ip) \o fs
=============================================================================
