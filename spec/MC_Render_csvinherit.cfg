\* non-vacuity: render_csv lets the caller's text options (spaced, list separator) into its context.  TLC must violate
\* CsvInv (a spacing record after every row: the number of records is no longer the number of expanded rows).
CONSTANTS
  Tables <- TTiny
  NullLens <- NL03
  SepLens <- SL2
  WidthRule = "full"
  ExpandRule = "atleast1"
  CsvCtx = "inherit"
INIT Init
NEXT Next
INVARIANTS CsvInv
CHECK_DEADLOCK FALSE
