CONSTANTS
  MaxLen = 4
  HomLots = 5
INIT Init
NEXT Next
INVARIANTS Laws Sanity
CHECK_DEADLOCK FALSE
