CONSTANTS
  Tables = 0
  NullLens = 0
  SepLens = 0
  WidthRule = "full"
  ExpandRule = "atleast1"
  CsvCtx = "own"
INIT TInit
NEXT TNext
POSTCONDITION TraceConsumed
CHECK_DEADLOCK FALSE
