\* non-vacuity: date_bin as it was before repair 5c4d63a (walk from the origin, `n >= source`) -- the deliberately
\* broken mechanism.  TLC must violate BinInv.
CONSTANTS
  Lo = 737425
  Hi = 737800
  Step = 1
  ChainLen = 512
  BinImpl = "shipped"
  BinFull = TRUE
INIT Init
NEXT Next
INVARIANTS BinInv
CHECK_DEADLOCK FALSE
