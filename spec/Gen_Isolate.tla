----------------------------- MODULE Gen_Isolate -----------------------------
(* Schedule generator for the spec->code replays of Isolate (C20).  Fixed jobs, a turn-taking scheduler: the thread
   holding the turn runs until it passes a pause point (inside the compilation or in the scan) or finishes, then any
   unfinished thread is granted the turn.  `hist` is the grant sequence.  One JSON line per complete schedule with the
   rows every thread must return; the jobs are emitted once. *)
EXTENDS MC_Isolate

CONSTANTS Family       \* name of the job tuple, or "all"

VARIABLES turn, hist
gvars == <<vars, turn, hist>>

(* two threads of ONE connection run the same statement text with different parameters; the pause points are the
   lookups in the parameters container *)
F_params == << Mk(1, LA, "e", FALSE, <<col(2), col(3)>>, <<aLo, aHi>>, 11, 12, FALSE, FALSE, TRUE),
               Mk(1, LA, "e", FALSE, <<col(2), col(3)>>, <<aLo, aHi>>, 12, 13, FALSE, FALSE, TRUE) >>
(* SELECT * with the pause in the wildcard expansion / between the parameters, against another table of the connection *)
F_star == << Mk(1, LA, "p", TRUE, <<>>, <<aLo, aCp, aHi>>, 112, 131, FALSE, TRUE, FALSE),
             Mk(1, LA, "e", TRUE, <<>>, <<aHi, aCp>>, 0, 12, FALSE, TRUE, FALSE) >>
(* scans advancing row by row over different ledgers / different tables of one ledger, plain columns around the pause
   (F_tables: the second statement is also descheduled between its FROM clause and the names of its WHERE clause) *)
F_rows == << Mk(1, LA, "e", FALSE, <<col(2), aRp, col(3)>>, <<>>, 0, 0, TRUE, FALSE, FALSE),
             Mk(2, LB, "e", FALSE, <<col(2), aRp, col(3)>>, <<>>, 0, 0, TRUE, FALSE, FALSE) >>
F_tables == << Mk(1, LA, "p", FALSE, <<col(2), aRp, col(1)>>, <<>>, 0, 0, TRUE, FALSE, FALSE),
               Mk(1, LA, "e", FALSE, <<col(2), aRp, col(1)>>, <<aCp, aRp, aLo>>, 12, 0, FALSE, FALSE, FALSE) >>
(* three threads: two share a connection (other table, parameters), the third scans another ledger *)
F_mix3 == << Mk(1, LA2, "e", FALSE, <<aCp, col(2)>>, <<aLo, aHi>>, 11, 12, FALSE, FALSE, FALSE),
             Mk(1, LA2, "p", FALSE, <<col(2), aRp, col(3)>>, <<aHi>>, 0, 121, FALSE, FALSE, TRUE),
             Mk(2, LB2, "e", FALSE, <<col(2), aRp>>, <<>>, 0, 0, TRUE, FALSE, FALSE) >>
(* three threads over three connections, two of them over the same ledger *)
F_sep3 == << Mk(1, LA2, "e", FALSE, <<col(1), aRp, col(2)>>, <<>>, 0, 0, TRUE, FALSE, FALSE),
             Mk(3, LA2, "p", FALSE, <<col(2), aRp>>, <<aLo, aCp>>, 112, 0, FALSE, FALSE, FALSE),
             Mk(2, LB2, "p", FALSE, <<col(2), aRp, col(3)>>, <<>>, 0, 0, TRUE, FALSE, FALSE) >>
(* statements submitted as TEXT by threads that share nothing but the module: separate connections over different
   ledgers; every thread can be descheduled inside the parser *)
F_parse == << Text(Mk(1, LA2, "e", FALSE, <<col(2), col(3)>>, <<aHi>>, 0, 12, TRUE, FALSE, FALSE), 2),
              Text(Mk(2, LB2, "p", FALSE, <<col(3)>>, <<>>, 0, 0, TRUE, FALSE, FALSE), 2) >>
F_parse3 == << Text(Mk(1, LA2, "e", FALSE, <<col(2)>>, <<aLo>>, 12, 0, FALSE, FALSE, FALSE), 1),
               Text(Mk(2, LB2, "e", FALSE, <<aCp, col(3)>>, <<>>, 0, 0, TRUE, FALSE, FALSE), 1),
               Text(Mk(1, LA2, "e", FALSE, <<col(2), aRp>>, <<>>, 0, 0, TRUE, FALSE, FALSE), 1) >>
(* scans of ONE typed table of one connection advancing row by row; the second statement a selection *)
F_typed == << Ty(Mk(4, LM, "x", FALSE, <<col(2), aRp, col(3)>>, <<>>, 0, 0, TRUE, FALSE, FALSE), 1),
              Ty(Mk(4, LM, "x", FALSE, <<col(3), aRp>>, <<aLo>>, 43, 0, FALSE, FALSE, FALSE), 1) >>
(* three threads: two on one typed table, the third on another typed table of the same connection *)
F_typed3 == << Ty(Mk(4, LM2, "x", FALSE, <<col(2), aRp>>, <<>>, 0, 0, TRUE, FALSE, FALSE), 1),
               Ty(Mk(4, LM2, "x", FALSE, <<aRp, col(3)>>, <<>>, 0, 0, TRUE, FALSE, FALSE), 1),
               Ty(Mk(4, LM2, "x", FALSE, <<col(1), aRp>>, <<>>, 0, 0, TRUE, FALSE, FALSE), 2) >>
(* the SAME function called by threads that share nothing but the module (separate connections, different ledgers):
   every thread can be descheduled between the evaluation of the first and of the second operand *)
F_func == << Mk(1, LA2, "p", FALSE, <<Fn("add", 2, 1), col(3)>>, <<>>, 0, 0, TRUE, FALSE, FALSE),
             Mk(2, LB2, "p", FALSE, <<Fn("add", 2, 1)>>, <<>>, 0, 0, TRUE, FALSE, FALSE) >>
(* three threads, two on one connection: the call is in the WHERE clause, its first operand a query parameter *)
F_funcw == << Mk(1, LA2, "e", FALSE, <<col(3)>>, <<aFhi>>, 0, 11, FALSE, FALSE, FALSE),
              Mk(1, LA2, "e", FALSE, <<col(2)>>, <<aFlo>>, 12, 0, FALSE, FALSE, FALSE),
              Mk(2, LB2, "e", FALSE, <<Fn("first", 2, 3)>>, <<aFhi>>, 0, 21, TRUE, FALSE, FALSE) >>
(* FROM-subqueries that give the same names different positions, one connection: the statements can be descheduled
   between the construction of the subquery's table and the resolution of the names of the enclosing statement *)
F_subq == << Sub(Mk(1, LA2, "p", FALSE, <<aCp, col(2), aRp, col(1)>>, <<>>, 0, 0, TRUE, FALSE, FALSE), <<1, 2>>),
             Sub(Mk(1, LA2, "p", FALSE, <<aCp, col(2)>>, <<aHi>>, 0, 121, FALSE, FALSE, TRUE), <<2, 3, 1>>) >>
(* three threads over three connections: a name resolved late, SELECT * over a subquery, a call over the names *)
F_subq3 == << Sub(Mk(1, LA2, "p", FALSE, <<aCp, col(3)>>, <<>>, 0, 0, TRUE, FALSE, FALSE), <<3, 2>>),
              Sub(Mk(2, LB2, "p", TRUE, <<>>, <<aCp>>, 0, 0, TRUE, FALSE, FALSE), <<2, 3>>),
              Sub(Mk(3, LA2, "e", FALSE, <<aCp, Fn("first", 2, 1)>>, <<>>, 0, 0, TRUE, FALSE, FALSE), <<1, 2>>) >>
(* DELIVERY: two threads of ONE connection hand their statements to the connection's execute() shortcut; each is
   descheduled after execute() has returned and between its fetches (fetchall / fetchone, fetchall) *)
F_deliver == << Dl(Mk(1, LA2, "e", FALSE, <<col(2), aRp, col(3)>>, <<>>, 0, 0, TRUE, FALSE, FALSE), "conn", <<0>>),
                Dl(Mk(1, LA2, "p", FALSE, <<col(2)>>, <<aHi>>, 0, 121, FALSE, FALSE, FALSE), "conn", <<1, 0>>) >>
(* the same statement text with different parameters, both through the shortcut of one connection *)
F_deliverp == << Dl(Mk(1, LA, "e", FALSE, <<col(2), col(3)>>, <<aLo, aHi>>, 11, 12, FALSE, FALSE, FALSE), "conn", <<0>>),
                 Dl(Mk(1, LA, "e", FALSE, <<col(2), col(3)>>, <<aLo, aHi>>, 12, 13, FALSE, FALSE, FALSE), "conn", <<1, 0>>) >>
(* three threads: two through the shortcut of one connection, the third with a cursor of its own on that connection *)
F_deliver3 == << Dl(Mk(1, LA2, "p", FALSE, <<col(3), col(2)>>, <<>>, 0, 0, TRUE, FALSE, FALSE), "conn", <<2, 0>>),
                 Dl(Mk(1, LA2, "e", FALSE, <<col(2)>>, <<aLo>>, 12, 0, FALSE, FALSE, FALSE), "conn", <<0>>),
                 Dl(Mk(1, LA2, "p", FALSE, <<col(1)>>, <<>>, 0, 0, TRUE, FALSE, FALSE), "cursor", <<1, 0>>) >>
FamilyJobs(name) ==
    CASE name = "params" -> F_params [] name = "star" -> F_star [] name = "rows" -> F_rows
      [] name = "tables" -> F_tables [] name = "mix3" -> F_mix3 [] name = "sep3" -> F_sep3
      [] name = "parse" -> F_parse [] name = "parse3" -> F_parse3
      [] name = "typed" -> F_typed [] name = "typed3" -> F_typed3
      [] name = "func" -> F_func [] name = "funcw" -> F_funcw [] name = "subq" -> F_subq [] name = "subq3" -> F_subq3
      [] name = "deliver" -> F_deliver [] name = "deliverp" -> F_deliverp [] name = "deliver3" -> F_deliver3

Families == IF Family = "all" THEN {"params", "star", "rows", "tables", "mix3", "sep3", "parse", "parse3", "typed", "typed3",
                                   "func", "funcw", "subq", "subq3", "deliver", "deliverp", "deliver3"}
            ELSE {Family}
JobsOf(f) == [t \in Threads |-> IF t <= Len(FamilyJobs(f)) THEN FamilyJobs(f)[t] ELSE Job0]
FamilyOf(js) == CHOOSE f \in Families : JobsOf(f) = js
SInit == (\E f \in Families : InitWith(JobsOf(f))) /\ turn = 0 /\ hist = <<>>
SNext ==
    \E t \in Threads :
        /\ turn \in {0, t} /\ ~Done(t)
        /\ Step(t)
        /\ hist' = IF turn = 0 THEN Append(hist, t) ELSE hist
        /\ turn' = IF YieldStep(t) \/ pc'[t].ph = "done" THEN 0 ELSE t
(* out: the rows every thread RECEIVES (= the rows its statement emitted: OwnResults), desc: the descriptions it reads *)
SEmit == AllDone => PrintT(ToJson([family |-> FamilyOf(job), sched |-> hist, out |-> [t \in Threads |-> recv[t].rows],
                                   desc |-> [t \in Threads |-> recv[t].desc]]))
SEmitJobs == (hist = <<>> /\ turn = 0) =>
    PrintT(ToJson([family |-> FamilyOf(job), jobs |-> [t \in 1..Len(FamilyJobs(FamilyOf(job))) |-> job[t]]]))
=============================================================================
