\* non-vacuity: the accessor of the columns tags / links hands out the attribute of any directive that has one (notes, documents); TLC must violate DenoteIsMeaning
CONSTANTS
  Headers <- HeadersDef
  Pool <- Pool10
  MaxPostings = 2
  Shapes <- ShapesDef
  DirPool <- DirPool9
  MaxDirs = 2
  PrintShapes <- PrintShapesDef
  KnownStrings <- KnownStringsDef
  KnownPats <- KnownPatsDef
  Variant = "attr_of_any_directive"
INIT Init
NEXT Next
INVARIANTS DenoteIsMeaning WellFormed
CHECK_DEADLOCK FALSE
