\* the mechanism as shipped (no restore): TLC must find  SELECT x IN (SELECT y FROM #u) FROM #t  iterating #u
CONSTANTS
  Tabs <- TabsA
  Restore = FALSE
INIT InitShipped
NEXT Next
INVARIANTS IteratesOwnTable
CHECK_DEADLOCK FALSE
