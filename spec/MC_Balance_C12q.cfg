\* C12, quick: ledgers of up to 2 postings (plain programs + balance nested in function calls next to a NULL-able operand)
CONSTANTS
  Threads = {1}
  CacheMode = "per row context"
  Split = FALSE
  Programs = 0
INIT Init12q
NEXT Next
INVARIANTS TypeOK ConsultedInv PrefixSumInv LastInv ScannedInv SerialInv
PROPERTIES NonInterference NoSharedState ProgConstant
CHECK_DEADLOCK FALSE
