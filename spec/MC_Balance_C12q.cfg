\* C12, quick: ledgers of up to 2 postings
CONSTANTS
  Threads = {1}
  CacheMode = "per row context"
  Split = FALSE
  Programs <- Progs12_2
INIT Init
NEXT Next
INVARIANTS TypeOK ConsultedInv PrefixSumInv LastInv ScannedInv SerialInv
PROPERTIES NonInterference NoSharedState ProgConstant
CHECK_DEADLOCK FALSE
