------------------------- MODULE Trace_ParserSession -------------------------
(* Code -> spec for ParserSession.  Sessions run on the real code, each in one process with several connections:
   one ndjson line per call

     {"id": n, "sid": session, "op": "parse" | "cparse" | "execute" | "held", "t": text number within the session,
      "c": connection, "tokens": [...] (the tokens the text was laid out from), "ok": bool, "ast": AST | {"k": "none"}}

   parse / cparse   beanquery.parser.parse(text) / Connection.parse(text): accepted?  the tree
   execute          the text was executed (Connection.execute, Cursor.execute, Cursor.executemany, or
                    Connection.execute of a tree parsed from it) with as many parameters as it has placeholders;
                    ok = the compiler was reached with them.  Not judged (C06 says nothing about execution): it is the
                    history the later lines are judged under.
   held             at the end of the session: the present value of a tree that an earlier parse / cparse line
                    handed out

   The law (ParserSession!HistoryFree, HeldUnchanged): every parse / cparse / held line carries Required(tokens),
   whatever came before.  The state follows the history (which texts of which session were parsed / executed so far)
   and names the kind of history a rejected line had.  Token sequences the token level says nothing about
   (Parser!Unmodelled) are skipped and counted.  Every line gets a verdict; the run continues after a rejected line. *)
EXTENDS MC_ParserSession, Json, IOUtils

TraceLog == ndJsonDeserialize(IOEnv.TRACE_FILE)

VARIABLES l, parsed, executed, nbad, nskip, njudged, nafter
tvars == <<l, parsed, executed, nbad, nskip, njudged, nafter>>
\* (the mechanism's variables come with the module: they stay at their initial values here)

TInit == SInit /\ l = 1 /\ parsed = {} /\ executed = {} /\ nbad = 0 /\ nskip = 0 /\ njudged = 0 /\ nafter = 0

Judged(ev) == ev.op \in ParseOps \cup {"held"}
Verdict(ev) ==
    IF ~Judged(ev) THEN "call"
    ELSE IF Unmodelled(ev.tokens) THEN "skipped"
    ELSE LET q == Required(ev.tokens) IN
         IF ev.ok = q.ok /\ (q.ok => ev.ast = q.ast) THEN "agree" ELSE "rejected"
History(ev) ==
    IF ev.op = "held" THEN "held-tree-changed"
    ELSE IF <<ev.sid, ev.t>> \in executed THEN "parse-after-execute"
    ELSE IF <<ev.sid, ev.t>> \in parsed THEN "parse-again"
    ELSE "first-parse"

TNext ==
    /\ l <= Len(TraceLog)
    /\ l' = l + 1
    /\ UNCHANGED svars
    /\ LET ev == TraceLog[l]
           v == Verdict(ev)
           after == Judged(ev) /\ v # "skipped" /\ <<ev.sid, ev.t>> \in executed
       IN /\ parsed' = IF ev.op \in ParseOps THEN parsed \cup {<<ev.sid, ev.t>>} ELSE parsed
          /\ executed' = IF ev.op = "execute" /\ ev.ok THEN executed \cup {<<ev.sid, ev.t>>} ELSE executed
          /\ nskip' = IF v = "skipped" THEN nskip + 1 ELSE nskip
          /\ njudged' = IF v = "agree" THEN njudged + 1 ELSE njudged
          /\ nafter' = IF after THEN nafter + 1 ELSE nafter
          /\ nbad' = IF v = "rejected" THEN nbad + 1 ELSE nbad
          /\ (v = "rejected" =>
                PrintT(ToJson([verdict |-> "rejected", line |-> l, id |-> ev.id, clause |-> History(ev),
                               spec |-> Required(ev.tokens)])))
          /\ (l = Len(TraceLog) =>
                PrintT(ToJson([verdict |-> "summary", lines |-> l, rejected |-> nbad', skipped |-> nskip',
                               judged |-> njudged', after_execute |-> nafter'])))

TSpec == TInit /\ [][TNext]_<<tvars, svars>>
TraceConsumed == TLCGet("stats").diameter - 1 = Len(TraceLog)
=============================================================================
