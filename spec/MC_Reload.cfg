\* C12, one connection attached again and again: no memo (as the code is) and a memo dropped on attach conform
CONSTANTS
  Memos <- MemosOK
  Ledgers <- MCLedgers
  PriceTabs <- MCPriceTabs
  Fs <- MCFs
  MaxAttach = 2
  MaxStmts = 2
INIT RInit
NEXT RNext
INVARIANTS ReloadInv RowsInv
CHECK_DEADLOCK FALSE
