\* sessions with routes (thorough): every sequence of <= 4 statements (18 shapes), each typed or stored and .run, on 1 connection
CONSTANTS
  Headers <- Empty
  Pool <- Empty
  MaxPostings = 0
  Shapes <- Empty
  DirPool <- Empty
  MaxDirs = 0
  PrintShapes <- Empty
  KnownStrings <- NoStrings
  KnownPats <- NoStrings
  Variant = "shipped"
  NConn = 1
  MaxSteps = 4
  Routes = {"typed", "run"}
  Mech = "shipped"
INIT SInit
NEXT SNext
INVARIANTS Independent RegisteredUntouched
CHECK_DEADLOCK FALSE
