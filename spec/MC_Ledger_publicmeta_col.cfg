\* non-vacuity: the meta column of the postings / entries tables hides the keys Beancount wrote itself: the column
\* is not the dictionary of the posting / directive any more.  TLC must violate MechEqDecl.
CONSTANTS
  Alpha <- SmallAlpha
  MaxLen = 2
  Keys <- SmallKeys
  Mech = "publicmeta"
  MaxStmts = 1
  QualOpts <- QNone
INIT Init
NEXT Next
INVARIANTS MechEqDecl
CHECK_DEADLOCK FALSE
