\* non-vacuity: the meta column of the postings / entries tables hides the keys Beancount wrote itself (a copy of the
\* dictionary without the __keys__).  meta(k) and any_meta(k) read that column: a present key reads as NULL
\* (entry_meta does not go through it).  TLC must violate LookupsEqDecl.
CONSTANTS
  Alpha <- SmallAlpha
  MaxLen = 2
  Keys <- SmallKeys
  Mech = "publicmeta"
  MaxStmts = 1
  QualOpts <- QNone
INIT Init
NEXT Next
INVARIANTS LookupsEqDecl
CHECK_DEADLOCK FALSE
