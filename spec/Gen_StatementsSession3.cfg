\* spec -> code (thorough): every session of 3 statements on one connection
CONSTANTS
  Headers <- Empty
  Pool <- Empty
  MaxPostings = 0
  Shapes <- Empty
  DirPool <- Empty
  MaxDirs = 0
  PrintShapes <- Empty
  KnownStrings <- NoStrings
  KnownPats <- NoStrings
  Variant = "shipped"
  NConn = 1
  MaxSteps = 3
  Routes = {"typed"}
  Mech = "shipped"
INIT SInit
NEXT SNext
INVARIANT EmitSession
CHECK_DEADLOCK FALSE
