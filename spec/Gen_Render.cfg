\* quick: columns of <= 2 values, header lengths 1 and 4, placeholder lengths 0 and 2, all 2^5 options
CONSTANTS
  Tables <- TGenQ
  NullLens <- NL02
  SepLens <- SL2
  WidthRule = "full"
  ExpandRule = "atleast1"
  CsvCtx = "own"
INIT Init
NEXT Next
INVARIANT Emit
CHECK_DEADLOCK FALSE
