\* recorded runs replayed on the mechanism AS THE CODE IS, short-circuit operators included (classification only:
\* SerialInv is what those operators break, see MC_Balance_C12_lazy.cfg; every value is still the sum over the
\* postings for which the accessor has been called)
CONSTANTS
  Threads = {1, 2, 3, 4}
  CacheMode = "per row context"
  Split = FALSE
INIT TInit
NEXT TNext
INVARIANTS TypeOK ConsultedInv
CHECK_DEADLOCK FALSE
