CONSTANTS
  MaxRows = 2
  QuerySet = "group"
  EmitMode = "none"
  TableStride = 1
  Variant = "sharedgroup"
INIT Init
NEXT Next
INVARIANTS CompileIffValid SteppedIsExec ScanLaw GroupLaw Additivity HavingLaw SortLaw PhaseOrderLaw DistinctLaw PivotLaw 
CHECK_DEADLOCK FALSE
