CONSTANTS
  Base <- MCBase
  KeyTab <- MCKeyTab
  CurSeq <- MCCurSeq
  Special <- MCSpecial
  Ledgers = {}
  OpenArgs <- Open05
  CloseArgs <- Close05
  ClearArgs = {TRUE, FALSE}
  Filters <- FAll
  Order <- OrderStated
  CompileMode = "stated"
  Inners <- InnersNone
  ScopeMode = "stated"
  Doors <- DoorsApi
  HookMode = "stated"
INIT GInitThorough
NEXT GNextThorough
INVARIANTS ExpectInv CompileInv Emit
CHECK_DEADLOCK FALSE
