CONSTANTS
  MaxRows = 2
  QuerySet = "invalid"
  EmitMode = "none"
  TableStride = 1
  Variant = "nopivotcheck"
INIT Init
NEXT Next
INVARIANTS CompileIffValid 
CHECK_DEADLOCK FALSE
