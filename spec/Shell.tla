-------------------------------- MODULE Shell --------------------------------
(***************************************************************************)
(* beanquery/shell.py -- the query shell as a state machine (C19).          *)
(*                                                                         *)
(* State: the settings object (nine typed fields), the named queries of    *)
(* the loaded ledger, and what the last command line produced (`lastOut`,  *)
(* `lastErr`, as classes; the text of `.set` echoes exactly).               *)
(*                                                                         *)
(* MECHANISM (shaped like the code): a line is split like cmd.Cmd.parseline*)
(* does (leading run of identifier characters), dispatched on the "."      *)
(* prefix / the legacy bare command names / fall-through to the statement  *)
(* handler; `.set` looks the name up, takes the RUNTIME type of the        *)
(* current value to select the parser (name-specific parser first) and     *)
(* assigns the parsed value; `.run` looks the name up among the ledger's   *)
(* query directives and executes its text with a default CLOSE date.       *)
(*                                                                         *)
(* PROPERTY (declarative, from the statement of C19): stated over the      *)
(* static type table FieldType / ParseAs and over the first character and  *)
(* first word of the line -- see the section "The property".               *)
(*                                                                         *)
(* What a statement prints is `RenderWith(settings, Denote(text))`: not    *)
(* interpretable by TLC.  The spec records WHICH text is denoted under     *)
(* WHICH settings (lastOut = [k |-> "render", a |-> text], the settings of *)
(* the same state); the driver instantiates it as "render the API result   *)
(* of that text with the spec's settings; `(empty)` when a text result has *)
(* no rows; numberify first when set".                                     *)
(*                                                                         *)
(* NameLookup = "fields" and HonourQuiet = TRUE are the property-conforming*)
(* mechanism.  "attrs" (any attribute of the settings object is accepted   *)
(* as a name) and FALSE (-q parsed, never used) are the mechanism as       *)
(* shipped, kept so that TLC demonstrates the counterexamples              *)
(* (MC_Shell_shipped_attr.cfg, MC_Shell_shipped_q.cfg).                    *)
(***************************************************************************)
EXTENDS Integers, Sequences, FiniteSets, TLC

CONSTANTS
    Lines,          \* command alphabet: the text lines that may be typed
    LedgerQueries,  \* query directives of the ledger: sequence of
                    \*   [name, date, pre, post, kind ("select"|"balances"|"journal"|"print"), from ("none"|"noclose"|"close")]
                    \*   text = pre \o post; a CLOSE clause would go between pre and post
    BadStmts,       \* statement texts the API rejects (ParseError / CompilationError); the driver verifies this
    Formats,        \* names of the output formats (the render plugins found at import)
    NonFieldAttrs,  \* names that are attributes of the settings object without being fields (methods ...)
    NameLookup,     \* "fields" | "attrs"
    HonourQuiet,    \* TRUE | FALSE
    MainQuery,      \* statement given on the command line in Main
    LedgerHasErrors \* whether loading the ledger of Main reports errors

VARIABLES
    started,    \* a shell object exists
    boot,       \* how it was created: [via |-> "none"|"api"|"main", f, m, o, q]
    settings,   \* [field name -> tagged value [t |-> "bool"|"str", v |-> ..]]   (a Python value carries its type)
    queries,    \* named queries extracted when the ledger was loaded
    line,       \* the command line just processed
    lastOut,    \* [k |-> class, a |-> argument, lines |-> exact text lines where the spec pins them, dest |-> where]
    lastErr     \* "none" | "error" (error message, nothing else happens) | "raise" (the API's error for a statement)
                \*        | "report" (ledger error report of Main) | "crash" (only in the as-shipped mechanism)

vars == <<started, boot, settings, queries, line, lastOut, lastErr>>

-----------------------------------------------------------------------------
(* Strings (TLC: Len, \o, SubSeq work on strings) *)
Ch(s, i) == SubSeq(s, i, i)
UpperStr == "ABCDEFGHIJKLMNOPQRSTUVWXYZ"
LowerStr == "abcdefghijklmnopqrstuvwxyz"
IdentStr == "abcdefghijklmnopqrstuvwxyzABCDEFGHIJKLMNOPQRSTUVWXYZ0123456789_."   \* cmd.Cmd.identchars + "."
IdentChars == {Ch(IdentStr, i) : i \in 1..Len(IdentStr)}
UpperChars == {Ch(UpperStr, i) : i \in 1..26}
LowerChar(c) == IF c \in UpperChars THEN Ch(LowerStr, CHOOSE i \in 1..26 : Ch(UpperStr, i) = c) ELSE c
RECURSIVE LowerFrom(_, _)
LowerFrom(s, i) == IF i > Len(s) THEN "" ELSE LowerChar(Ch(s, i)) \o LowerFrom(s, i + 1)
Lower(s) == LowerFrom(s, 1)
Blank == {" "}                                  \* domain: lines hold no tabs / line terminators
RECURSIVE LStrip(_)
LStrip(s) == IF s # "" /\ Ch(s, 1) \in Blank THEN LStrip(SubSeq(s, 2, Len(s))) ELSE s
RECURSIVE RStripSet(_, _)
RStripSet(s, cs) == IF s # "" /\ Ch(s, Len(s)) \in cs THEN RStripSet(SubSeq(s, 1, Len(s) - 1), cs) ELSE s
Strip(s) == RStripSet(LStrip(s), Blank)
RECURSIVE IdentLen(_, _)
IdentLen(s, i) == IF i <= Len(s) /\ Ch(s, i) \in IdentChars THEN IdentLen(s, i + 1) ELSE i - 1

(* shlex.split on the domain used here: blanks separate words, '..' and ".." quote (no escapes, balanced) *)
RECURSIVE Tok(_, _, _, _, _)
Tok(s, i, cur, intok, q) ==
    IF i > Len(s) THEN (IF intok THEN <<cur>> ELSE <<>>)
    ELSE LET c == Ch(s, i) IN
         IF q # "" THEN (IF c = q THEN Tok(s, i + 1, cur, TRUE, "") ELSE Tok(s, i + 1, cur \o c, TRUE, q))
         ELSE IF c \in {"'", "\""} THEN Tok(s, i + 1, cur, TRUE, c)
         ELSE IF c \in Blank THEN (IF intok THEN <<cur>> \o Tok(s, i + 1, "", FALSE, "") ELSE Tok(s, i + 1, "", FALSE, ""))
         ELSE Tok(s, i + 1, cur \o c, TRUE, "")
Words(s) == Tok(s, 1, "", FALSE, "")

-----------------------------------------------------------------------------
(* The settings store *)
Fields == <<"boxed", "expand", "format", "narrow", "nullvalue", "numberify", "pager", "spaced", "unicode">>
FieldSet == {Fields[i] : i \in 1..Len(Fields)}
B(x) == [t |-> "bool", v |-> x]
S(x) == [t |-> "str", v |-> x]
Default == [boxed |-> B(FALSE), expand |-> B(FALSE), format |-> S("text"), narrow |-> B(TRUE), nullvalue |-> S(""),
            numberify |-> B(FALSE), pager |-> B(TRUE), spaced |-> B(FALSE), unicode |-> B(FALSE)]

(* --- declarative side: the static type of every field and what a string means for a type --- *)
FieldType(n) == CASE n = "format" -> "format" [] n = "nullvalue" -> "str" [] OTHER -> "bool"
Truthy == {"1", "true", "t", "yes", "y", "on"}
Falsy  == {"0", "false", "f", "no", "n", "off"}
Undefined == [ok |-> FALSE, val |-> B(FALSE)]
ParseBool(v) == LET x == Lower(Strip(v)) IN
                IF x \in Truthy THEN [ok |-> TRUE, val |-> B(TRUE)]
                ELSE IF x \in Falsy THEN [ok |-> TRUE, val |-> B(FALSE)] ELSE Undefined
ParseFormat(v) == IF v \in Formats THEN [ok |-> TRUE, val |-> S(v)] ELSE Undefined
ParseStr(v) == [ok |-> TRUE, val |-> S(v)]
ParseAs(t, v) == CASE t = "bool" -> ParseBool(v) [] t = "format" -> ParseFormat(v) [] t = "str" -> ParseStr(v)
(* how a value of a type is echoed: true/false, strings quoted like a Python literal (domain: no quotes, no backslashes) *)
Normalised(x) == IF x.t = "bool" THEN (IF x.v THEN "true" ELSE "false") ELSE "'" \o x.v \o "'"
InType(t, x) == CASE t = "bool" -> x.t = "bool" /\ x.v \in BOOLEAN
                  [] t = "format" -> x.t = "str" /\ x.v \in Formats
                  [] t = "str" -> x.t = "str"

(* --- mechanism side: Settings.getstr / Settings.setstr --- *)
KnownName(n) == n \in FieldSet \/ (NameLookup = "attrs" /\ n \in NonFieldAttrs)
Attr(s, n) == IF n \in FieldSet THEN s[n] ELSE [t |-> "method", v |-> n]        \* getattr(self, name)
GetStr(s, n) == LET x == Attr(s, n) IN
                IF x.t = "str" THEN "'" \o x.v \o "'"
                ELSE IF x.t = "bool" THEN (IF x.v THEN "true" ELSE "false")
                ELSE "<bound method>"
(* result of setstr: [res |-> "ok" | "valueerror" | "attributeerror" | "crash", s |-> settings afterwards] *)
SetStr(s, n, v) ==
    IF ~KnownName(n) THEN [res |-> "attributeerror", s |-> s]
    ELSE LET vtype == Attr(s, n).t                                           \* type(getattr(self, name))
             p == IF n = "format" THEN ParseFormat(v)                        \* _parse_<name> first
                  ELSE IF vtype = "bool" THEN ParseBool(v)                   \* then _parse_<type>
                  ELSE IF vtype = "str" THEN ParseStr(v)                     \* then the type's constructor
                  ELSE [ok |-> FALSE, val |-> B(FALSE), crash |-> TRUE]      \* method('x'): TypeError
         IN IF "crash" \in DOMAIN p THEN [res |-> "crash", s |-> s]
            ELSE IF ~p.ok THEN [res |-> "valueerror", s |-> s]
            ELSE [res |-> "ok", s |-> [s EXCEPT ![n] = p.val]]
ShowLines(s) == [i \in 1..Len(Fields) |-> Fields[i] \o ": " \o GetStr(s, Fields[i])]
(* projection used on both sides of the conformance legs: the nine values in field order, typed, as strings *)
Proj(x) == IF x.t = "bool" THEN (IF x.v THEN "b:true" ELSE "b:false") ELSE "s:" \o x.v
Vec(s) == [i \in 1..Len(Fields) |-> Proj(s[Fields[i]])]

-----------------------------------------------------------------------------
(* Command classification: DispatchingShell.parseline / onecmd *)
Legacy == {"clear", "errors", "exit", "help", "history", "parse", "quit", "run", "set"}
Handled == {"set", "run", "tables", "describe", "explain"}                      \* the commands C19 quantifies over
OtherKnown == {"errors", "reload", "help", "history", "clear", "exit", "quit", "parse", "EOF"}
KnownCommands == {"set", "run", "tables", "describe", "explain", "errors", "reload", "help", "history", "clear", "exit", "quit", "parse", "EOF"}
Classify(l) ==
    LET s == Strip(l)
        n == IdentLen(s, 1)
        word == SubSeq(s, 1, n)
        arg == Strip(SubSeq(s, n + 1, Len(s)))
    IN IF s = "" THEN [k |-> "empty", name |-> "", arg |-> ""]
       ELSE IF Ch(s, 1) = "." THEN [k |-> "dot", name |-> SubSeq(word, 2, Len(word)), arg |-> arg]
       ELSE IF n > 0 /\ Lower(word) \in Legacy THEN [k |-> "legacy", name |-> Lower(word), arg |-> arg]
       ELSE [k |-> "statement", name |-> "", arg |-> s]
IsCommand(c) == c.k \in {"dot", "legacy"}
(* everything the dispatcher derives from the text of a line; tabulated once for the alphabet (f @@ <<>> makes TLC
   build the table instead of re-evaluating the recursive string operators in every state) *)
ParseLine(l) == LET c == Classify(l) IN
                [k |-> c.k, name |-> c.name, arg |-> c.arg, words |-> Words(c.arg),
                 runwords |-> Words(RStripSet(c.arg, {";", " "}))]                  \* do_run: arg.rstrip('; \t')
ParsedLines == [l \in Lines |-> ParseLine(l)] @@ <<>>
PL(l) == IF l \in DOMAIN ParsedLines THEN ParsedLines[l] ELSE ParseLine(l)

-----------------------------------------------------------------------------
(* Named queries *)
QText(q) == q.pre \o q.post
(* the text that `.run` stands for: CLOSE ON <directive date> when the FROM clause names none *)
QEffective(q) == IF q.from = "noclose" THEN q.pre \o " CLOSE ON " \o q.date \o q.post ELSE QText(q)
Lookup(qs, name) == {i \in 1..Len(qs) : qs[i].name = name}
First(I) == CHOOSE i \in I : \A j \in I : i <= j                               \* first directive of that name wins

-----------------------------------------------------------------------------
Out(k, a, ls) == [k |-> k, a |-> a, lines |-> ls, dest |-> lastOut.dest]
NoOut == Out("none", "", <<>>)

Init ==
    /\ started = FALSE
    /\ boot = [via |-> "none", f |-> "text", m |-> FALSE, o |-> FALSE, q |-> FALSE]
    /\ settings = Default
    /\ queries = <<>>
    /\ line = ""
    /\ lastOut = [k |-> "none", a |-> "", lines |-> <<>>, dest |-> "outfile"]
    /\ lastErr = "none"

(* BQLShell(filename, outfile, format=f, numberify=m) *)
StartWith(f, m, qs) ==
    /\ ~started
    /\ started' = TRUE
    /\ boot' = [via |-> "api", f |-> f, m |-> m, o |-> FALSE, q |-> FALSE]
    /\ settings' = [Default EXCEPT !.format = S(f), !.numberify = B(m)]
    /\ queries' = qs
    /\ line' = ""
    /\ lastOut' = [k |-> "none", a |-> "", lines |-> <<>>, dest |-> "outfile"]
    /\ lastErr' = "none"

Start(f, m) == StartWith(f, m, LedgerQueries)

(* Steps of an existing shell: every one records the line and leaves `started`, `boot`, `queries` alone *)
Step(l, newSettings, out, err) ==
    /\ started /\ boot.via = "api"               \* bean-query in batch mode processes its one query and exits
    /\ line' = l
    /\ settings' = newSettings
    /\ lastOut' = out
    /\ lastErr' = err
    /\ UNCHANGED <<started, boot, queries>>

Empty(l) ==
    /\ PL(l).k = "empty"
    /\ Step(l, settings, NoOut, "none")

(* A statement: prints RenderWith(settings, Denote(text)); the API's error when the API rejects it *)
Statement(l, text, ok) ==
    IF ok THEN Step(l, settings, Out("render", text, <<>>), "none")
    ELSE Step(l, settings, Out("none", text, <<>>), "raise")
Query(l, Ok(_)) ==
    /\ PL(l).k = "statement"
    /\ Statement(l, PL(l).arg, Ok(PL(l).arg))

(* .set NAME VALUE *)
Set(l, n, v) ==
    LET r == SetStr(settings, n, v) IN
    Step(l, r.s, NoOut, CASE r.res = "ok" -> "none" [] r.res = "crash" -> "crash" [] OTHER -> "error")
(* .set NAME *)
Echo(l, n) ==
    IF KnownName(n) THEN Step(l, settings, Out("echo", n, <<n \o ": " \o GetStr(settings, n)>>), "none")
    ELSE Step(l, settings, NoOut, "error")
(* .set *)
Show(l) == Step(l, settings, Out("show", "", ShowLines(settings)), "none")
SetTooMany(l) == Step(l, settings, NoOut, "error")

SetDispatch(l, w) ==
    CASE Len(w) = 0 -> Show(l)
      [] Len(w) = 1 -> Echo(l, w[1])
      [] Len(w) = 2 -> Set(l, w[1], w[2])
      [] OTHER -> SetTooMany(l)
SetCmd(l) ==
    /\ IsCommand(PL(l)) /\ PL(l).name = "set"
    /\ SetDispatch(l, PL(l).words)

(* .run NAME: as typing the query text, CLOSE ON defaulting to the directive's date *)
RunNamed(l, name, Ok(_)) ==
    LET I == Lookup(queries, name) IN
    IF I = {} THEN Step(l, settings, NoOut, "error")
    ELSE LET q == queries[First(I)] IN Statement(l, QEffective(q), Ok(QEffective(q)))
RunList(l) == Step(l, settings, Out("runlist", "", <<>>), "none")
RunTooMany(l) == Step(l, settings, NoOut, "error")
RunDispatch(l, w, Ok(_)) ==
    CASE Len(w) = 0 -> RunList(l)
      [] Len(w) = 1 -> RunNamed(l, w[1], Ok)
      [] OTHER -> RunTooMany(l)
Run(l, Ok(_)) ==
    /\ IsCommand(PL(l)) /\ PL(l).name = "run"
    /\ RunDispatch(l, PL(l).runwords, Ok)

Tables(l) ==
    /\ PL(l).k = "dot" /\ PL(l).name = "tables"
    /\ Step(l, settings, Out("tables", "", <<>>), "none")
Describe(l) ==
    /\ PL(l).k = "dot" /\ PL(l).name = "describe"
    /\ Step(l, settings, Out("describe", PL(l).arg, <<>>), "none")
Explain(l, Ok(_)) ==
    /\ PL(l).k = "dot" /\ PL(l).name = "explain"
    /\ IF Ok(PL(l).arg) THEN Step(l, settings, Out("explain", PL(l).arg, <<>>), "none")
       ELSE Step(l, settings, Out("partial", PL(l).arg, <<>>), "raise")   \* may have printed the parsed half
(* a command the shell knows but C19 does not speak about (.help, .errors ...): nothing is claimed but the settings *)
Other(l) ==
    /\ IsCommand(PL(l)) /\ PL(l).name \in OtherKnown
    /\ Step(l, settings, Out("other", PL(l).name, <<>>), "none")
Unknown(l) ==
    /\ PL(l).k = "dot" /\ PL(l).name \notin KnownCommands
    /\ Step(l, settings, NoOut, "error")

OneCmd(l, Ok(_)) ==
    \/ Empty(l) \/ Query(l, Ok) \/ SetCmd(l) \/ Run(l, Ok) \/ Tables(l) \/ Describe(l) \/ Explain(l, Ok) \/ Other(l) \/ Unknown(l)
Accepts(text) == text \notin BadStmts

(* bean-query [-f F] [-m] [-o FILE] [-q] LEDGER QUERY: create the shell, report load errors, run the query *)
Main(o) ==
    /\ ~started
    /\ started' = TRUE
    /\ boot' = [via |-> "main", f |-> o.f, m |-> o.m, o |-> o.o, q |-> o.q]
    /\ settings' = [Default EXCEPT !.format = S(o.f), !.numberify = B(o.m)]
    /\ queries' = LedgerQueries
    /\ line' = MainQuery
    /\ lastOut' = [k |-> "render", a |-> MainQuery, lines |-> <<>>, dest |-> IF o.o THEN "file" ELSE "stdout"]
    /\ lastErr' = IF LedgerHasErrors /\ ~(HonourQuiet /\ o.q) THEN "report" ELSE "none"
MainOpts == [f : Formats, m : BOOLEAN, o : BOOLEAN, q : BOOLEAN]

Next ==
    \/ \E f \in Formats, m \in BOOLEAN : Start(f, m)
    \/ \E o \in MainOpts : Main(o)
    \/ \E l \in DOMAIN ParsedLines : OneCmd(l, Accepts)

Spec == Init /\ [][Next]_vars

-----------------------------------------------------------------------------
(* The property (C19), declaratively *)

TypeOK ==
    /\ DOMAIN settings = FieldSet
    /\ \A n \in FieldSet : InType(FieldType(n), settings[n])
(* no command makes the shell fail with anything but an error message or the API's own error for a statement *)
NoCrash == [][lastErr' \in {"none", "error", "raise", "report"}]_vars

(* what a line asks for, from its text alone *)
FirstChar(l) == LET s == Strip(l) IN IF s = "" THEN "" ELSE Ch(s, 1)
FirstWord(l) == LET s == Strip(l) IN SubSeq(s, 1, IdentLen(s, 1))
IsDotLine(l) == FirstChar(l) = "."
IsBareCommandLine(l) == ~IsDotLine(l) /\ Lower(FirstWord(l)) \in Legacy
IsStatementLine(l) == Strip(l) # "" /\ ~IsDotLine(l) /\ ~IsBareCommandLine(l)
CommandName(l) == IF IsDotLine(l) THEN SubSeq(FirstWord(l), 2, Len(FirstWord(l))) ELSE Lower(FirstWord(l))
CommandArgs(l) == LET s == Strip(l) IN Words(SubSeq(s, Len(FirstWord(l)) + 1, Len(s)))
RestOf(l) == LET s == Strip(l) IN Strip(SubSeq(s, Len(FirstWord(l)) + 1, Len(s)))
RunArgs(l) == Words(RStripSet(RestOf(l), {";", " "}))
IsSetLine(l) == (IsDotLine(l) \/ IsBareCommandLine(l)) /\ CommandName(l) = "set"
ValidSet(l) == /\ IsSetLine(l) /\ Len(CommandArgs(l)) = 2
               /\ CommandArgs(l)[1] \in FieldSet
               /\ ParseAs(FieldType(CommandArgs(l)[1]), CommandArgs(l)[2]).ok
InvalidSet(l) == /\ IsSetLine(l)
                 /\ \/ Len(CommandArgs(l)) > 2
                    \/ Len(CommandArgs(l)) \in {1, 2} /\ CommandArgs(l)[1] \notin FieldSet
                    \/ Len(CommandArgs(l)) = 2 /\ CommandArgs(l)[1] \in FieldSet
                       /\ ~ParseAs(FieldType(CommandArgs(l)[1]), CommandArgs(l)[2]).ok
UnknownCommand(l) == IsDotLine(l) /\ CommandName(l) \notin KnownCommands
LineFacts(l) == [dot |-> IsDotLine(l), bare |-> IsBareCommandLine(l), stmt |-> IsStatementLine(l), text |-> Strip(l),
                  name |-> CommandName(l), args |-> CommandArgs(l), runargs |-> RunArgs(l),
                  valid |-> ValidSet(l), invalid |-> InvalidSet(l), unknown |-> UnknownCommand(l)]
FactTable == [l \in Lines |-> LineFacts(l)] @@ <<>>
F(l) == IF l \in DOMAIN FactTable THEN FactTable[l] ELSE LineFacts(l)
IsCmdStep == started /\ started'        \* a step of an existing shell: it processes line'

(* invalid values, unknown settings and unknown commands produce an error message and change nothing *)
InvalidChangesNothing ==
    [][(IsCmdStep /\ (F(line').invalid \/ F(line').unknown)) =>
          (settings' = settings /\ lastErr' = "error" /\ lastOut'.k = "none")]_vars
(* .set NAME VALUE changes exactly that setting when the value is valid for its type, and .set echoes it normalised *)
ValidSetExact ==
    [][(IsCmdStep /\ F(line').valid) =>
          LET n == F(line').args[1]
              x == ParseAs(FieldType(n), F(line').args[2]).val IN
          /\ settings'[n] = x
          /\ \A m \in FieldSet \ {n} : settings'[m] = settings[m]
          /\ lastErr' = "none"
          /\ ShowLines(settings')[CHOOSE i \in 1..Len(Fields) : Fields[i] = n] = n \o ": " \o Normalised(x)]_vars
(* only a valid .set changes the settings at all *)
OnlySetChanges ==
    [][(IsCmdStep /\ settings' # settings) => F(line').valid]_vars
(* the echo is a faithful, re-readable image of the state: typing an echoed value back changes nothing *)
ShowRoundTrip ==
    \A i \in 1..Len(Fields) :
        LET n == Fields[i] w == Words(GetStr(settings, n)) IN
        /\ ShowLines(settings)[i] = n \o ": " \o Normalised(settings[n])
        /\ Len(w) = 1 /\ ParseAs(FieldType(n), w[1]).ok /\ ParseAs(FieldType(n), w[1]).val = settings[n]
(* dot-commands are never executed as queries nor queries as commands *)
NoCrossExecution ==
    [][IsCmdStep =>
          /\ F(line').dot => (lastOut'.k = "render" => F(line').name = "run")
          /\ F(line').dot => (lastErr' = "raise" => F(line').name \in {"run", "explain"})
          /\ F(line').stmt =>
                /\ settings' = settings
                /\ \/ lastOut'.k = "render" /\ lastOut'.a = F(line').text /\ lastErr' = "none"
                      /\ F(line').text \notin BadStmts
                   \/ lastOut'.k = "none" /\ lastErr' = "raise" /\ F(line').text \in BadStmts]_vars
ClassifyLaws ==
    \A l \in Lines :
        /\ IsDotLine(l) <=> Classify(l).k = "dot"
        /\ IsStatementLine(l) <=> Classify(l).k = "statement"
        /\ Classify(l).k = "statement" => Classify(l).arg = Strip(l)
        /\ IsCommand(Classify(l)) => Classify(l).name = CommandName(l) /\ Words(Classify(l).arg) = CommandArgs(l)
(* .run NAME = typing the text, CLOSE ON defaulting to the directive's date when its FROM clause names none *)
RunIsTyping ==
    [][(IsCmdStep /\ (F(line').dot \/ F(line').bare) /\ F(line').name = "run" /\ Len(F(line').runargs) = 1) =>
          LET name == F(line').runargs[1]
              I == Lookup(queries, name) IN
          /\ settings' = settings
          /\ I = {} => (lastErr' = "error" /\ lastOut'.k = "none")
          /\ I # {} => LET q == queries[First(I)]
                           t == IF q.from = "noclose" THEN q.pre \o " CLOSE ON " \o q.date \o q.post ELSE q.pre \o q.post IN
                       IF t \in BadStmts THEN lastErr' = "raise" /\ lastOut'.k = "none"
                       ELSE lastErr' = "none" /\ lastOut'.k = "render" /\ lastOut'.a = t]_vars
(* the command-line entry point applies its options as documented *)
MainAppliesOptions ==
    boot.via = "main" =>
        /\ lastOut.k = "render" /\ lastOut.a = MainQuery /\ line = MainQuery
        /\ lastOut.dest = (IF boot.o THEN "file" ELSE "stdout")
        /\ settings = [Default EXCEPT !.format = S(boot.f), !.numberify = B(boot.m)]
MainQuiet == (boot.via = "main" /\ boot.q) => lastErr = "none"
MainReports == (boot.via = "main" /\ ~boot.q) => lastErr = (IF LedgerHasErrors THEN "report" ELSE "none")
BootSettings ==
    [][(~started /\ started') =>
          /\ settings'.format = S(boot'.f) /\ settings'.numberify = B(boot'.m)
          /\ \A n \in FieldSet \ {"format", "numberify"} : settings'[n] = Default[n]]_vars
=============================================================================
