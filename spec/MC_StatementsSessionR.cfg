\* sessions with routes (quick): every sequence of <= 3 statements (18 shapes), each typed or stored and .run, on 1 connection
CONSTANTS
  Headers <- Empty
  Pool <- Empty
  MaxPostings = 0
  Shapes <- Empty
  DirPool <- Empty
  MaxDirs = 0
  PrintShapes <- Empty
  KnownStrings <- NoStrings
  KnownPats <- NoStrings
  Variant = "shipped"
  NConn = 1
  MaxSteps = 3
  Routes = {"typed", "run"}
  Mech = "shipped"
INIT SInit
NEXT SNext
INVARIANTS Independent RegisteredUntouched
CHECK_DEADLOCK FALSE
