\* split steps on the cache as shipped before fix 678e809: must be rejected as well
CONSTANTS
  Threads = {1, 2}
  CacheMode = "process-wide one entry"
  Split = TRUE
  Programs <- Progs20_min
INIT Init
NEXT Next
INVARIANTS SerialInv
CHECK_DEADLOCK FALSE
