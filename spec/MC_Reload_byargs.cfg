\* non-vacuity: per-posting conversions memoised by (connection, position, currency, date) outlive the price table.  TLC must reject.
CONSTANTS
  Memos <- MemosBad
  Ledgers <- MCLedgers
  PriceTabs <- MCPriceTabs
  Fs <- MCFs
  MaxAttach = 2
  MaxStmts = 2
INIT RInit
NEXT RNext
INVARIANTS ReloadInv
CHECK_DEADLOCK FALSE
