\* clause combinations (front half x back half), BALANCES / JOURNAL / PRINT
CONSTANTS
  Variant = "ok"
  MaxDepth = 0
  FullDepth = 0
  CtxDepth = 0
  StmtFull = FALSE
INIT InitStmt
NEXT NextStmt
INVARIANTS WellFormed RoundTrip Minimal NoSpareParens
CHECK_DEADLOCK FALSE
