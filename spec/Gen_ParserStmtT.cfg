CONSTANTS
  Variant = "ok"
  MaxDepth = 0
  FullDepth = 0
  CtxDepth = 0
  StmtFull = FALSE
  Salts = {1, 2}
  EmitMod = 1
  GenFam = {}
INIT GInitStmt
NEXT GNextStmt
INVARIANT Emit
CHECK_DEADLOCK FALSE
