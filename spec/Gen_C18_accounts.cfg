CONSTANTS
  Family = "accounts"
  GenLo = 0
  GenHi = 0
  MaxLen = 0
INIT Init
NEXT Next
CHECK_DEADLOCK FALSE
