------------------------------- MODULE BQLValues ------------------------------
(***************************************************************************)
(* BQL values and their arithmetic, ordering, strings and calendar          *)
(* (shared by BQLExpr / BQLSelect; properties C01-C05, C07, C09, C15).      *)
(* Transcribed from the property statements and the documented language     *)
(* semantics (DESIGN.md Appendix B), not from the implementation.           *)
(*                                                                         *)
(* Values are uniform records [t, n, d, s, l]:                              *)
(*   null | bool (n = 0/1) | int (n) | dec (reduced rational n/d, d > 0) |  *)
(*   str (s) | date (n = proleptic ordinal) | list (l = sequence of values) *)
(*   | ood  (outside the model's domain: 32-bit safety bound exceeded,      *)
(*           characters outside the alphabet ... -- skipped, never judged) *)
(***************************************************************************)
EXTENDS Integers, Sequences, FiniteSets, TLC

V(t, n, d, s, l) == [t |-> t, n |-> n, d |-> d, s |-> s, l |-> l]
Null == V("null", 0, 1, "", <<>>)
OOD == V("ood", 0, 1, "", <<>>)
BoolV(b) == V("bool", IF b THEN 1 ELSE 0, 1, "", <<>>)
IntV(i) == V("int", i, 1, "", <<>>)
DateV(o) == V("date", o, 1, "", <<>>)
StrV(s) == V("str", 0, 1, s, <<>>)
ListV(l) == V("list", 0, 1, "", l)

LIM == 30000                      \* |numerators|, denominators beyond this are out of domain (products < 2^31)
MinDate == 1                      \* date.min.toordinal()
MaxDate == 3652059                \* date.max.toordinal()

Abs(x) == IF x < 0 THEN -x ELSE x
Sgn(x) == IF x < 0 THEN -1 ELSE IF x > 0 THEN 1 ELSE 0
RECURSIVE Gcd(_, _)
Gcd(a, b) == IF b = 0 THEN a ELSE Gcd(b, a % b)

\* a decimal is in the model's domain only if it terminates (denominator 2^a 5^b): Decimal arithmetic is then
\* exact; quotients such as 1/3 are 28-digit approximations whose remainders, comparisons and truncations the
\* rational model cannot predict -- they are out of domain (skipped, never judged)
RECURSIVE Strip(_, _)
Strip(d, p) == IF d % p = 0 THEN Strip(d \div p, p) ELSE d
Terminating(d) == Strip(Strip(d, 2), 5) = 1
\* reduced rational, sign carried by the numerator
Rat(n, d) ==
    IF d = 0 THEN OOD
    ELSE LET g == Gcd(Abs(n), Abs(d))
             nn == (IF d < 0 THEN -n ELSE n) \div (IF g = 0 THEN 1 ELSE g)
             dd == Abs(d) \div (IF g = 0 THEN 1 ELSE g)
         IN IF Abs(nn) > LIM \/ dd > LIM \/ ~Terminating(dd) THEN OOD ELSE V("dec", nn, dd, "", <<>>)
Dec(n, d) == Rat(n, d)
IsNum(v) == v.t \in {"int", "dec", "bool"}
Small(v) == Abs(v.n) <= LIM /\ v.d <= LIM

\* truncation toward zero of n/d (d > 0)
TruncDiv(n, d) == IF n >= 0 THEN n \div d ELSE -((-n) \div d)
FloorDiv(n, d) == n \div d          \* TLA+ \div floors for d > 0

-----------------------------------------------------------------------------
(* Strings: compared by code point over a fixed alphabet; anything else is out of domain *)
Alphabet == " !*-.0123456789:ABCDEFabcdefxyz"       \* in increasing code point order
UpperOf  == " !*-.0123456789:ABCDEFABCDEFXYZ"
LowerOf  == " !*-.0123456789:abcdefabcdefxyz"
Ch(s, i) == SubSeq(s, i, i)
InAlphabet(c) == \E i \in 1..Len(Alphabet) : Ch(Alphabet, i) = c
Code(c) == IF InAlphabet(c) THEN CHOOSE i \in 1..Len(Alphabet) : Ch(Alphabet, i) = c ELSE 0   \* 0: out of domain, see StrOK
StrOK(s) == \A i \in 1..Len(s) : InAlphabet(Ch(s, i))
RECURSIVE StrLessFrom(_, _, _)
StrLessFrom(a, b, i) ==
    IF i > Len(a) THEN i <= Len(b)
    ELSE IF i > Len(b) THEN FALSE
    ELSE IF Code(Ch(a, i)) < Code(Ch(b, i)) THEN TRUE
    ELSE IF Code(Ch(a, i)) > Code(Ch(b, i)) THEN FALSE
    ELSE StrLessFrom(a, b, i + 1)
StrLess(a, b) == StrLessFrom(a, b, 1)
RECURSIVE MapStr(_, _, _)
MapStr(s, tab, i) == IF i > Len(s) THEN "" ELSE Ch(tab, Code(Ch(s, i))) \o MapStr(s, tab, i + 1)
Upper(s) == MapStr(s, UpperOf, 1)
Lower(s) == MapStr(s, LowerOf, 1)
Contains(hay, needle) ==
    \E i \in 1..(Len(hay) - Len(needle) + 1) : SubSeq(hay, i, i + Len(needle) - 1) = needle
\* a regular expression that is a plain literal: letters, digits, blank, ':' only
LiteralPattern(p) == \A i \in 1..Len(p) : Ch(p, i) \notin {".", "-", "*", "!"} /\ InAlphabet(Ch(p, i))
IsDigit(c) == c \in {"0", "1", "2", "3", "4", "5", "6", "7", "8", "9"}
DigitVal(c) == Code(c) - Code("0")
HasDigit(s) == \E i \in 1..Len(s) : IsDigit(Ch(s, i))
AllDigits(s) == Len(s) > 0 /\ \A i \in 1..Len(s) : IsDigit(Ch(s, i))
RECURSIVE DigitsVal(_, _, _)
DigitsVal(s, i, acc) == IF i > Len(s) THEN acc ELSE DigitsVal(s, i + 1, acc * 10 + DigitVal(Ch(s, i)))
\* str -> int / decimal casts: plain [-]digits and [-]digits.digits forms; other strings holding a digit are
\* out of domain (Python accepts blanks, underscores, exponents ...); strings without any digit do not convert
ParseInt(s) ==
    LET neg == Len(s) > 0 /\ Ch(s, 1) = "-"
        body == IF neg THEN SubSeq(s, 2, Len(s)) ELSE s
    IN IF ~HasDigit(s) THEN Null
       ELSE IF AllDigits(body) /\ Len(body) <= 4 THEN IntV((IF neg THEN -1 ELSE 1) * DigitsVal(body, 1, 0))
       ELSE IF \E k \in 1..Len(body) : Ch(body, k) = "." /\ AllDigits(SubSeq(body, 1, k - 1))
                  /\ AllDigits(SubSeq(body, k + 1, Len(body))) /\ Len(body) <= 6 THEN Null   \* int('1.5') fails
       ELSE OOD
Pow10(k) == CASE k = 0 -> 1 [] k = 1 -> 10 [] k = 2 -> 100 [] k = 3 -> 1000 [] OTHER -> 10000
ParseDec(s) ==
    LET neg == Len(s) > 0 /\ Ch(s, 1) = "-"
        body == IF neg THEN SubSeq(s, 2, Len(s)) ELSE s
        sg == IF neg THEN -1 ELSE 1
    IN IF ~HasDigit(s) THEN Null
       ELSE IF AllDigits(body) /\ Len(body) <= 4 THEN Rat(sg * DigitsVal(body, 1, 0), 1)
       ELSE IF Len(body) <= 6 /\ \E k \in 1..Len(body) : Ch(body, k) = "." /\ AllDigits(SubSeq(body, 1, k - 1))
                  /\ AllDigits(SubSeq(body, k + 1, Len(body)))
            THEN LET k == CHOOSE k \in 1..Len(body) : Ch(body, k) = "."
                     ip == SubSeq(body, 1, k - 1)
                     fp == SubSeq(body, k + 1, Len(body))
                 IN Rat(sg * (DigitsVal(ip, 1, 0) * Pow10(Len(fp)) + DigitsVal(fp, 1, 0)), Pow10(Len(fp)))
       ELSE OOD
\* Python slice s[a:b]
PyClamp(n, x) == IF x < 0 THEN (IF x + n < 0 THEN 0 ELSE x + n) ELSE (IF x > n THEN n ELSE x)
PySlice(s, a, b) == LET n == Len(s) st == PyClamp(n, a) en == PyClamp(n, b)
                    IN IF en <= st THEN SubSeq(s, 1, 0) ELSE SubSeq(s, st + 1, en)

-----------------------------------------------------------------------------
(* Calendar (proleptic Gregorian ordinals; Hinnant's civil-from-days) *)
CivilFromOrdinal(o) ==
    LET z == o + 305                   \* days since 0000-03-01
        era == z \div 146097
        doe == z - era * 146097
        yoe == (doe - doe \div 1460 + doe \div 36524 - doe \div 146096) \div 365
        doy == doe - (365 * yoe + yoe \div 4 - yoe \div 100)
        mp == (5 * doy + 2) \div 153
        dd == doy - (153 * mp + 2) \div 5 + 1
        mm == IF mp < 10 THEN mp + 3 ELSE mp - 9
        yy == yoe + era * 400 + (IF mm <= 2 THEN 1 ELSE 0)
    IN <<yy, mm, dd>>

-----------------------------------------------------------------------------
(* Numeric semantics on values (operands int / dec / bool-as-int; never null, never ood) *)
NumN(v) == v.n
NumD(v) == v.d
AsDecOrInt(resInt, n, d) == IF resInt THEN (IF Abs(n) > LIM THEN OOD ELSE IntV(n)) ELSE Rat(n, d)
BothInt(a, b) == a.t \in {"int", "bool"} /\ b.t \in {"int", "bool"}
NumAdd(a, b) == AsDecOrInt(BothInt(a, b), a.n * b.d + b.n * a.d, a.d * b.d)
NumSub(a, b) == AsDecOrInt(BothInt(a, b), a.n * b.d - b.n * a.d, a.d * b.d)
NumMul(a, b) == AsDecOrInt(BothInt(a, b), a.n * b.n, a.d * b.d)
NumDiv(a, b) == IF b.n = 0 THEN Null ELSE Rat(a.n * b.d, a.d * b.n)            \* always decimal
\* Python's floored modulo for ints: result has the sign of the divisor
PyIntMod(x, y) == IF y > 0 THEN x % y ELSE -((-x) % (-y))
NumMod(a, b) ==
    IF b.n = 0 THEN Null
    ELSE IF BothInt(a, b) THEN IntV(PyIntMod(a.n, b.n))
    ELSE \* decimal remainder keeps the sign of the dividend: x - y * trunc(x / y)
         LET qn == a.n * b.d   qd == a.d * b.n
             q == TruncDiv(IF qd < 0 THEN -qn ELSE qn, Abs(qd))
         IN Rat(a.n * b.d - q * b.n * a.d, a.d * b.d)
NumLess(a, b) == a.n * b.d < b.n * a.d
NumEq(a, b) == a.n * b.d = b.n * a.d

ValEq(a, b) ==        \* Python == between two non-null values of the model
    IF IsNum(a) /\ IsNum(b) THEN NumEq(a, b)
    ELSE IF a.t = b.t THEN (IF a.t = "str" THEN a.s = b.s ELSE IF a.t = "date" THEN a.n = b.n ELSE a = b)
    ELSE FALSE
ValLess(a, b) ==
    IF IsNum(a) /\ IsNum(b) THEN NumLess(a, b)
    ELSE IF a.t = "str" THEN StrLess(a.s, b.s)
    ELSE a.n < b.n          \* dates
Truthy(v) ==          \* Python truthiness of a non-null value
    CASE v.t \in {"bool", "int", "dec"} -> v.n # 0
      [] v.t = "str" -> v.s # ""
      [] v.t = "list" -> v.l # <<>>
      [] OTHER -> TRUE
\* half-even rounding of n/d to an integer
RoundHalfEven(n, d) ==
    LET fl == n \div d  r2 == 2 * (n - fl * d)
    IN IF r2 < d THEN fl ELSE IF r2 > d THEN fl + 1 ELSE IF fl % 2 = 0 THEN fl ELSE fl + 1

=============================================================================
