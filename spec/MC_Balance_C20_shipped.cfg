\* the mechanism as shipped before fix 678e809: TLC must find the eviction schedule  NextRow(1) Eval(1) NextRow(2) Eval(2) Yield(1) Eval(1)
CONSTANTS
  Threads = {1, 2}
  CacheMode = "process-wide one entry"
  Split = FALSE
  Programs <- Progs20_min
INIT Init
NEXT Next
INVARIANTS SerialInv
CHECK_DEADLOCK FALSE
