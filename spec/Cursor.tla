------------------------------- MODULE Cursor -------------------------------
(***************************************************************************)
(* beanquery/cursor.py -- the DB-API cursor as a state machine (C10).       *)
(*                                                                         *)
(* Mechanism (as the code does it): every cursor owns a row BUFFER that    *)
(* fetchone / fetchmany / fetchall pop from the front and a position       *)
(* counter that they advance; execute replaces buffer, description and     *)
(* counter.  The property is stated declaratively over the history         *)
(* variable `fetched` (everything delivered by fetch calls since the last  *)
(* execute) and the immutable `result` of that execute.                    *)
(*                                                                         *)
(* RowCountFrom = "result" is the property-conforming mechanism            *)
(* (remember the count at execute); "buffer" is the mechanism as shipped   *)
(* before the fix (rowcount = len(buffer)), kept so that TLC demonstrates  *)
(* the counterexample (MC_Cursor_shipped.cfg).                             *)
(***************************************************************************)
EXTENDS Integers, Sequences, FiniteSets, TLC

CONSTANTS
    NCursors,       \* cursors of one connection: 1..NCursors
    Queries,        \* sequence of [n |-> row count, cols |-> <<<<name, type>>, ...>>]
    FetchSizes,     \* explicit fetchmany sizes (>= 0)
    ArraySizes,     \* values assigned to cursor.arraysize (>= 1)
    RowCountFrom,   \* "result" | "buffer"
    IterMayConsume, \* TRUE: iteration is allowed to consume (a DB-API cursor) or not (as shipped)
    None            \* Python's None (a model value: unequal to every row, integer and sequence)

Cursors == 1..NCursors
Min(a, b) == IF a < b THEN a ELSE b
Max(a, b) == IF a > b THEN a ELSE b
Rows(n) == [i \in 1..n |-> i]              \* row i of a result is identified by i (first column of the real row)

VARIABLES
    executed,   \* [Cursors -> BOOLEAN]
    result,     \* [Cursors -> Seq(Nat)]      rows produced by the last execute
    buf,        \* [Cursors -> Seq(Nat)]      not yet delivered
    pos,        \* [Cursors -> Nat]
    arraysize,  \* [Cursors -> Nat]
    desc,       \* [Cursors -> None or sequence of <<name, type>>]
    fetched,    \* history: rows delivered by fetch calls since the last execute
    out         \* what the last call returned: [op, c, arg, val]

vars == <<executed, result, buf, pos, arraysize, desc, fetched, out>>

Init ==
    /\ executed = [c \in Cursors |-> FALSE]
    /\ result = [c \in Cursors |-> <<>>]
    /\ buf = [c \in Cursors |-> <<>>]
    /\ pos = [c \in Cursors |-> 0]
    /\ arraysize = [c \in Cursors |-> 1]
    /\ desc = [c \in Cursors |-> None]
    /\ fetched = [c \in Cursors |-> <<>>]
    /\ out = [op |-> "init", c |-> 0, arg |-> None, val |-> None]

-----------------------------------------------------------------------------
(* Observable attributes *)
RowNumber(c) == pos[c]
RowCount(c) ==
    IF ~executed[c] THEN -1
    ELSE IF RowCountFrom = "buffer" THEN Len(buf[c]) ELSE Len(result[c])

(* A description item is the 7-sequence (name, type_code, None x 5). *)
Column(nt) == <<nt[1], nt[2], None, None, None, None, None>>
Description(c) == IF desc[c] = None THEN None ELSE [i \in 1..Len(desc[c]) |-> Column(desc[c][i])]

(* Python sequence protocol on a 7-item sequence *)
PyIndex(s, i) == IF i >= -Len(s) /\ i < Len(s) THEN s[((i + Len(s)) % Len(s)) + 1] ELSE "IndexError"
PyNorm(n, x, dflt) == IF x = None THEN dflt ELSE IF x < 0 THEN Max(x + n, 0) ELSE Min(x, n)
PySlice(s, a, b) ==
    LET n == Len(s) start == PyNorm(n, a, 0) stop == PyNorm(n, b, n)
    IN IF stop <= start THEN <<>> ELSE SubSeq(s, start + 1, stop)

-----------------------------------------------------------------------------
(* Actions: one per public call *)
ExecuteRec(c, qr) ==          \* qr = [n |-> number of result rows, cols |-> <<<<name, type>>, ...>>]
    /\ executed' = [executed EXCEPT ![c] = TRUE]
    /\ result' = [result EXCEPT ![c] = Rows(qr.n)]
    /\ buf' = [buf EXCEPT ![c] = Rows(qr.n)]
    /\ pos' = [pos EXCEPT ![c] = 0]
    /\ desc' = [desc EXCEPT ![c] = qr.cols]
    /\ fetched' = [fetched EXCEPT ![c] = <<>>]
    /\ out' = [op |-> "execute", c |-> c, arg |-> qr.n, val |-> None]
    /\ UNCHANGED arraysize
Execute(c, q) == ExecuteRec(c, Queries[q])

FetchOne(c) ==
    /\ IF buf[c] = <<>>
       THEN /\ out' = [op |-> "fetchone", c |-> c, arg |-> None, val |-> None]
            /\ UNCHANGED <<buf, pos, fetched>>
       ELSE /\ out' = [op |-> "fetchone", c |-> c, arg |-> None, val |-> Head(buf[c])]
            /\ buf' = [buf EXCEPT ![c] = Tail(buf[c])]
            /\ pos' = [pos EXCEPT ![c] = @ + 1]
            /\ fetched' = [fetched EXCEPT ![c] = Append(@, Head(buf[c]))]
    /\ UNCHANGED <<executed, result, arraysize, desc>>

Deliver(c, m, op, arg) ==
    /\ out' = [op |-> op, c |-> c, arg |-> arg, val |-> SubSeq(buf[c], 1, m)]
    /\ buf' = [buf EXCEPT ![c] = SubSeq(buf[c], m + 1, Len(buf[c]))]
    /\ pos' = [pos EXCEPT ![c] = @ + m]
    /\ fetched' = [fetched EXCEPT ![c] = @ \o SubSeq(buf[c], 1, m)]
    /\ UNCHANGED <<executed, result, arraysize, desc>>

FetchMany(c, k) == Deliver(c, Min(k, Len(buf[c])), "fetchmany", k)           \* explicit size
FetchManyDefault(c) == Deliver(c, Min(arraysize[c], Len(buf[c])), "fetchmanydefault", None)
FetchAll(c) == Deliver(c, Len(buf[c]), "fetchall", None)

(* iteration yields the rows not yet fetched, in order.  The statement restricts "no row twice" to fetch
   calls, so both a consuming iterator (DB-API style) and a non-consuming one (as shipped) conform. *)
IterateKeep(c) ==
    /\ out' = [op |-> "iterate", c |-> c, arg |-> None, val |-> buf[c]]
    /\ UNCHANGED <<executed, result, buf, pos, arraysize, desc, fetched>>
IterateConsume(c) ==
    /\ IterMayConsume
    /\ Deliver(c, Len(buf[c]), "iterate", None)
Iterate(c) == IterateKeep(c) \/ IterateConsume(c)

SetArraysize(c, a) ==
    /\ arraysize' = [arraysize EXCEPT ![c] = a]
    /\ out' = [op |-> "setarraysize", c |-> c, arg |-> a, val |-> None]
    /\ UNCHANGED <<executed, result, buf, pos, desc, fetched>>

Next ==
    \E c \in Cursors :
        \/ \E q \in 1..Len(Queries) : Execute(c, q)
        \/ FetchOne(c)
        \/ \E k \in FetchSizes : FetchMany(c, k)
        \/ FetchManyDefault(c)
        \/ FetchAll(c)
        \/ Iterate(c)
        \/ \E a \in ArraySizes : SetArraysize(c, a)

Spec == Init /\ [][Next]_vars

-----------------------------------------------------------------------------
(* The property (C10), declaratively *)
IsPrefix(s, t) == Len(s) <= Len(t) /\ s = SubSeq(t, 1, Len(s))

TypeOK ==
    /\ \A c \in Cursors : pos[c] \in Nat /\ arraysize[c] \in ArraySizes \cup {1}

\* everything delivered so far, in order, is a prefix of the result: rows in order, none twice, none invented
PrefixInv == \A c \in Cursors : IsPrefix(fetched[c], result[c])
\* the buffer is exactly the not-yet-delivered suffix
SuffixInv == \A c \in Cursors : fetched[c] \o buf[c] = result[c]
RowNumberInv == \A c \in Cursors : RowNumber(c) = Len(fetched[c])
RowCountInv == \A c \in Cursors : RowCount(c) = IF executed[c] THEN Len(result[c]) ELSE -1
DescInv == \A c \in Cursors : (desc[c] = None) <=> ~executed[c]
\* fetchone returns None, fetchmany(n >= 1) / fetchall return [] exactly when the rows are exhausted
\* (evaluated in the state after the call: `out` is what it returned, `fetched` includes it)
ExhaustInv ==
    /\ out.op = "fetchone" =>
         IF out.val = None THEN fetched[out.c] = result[out.c]
         ELSE fetched[out.c] # <<>> /\ out.val = fetched[out.c][Len(fetched[out.c])]
    /\ (out.op \in {"fetchall", "fetchmanydefault"} /\ out.val = <<>>) => fetched[out.c] = result[out.c]
    /\ (out.op = "fetchmany" /\ out.arg >= 1 /\ out.val = <<>>) => fetched[out.c] = result[out.c]
    /\ (out.op \in {"fetchmany", "fetchmanydefault"} /\ fetched[out.c] = result[out.c] /\ out.val # <<>>) =>
          out.val = SubSeq(result[out.c], Len(result[out.c]) - Len(out.val) + 1, Len(result[out.c]))
    /\ out.op = "fetchall" => fetched[out.c] = result[out.c]

\* action properties
ExecuteResets ==
    [][\A c \in Cursors : (out'.op = "execute" /\ out'.c = c /\ out' # out) =>
          (pos'[c] = 0 /\ fetched'[c] = <<>> /\ buf'[c] = result'[c] /\ desc'[c] # None)]_vars
\* a call on one cursor never changes another cursor of the same connection
Isolation ==
    [][\A c \in Cursors : out'.c # c =>
          /\ executed'[c] = executed[c] /\ result'[c] = result[c] /\ buf'[c] = buf[c]
          /\ pos'[c] = pos[c] /\ arraysize'[c] = arraysize[c] /\ desc'[c] = desc[c] /\ fetched'[c] = fetched[c]]_vars
\* fetch calls with an empty return do not move anything; non-empty returns are the next rows
FetchMonotone ==
    [][\A c \in Cursors : IsPrefix(fetched[c], fetched'[c]) \/ (out'.op = "execute" /\ out'.c = c)]_vars

=============================================================================
