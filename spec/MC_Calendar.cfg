\* every date of 1900-01-01 .. 2100-12-31 (ordinals 693596 .. 767009), all units, strides and origins
CONSTANTS
  Lo = 693596
  Hi = 767009
  Step = 1
  ChainLen = 512
  BinImpl = "spec"
  BinFull = FALSE
INIT Init
NEXT Next
INVARIANTS Anchors CivilInv TruncInv NestInv PartInv AddDiffInv IvalInv BinInv
CHECK_DEADLOCK FALSE
