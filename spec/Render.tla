------------------------------- MODULE Render -------------------------------
(***************************************************************************)
(* beanquery/query_render.py -- the two-phase column renderers and the     *)
(* table layout, as a LAYOUT ALGEBRA OVER INTEGERS (C16).                  *)
(*                                                                         *)
(* Nothing here builds a string.  A value is abstract: a text of length n, *)
(* an integer (sign, digits), a decimal (sign, integer digits, fraction    *)
(* digits; or opaque when printed in E notation), a date, a bool, a set of *)
(* texts, an amount (decimal + currency length), an inventory (positions), *)
(* NULL.  A formatted cell is [lp, n, rp, dot]: blanks on the left, length *)
(* of the visible text, blanks on the right, offset of the decimal point   *)
(* (for a number shown without one: of the place right after its last      *)
(* integer digit; -1 for non-numbers) counted from the start of the cell.  *)
(* A line is [kind, style, w, r, j, cells] with one [off, lp, n, rp, dot]  *)
(* per column (off and dot counted from the start of the line).            *)
(*                                                                         *)
(* Mechanism (shaped like render_text): per column a renderer state        *)
(* (mw, ni, nf, cw, ...) goes through Update(v)* ; Prepare ; Format(v)*;   *)
(* the table driver feeds the rows, fixes the widths                       *)
(*     width[c] = Max(1, narrow ? 1 : Len(header), Len(null), prepared[c]) *)
(* and emits top / header / rule / rows (+ spacing rows, + expansion       *)
(* lines) / bottom.  The property is stated declaratively over the emitted *)
(* lines (section "The property").                                         *)
(*                                                                         *)
(* WidthRule  = "full" | "ignore_null" | "ignore_header"  (the last two    *)
(*              are deliberately broken: non-vacuity runs)                 *)
(* ExpandRule = "atleast1" (a row is never swallowed) | "shipped" (the     *)
(*              code: the number of lines of a row with list cells is the  *)
(*              longest list, which may be 0: the row vanishes)            *)
(* CsvCtx     = "own": render_csv runs the SAME renderers and row driver   *)
(*              under a context of its own -- no spacing rows, list items  *)
(*              joined by one comma -- whatever options the caller hands   *)
(*              over (the application passes ALL its settings to every     *)
(*              format); "inherit" (broken on purpose): the caller's       *)
(*              text options leak into that context                        *)
(***************************************************************************)
EXTENDS Integers, Sequences, FiniteSets, TLC

CONSTANTS
    Tables,       \* set of tables: sequence of columns [t |-> type, hl |-> header length, vals |-> <<value, ...>>]
    NullLens,     \* lengths of the NULL placeholder
    SepLens,      \* lengths of the list separator
    WidthRule,
    ExpandRule,
    CsvCtx        \* "own" (render_csv builds its own context) | "inherit" (deliberately broken: non-vacuity run)

Max2(a, b) == IF a >= b THEN a ELSE b
Min2(a, b) == IF a <= b THEN a ELSE b
Abs(a) == IF a < 0 THEN -a ELSE a
B2N(b) == IF b THEN 1 ELSE 0
RECURSIVE SumSeq(_)
SumSeq(s) == IF s = <<>> THEN 0 ELSE Head(s) + SumSeq(Tail(s))
RECURSIVE MaxSeq(_)
MaxSeq(s) == IF s = <<>> THEN 0 ELSE Max2(Head(s), MaxSeq(Tail(s)))

Options == [boxed : BOOLEAN, unicode : BOOLEAN, spaced : BOOLEAN, expand : BOOLEAN, narrow : BOOLEAN,
            nl : NullLens, sl : SepLens]

-----------------------------------------------------------------------------
(* Abstract values.  k = "null" | "str" (n) | "int" (s, i) | "dec" (s, i, f) | "decE" (n) | "date" | "bool" (n = 1 TRUE,
   0 FALSE) | "set" (items = lengths) | "amt" (s, i, f, c) | "inv" (pos = <<amt, ...>>).
   i is the number of integer digits SHOWN (at least 1: 0.5 has i = 1). *)
IsNull(v) == v.k = "null"
NumLen(v) == v.s + v.i + (IF v.f > 0 THEN 1 + v.f ELSE 0)
JoinLen(items, sl) == IF items = <<>> THEN 0 ELSE SumSeq(items) + sl * (Len(items) - 1)

(* the length of the text a value must show, padding aside (what "not truncated" means) *)
TextLen(t, v, o) ==
    CASE v.k = "str"  -> v.n
      [] v.k = "int"  -> v.s + v.i
      [] v.k = "dec"  -> NumLen(v)
      [] v.k = "decE" -> v.n
      [] v.k = "date" -> 10
      [] v.k = "bool" -> IF v.n = 1 THEN 4 ELSE 5
      [] v.k = "set"  -> JoinLen(v.items, o.sl)
      [] v.k = "amt"  -> NumLen(v) + 1 + v.c          \* at least: number, one blank, currency
      [] OTHER        -> 0

RightAligned(t) == t = "int"

-----------------------------------------------------------------------------
(* Renderers: Update* ; Prepare ; Format*.  One state shape for all types.
   sub / cnt: per-currency sub-renderers of an inventory column that is not expanded (currency = its length). *)
CurIds == 1..6
AInit == [ni |-> 1, nf |-> 0, cw |-> 0]
InitRS(t) == [mw |-> 0, ni |-> IF t \in {"amt", "inv"} THEN 1 ELSE 0, nf |-> 0, cw |-> 0,
              sub |-> [c \in CurIds |-> AInit], cnt |-> [c \in CurIds |-> 0], prepared |-> FALSE]

(* amounts: the number formatter reserves a sign place, the widest integer part, and the longest fraction of the
   column; the currency is padded to the widest currency *)
AUpd(a, v) == [a EXCEPT !.ni = Max2(@, v.i), !.nf = Max2(@, v.f), !.cw = Max2(@, v.c)]
RECURSIVE AFold(_, _)
AFold(a, ps) == IF ps = <<>> THEN a ELSE AFold(AUpd(a, Head(ps)), Tail(ps))
ANumW(a) == 1 + a.ni + (IF a.nf > 0 THEN 1 + a.nf ELSE 0)
AW(a) == IF a.cw = 0 THEN 0 ELSE ANumW(a) + 1 + a.cw
AFmt(a, v) == [lp |-> 1 + a.ni - (v.s + v.i),
               n |-> NumLen(v) + (a.nf - v.f) + (IF a.nf > 0 /\ v.f = 0 THEN 1 ELSE 0) + 1 + v.c,
               rp |-> a.cw - v.c,
               dot |-> 1 + a.ni]
SelCur(ps, c) == SelectSeq(ps, LAMBDA p : p.c = c)

Update(t, rs, v, o) ==
    CASE t \in {"str", "obj"} -> [rs EXCEPT !.mw = Max2(@, v.n)]
      [] t = "int"  -> [rs EXCEPT !.mw = Max2(@, v.s + v.i)]
      [] t = "bool" -> [rs EXCEPT !.mw = Max2(@, IF v.n = 1 THEN 4 ELSE 5)]
      [] t = "date" -> [rs EXCEPT !.mw = 10]
      [] t = "set"  -> [rs EXCEPT !.mw = Max2(@, JoinLen(v.items, o.sl))]
      [] t = "dec"  -> IF v.k = "decE" THEN [rs EXCEPT !.ni = Max2(@, v.n)]
                       ELSE [rs EXCEPT !.ni = Max2(@, v.s + v.i), !.nf = Max2(@, v.f)]
      [] t = "amt"  -> [rs EXCEPT !.ni = Max2(@, v.i), !.nf = Max2(@, v.f), !.cw = Max2(@, v.c)]
      [] t = "inv"  -> IF o.expand
                       THEN LET a == AFold([ni |-> rs.ni, nf |-> rs.nf, cw |-> rs.cw], v.pos)
                            IN [rs EXCEPT !.ni = a.ni, !.nf = a.nf, !.cw = a.cw]
                       ELSE [rs EXCEPT !.sub = [c \in CurIds |-> AFold(rs.sub[c], SelCur(v.pos, c))],
                                       !.cnt = [c \in CurIds |-> Max2(rs.cnt[c], Len(SelCur(v.pos, c)))]]

Prepare(t, rs, o) ==
    LET mw == CASE t = "dec" -> rs.ni + rs.nf + (IF rs.nf > 0 THEN 1 ELSE 0)
                [] t = "amt" -> AW(rs)
                [] t = "inv" -> IF o.expand THEN AW(rs)
                                ELSE SumSeq([c \in CurIds |-> rs.cnt[c] * (AW(rs.sub[c]) + o.sl)]) - o.sl
                [] OTHER -> rs.mw
    IN [rs EXCEPT !.mw = mw, !.prepared = TRUE]

Plain(n) == [lp |-> 0, n |-> n, rp |-> 0, dot |-> -1]

(* Format returns a SEQUENCE of cells: one, or for an expanded inventory one per position (none when empty) *)
Format(t, rs, v, o) ==
    CASE t = "dec" ->
            IF v.k = "decE" THEN << [lp |-> rs.ni - v.n, n |-> v.n, rp |-> rs.mw - rs.ni, dot |-> -1] >>
            ELSE LET left == rs.ni - (v.s + v.i)
                 IN << [lp |-> left, n |-> NumLen(v), rp |-> rs.mw - left - NumLen(v), dot |-> rs.ni] >>
      [] t = "amt" -> << AFmt(rs, v) >>
      [] t = "inv" -> IF o.expand THEN [j \in 1..Len(v.pos) |-> AFmt(rs, v.pos[j])]
                      ELSE << Plain(Max2(0, rs.mw)) >>         \* slots of fixed widths joined by the separator
      [] OTHER -> << Plain(TextLen(t, v, o)) >>

-----------------------------------------------------------------------------
(* Table layout *)
NCols(tab) == Len(tab)
NRows(tab) == IF tab = <<>> THEN 0 ELSE Len(tab[1].vals)

WidthOf(hl, prepared, o) ==
    CASE WidthRule = "ignore_null"   -> Max2(Max2(1, IF o.narrow THEN 1 ELSE hl), prepared)
      [] WidthRule = "ignore_header" -> Max2(Max2(1, o.nl), prepared)
      [] OTHER -> Max2(Max2(1, IF o.narrow THEN 1 ELSE hl), Max2(o.nl, prepared))

Frame(o) == IF o.boxed THEN 2 ELSE 0
SepW(o) == IF o.boxed THEN 3 ELSE 2
RowStyle(o) == IF o.boxed THEN (IF o.unicode THEN "unicode" ELSE "ascii") ELSE "plain"
RuleStyle(o) == IF o.unicode THEN "unicode" ELSE "ascii"

(* str.center: the odd blank goes to the left when the field width is odd, else to the right *)
CenterL(w, n) == LET pad == w - n IN (pad \div 2) + (IF pad % 2 = 1 /\ w % 2 = 1 THEN 1 ELSE 0)
HeaderCell(hl, w) == LET n == Min2(hl, w) IN [lp |-> CenterL(w, n), n |-> n, rp |-> (w - n) - CenterL(w, n), dot |-> -1]

(* pad an inner cell (as the renderer returned it) to the column: left- or right-justified; a cell wider than the column
   is NOT cut -- it pushes the rest of the line *)
Justify(cell, w, right) ==
    LET m == cell.lp + cell.n + cell.rp
        extra == Max2(0, w - m)
    IN IF right THEN [cell EXCEPT !.lp = @ + extra] ELSE [cell EXCEPT !.rp = @ + extra]

RECURSIVE Place(_, _, _, _)
Place(cells, k, off, o) ==      \* give the justified cells k.. their offsets, starting at off
    IF k > Len(cells) THEN <<>>
    ELSE LET c == cells[k]
             tot == c.lp + c.n + c.rp
         IN << [off |-> off, lp |-> c.lp, n |-> c.n, rp |-> c.rp, dot |-> IF c.dot < 0 THEN -1 ELSE off + c.dot] >>
            \o Place(cells, k + 1, off + tot + SepW(o), o)

LineW(placed, o) ==
    IF placed = <<>> THEN 2 * Frame(o)
    ELSE LET z == placed[Len(placed)] IN z.off + z.lp + z.n + z.rp + Frame(o)

MkLine(kind, style, r, j, cells, o) ==
    LET placed == Place(cells, 1, Frame(o), o)
    IN [kind |-> kind, style |-> style, r |-> r, j |-> j, w |-> LineW(placed, o), cells |-> placed]

RuleLine(kind, widths, o) == MkLine(kind, RuleStyle(o), 0, 0, [c \in 1..Len(widths) |-> Plain(widths[c])], o)
HeaderLine(tab, widths, o) ==
    MkLine("head", RowStyle(o), 0, 0, [c \in 1..Len(tab) |-> HeaderCell(tab[c].hl, widths[c])], o)

(* the cells of row r: per column the sequence Format returned, NULL -> the placeholder *)
RowCells(tab, rst, r, o) ==
    [c \in 1..Len(tab) |-> LET v == tab[c].vals[r]
                           IN IF IsNull(v) THEN << Plain(o.nl) >> ELSE Format(tab[c].t, rst[c], v, o)]
IsListCell(tab, r, c, o) == tab[c].t = "inv" /\ o.expand /\ ~IsNull(tab[c].vals[r])
NLines(tab, rst, r, o) ==
    LET rc == RowCells(tab, rst, r, o)
        multi == \E c \in 1..Len(tab) : IsListCell(tab, r, c, o)
        longest == MaxSeq([c \in 1..Len(tab) |-> IF IsListCell(tab, r, c, o) THEN Len(rc[c]) ELSE 1])
    IN IF ~multi THEN 1
       ELSE IF ExpandRule = "shipped" THEN longest ELSE Max2(1, longest)
RowLines(tab, rst, widths, r, o) ==
    LET rc == RowCells(tab, rst, r, o)
        nl == NLines(tab, rst, r, o)
    IN [j \in 1..nl |->
          MkLine("row", RowStyle(o), r, j,
                 [c \in 1..Len(tab) |-> Justify(IF j <= Len(rc[c]) THEN rc[c][j] ELSE Plain(0), widths[c],
                                                RightAligned(tab[c].t))], o)]
SpaceLine(tab, widths, r, o) ==
    MkLine("space", RowStyle(o), r, 0, [c \in 1..Len(tab) |-> Justify(Plain(0), widths[c], FALSE)], o)

-----------------------------------------------------------------------------
(* The mechanism as a state machine: render_text, one action per loop iteration / phase *)
VARIABLES tab, opt, phase, r, rst, widths, lines
vars == <<tab, opt, phase, r, rst, widths, lines>>

Init ==
    /\ tab \in Tables
    /\ opt \in Options
    /\ phase = "update"
    /\ r = 1
    /\ rst = [c \in 1..Len(tab) |-> InitRS(tab[c].t)]
    /\ widths = [c \in 1..Len(tab) |-> 0]
    /\ lines = <<>>

UpdateRow ==                    \* "prime the renderers": NULLs are not shown to the renderer
    /\ phase = "update" /\ r <= NRows(tab)
    /\ rst' = [c \in 1..Len(tab) |-> LET v == tab[c].vals[r]
                                     IN IF IsNull(v) THEN rst[c] ELSE Update(tab[c].t, rst[c], v, opt)]
    /\ r' = r + 1
    /\ UNCHANGED <<tab, opt, phase, widths, lines>>

PrepareAll ==
    /\ phase = "update" /\ r > NRows(tab)
    /\ rst' = [c \in 1..Len(tab) |-> Prepare(tab[c].t, rst[c], opt)]
    /\ widths' = [c \in 1..Len(tab) |-> WidthOf(tab[c].hl, rst'[c].mw, opt)]
    /\ phase' = "head"
    /\ UNCHANGED <<tab, opt, r, lines>>

EmitHead ==
    /\ phase = "head"
    /\ lines' = (IF opt.boxed THEN << RuleLine("top", widths, opt) >> ELSE <<>>)
                \o << HeaderLine(tab, widths, opt), RuleLine("rule", widths, opt) >>
    /\ phase' = "rows" /\ r' = 1
    /\ UNCHANGED <<tab, opt, rst, widths>>

FormatRow ==
    /\ phase = "rows" /\ r <= NRows(tab)
    /\ lines' = lines \o RowLines(tab, rst, widths, r, opt)
                      \o (IF opt.spaced THEN << SpaceLine(tab, widths, r, opt) >> ELSE <<>>)
    /\ r' = r + 1
    /\ UNCHANGED <<tab, opt, phase, rst, widths>>

Foot ==
    /\ phase = "rows" /\ r > NRows(tab)
    /\ lines' = lines \o (IF opt.boxed THEN << RuleLine("bottom", widths, opt) >> ELSE <<>>)
    /\ phase' = "done"
    /\ UNCHANGED <<tab, opt, r, rst, widths>>

Next == UpdateRow \/ PrepareAll \/ EmitHead \/ FormatRow \/ Foot
Spec == Init /\ [][Next]_vars

-----------------------------------------------------------------------------
(* The property (C16, text half), declaratively, over any sequence of lines `ls` claimed to render `tb` under `o`
   with column widths `ws`.  The same predicates judge the lines the mechanism emits (MC) and the lines parsed from
   real output (Trace_Render). *)
Off(ws, c, o) == Frame(o) + SumSeq(SubSeq(ws, 1, c - 1)) + SepW(o) * (c - 1)
TotalW(ws, o) == 2 * Frame(o) + SumSeq(ws) + SepW(o) * (IF Len(ws) = 0 THEN 0 ELSE Len(ws) - 1)

\* every emitted line has the same width, and it is the width the frame and the columns add up to
RectOK(ls, ws, o) == \A k \in 1..Len(ls) : ls[k].w = TotalW(ws, o)
Cols(ws) == 1..Len(ws)
ShapeOK(ls, ws) == \A k \in 1..Len(ls) : Len(ls[k].cells) = Len(ws)
\* columns start at fixed offsets and every cell fills its column exactly (no overflow)
OffsetsCol(ls, ws, o, c) ==
    \A k \in 1..Len(ls) : LET x == ls[k].cells[c]
                          IN x.off = Off(ws, c, o) /\ x.lp + x.n + x.rp = ws[c] /\ x.lp >= 0 /\ x.rp >= 0 /\ x.n >= 0
OffsetsOK(ls, ws, o) == ShapeOK(ls, ws) /\ \A c \in Cols(ws) : OffsetsCol(ls, ws, o, c)
\* frame characters as the options say
StyleOK(ls, o) ==
    \A k \in 1..Len(ls) : ls[k].style = IF ls[k].kind \in {"top", "rule", "bottom"} THEN RuleStyle(o) ELSE RowStyle(o)
\* rules span the columns
RulesOK(ls, ws) ==
    \A k \in 1..Len(ls) : ls[k].kind \in {"top", "rule", "bottom"} =>
        \A c \in Cols(ws) : ls[k].cells[c].lp = 0 /\ ls[k].cells[c].rp = 0
\* headers are centred, and cut to the column only in narrow mode
HeaderCol(ls, tb, ws, o, c) ==
    \A k \in 1..Len(ls) : ls[k].kind = "head" =>
        LET x == ls[k].cells[c]
        IN /\ (x.n = 0 \/ Abs(x.lp - x.rp) <= 1)
           /\ x.n = IF o.narrow THEN Min2(tb[c].hl, ws[c]) ELSE tb[c].hl
HeaderOK(ls, tb, ws, o) == \A c \in Cols(ws) : HeaderCol(ls, tb, ws, o, c)
\* a width is as large as header / placeholder demand, never below 1
WidthFloorCol(tb, ws, o, c) == ws[c] >= 1 /\ ws[c] >= o.nl /\ (~o.narrow => ws[c] >= tb[c].hl)
WidthFloorOK(tb, ws, o) == \A c \in Cols(ws) : WidthFloorCol(tb, ws, o, c)

\* how many lines a row takes: one, unless expansion was requested and a list cell has more entries
ListLen(v) == IF v.k = "inv" THEN Len(v.pos) ELSE 1
WantLines(tb, rr, o) ==
    IF ~o.expand THEN 1
    ELSE Max2(1, MaxSeq([c \in 1..Len(tb) |-> IF tb[c].t = "inv" /\ ~IsNull(tb[c].vals[rr]) THEN ListLen(tb[c].vals[rr])
                                               ELSE 1]))
RECURSIVE WantKinds(_, _, _)
WantKinds(tb, rr, o) ==         \* <<kind, r, j>> of the lines of rows rr..
    IF rr > NRows(tb) THEN <<>>
    ELSE [j \in 1..WantLines(tb, rr, o) |-> <<"row", rr, j>>]
         \o (IF o.spaced THEN << <<"space", rr, 0>> >> ELSE <<>>) \o WantKinds(tb, rr + 1, o)
WantSkeleton(tb, o) ==
    (IF o.boxed THEN << <<"top", 0, 0>> >> ELSE <<>>) \o << <<"head", 0, 0>>, <<"rule", 0, 0>> >>
    \o WantKinds(tb, 1, o) \o (IF o.boxed THEN << <<"bottom", 0, 0>> >> ELSE <<>>)
Skeleton(ls) == [k \in 1..Len(ls) |-> <<ls[k].kind, ls[k].r, ls[k].j>>]
IsPrefix(s, t) == Len(s) <= Len(t) /\ s = SubSeq(t, 1, Len(s))

\* what column c of a row line must show
CellShows(tb, c, x, rr, j, o) ==
    LET v == tb[c].vals[rr] t == tb[c].t
    IN IF IsNull(v) THEN (IF j = 1 THEN x.n = o.nl ELSE x.n = 0)            \* NULL shows the placeholder
       ELSE IF v.k = "ood" THEN TRUE                                        \* outside the domain: not judged
       ELSE IF t = "inv" THEN
              IF o.expand THEN (IF j <= Len(v.pos) THEN x.n >= TextLen("amt", v.pos[j], o) ELSE x.n = 0)
              ELSE TRUE
       ELSE IF j > 1 THEN x.n = 0                                           \* filler of an expansion line
       ELSE IF t = "amt" THEN x.n >= TextLen(t, v, o)                       \* digits uninterpreted: at least the value
       ELSE IF t = "opaque" THEN TRUE
       ELSE x.n = TextLen(t, v, o)                                          \* not truncated, nothing added
ShowsCol(ls, tb, o, c) ==
    \A k \in 1..Len(ls) :
        /\ ls[k].kind = "row" => CellShows(tb, c, ls[k].cells[c], ls[k].r, ls[k].j, o)
        /\ ls[k].kind = "space" => ls[k].cells[c].n = 0
ShowsOK(ls, tb, o) == \A c \in 1..Len(tb) : ShowsCol(ls, tb, o, c)
\* justification: integers to the right, everything else to the left (decimals carry their own alignment)
JustifyCol(ls, tb, c) ==
    \A k \in 1..Len(ls) : ls[k].kind = "row" =>
        LET x == ls[k].cells[c] v == tb[c].vals[ls[k].r]
        IN x.n > 0 => CASE tb[c].t = "int" -> x.rp = 0
                        [] tb[c].t \in {"str", "obj", "bool", "date", "set"} -> x.lp = 0
                        [] OTHER -> (IsNull(v) => x.lp = 0)
JustifyOK(ls, tb) == \A c \in 1..Len(tb) : JustifyCol(ls, tb, c)
\* decimals and amounts of a column are aligned on the decimal point
DotsCol(ls, tb, c) ==
    (tb[c].t \in {"dec", "amt", "inv"}) =>
        \A k1 \in 1..Len(ls), k2 \in 1..Len(ls) : (ls[k1].kind = "row" /\ ls[k2].kind = "row") =>
            LET x1 == ls[k1].cells[c] x2 == ls[k2].cells[c]
            IN (x1.dot >= 0 /\ x2.dot >= 0) => x1.dot = x2.dot
DotsOK(ls, tb) == \A c \in 1..Len(tb) : DotsCol(ls, tb, c)
\* a decimal cell HAS a dot offset, right after its integer digits (unless printed in E notation)
DotsShownCol(ls, tb, c) ==
    tb[c].t = "dec" =>
        \A k \in 1..Len(ls) : (ls[k].kind = "row" /\ ls[k].j = 1) =>
            LET v == tb[c].vals[ls[k].r]
            IN v.k = "dec" => ls[k].cells[c].dot = ls[k].cells[c].off + ls[k].cells[c].lp + v.s + v.i
DotsShownOK(ls, tb) == \A c \in 1..Len(tb) : DotsShownCol(ls, tb, c)

TextOK(ls, tb, ws, o) ==
    /\ RectOK(ls, ws, o) /\ OffsetsOK(ls, ws, o) /\ StyleOK(ls, o) /\ RulesOK(ls, ws) /\ HeaderOK(ls, tb, ws, o)
    /\ WidthFloorOK(tb, ws, o) /\ ShowsOK(ls, tb, o) /\ JustifyOK(ls, tb) /\ DotsOK(ls, tb) /\ DotsShownOK(ls, tb)

(* the width the documented rule gives a column of an exactly modelled type: fold Update over the non-NULL values,
   Prepare, then the rule *)
RECURSIVE FoldUpdate(_, _, _, _)
FoldUpdate(t, rs, vs, o) ==
    IF vs = <<>> THEN rs
    ELSE FoldUpdate(t, IF IsNull(Head(vs)) THEN rs ELSE Update(t, rs, Head(vs), o), Tail(vs), o)
Prepared(col, o) == Prepare(col.t, FoldUpdate(col.t, InitRS(col.t), col.vals, o), o)
RuleWidth(col, o) == WidthOf(col.hl, Prepared(col, o).mw, o)

-----------------------------------------------------------------------------
(* CSV (render_csv).  Mechanism: the same column renderers Update, Prepare, Format and the same row driver
   (NULL -> placeholder, expansion lines, and -- only if the context says so -- spacing rows) as the text renderer,
   but under the context render_csv makes for itself.  The caller's option record o is the FULL record (the
   application hands every setting to every format): only expand and the placeholder may matter.
   A record is [kind, r, j, fields]: fields = the visible length of every field (padding aside). *)
CsvOpt(o) == IF CsvCtx = "inherit" THEN o ELSE [o EXCEPT !.spaced = FALSE, !.sl = 1]
RECURSIVE CsvFrom(_, _, _, _)
CsvFrom(tb, rs, rr, co) ==
    IF rr > NRows(tb) THEN <<>>
    ELSE LET rc == RowCells(tb, rs, rr, co)
             nl == NLines(tb, rs, rr, co)
         IN [j \in 1..nl |-> [kind |-> "row", r |-> rr, j |-> j,
                              fields |-> [c \in 1..Len(tb) |-> IF j <= Len(rc[c]) THEN rc[c][j].n ELSE 0]]]
            \o (IF co.spaced THEN << [kind |-> "space", r |-> rr, j |-> 0, fields |-> [c \in 1..Len(tb) |-> 0]] >>
                ELSE <<>>)
            \o CsvFrom(tb, rs, rr + 1, co)
CsvRecs(tb, o) == CsvFrom(tb, [c \in 1..Len(tb) |-> Prepared(tb[c], CsvOpt(o))], 1, CsvOpt(o))

(* The property (C16, CSV half), declaratively: one record per (expanded) row -- WantLines, which knows nothing of
   spaced / boxed / unicode / narrow / the list separator --, each with exactly one field per column ... *)
RECURSIVE CsvWantKinds(_, _, _)
CsvWantKinds(tb, rr, o) ==
    IF rr > NRows(tb) THEN <<>>
    ELSE [j \in 1..WantLines(tb, rr, o) |-> <<rr, j>>] \o CsvWantKinds(tb, rr + 1, o)
CsvWant(tb, o) == CsvWantKinds(tb, 1, o)
CsvShapeOK(recs, tb, o) ==
    /\ [q \in 1..Len(recs) |-> <<recs[q].r, recs[q].j>>] = CsvWant(tb, o)
    /\ \A q \in 1..Len(recs) : recs[q].kind = "row" /\ Len(recs[q].fields) = Len(tb)
(* ... each field holding what the text renderer's cell of that row line shows, padding aside, list items joined by
   ONE character (the comma).  An inventory that is not expanded is a row of per-currency slots joined by the
   separator: its length follows the separator and is not compared. *)
RowLineIdx(ls) == SelectSeq([k \in 1..Len(ls) |-> k], LAMBDA k : ls[k].kind = "row")
CsvFieldsOK(recs, ls, tb, o) ==
    LET rows == RowLineIdx(ls)
    IN /\ Len(rows) = Len(recs)
       /\ \A q \in 1..Len(recs) : \A c \in 1..Len(tb) :
            LET v == tb[c].vals[recs[q].r]
            IN IF tb[c].t = "set" /\ ~IsNull(v) THEN recs[q].fields[c] = (IF recs[q].j = 1 THEN JoinLen(v.items, 1) ELSE 0)
               ELSE IF tb[c].t = "inv" /\ ~IsNull(v) /\ ~o.expand THEN TRUE
               ELSE recs[q].fields[c] = ls[rows[q]].cells[c].n

-----------------------------------------------------------------------------
(* Invariants of the mechanism (MC).  Lines only exist once the widths are fixed. *)
TypeOK == phase \in {"update", "head", "rows", "done"} /\ r \in 1..(NRows(tab) + 1)
ProtocolInv ==      \* Format is only ever called on a prepared renderer, for a value that was Update'd
    /\ (phase \in {"rows", "done"}) => \A c \in 1..Len(tab) : rst[c].prepared
    /\ (phase = "update") => lines = <<>>
\* (lines only grow: judging the finished rendering judges every prefix)
Finished == phase = "done"
RectInv == Finished => RectOK(lines, widths, opt)
OffsetsInv == Finished => OffsetsOK(lines, widths, opt)
StyleInv == Finished => (StyleOK(lines, opt) /\ RulesOK(lines, widths))
HeaderInv == Finished => (HeaderOK(lines, tab, widths, opt) /\ WidthFloorOK(tab, widths, opt))
ShowsInv == Finished => (ShowsOK(lines, tab, opt) /\ JustifyOK(lines, tab))
DotsInv == Finished => (DotsOK(lines, tab) /\ DotsShownOK(lines, tab))
\* expansion only when requested, every row present, spacing rows exactly when asked, frame lines when boxed
SkeletonInv ==
    /\ IsPrefix(Skeleton(lines), WantSkeleton(tab, opt))
    /\ phase = "done" => Skeleton(lines) = WantSkeleton(tab, opt)
\* the width is not larger than something demands (tightness of the documented rule)
TightInv ==
    phase \in {"head", "rows", "done"} =>
        \A c \in 1..Len(tab) : widths[c] = Max2(Max2(1, IF opt.narrow THEN 1 ELSE tab[c].hl), Max2(opt.nl, rst[c].mw))
\* CSV: whatever the text options, one record per (expanded) row, one field per column, the field = the text cell
CsvInv ==
    Finished => LET recs == CsvRecs(tab, opt)
                IN CsvShapeOK(recs, tab, opt) /\ CsvFieldsOK(recs, lines, tab, opt)
=============================================================================
