\* non-vacuity: the width rule forgets the NULL placeholder.  TLC must violate OffsetsInv (a placeholder overflows).
CONSTANTS
  Tables <- TTiny
  NullLens <- NL03
  SepLens <- SL2
  WidthRule = "ignore_null"
  ExpandRule = "atleast1"
  CsvCtx = "own"
INIT Init
NEXT Next
INVARIANTS OffsetsInv
CHECK_DEADLOCK FALSE
