\* non-vacuity: broken mechanism memo_on_class must be rejected
CONSTANTS
  Headers <- Empty
  Pool <- Empty
  MaxPostings = 0
  Shapes <- Empty
  DirPool <- Empty
  MaxDirs = 0
  PrintShapes <- Empty
  KnownStrings <- NoStrings
  KnownPats <- NoStrings
  Variant = "shipped"
  NConn = 2
  MaxSteps = 3
  Routes = {"typed"}
  Mech = "memo_on_class"
INIT SInit
NEXT SNext
INVARIANTS Independent
CHECK_DEADLOCK FALSE
