\* C20, quick tier: 3 threads, one assignment of three different jobs (two share a connection)
CONSTANTS
  Threads = {1, 2, 3}
  CompilerScope = "per execution"
  ColumnMemo = "none"
  ParserScope = "per call"
  ScanMemo = "none"
  OperandScope = "per call"
  SubqueryColumns = "per table object"
  ResultScope = "per execute call"
  JobSet = "fixed"
INIT InitFixed
NEXT Next
INVARIANTS TypeOK SerialInv OwnParameters OwnRow OwnStatement OwnOperands OwnNames OwnResults
PROPERTIES NonInterference NoSharedState JobConstant
CHECK_DEADLOCK FALSE
