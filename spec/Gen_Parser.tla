----------------------------- MODULE Gen_Parser -----------------------------
(* Case generator for the spec -> code replay of Parser: the state space of MC_Parser (spines in every slot, clause
   combinations) with the leaves re-drawn from pools of literal spellings, identifiers, strings and sub-SELECTs by
   a structural hash, printed in the three styles; plus literal forms, token sequences with one necessary pair of
   parentheses removed, comparison chains, and identifiers that begin with a keyword and an underscore.
   One JSON line per case: the token sequence and what Parse says about it. *)
EXTENDS MC_Parser, Json

CONSTANTS Salts,      \* set of integers: each salt re-draws every leaf
          GenFam,     \* which fixed families this configuration emits
          EmitMod     \* spines of depth >= 2: one state in EmitMod is emitted (1 = all)
VARIABLE salt
gvars == <<fam, e, d, q, salt>>

M == 100003
(* ---- pools ---- *)
IntPool == << INT(<<0>>), INT(<<7>>), INT(<<0, 0, 7>>), INT(<<4, 2>>), INT(<<1, 2, 3, 4, 5, 6, 7, 8, 9>>), INT(<<2, 0, 2, 0>>),
              INT(<<0, 0>>), INT(<<1, 0>>), INT(<<0, 1, 0>>) >>
DecPool == << DEC(<<1>>, <<>>), DEC(<<>>, <<5>>), DEC(<<1>>, <<5, 0>>), DEC(<<0, 0>>, <<5, 0>>), DEC(<<0>>, <<0>>),
              DEC(<<3>>, <<1, 4, 1, 5, 9>>), DEC(<<>>, <<0, 0, 1>>), DEC(<<1, 2, 0>>, <<>>), DEC(<<2, 0, 2, 0>>, <<1, 0>>) >>
DatePool == << DATE(2020, 1, 2), DATE(1999, 12, 31), DATE(2024, 2, 29), DATE(1, 1, 1), DATE(9999, 12, 31), DATE(2020, 10, 10) >>
StrIds == << "s0", "s1", "s2", "s3", "s4", "s5", "s6", "s7", "s8", "s9" >>
StrPool == [i \in 1..Len(StrIds) |-> STR(StrIds[i])]
NonNullPool == IntPool \o DecPool \o DatePool \o StrPool \o << KW("TRUE"), KW("FALSE") >>
LitPool == NonNullPool \o << ID("null"), ID("null") >>
\* identifiers: plain ones, ones that merely start like a reserved word (android, nullable, ...), underscores
IdPool == << "a", "b", "x1", "_u", "col_2", "payee", "zz9", "n_", "position", "android", "nullable", "opening",
             "selected", "trueish", "in1", "ast", "ordering", "closed", "e1", "betweenness", "s", "__" >>
FnPool == << "f", "sum", "count", "coalesce", "g_1", "nullif", "notes", "int" >>
Pick(pool, k) == pool[(k % Len(pool)) + 1]
Mix(k, c, pos) == (k * 31 + c * 7 + pos) % M
OpCode(op) ==
    CASE op = "not" -> 1 [] op = "neg" -> 2 [] op = "isnull" -> 3 [] op = "isnotnull" -> 4 [] op = "eq" -> 5 [] op = "ne" -> 6
      [] op = "gt" -> 7 [] op = "ge" -> 8 [] op = "lt" -> 9 [] op = "le" -> 10 [] op = "match" -> 11 [] op = "notmatch" -> 12
      [] op = "in" -> 13 [] op = "notin" -> 14 [] op = "add" -> 15 [] op = "sub" -> 16 [] op = "mul" -> 17 [] op = "div" -> 18
      [] op = "mod" -> 19
SubSelPool(k) ==
    << SelOf(Col(Pick(IdPool, k))),
       Select(FALSE, TRUE, <<>>, <<FTable("t")>>, <<>>, <<>>, <<>>, <<>>, <<>>),
       Select(TRUE, FALSE, <<Target(Col(Pick(IdPool, k + 1)), <<>>)>>, <<From(<<Col("t")>>, <<>>, <<>>, FALSE)>>,
              <<Bin("gt", Col("x"), Lit(Pick(IntPool, k)))>>, <<>>, <<>>, <<>>, <<>>),
       Select(FALSE, FALSE, <<Target(Call("sum", <<Col("x")>>), <<"total">>)>>, <<>>, <<>>,
              <<GroupBy(<<IdxTok(INT(<<1>>))>>, <<>>)>>, <<>>, <<>>, <<INT(<<1>>)>>) >>

(* ---- structural hash and re-drawing of the leaves ---- *)
RECURSIVE H(_)
HSeq(s) == LET F[i \in 0..Len(s)] == IF i = 0 THEN 17 ELSE (F[i - 1] * 31 + H(s[i])) % M IN F[Len(s)]
H(x) ==
    CASE x.k = "lit" -> 3 + Len(x.tok.d)
      [] x.k = "litlist" -> 5
      [] x.k = "col" -> 7
      [] x.k = "ph" -> 11
      [] x.k = "star" -> 13
      [] x.k = "un" -> (H(x.e) * 31 + OpCode(x.op)) % M
      [] x.k = "bin" -> (((H(x.l) * 31 + H(x.r)) % M) * 31 + OpCode(x.op)) % M
      [] x.k = "between" -> (((((H(x.e) * 31 + H(x.lo)) % M) * 31 + H(x.hi)) % M) * 31 + 23) % M
      [] x.k = "and" -> (HSeq(x.a) * 31 + 29) % M
      [] x.k = "or" -> (HSeq(x.a) * 31 + 37) % M
      [] x.k = "call" -> (HSeq(x.a) * 31 + 41) % M
      [] x.k = "attr" -> (H(x.e) * 31 + 43) % M
      [] x.k = "sub" -> (H(x.e) * 31 + 47) % M
      [] x.k = "select" -> 53
      [] OTHER -> 59

RECURSIVE Deco(_, _)
RECURSIVE DecoQ(_, _)
DecoSeq(s, k, c) == [i \in 1..Len(s) |-> Deco(s[i], Mix(k, c, i))]
Deco(x, k) ==
    CASE x.k = "lit" -> (IF x.tok.t = "int" THEN Lit(Pick(LitPool, k)) ELSE x)
      [] x.k = "litlist" -> LitList([i \in 1..(1 + (k % 3)) |-> Pick(NonNullPool, Mix(k, 3, i))])
      [] x.k = "col" -> (IF k % 11 = 0 THEN Ph(IF k % 2 = 0 THEN "" ELSE Pick(IdPool, k)) ELSE Col(Pick(IdPool, k)))
      [] x.k = "un" -> Un(x.op, Deco(x.e, Mix(k, OpCode(x.op), 1)))
      [] x.k = "bin" -> Bin(x.op, Deco(x.l, Mix(k, OpCode(x.op), 1)), Deco(x.r, Mix(k, OpCode(x.op), 2)))
      [] x.k = "between" -> Between(Deco(x.e, Mix(k, 23, 1)), Deco(x.lo, Mix(k, 23, 2)), Deco(x.hi, Mix(k, 23, 3)))
      [] x.k = "and" -> And(DecoSeq(x.a, k, 29))
      [] x.k = "or" -> Or(DecoSeq(x.a, k, 37))
      [] x.k = "call" -> (IF x.a = <<Star>> THEN x
                          ELSE IF k % 13 = 0 THEN Call(Pick(FnPool, k), <<Star>>)
                          ELSE IF k % 13 = 1 THEN Call(Pick(FnPool, k), <<>>)
                          ELSE Call(Pick(FnPool, k), DecoSeq(x.a, k, 41)))
      [] x.k = "attr" -> Attr(Deco(x.e, Mix(k, 43, 1)), Pick(IdPool, k))
      [] x.k = "sub" -> Sub(Deco(x.e, Mix(k, 47, 1)), Pick(StrIds, k))
      [] x.k = "select" -> SubSel(Pick(SubSelPool(k), k))
      [] x.k = "idxtok" -> IdxTok(Pick(IntPool, k))
      [] OTHER -> x
DecoOpt(o, k) == IF o = <<>> THEN <<>> ELSE <<Deco(o[1], k)>>
DecoFrom(f, k) ==
    CASE f.k = "table" -> FTable(Pick(<<"t", "postings", "", "Entries", "x_1">>, k))
      [] f.k = "subq" -> FSubq(Pick(SubSelPool(k), k))
      [] f.k = "from" -> From(DecoOpt(f.e, Mix(k, 61, 1)),
                              IF f.open = <<>> THEN <<>> ELSE <<Pick(DatePool, k).d>>,
                              IF f.close = <<>> \/ f.close = << <<>> >> THEN f.close ELSE <<Pick(DatePool, k + 1).d>>,
                              f.clear)
DecoFromOpt(o, k) == IF o = <<>> THEN <<>> ELSE <<DecoFrom(o[1], k)>>
DecoPiv(c, k) == IF c.k = "idxtok" THEN IdxTok(Pick(IntPool, k)) ELSE Col(Pick(IdPool, k))
DecoQ(s, k) ==
    CASE s.k = "select" ->
            Select(s.distinct, s.star,
                   [i \in 1..Len(s.targets) |-> Target(Deco(s.targets[i].e, Mix(k, 67, i)),
                                                       IF s.targets[i].as = <<>> THEN <<>> ELSE <<Pick(IdPool, k + i)>>)],
                   DecoFromOpt(s.from, Mix(k, 71, 1)), DecoOpt(s.where, Mix(k, 73, 1)),
                   IF s.group = <<>> THEN <<>>
                   ELSE <<GroupBy(DecoSeq(s.group[1].cols, k, 79), DecoOpt(s.group[1].having, Mix(k, 83, 1)))>>,
                   [i \in 1..Len(s.order) |-> OrderItem(Deco(s.order[i].c, Mix(k, 89, i)), s.order[i].desc)],
                   [i \in 1..Len(s.pivot) |-> DecoPiv(s.pivot[i], Mix(k, 97, i))],
                   IF s.limit = <<>> THEN <<>> ELSE <<Pick(IntPool, k)>>)
      [] s.k = "balances" -> Balances(IF s.fn = <<>> THEN <<>> ELSE <<Pick(<<"cost", "units", "value">>, k)>>,
                                      DecoFromOpt(s.from, Mix(k, 71, 1)), DecoOpt(s.where, Mix(k, 73, 1)))
      [] s.k = "journal" -> Journal(IF s.acct = <<>> THEN <<>> ELSE <<Pick(StrIds, k)>>,
                                    IF s.fn = <<>> THEN <<>> ELSE <<Pick(<<"cost", "units", "value">>, k)>>,
                                    DecoFromOpt(s.from, Mix(k, 71, 1)))
      [] s.k = "print" -> PrintStmt(DecoFromOpt(s.from, Mix(k, 71, 1)))

(* ---- emission ---- *)
Case(family, ts) ==
    LET p == Parse(ts) IN PrintT(ToJson([fam |-> family, tokens |-> ts, ok |-> p.ok, ast |-> p.ast]))
EmitStyles(family, s) ==
    LET tmin == PrintTokens(s, "min")
        tfull == PrintTokens(s, "full")
        tbare == PrintTokens(s, "bare")
    IN /\ Case(family, tmin)
       /\ Case(family, tfull)
       /\ (tbare # tmin => Case(family, tbare))
\* one necessary pair removed: the spec says what the shorter text means (another tree, or nothing)
EmitWithout(s) ==
    LET ts == PrintTokens(s, "min") IN
    \A i \in 1..Len(ts) : (IsOpen(ts[i]) /\ ts[i].d = <<1>>) => Case("without", Without(ts, i, Match(ts, i)))

CtxList(ex) ==
    << SelOf(ex),
       Select(FALSE, FALSE, <<Target(ex, <<"n">>), Target(X, <<>>)>>, <<>>, <<>>, <<>>, <<>>, <<>>, <<>>),
       Select(TRUE, FALSE, <<Target(X, <<>>), Target(ex, <<>>)>>, <<>>, <<>>, <<>>, <<>>, <<>>, <<>>),
       SelWith(<<>>, <<ex>>, <<>>, <<>>),
       SelWith(<<From(<<ex>>, <<>>, <<>>, FALSE)>>, <<>>, <<>>, <<>>),
       SelWith(<<From(<<ex>>, <<D1>>, << <<>> >>, TRUE)>>, <<X>>, <<>>, <<>>),
       SelWith(<<>>, <<>>, <<GroupBy(<<ex>>, <<>>)>>, <<>>),
       SelWith(<<>>, <<>>, <<GroupBy(<<X, ex>>, <<ex>>)>>, <<>>),
       SelWith(<<>>, <<>>, <<>>, <<OrderItem(ex, FALSE)>>),
       SelWith(<<>>, <<>>, <<>>, <<OrderItem(ex, TRUE), OrderItem(ex, FALSE)>>),
       Balances(<<>>, <<From(<<ex>>, <<>>, <<>>, FALSE)>>, <<>>),
       Balances(<<"cost">>, <<From(<<ex>>, <<>>, <<D2>>, FALSE)>>, <<ex>>),
       Journal(<<"s1">>, <<>>, <<From(<<ex>>, <<>>, <<>>, TRUE)>>),
       PrintStmt(<<From(<<ex>>, <<>>, <<>>, FALSE)>>),
       SelOf(ex), SelOf(ex), SelWith(<<>>, <<ex>>, <<>>, <<>>) >>

EmitSpine ==
    LET k == (H(e) * 13 + salt * 977 + d) % M
        ex == Deco(e, k)
        s == DecoQ(Pick(CtxList(ex), k), Mix(k, 101, 1))
    IN IF WFQ(s) /\ (d < 2 \/ k % EmitMod = 0) THEN EmitStyles("spine", s) /\ (k % 4 = 0 => EmitWithout(s)) ELSE TRUE
THash(ts) == LET F[i \in 0..Len(ts)] == IF i = 0 THEN 7 ELSE (F[i - 1] * 31 + Len(ts[i].d) * 7 + Len(ts[i].s)) % M IN F[Len(ts)]
EmitStmt ==
    LET k == (salt * 977 + THash(PrintTokens(q, "full"))) % M
        s == DecoQ(q, k)
    IN IF WFQ(s) THEN EmitStyles("stmt", s) /\ (k % 4 = 0 => EmitWithout(s)) ELSE TRUE
Emit == (fam = "spine" => EmitSpine) /\ (fam = "stmt" => EmitStmt)

GInitSpine == InitSpine /\ salt \in Salts
GNextSpine == NextSpine /\ UNCHANGED salt
GInitStmt == InitStmt /\ salt \in Salts
GNextStmt == NextStmt /\ UNCHANGED salt

(* ---- fixed families: emitted from the single state of a one-state configuration ---- *)
SelToks(ts) == <<KW("SELECT")>> \o ts
LitCases ==
    { SelToks(<<lt>>) : lt \in {LitPool[i] : i \in 1..Len(LitPool)} }
    \cup { SelToks(<<P("-"), lt>>) : lt \in {LitPool[i] : i \in 1..Len(LitPool)} }
    \cup { SelToks(<<lt, P("."), ID("x")>>) : lt \in {LitPool[i] : i \in 1..Len(LitPool)} }
    \cup { SelToks(<<ID("a"), KW("IN"), P("("), l1, P(","), l2, P(")")>>) :
             l1 \in {NonNullPool[i] : i \in 1..Len(NonNullPool)}, l2 \in {NonNullPool[i] : i \in 1..Len(NonNullPool)} }
    \cup { SelToks(<<P("("), lt, P(","), P(")")>>) : lt \in {NonNullPool[i] : i \in 1..Len(NonNullPool)} }
    \cup { SelToks(<<ID("a"), KW("GROUP"), KW("BY"), lt, KW("LIMIT"), l2>>) :
             lt \in {IntPool[i] : i \in 1..Len(IntPool)}, l2 \in {IntPool[i] : i \in 1..Len(IntPool)} }
    \cup { SelToks(<<ID("a"), KW("ORDER"), KW("BY"), P("("), lt, P(")"), KW("DESC"), KW("PIVOT"), KW("BY"), l2, P(","), ID("b")>>) :
             lt \in {LitPool[i] : i \in 1..Len(LitPool)}, l2 \in {IntPool[i] : i \in 1..Len(IntPool)} }
    \cup { SelToks(<<ID("a"), KW("FROM"), ID("b"), ID("open"), ID("on"), d1, ID("close"), ID("on"), d2>>) :
             d1 \in {DatePool[i] : i \in 1..Len(DatePool)}, d2 \in {DatePool[i] : i \in 1..Len(DatePool)} }
    \cup { SelToks(<<ID(Pick(IdPool, i)), P("["), STR(StrIds[j]), P("]"), KW("AS"), ID(Pick(IdPool, i + j))>>) :
             i \in 1..Len(IdPool), j \in 1..Len(StrIds) }
    \cup { <<KW("JOURNAL"), STR(StrIds[j])>> : j \in 1..Len(StrIds) }
ChainCases ==
    { SelToks(<<A>> \o t1 \o t2) : t1 \in CmpTails, t2 \in CmpTails }
    \cup { SelToks(<<P("("), A>> \o t1 \o <<P(")")>> \o t2) : t1 \in CmpTails, t2 \in CmpTails }
    \cup { SelToks(<<KW("NOT"), A>> \o t1 \o <<KW("AND"), KW("NOT"), ID("b")>> \o t2) : t1 \in CmpTails, t2 \in CmpTails }
CornerCases ==
    { SelToks(<<P("*"), P(","), A>>), SelToks(<<A, P(","), P("*")>>), SelToks(<<KW("DISTINCT"), P("*")>>),
      SelToks(<<A, KW("FROM"), ID("open")>>), SelToks(<<A, KW("FROM"), ID("close"), P(">"), INT(<<1>>)>>),
      SelToks(<<A, KW("FROM"), ID("close")>>), SelToks(<<A, KW("FROM"), ID("clear")>>), SelToks(<<A, KW("FROM"), ID("on")>>),
      SelToks(<<A, KW("FROM"), ID("at"), ID("close"), ID("clear")>>),
      SelToks(<<A, KW("FROM"), ID("b"), ID("close"), ID("on"), DATE(2020, 1, 2), ID("open"), ID("on"), DATE(2020, 1, 2)>>),
      SelToks(<<A, KW("IN"), KW("SELECT"), INT(<<1>>)>>), SelToks(<<A, KW("FROM"), KW("SELECT"), INT(<<1>>)>>),
      SelToks(<<ID("f"), P("("), P(","), A, P(")")>>), SelToks(<<ID("f"), P("("), A, P(","), P(","), A, P(")")>>),
      SelToks(<<ID("f"), P("("), P(")")>>), SelToks(<<ID("f"), P("("), P("*"), P(")")>>),
      SelToks(<<ID("f"), P("("), P("*"), P(","), A, P(")")>>),
      SelToks(<<P("("), INT(<<1>>), P(","), P(","), INT(<<2>>), P(")")>>), SelToks(<<P("("), INT(<<1>>), P(","), A, P(")")>>),
      SelToks(<<P("("), INT(<<1>>), P(")")>>), SelToks(<<P("("), P("("), INT(<<1>>), P(","), INT(<<2>>), P(")"), P(")")>>),
      SelToks(<<P("+"), A>>), SelToks(<<P("+"), A, P("."), ID("b")>>), SelToks(<<P("+"), P("("), A, P(")")>>),
      SelToks(<<P("-"), P("-"), A>>), SelToks(<<A, P("-"), P("-"), INT(<<1>>)>>), SelToks(<<A, P("+"), P("+"), INT(<<1>>)>>),
      SelToks(<<P("("), A, P(")"), P("."), ID("b")>>), SelToks(<<A, P("."), ID("b"), P("."), ID("c")>>),
      SelToks(<<ID("null"), P("("), INT(<<1>>), P(")")>>), SelToks(<<A, KW("AS"), ID("null")>>),
      SelToks(<<ID("between")>>), SelToks(<<ID("at"), P(","), ID("on"), P(","), ID("open")>>),
      SelToks(<<A, ID("between"), ID("between"), KW("AND"), ID("between")>>),
      SelToks(<<A, P("="), KW("NOT"), ID("b")>>), SelToks(<<KW("NOT"), A, P("="), ID("b")>>),
      SelToks(<<A, KW("AS"), ID("x"), KW("AS"), ID("y")>>), SelToks(<<A, KW("ORDER"), KW("BY"), A, KW("ASC"), KW("DESC")>>),
      SelToks(<<A, KW("GROUP"), KW("BY"), INT(<<1>>), P("+"), ID("x")>>),
      SelToks(<<A, KW("GROUP"), KW("BY"), A, KW("ORDER"), KW("BY"), A, KW("HAVING"), A>>),
      SelToks(<<A, KW("HAVING"), A>>), SelToks(<<A, KW("LIMIT"), INT(<<1>>), KW("LIMIT"), INT(<<1>>)>>),
      SelToks(<<A, KW("WHERE"), A, KW("FROM"), A>>), SelToks(<<A, KW("PIVOT"), KW("BY"), A>>),
      SelToks(<<A, KW("FROM"), TABLE("t"), KW("WHERE"), A>>), SelToks(<<A, KW("FROM"), TABLE("t"), ID("clear")>>),
      SelToks(<<A, KW("FROM"), P("("), KW("SELECT"), INT(<<1>>), P(")"), P("+"), INT(<<1>>)>>),
      SelToks(<<P("%s"), P(","), P("%("), ID("n"), P(")s")>>),
      <<KW("BALANCES"), KW("FROM"), TABLE("t")>>, <<KW("BALANCES"), KW("FROM"), P("("), KW("SELECT"), INT(<<1>>), P(")")>>,
      <<KW("JOURNAL"), ID("at")>>, <<KW("JOURNAL"), ID("at"), ID("at")>>, <<KW("PRINT")>>, <<KW("PRINT"), KW("FROM")>>,
      <<KW("BALANCES"), KW("WHERE"), A, KW("FROM"), A>>, <<KW("SELECT")>>, <<>>, <<A>>,
      <<KW("PRINT"), KW("FROM"), A, KW("WHERE"), A>>, <<KW("JOURNAL"), STR("s1"), STR("s1")>> }
\* every reserved word where an identifier is expected (never an identifier)
KeywordCases ==
    UNION { { SelToks(<<KW(w)>>), SelToks(<<A, KW("AS"), KW(w)>>), SelToks(<<A, P("."), KW(w)>>),
              SelToks(<<KW(w), P("("), A, P(")")>>), <<KW("BALANCES"), ID("at"), KW(w)>> } : w \in Keywords }
\* identifiers that begin with a word of the grammar and an underscore
KwPrefixIds == << "not_x", "select_1", "true_x", "false_y", "null_count", "open_date", "close_d", "clear_z",
                  "and_b", "in_b", "or_c", "as_of", "from_d", "desc_r", "on_x", "at_y", "between_z", "is_it" >>
KwPrefixCases ==
    UNION { { SelToks(<<ID(KwPrefixIds[i])>>), SelToks(<<ID(KwPrefixIds[i]), P("+"), INT(<<1>>)>>),
              SelToks(<<A, KW("FROM"), ID(KwPrefixIds[i]), P(">"), INT(<<1>>)>>),
              SelToks(<<A, KW("AS"), ID(KwPrefixIds[i])>>),
              SelToks(<<A, ID(KwPrefixIds[i])>>),
              SelToks(<<A, KW("ORDER"), KW("BY"), A, ID(KwPrefixIds[i])>>) } : i \in 1..Len(KwPrefixIds) }
\* the whole parent x child x position matrix (all operators, two levels) as a bare target, minimal parentheses
MatrixTrees ==
    UNION { { w2 \in Wraps(w1, AllBin, {Col("c")}) : WFE(w2) } : w1 \in { w \in Wraps(Col("a"), AllBin, {Col("b")}) : WFE(w) } }
EmitFixed ==
    /\ salt = salt
    /\ ("matrix" \in GenFam => \A w \in MatrixTrees : Case("matrix", PrintTokens(SelOf(w), "min")))
    /\ ("lit" \in GenFam => \A ts \in LitCases : Case("lit", ts))
    /\ ("chain" \in GenFam => \A ts \in ChainCases : Case("chain", ts))
    /\ ("corner" \in GenFam => \A ts \in CornerCases \cup KeywordCases : Case("corner", ts))
    /\ ("kwprefix" \in GenFam => \A ts \in KwPrefixCases : Case("kwprefix", ts))
FInit == fam = "fixed" /\ e = X /\ d = 0 /\ q = Q0 /\ salt = 0
FNext == FALSE /\ UNCHANGED gvars
=============================================================================
