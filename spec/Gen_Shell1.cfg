\* every single command line of the full alphabet on a default shell
CONSTANTS
  Lines <- LinesExtra
  LedgerQueries <- QFixed
  BadStmts <- BadFixed
  Formats <- FormatsShipped
  NonFieldAttrs <- AttrNames
  NameLookup = "fields"
  HonourQuiet = TRUE
  MainQuery = "BALANCES"
  LedgerHasErrors = TRUE
  Depth = 1
  Boots <- BootsAll
INIT GInit
NEXT GNext
INVARIANT Emit
CHECK_DEADLOCK FALSE
