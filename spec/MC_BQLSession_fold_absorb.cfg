\* non-vacuity of the folding law: deciding an AND by a constant FALSE operand wherever it stands (NULL AND FALSE -> FALSE)
\* must be rejected
CONSTANTS
  Stmts <- Stmts1
  StmtParams <- Params1
  ManyPairs <- Pairs0
  Data <- DataA
  NumberMode = "conforming"
  MaxCalls = 0
INIT Init
NEXT Next
INVARIANTS FoldLawAbsorb
CHECK_DEADLOCK FALSE
