------------------------------- MODULE Isolate -------------------------------
(***************************************************************************)
(* C20 beyond the running balance: the WHOLE execution of a statement --    *)
(* compilation followed by the table scan -- run by N threads over shared   *)
(* or separate connections, with plain (row-local) columns and parameters.  *)
(*                                                                          *)
(* Code anchors: beanquery/cursor.py Cursor.execute (compile, then execute),*)
(* beanquery/compiler.py compile() / Compiler (per-statement scratch state: *)
(* `parameters`, `table`), Compiler._select (FROM, targets, WHERE in this   *)
(* order; the table is put back at the end), _compile_targets (wildcard),   *)
(* _column (name resolved against the selected table), _placeholder         *)
(* (value read from the parameters), _function (constant folding: a pure    *)
(* function of constants is CALLED during compilation),                     *)
(* beanquery/query_env.py EntriesTable / PostingsTable.__iter__ (one row    *)
(* context per scan, rowid counts the rows of THIS scan) and the column     *)
(* accessors (singletons shared by every scan of every connection),         *)
(* query_execute.execute_select (per row: conjuncts left to right, then the *)
(* targets left to right).                                                  *)
(*                                                                          *)
(* A connection holds a ledger: a sequence of directives [u, posts]; u is   *)
(* the identity of the directive, posts the identities of its postings.     *)
(* Two tables: "e" one row per directive <<u, u, u>>, "p" one row per       *)
(* posting <<v, u, v>>.  Column 1 is the key the WHERE clause tests, column *)
(* 2 stands for every column that shows the directive (id, date, narration, *)
(* ...), column 3 for every column that shows the row's own item.           *)
(*                                                                          *)
(* A thread executes one job J (constant along a behaviour):                *)
(*   conn, ledger   the connection and what it holds (same conn => same     *)
(*                  ledger)                                                 *)
(*   tab            "e" | "p" | "x": a typed table -- one row <<u, u, u>>   *)
(*                  per directive of type `ty' (#transactions, #prices,     *)
(*                  #events, ...: beanquery/sources/beancount.py Table);    *)
(*                  a directive is [u, posts, ty], only type 0 has postings *)
(*   parse          0: the statement is submitted as a syntax tree; k > 0:  *)
(*                  as TEXT, and the execution can be descheduled at k      *)
(*                  places inside the parser (beanquery/parser parse():     *)
(*                  one parser, one tokenizer + position per call)          *)
(*   star           SELECT * (the targets are the table's wildcard columns) *)
(*   targets        atoms  col i | rp (run-time pause point) | cp (pause    *)
(*                  point inside COMPILATION: a folded function call)       *)
(*   where          atoms  lo (key >= <lo>) | hi (key <= <hi>) | rp | cp    *)
(*   lo, hi, lit    the two values; lit: written as literals, otherwise     *)
(*                  passed as query parameters                              *)
(*                  fn (a FUNCTION CALL op(col a, col b): the operands are   *)
(*                  evaluated one after the other -- the thread can be      *)
(*                  descheduled between them -- then the function is applied*)
(*                  to the evaluated operands; op "add" a + b | "first" a)   *)
(*                  flo / fhi: the same tests as lo / hi written as a        *)
(*                  function call cmp(<lo>, key) <= 0 / cmp(<hi>, key) >= 0: *)
(*                  the value (a parameter) is the FIRST operand, the key    *)
(*                  column the second, the thread can be descheduled between *)
(*   sub            <<>>, or the statement selects FROM A SUBQUERY:          *)
(*                  FROM (SELECT col sub[1] AS n<sub[1]>, ... FROM tab); the *)
(*                  outer atoms `col c' then mean the NAME n<c>, which the   *)
(*                  compiler resolves against the columns of the subquery's  *)
(*                  table object (name -> position in the subquery's rows)   *)
(*   via            how the statement is handed to the connection:          *)
(*                  "cursor"  cur = conn.cursor(); cur.execute(..) -- the    *)
(*                  thread made the cursor itself; "conn"  the shortcut      *)
(*                  cur = conn.execute(..) of the connection, which returns  *)
(*                  the cursor holding the results                           *)
(*   fetch          <<>>: the results are taken as soon as execute() returns;*)
(*                  otherwise the DELIVERY of the results in steps, the      *)
(*                  thread descheduled after execute() has returned and      *)
(*                  between the steps: one step reads the description and    *)
(*                  fetches n rows (fetchone / fetchmany(n); 0: fetchall)    *)
(*   wpause         the execution can be descheduled when the compiler      *)
(*                  asks the table for its wildcard columns                 *)
(*   ppause         ... after every lookup in the parameters container      *)
(*                                                                          *)
(* CompilerScope "per execution"   property-conforming: what the code does  *)
(*                                 (Compiler(context) per compile() call)   *)
(*               "per connection"  one compiler kept on the connection: its *)
(*                                 scratch state is shared by the threads   *)
(*                                 that share the connection (non-vacuity)  *)
(* ColumnMemo    "none"            conforming                               *)
(*               "process-wide, keyed by rowid"  a column accessor keeps    *)
(*                                 the value of `the current row' in one    *)
(*                                 slot keyed by the rowid (non-vacuity)    *)
(* ParserScope   "per call"        conforming: parse() builds its parser    *)
(*               "process-wide"    one parser object (text + position) used *)
(*                                 by every parse() call (non-vacuity)      *)
(* ScanMemo      "none"            conforming: every scan of a typed table  *)
(*                                 filters the ledger itself                *)
(*               "rows published while the first scan fills them"  the      *)
(*                                 table object keeps the rows of its type; *)
(*                                 the list is filled by the first scan as  *)
(*                                 it advances and read by every later scan *)
(*                                 (non-vacuity)                            *)
(* OperandScope  "per call"        conforming: every call evaluates its       *)
(*                                 operands into a list of its own           *)
(*               "process-wide, per function"  one list per function, filled*)
(*                                 in place by every call of that function   *)
(*                                 (non-vacuity)                             *)
(* SubqueryColumns "per table object"  conforming: the table object built   *)
(*                                 for a FROM-subquery has its own name ->   *)
(*                                 position map                              *)
(*               "process-wide"    one map shared by all of them (non-vacuity)*)
(* ResultScope   "per execute call"  conforming: every execute() handed to   *)
(*                                 the connection gets a cursor of its own,  *)
(*                                 which holds description, rows, position   *)
(*               "per connection"  the connection keeps ONE cursor behind    *)
(*                                 its execute() shortcut: the results of    *)
(*                                 every statement executed through the      *)
(*                                 connection live there (non-vacuity)       *)
(***************************************************************************)
EXTENDS Integers, Sequences, FiniteSets, TLC

CONSTANTS Threads, CompilerScope, ColumnMemo, ParserScope, ScanMemo, OperandScope, SubqueryColumns, ResultScope

PerExec == "per execution"
PerConn == "per connection"
NoMemo == "none"
ByRowid == "process-wide, keyed by rowid"
PerCall == "per call"
OneParser == "process-wide"
NoScanMemo == "none"
LazyRows == "rows published while the first scan fills them"
OpsPerCall == "per call"
OpsPerFunction == "process-wide, per function"
ColsPerTable == "per table object"
ColsShared == "process-wide"
ResPerCall == "per execute call"
ResPerConn == "per connection"

VARIABLES
    job,        \* [Threads -> job]
    exe,        \* [Threads -> [rows, plan, tg]]  derived from the job once: the rows its scan enumerates, the steps of
                \*    its compilation, the targets evaluated per row
    scratch,    \* [Threads -> [table, lo, hi]]  compiler scratch state; the entry a thread uses is Key(t)
    bound,      \* [Threads -> [lo, hi]]  the constants compiled into the thread's statement
    ctx,        \* [Threads -> [rowid, src]]  row context of the thread's scan; src: "own" the scan walks the ledger
                \*    itself | "memo" it walks the rows kept on the table object (ScanMemo = LazyRows only)
    pc,         \* [Threads -> [ph, i]]  ph: compile | next | where | target | emit | done
    cur,        \* [Threads -> Seq(Int)]  column values of the current row
    out,        \* [Threads -> Seq(Seq(Int))]  rows emitted so far
    memo,       \* [1..NCols -> [rowid, val]]  the process-wide slot of every column accessor
    parser,     \* [Threads -> [owner, pos]]  parser state: whose text is being read, tokens read; the entry a thread uses is PKey(t)
    got,        \* [Threads -> Seq(<<owner, n>>)]  the tokens the thread's parse() call has read
    tmemo,      \* [Threads -> [open, n]]  rows kept on a typed table's object (entry TKey(t)); written only when ScanMemo = LazyRows
    opnd,       \* [Threads \cup {0} -> [Ops -> <<Int, Int>>]]  the evaluated operands of a function call; the entry a call uses is OKey(t)
    names,      \* [Threads \cup {0} -> [1..NCols -> 0..NCols]]  columns of a FROM-subquery's table: name -> position (0: no such
                \*    name); the entry a statement uses is NKey(t)
    slot,       \* [Threads -> [1..NCols -> 0..NCols]]  what the names of the thread's statement were resolved to (0: not yet)
    store,      \* [Threads -> [owner, rows, pos]]  the results a cursor holds: whose statement, its rows, how many have been
                \*    fetched; the entry (cursor) a thread's execute() writes and its fetches read is SKey(t)
    recv        \* [Threads -> [desc, rows]]  what the thread has RECEIVED: the description read at every delivery step, the rows fetched

aux == <<parser, got, tmemo>>
xaux == <<opnd, names, slot, store, recv>>
vars == <<job, exe, scratch, bound, ctx, pc, cur, out, memo, parser, got, tmemo, opnd, names, slot, store, recv>>

NCols == 3
Ops == {"add", "first", "cmp"}
At(k, i) == [k |-> k, i |-> i]
Fn(op, a, b) == [k |-> "fn", i |-> 0, op |-> op, a |-> a, b |-> b]
PcS(ph, i, s) == [ph |-> ph, i |-> i, s |-> s]      \* s: the step inside the evaluation of a function call (0..3)
Pc(ph, i) == PcS(ph, i, 0)
ErrRow == <<-1>>            \* the statement failed (only a broken mechanism gets there)
ErrVal == -9                \* an accessor reads past the end of the row (only a broken mechanism gets there)
Job0 == [conn |-> 0, ledger |-> <<>>, tab |-> "e", star |-> FALSE, targets |-> <<>>, where |-> <<>>, lo |-> 0, hi |-> 0,
         lit |-> TRUE, wpause |-> FALSE, ppause |-> FALSE, ty |-> 0, parse |-> 0, sub |-> <<>>, via |-> "cursor", fetch |-> <<>>]
(* the table a compiler has selected: a table of the connection, or the table object of a FROM-subquery over it *)
TableOf(J) == [tab |-> J.tab, sub |-> J.sub]
BaseOf(J) == [tab |-> J.tab, sub |-> <<>>]
DefaultTable == [tab |-> "d", sub |-> <<>>]
HasSub(J) == Len(J.sub) > 0
PosIn(s, c) == IF \E n \in 1..Len(s) : s[n] = c THEN CHOOSE n \in 1..Len(s) : s[n] = c ELSE 0
FnVal(op, x, y) == CASE op = "add" -> x + y [] op = "first" -> x [] OTHER -> x - y

-----------------------------------------------------------------------------
(* the tables of a ledger *)
RECURSIVE PostRows(_, _)
PostRows(ledger, d) ==
    IF d > Len(ledger) THEN <<>>
    ELSE [j \in 1..Len(ledger[d].posts) |-> <<ledger[d].posts[j], ledger[d].u, ledger[d].posts[j]>>] \o PostRows(ledger, d + 1)
DirRows(ds) == [d \in 1..Len(ds) |-> <<ds[d].u, ds[d].u, ds[d].u>>]
TableRows(ledger, tab, ty) ==
    CASE tab = "e" -> DirRows(ledger)
      [] tab = "x" -> DirRows(SelectSeq(ledger, LAMBDA d : d.ty = ty))
      [] OTHER -> PostRows(ledger, 1)

(* the steps of the compilation, in the order the compiler takes them:
   B begin (parameters stored, default table selected)   F the FROM clause selects the table
   W wildcard columns asked from the selected table        C i  column i resolved against the selected table
   L / H a parameter value read                            P pause point      Q the query is built on the selected table
   for a FROM-subquery, after F (which selects the table of the INNER statement):
   I i  inner target i resolved against the selected table  G the subquery is built, its table object made (name ->
                                                              position registered) and selected for the outer statement
   before them, when the statement is submitted as text, the steps of the parser:
   S a parser takes the text (position 0)    T the next token is read    E the syntax tree is complete *)
RECURSIVE Flat(_)
Flat(ss) == IF ss = <<>> THEN <<>> ELSE Head(ss) \o Flat(Tail(ss))
ParamPause(J) == IF J.ppause /\ ~J.lit THEN <<At("P", 0)>> ELSE <<>>
AtomPlan(J, a) ==
    CASE a.k = "col" -> <<At("C", a.i)>>
      [] a.k = "fn" -> <<At("C", a.a), At("C", a.b)>>
      [] a.k = "cp" -> <<At("P", 0)>>
      [] a.k = "lo" -> <<At("C", 1), At("L", 0)>> \o ParamPause(J)
      [] a.k = "hi" -> <<At("C", 1), At("H", 0)>> \o ParamPause(J)
      [] a.k = "flo" -> <<At("L", 0)>> \o ParamPause(J) \o <<At("C", 1)>>
      [] a.k = "fhi" -> <<At("H", 0)>> \o ParamPause(J) \o <<At("C", 1)>>
      [] OTHER -> <<>>
(* SELECT * : the wildcard columns of the table -- of a FROM-subquery: its targets, in its order *)
RunTargets(J) ==
    IF J.star THEN (IF HasSub(J) THEN [n \in 1..Len(J.sub) |-> At("col", J.sub[n])] ELSE [c \in 1..NCols |-> At("col", c)])
    ELSE J.targets
SubPlan(J) == IF HasSub(J) THEN [n \in 1..Len(J.sub) |-> At("I", J.sub[n])] \o <<At("G", 0)>> ELSE <<>>
ParsePlan(J) ==
    IF J.parse = 0 THEN <<>>
    ELSE <<At("S", 0)>> \o Flat([i \in 1..J.parse |-> <<At("T", 0), At("P", 0)>>]) \o <<At("T", 0), At("E", 0)>>
Plan(J) ==
    ParsePlan(J) \o <<At("B", 0), At("F", 0)>> \o SubPlan(J)
    \o (IF J.star THEN <<At("W", 0)>> \o (IF J.wpause THEN <<At("P", 0)>> ELSE <<>>) ELSE <<>>)
    \o Flat([i \in 1..Len(RunTargets(J)) |-> AtomPlan(J, RunTargets(J)[i])])
    \o Flat([i \in 1..Len(J.where) |-> AtomPlan(J, J.where[i])])
    \o <<At("Q", 0)>>
Exe(J) == [rows |-> TableRows(J.ledger, J.tab, J.ty), plan |-> Plan(J), tg |-> RunTargets(J)]

Scratch0 == [table |-> DefaultTable, lo |-> 0, hi |-> 0]
Ctx0 == [rowid |-> 0, src |-> "own"]
Parser0 == [owner |-> 0, pos |-> 0]
TMemo0 == [open |-> FALSE, n |-> 0]
Opnd0 == [o \in Ops |-> <<0, 0>>]
NoNames == [c \in 1..NCols |-> 0]
Store0 == [owner |-> 0, rows |-> <<>>, pos |-> 0]
Recv0 == [desc |-> <<>>, rows |-> <<>>]
InitWith(jobs) ==
    /\ job = jobs
    /\ exe = [t \in Threads |-> Exe(jobs[t])]
    /\ scratch = [t \in Threads |-> Scratch0]
    /\ bound = [t \in Threads |-> [lo |-> 0, hi |-> 0]]
    /\ ctx = [t \in Threads |-> Ctx0]
    /\ pc = [t \in Threads |-> IF jobs[t] = Job0 THEN Pc("done", 0) ELSE Pc("compile", 1)]     \* Job0: the thread is not used
    /\ cur = [t \in Threads |-> <<>>]
    /\ out = [t \in Threads |-> <<>>]
    /\ memo = [c \in 1..NCols |-> [rowid |-> 0, val |-> 0]]
    /\ parser = [t \in Threads |-> Parser0]
    /\ got = [t \in Threads |-> <<>>]
    /\ tmemo = [t \in Threads |-> TMemo0]
    /\ opnd = [k \in Threads \cup {0} |-> Opnd0]
    /\ names = [k \in Threads \cup {0} |-> NoNames]
    /\ slot = [t \in Threads |-> NoNames]
    /\ store = [t \in Threads |-> Store0]
    /\ recv = [t \in Threads |-> Recv0]

(* the compiler (scratch state) an execution uses *)
Key(t) ==
    IF CompilerScope = PerExec THEN t
    ELSE CHOOSE u \in Threads : job[u].conn = job[t].conn /\ \A w \in Threads : job[w].conn = job[t].conn => u <= w

(* the parser a parse() call uses; the table object a scan of a typed table walks *)
Least(S) == CHOOSE u \in S : \A w \in S : u <= w
PKey(t) == IF ParserScope = PerCall THEN t ELSE Least(Threads)
TKey(t) == Least({u \in Threads : job[u].conn = job[t].conn /\ job[u].tab = job[t].tab /\ job[u].ty = job[t].ty})
(* the list a function call evaluates its operands into; the name -> position map of a FROM-subquery's table object *)
OKey(t) == IF OperandScope = OpsPerCall THEN t ELSE 0
NKey(t) == IF SubqueryColumns = ColsPerTable THEN t ELSE 0
(* the cursor that holds the results of an execution: the thread's own (it made the cursor, or the connection made one
   for this execute() call); under ResultScope = ResPerConn the one cursor the connection keeps for its shortcut *)
SKey(t) ==
    IF ResultScope = ResPerConn /\ job[t].via = "conn"
    THEN Least({u \in Threads : job[u].conn = job[t].conn /\ job[u].via = "conn"})
    ELSE t

-----------------------------------------------------------------------------
(* compilation *)
Compiling(t, ks) == pc[t].ph = "compile" /\ exe[t].plan[pc[t].i].k \in ks
CAtom(t) == exe[t].plan[pc[t].i]
Go(t) == pc' = [pc EXCEPT ![t] = IF pc[t].i = Len(exe[t].plan) THEN Pc("next", 0) ELSE Pc("compile", pc[t].i + 1)]
Fail(t) == pc' = [pc EXCEPT ![t] = Pc("done", 0)] /\ out' = [out EXCEPT ![t] = <<ErrRow>>]

(* the parser: parse() hands the text to a parser (position 0), the parser reads it token by token -- from whatever
   text it holds now, at whatever position it has now; the syntax tree is the statement's only if every token read
   was the next token of the statement's own text *)
OwnTokens(t, s) == \A i \in 1..Len(s) : s[i] = <<t, i>>
ParseStart(t) ==
    /\ Compiling(t, {"S"})
    /\ parser' = [parser EXCEPT ![PKey(t)] = [owner |-> t, pos |-> 0]]
    /\ got' = [got EXCEPT ![t] = <<>>]
    /\ Go(t)
    /\ UNCHANGED <<job, exe, scratch, bound, ctx, cur, out, memo, tmemo, xaux>>
Token(t) ==
    /\ Compiling(t, {"T"})
    /\ LET p == parser[PKey(t)] IN
         /\ got' = [got EXCEPT ![t] = Append(@, <<p.owner, p.pos + 1>>)]
         /\ parser' = [parser EXCEPT ![PKey(t)].pos = p.pos + 1]
    /\ Go(t)
    /\ UNCHANGED <<job, exe, scratch, bound, ctx, cur, out, memo, tmemo, xaux>>
ParseEnd(t) ==
    /\ Compiling(t, {"E"})
    /\ IF OwnTokens(t, got[t]) THEN Go(t) /\ UNCHANGED out ELSE Fail(t)
    /\ UNCHANGED <<job, exe, scratch, bound, ctx, cur, memo, aux, xaux>>

Begin(t) ==
    /\ Compiling(t, {"B"})
    /\ scratch' = [scratch EXCEPT ![Key(t)] = [table |-> DefaultTable, lo |-> job[t].lo, hi |-> job[t].hi]]
    /\ Go(t)
    /\ UNCHANGED <<job, exe, bound, ctx, cur, out, memo, aux, xaux>>
(* the FROM clause selects a table of the connection -- for a FROM-subquery: the table of the inner statement *)
From(t) ==
    /\ Compiling(t, {"F"})
    /\ scratch' = [scratch EXCEPT ![Key(t)].table = BaseOf(job[t])]
    /\ Go(t)
    /\ UNCHANGED <<job, exe, bound, ctx, cur, out, memo, aux, xaux>>
(* a target of the inner statement is resolved against the selected table *)
Inner(t) ==
    /\ Compiling(t, {"I"})
    /\ IF scratch[Key(t)].table = BaseOf(job[t]) THEN Go(t) /\ UNCHANGED out ELSE Fail(t)
    /\ UNCHANGED <<job, exe, scratch, bound, ctx, cur, memo, aux, xaux>>
(* the inner statement is built; the table object of the subquery registers its columns -- name n<c> at the position
   target c has in the subquery's rows -- and becomes the selected table of the outer statement.  A table object of
   its own starts with an empty map; the process-wide map keeps what other subqueries registered *)
SubTable(t) ==
    /\ Compiling(t, {"G"})
    /\ IF scratch[Key(t)].table = BaseOf(job[t])
       THEN /\ scratch' = [scratch EXCEPT ![Key(t)].table = TableOf(job[t])]
            /\ names' = [names EXCEPT ![NKey(t)] =
                             [c \in 1..NCols |-> IF PosIn(job[t].sub, c) # 0 THEN PosIn(job[t].sub, c)
                                                 ELSE IF SubqueryColumns = ColsPerTable THEN 0 ELSE names[NKey(t)][c]]]
            /\ Go(t) /\ UNCHANGED out
       ELSE Fail(t) /\ UNCHANGED <<scratch, names>>
    /\ UNCHANGED <<job, exe, bound, ctx, cur, memo, aux, opnd, slot, store, recv>>
(* a name (or the wildcard) is resolved against whatever table the compiler has selected now; the statement is
   right only if that is the table of its own FROM clause.  A column of a table of the connection is its own
   accessor; a name of a FROM-subquery is bound to the position the table object's map gives for it NOW *)
Resolve(t) ==
    /\ Compiling(t, {"W", "C"})
    /\ LET J == job[t]
           a == CAtom(t)
           reg == names[NKey(t)]
       IN IF scratch[Key(t)].table # TableOf(J) THEN Fail(t) /\ UNCHANGED slot
          ELSE IF ~HasSub(J)
          THEN Go(t) /\ UNCHANGED out /\ slot' = IF a.k = "C" THEN [slot EXCEPT ![t][a.i] = a.i] ELSE slot
          ELSE IF a.k = "W"
          THEN IF \A c \in 1..NCols : reg[c] = PosIn(J.sub, c) THEN Go(t) /\ UNCHANGED <<out, slot>> ELSE Fail(t) /\ UNCHANGED slot
          ELSE IF reg[a.i] = 0 THEN Fail(t) /\ UNCHANGED slot
          ELSE Go(t) /\ UNCHANGED out /\ slot' = [slot EXCEPT ![t][a.i] = reg[a.i]]
    /\ UNCHANGED <<job, exe, scratch, bound, ctx, cur, memo, aux, opnd, names, store, recv>>
Bind(t) ==
    /\ Compiling(t, {"L", "H"})
    /\ bound' = IF CAtom(t).k = "L"
                THEN [bound EXCEPT ![t].lo = IF job[t].lit THEN job[t].lo ELSE scratch[Key(t)].lo]
                ELSE [bound EXCEPT ![t].hi = IF job[t].lit THEN job[t].hi ELSE scratch[Key(t)].hi]
    /\ Go(t)
    /\ UNCHANGED <<job, exe, scratch, ctx, cur, out, memo, aux, xaux>>
CompilePause(t) ==
    /\ Compiling(t, {"P"})
    /\ Go(t)
    /\ UNCHANGED <<job, exe, scratch, bound, ctx, cur, out, memo, aux, xaux>>
(* the query is built and its scan opened: a scan walks the ledger itself ("own"); only under ScanMemo = LazyRows
   the first scan of a typed table also fills the list kept on the table object, and every later scan walks that list *)
OpenScan(t) ==
    IF ScanMemo = LazyRows /\ job[t].tab = "x"
    THEN IF tmemo[TKey(t)].open
         THEN ctx' = [ctx EXCEPT ![t].src = "memo"] /\ UNCHANGED tmemo
         ELSE tmemo' = [tmemo EXCEPT ![TKey(t)] = [open |-> TRUE, n |-> 0]] /\ UNCHANGED ctx
    ELSE UNCHANGED <<ctx, tmemo>>
Build(t) ==
    /\ Compiling(t, {"Q"})
    /\ IF scratch[Key(t)].table = TableOf(job[t])
       THEN /\ scratch' = [scratch EXCEPT ![Key(t)].table = DefaultTable]
            /\ OpenScan(t)
            /\ Go(t) /\ UNCHANGED out
       ELSE Fail(t) /\ UNCHANGED <<scratch, ctx, tmemo>>
    /\ UNCHANGED <<job, exe, bound, cur, memo, parser, got, xaux>>

-----------------------------------------------------------------------------
(* the scan *)
Norm(t, ph, i) ==
    IF ph = "where" /\ i > Len(job[t].where)
    THEN (IF Len(exe[t].tg) = 0 THEN Pc("emit", 0) ELSE Pc("target", 1))
    ELSE IF ph = "target" /\ i > Len(exe[t].tg) THEN Pc("emit", 0)
    ELSE Pc(ph, i)
Advance(t) == pc' = [pc EXCEPT ![t] = Norm(t, pc[t].ph, pc[t].i + 1)]
SkipRow(t) == pc' = [pc EXCEPT ![t] = Pc("next", 0)]
InRow(t) == pc[t].ph \in {"where", "target"}
Atom(t) == IF pc[t].ph = "where" THEN job[t].where[pc[t].i] ELSE exe[t].tg[pc[t].i]

(* the rows the scan can still get: all rows of its table, or what the list on the table object holds by now *)
Available(t) == IF ctx[t].src = "memo" THEN tmemo[TKey(t)].n ELSE Len(exe[t].rows)
Filling(t) == ScanMemo = LazyRows /\ job[t].tab = "x" /\ ctx[t].src = "own"
NextRow(t) ==
    /\ pc[t].ph = "next" /\ ctx[t].rowid < Available(t)
    /\ ctx' = [ctx EXCEPT ![t].rowid = @ + 1]
    /\ tmemo' = IF Filling(t) THEN [tmemo EXCEPT ![TKey(t)].n = @ + 1] ELSE tmemo
    /\ pc' = [pc EXCEPT ![t] = Norm(t, "where", 1)]
    /\ cur' = [cur EXCEPT ![t] = <<>>]
    /\ UNCHANGED <<job, exe, scratch, bound, out, memo, parser, got, xaux>>
(* the scan is over: execute() puts the results -- description, rows, position 0 -- into the cursor and returns it.
   A thread that takes the results at once (fetch = <<>>) has them; otherwise the delivery steps follow *)
DescOf(J) == [n \in 1..Len(RunTargets(J)) |-> RunTargets(J)[n].k]      \* the description: one column per target
DescIn(st) == IF st.owner \in Threads THEN DescOf(job[st.owner]) ELSE <<>>
Finish(t) ==
    /\ pc[t].ph = "next" /\ ctx[t].rowid = Available(t)
    /\ LET st == [owner |-> t, rows |-> out[t], pos |-> 0] IN
         IF job[t].fetch = <<>>
         THEN /\ store' = [store EXCEPT ![SKey(t)] = [st EXCEPT !.pos = Len(out[t])]]
              /\ recv' = [recv EXCEPT ![t] = [desc |-> <<DescIn(st)>>, rows |-> out[t]]]
              /\ pc' = [pc EXCEPT ![t] = Pc("done", 0)]
         ELSE /\ store' = [store EXCEPT ![SKey(t)] = st]
              /\ pc' = [pc EXCEPT ![t] = Pc("fetch", 1)]
              /\ UNCHANGED recv
    /\ UNCHANGED <<job, exe, scratch, bound, ctx, cur, out, memo, aux, opnd, names, slot>>
(* one delivery step: the thread reads the description of the cursor it was given and fetches the next n rows (0: all
   that are left) from it -- whatever that cursor holds NOW *)
Fetch(t) ==
    /\ pc[t].ph = "fetch"
    /\ LET st == store[SKey(t)]
           n == job[t].fetch[pc[t].i]
           rest == SubSeq(st.rows, st.pos + 1, Len(st.rows))
           take == IF n = 0 \/ n >= Len(rest) THEN rest ELSE SubSeq(rest, 1, n)
       IN /\ recv' = [recv EXCEPT ![t] = [desc |-> Append(recv[t].desc, DescIn(st)), rows |-> recv[t].rows \o take]]
          /\ store' = [store EXCEPT ![SKey(t)].pos = st.pos + Len(take)]
    /\ pc' = [pc EXCEPT ![t] = IF pc[t].i = Len(job[t].fetch) THEN Pc("done", 0) ELSE Pc("fetch", pc[t].i + 1)]
    /\ UNCHANGED <<job, exe, scratch, bound, ctx, cur, out, memo, aux, opnd, names, slot>>

(* one evaluation of column / name c for the current row.  Own: what the statement's own text means by c.  Cell: what
   the accessor the compiler bound for c reads -- the column itself for a table of the connection; for a FROM-subquery
   position slot[t][c] of the subquery's row (the subquery's row n is <<base[sub[1]], .., base[sub[k]]>> of base row n:
   it is evaluated when the outer scan opens, its own interleavings are those of a plain scan) *)
Own(t, c) == exe[t].rows[ctx[t].rowid][c]
Cell(t, c) ==
    LET p == slot[t][c]
        base == exe[t].rows[ctx[t].rowid]
    IN IF HasSub(job[t])
       THEN (IF p \in 1..Len(job[t].sub) THEN base[job[t].sub[p]] ELSE ErrVal)
       ELSE (IF p \in 1..NCols THEN base[p] ELSE ErrVal)
Hit(t, c) == ColumnMemo = ByRowid /\ ~HasSub(job[t]) /\ memo[c].rowid = ctx[t].rowid
ColVal(t, c) == IF Hit(t, c) THEN memo[c].val ELSE Cell(t, c)
Remember(t, c) ==
    memo' = IF ColumnMemo = ByRowid /\ ~HasSub(job[t]) /\ ~Hit(t, c)
            THEN [memo EXCEPT ![c] = [rowid |-> ctx[t].rowid, val |-> Own(t, c)]]
            ELSE memo

Test(t) ==
    /\ pc[t].ph = "where" /\ Atom(t).k \in {"lo", "hi"}
    /\ LET v == ColVal(t, 1)
           truth == IF Atom(t).k = "lo" THEN v >= bound[t].lo ELSE v <= bound[t].hi
       IN IF truth THEN Advance(t) ELSE SkipRow(t)
    /\ Remember(t, 1)
    /\ UNCHANGED <<job, exe, scratch, bound, ctx, cur, out, aux, xaux>>
Column(t) ==
    /\ pc[t].ph = "target" /\ Atom(t).k = "col"
    /\ cur' = [cur EXCEPT ![t] = Append(@, ColVal(t, Atom(t).i))]
    /\ Remember(t, Atom(t).i)
    /\ Advance(t)
    /\ UNCHANGED <<job, exe, scratch, bound, ctx, out, aux, xaux>>
(* a function call, in four steps: the first operand is evaluated into the call's operand list, (the thread can be
   descheduled), the second operand is evaluated into the list, the function is applied to what the list holds NOW.
   Target `fn': op(col a, col b), the value is appended to the row.  WHERE `flo' / `fhi': cmp(<value>, key) <= 0 / >= 0 *)
IsCall(t) == InRow(t) /\ Atom(t).k \in {"fn", "flo", "fhi"}
CallOp(t) == IF Atom(t).k = "fn" THEN Atom(t).op ELSE "cmp"
SubStep(t, s) == pc' = [pc EXCEPT ![t].s = s]
Arg1(t) ==
    /\ IsCall(t) /\ pc[t].s = 0
    /\ LET a == Atom(t)
           v == IF a.k = "fn" THEN ColVal(t, a.a) ELSE IF a.k = "flo" THEN bound[t].lo ELSE bound[t].hi
       IN opnd' = [opnd EXCEPT ![OKey(t)][CallOp(t)][1] = v]
    /\ IF Atom(t).k = "fn" THEN Remember(t, Atom(t).a) ELSE UNCHANGED memo
    /\ SubStep(t, 1)
    /\ UNCHANGED <<job, exe, scratch, bound, ctx, cur, out, aux, names, slot, store, recv>>
ArgYield(t) ==
    /\ IsCall(t) /\ pc[t].s = 1
    /\ SubStep(t, 2)
    /\ UNCHANGED <<job, exe, scratch, bound, ctx, cur, out, memo, aux, xaux>>
Arg2(t) ==
    /\ IsCall(t) /\ pc[t].s = 2
    /\ LET c == IF Atom(t).k = "fn" THEN Atom(t).b ELSE 1
       IN opnd' = [opnd EXCEPT ![OKey(t)][CallOp(t)][2] = ColVal(t, c)] /\ Remember(t, c)
    /\ SubStep(t, 3)
    /\ UNCHANGED <<job, exe, scratch, bound, ctx, cur, out, aux, names, slot, store, recv>>
Apply(t) ==
    /\ IsCall(t) /\ pc[t].s = 3
    /\ LET a == Atom(t)
           args == opnd[OKey(t)][CallOp(t)]
           v == FnVal(CallOp(t), args[1], args[2])
       IN IF a.k = "fn" THEN cur' = [cur EXCEPT ![t] = Append(@, v)] /\ Advance(t)
          ELSE /\ UNCHANGED cur
               /\ IF (a.k = "flo" /\ v <= 0) \/ (a.k = "fhi" /\ v >= 0) THEN Advance(t) ELSE SkipRow(t)
    /\ UNCHANGED <<job, exe, scratch, bound, ctx, out, memo, aux, xaux>>
(* a run-time pause point: the thread can be descheduled here for as long as the scheduler likes *)
Yield(t) ==
    /\ InRow(t) /\ Atom(t).k = "rp"
    /\ Advance(t)
    /\ UNCHANGED <<job, exe, scratch, bound, ctx, cur, out, memo, aux, xaux>>
(* the folded call: a constant at run time *)
Const(t) ==
    /\ InRow(t) /\ Atom(t).k = "cp"
    /\ Advance(t)
    /\ UNCHANGED <<job, exe, scratch, bound, ctx, cur, out, memo, aux, xaux>>
EmitRow(t) ==
    /\ pc[t].ph = "emit"
    /\ pc' = [pc EXCEPT ![t] = Pc("next", 0)]
    /\ out' = [out EXCEPT ![t] = Append(@, cur[t])]
    /\ cur' = [cur EXCEPT ![t] = <<>>]
    /\ UNCHANGED <<job, exe, scratch, bound, ctx, memo, aux, xaux>>

Step(t) ==
    \/ ParseStart(t) \/ Token(t) \/ ParseEnd(t)
    \/ Begin(t) \/ From(t) \/ Inner(t) \/ SubTable(t) \/ Resolve(t) \/ Bind(t) \/ CompilePause(t) \/ Build(t)
    \/ NextRow(t) \/ Finish(t) \/ Test(t) \/ Column(t) \/ Yield(t) \/ Const(t) \/ EmitRow(t)
    \/ Arg1(t) \/ ArgYield(t) \/ Arg2(t) \/ Apply(t)
    \/ Fetch(t)
Next == \E t \in Threads : Step(t)
Done(t) == pc[t].ph = "done"
AllDone == \A t \in Threads : Done(t)
(* where a deterministic scheduler hands over: a pause point (compile time or run time) *)
(* ... and, when the results are delivered in steps, after execute() has returned and between the delivery steps *)
YieldStep(t) ==
    \/ Compiling(t, {"P"}) \/ (InRow(t) /\ Atom(t).k = "rp") \/ (IsCall(t) /\ pc[t].s = 1)
    \/ (pc[t].ph = "next" /\ ctx[t].rowid = Available(t) /\ job[t].fetch # <<>>)
    \/ (pc[t].ph = "fetch" /\ pc[t].i < Len(job[t].fetch))

-----------------------------------------------------------------------------
(* THE PROPERTY, declaratively: what the statement returns when it runs alone -- a function of its own text, its
   own parameters and the ledger of its own connection *)
Has(s, k) == \E i \in 1..Len(s) : s[i].k = k
Passes(J, row) ==
    /\ (Has(J.where, "lo") \/ Has(J.where, "flo")) => row[1] >= J.lo
    /\ (Has(J.where, "hi") \/ Has(J.where, "fhi")) => row[1] <= J.hi
(* a FROM-subquery that renames and reorders plain columns composes: name n<c> of the subquery IS column c of the table *)
Proj(J, row) ==
    LET tg == RunTargets(J)
        idx == SelectSeq([i \in 1..Len(tg) |-> i], LAMBDA i : tg[i].k \in {"col", "fn"})
    IN [n \in 1..Len(idx) |-> LET a == tg[idx[n]] IN IF a.k = "col" THEN row[a.i] ELSE FnVal(a.op, row[a.a], row[a.b])]
SerialRows(J) ==
    LET sel == SelectSeq(TableRows(J.ledger, J.tab, J.ty), LAMBDA r : Passes(J, r))
    IN [n \in 1..Len(sel) |-> Proj(J, sel[n])]

IsPrefix(s, t) == Len(s) <= Len(t) /\ s = SubSeq(t, 1, Len(s))
(* what the thread that executes J alone RECEIVES: all the rows when it takes the results at once or one of its delivery
   steps fetches everything that is left; otherwise as many rows as its steps ask for *)
RECURSIVE SumSeq(_)
SumSeq(s) == IF s = <<>> THEN 0 ELSE Head(s) + SumSeq(Tail(s))
DeliveredRows(J) ==
    LET all == SerialRows(J)
    IN IF J.fetch = <<>> \/ (\E i \in 1..Len(J.fetch) : J.fetch[i] = 0) \/ SumSeq(J.fetch) >= Len(all) THEN all
       ELSE SubSeq(all, 1, SumSeq(J.fetch))

TypeOK ==
    \A t \in Threads :
        /\ pc[t].ph \in {"compile", "next", "where", "target", "emit", "fetch", "done"}
        /\ pc[t].ph = "fetch" => pc[t].i \in 1..Len(job[t].fetch)
        /\ ctx[t].rowid \in 0..Len(exe[t].rows)
        /\ pc[t].ph = "compile" => pc[t].i \in 1..Len(exe[t].plan)
        /\ pc[t].s \in 0..3 /\ (pc[t].s # 0 => IsCall(t))

(* C20: what a thread has emitted is what its statement returns when it runs alone *)
SerialInv ==
    \A t \in Threads :
        /\ IsPrefix(out[t], SerialRows(job[t]))
        /\ Done(t) => out[t] = SerialRows(job[t])
(* the compiled statement carries the execution's own parameter values *)
OwnParameters ==
    \A t \in Threads : pc[t].ph \notin {"compile", "done"} =>
        /\ (Has(job[t].where, "lo") \/ Has(job[t].where, "flo")) => bound[t].lo = job[t].lo
        /\ (Has(job[t].where, "hi") \/ Has(job[t].where, "fhi")) => bound[t].hi = job[t].hi
(* the syntax tree an execution compiles was read from its own statement text *)
OwnStatement == \A t \in Threads : OwnTokens(t, got[t])
(* every value of the current row belongs to the current row of the thread's own scan *)
OwnRow ==
    \A t \in Threads : \A j \in 1..Len(cur[t]) :
        \/ \E c \in 1..NCols : cur[t][j] = Own(t, c)
        \/ \E n \in 1..Len(exe[t].tg) :
               LET a == exe[t].tg[n] IN a.k = "fn" /\ cur[t][j] = FnVal(a.op, Own(t, a.a), Own(t, a.b))
(* a function is applied to the operands its own call evaluated: when the second operand is in, the call's operand
   list holds the values of the call's own operands for the thread's current row *)
OwnOperands ==
    \A t \in Threads : (IsCall(t) /\ pc[t].s = 3) =>
        LET a == Atom(t)
            first == IF a.k = "fn" THEN Own(t, a.a) ELSE IF a.k = "flo" THEN job[t].lo ELSE job[t].hi
            second == IF a.k = "fn" THEN Own(t, a.b) ELSE Own(t, 1)
        IN opnd[OKey(t)][CallOp(t)] = <<first, second>>
(* a name is bound to the place it has in the statement's own FROM clause: column c itself for a table of the
   connection, the position of target n<c> in the statement's own subquery for a FROM-subquery *)
OwnNames ==
    \A t \in Threads : \A c \in 1..NCols : slot[t][c] # 0 =>
        IF HasSub(job[t]) THEN slot[t][c] = PosIn(job[t].sub, c) ELSE slot[t][c] = c

(* C20 at the caller: what a thread RECEIVES from the cursor its execute() gave it -- the description at every
   delivery step, the rows of all the steps together -- is the description and the rows of its own statement run
   alone; when the thread is done, all the rows its delivery steps ask for *)
OwnResults ==
    \A t \in Threads :
        LET r == recv[t]
            f == job[t].fetch
        IN /\ IsPrefix(r.rows, SerialRows(job[t]))
           /\ \A i \in 1..Len(r.desc) : r.desc[i] = DescOf(job[t])
           /\ (Done(t) /\ job[t] # Job0) => (r.rows = DeliveredRows(job[t]) /\ Len(r.desc) = IF f = <<>> THEN 1 ELSE Len(f))

(* a step of one thread changes nothing that belongs to another thread; no shared variable is written *)
NonInterference ==
    [][\A u \in Threads : pc'[u] = pc[u] =>
          /\ scratch'[u] = scratch[u] /\ bound'[u] = bound[u] /\ ctx'[u] = ctx[u]
          /\ cur'[u] = cur[u] /\ out'[u] = out[u] /\ parser'[u] = parser[u] /\ got'[u] = got[u]
          /\ opnd'[u] = opnd[u] /\ names'[u] = names[u] /\ slot'[u] = slot[u]
          /\ store'[u] = store[u] /\ recv'[u] = recv[u]]_vars
NoSharedState ==
    [][/\ ColumnMemo = NoMemo => memo' = memo
       /\ ScanMemo = NoScanMemo => tmemo' = tmemo
       /\ OperandScope = OpsPerCall => opnd'[0] = opnd[0]
       /\ SubqueryColumns = ColsPerTable => names'[0] = names[0]]_vars
JobConstant == [][job' = job /\ exe' = exe]_vars

Fairness == \A t \in Threads : WF_vars(Step(t))
Termination == <>AllDone
=============================================================================
