------------------------------- MODULE Isolate -------------------------------
(***************************************************************************)
(* C20 beyond the running balance: the WHOLE execution of a statement --    *)
(* compilation followed by the table scan -- run by N threads over shared   *)
(* or separate connections, with plain (row-local) columns and parameters.  *)
(*                                                                          *)
(* Code anchors: beanquery/cursor.py Cursor.execute (compile, then execute),*)
(* beanquery/compiler.py compile() / Compiler (per-statement scratch state: *)
(* `parameters`, `table`), Compiler._select (FROM, targets, WHERE in this   *)
(* order; the table is put back at the end), _compile_targets (wildcard),   *)
(* _column (name resolved against the selected table), _placeholder         *)
(* (value read from the parameters), _function (constant folding: a pure    *)
(* function of constants is CALLED during compilation),                     *)
(* beanquery/query_env.py EntriesTable / PostingsTable.__iter__ (one row    *)
(* context per scan, rowid counts the rows of THIS scan) and the column     *)
(* accessors (singletons shared by every scan of every connection),         *)
(* query_execute.execute_select (per row: conjuncts left to right, then the *)
(* targets left to right).                                                  *)
(*                                                                          *)
(* A connection holds a ledger: a sequence of directives [u, posts]; u is   *)
(* the identity of the directive, posts the identities of its postings.     *)
(* Two tables: "e" one row per directive <<u, u, u>>, "p" one row per       *)
(* posting <<v, u, v>>.  Column 1 is the key the WHERE clause tests, column *)
(* 2 stands for every column that shows the directive (id, date, narration, *)
(* ...), column 3 for every column that shows the row's own item.           *)
(*                                                                          *)
(* A thread executes one job J (constant along a behaviour):                *)
(*   conn, ledger   the connection and what it holds (same conn => same     *)
(*                  ledger)                                                 *)
(*   tab            "e" | "p"                                               *)
(*   star           SELECT * (the targets are the table's wildcard columns) *)
(*   targets        atoms  col i | rp (run-time pause point) | cp (pause    *)
(*                  point inside COMPILATION: a folded function call)       *)
(*   where          atoms  lo (key >= <lo>) | hi (key <= <hi>) | rp | cp    *)
(*   lo, hi, lit    the two values; lit: written as literals, otherwise     *)
(*                  passed as query parameters                              *)
(*   wpause         the execution can be descheduled when the compiler      *)
(*                  asks the table for its wildcard columns                 *)
(*   ppause         ... after every lookup in the parameters container      *)
(*                                                                          *)
(* CompilerScope "per execution"   property-conforming: what the code does  *)
(*                                 (Compiler(context) per compile() call)   *)
(*               "per connection"  one compiler kept on the connection: its *)
(*                                 scratch state is shared by the threads   *)
(*                                 that share the connection (non-vacuity)  *)
(* ColumnMemo    "none"            conforming                               *)
(*               "process-wide, keyed by rowid"  a column accessor keeps    *)
(*                                 the value of `the current row' in one    *)
(*                                 slot keyed by the rowid (non-vacuity)    *)
(***************************************************************************)
EXTENDS Integers, Sequences, FiniteSets, TLC

CONSTANTS Threads, CompilerScope, ColumnMemo

PerExec == "per execution"
PerConn == "per connection"
NoMemo == "none"
ByRowid == "process-wide, keyed by rowid"

VARIABLES
    job,        \* [Threads -> job]
    exe,        \* [Threads -> [rows, plan, tg]]  derived from the job once: the rows its scan enumerates, the steps of
                \*    its compilation, the targets evaluated per row
    scratch,    \* [Threads -> [table, lo, hi]]  compiler scratch state; the entry a thread uses is Key(t)
    bound,      \* [Threads -> [lo, hi]]  the constants compiled into the thread's statement
    ctx,        \* [Threads -> [rowid]]  row context of the thread's scan
    pc,         \* [Threads -> [ph, i]]  ph: compile | next | where | target | emit | done
    cur,        \* [Threads -> Seq(Int)]  column values of the current row
    out,        \* [Threads -> Seq(Seq(Int))]  rows emitted so far
    memo        \* [1..NCols -> [rowid, val]]  the process-wide slot of every column accessor

vars == <<job, exe, scratch, bound, ctx, pc, cur, out, memo>>

NCols == 3
DefaultTable == "d"
At(k, i) == [k |-> k, i |-> i]
Pc(ph, i) == [ph |-> ph, i |-> i]
ErrRow == <<-1>>            \* the statement failed (only a broken mechanism gets there)
Job0 == [conn |-> 0, ledger |-> <<>>, tab |-> "e", star |-> FALSE, targets |-> <<>>, where |-> <<>>, lo |-> 0, hi |-> 0,
         lit |-> TRUE, wpause |-> FALSE, ppause |-> FALSE]

-----------------------------------------------------------------------------
(* the tables of a ledger *)
RECURSIVE PostRows(_, _)
PostRows(ledger, d) ==
    IF d > Len(ledger) THEN <<>>
    ELSE [j \in 1..Len(ledger[d].posts) |-> <<ledger[d].posts[j], ledger[d].u, ledger[d].posts[j]>>] \o PostRows(ledger, d + 1)
TableRows(ledger, tab) ==
    IF tab = "e" THEN [d \in 1..Len(ledger) |-> <<ledger[d].u, ledger[d].u, ledger[d].u>>] ELSE PostRows(ledger, 1)

(* the steps of the compilation, in the order the compiler takes them:
   B begin (parameters stored, default table selected)   F the FROM clause selects the table
   W wildcard columns asked from the selected table        C i  column i resolved against the selected table
   L / H a parameter value read                            P pause point      Q the query is built on the selected table *)
RECURSIVE Flat(_)
Flat(ss) == IF ss = <<>> THEN <<>> ELSE Head(ss) \o Flat(Tail(ss))
ParamPause(J) == IF J.ppause /\ ~J.lit THEN <<At("P", 0)>> ELSE <<>>
AtomPlan(J, a) ==
    CASE a.k = "col" -> <<At("C", a.i)>>
      [] a.k = "cp" -> <<At("P", 0)>>
      [] a.k = "lo" -> <<At("C", 1), At("L", 0)>> \o ParamPause(J)
      [] a.k = "hi" -> <<At("C", 1), At("H", 0)>> \o ParamPause(J)
      [] OTHER -> <<>>
RunTargets(J) == IF J.star THEN [c \in 1..NCols |-> At("col", c)] ELSE J.targets
Plan(J) ==
    <<At("B", 0), At("F", 0)>>
    \o (IF J.star THEN <<At("W", 0)>> \o (IF J.wpause THEN <<At("P", 0)>> ELSE <<>>) ELSE <<>>)
    \o Flat([i \in 1..Len(RunTargets(J)) |-> AtomPlan(J, RunTargets(J)[i])])
    \o Flat([i \in 1..Len(J.where) |-> AtomPlan(J, J.where[i])])
    \o <<At("Q", 0)>>
Exe(J) == [rows |-> TableRows(J.ledger, J.tab), plan |-> Plan(J), tg |-> RunTargets(J)]

Scratch0 == [table |-> DefaultTable, lo |-> 0, hi |-> 0]
InitWith(jobs) ==
    /\ job = jobs
    /\ exe = [t \in Threads |-> Exe(jobs[t])]
    /\ scratch = [t \in Threads |-> Scratch0]
    /\ bound = [t \in Threads |-> [lo |-> 0, hi |-> 0]]
    /\ ctx = [t \in Threads |-> [rowid |-> 0]]
    /\ pc = [t \in Threads |-> IF jobs[t] = Job0 THEN Pc("done", 0) ELSE Pc("compile", 1)]     \* Job0: the thread is not used
    /\ cur = [t \in Threads |-> <<>>]
    /\ out = [t \in Threads |-> <<>>]
    /\ memo = [c \in 1..NCols |-> [rowid |-> 0, val |-> 0]]

(* the compiler (scratch state) an execution uses *)
Key(t) ==
    IF CompilerScope = PerExec THEN t
    ELSE CHOOSE u \in Threads : job[u].conn = job[t].conn /\ \A w \in Threads : job[w].conn = job[t].conn => u <= w

-----------------------------------------------------------------------------
(* compilation *)
Compiling(t, ks) == pc[t].ph = "compile" /\ exe[t].plan[pc[t].i].k \in ks
CAtom(t) == exe[t].plan[pc[t].i]
Go(t) == pc' = [pc EXCEPT ![t] = IF pc[t].i = Len(exe[t].plan) THEN Pc("next", 0) ELSE Pc("compile", pc[t].i + 1)]
Fail(t) == pc' = [pc EXCEPT ![t] = Pc("done", 0)] /\ out' = [out EXCEPT ![t] = <<ErrRow>>]

Begin(t) ==
    /\ Compiling(t, {"B"})
    /\ scratch' = [scratch EXCEPT ![Key(t)] = [table |-> DefaultTable, lo |-> job[t].lo, hi |-> job[t].hi]]
    /\ Go(t)
    /\ UNCHANGED <<job, exe, bound, ctx, cur, out, memo>>
From(t) ==
    /\ Compiling(t, {"F"})
    /\ scratch' = [scratch EXCEPT ![Key(t)].table = job[t].tab]
    /\ Go(t)
    /\ UNCHANGED <<job, exe, bound, ctx, cur, out, memo>>
(* a name (or the wildcard) is resolved against whatever table the compiler has selected now; the statement is
   right only if that is the table of its own FROM clause *)
Resolve(t) ==
    /\ Compiling(t, {"W", "C"})
    /\ IF scratch[Key(t)].table = job[t].tab THEN Go(t) /\ UNCHANGED out ELSE Fail(t)
    /\ UNCHANGED <<job, exe, scratch, bound, ctx, cur, memo>>
Bind(t) ==
    /\ Compiling(t, {"L", "H"})
    /\ bound' = IF CAtom(t).k = "L"
                THEN [bound EXCEPT ![t].lo = IF job[t].lit THEN job[t].lo ELSE scratch[Key(t)].lo]
                ELSE [bound EXCEPT ![t].hi = IF job[t].lit THEN job[t].hi ELSE scratch[Key(t)].hi]
    /\ Go(t)
    /\ UNCHANGED <<job, exe, scratch, ctx, cur, out, memo>>
CompilePause(t) ==
    /\ Compiling(t, {"P"})
    /\ Go(t)
    /\ UNCHANGED <<job, exe, scratch, bound, ctx, cur, out, memo>>
Build(t) ==
    /\ Compiling(t, {"Q"})
    /\ IF scratch[Key(t)].table = job[t].tab
       THEN /\ scratch' = [scratch EXCEPT ![Key(t)].table = DefaultTable]
            /\ Go(t) /\ UNCHANGED out
       ELSE Fail(t) /\ UNCHANGED scratch
    /\ UNCHANGED <<job, exe, bound, ctx, cur, memo>>

-----------------------------------------------------------------------------
(* the scan *)
Norm(t, ph, i) ==
    IF ph = "where" /\ i > Len(job[t].where)
    THEN (IF Len(exe[t].tg) = 0 THEN Pc("emit", 0) ELSE Pc("target", 1))
    ELSE IF ph = "target" /\ i > Len(exe[t].tg) THEN Pc("emit", 0)
    ELSE Pc(ph, i)
Advance(t) == pc' = [pc EXCEPT ![t] = Norm(t, pc[t].ph, pc[t].i + 1)]
SkipRow(t) == pc' = [pc EXCEPT ![t] = Pc("next", 0)]
InRow(t) == pc[t].ph \in {"where", "target"}
Atom(t) == IF pc[t].ph = "where" THEN job[t].where[pc[t].i] ELSE exe[t].tg[pc[t].i]

NextRow(t) ==
    /\ pc[t].ph = "next" /\ ctx[t].rowid < Len(exe[t].rows)
    /\ ctx' = [ctx EXCEPT ![t].rowid = @ + 1]
    /\ pc' = [pc EXCEPT ![t] = Norm(t, "where", 1)]
    /\ cur' = [cur EXCEPT ![t] = <<>>]
    /\ UNCHANGED <<job, exe, scratch, bound, out, memo>>
Finish(t) ==
    /\ pc[t].ph = "next" /\ ctx[t].rowid = Len(exe[t].rows)
    /\ pc' = [pc EXCEPT ![t] = Pc("done", 0)]
    /\ UNCHANGED <<job, exe, scratch, bound, ctx, cur, out, memo>>

(* one evaluation of column c for the current row *)
Own(t, c) == exe[t].rows[ctx[t].rowid][c]
Hit(t, c) == ColumnMemo = ByRowid /\ memo[c].rowid = ctx[t].rowid
ColVal(t, c) == IF Hit(t, c) THEN memo[c].val ELSE Own(t, c)
Remember(t, c) ==
    memo' = IF ColumnMemo = ByRowid /\ ~Hit(t, c) THEN [memo EXCEPT ![c] = [rowid |-> ctx[t].rowid, val |-> Own(t, c)]]
            ELSE memo

Test(t) ==
    /\ pc[t].ph = "where" /\ Atom(t).k \in {"lo", "hi"}
    /\ LET v == ColVal(t, 1)
           truth == IF Atom(t).k = "lo" THEN v >= bound[t].lo ELSE v <= bound[t].hi
       IN IF truth THEN Advance(t) ELSE SkipRow(t)
    /\ Remember(t, 1)
    /\ UNCHANGED <<job, exe, scratch, bound, ctx, cur, out>>
Column(t) ==
    /\ pc[t].ph = "target" /\ Atom(t).k = "col"
    /\ cur' = [cur EXCEPT ![t] = Append(@, ColVal(t, Atom(t).i))]
    /\ Remember(t, Atom(t).i)
    /\ Advance(t)
    /\ UNCHANGED <<job, exe, scratch, bound, ctx, out>>
(* a run-time pause point: the thread can be descheduled here for as long as the scheduler likes *)
Yield(t) ==
    /\ InRow(t) /\ Atom(t).k = "rp"
    /\ Advance(t)
    /\ UNCHANGED <<job, exe, scratch, bound, ctx, cur, out, memo>>
(* the folded call: a constant at run time *)
Const(t) ==
    /\ InRow(t) /\ Atom(t).k = "cp"
    /\ Advance(t)
    /\ UNCHANGED <<job, exe, scratch, bound, ctx, cur, out, memo>>
EmitRow(t) ==
    /\ pc[t].ph = "emit"
    /\ pc' = [pc EXCEPT ![t] = Pc("next", 0)]
    /\ out' = [out EXCEPT ![t] = Append(@, cur[t])]
    /\ cur' = [cur EXCEPT ![t] = <<>>]
    /\ UNCHANGED <<job, exe, scratch, bound, ctx, memo>>

Step(t) ==
    \/ Begin(t) \/ From(t) \/ Resolve(t) \/ Bind(t) \/ CompilePause(t) \/ Build(t)
    \/ NextRow(t) \/ Finish(t) \/ Test(t) \/ Column(t) \/ Yield(t) \/ Const(t) \/ EmitRow(t)
Next == \E t \in Threads : Step(t)
Done(t) == pc[t].ph = "done"
AllDone == \A t \in Threads : Done(t)
(* where a deterministic scheduler hands over: a pause point (compile time or run time) *)
YieldStep(t) == Compiling(t, {"P"}) \/ (InRow(t) /\ Atom(t).k = "rp")

-----------------------------------------------------------------------------
(* THE PROPERTY, declaratively: what the statement returns when it runs alone -- a function of its own text, its
   own parameters and the ledger of its own connection *)
Has(s, k) == \E i \in 1..Len(s) : s[i].k = k
Passes(J, row) == (Has(J.where, "lo") => row[1] >= J.lo) /\ (Has(J.where, "hi") => row[1] <= J.hi)
Proj(J, row) ==
    LET tg == RunTargets(J)
        idx == SelectSeq([i \in 1..Len(tg) |-> i], LAMBDA i : tg[i].k = "col")
    IN [n \in 1..Len(idx) |-> row[tg[idx[n]].i]]
SerialRows(J) ==
    LET sel == SelectSeq(TableRows(J.ledger, J.tab), LAMBDA r : Passes(J, r))
    IN [n \in 1..Len(sel) |-> Proj(J, sel[n])]

IsPrefix(s, t) == Len(s) <= Len(t) /\ s = SubSeq(t, 1, Len(s))

TypeOK ==
    \A t \in Threads :
        /\ pc[t].ph \in {"compile", "next", "where", "target", "emit", "done"}
        /\ ctx[t].rowid \in 0..Len(exe[t].rows)
        /\ pc[t].ph = "compile" => pc[t].i \in 1..Len(exe[t].plan)

(* C20: what a thread has emitted is what its statement returns when it runs alone *)
SerialInv ==
    \A t \in Threads :
        /\ IsPrefix(out[t], SerialRows(job[t]))
        /\ Done(t) => out[t] = SerialRows(job[t])
(* the compiled statement carries the execution's own parameter values *)
OwnParameters ==
    \A t \in Threads : pc[t].ph \notin {"compile", "done"} =>
        /\ Has(job[t].where, "lo") => bound[t].lo = job[t].lo
        /\ Has(job[t].where, "hi") => bound[t].hi = job[t].hi
(* every value of the current row belongs to the current row of the thread's own scan *)
OwnRow ==
    \A t \in Threads : \A j \in 1..Len(cur[t]) : \E c \in 1..NCols : cur[t][j] = Own(t, c)

(* a step of one thread changes nothing that belongs to another thread; no shared variable is written *)
NonInterference ==
    [][\A u \in Threads : pc'[u] = pc[u] =>
          /\ scratch'[u] = scratch[u] /\ bound'[u] = bound[u] /\ ctx'[u] = ctx[u]
          /\ cur'[u] = cur[u] /\ out'[u] = out[u]]_vars
NoSharedState == [][ColumnMemo = NoMemo => memo' = memo]_vars
JobConstant == [][job' = job /\ exe' = exe]_vars

Fairness == \A t \in Threads : WF_vars(Step(t))
Termination == <>AllDone
=============================================================================
