\* tables replayed through a text ledger and the shell (all three currencies known to the ledger's display context)
CONSTANTS
  Space = "gen-shell"
  Shapes <- ShapesOf
  FmtChoices <- Fmt01
  DCtx <- DCABC
  Prec = "most_common"
  CurSeq <- CS3
  InvNull = "skip"
  Mut = "none"
INIT Init
NEXT GNext
INVARIANT Emit
CHECK_DEADLOCK FALSE
