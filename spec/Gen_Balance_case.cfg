\* C12 case generator (simulate): property-conforming cache
CONSTANTS
  Threads = {1}
  CacheMode = "per row context"
  Split = FALSE
  Programs = 0
  MaxLen = 5
  SchedProgs = 0
INIT CInit
NEXT CNext
INVARIANT CEmit
CHECK_DEADLOCK FALSE
