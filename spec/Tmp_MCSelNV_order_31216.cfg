CONSTANTS
  MaxRows = 2
  QuerySet = "order"
  EmitMode = "none"
  TableStride = 3
  Variant = "limitfirst"
INIT Init
NEXT Next
INVARIANTS CompileIffValid SteppedIsExec ScanLaw GroupLaw Additivity HavingLaw SortLaw PhaseOrderLaw DistinctLaw PivotLaw 
CHECK_DEADLOCK FALSE
