\* the mechanism as shipped before the fix: rowcount read from the buffer.  TLC must violate RowCountInv.
CONSTANTS
  NCursors = 1
  Queries <- QSmall
  FetchSizes <- Sizes13
  ArraySizes <- AS2
  RowCountFrom = "buffer"
  IterMayConsume = FALSE
  None = None
INIT Init
NEXT Next
INVARIANTS RowCountInv
CHECK_DEADLOCK FALSE
