\* C20 schedule generator: 2x3_diff, per row context
CONSTANTS
  Threads = {1, 2}
  CacheMode = "per row context"
  Split = FALSE
  Programs = 0
  MaxLen = 0
  SchedProgs <- SP_2x3_diff
INIT SInit
NEXT SNext
INVARIANTS SEmit SEmitProgs
CHECK_DEADLOCK FALSE
