------------------------------- MODULE Ledger -------------------------------
(***************************************************************************)
(* C11 -- the ledger tables of beanquery present the Beancount directives   *)
(* faithfully and completely (query_env.py:867-1251, sources/beancount.py,  *)
(* compiler.py:480-497, query_env.py:352-414).                              *)
(*                                                                         *)
(* PART 1 (declarative): a ledger is a sequence of abstract directives      *)
(* (vocabulary of harness/ledgergen.py: optional values are <<>> or <<v>>,   *)
(* numbers are reduced rationals <<num, den>>, dates are proleptic          *)
(* ordinals).  Postings(L) is the flattening in ledger order; every column   *)
(* of every table is an operator on a directive L[i] or a posting           *)
(* L[i].postings[j]; Rows(L, keys) is what the tables must show.            *)
(*                                                                         *)
(* PART 2 (mechanism, as the code does it): one reusable row context that   *)
(* NextEntry / NextPosting mutate while walking the entries (rowid is       *)
(* incremented once per yielded row), the isinstance filter of the typed    *)
(* tables, the open/close map fold and the commodity map fold.  TLC proves  *)
(* that the rows the mechanism yields are the declarative ones.             *)
(*                                                                         *)
(* Where the property statement leaves freedom the specification gives an   *)
(* ALTERNATIVE value next to the value (cost_label of a posting without     *)
(* cost: '' as shipped, or NULL; any_meta of a posting without a metadata   *)
(* dictionary: NULL as shipped, or the transaction's value), the tables of  *)
(* accounts and commodities are compared as sets of rows.                    *)
(*                                                                         *)
(* "any directive types and counts": an account may be opened (closed) by   *)
(* several directives and a currency declared by several commodity          *)
(* directives (Beancount reports that and keeps every directive).  The      *)
(* tables of accounts and commodities have ONE row per account / currency    *)
(* and open_meta / open_date / close_date / commodity_meta read ONE          *)
(* directive: the one that STANDS (OpenIdx, CloseIdx, CommodityIdx below).   *)
(*                                                                         *)
(* PART 3 (the connection): the ledger is attached to a connection once and  *)
(* any number of statements are executed on it.  A statement either refers   *)
(* to a registered table as it is (FROM #postings, no FROM clause) or, for   *)
(* the default table, carries a FROM clause with the qualifiers OPEN ON,     *)
(* CLOSE [ON], CLEAR; the compiler sets these on a COPY of the registered    *)
(* table (BeanTable.update) and the iteration walks the PREPARED entries     *)
(* (BeanTable.prepare).  What the tables present is a function of the ledger *)
(* alone: RowsAfter(history, L, keys) = Rows(L, keys) whatever was executed  *)
(* before on the same connection (HistoryFree).                              *)
(***************************************************************************)
EXTENDS Integers, Sequences, FiniteSets, TLC

CONSTANTS
    Alpha,      \* the directive alphabet: a sequence of abstract directives
    MaxLen,     \* ledgers of 0..MaxLen directives
    Keys,       \* sequence of metadata keys looked up by meta() & co
    Mech,       \* "ok" = the iteration as shipped;  "skipfirst" / "rowidperentry" / "updateinplace" / "foldcase" /
                \* "firstcommodity" / "listedopen" / "publicmeta" = deliberately broken (non-vacuity)
    MaxStmts,   \* statements executed one after the other on the one connection
    QualOpts    \* the FROM qualifiers a statement on the default table may carry: a set of Qual records

-----------------------------------------------------------------------------
(* ---- generic helpers ---- *)
NULL == <<>>
Some(x) == <<x>>
Opt0(n) == IF n = 0 THEN NULL ELSE Some(n)
IsNull(o) == Len(o) = 0
Range(s) == {s[n] : n \in 1..Len(s)}
Abs(x) == IF x < 0 THEN -x ELSE x

(* ---- rationals <<num, den>>, reduced, den > 0; 32-bit guarded ---- *)
MaxInt == 2147483647
RECURSIVE Gcd(_, _)
Gcd(a, b) == IF b = 0 THEN a ELSE Gcd(b, a % b)
MulFits(a, b) == a = 0 \/ b = 0 \/ Abs(a) <= MaxInt \div Abs(b)
(* cross-reduction first: the intermediate products ARE the reduced result, so they overflow only if it does *)
RatParts(x, y) ==
    LET g1 == Gcd(Abs(x[1]), y[2])
        g2 == Gcd(Abs(y[1]), x[2])
    IN  <<x[1] \div g1, y[1] \div g2, x[2] \div g2, y[2] \div g1>>
RatMulFits(x, y) ==
    x[1] = 0 \/ y[1] = 0 \/ LET p == RatParts(x, y) IN MulFits(p[1], p[2]) /\ MulFits(p[3], p[4])
RatMul(x, y) ==
    IF x[1] = 0 \/ y[1] = 0 THEN <<0, 1>>
    ELSE LET p == RatParts(x, y) IN <<p[1] * p[2], p[3] * p[4]>>

(* ---- calendar: proleptic Gregorian ordinal (Python date.toordinal) -> year, month, day ---- *)
Civil(ord) ==
    LET z   == ord + 305                   \* days since 0000-03-01
        era == z \div 146097
        doe == z - era * 146097
        yoe == (doe - (doe \div 1460) + (doe \div 36524) - (doe \div 146096)) \div 365
        doy == doe - (365 * yoe + (yoe \div 4) - (yoe \div 100))
        mp  == (5 * doy + 2) \div 153
        d   == doy - ((153 * mp + 2) \div 5) + 1
        m   == IF mp < 10 THEN mp + 3 ELSE mp - 9
        y   == yoe + era * 400 + (IF m <= 2 THEN 1 ELSE 0)
    IN  [y |-> y, m |-> m, d |-> d]

-----------------------------------------------------------------------------
(* ---- metadata: a sequence of <<key, MV>> with MV = [t, s, n]; a key whose value is null reads as NULL ---- *)
HasKey(meta, k) == \E n \in 1..Len(meta) : meta[n][1] = k
RawGet(meta, k) == meta[CHOOSE n \in 1..Len(meta) : meta[n][1] = k][2]
Val(mv) == IF mv.t = "null" THEN NULL ELSE Some(mv)
Lookup(meta, k) == IF HasKey(meta, k) THEN Val(RawGet(meta, k)) ELSE NULL
(* an optional metadata dictionary (postings): no dictionary -> NULL for every key *)
OptLookup(ometa, k) == IF IsNull(ometa) THEN NULL ELSE Lookup(ometa[1], k)
MetaCell(meta) == Some(Range(meta))                     \* the dictionary itself, as a set of pairs
OptMetaCell(ometa) == IF IsNull(ometa) THEN NULL ELSE MetaCell(ometa[1])
StrOf(omv) == IF IsNull(omv) THEN NULL ELSE Some(omv[1].s)
IntOf(omv) == IF IsNull(omv) THEN NULL ELSE Some(omv[1].n[1])
SetCell(o) == IF IsNull(o) THEN NULL ELSE Some(Range(o[1]))   \* tags / links: optional sorted list -> optional set

(* Metadata keys are OPAQUE strings compared character by character (HasKey: meta[n][1] = k).  The Beancount syntax
   of a key is [a-z][a-zA-Z0-9\-_]+ : only the FIRST character is lower case, so "isinCode", "isincode" and "tax-Id_2"
   are three different keys, may sit side by side in one dictionary with different values, and a lookup with a key
   that differs from a present one in the case of a letter only is a lookup of a MISSING key (NULL).  Lower is used
   by the deliberately broken lookup mechanism only (Mech = "foldcase", part 2). *)
(* The dictionary of a directive / posting is presented WHOLE.  Beancount itself writes keys into it -- booking leaves
   "__tolerances__" (a map currency -> number, MV type "map") on every transaction, interpolation "__automatic__" /
   "__residual__" on the postings it filled in, plugins any "__key__" -- and these are keys of THE metadata like any
   other: the statement makes no exception ("every column equals the corresponding attribute", "NULL for missing
   keys").  IsOwnKey is used by the deliberately broken meta column only (ColMeta with Mech = "publicmeta", part 2). *)
IsOwnKey(k) == Len(k) >= 2 /\ SubSeq(k, 1, 2) = "__"
ColMeta(ometa) ==
    IF Mech = "publicmeta" /\ ~IsNull(ometa) THEN Some(SelectSeq(ometa[1], LAMBDA kv : ~IsOwnKey(kv[1]))) ELSE ometa

UpperChars == <<"A", "B", "C", "D", "E", "F", "G", "H", "I", "J", "K", "L", "M", "N", "O", "P", "Q", "R", "S", "T", "U",
                "V", "W", "X", "Y", "Z">>
LowerChars == <<"a", "b", "c", "d", "e", "f", "g", "h", "i", "j", "k", "l", "m", "n", "o", "p", "q", "r", "s", "t", "u",
                "v", "w", "x", "y", "z">>
LowerChar(c) == IF \E n \in 1..26 : UpperChars[n] = c THEN LowerChars[CHOOSE n \in 1..26 : UpperChars[n] = c] ELSE c
RECURSIVE Lower(_)
Lower(str) == IF Len(str) = 0 THEN "" ELSE LowerChar(SubSeq(str, 1, 1)) \o Lower(SubSeq(str, 2, Len(str)))

(* ---- directives ---- *)
IsTxn(e) == e.k = "txn"
TypeName(k) == IF k = "txn" THEN "transaction" ELSE k
Kinds == {"txn", "open", "close", "commodity", "pad", "balance", "note", "event", "query", "price", "document", "custom"}
NPost(e) == IF IsTxn(e) THEN Len(e.postings) ELSE 0

MetaKeysDistinct(meta) == \A a, b \in 1..Len(meta) : meta[a][1] = meta[b][1] => a = b
MetaLocated(meta) ==      \* the two keys every parsed directive / posting dictionary carries
    /\ HasKey(meta, "filename") /\ RawGet(meta, "filename").t = "str"
    /\ HasKey(meta, "lineno") /\ RawGet(meta, "lineno").t = "int"
(* the domain of the property: located metadata, distinct keys -- any directive kinds and counts, several open / close
   directives for one account and several commodity directives for one currency included *)
WellFormed(L) ==
    \A i \in 1..Len(L) :
          /\ L[i].k \in Kinds
          /\ MetaKeysDistinct(L[i].meta) /\ MetaLocated(L[i].meta)
          /\ IsTxn(L[i]) => \A j \in 1..Len(L[i].postings) :
                LET p == L[i].postings[j] IN
                \* IF, not a disjunction: inside an action TLC explores both sides of a disjunction
                IF IsNull(p.meta) THEN TRUE ELSE (MetaKeysDistinct(p.meta[1]) /\ MetaLocated(p.meta[1]))

-----------------------------------------------------------------------------
(* ---- PART 1: the tables, declaratively ---- *)

(* the postings table has one row per posting of every transaction, in ledger order: <<i, j>> = posting j of L[i] *)
RECURSIVE Flat(_, _)
Flat(L, i) ==
    IF i > Len(L) THEN <<>>
    ELSE (IF IsTxn(L[i]) THEN [j \in 1..Len(L[i].postings) |-> <<i, j>>] ELSE <<>>) \o Flat(L, i + 1)
Postings(L) == Flat(L, 1)

(* typed tables: the directives of one kind, in ledger order *)
RECURSIVE OfKindFrom(_, _, _)
OfKindFrom(L, kind, i) ==
    IF i > Len(L) THEN <<>>
    ELSE (IF L[i].k = kind THEN <<i>> ELSE <<>>) \o OfKindFrom(L, kind, i + 1)
OfKind(L, kind) == OfKindFrom(L, kind, 1)

(* -- account and commodity directories (open_meta, open_date, close_date, commodity_meta, #accounts, #commodities) -- *)
(* THE directive of an account / a currency when the ledger has several.  The property statement speaks of "the
   corresponding directives" and of "the account-open and commodity metadata lookups" and leaves the choice to what
   Beancount means by the open directive of an account and the commodity directive of a currency -- the ledger tables
   present the BEANCOUNT directives:
     * open / close: the chronologically earliest one, the one listed first among equally dated ones
       (beancount.core.getters.get_account_open_close: "If an open or close entry happens to be duplicated, accept the
       earliest entry (chronologically)");
     * commodity: a declaration supersedes the earlier declarations of the same currency -- the one listed last stands
       (beancount.core.getters.get_commodity_directives: the map currency -> directive written in ledger order).
   Stated as "no other directive of the same account / currency beats it"; the mechanism of part 2 folds. *)
OpensOf(L, a) == {i \in 1..Len(L) : L[i].k = "open" /\ L[i].account = a}
ClosesOf(L, a) == {i \in 1..Len(L) : L[i].k = "close" /\ L[i].account = a}
CommoditiesOf(L, c) == {i \in 1..Len(L) : L[i].k = "commodity" /\ L[i].currency = c}
Earlier(L, i, j) == L[i].date < L[j].date \/ (L[i].date = L[j].date /\ i < j)
EarliestOf(L, S) == CHOOSE i \in S : \A j \in S \ {i} : Earlier(L, i, j)
LastOf(S) == CHOOSE i \in S : \A j \in S : j <= i
OpenIdx(L, a) == LET S == OpensOf(L, a) IN IF S = {} THEN NULL ELSE Some(EarliestOf(L, S))
CloseIdx(L, a) == LET S == ClosesOf(L, a) IN IF S = {} THEN NULL ELSE Some(EarliestOf(L, S))
CommodityIdx(L, c) == LET S == CommoditiesOf(L, c) IN IF S = {} THEN NULL ELSE Some(LastOf(S))
OpenDate(L, a) == LET o == OpenIdx(L, a) IN IF IsNull(o) THEN NULL ELSE Some(L[o[1]].date)
CloseDate(L, a) == LET o == CloseIdx(L, a) IN IF IsNull(o) THEN NULL ELSE Some(L[o[1]].date)
(* the metadata of the account's open directive -- whether or not the account was closed later *)
OpenMeta(L, a, k) == LET o == OpenIdx(L, a) IN IF IsNull(o) THEN NULL ELSE Lookup(L[o[1]].meta, k)
CommodityMeta(L, c, k) == LET o == CommodityIdx(L, c) IN IF IsNull(o) THEN NULL ELSE Lookup(L[o[1]].meta, k)

(* -- posting level lookups -- *)
Meta(p, k) == OptLookup(p.meta, k)                          \* posting; no dictionary -> NULL
EntryMeta(t, k) == Lookup(t.meta, k)                        \* transaction
AnyMeta(t, p, k) ==                                         \* posting, then transaction
    IF ~IsNull(p.meta) /\ HasKey(p.meta[1], k) THEN Val(RawGet(p.meta[1], k)) ELSE EntryMeta(t, k)
(* "giving NULL ... for postings without metadata": for a posting without dictionary the statement can be read
   both ways; the shipped code answers NULL *)
AnyMetaAlt(t, p, k) == IF IsNull(p.meta) THEN NULL ELSE AnyMeta(t, p, k)

(* -- columns shared by #entries and #postings (transaction attributes; NULL on other directives) -- *)
NonEmpty(s) == IF s = "" THEN <<>> ELSE <<s>>
Description(t) ==
    LET parts == (IF IsNull(t.payee) THEN <<>> ELSE NonEmpty(t.payee[1])) \o NonEmpty(t.narration)
    IN  IF Len(parts) = 0 THEN "" ELSE IF Len(parts) = 1 THEN parts[1] ELSE parts[1] \o " | " \o parts[2]

OtherAccounts(t, j) == {t.postings[x].acct : x \in (1..Len(t.postings)) \ {j}}

OOD == [n |-> <<0, 0>>, c |-> "<out of the 32-bit domain>"]
Weight(p) ==
    IF ~IsNull(p.cost) THEN
        (IF RatMulFits(p.cost[1].n, p.u.n) THEN [n |-> RatMul(p.cost[1].n, p.u.n), c |-> p.cost[1].c] ELSE OOD)
    ELSE IF ~IsNull(p.price) THEN
        (IF RatMulFits(p.price[1].n, p.u.n) THEN [n |-> RatMul(p.price[1].n, p.u.n), c |-> p.price[1].c] ELSE OOD)
    ELSE p.u

LkPosting(L, t, p, keys) ==
    [n \in 1..Len(keys) |->
        [k |-> keys[n], m |-> Meta(p, keys[n]), em |-> EntryMeta(t, keys[n]), am |-> AnyMeta(t, p, keys[n]),
         am_alt |-> AnyMetaAlt(t, p, keys[n]), om |-> OpenMeta(L, p.acct, keys[n]),
         cm |-> CommodityMeta(L, p.u.c, keys[n])]]

PostingRow(L, i, j, keys) ==
    LET t == L[i]
        p == t.postings[j]
        c == Civil(t.date)
        fn == StrOf(OptLookup(p.meta, "filename"))
        ln == IntOf(OptLookup(p.meta, "lineno"))
    IN  [type |-> "transaction", date |-> t.date, year |-> c.y, month |-> c.m, day |-> c.d,
         flag |-> Some(t.flag), payee |-> t.payee, narration |-> Some(t.narration),
         description |-> Some(Description(t)), tags |-> SetCell(t.tags), links |-> SetCell(t.links),
         filename |-> fn, lineno |-> ln,
         location |-> IF IsNull(fn) THEN NULL ELSE Some(fn[1] \o ":" \o ToString(ln[1]) \o ":"),
         meta |-> OptMetaCell(p.meta),
         posting_flag |-> p.flag, account |-> p.acct, other_accounts |-> OtherAccounts(t, j),
         number |-> p.u.n, currency |-> p.u.c,
         cost_number |-> IF IsNull(p.cost) THEN NULL ELSE Some(p.cost[1].n),
         cost_currency |-> IF IsNull(p.cost) THEN NULL ELSE Some(p.cost[1].c),
         cost_date |-> IF IsNull(p.cost) THEN NULL ELSE p.cost[1].date,
         cost_label |-> IF IsNull(p.cost) THEN Some("") ELSE p.cost[1].label,
         cost_label_alt |-> IF IsNull(p.cost) THEN NULL ELSE p.cost[1].label,
         position |-> [u |-> p.u, cost |-> p.cost], price |-> p.price, weight |-> Weight(p),
         entry |-> i,
         open_date |-> OpenDate(L, p.acct), close_date |-> CloseDate(L, p.acct),
         lk |-> LkPosting(L, t, p, keys)]

EntryRow(L, i, keys) ==
    LET e == L[i]
        c == Civil(e.date)
        t == IsTxn(e)
    IN  [type |-> TypeName(e.k), date |-> e.date, year |-> c.y, month |-> c.m, day |-> c.d,
         flag |-> IF t THEN Some(e.flag) ELSE NULL, payee |-> IF t THEN e.payee ELSE NULL,
         narration |-> IF t THEN Some(e.narration) ELSE NULL,
         description |-> IF t THEN Some(Description(e)) ELSE NULL,
         tags |-> IF t THEN SetCell(e.tags) ELSE NULL, links |-> IF t THEN SetCell(e.links) ELSE NULL,
         filename |-> StrOf(Lookup(e.meta, "filename")), lineno |-> IntOf(Lookup(e.meta, "lineno")),
         meta |-> MetaCell(e.meta),
         lk |-> [n \in 1..Len(keys) |-> [k |-> keys[n], m |-> Lookup(e.meta, keys[n])]]]

(* -- typed tables: the attributes of the directive -- *)
TypedRow(L, i) ==
    LET e == L[i] IN
    CASE e.k = "txn" ->
            [meta |-> MetaCell(e.meta), date |-> e.date, flag |-> Some(e.flag), payee |-> e.payee,
             narration |-> Some(e.narration), tags |-> SetCell(e.tags), links |-> SetCell(e.links)]
      [] e.k = "price" -> [meta |-> MetaCell(e.meta), date |-> e.date, currency |-> e.currency, amount |-> e.amount]
      [] e.k = "balance" ->
            [meta |-> MetaCell(e.meta), date |-> e.date, account |-> e.account, amount |-> e.amount,
             tolerance |-> e.tolerance, discrepancy |-> e.diff]
      [] e.k = "note" ->
            [meta |-> MetaCell(e.meta), date |-> e.date, account |-> e.account, comment |-> e.comment,
             tags |-> SetCell(e.tags), links |-> SetCell(e.links)]
      [] e.k = "event" -> [meta |-> MetaCell(e.meta), date |-> e.date, type |-> e.type, description |-> e.description]
      [] e.k = "document" ->
            [meta |-> MetaCell(e.meta), date |-> e.date, account |-> e.account, filename |-> e.filename,
             tags |-> SetCell(e.tags), links |-> SetCell(e.links)]
      [] e.k = "commodity" -> [meta |-> MetaCell(e.meta), date |-> e.date, name |-> e.currency]
      [] OTHER -> [meta |-> MetaCell(e.meta), date |-> e.date]

TypedRows(L, kind) == LET ix == OfKind(L, kind) IN [n \in 1..Len(ix) |-> TypedRow(L, ix[n])]

(* -- #accounts: the accounts named by an open or a close directive; open / close = index of the directive -- *)
DirectoryAccounts(L) == {L[i].account : i \in {x \in 1..Len(L) : L[x].k \in {"open", "close"}}}
AccountRow(L, a) ==
    [account |-> a, open |-> OpenIdx(L, a), close |-> CloseIdx(L, a),
     open_date |-> OpenDate(L, a), close_date |-> CloseDate(L, a),
     open_meta |-> LET o == OpenIdx(L, a) IN IF IsNull(o) THEN NULL ELSE MetaCell(L[o[1]].meta)]
AccountsRows(L) == {AccountRow(L, a) : a \in DirectoryAccounts(L)}
(* -- #commodities: one row per declared currency: the attributes of its commodity directive -- *)
DeclaredCurrencies(L) == {L[i].currency : i \in {x \in 1..Len(L) : L[x].k = "commodity"}}
CommoditiesRows(L) == {TypedRow(L, CommodityIdx(L, c)[1]) : c \in DeclaredCurrencies(L)}

PostingsRows(L, keys) == LET ps == Postings(L) IN [n \in 1..Len(ps) |-> PostingRow(L, ps[n][1], ps[n][2], keys)]
EntriesRows(L, keys) == [i \in 1..Len(L) |-> EntryRow(L, i, keys)]

TableRows(M, keys, t) ==
    CASE t = "postings" -> PostingsRows(M, keys)
      [] t = "entries" -> EntriesRows(M, keys)
      [] t = "accounts" -> AccountsRows(M)
      [] t = "commodities" -> CommoditiesRows(M)
      [] t = "transactions" -> TypedRows(M, "txn")
      [] t = "prices" -> TypedRows(M, "price")
      [] t = "balances" -> TypedRows(M, "balance")
      [] t = "notes" -> TypedRows(M, "note")
      [] t = "events" -> TypedRows(M, "event")
      [] t = "documents" -> TypedRows(M, "document")

(* everything the ten tables must show *)
Rows(L, keys) ==
    [postings |-> PostingsRows(L, keys), entries |-> EntriesRows(L, keys),
     transactions |-> TypedRows(L, "txn"), prices |-> TypedRows(L, "price"), balances |-> TypedRows(L, "balance"),
     notes |-> TypedRows(L, "note"), events |-> TypedRows(L, "event"), documents |-> TypedRows(L, "document"),
     accounts |-> AccountsRows(L), commodities |-> CommoditiesRows(L)]

TableKind == [transactions |-> "txn", prices |-> "price", balances |-> "balance", notes |-> "note",
              events |-> "event", documents |-> "document"]
TypedTables == DOMAIN TableKind
TableNames == {"postings", "entries", "accounts", "commodities"} \cup TypedTables

-----------------------------------------------------------------------------
(* ---- PART 3, declarative side: FROM qualifiers, prepared entries, history ---- *)
(* the qualifiers of a FROM clause: OPEN ON date, CLOSE ON date (date 0 = CLOSE without a date), CLEAR *)
NoQual == [open |-> NULL, close |-> NULL, clear |-> FALSE]
HasPrefix(str, pre) == Len(str) >= Len(pre) /\ SubSeq(str, 1, Len(pre)) = pre
IsNominal(a) == HasPrefix(a, "Income:") \/ HasPrefix(a, "Expenses:")
SynthMeta == << <<"filename", [t |-> "str", s |-> "<summarize>", n |-> <<0, 1>>]>>,
                <<"lineno", [t |-> "int", s |-> "", n |-> <<0, 1>>]>> >>
Synth(date, narr, acct) ==
    [k |-> "txn", date |-> date, meta |-> SynthMeta, flag |-> "S", payee |-> NULL, narration |-> narr,
     tags |-> Some(<<>>), links |-> Some(<<>>),
     postings |-> << [acct |-> acct, u |-> [n |-> <<0, 1>>, c |-> "XXX"], cost |-> NULL, price |-> NULL, flag |-> NULL,
                      meta |-> NULL] >>]
HasPostings(M) == \E i \in 1..Len(M) : NPost(M[i]) > 0
PostedAccounts(M) == UNION {{M[i].postings[j].acct : j \in 1..NPost(M[i])} : i \in 1..Len(M)}
NominalAccounts(M) == {a \in PostedAccounts(M) : IsNominal(a)}
LastDate(M) == IF Len(M) = 0 THEN 1 ELSE M[Len(M)].date
(* The entries a table with qualifiers q walks.  C11 does not state what beancount.ops.summarize computes; this is a
   stand-in with its SHAPE only (OPEN: the transactions before the date are replaced by one synthetic opening
   transaction; CLOSE ON: the directives from the date on are dropped; CLEAR: a synthetic transfer transaction is
   appended when an income / expenses account was posted to): what matters here is that the prepared entries are in
   general NOT the ledger, and that without qualifiers they ARE the ledger. *)
Prepared(M, q) ==
    IF q = NoQual THEN M
    ELSE LET b1 == IF IsNull(q.open) THEN M
                   ELSE LET old == SelectSeq(M, LAMBDA e : e.date < q.open[1])
                            kept == SelectSeq(M, LAMBDA e : e.date >= q.open[1] \/ ~IsTxn(e))
                        IN  (IF HasPostings(old) THEN <<Synth(q.open[1] - 1, "Opening balance", "Equity:Opening-Balances")>>
                             ELSE <<>>) \o kept
             b2 == IF IsNull(q.close) \/ q.close = Some(0) THEN b1 ELSE SelectSeq(b1, LAMBDA e : e.date < q.close[1])
             b3 == IF q.clear /\ NominalAccounts(b2) # {}
                   THEN Append(b2, Synth(LastDate(b2), "Transfer balance", CHOOSE a \in NominalAccounts(b2) : TRUE))
                   ELSE b2
         IN  b3

(* an earlier statement on the connection: its form and its qualifiers.  Forms with a FROM clause on the default table:
   "count" (SELECT count), "agg" (GROUP BY account), "rows" (with a FROM expression), "balances" (BALANCES FROM),
   "error" (fails to compile after the table was derived), "partial" (cursor abandoned after one row); forms without:
   "tableref" (FROM #postings), "default" (no FROM clause at all), "entries" (FROM #entries).
   THE clause: the history is not an argument of what the tables show *)
FromForms == {"count", "agg", "rows", "balances", "error", "partial"}
RefForms == {"tableref", "default", "entries"}
St(form, q) == [form |-> form, open |-> q.open, close |-> q.close, clear |-> q.clear]
IsHistory(h) ==
    \A n \in 1..Len(h) :
        /\ h[n].form \in FromForms \cup RefForms
        /\ h[n].form \in RefForms => (IsNull(h[n].open) /\ IsNull(h[n].close) /\ ~h[n].clear)
RowsAfter(history, M, keys) == Rows(M, keys)
TableAfter(history, M, keys, t) == TableRows(M, keys, t)

-----------------------------------------------------------------------------
(* ---- PART 2: the mechanism ---- *)
VARIABLES
    lx,        \* the ledger under iteration, as indices into Alpha
    tab,       \* the table being iterated
    ei,        \* loop position in the entries (0 = before the first)
    pj,        \* loop position in the postings of entry ei
    ctx,       \* THE row context: [rowid, entry, posting] -- one object, mutated and yielded again and again
    emitted,   \* what the consumer evaluated at each yield: a copy of ctx (postings / entries), an entry index (typed)
    dir,       \* open/close map: sequence of <<account, open index or 0, close index or 0>> in insertion order
    done,
    conn       \* the connection: [n   = statements started so far,
               \*                  ask = the qualifiers the running statement's text carries,
               \*                  reg = the qualifiers stored on the REGISTERED postings table (never any, as shipped),
               \*                  cur = the qualifiers stored on the table object the running statement iterates]

vars == <<lx, tab, ei, pj, ctx, emitted, dir, done, conn>>

LedgerOf(ix) == [n \in 1..Len(ix) |-> Alpha[ix[n]]]
Base == LedgerOf(lx)                                   \* the ledger attached to the connection
L == IF conn.cur = NoQual THEN Base ELSE Prepared(Base, conn.cur)      \* table.prepare(): what the iteration walks
LenL == IF conn.cur = NoQual THEN Len(lx) ELSE Len(Prepared(Base, conn.cur))
Decl == IF conn.ask = NoQual THEN Base ELSE Prepared(Base, conn.ask)    \* what the statement's table must present
Conn0 == [n |-> 0, ask |-> NoQual, reg |-> NoQual, cur |-> NoQual]

(* the ledger is first written down directive by directive (tab = "build": every well-formed ledger over Alpha of
   up to MaxLen directives is reached), then one table is chosen and iterated *)
Init ==
    /\ lx = <<>>
    /\ tab = "build"
    /\ ei = 0 /\ pj = 0
    /\ ctx = [rowid |-> 0, entry |-> 0, posting |-> 0]
    /\ emitted = <<>>
    /\ dir = <<>>
    /\ done = FALSE
    /\ conn = Conn0

Build ==
    /\ tab = "build" /\ Len(lx) < MaxLen /\ conn.n = 0
    /\ \E letter \in 1..Len(Alpha) :
          /\ WellFormed(LedgerOf(Append(lx, letter)))
          /\ lx' = Append(lx, letter)
    /\ UNCHANGED <<tab, ei, pj, ctx, emitted, dir, done, conn>>
(* compile one statement: the table is looked up in the connection's registry; a FROM clause (only possible on the
   default table, postings) sets its qualifiers -- none included -- on a COPY of the registered table
   (BeanTable.update: copy.copy + setattr); FROM #table and statements without FROM use the registered object *)
Start ==
    /\ tab = "build" /\ conn.n < MaxStmts
    /\ \E t \in TableNames, q \in QualOpts :
       \E viaFrom \in IF t = "postings" THEN BOOLEAN ELSE {FALSE} :
          /\ ~viaFrom => q = NoQual
          /\ tab' = t
          /\ LET reg2 == IF Mech = "updateinplace" /\ viaFrom THEN q ELSE conn.reg
             IN  conn' = [n |-> conn.n + 1, ask |-> q, reg |-> reg2,
                          cur |-> IF t # "postings" THEN NoQual ELSE IF viaFrom /\ Mech # "updateinplace" THEN q ELSE reg2]
    /\ UNCHANGED <<lx, ei, pj, ctx, emitted, dir, done>>
(* the statement is finished (all rows fetched); the next one is compiled on the same connection: a new iteration with
   a new row context -- nothing but the registry survives *)
NextStatement ==
    /\ done /\ conn.n < MaxStmts
    /\ tab' = "build" /\ ei' = 0 /\ pj' = 0
    /\ ctx' = [rowid |-> 0, entry |-> 0, posting |-> 0]
    /\ emitted' = <<>> /\ dir' = <<>> /\ done' = FALSE
    /\ conn' = [conn EXCEPT !.ask = NoQual, !.cur = NoQual]
    /\ UNCHANGED lx

AtEnd == ei = LenL
InnerLeft == ei > 0 /\ IsTxn(L[ei]) /\ pj < Len(L[ei].postings)

(* EntriesTable.__iter__: for entry in entries: context.entry = entry; context.rowid += 1; yield context *)
NextEntryE ==
    /\ tab = "entries" /\ ~done /\ ~AtEnd
    /\ ei' = ei + 1
    /\ ctx' = [ctx EXCEPT !.entry = ei + 1, !.rowid = @ + 1]
    /\ emitted' = Append(emitted, ctx')
    /\ UNCHANGED <<lx, tab, pj, dir, done, conn>>

(* PostingsTable.__iter__, outer loop: if isinstance(entry, Transaction): context.entry = entry *)
NextEntryP ==
    /\ tab = "postings" /\ ~done /\ ~AtEnd /\ ~InnerLeft
    /\ ei' = ei + 1
    /\ pj' = IF Mech = "skipfirst" /\ IsTxn(L[ei + 1]) /\ Len(L[ei + 1].postings) > 1 THEN 1 ELSE 0
    /\ ctx' = IF IsTxn(L[ei + 1])
              THEN [ctx EXCEPT !.entry = ei + 1, !.rowid = IF Mech = "rowidperentry" THEN @ + 1 ELSE @]
              ELSE ctx
    /\ UNCHANGED <<lx, tab, emitted, dir, done, conn>>

(* inner loop: context.rowid += 1; context.posting = posting; yield context *)
NextPosting ==
    /\ tab = "postings" /\ ~done /\ InnerLeft
    /\ pj' = pj + 1
    /\ ctx' = [ctx EXCEPT !.rowid = IF Mech = "rowidperentry" THEN @ ELSE @ + 1, !.posting = pj + 1]
    /\ emitted' = Append(emitted, ctx')
    /\ UNCHANGED <<lx, tab, ei, dir, done, conn>>

(* sources/beancount.py Table.__iter__: yield the entries that are instances of the table's datatype *)
NextTyped ==
    /\ tab \in TypedTables /\ ~done /\ ~AtEnd
    /\ ei' = ei + 1
    /\ emitted' = IF L[ei + 1].k = TableKind[tab] THEN Append(emitted, ei + 1) ELSE emitted
    /\ UNCHANGED <<lx, tab, pj, ctx, dir, done, conn>>

(* getters.get_account_open_close: a map account -> [open, close]; an earlier-dated (or, on equal dates, the
   earlier listed) directive wins over a later duplicate (Mech = "listedopen": the slot is filled once, by the directive
   listed first whatever its date -- deliberately broken) *)
DirPos(a) == IF \E n \in 1..Len(dir) : dir[n][1] = a THEN CHOOSE n \in 1..Len(dir) : dir[n][1] = a ELSE 0
NextDirectory ==
    /\ tab = "accounts" /\ ~done /\ ~AtEnd
    /\ ei' = ei + 1
    /\ LET e == L[ei + 1] IN
       IF e.k \notin {"open", "close"} THEN dir' = dir
       ELSE LET slot == IF e.k = "open" THEN 2 ELSE 3
                n == DirPos(e.account)
                d0 == IF n = 0 THEN Append(dir, <<e.account, 0, 0>>) ELSE dir
                m == IF n = 0 THEN Len(d0) ELSE n
                prev == d0[m][slot]
                keep == prev # 0 /\ (Mech = "listedopen" \/ L[prev].date <= e.date)
            IN dir' = [d0 EXCEPT ![m][slot] = IF keep THEN prev ELSE ei + 1]
    /\ UNCHANGED <<lx, tab, pj, ctx, emitted, done, conn>>

(* getters.get_commodity_directives: {entry.currency: entry for entry in entries if Commodity}: one slot per
   currency, at the position of its first directive, holding the last one (Mech = "firstcommodity": dict.setdefault,
   the slot keeps the first one -- deliberately broken) *)
NextCommodity ==
    /\ tab = "commodities" /\ ~done /\ ~AtEnd
    /\ ei' = ei + 1
    /\ LET e == L[ei + 1] IN
       IF e.k # "commodity" THEN emitted' = emitted
       ELSE IF \E n \in 1..Len(emitted) : L[emitted[n]].currency = e.currency
            THEN emitted' = [n \in 1..Len(emitted) |->
                                IF L[emitted[n]].currency = e.currency /\ Mech # "firstcommodity" THEN ei + 1
                                ELSE emitted[n]]
            ELSE emitted' = Append(emitted, ei + 1)
    /\ UNCHANGED <<lx, tab, pj, ctx, dir, done, conn>>

Finish ==
    /\ tab # "build" /\ ~done /\ AtEnd /\ ~(tab = "postings" /\ InnerLeft)
    /\ done' = TRUE
    /\ UNCHANGED <<lx, tab, ei, pj, ctx, emitted, dir, conn>>

Next == Build \/ Start \/ NextStatement \/ NextEntryE \/ NextEntryP \/ NextPosting \/ NextTyped \/ NextDirectory \/ NextCommodity \/ Finish

Spec == Init /\ [][Next]_vars

(* the rows the consumer saw *)
MechRows ==
    CASE tab = "build" -> <<>>
      [] tab = "postings" ->
            [n \in 1..Len(emitted) |->
                [PostingRow(L, emitted[n].entry, emitted[n].posting, Keys)
                    EXCEPT !.meta = OptMetaCell(ColMeta(L[emitted[n].entry].postings[emitted[n].posting].meta))]]
      [] tab = "entries" ->
            [n \in 1..Len(emitted) |->
                [EntryRow(L, emitted[n].entry, Keys) EXCEPT !.meta = OptMetaCell(ColMeta(Some(L[emitted[n].entry].meta)))]]
      [] tab = "accounts" ->
            {[account |-> dir[n][1], open |-> Opt0(dir[n][2]), close |-> Opt0(dir[n][3]),
              open_date |-> IF dir[n][2] = 0 THEN NULL ELSE Some(L[dir[n][2]].date),
              close_date |-> IF dir[n][3] = 0 THEN NULL ELSE Some(L[dir[n][3]].date),
              open_meta |-> IF dir[n][2] = 0 THEN NULL ELSE MetaCell(L[dir[n][2]].meta)] : n \in 1..Len(dir)}
      [] tab = "commodities" -> {TypedRow(L, emitted[n]) : n \in 1..Len(emitted)}
      [] OTHER -> [n \in 1..Len(emitted) |-> TypedRow(L, emitted[n])]

(* ---- the lookups, as the code does them ---- *)
(* compiler.py rewrites meta(k) -> getitem(meta, k), entry_meta(k) -> getitem(entry.meta, k), any_meta(k) ->
   getitem(meta, k, getitem(entry.meta, k)); query_env.open_meta / currency_meta (= commodity_meta) fetch the directive
   from the accounts / commodities directory (the maps the tables of accounts and commodities were built with when the
   ledger was attached: OpenSlot / CommoditySlot fold the ledger the way NextDirectory / NextCommodity do) and call
   entry.meta.get(key).  Everything ends in dict.get(key): a scan
   of the dictionary for THE key as it was typed in the query (Mech = "foldcase": the key is lower-cased first --
   deliberately broken, "keys are lower case anyway").  A dictionary that is None gives None whatever the default;
   a key that is present with the value None gives None, not the default. *)
(* the `meta` column of #postings / #entries: context.posting.meta / context.entry.meta -- the dictionary object itself
   (Mech = "publicmeta": a copy without the keys Beancount wrote itself, "they are not part of the ledger" -- deliberately
   broken; meta(k) and any_meta(k) read THIS column, entry_meta(k) reads the `entry` column and the directive's attribute):
   ColMeta, defined with IsOwnKey above *)
KeyAsUsed(k) == IF Mech = "foldcase" THEN Lower(k) ELSE k
RECURSIVE ScanGet(_, _, _, _)
ScanGet(meta, k, n, default) ==        \* the pair written last wins, as in a dict built from the pairs
    IF n = 0 THEN default ELSE IF meta[n][1] = k THEN Val(meta[n][2]) ELSE ScanGet(meta, k, n - 1, default)
DictGet(ometa, k, default) == IF IsNull(ometa) THEN NULL ELSE ScanGet(ometa[1], KeyAsUsed(k), Len(ometa[1]), default)
RECURSIVE OpenSlot(_, _, _)
OpenSlot(M, a, n) ==           \* the open directive stored for account a after the first n directives were folded (0: none)
    IF n = 0 THEN 0
    ELSE LET prev == OpenSlot(M, a, n - 1) IN
         IF M[n].k = "open" /\ M[n].account = a
         THEN (IF prev # 0 /\ (Mech = "listedopen" \/ M[prev].date <= M[n].date) THEN prev ELSE n)
         ELSE prev
RECURSIVE CommoditySlot(_, _, _)
CommoditySlot(M, c, n) ==      \* the commodity directive stored for currency c after the first n directives
    IF n = 0 THEN 0
    ELSE LET prev == CommoditySlot(M, c, n - 1) IN
         IF M[n].k = "commodity" /\ M[n].currency = c
         THEN (IF prev # 0 /\ Mech = "firstcommodity" THEN prev ELSE n)
         ELSE prev
(* the five lookup functions for posting j of M[i] and key k, evaluated that way *)
MechLookup(M, i, j, k) ==
    LET t == M[i] p == t.postings[j]
        o == Opt0(OpenSlot(M, p.acct, Len(M))) c == Opt0(CommoditySlot(M, p.u.c, Len(M)))
    IN  [m |-> DictGet(ColMeta(p.meta), k, NULL), em |-> DictGet(Some(t.meta), k, NULL),
         am |-> DictGet(ColMeta(p.meta), k, DictGet(Some(t.meta), k, NULL)),
         om |-> IF IsNull(o) THEN NULL ELSE DictGet(Some(M[o[1]].meta), k, NULL),
         cm |-> IF IsNull(c) THEN NULL ELSE DictGet(Some(M[c[1]].meta), k, NULL)]

-----------------------------------------------------------------------------
(* ---- the property, as invariants over the mechanism and laws over the declarative part ---- *)
IsPrefix(s, t) == Len(s) <= Len(t) /\ s = SubSeq(t, 1, Len(s))

TypeOK ==
    /\ ei \in 0..LenL /\ pj \in 0..4 /\ ctx.rowid \in 0..(5 * (MaxLen + 1)) /\ done \in BOOLEAN
    /\ conn.n \in 0..MaxStmts /\ conn.ask \in QualOpts /\ conn.reg \in QualOpts /\ conn.cur \in QualOpts

(* the mechanism yields exactly the declarative rows, in order -- at the end, and a prefix of them at any time *)
MechEqDecl ==
    /\ tab = "postings" => IsPrefix([n \in 1..Len(emitted) |-> <<emitted[n].entry, emitted[n].posting>>], Postings(Decl))
    /\ tab = "entries" => \A n \in 1..Len(emitted) : emitted[n].entry = n
    /\ tab \in TypedTables => IsPrefix(emitted, OfKind(Decl, TableKind[tab]))
    /\ (done /\ tab # "build") => MechRows = TableRows(Decl, Keys, tab)

(* every lookup function, evaluated the way the code does, gives for every yielded posting and EVERY key of Keys
   (present ones, missing ones, keys that differ from a present one in the case of a letter only) what the declarative
   lookup gives; any_meta may take either reading of "postings without metadata" *)
LookupsEqDecl ==
    (done /\ tab = "postings") =>
    \A n \in 1..Len(emitted), q \in 1..Len(Keys) :
        LET i == emitted[n].entry j == emitted[n].posting k == Keys[q]
            t == L[i] p == t.postings[j]
            mech == MechLookup(L, i, j, k)
        IN  /\ mech.m = Meta(p, k) /\ mech.em = EntryMeta(t, k)
            /\ mech.om = OpenMeta(L, p.acct, k) /\ mech.cm = CommodityMeta(L, p.u.c, k)
            /\ mech.am \in {AnyMeta(t, p, k), AnyMetaAlt(t, p, k)}

(* THE clause of part 3: a statement without qualifiers sees the ledger's tables, whatever statements (with whatever
   qualifiers) were executed on the connection before it; the registered table never carries qualifiers *)
HistoryFree == (done /\ tab # "build" /\ conn.ask = NoQual) => MechRows = TableAfter(conn.n - 1, Base, Keys, tab)
RegistryClean == conn.reg = NoQual

(* rowid identifies the yielded row: 1, 2, 3 ... (the row context hashes by it) *)
RowidInv == tab \in {"postings", "entries"} => \A n \in 1..Len(emitted) : emitted[n].rowid = n

(* laws of the declarative part, stated differently from the definitions (checked once per ledger and table, in
   the state right after Start) *)
RECURSIVE SumPost(_, _)
SumPost(M, i) == IF i > Len(M) THEN 0 ELSE NPost(M[i]) + SumPost(M, i + 1)
LexLess(a, b) == a[1] < b[1] \/ (a[1] = b[1] /\ a[2] < b[2])
Shift(ps, s) == [n \in 1..Len(ps) |-> <<ps[n][1] + s, ps[n][2]>>]

FlattenLaws ==
    (ei = 0 /\ tab = "postings" /\ conn.n = 1) =>
    LET M == L ps == Postings(M) IN
    /\ Len(ps) = SumPost(M, 1)                                                     \* one row per posting
    /\ \A n \in 1..Len(ps) : IsTxn(M[ps[n][1]]) /\ ps[n][2] \in 1..Len(M[ps[n][1]].postings)
    /\ \A a, b \in 1..Len(ps) : a < b => LexLess(ps[a], ps[b])                       \* ledger order, no duplicates
    /\ \A i \in 1..Len(M) : IsTxn(M[i]) => \A j \in 1..Len(M[i].postings) : \E n \in 1..Len(ps) : ps[n] = <<i, j>>
    /\ \A s \in 0..Len(M) :                                                        \* flattening is a homomorphism
          ps = Postings(SubSeq(M, 1, s)) \o Shift(Postings(SubSeq(M, s + 1, Len(M))), s)

PartitionLaws ==
    (ei = 0 /\ tab = "entries" /\ conn.n = 1) =>
    LET M == L IN
    /\ \A k \in Kinds : LET ix == OfKind(M, k) IN
          /\ \A n \in 1..Len(ix) : M[ix[n]].k = k
          /\ \A a, b \in 1..Len(ix) : a < b => ix[a] < ix[b]
          /\ \A i \in 1..Len(M) : M[i].k = k => \E n \in 1..Len(ix) : ix[n] = i
    /\ \A i \in 1..Len(M) : Cardinality({k \in Kinds : \E n \in 1..Len(OfKind(M, k)) : OfKind(M, k)[n] = i}) = 1
    \* the directories: one row per account named by an open / close directive, one row per declared currency; each
    \* shows a directive of that account / currency -- THE directive where there is one only -- and no open directive
    \* of the account is dated before the one shown, no commodity directive of the currency is listed after the one shown
    /\ Cardinality(AccountsRows(M)) = Cardinality(DirectoryAccounts(M))
    /\ Cardinality(CommoditiesRows(M)) = Cardinality(DeclaredCurrencies(M))
    /\ \A r \in AccountsRows(M) :
          /\ IsNull(r.open) <=> OpensOf(M, r.account) = {}
          /\ IsNull(r.close) <=> ClosesOf(M, r.account) = {}
          /\ ~IsNull(r.open) => /\ r.open[1] \in OpensOf(M, r.account)
                                /\ \A j \in OpensOf(M, r.account) : M[r.open[1]].date <= M[j].date
                                /\ r.open_date = Some(M[r.open[1]].date) /\ r.open_meta = MetaCell(M[r.open[1]].meta)
          /\ ~IsNull(r.close) => /\ r.close[1] \in ClosesOf(M, r.account)
                                 /\ \A j \in ClosesOf(M, r.account) : M[r.close[1]].date <= M[j].date
    /\ \A c \in DeclaredCurrencies(M) :
          LET S == CommoditiesOf(M, c) IN
          /\ TypedRow(M, CHOOSE i \in S : \A j \in S : j <= i) \in CommoditiesRows(M)
          /\ Cardinality(S) = 1 => \A i \in S : CommodityIdx(M, c) = Some(i)
    /\ \A name \in TypedTables :                       \* a typed table shows what #entries shows for that type
          LET ix == OfKind(M, TableKind[name]) IN
          \A n \in 1..Len(ix) : /\ EntryRow(M, ix[n], Keys).type = TypeName(TableKind[name])
                                /\ EntryRow(M, ix[n], Keys).date = TypedRow(M, ix[n]).date
                                /\ EntryRow(M, ix[n], Keys).meta = TypedRow(M, ix[n]).meta

NullLaws ==
    (ei = 0 /\ tab = "postings" /\ conn.n = 1) =>
    LET M == L ps == Postings(M) IN
    \A n \in 1..Len(ps) :
        LET t == M[ps[n][1]] p == t.postings[ps[n][2]] r == PostingRow(M, ps[n][1], ps[n][2], Keys) IN
        /\ IsNull(p.meta) => /\ IsNull(r.filename) /\ IsNull(r.lineno) /\ IsNull(r.location) /\ IsNull(r.meta)
                             /\ \A q \in 1..Len(Keys) : IsNull(r.lk[q].m) /\ IsNull(r.lk[q].am_alt)
        \* the meta column is the whole dictionary: every pair of it, the ones Beancount wrote itself included
        /\ ~IsNull(p.meta) => /\ ~IsNull(r.meta)
                              /\ \A q \in 1..Len(p.meta[1]) : p.meta[1][q] \in r.meta[1]
                              /\ Cardinality(r.meta[1]) = Len(p.meta[1])
        /\ IsNull(p.cost) => IsNull(r.cost_number) /\ IsNull(r.cost_currency) /\ IsNull(r.cost_date)
                             /\ IsNull(r.position.cost) /\ IsNull(r.cost_label_alt)
        /\ ~IsNull(p.cost) => r.cost_label = r.cost_label_alt /\ r.cost_currency = Some(r.weight.c)
        /\ (IsNull(p.cost) /\ ~IsNull(p.price)) => r.weight.c = p.price[1].c
        /\ (IsNull(p.cost) /\ IsNull(p.price)) => r.weight = r.position.u
        /\ \A q \in 1..Len(Keys) :
              LET k == Keys[q] x == r.lk[q]
                  inP == ~IsNull(p.meta) /\ HasKey(p.meta[1], k)
                  inT == HasKey(t.meta, k)
              IN /\ inP => x.m = Val(RawGet(p.meta[1], k))            \* a present key -- whoever wrote it -- is found
                 /\ inT => x.em = Val(RawGet(t.meta, k))
                 /\ ~inP => IsNull(x.m)                              \* missing key
                 /\ ~inT => IsNull(x.em)
                 /\ (~inP /\ ~inT) => IsNull(x.am)
                 /\ inP => x.am = x.m                                 \* the posting first ...
                 /\ (~inP /\ inT) => x.am = x.em                      \* ... then the transaction
                 /\ IsNull(OpenIdx(M, p.acct)) => IsNull(x.om) /\ IsNull(r.open_date)
                 /\ IsNull(CommodityIdx(M, p.u.c)) => IsNull(x.cm)
                 \* the account-open and commodity lookups are lookups in THAT directive's dictionary, key for key
                 \* (of several: the open directive no other open directive of the account precedes in time, nor in
                 \* the ledger on the same date; the commodity directive no other one of the currency follows)
                 /\ \A i \in 1..Len(M) :
                       /\ (/\ M[i].k = "open" /\ M[i].account = p.acct
                           /\ ~\E j \in 1..Len(M) : /\ j # i /\ M[j].k = "open" /\ M[j].account = p.acct
                                                    /\ (M[j].date < M[i].date \/ (M[j].date = M[i].date /\ j < i))) =>
                             /\ x.om = IF HasKey(M[i].meta, k) THEN Val(RawGet(M[i].meta, k)) ELSE NULL
                             /\ r.open_date = Some(M[i].date)
                       /\ (/\ M[i].k = "commodity" /\ M[i].currency = p.u.c
                           /\ ~\E j \in (i + 1)..Len(M) : M[j].k = "commodity" /\ M[j].currency = p.u.c) =>
                             (x.cm = IF HasKey(M[i].meta, k) THEN Val(RawGet(M[i].meta, k)) ELSE NULL)
        /\ \A a \in {t.postings[x].acct : x \in 1..Len(t.postings)} :   \* siblings, not the posting itself
              a \in r.other_accounts <=> \E x \in 1..Len(t.postings) : x # ps[n][2] /\ t.postings[x].acct = a
        /\ r.year * 10000 + r.month * 100 + r.day > 0 /\ r.month \in 1..12 /\ r.day \in 1..31

Laws == FlattenLaws /\ PartitionLaws /\ NullLaws

(* rational and calendar helpers: laws on a grid (evaluated once, in the initial state) *)
HelperLaws ==
    (ei = 0 /\ lx = <<>> /\ tab = "build") =>
    /\ Civil(1) = [y |-> 1, m |-> 1, d |-> 1]
    /\ Civil(719163) = [y |-> 1970, m |-> 1, d |-> 1]
    /\ Civil(737484) = [y |-> 2020, m |-> 2, d |-> 29]
    /\ Civil(737485) = [y |-> 2020, m |-> 3, d |-> 1]
    /\ Civil(693595) = [y |-> 1899, m |-> 12, d |-> 31]
    /\ Civil(730119) = [y |-> 1999, m |-> 12, d |-> 31] /\ Civil(730120) = [y |-> 2000, m |-> 1, d |-> 1]
    /\ \A o \in 730000..740000 :      \* consecutive days: the date advances by one day
          LET a == Civil(o) b == Civil(o + 1) IN
          \/ (b.y = a.y /\ b.m = a.m /\ b.d = a.d + 1)
          \/ (b.y = a.y /\ b.m = a.m + 1 /\ b.d = 1 /\ a.d >= 28)
          \/ (b.y = a.y + 1 /\ b.m = 1 /\ b.d = 1 /\ a.m = 12 /\ a.d = 31)
    /\ RatMul(<<1, 2>>, <<2, 3>>) = <<1, 3>> /\ RatMul(<<-3, 4>>, <<2, 9>>) = <<-1, 6>>
    /\ RatMul(<<0, 1>>, <<5, 7>>) = <<0, 1>> /\ RatMul(<<-5, 2>>, <<-4, 5>>) = <<2, 1>>
    /\ RatMulFits(<<2147483647, 1>>, <<1, 2147483647>>) /\ ~RatMulFits(<<65536, 1>>, <<32768, 1>>)
    /\ \A a \in -6..6, b \in 1..6, c \in -6..6, d \in 1..6 :
          (Gcd(Abs(a), b) = 1 /\ Gcd(Abs(c), d) = 1) =>
              LET r == RatMul(<<a, b>>, <<c, d>>) IN r[1] * b * d = a * c * r[2] /\ r[2] > 0 /\ Gcd(Abs(r[1]), r[2]) = 1

=============================================================================
