\* non-vacuity: ONE parser object used by every parse() call of the process -- TLC must find the schedule on which a
\* thread (own connection, own ledger) is descheduled inside the parser and goes on reading the other thread's text
CONSTANTS
  Threads = {1, 2}
  CompilerScope = "per execution"
  ColumnMemo = "none"
  ParserScope = "process-wide"
  ScanMemo = "none"
  OperandScope = "per call"
  SubqueryColumns = "per table object"
  ResultScope = "per execute call"
  JobSet = "parser"
INIT Init
NEXT Next
INVARIANTS OwnStatement
CHECK_DEADLOCK FALSE
