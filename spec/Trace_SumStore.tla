--------------------------- MODULE Trace_SumStore ---------------------------
(* Code -> spec for the inventory-valued operand of sum() (C12).  One ndjson line = one table holding inventories
   (recorded BEFORE anything is executed) and the history of aggregate statements executed on it, each with the rows
   it returned:

   isum  {id, sc, prices, tab: [[g, null, inventory]], stmts: [{nodes: [[kind, f]], grouped, having, limit, rows: [[key, [inventory..]]]}]}

   Every statement of the history is judged with InvSum!Expected (the operators TLC checked the mechanism SumStore
   against): the result depends on the table as defined and the statement only.  A line that is not explained is
   reported as a JSON verdict and the run goes on; the last step prints a "consumed" verdict. *)
EXTENDS InvSum, TLC, Json, IOUtils

TraceLog == ndJsonDeserialize(IOEnv.TRACE_FILE)

VARIABLES l, nbad
tvars == <<l, nbad>>

Range(s) == {s[n] : n \in 1..Len(s)}
TTab(e) == [n \in 1..Len(e.tab) |-> Row(e.tab[n][1], e.tab[n][2], InvOfSeq(e.tab[n][3]))] \o <<>>
TStmt(x) == StmtL(x.nodes, x.grouped, x.having, x.limit)
ObsSet(x) == { [key |-> x.rows[n][1], vals |-> [m \in 1..Len(x.rows[n][2]) |-> InvOfSeq(x.rows[n][2][m])]] :
                 n \in 1..Len(x.rows) }
StmtOK(tab, x, pr, sc) ==
    LET obs == ObsSet(x) IN Cardinality(obs) = Len(x.rows) /\ Conforms(obs, tab, TStmt(x), pr, sc)
(* for the report: the first node whose value differs in a group both sides have; 0: the groups themselves differ *)
BadNode(tab, x, pr, sc) ==
    LET exp == Expected(tab, TStmt(x), pr, sc)
        obs == ObsSet(x)
        ek == {r.key : r \in exp}
        ok == {r.key : r \in obs}
        keysbad == IF x.limit = 0 THEN ek # ok
                   ELSE ~(ok \subseteq ek) \/ Cardinality(ok) # MinOf(x.limit, Cardinality(ek))
    IN IF keysbad \/ Cardinality(obs) # Len(x.rows) \/ Cardinality(ok) # Len(x.rows) THEN 0
       ELSE LET B == {m \in 1..Len(x.nodes) : \E r \in exp, o \in obs : r.key = o.key /\ r.vals[m] # o.vals[m]}
            IN IF B = {} THEN 0 ELSE CHOOSE m \in B : \A k \in B : m <= k

TInit == l = 1 /\ nbad = 0
TNext ==
    IF l = Len(TraceLog) + 1
    THEN /\ PrintT(ToJson([verdict |-> "consumed", lines |-> l - 1, bad |-> nbad]))
         /\ l' = l + 1 /\ UNCHANGED nbad
    ELSE
    /\ l <= Len(TraceLog)
    /\ l' = l + 1
    /\ LET e == TraceLog[l]
           tab == TTab(e)
           pr == Range(e.prices)
           B == {n \in 1..Len(e.stmts) : ~StmtOK(tab, e.stmts[n], pr, e.sc)}
       IN IF B = {} THEN UNCHANGED nbad
          ELSE LET n == CHOOSE n \in B : \A k \in B : n <= k
               IN /\ PrintT(ToJson([verdict |-> "rejected", id |-> e.id, line |-> l, stmt |-> n,
                                    node |-> BadNode(tab, e.stmts[n], pr, e.sc), nbadstmts |-> Cardinality(B)]))
                  /\ nbad' = nbad + 1
=============================================================================
