\* non-vacuity: CLEAR applied before CLOSE -- TLC must find a ledger where the period report is wrong
CONSTANTS
  Base <- MCBase
  KeyTab <- MCKeyTab
  CurSeq <- MCCurSeq
  Special <- MCSpecial
  Ledgers = {}
  OpenArgs <- Open05
  CloseArgs <- Close05
  ClearArgs = {TRUE, FALSE}
  Filters <- FNone
  Order <- OrderClearFirst
  CompileMode = "stated"
  Inners <- InnersNone
  ScopeMode = "stated"
  Doors <- DoorsApi
  HookMode = "stated"
INIT InitCover
NEXT Next
INVARIANTS KeepInv BalanceSheetInv IncomeInv EquityInv TxBalanceInv FilterInv CompileInv SortedInv ExpectInv
CHECK_DEADLOCK FALSE
