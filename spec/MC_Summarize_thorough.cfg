\* thorough: <= 2 transactions on dates 2..5; 3 transactions (729 template triples on dates 2..4, 4 templates on 2..5);
\* 4 transactions over 3 templates; d, e in 1..6, all clause subsets
CONSTANTS
  Base <- MCBase
  KeyTab <- MCKeyTab
  CurSeq <- MCCurSeq
  Special <- MCSpecial
  Ledgers = {}
  OpenArgs <- Open06
  CloseArgs <- Close06
  ClearArgs = {TRUE, FALSE}
  Filters <- FNone
  Order <- OrderStated
  CompileMode = "stated"
  Inners <- InnersNone
  ScopeMode = "stated"
  Doors <- DoorsApi
  HookMode = "stated"
INIT InitThorough
NEXT Next
INVARIANTS KeepInv BalanceSheetInv IncomeInv EquityInv TxBalanceInv LayoutInv FilterInv CompileInv SortedInv ExpectInv
CHECK_DEADLOCK FALSE
