\* non-vacuity: the parenthesis table deliberately wrong (subright); TLC must reject
CONSTANTS
  Variant = "subright"
  MaxDepth = 2
  FullDepth = 0
  CtxDepth = 0
  StmtFull = FALSE
INIT InitSpine
NEXT NextSpine
INVARIANTS RoundTrip
CHECK_DEADLOCK FALSE
