----------------------------- MODULE MC_Parser -----------------------------
(* Exhaustive instance of Parser: every expression spine up to MaxDepth (every parent x child x position; all
   operators up to FullDepth, one representative per precedence class above) placed in every kind of expression
   slot, and every clause combination of SELECT / BALANCES / JOURNAL / PRINT; the round trip Parse o Print = Abs
   in the three styles, minimality of the parentheses Print deems necessary, no chaining at the comparison level. *)
EXTENDS Parser

CONSTANTS MaxDepth,     \* spine depth
          FullDepth,    \* wraps applied below this depth use all 15 binary operators
          CtxDepth,     \* spines up to this depth are placed in every expression slot, deeper ones as a target only
          StmtFull      \* TRUE: the full product of clause options; FALSE: front half and back half separately
VARIABLES fam, e, d, q
vars == <<fam, e, d, q>>

X == Col("x")
SelOf(ex) == Select(FALSE, FALSE, <<Target(ex, <<>>)>>, <<>>, <<>>, <<>>, <<>>, <<>>, <<>>)
Q0 == SelOf(X)
I1 == Lit(INT(<<1>>))
D1 == <<2020, 1, 2>>
D2 == <<2021, 12, 31>>

Leaves == {Col("a"), I1, SubSel(Q0), LitList(<<INT(<<1>>), STR("s1")>>), Call("f", <<X>>)}
Sibs == {Col("b"), Lit(INT(<<2>>))}
AllBin == CmpOps \cup AddOps \cup MulOps
RepBin == {"lt", "in", "add", "sub", "mul", "mod"}
Wraps(ex, ops, sibs) ==
    { Un(o, ex) : o \in {"not", "neg", "isnull", "isnotnull"} }
    \cup { Attr(ex, "n"), Sub(ex, "s1"), Call("g", <<ex>>), SubSel(SelOf(ex)), Or(<<Col("b"), ex, Col("c")>>) }
    \cup UNION { { Or(<<ex, x>>), Or(<<x, ex>>), And(<<ex, x>>), And(<<x, ex>>),
                   Between(ex, x, x), Between(x, ex, x), Between(x, x, ex),
                   Call("g", <<ex, x>>), Call("g", <<x, ex>>) }
                 \cup { Bin(o, ex, x) : o \in ops } \cup { Bin(o, x, ex) : o \in ops } : x \in sibs }

SelWith(fr, wh, gr, od) == Select(FALSE, FALSE, <<Target(X, <<>>)>>, fr, wh, gr, od, <<>>, <<>>)
CtxAll(ex) ==
    { SelOf(ex),
      Select(FALSE, FALSE, <<Target(ex, <<"n">>), Target(X, <<>>)>>, <<>>, <<>>, <<>>, <<>>, <<>>, <<>>),
      Select(TRUE, FALSE, <<Target(X, <<>>), Target(ex, <<>>)>>, <<>>, <<>>, <<>>, <<>>, <<>>, <<>>),
      SelWith(<<>>, <<ex>>, <<>>, <<>>),
      SelWith(<<From(<<ex>>, <<>>, <<>>, FALSE)>>, <<>>, <<>>, <<>>),
      SelWith(<<From(<<ex>>, <<D1>>, << <<>> >>, TRUE)>>, <<X>>, <<>>, <<>>),
      SelWith(<<>>, <<>>, <<GroupBy(<<ex>>, <<>>)>>, <<>>),
      SelWith(<<>>, <<>>, <<GroupBy(<<X, ex>>, <<ex>>)>>, <<>>),
      SelWith(<<>>, <<>>, <<>>, <<OrderItem(ex, FALSE)>>),
      SelWith(<<>>, <<>>, <<>>, <<OrderItem(ex, TRUE), OrderItem(ex, FALSE)>>),
      Balances(<<>>, <<From(<<ex>>, <<>>, <<>>, FALSE)>>, <<>>),
      Balances(<<"cost">>, <<From(<<ex>>, <<>>, <<D2>>, FALSE)>>, <<ex>>),
      Journal(<<"s1">>, <<>>, <<From(<<ex>>, <<>>, <<>>, TRUE)>>),
      PrintStmt(<<From(<<ex>>, <<>>, <<>>, FALSE)>>) }
Ctx(ex, dd) == IF dd <= CtxDepth THEN CtxAll(ex) ELSE {SelOf(ex)}

(* ---- clause combinations ---- *)
TargetOpts == { <<>>, <<Target(Col("a"), <<>>)>>, <<Target(Col("a"), <<"n">>)>>,
                <<Target(SubSel(Q0), <<>>), Target(Col("b"), <<"m">>)>>,
                <<Target(Col("a"), <<>>), Target(SubSel(Q0), <<>>)>> }
FromExprs == { <<>>, <<Col("t")>>, <<SubSel(Q0)>>, <<Bin("add", SubSel(Q0), I1)>> }
FromForms == { From(fe, op, cl, clr) : fe \in FromExprs, op \in {<<>>, <<D1>>}, cl \in {<<>>, << <<>> >>, <<D2>>},
                                      clr \in BOOLEAN } \ { From(<<>>, <<>>, <<>>, FALSE) }
FromOpts == { <<>>, <<FTable("tbl")>>, <<FTable("")>>, <<FSubq(Q0)>> } \cup { <<f>> : f \in FromForms }
FromFOpts == { <<>> } \cup { <<f>> : f \in FromForms }
WhereOpts == { <<>>, <<Col("w")>>, <<SubSel(Q0)>> }
GroupOpts == { <<>>, <<GroupBy(<<IdxTok(INT(<<1>>))>>, <<>>)>>,
               <<GroupBy(<<Col("a"), IdxTok(INT(<<0, 2>>))>>, <<Col("h")>>)>>,
               <<GroupBy(<<Bin("add", I1, Col("a"))>>, <<>>)>>,
               <<GroupBy(<<SubSel(Q0)>>, <<>>)>>,
               <<GroupBy(<<Col("a")>>, <<SubSel(Q0)>>)>> }
OrderOpts == { <<>>, <<OrderItem(IdxTok(INT(<<1>>)), FALSE)>>,
               <<OrderItem(Col("a"), TRUE), OrderItem(Lit(DATE(2020, 1, 2)), FALSE)>>,
               <<OrderItem(SubSel(Q0), FALSE)>>,
               <<OrderItem(Lit(DEC(<<1>>, <<5>>)), TRUE)>> }
PivotOpts == { <<>>, <<IdxTok(INT(<<1>>)), Col("b")>>, <<Col("a"), IdxTok(INT(<<2>>))>> }
LimitOpts == { <<>>, <<INT(<<0, 0, 7>>)>> }
\* the statements are produced in chunks (one successor set per key) so that TLC's workers share them
ChunkKeys ==
    (IF StmtFull
     THEN { [c |-> "full", di |-> di, tg |-> tg, fr |-> fr] : di \in BOOLEAN, tg \in TargetOpts, fr \in FromOpts }
     ELSE { [c |-> "front", di |-> di, tg |-> tg] : di \in BOOLEAN, tg \in TargetOpts }
          \cup { [c |-> "back", tg |-> tg, fr |-> fr, wh |-> wh] :
                  tg \in {<<>>, <<Target(Col("a"), <<>>)>>}, fr \in {<<>>, <<From(<<SubSel(Q0)>>, <<>>, <<>>, FALSE)>>},
                  wh \in WhereOpts })
    \cup { [c |-> "balances"], [c |-> "journal"], [c |-> "print"] }
Chunk(key) ==
    CASE key.c = "full" ->
            { Select(key.di, key.tg = <<>>, key.tg, key.fr, wh, gr, od, pv, lm) :
                wh \in WhereOpts, gr \in GroupOpts, od \in OrderOpts, pv \in PivotOpts, lm \in LimitOpts }
      [] key.c = "front" ->
            { Select(key.di, key.tg = <<>>, key.tg, fr, wh, <<>>, <<>>, <<>>, lm) :
                fr \in FromOpts, wh \in WhereOpts, lm \in LimitOpts }
      [] key.c = "back" ->
            { Select(FALSE, key.tg = <<>>, key.tg, key.fr, key.wh, gr, od, pv, lm) :
                gr \in GroupOpts, od \in OrderOpts, pv \in PivotOpts, lm \in LimitOpts }
      [] key.c = "balances" -> { Balances(f, fr, wh) : f \in {<<>>, <<"cost">>}, fr \in FromFOpts, wh \in WhereOpts }
      [] key.c = "journal" -> { Journal(a, f, fr) : a \in {<<>>, <<"s1">>}, f \in {<<>>, <<"units">>}, fr \in FromFOpts }
      [] key.c = "print" -> { PrintStmt(fr) : fr \in FromFOpts }

(* ---- state space ---- *)
InitSpine == fam = "spine" /\ e \in Leaves /\ d = 0 /\ q = Q0
NextSpine ==
    /\ fam = "spine" /\ d < MaxDepth
    /\ e' \in { w \in Wraps(e, IF d < FullDepth THEN AllBin ELSE RepBin, IF d < FullDepth THEN Sibs ELSE {Col("b")}) : WFE(w) }
    /\ d' = d + 1 /\ UNCHANGED <<fam, q>>
InitStmt == fam = "chunk" /\ e \in ChunkKeys /\ d = 0 /\ q = Q0
NextStmt == fam = "chunk" /\ fam' = "stmt" /\ q' \in Chunk(e) /\ UNCHANGED <<e, d>>

Subjects == IF fam = "spine" THEN Ctx(e, d) ELSE IF fam = "stmt" THEN {q} ELSE {}

(* ---- the property ---- *)
RT(s, style) == LET p == Parse(PrintTokens(s, style)) IN p.ok /\ p.ast = AbsQ(s)
RoundTrip == \A s \in Subjects : \A style \in Styles : RT(s, style)
WellFormed == \A s \in Subjects : WFQ(s)

IsOpen(tk) == tk.t = "p" /\ tk.s = "("
IsClose(tk) == tk.t = "p" /\ tk.s = ")"
Bal(ts, i, j) == Cardinality({m \in i..j : IsOpen(ts[m])}) - Cardinality({m \in i..j : IsClose(ts[m])})
Match(ts, i) == CHOOSE j \in (i + 1)..Len(ts) : Bal(ts, i, j) = 0 /\ \A m \in (i + 1)..(j - 1) : Bal(ts, i, m) # 0
Without(ts, i, j) == SubSeq(ts, 1, i - 1) \o SubSeq(ts, i + 1, j - 1) \o SubSeq(ts, j + 1, Len(ts))
\* every pair of parentheses Print deems necessary is necessary: without it the text is rejected or means another tree
MinimalFor(s, style) ==
    LET ts == PrintTokens(s, style)
        want == AbsQ(s)
    IN \A i \in 1..Len(ts) :
         (IsOpen(ts[i]) /\ ts[i].d = <<1>>) =>
            LET p == Parse(Without(ts, i, Match(ts, i))) IN ~(p.ok /\ p.ast = want)
Minimal == \A s \in Subjects : \A style \in {"min", "bare"} : MinimalFor(s, style)
\* the minimal style never has a redundant pair that is marked unnecessary around an operator operand:
\* the only unmarked parentheses of "min" belong to calls, lists and sub-SELECTs
NoSpareParens ==
    \A s \in Subjects :
        LET ts == PrintTokens(s, "min") IN
        \A i \in 1..Len(ts) :
            (IsOpen(ts[i]) /\ ts[i].d = <<>>) =>
                \/ (i > 1 /\ ts[i - 1].t = "id" /\ ~(ts[i - 1].s \in SoftKeywords))    \* call
                \/ IsLitTok(ts[i + 1])                                                \* list
                \/ (ts[i + 1].t = "kw" /\ ts[i + 1].s = "SELECT")                      \* sub-SELECT

(* ---- comparisons, IN, IS NULL, BETWEEN do not chain; parenthesised they do ---- *)
A == ID("a")
CmpTails ==
    { <<P(sy), ID("b")>> : sy \in CmpSyms }
    \cup { <<KW("IN"), ID("b")>>, <<KW("NOT"), KW("IN"), ID("b")>>, <<KW("IS"), ID("null")>>,
           <<KW("IS"), KW("NOT"), ID("null")>>, <<ID("between"), ID("b"), KW("AND"), ID("c")>>,
           <<KW("IN"), P("("), INT(<<1>>), P(","), INT(<<2>>), P(")")>> }
NonAssoc ==
    \A t1 \in CmpTails, t2 \in CmpTails :
        /\ ~Parse(<<KW("SELECT"), A>> \o t1 \o t2).ok
        /\ Parse(<<KW("SELECT"), P("("), A>> \o t1 \o <<P(")")>> \o t2).ok
ASSUME NonAssoc
=============================================================================
