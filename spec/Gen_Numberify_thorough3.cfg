\* thorough replay space, part 3 (equally named columns)
CONSTANTS
  Space = "gen-thorough-3"
  Shapes <- ShapesOf
  FmtChoices <- Fmt01
  DCtx <- DCAB
  Prec = "most_common"
  CurSeq <- CS3
  InvNull = "skip"
  Mut = "none"
INIT Init
NEXT GNext
INVARIANT Emit
CHECK_DEADLOCK FALSE
