------------------------------ MODULE SumStore ------------------------------
(***************************************************************************)
(* The mechanism behind sum() over inventory VALUES (C12): objects with    *)
(* identity.  Code anchors: beanquery/query_execute.py execute_select,     *)
(* aggregate branch (Allocator: one slot per aggregate node; a store per   *)
(* group created on demand, every node initialised; per selected row every *)
(* node updated in target order; at the end every node finalised and the   *)
(* targets evaluated, the HAVING target filters), beanquery/query_compile  *)
(* EvalAggregator.initialize (slot := a fresh empty Inventory),            *)
(* beanquery/query_env.py SumInventory.update (slot += operand value).     *)
(*                                                                         *)
(* An Inventory is a mutable object: the heap maps object ids to           *)
(* inventories.  The rows of the table hold objects that OUTLIVE the       *)
(* statement (a user table registered on the connection); several          *)
(* aggregate nodes of one statement evaluate the same column and get the   *)
(* very same object; a plan is a history of statements on the same table.  *)
(*                                                                         *)
(* Mode  Copy   property-conforming, what the code does: the accumulator   *)
(*              is a fresh object, operands are merged into it             *)
(*       Adopt  a realistic edit ("avoid copying for one-row groups"): an  *)
(*              empty accumulator adopts the operand object as is, later   *)
(*              operands are merged into it -- i.e. into the first row's   *)
(*              value, shared by every node that adopted it.  Kept as the  *)
(*              non-vacuity run: TLC must reject it.                       *)
(*       StopAtLimit  another realistic edit ("rows past the LIMIT are not *)
(*              going to be returned and need not be looked at"): without  *)
(*              ORDER BY / DISTINCT / HAVING the scan ends when group      *)
(*              number limit + 1 shows up -- forgetting that rows of the   *)
(*              groups already open keep arriving.  Second non-vacuity run.*)
(* LIMIT: the groups come out in creation order (after the HAVING filter); *)
(* the first `limit` of them are returned.                                 *)
(***************************************************************************)
EXTENDS InvSum, TLC

CONSTANTS Mode, Prices, Scale

Copy == "copy"
Adopt == "adopt"
StopAtLimit == "stop at limit"

VARIABLES
    tab,        \* the table as the user defined it (constant along a behaviour): Seq(row)
    plan,       \* the statements to execute, in order (constant along a behaviour)
    heap,       \* Seq(inventory): object id -> current value; objects 1..Len(tab) are the cells of the rows
    st,         \* index in plan of the statement being executed, 0: idle
    i, j,       \* row and node being processed
    stores,     \* Seq([key, slots]): the per-group stores in creation order; slots: node -> object id
    results     \* Seq(set of [key, vals]): what the finished statements returned

svars == <<tab, plan, heap, st, i, j, stores, results>>

CellObj(n) == IF tab[n].null THEN 0 ELSE n
(* the HAVING expression NOT empty(sum(inv)) is a hidden target with an aggregate node of its own *)
AllNodes(s) == IF s.having THEN Append(s.nodes, Node("sum", NoF)) ELSE s.nodes
Cur == plan[st]
KeyOf(s, r) == IF s.grouped THEN r.g ELSE 0
StoreIdx(k) == IF \E n \in 1..Len(stores) : stores[n].key = k
               THEN CHOOSE n \in 1..Len(stores) : stores[n].key = k ELSE 0

InitWith(tables, plans) ==
    /\ tab \in tables /\ plan \in plans
    /\ heap = [n \in 1..Len(tab) |-> CellInv(tab[n])]
    /\ st = 0 /\ i = 0 /\ j = 0 /\ stores = <<>> /\ results = <<>>

Begin ==
    /\ st = 0 /\ Len(results) < Len(plan)
    /\ st' = Len(results) + 1 /\ i' = 1 /\ j' = 1 /\ stores' = <<>>
    /\ UNCHANGED <<tab, plan, heap, results>>

(* the first row of a group: create its store, initialise every node with a fresh empty inventory *)
EnoughGroups == Mode = StopAtLimit /\ Cur.limit # 0 /\ ~Cur.having /\ Len(stores) >= Cur.limit
NewGroup ==
    /\ st # 0 /\ i <= Len(tab) /\ j = 1
    /\ StoreIdx(KeyOf(Cur, tab[i])) = 0
    /\ ~EnoughGroups
    /\ LET N == AllNodes(Cur) IN
       /\ heap' = heap \o [n \in 1..Len(N) |-> EmptyInv]
       /\ stores' = Append(stores, [key |-> KeyOf(Cur, tab[i]), slots |-> [n \in 1..Len(N) |-> Len(heap) + n]])
    /\ UNCHANGED <<tab, plan, st, i, j, results>>

(* (StopAtLimit only) a row of a group past the limit: the scan is abandoned *)
StopScan ==
    /\ st # 0 /\ i <= Len(tab) /\ j = 1
    /\ StoreIdx(KeyOf(Cur, tab[i])) = 0
    /\ EnoughGroups
    /\ i' = Len(tab) + 1
    /\ UNCHANGED <<tab, plan, heap, st, j, stores, results>>

(* node j sees row i: evaluate the operand (the cell's object itself, or a new object holding f of it), merge *)
Update ==
    /\ st # 0 /\ i <= Len(tab)
    /\ StoreIdx(KeyOf(Cur, tab[i])) # 0
    /\ LET N == AllNodes(Cur)
           s == StoreIdx(KeyOf(Cur, tab[i]))
           slot == stores[s].slots[j]
           nd == N[j]
       IN /\ IF CellObj(i) = 0
             THEN UNCHANGED <<heap, stores>>          \* NULL: the operand is NULL (f(NULL) is NULL), nothing to add
             ELSE LET isf == nd[1] = "sumf"
                      heap1 == IF isf THEN Append(heap, ApplyI(nd[2], heap[CellObj(i)], Prices, Scale)) ELSE heap
                      o == IF isf THEN Len(heap1) ELSE CellObj(i)
                  IN IF Mode = Adopt /\ heap1[slot] = EmptyInv
                     THEN heap' = heap1 /\ stores' = [stores EXCEPT ![s].slots[j] = o]
                     ELSE heap' = [heap1 EXCEPT ![slot] = Add(@, heap1[o])] /\ UNCHANGED stores
          /\ IF j < Len(N) THEN j' = j + 1 /\ i' = i ELSE j' = 1 /\ i' = i + 1
    /\ UNCHANGED <<tab, plan, st, results>>

Final(nd, v) == IF nd[1] = "fsum" THEN ApplyI(nd[2], v, Prices, Scale) ELSE v
Finalize ==
    /\ st # 0 /\ i > Len(tab)
    /\ LET N == AllNodes(Cur)
           kept == {s \in 1..Len(stores) : ~Cur.having \/ heap[stores[s].slots[Len(N)]] # EmptyInv}
           keep == IF Cur.limit = 0 THEN kept
                   ELSE {s \in kept : Cardinality({u \in kept : u < s}) < Cur.limit}      \* the first `limit` in creation order
       IN results' = Append(results,
              { [key |-> stores[s].key,
                 vals |-> [n \in 1..Len(Cur.nodes) |-> Final(Cur.nodes[n], heap[stores[s].slots[n]])]] : s \in keep })
    /\ st' = 0 /\ i' = 0 /\ j' = 0
    /\ UNCHANGED <<tab, plan, heap, stores>>

SNext == Begin \/ NewGroup \/ StopScan \/ Update \/ Finalize
AllExecuted == st = 0 /\ Len(results) = Len(plan)

-----------------------------------------------------------------------------
(* THE PROPERTY: every statement of the history returned what InvSum!Expected says for the table as defined (with a
   LIMIT: that many of those rows, InvSum!Conforms).
   `results` only grows (Finalize appends, nothing else touches it), so it is enough to look at a result in the state
   in which it appears: the last one, whenever the mechanism is idle. *)
ResultInv == (st = 0 /\ results # <<>>) => Conforms(results[Len(results)], tab, plan[Len(results)], Prices, Scale)
ResultsGrow == [][\A n \in 1..Len(results) : Len(results') >= n /\ results'[n] = results[n]]_svars
(* ... which needs: aggregation never changes the values it reads, and an accumulator is nobody else's object *)
InputsInv == \A n \in 1..Len(tab) : heap[n] = CellInv(tab[n])
NoAliasInv ==
    \A s \in 1..Len(stores) : \A n \in 1..Len(stores[s].slots) :
        /\ stores[s].slots[n] > Len(tab)
        /\ \A s2 \in 1..Len(stores) : \A n2 \in 1..Len(stores[s2].slots) :
              (stores[s].slots[n] = stores[s2].slots[n2]) => (s = s2 /\ n = n2)
(* while a statement runs, node j's accumulator holds the sum of the operands of the group's rows seen so far *)
PartialInv ==
    st # 0 =>
      \A s \in 1..Len(stores) : \A n \in 1..Len(stores[s].slots) :
         LET N == AllNodes(Cur)
             seen == {r \in 1..Len(tab) : KeyOf(Cur, tab[r]) = stores[s].key /\ (r < i \/ (r = i /\ n < j))}
         IN heap[stores[s].slots[n]] =
               (IF N[n][1] = "sumf" THEN SumFRows(N[n][2], tab, seen, Prices, Scale) ELSE SumRows(tab, seen))
SumTypeOK ==
    /\ st \in 0..Len(plan) /\ i \in 0..(Len(tab) + 1) /\ Len(results) <= Len(plan)
    /\ \A n \in 1..Len(heap) : IsInventory(heap[n])
=============================================================================
