\* C20 schedule generator: 3x3, per row context
CONSTANTS
  Threads = {1, 2, 3}
  CacheMode = "per row context"
  Split = FALSE
  Programs = 0
  MaxLen = 0
  SchedProgs <- SP_3x3
INIT SInit
NEXT SNext
INVARIANTS SEmit SEmitProgs
CHECK_DEADLOCK FALSE
