----------------------------- MODULE Gen_Render -----------------------------
(* Spec -> code: the model-checked space, emitted.  One JSON line per finished rendering of the mechanism: the abstract
   table, the options, the column widths and every line the specification says render_text must write
   (kind, style, width, source row, sub-line, cells [off, lp, n, rp, dot]); plus what render_csv must write: the
   number of records and the visible length of every field. *)
EXTENDS MC_Render

CellSeq(x) == <<x.off, x.lp, x.n, x.rp, x.dot>>
LineSeq(ln) == <<ln.kind, ln.style, ln.w, ln.r, ln.j, [c \in 1..Len(ln.cells) |-> CellSeq(ln.cells[c])]>>
RowLinesIdx == SelectSeq([k \in 1..Len(lines) |-> k], LAMBDA k : lines[k].kind = "row")
\* a CSV field holds what the text cell shows, padding aside, list items joined by a comma (one character)
CsvLens == [q \in 1..Len(RowLinesIdx) |->
              [c \in 1..Len(tab) |->
                  LET ln == lines[RowLinesIdx[q]] v == tab[c].vals[ln.r]
                  IN IF tab[c].t = "set" /\ ~IsNull(v) THEN JoinLen(v.items, 1) ELSE ln.cells[c].n]]

Emit == (phase = "done") =>
           PrintT(ToJson([tab |-> tab, opt |-> opt, widths |-> widths,
                          lines |-> [k \in 1..Len(lines) |-> LineSeq(lines[k])], csv |-> CsvLens]))

TGenQ == TablesN(2, {1, 4})
TGenT == TablesN(3, {2, 5})
NL02 == {0, 2}
NL04g == {0, 4}
=============================================================================
