----------------------------- MODULE Gen_Render -----------------------------
(* Spec -> code: the model-checked space, emitted.  One JSON line per finished rendering of the mechanism: the abstract
   table, the options, the column widths and every line the specification says render_text must write
   (kind, style, width, source row, sub-line, cells [off, lp, n, rp, dot]); plus what render_csv must write: the
   number of records and the visible length of every field. *)
EXTENDS MC_Render

CellSeq(x) == <<x.off, x.lp, x.n, x.rp, x.dot>>
LineSeq(ln) == <<ln.kind, ln.style, ln.w, ln.r, ln.j, [c \in 1..Len(ln.cells) |-> CellSeq(ln.cells[c])]>>
\* what render_csv must write: the records of the CSV mechanism (its own context: no spacing records, list items joined
\* by one comma), each the visible length of every field
CsvLens == LET recs == CsvRecs(tab, opt) IN [q \in 1..Len(recs) |-> recs[q].fields]

Emit == (phase = "done") =>
           PrintT(ToJson([tab |-> tab, opt |-> opt, widths |-> widths,
                          lines |-> [k \in 1..Len(lines) |-> LineSeq(lines[k])], csv |-> CsvLens]))

TGenQ == TablesN(2, {1, 4})
TGenT == TablesN(3, {2, 5})
NL02 == {0, 2}
NL04g == {0, 4}
=============================================================================
