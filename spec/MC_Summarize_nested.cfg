\* nested statements: ... FROM <clauses> WHERE account IN (SELECT account FROM <filter> <clauses>) -- every clause subset of
\* the statement x every clause subset of the subquery (the empty one with a filter expression only) x filters: the FROM
\* clause of the subquery must present the period report of ITS OWN clauses (ScopeInv), the statement that of its own
CONSTANTS
  Base <- MCBase
  KeyTab <- MCKeyTab
  CurSeq <- MCCurSeq
  Special <- MCSpecial
  Ledgers = {}
  OpenArgs <- Open03
  CloseArgs <- Close04
  ClearArgs = {TRUE, FALSE}
  Filters <- FNone
  Order <- OrderStated
  CompileMode = "stated"
  Inners <- InnersQuick
  ScopeMode = "stated"
  Doors <- DoorsApi
  HookMode = "stated"
INIT InitNested
NEXT Next
INVARIANTS KeepInv BalanceSheetInv IncomeInv EquityInv TxBalanceInv LayoutInv FilterInv CompileInv SortedInv ExpectInv ScopeInv
CHECK_DEADLOCK FALSE
