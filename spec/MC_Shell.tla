------------------------------ MODULE MC_Shell ------------------------------
(* Model-checking instance of Shell: the command alphabets, the query directives of the fixed ledger
   (harness/props/c19.py builds the same ledger), the statements the API rejects. *)
EXTENDS Shell, Json

(* ---- the ledger's query directives (text = pre \o post; kind and FROM shape are stated, not parsed) ---- *)
QFixed == <<
  [name |-> "mid",    date |-> "2022-01-03", pre |-> "SELECT account, position FROM year = 2022", post |-> "",
   kind |-> "select", from |-> "noclose"],
  [name |-> "closed", date |-> "2022-01-03", pre |-> "SELECT account, position FROM year = 2022 CLOSE ON 2022-01-05", post |-> "",
   kind |-> "select", from |-> "close"],
  [name |-> "nofrom", date |-> "2022-01-03", pre |-> "SELECT account, number", post |-> "",
   kind |-> "select", from |-> "none"],
  [name |-> "opened", date |-> "2022-01-04", pre |-> "SELECT account, position FROM OPEN ON 2022-01-03", post |-> " CLEAR",
   kind |-> "select", from |-> "noclose"],
  [name |-> "broken", date |-> "2022-01-04", pre |-> "SELECT nonesuch FROM year = 2022", post |-> "",
   kind |-> "select", from |-> "noclose"],
  [name |-> "bal",    date |-> "2022-01-03", pre |-> "BALANCES FROM year = 2022", post |-> "",
   kind |-> "balances", from |-> "noclose"] >>

BadFixed == {"frobnicate the ledger", "frob", "SELECT nonesuch FROM year = 2022 CLOSE ON 2022-01-04", "tables"}
FormatsShipped == {"text", "csv"}
AttrNames == {"todict", "getstr", "setstr", "_parse_bool", "__doc__"}

(* ---- alphabets ---- *)
SetValid == {
  ".set boxed true", ".set boxed off", ".set expand 1", ".set expand N", ".set narrow false", ".set narrow ' Yes '",
  ".set numberify on", ".set numberify f", ".set spaced T", ".set spaced 0", ".set unicode yes", ".set unicode no",
  ".set pager off", ".set pager y", ".set format csv", ".set format text",
  ".set nullvalue NULL", ".set nullvalue ''", ".set nullvalue ' - '", "set boxed true", "SET expand Off" }
SetInvalid == {
  ".set boxed maybe", ".set format html", ".set numberify 2", ".set spaced ''", ".set unicode truee",
  ".set bogus 1", ".set Boxed true", ".set todict x", ".set getstr", ".set bogus", ".set boxed true false",
  "set format pdf" }
Shows == { ".set", ".set format", ".set nullvalue", ".set narrow", "set" }
Statements == {
  "BALANCES", "JOURNAL 'Food'", "SELECT payee, sum(position) AS s GROUP BY 1", "SELECT date WHERE 1 = 0",
  "SELECT sum(position) AS s FROM OPEN ON 2022-01-04",
  "select 1 as x from #", "  SELECT 1 AS x FROM #;", "frobnicate the ledger", "tables" }
Runs == { ".run mid", ".run closed", ".run nofrom", ".run opened", ".run broken", ".run nothere", "run mid", "RUN 'mid';",
          ".run", ".run mid closed", ".run bal" }
Others == { ".tables", ".describe postings", ".describe nonesuch", ".explain SELECT 1 AS x FROM #", ".explain frob",
            ".frobnicate", ".select 1", ".SET boxed true", ".balances", ".errors", "", "   " }

LinesMC == SetValid \cup SetInvalid \cup Shows \cup Statements \cup Runs \cup Others

(* the ~30 letter alphabet whose histories of length <= 3 are all replayed *)
LinesGen3 == {
  ".set boxed true", ".set boxed off", ".set expand 1", ".set narrow false", ".set narrow ' Yes '",
  ".set numberify on", ".set numberify f", ".set spaced T", ".set unicode yes", ".set pager off",
  ".set format csv", ".set format text", ".set nullvalue NULL", ".set nullvalue ''", "set boxed true",
  ".set boxed maybe", ".set format html", ".set numberify 2", ".set bogus 1", ".set todict x", ".set getstr",
  ".set boxed true false", ".set", ".set format",
  "SELECT payee, sum(position) AS s GROUP BY 1", "SELECT date WHERE 1 = 0", "select 1 as x from #", "frobnicate the ledger",
  ".run mid", ".run nothere", ".tables", ".frobnicate" }

(* a leading comment: a statement for the API, to be executed by the shell as one *)
LinesExtra == LinesMC \cup { "/* c */ SELECT 1 AS x FROM #" }

ASSUME ClassifyLaws

(* What the next step depends on: the settings (and how the shell was created).  `line`, `lastOut`, `lastErr` only
   record what the last step did -- no action reads them (lastOut.dest is constant within a session) -- so states
   that differ only there have the same successors; the action properties are evaluated on every transition and
   the invariants read only what the view keeps, or (Main* invariants) states with distinct views. *)
MCView == <<started, boot, settings, queries>>
=============================================================================
