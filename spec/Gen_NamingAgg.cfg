CONSTANTS
  MaxTargets = 1
  Mode = "agg"
INIT Init
NEXT Next
INVARIANTS ShapeLaw NameLaw Emit
CHECK_DEADLOCK FALSE
