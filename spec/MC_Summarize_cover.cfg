\* coverage run: every step of the mechanism must be taken (per-action coverage is too costly on the big run)
CONSTANTS
  Base <- MCBase
  KeyTab <- MCKeyTab
  CurSeq <- MCCurSeq
  Special <- MCSpecial
  Ledgers = {}
  OpenArgs <- Open05
  CloseArgs <- Close05
  ClearArgs = {TRUE, FALSE}
  Filters <- FNone
  Order <- OrderStated
  CompileMode = "stated"
  Inners <- InnersNone
  ScopeMode = "stated"
  Doors <- DoorsApi
  HookMode = "stated"
INIT InitCover
NEXT Next
INVARIANTS KeepInv BalanceSheetInv IncomeInv EquityInv TxBalanceInv LayoutInv FilterInv CompileInv SortedInv ExpectInv
CHECK_DEADLOCK FALSE
