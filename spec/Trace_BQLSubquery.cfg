CONSTANTS
  Tabs <- FileTabs
  Restore = TRUE
INIT TInit
NEXT TNext
INVARIANTS ResolvesOwnTable StarOwnTable IteratesOwnTable StackInv DistinctOutputs
POSTCONDITION Consumed
CHECK_DEADLOCK FALSE
