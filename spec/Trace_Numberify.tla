-------------------------- MODULE Trace_Numberify --------------------------
(* Code -> spec: one ndjson line per call of the real numberify (directly, through run_query(numberify=True) or
   through the shell setting): the projected input table, the formatter (the display context it was built from as
   <<currency, most common digits, maximum digits>> and the precision setting it was built for; its display
   precisions follow by FormatterQ), and either the projected output or the exception.  Every line is judged by Accepts -- the declarative statement of Numberify -- in one
   TLC step; a rejected line is reported with the names of the failing clauses and the run continues.
   The mechanism's variables are not used here (the code, not the mechanism, produced the outputs). *)
EXTENDS Numberify, Json, IOUtils

TraceLog == ndJsonDeserialize(IOEnv.TRACE_FILE)
NoDC == <<>>

VARIABLES l, nbad
tvars == <<vars, l, nbad>>

TInit ==
    /\ l = 1 /\ nbad = 0
    /\ gen = 0 /\ tbl = 0 /\ fmt = 0 /\ pc = "trace" /\ ci = 0 /\ ri = 0 /\ cmap = 0 /\ convs = 0 /\ orows = 0 /\ err = 0

Verdict(e) ==
    LET q == FormatterQ(e.dc, e.prec) IN
    IF e.exc # "" THEN <<"raised">>
    ELSE IF Accepts(e.cols, e.rows, e.fmt, q, e.ocols, e.orows) THEN <<>>
    ELSE FailedClauses(e.cols, e.rows, e.fmt, q, e.ocols, e.orows)

TNext ==
    /\ l <= Len(TraceLog)
    /\ l' = l + 1
    /\ LET e == TraceLog[l]  v == Verdict(e) IN
       IF v = <<>> THEN UNCHANGED nbad
       ELSE /\ PrintT(ToJson([verdict |-> "rejected", line |-> l, id |-> e.id, clauses |-> v]))
            /\ nbad' = nbad + 1
    /\ UNCHANGED vars

TraceConsumed == TLCGet("stats").diameter - 1 = Len(TraceLog)
=============================================================================
