---------------------------- MODULE Trace_Parser ----------------------------
(* Code -> spec for C06 ("the same AST or the same rejection as a parser derived from the grammar", and both equal
   to the grammar model).  One ndjson line per text that was given to BOTH parsers:

     {"id": n, "hastok": bool, "tokens": [...],            tokens: the token sequence the text was laid out from
      "s": {"ok": bool, "sig": digest, "ast": AST},         shipped  beanquery/parser/parser.py
      "d": {"ok": bool, "sig": digest}}                     derived  generated in-process from bql.ebnf

   sig is a digest of the complete outcome (AST, or rejection position, or exception class).  Verdict per line:
     shipped#derived   the two parsers disagree
     spec#shipped      the text tokenises inside the model's alphabet and Parse(tokens) says something else
     skipped           Unmodelled(tokens): the scannerless parser may cut one of these tokens in two
   Every line gets a verdict; the run continues after a rejected line. *)
EXTENDS Parser, Json, IOUtils

TraceLog == ndJsonDeserialize(IOEnv.TRACE_FILE)

VARIABLES l, nbad, nskip, njudged
tvars == <<l, nbad, nskip, njudged>>

TInit == l = 1 /\ nbad = 0 /\ nskip = 0 /\ njudged = 0

Verdict(ev) ==
    IF ev.s.sig # ev.d.sig THEN "shipped#derived"
    ELSE IF ~ev.hastok THEN "same"
    ELSE IF Unmodelled(ev.tokens) THEN "skipped"
    ELSE LET p == Parse(ev.tokens) IN
         IF p.ok = ev.s.ok /\ (p.ok => p.ast = ev.s.ast) THEN "agree" ELSE "spec#shipped"

TNext ==
    /\ l <= Len(TraceLog)
    /\ l' = l + 1
    /\ LET ev == TraceLog[l]
           v == Verdict(ev)
       IN /\ nskip' = IF v = "skipped" THEN nskip + 1 ELSE nskip
          /\ njudged' = IF v = "agree" THEN njudged + 1 ELSE njudged
          /\ nbad' = IF v \in {"shipped#derived", "spec#shipped"} THEN nbad + 1 ELSE nbad
          /\ (v \in {"shipped#derived", "spec#shipped"} =>
                PrintT(ToJson([verdict |-> "rejected", line |-> l, id |-> ev.id, clause |-> v,
                               spec |-> IF ev.hastok THEN Parse(ev.tokens) ELSE [ok |-> FALSE, ast |-> NoAst]])))
          /\ (l = Len(TraceLog) =>
                PrintT(ToJson([verdict |-> "summary", lines |-> l, rejected |-> nbad', skipped |-> nskip', judged |-> njudged'])))

TSpec == TInit /\ [][TNext]_tvars
TraceConsumed == TLCGet("stats").diameter - 1 = Len(TraceLog)
=============================================================================
