INIT Init
NEXT Next
INVARIANT LatticeLaws
POSTCONDITION Consumed
CHECK_DEADLOCK FALSE
