CONSTANTS
  MaxRows = 2
  QuerySet = "plain"
  EmitMode = "none"
  TableStride = 1
  Variant = "ok"
INIT Init
NEXT Next
INVARIANTS CompileIffValid SteppedIsExec ScanLaw GroupLaw Additivity HavingLaw SortLaw PhaseOrderLaw DistinctLaw PivotLaw
PROPERTIES ScanPrefix GroupIsolation
CHECK_DEADLOCK FALSE
