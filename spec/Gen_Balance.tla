----------------------------- MODULE Gen_Balance -----------------------------
(* Generators for the spec->code replays of Balance / Inventory.
   (1) CInit/CNext (C12, one thread): a case is built step by step (ledger length, one posting at a time, then the
       query shape) so that TLC's simulator samples the case space evenly; then the program runs with the actions of
       Balance and the terminal state is emitted: the case, the rows the specification says the query returns, the
       subquery's result, and the homomorphism / partition expectations computed with the Inventory operators.
   (2) SInit/SNext (C20): fixed programs, a turn-taking scheduler: the thread holding the turn runs until it passes a
       pause point or finishes, then any unfinished thread is granted the turn.  `hist` is the grant sequence.  One JSON
       line per complete schedule with the rows every thread must return. *)
EXTENDS MC_Balance

CONSTANTS MaxLen,       \* longest generated ledger
          SchedProgs    \* [Threads -> program] for the schedule generator

VARIABLES phase, want, turn, hist
gvars == <<vars, phase, want, turn, hist>>

D3 == 737454
DEarly == 737000
DFar == 1094998                      \* 2999-01-01: a price entered for a day that has not come yet (a forecast)
C3 == <<3, "EUR", D1, "">>
CL == <<10, "USD", D1, "lot">>       \* same cost and date as C1, labelled: a different lot
GenLots == { <<"USD", NoCost>>, <<"EUR", NoCost>>, <<"HOOL", NoCost>>, <<"HOOL", C1>>, <<"HOOL", C2>>,
             <<"HOOL", CL>>, <<"AAPL", C3>> }
GenNums == {-3, -2, -1, 1, 2, 3, 5}
GenPos == { <<k, n>> : k \in GenLots, n \in GenNums }
PriceTables == <<
    {},
    { <<"HOOL", "USD", D1, 11>>, <<"HOOL", "USD", D3, 13>>, <<"USD", "EUR", D1, 2>>, <<"USD", "EUR", D3, 3>>,
      <<"AAPL", "EUR", D2, 4>> },
    { <<"HOOL", "USD", D2, 7>>, <<"HOOL", "EUR", D1, 20>>, <<"USD", "EUR", D2, 5>> },
    \* the latest price is dated after the day the query runs; AAPL and USD have no price before that day at all
    { <<"HOOL", "USD", D1, 11>>, <<"HOOL", "USD", DFar, 17>>, <<"AAPL", "EUR", DFar, 4>>, <<"USD", "EUR", DFar, 3>> } >>
FsSeq == << <<"units", "", 0>>, <<"cost", "", 0>>,
            <<"value", "", 0>>, <<"value", "", D2>>, <<"value", "", DEarly>>,
            <<"convert", "EUR", 0>>, <<"convert", "EUR", D2>>, <<"convert", "EUR", DEarly>>, <<"convert", "CAD", 0>> >>
GenWheres == Wheres12 \cup { <<"M", "S">>, <<"S">>, <<"BT">> }
GenTargets == Targets12 \cup { <<"S", "B">>, <<"B", "B", "S", "B">>, <<"S">> }
(* balance under an enclosing expression (function call: XB, BX; short-circuit operator: XL) whose other operand is
   NULL / decides on the postings marked in `nul` *)
GenNested == { <<"XB">>, <<"BX">>, <<"XB", "XB">>, <<"XB", "BX">>, <<"B", "XB">>, <<"S", "XB">>, <<"XB", "S", "BX">>,
               <<"XL">>, <<"XL", "XL">>, <<"S", "XL">> }

P0 == [ledger |-> <<>>, mask |-> <<>>, where |-> <<>>, targets |-> <<>>, subbal |-> TRUE, agg |-> FALSE,
       grp |-> <<>>, pt |-> 1, nul |-> <<>>, pt2 |-> 1]

CInit == InitWith([t \in Threads |-> P0]) /\ phase = "length" /\ want = 0 /\ turn = 0 /\ hist = <<>>
CNext ==
    \/ /\ phase = "length"
       /\ want' \in 0..MaxLen /\ phase' = "ledger"
       /\ UNCHANGED <<vars, turn, hist>>
    \/ /\ phase = "ledger" /\ Len(prog[1].ledger) < want
       /\ \E p \in GenPos, m \in BOOLEAN, g \in 1..2 :
             prog' = [prog EXCEPT ![1].ledger = Append(@, p), ![1].mask = Append(@, m), ![1].grp = Append(@, g)]
       /\ UNCHANGED <<ctx, pc, cur, out, subdone, cache, consulted, phase, want, turn, hist>>
    \/ /\ phase = "ledger" /\ Len(prog[1].ledger) = want
       /\ \E w \in GenWheres, tg \in GenTargets \cup GenNested, sb \in BOOLEAN :
             prog' = [prog EXCEPT ![1].where = w, ![1].targets = tg, ![1].subbal = sb]
       /\ phase' = "prices"
       /\ UNCHANGED <<ctx, pc, cur, out, subdone, cache, consulted, want, turn, hist>>
    \* (a step of its own: the simulator builds every successor of a state before it picks one)
    \/ /\ phase = "prices"
       /\ \E pt \in 1..Len(PriceTables), pt2 \in 1..Len(PriceTables), nu \in [1..Len(prog[1].ledger) -> BOOLEAN] :
             \* pt2: the price table after the ledger has been edited and attached to the same connection again;
             \* nu: the postings on which the operand next to balance is NULL (XB, BX) / decides (XL)
             prog' = [prog EXCEPT ![1].pt = pt, ![1].pt2 = pt2, ![1].nul = nu]
       /\ phase' = "run"
       /\ UNCHANGED <<ctx, pc, cur, out, subdone, cache, consulted, want, turn, hist>>
    \/ /\ phase = "run" /\ Next /\ UNCHANGED <<phase, want, turn, hist>>

RowsJson(P, rows) ==
    [n \in 1..Len(rows) |->
        << rows[n].rowid,
           [j \in 1..Len(rows[n].vals) |-> Positions(rows[n].vals[j])],
           IF SubResult(P) = {} THEN 2 ELSE IF rows[n].rowid \in SubResult(P) THEN 1 ELSE 0 >>]
HomOf(P, S, pt) ==
    LET pr == PriceTables[pt]
        one(I) == LET tot == SumIdx(P.ledger, I)
                  IN [tot |-> Positions(tot),
                      f |-> [i \in 1..Len(FsSeq) |-> Positions(ApplyI(FsSeq[i], tot, pr, 1))]]
    IN [total |-> one(S), groups |-> [g \in 1..2 |-> one({r \in S : P.grp[r] = g})],
        n |-> Cardinality(S), ng |-> [g \in 1..2 |-> Cardinality({r \in S : P.grp[r] = g})]]
CaseJson ==
    LET P == prog[1] IN
    [ledger |-> P.ledger, mask |-> P.mask, grp |-> P.grp, where |-> P.where, targets |-> P.targets,
     subbal |-> P.subbal, prices |-> PriceTables[P.pt], fs |-> FsSeq, mode |-> CacheMode, nul |-> P.nul,
     \* rows: what the PROPERTY says the statement returns; mech: what the mechanism (as shipped) returned in this
     \* behaviour -- the same (SerialInv, checked by TLC) except under a short-circuit operator (XL, known finding)
     rows |-> RowsJson(P, SerialRows(P)),
     mech |-> RowsJson(P, out[1]),
     homall |-> HomOf(P, 1..Len(P.ledger), P.pt),
     homsel |-> HomOf(P, {r \in 1..Len(P.ledger) : P.mask[r]}, P.pt),
     \* the same ledger attached again with another price table: results depend on the attached data only
     prices2 |-> PriceTables[P.pt2],
     homall2 |-> HomOf(P, 1..Len(P.ledger), P.pt2),
     homsel2 |-> HomOf(P, {r \in 1..Len(P.ledger) : P.mask[r]}, P.pt2)]
CEmit == (phase = "run" /\ AllDone) => PrintT(ToJson(CaseJson))

-----------------------------------------------------------------------------
SInit == InitWith(SchedProgs) /\ phase = "run" /\ want = 0 /\ turn = 0 /\ hist = <<>>
SNext ==
    \E t \in Threads :
        /\ turn \in {0, t} /\ ~Done(t)
        /\ Step(t)
        /\ hist' = IF turn = 0 THEN Append(hist, t) ELSE hist
        /\ turn' = IF YieldStep(t) \/ pc'[t].ph = "done" THEN 0 ELSE t
        /\ UNCHANGED <<phase, want>>
SEmit == AllDone => PrintT(ToJson([sched |-> hist, mode |-> CacheMode,
                                   out |-> [t \in Threads |-> RowsJson(prog[t], out[t])]]))
(* the programs are emitted once (from the initial state) *)
SEmitProgs == (hist = <<>> /\ turn = 0) => PrintT(ToJson([progs |-> [t \in Threads |-> prog[t]]]))

T2 == AllTrue(2)
SP_2x3_same == [t \in Threads |-> Prg(LA, T3, <<"P">>, <<"B", "P", "B">>, TRUE, FALSE)]
SP_2x3_diff == [t \in Threads |-> Prg(IF t = 1 THEN LA ELSE LB, T3, <<"P">>, <<"B", "P", "B">>, TRUE, FALSE)]
SP_3x2_same == [t \in Threads |-> Prg(<<pU, pH>>, T2, <<>>, <<"B", "P", "B">>, TRUE, FALSE)]
SP_3x2_diff == [t \in Threads |-> Prg(IF t = 1 THEN <<pU, pH>> ELSE IF t = 2 THEN <<pH, pR>> ELSE <<pK, pU>>,
                                      T2, <<>>, <<"B", "P", "B">>, TRUE, FALSE)]
SP_3x3 == [t \in Threads |-> Prg(IF t = 2 THEN LB ELSE LA, T3, <<"P">>, <<"B", "P", "B">>, TRUE, FALSE)]
(* mixes: an interposed subquery, a row filter evaluated after a pause, an aggregate; no pause point depends on a
   balance value, so that the number of grants a thread needs is fixed by the program *)
SP_mix2 == [t \in Threads |-> IF t = 1 THEN Prg(LA, T3, <<"P">>, <<"B", "S", "P", "B">>, TRUE, FALSE)
                              ELSE Prg(LB, <<TRUE, FALSE, TRUE>>, <<"P", "M">>, <<"A">>, TRUE, TRUE)]
(* the same ledger and row filter for both threads: can share one connection *)
SP_mix2s == [t \in Threads |-> IF t = 1 THEN Prg(LA, <<TRUE, FALSE, TRUE>>, <<"P">>, <<"B", "S", "P", "B">>, TRUE, FALSE)
                               ELSE Prg(LA, <<TRUE, FALSE, TRUE>>, <<"P", "M">>, <<"A">>, TRUE, TRUE)]
SP_mix3 == [t \in Threads |-> IF t = 1 THEN Prg(LA, <<TRUE, FALSE, TRUE>>, <<"M", "P", "BT">>, <<"B", "B">>, TRUE, FALSE)
                              ELSE IF t = 2 THEN Prg(LB, <<FALSE, TRUE, TRUE>>, <<"M", "P">>, <<"A">>, TRUE, TRUE)
                              ELSE Prg(<<pH, pR>>, T2, <<"P", "BN">>, <<"B", "S", "B">>, FALSE, FALSE)]
=============================================================================
