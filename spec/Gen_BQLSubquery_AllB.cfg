CONSTANTS
  Tabs <- TabsB
  Restore = FALSE
INIT InitAll
NEXT GNext
INVARIANT Emit
CHECK_DEADLOCK FALSE
