CONSTANTS
  NCursors = 1
  Queries <- QGen
  FetchSizes <- Sizes01235
  ArraySizes <- AS2
  RowCountFrom = "result"
  IterMayConsume = FALSE
  None = None
  Depth = 3
INIT GInit
NEXT GNext
INVARIANT Emit
CHECK_DEADLOCK FALSE
