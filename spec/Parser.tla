------------------------------- MODULE Parser -------------------------------
(***************************************************************************)
(* C06 -- a token-level model of the published BQL grammar                 *)
(* (beanquery/parser/bql.ebnf) with the typed-literal semantics of         *)
(* beanquery/parser/__init__.py.                                           *)
(*                                                                         *)
(*   PrintTokens(stmt, style)  (Print for short; TLC owns that name)       *)
(*                       statement tree -> token sequence, parentheses     *)
(*                       from the NeedsParens(parent, child, position)     *)
(*                       table ("min"), around every operand ("full"), or  *)
(*                       minimal with sub-SELECTs left bare where nothing  *)
(*                       but `)` or the end of input follows ("bare")      *)
(*   Parse(tokens)       recursive-descent transcription of the grammar    *)
(*                       rules (ordered choice, greedy repetition, the     *)
(*                       committed OPEN / CLOSE / CLEAR alternatives)      *)
(*                       -> [ok, ast]                                      *)
(*   Abs(stmt)           the AST a printed tree denotes (literal           *)
(*                       spellings -> typed values)                        *)
(*                                                                         *)
(* The property:  Parse(Print(s, style)).ast = Abs(s)  for every           *)
(* expressible s; every pair of parentheses that the table calls necessary *)
(* is necessary; comparison-level operators do not chain.                  *)
(*                                                                         *)
(* Vocabulary.  A token is a record [t, s, d]:                             *)
(*   kw  s = upper-case reserved word          id  s = lower-case name     *)
(*   p   s = punctuation, d = <<1>> marks a parenthesis that Print deems   *)
(*       necessary (the mark is ignored by Parse)                          *)
(*   int d = digits      dec d = digits with -1 for the point              *)
(*   date d = <<y,m,d>>  str s = string id      table s = name without #   *)
(* A value is [t, s, v] with v a sequence of integers (int <<n>>, dec      *)
(* <<coefficient, exponent>>, date <<y,m,d>>, bool <<0|1>>) and s the      *)
(* string id.  Optional parts are sequences of length 0 or 1.              *)
(***************************************************************************)
EXTENDS Integers, Sequences, FiniteSets, TLC

CONSTANT Variant   \* "ok" | deliberately wrong tables for the non-vacuity runs

-----------------------------------------------------------------------------
(* tokens *)
Tok(t, s, d) == [t |-> t, s |-> s, d |-> d]
KW(w) == Tok("kw", w, <<>>)
ID(n) == Tok("id", n, <<>>)
P(c)  == Tok("p", c, <<>>)
PN(c) == Tok("p", c, <<1>>)            \* a parenthesis Print deems necessary
INT(ds) == Tok("int", "", ds)
DEC(ip, fp) == Tok("dec", "", ip \o <<-1>> \o fp)
DATE(y, m, d) == Tok("date", "", <<y, m, d>>)
STR(id) == Tok("str", id, <<>>)
TABLE(n) == Tok("table", n, <<>>)
EOF == Tok("eof", "", <<>>)

Keywords == {"AND", "AS", "ASC", "BY", "DESC", "DISTINCT", "FALSE", "FROM", "GROUP", "HAVING", "IN", "IS",
             "LIMIT", "NOT", "OR", "ORDER", "PIVOT", "SELECT", "TRUE", "WHERE", "BALANCES", "JOURNAL", "PRINT"}
\* words the grammar uses as tokens without reserving them: they are identifiers everywhere else
SoftKeywords == {"open", "close", "clear", "on", "at", "between", "null"}

-----------------------------------------------------------------------------
(* values and literal spellings *)
Val(t, s, v) == [t |-> t, s |-> s, v |-> v]
NullV == Val("null", "", <<>>)
BoolV(b) == Val("bool", "", <<IF b THEN 1 ELSE 0>>)

RECURSIVE DigitsVal(_)
DigitsVal(ds) == IF ds = <<>> THEN 0 ELSE 10 * DigitsVal(SubSeq(ds, 1, Len(ds) - 1)) + ds[Len(ds)]
PointAt(ds) == CHOOSE i \in 1..Len(ds) : ds[i] = -1

IsLitTok(tk) == \/ tk.t \in {"int", "dec", "date", "str"}
                \/ (tk.t = "kw" /\ tk.s \in {"TRUE", "FALSE"})
                \/ (tk.t = "id" /\ tk.s = "null")
\* every literal form: NULL, TRUE/FALSE, integers (leading zeros allowed), decimals (1. and .5 allowed; the value keeps
\* the written number of fraction digits), dates, strings
LitVal(tk) ==
    CASE tk.t = "int"  -> Val("int", "", <<DigitsVal(tk.d)>>)
      [] tk.t = "dec"  -> LET p == PointAt(tk.d)
                              ip == SubSeq(tk.d, 1, p - 1)
                              fp == SubSeq(tk.d, p + 1, Len(tk.d))
                          IN Val("dec", "", <<DigitsVal(ip \o fp), 0 - Len(fp)>>)
      [] tk.t = "date" -> Val("date", "", tk.d)
      [] tk.t = "str"  -> Val("str", tk.s, <<>>)
      [] tk.t = "kw"   -> BoolV(tk.s = "TRUE")
      [] tk.t = "id"   -> NullV
\* a numeric token whose text starts with a digit: the grammar's `integer` alternative (GROUP BY / ORDER BY / PIVOT BY
\* positions, LIMIT) takes the digits it finds there
DigitLead(tk) == tk.t \in {"int", "date"} \/ (tk.t = "dec" /\ tk.d[1] # -1)

-----------------------------------------------------------------------------
(* trees.  Expression kinds:
     lit [tok]  litlist [toks]            (printed trees only: literal spellings)
     const [val, items]                   (ASTs only; items = element values of a list)
     col [n]  ph [n]  star
     un [op, e]        op in neg not isnull isnotnull
     bin [op, l, r]    op in mul div mod add sub eq ne gt ge lt le match notmatch in notin
     between [e, lo, hi]   and / or [a]   call [f, a]   attr [e, n]   sub [e, key]   select [q]          *)
Lit(tk) == [k |-> "lit", tok |-> tk]
LitList(tks) == [k |-> "litlist", toks |-> tks]
Const(v) == [k |-> "const", val |-> v, items |-> <<>>]
ListConst(vs) == [k |-> "const", val |-> Val("list", "", <<>>), items |-> vs]
Col(n) == [k |-> "col", n |-> n]
Ph(n) == [k |-> "ph", n |-> n]
Star == [k |-> "star"]
Un(op, e) == [k |-> "un", op |-> op, e |-> e]
Bin(op, l, r) == [k |-> "bin", op |-> op, l |-> l, r |-> r]
Between(e, lo, hi) == [k |-> "between", e |-> e, lo |-> lo, hi |-> hi]
And(a) == [k |-> "and", a |-> a]
Or(a) == [k |-> "or", a |-> a]
Call(f, a) == [k |-> "call", f |-> f, a |-> a]
Attr(e, n) == [k |-> "attr", e |-> e, n |-> n]
Sub(e, key) == [k |-> "sub", e |-> e, key |-> key]
SubSel(q) == [k |-> "select", q |-> q]
Idx(i) == [k |-> "idx", i |-> i]          \* AST: a bare integer in GROUP BY / ORDER BY / PIVOT BY
IdxTok(tk) == [k |-> "idxtok", tok |-> tk] \* printed tree: its spelling

Target(e, as) == [e |-> e, as |-> as]                       \* as = <<>> | <<name>>
OrderItem(c, desc) == [c |-> c, desc |-> desc]
GroupBy(cols, having) == [cols |-> cols, having |-> having]
Select(distinct, star, targets, from, where, group, order, pivot, limit) ==
    [k |-> "select", distinct |-> distinct, star |-> star, targets |-> targets, from |-> from, where |-> where,
     group |-> group, order |-> order, pivot |-> pivot, limit |-> limit]
FTable(n) == [k |-> "table", n |-> n]
FSubq(q) == [k |-> "subq", q |-> q]
\* close: <<>> absent, << <<>> >> CLOSE without a date, << <<y,m,d>> >> CLOSE ON date
From(e, open, close, clear) == [k |-> "from", e |-> e, open |-> open, close |-> close, clear |-> clear]
Balances(f, from, where) == [k |-> "balances", fn |-> f, from |-> from, where |-> where]
Journal(a, f, from) == [k |-> "journal", acct |-> a, fn |-> f, from |-> from]
PrintStmt(from) == [k |-> "print", from |-> from]

CmpOps == {"eq", "ne", "gt", "ge", "lt", "le", "match", "notmatch", "in", "notin"}
AddOps == {"add", "sub"}
MulOps == {"mul", "div", "mod"}
OpTok(op) ==
    CASE op = "eq" -> <<P("=")>> [] op = "ne" -> <<P("!=")>> [] op = "gt" -> <<P(">")>> [] op = "ge" -> <<P(">=")>>
      [] op = "lt" -> <<P("<")>> [] op = "le" -> <<P("<=")>> [] op = "match" -> <<P("~")>>
      [] op = "notmatch" -> <<P("!~")>> [] op = "in" -> <<KW("IN")>> [] op = "notin" -> <<KW("NOT"), KW("IN")>>
      [] op = "add" -> <<P("+")>> [] op = "sub" -> <<P("-")>> [] op = "mul" -> <<P("*")>>
      [] op = "div" -> <<P("/")>> [] op = "mod" -> <<P("%")>>

-----------------------------------------------------------------------------
(* the level structure  OR < AND < NOT < comparison < + - < * / % < unary minus < postfix < atoms *)
Lvl(e) ==
    CASE e.k = "or" -> 1
      [] e.k = "and" -> 2
      [] e.k = "un" -> (CASE e.op = "not" -> 3 [] e.op = "neg" -> 7 [] OTHER -> 4)
      [] e.k = "between" -> 4
      [] e.k = "bin" -> (IF e.op \in CmpOps THEN 4 ELSE IF e.op \in AddOps THEN 5 ELSE 6)
      [] e.k \in {"attr", "sub"} -> 8
      [] OTHER -> 9
\* the lowest level the grammar admits without parentheses at an operand position:
\*   or: conjunction   and, not: inversion   comparisons, IS NULL, BETWEEN (all operands): sum
\*   + -: sum on the left, term on the right   * / %: term on the left, factor on the right   unary minus: factor
\*   attribute / subscript: primary (parentheses do not help there: the grammar has no parenthesised primary)
Req(parent, pos) ==
    CASE parent.k = "or" -> 2
      [] parent.k = "and" -> 3
      [] parent.k = "between" -> 5
      [] parent.k = "un" -> (CASE parent.op = "not" -> 3 [] parent.op = "neg" -> 7 [] OTHER -> 5)
      [] parent.k = "bin" ->
           (IF parent.op \in CmpOps THEN 5
            ELSE IF parent.op \in AddOps
                 THEN (IF pos = 1 THEN 5
                       ELSE IF Variant = "subright" /\ parent.op = "sub" THEN 5      \* non-vacuity: a - (b - c) unparenthesised
                       ELSE IF Variant = "overparen" THEN 7                          \* non-vacuity: a + (b * c) "necessary"
                       ELSE 6)
            ELSE (IF pos = 1 THEN 6
                  ELSE IF Variant = "negmul" THEN 6                                 \* non-vacuity: a * (b * c) unparenthesised
                  ELSE 7))
      [] parent.k \in {"attr", "sub"} -> 8
      [] OTHER -> 1
NeedsParens(parent, child, pos) ==
    IF Variant = "cmpassoc" /\ parent.k = "bin" /\ parent.op \in CmpOps /\ pos = 1   \* non-vacuity: (a < b) < c unparenthesised
    THEN Lvl(child) < 4
    ELSE Lvl(child) < Req(parent, pos)

\* trees the language can express: postfix operators apply to primaries only (a parenthesised expression is a factor,
\* not a primary), a sub-SELECT under a postfix operator is left out of the model, lists are non-empty lists of non-NULL
\* literals, the FROM form with neither an expression nor OPEN / CLOSE / CLEAR does not exist
RECURSIVE WFE(_)
RECURSIVE WFQ(_)
WFSeq(s) == \A i \in 1..Len(s) : WFE(s[i])
WFE(e) ==
    CASE e.k = "lit" -> IsLitTok(e.tok)
      [] e.k = "litlist" -> Len(e.toks) >= 1 /\ \A i \in 1..Len(e.toks) : IsLitTok(e.toks[i]) /\ e.toks[i].t # "id"
      [] e.k \in {"col", "ph"} -> TRUE
      [] e.k = "un" -> WFE(e.e)
      [] e.k = "bin" -> WFE(e.l) /\ WFE(e.r)
      [] e.k = "between" -> WFE(e.e) /\ WFE(e.lo) /\ WFE(e.hi)
      [] e.k \in {"and", "or"} -> Len(e.a) >= 2 /\ WFSeq(e.a)
      [] e.k = "call" -> (e.a = <<Star>>) \/ WFSeq(e.a)
      [] e.k \in {"attr", "sub"} -> Lvl(e.e) >= 8 /\ e.e.k # "select" /\ WFE(e.e)
      [] e.k = "select" -> WFQ(e.q)
      [] OTHER -> FALSE
WFCol(c) == c.k = "idxtok" \/ WFE(c)
WFFrom(f, inselect) ==
    CASE f.k = "table" -> inselect
      [] f.k = "subq" -> inselect /\ WFQ(f.q)
      [] f.k = "from" -> /\ (f.e # <<>> \/ f.open # <<>> \/ f.close # <<>> \/ f.clear)
                         /\ (f.e # <<>> => WFE(f.e[1]))
WFQ(q) ==
    CASE q.k = "select" ->
            /\ (q.star <=> q.targets = <<>>)
            /\ \A i \in 1..Len(q.targets) : WFE(q.targets[i].e)
            /\ (q.from # <<>> => WFFrom(q.from[1], TRUE))
            /\ (q.where # <<>> => WFE(q.where[1]))
            /\ (q.group # <<>> => /\ Len(q.group[1].cols) >= 1
                                  /\ \A i \in 1..Len(q.group[1].cols) : WFCol(q.group[1].cols[i])
                                  /\ (q.group[1].having # <<>> => WFE(q.group[1].having[1])))
            /\ \A i \in 1..Len(q.order) : WFCol(q.order[i].c)
            /\ (q.pivot # <<>> => Len(q.pivot) = 2 /\ \A i \in 1..2 : q.pivot[i].k \in {"idxtok", "col"})
      [] q.k = "balances" -> (q.from # <<>> => q.from[1].k = "from" /\ WFFrom(q.from[1], FALSE)) /\ (q.where # <<>> => WFE(q.where[1]))
      [] q.k = "journal" -> (q.from # <<>> => q.from[1].k = "from" /\ WFFrom(q.from[1], FALSE))
      [] q.k = "print" -> (q.from # <<>> => q.from[1].k = "from" /\ WFFrom(q.from[1], FALSE))
      [] OTHER -> FALSE

-----------------------------------------------------------------------------
(* Abs: the AST a printed tree denotes *)
RECURSIVE Abs(_)
RECURSIVE AbsQ(_)
AbsSeq(s) == [i \in 1..Len(s) |-> Abs(s[i])]
Abs(e) ==
    CASE e.k = "lit" -> Const(LitVal(e.tok))
      [] e.k = "litlist" -> ListConst([i \in 1..Len(e.toks) |-> LitVal(e.toks[i])])
      [] e.k = "un" -> Un(e.op, Abs(e.e))
      [] e.k = "bin" -> Bin(e.op, Abs(e.l), Abs(e.r))
      [] e.k = "between" -> Between(Abs(e.e), Abs(e.lo), Abs(e.hi))
      [] e.k = "and" -> And(AbsSeq(e.a))
      [] e.k = "or" -> Or(AbsSeq(e.a))
      [] e.k = "call" -> Call(e.f, AbsSeq(e.a))
      [] e.k = "attr" -> Attr(Abs(e.e), e.n)
      [] e.k = "sub" -> Sub(Abs(e.e), e.key)
      [] e.k = "select" -> SubSel(AbsQ(e.q))
      [] e.k = "idxtok" -> Idx(DigitsVal(e.tok.d))
      [] OTHER -> e                                  \* col ph star
AbsOpt(o) == IF o = <<>> THEN <<>> ELSE <<Abs(o[1])>>
AbsFrom(f) ==
    CASE f.k = "subq" -> FSubq(AbsQ(f.q))
      [] f.k = "from" -> From(AbsOpt(f.e), f.open, f.close, f.clear)
      [] OTHER -> f
AbsFromOpt(o) == IF o = <<>> THEN <<>> ELSE <<AbsFrom(o[1])>>
AbsQ(q) ==
    CASE q.k = "select" ->
            Select(q.distinct, q.star, [i \in 1..Len(q.targets) |-> Target(Abs(q.targets[i].e), q.targets[i].as)],
                   AbsFromOpt(q.from), AbsOpt(q.where),
                   IF q.group = <<>> THEN <<>> ELSE <<GroupBy(AbsSeq(q.group[1].cols), AbsOpt(q.group[1].having))>>,
                   [i \in 1..Len(q.order) |-> OrderItem(Abs(q.order[i].c), q.order[i].desc)],
                   AbsSeq(q.pivot),
                   IF q.limit = <<>> THEN <<>> ELSE <<DigitsVal(q.limit[1].d)>>)
      [] q.k = "balances" -> Balances(q.fn, AbsFromOpt(q.from), AbsOpt(q.where))
      [] q.k = "journal" -> Journal(q.acct, q.fn, AbsFromOpt(q.from))
      [] q.k = "print" -> PrintStmt(AbsFromOpt(q.from))

-----------------------------------------------------------------------------
(* Print.  `tail` = the token that follows is `)` or the end of input: only there may a sub-SELECT stay bare
   (a SELECT takes every clause it can, so anything else that follows would be read as part of it).

   A node is written as a sequence of parts: fixed tokens, operands (parenthesised according to NeedsParens),
   and full expressions (arguments, targets, conditions).  (One call site per mutual recursion edge: TLC's level
   analysis walks every call path of mutually recursive operators before it starts.) *)
RECURSIVE PrE(_, _, _)
RECURSIVE PrQ(_, _, _)
LP == <<P("(")>>
RP == <<P(")")>>
LPN == <<PN("(")>>
RPN == <<PN(")")>>
PT(toks) == [p |-> "t", toks |-> toks, x |-> Star, pos |-> 0, tl |-> FALSE]          \* fixed tokens
PK(x, pos) == [p |-> "k", toks |-> <<>>, x |-> x, pos |-> pos, tl |-> FALSE]         \* operand number pos
PX(x, tl) == [p |-> "x", toks |-> <<>>, x |-> x, pos |-> 0, tl |-> tl]               \* `expression`; tl: what follows is `)`
PC(x) == [p |-> "c", toks |-> <<>>, x |-> x, pos |-> 0, tl |-> FALSE]                \* GROUP BY / ORDER BY item
PF(x) == [p |-> "f", toks |-> <<>>, x |-> x, pos |-> 0, tl |-> FALSE]                \* FROM expression of a SELECT
PQ(q) == [p |-> "q", toks |-> <<>>, x |-> q, pos |-> 0, tl |-> FALSE]                \* ( select ) as a table
Commas(parts) ==        \* parts separated by commas
    LET n == Len(parts) F[i \in 0..n] == IF i = 0 THEN <<>> ELSE F[i - 1] \o (IF i = 1 THEN <<>> ELSE <<PT(<<P(",")>>)>>) \o <<parts[i]>>
    IN F[n]
Parts(e) ==
    CASE e.k = "lit" -> <<PT(<<e.tok>>)>>
      [] e.k = "litlist" ->
            <<PT(LP)>> \o Commas([i \in 1..Len(e.toks) |-> PT(<<e.toks[i]>>)])
            \o <<PT((IF Len(e.toks) = 1 THEN <<P(",")>> ELSE <<>>) \o RP)>>
      [] e.k = "col" -> <<PT(<<ID(e.n)>>)>>
      [] e.k = "ph" -> <<PT(IF e.n = "" THEN <<P("%s")>> ELSE <<P("%("), ID(e.n), P(")s")>>)>>
      [] e.k = "un" ->
            (CASE e.op = "not" -> <<PT(<<KW("NOT")>>), PK(e.e, 1)>>
               [] e.op = "neg" -> <<PT(<<P("-")>>), PK(e.e, 1)>>
               [] e.op = "isnull" -> <<PK(e.e, 1), PT(<<KW("IS"), ID("null")>>)>>
               [] e.op = "isnotnull" -> <<PK(e.e, 1), PT(<<KW("IS"), KW("NOT"), ID("null")>>)>>)
      [] e.k = "bin" -> <<PK(e.l, 1), PT(OpTok(e.op)), PK(e.r, 2)>>
      [] e.k = "between" -> <<PK(e.e, 1), PT(<<ID("between")>>), PK(e.lo, 2), PT(<<KW("AND")>>), PK(e.hi, 3)>>
      [] e.k \in {"and", "or"} ->
            LET n == Len(e.a)
                w == PT(<<KW(IF e.k = "and" THEN "AND" ELSE "OR")>>)
                F[i \in 0..n] == IF i = 0 THEN <<>> ELSE F[i - 1] \o (IF i = 1 THEN <<>> ELSE <<w>>) \o <<PK(e.a[i], i)>>
            IN F[n]
      [] e.k = "call" ->
            IF e.a = <<Star>> THEN <<PT(<<ID(e.f), P("("), P("*"), P(")")>>)>>
            ELSE <<PT(<<ID(e.f), P("(")>>)>> \o Commas([i \in 1..Len(e.a) |-> PX(e.a[i], i = Len(e.a))]) \o <<PT(RP)>>
      [] e.k = "attr" -> <<PK(e.e, 1), PT(<<P("."), ID(e.n)>>)>>
      [] e.k = "sub" -> <<PK(e.e, 1), PT(<<P("["), STR(e.key), P("]")>>)>>
      [] e.k = "select" -> <<PX(e, FALSE)>>

\* GROUP BY / ORDER BY item: the grammar tries `integer` first, so an expression whose text starts with a digit has to be
\* parenthesised (GROUP BY 1 + x is not an expression there)
ColWrap(ts) == IF DigitLead(ts[1]) /\ Variant # "nodigitparen" THEN LPN \o ts \o RPN ELSE ts
\* FROM of a SELECT tries `( select )` before an expression: an expression whose text starts with `( SELECT` needs
\* one more pair of parentheses there
FromWrap(ts) ==
    IF /\ Len(ts) >= 2 /\ Variant # "nofromparen"
       /\ ts[1].t = "p" /\ ts[1].s = "(" /\ ts[2].t = "kw" /\ ts[2].s = "SELECT"
    THEN LPN \o ts \o RPN ELSE ts
\* the parts of `owner` (an expression node, or Star for a statement) written out; `tail` applies to the last part
PrParts(owner, parts, style, tail) ==
    LET n == Len(parts)
        One(i) ==
            LET pt == parts[i]
                last == (i = n /\ tail) \/ pt.tl
                x == pt.x
                \* how the sub-expression is bracketed: "s" sub-SELECT, "n" necessary, "r" redundant (full style), "" none
                br == IF pt.p = "k"
                      THEN (IF x.k = "select" THEN "s"
                            ELSE IF NeedsParens(owner, x, pt.pos) THEN "n"
                            ELSE IF style = "full" /\ Req(owner, pt.pos) < 8 THEN "r" ELSE "")
                      ELSE (IF x.k = "select" THEN "s" ELSE IF style = "full" THEN "r" ELSE "")
                inner == IF pt.p = "q" THEN PrQ(x, style, TRUE)
                         ELSE IF br = "s" THEN PrQ(x.q, style, TRUE)
                         ELSE PrE(x, style, IF br = "" THEN last ELSE TRUE)
                ts == IF pt.p = "q" THEN LP \o inner \o RP
                      ELSE IF br = "s" THEN (IF style = "bare" /\ last THEN inner ELSE LP \o inner \o RP)
                      ELSE IF br = "n" THEN LPN \o inner \o RPN
                      ELSE IF br = "r" THEN LP \o inner \o RP
                      ELSE inner
            IN CASE pt.p = "t" -> pt.toks
                 [] pt.p = "c" -> ColWrap(ts)
                 [] pt.p = "f" -> FromWrap(ts)
                 [] OTHER -> ts
        F[i \in 0..n] == IF i = 0 THEN <<>> ELSE F[i - 1] \o One(i)
    IN F[n]
PrE(e, style, tail) == PrParts(e, Parts(e), style, tail)

ColPart(c) == IF c.k = "idxtok" THEN PT(<<c.tok>>) ELSE PC(c)
PivPart(c) == IF c.k = "idxtok" THEN PT(<<c.tok>>) ELSE PT(<<ID(c.n)>>)
DateTok(d) == DATE(d[1], d[2], d[3])
FromParts(f, inselect) ==
    CASE f.k = "table" -> <<PT(<<TABLE(f.n)>>)>>
      [] f.k = "subq" -> <<PQ(f.q)>>
      [] f.k = "from" ->
            (IF f.e = <<>> THEN <<>> ELSE IF inselect THEN <<PF(f.e[1])>> ELSE <<PX(f.e[1], FALSE)>>)
            \o (IF f.open = <<>> THEN <<>> ELSE <<PT(<<ID("open"), ID("on"), DateTok(f.open[1])>>)>>)
            \o (IF f.close = <<>> THEN <<>>
                ELSE <<PT(<<ID("close")>> \o (IF f.close[1] = <<>> THEN <<>> ELSE <<ID("on"), DateTok(f.close[1])>>))>>)
            \o (IF f.clear THEN <<PT(<<ID("clear")>>)>> ELSE <<>>)
FromClauseParts(o, inselect) == IF o = <<>> THEN <<>> ELSE <<PT(<<KW("FROM")>>)>> \o FromParts(o[1], inselect)
WhereParts(o) == IF o = <<>> THEN <<>> ELSE <<PT(<<KW("WHERE")>>), PX(o[1], FALSE)>>
AtParts(o) == IF o = <<>> THEN <<>> ELSE <<PT(<<ID("at"), ID(o[1])>>)>>
QParts(q, style) ==
    CASE q.k = "select" ->
            <<PT(<<KW("SELECT")>> \o (IF q.distinct THEN <<KW("DISTINCT")>> ELSE <<>>))>>
            \o (IF q.star THEN <<PT(<<P("*")>>)>>
                ELSE LET n == Len(q.targets)
                         F[i \in 0..n] ==
                             IF i = 0 THEN <<>>
                             ELSE F[i - 1] \o (IF i = 1 THEN <<>> ELSE <<PT(<<P(",")>>)>>) \o <<PX(q.targets[i].e, FALSE)>>
                                  \o (IF q.targets[i].as = <<>> THEN <<>> ELSE <<PT(<<KW("AS"), ID(q.targets[i].as[1])>>)>>)
                     IN F[n])
            \o FromClauseParts(q.from, TRUE)
            \o WhereParts(q.where)
            \o (IF q.group = <<>> THEN <<>>
                ELSE <<PT(<<KW("GROUP"), KW("BY")>>)>> \o Commas([i \in 1..Len(q.group[1].cols) |-> ColPart(q.group[1].cols[i])])
                     \o (IF q.group[1].having = <<>> THEN <<>> ELSE <<PT(<<KW("HAVING")>>), PX(q.group[1].having[1], FALSE)>>))
            \o (IF q.order = <<>> THEN <<>>
                ELSE LET n == Len(q.order)
                         F[i \in 0..n] ==
                             IF i = 0 THEN <<>>
                             ELSE F[i - 1] \o (IF i = 1 THEN <<>> ELSE <<PT(<<P(",")>>)>>) \o <<ColPart(q.order[i].c)>>
                                  \o (IF q.order[i].desc THEN <<PT(<<KW("DESC")>>)>>
                                      ELSE IF style = "full" THEN <<PT(<<KW("ASC")>>)>> ELSE <<>>)
                     IN <<PT(<<KW("ORDER"), KW("BY")>>)>> \o F[n])
            \o (IF q.pivot = <<>> THEN <<>>
                ELSE <<PT(<<KW("PIVOT"), KW("BY")>>), PivPart(q.pivot[1]), PT(<<P(",")>>), PivPart(q.pivot[2])>>)
            \o (IF q.limit = <<>> THEN <<>> ELSE <<PT(<<KW("LIMIT"), q.limit[1]>>)>>)
      [] q.k = "balances" -> <<PT(<<KW("BALANCES")>>)>> \o AtParts(q.fn) \o FromClauseParts(q.from, FALSE) \o WhereParts(q.where)
      [] q.k = "journal" -> <<PT(<<KW("JOURNAL")>> \o (IF q.acct = <<>> THEN <<>> ELSE <<STR(q.acct[1])>>))>>
                            \o AtParts(q.fn) \o FromClauseParts(q.from, FALSE)
      [] q.k = "print" -> <<PT(<<KW("PRINT")>>)>> \o FromClauseParts(q.from, FALSE)
PrQ(q, style, tail) == PrParts(Star, QParts(q, style), style, tail)

PrintTokens(s, style) == PrQ(s, style, TRUE)
Styles == {"min", "full", "bare"}

-----------------------------------------------------------------------------
(* Parse: the grammar rules as a recursive-descent recogniser over the token sequence.  Every operator returns
   [ok, ast, i] (i = index of the first token not consumed).  PEG reading of the rules: alternatives in the written
   order, the first that succeeds is kept; [x] and {x} take x whenever it succeeds; a left-recursive rule
   (sum, term, primary) grows its left operand as long as an operator and a right operand follow.
   Repetitions carry what they have so far (`acc`) and the place to fall back to (`back`: before the separator)
   when the next element is not there. *)
Fail == [ok |-> FALSE, ast |-> [k |-> "none"], i |-> 0]
R(a, i) == [ok |-> TRUE, ast |-> a, i |-> i]
Opt(r) == IF r.ok THEN <<r.ast>> ELSE <<>>
At(ts, i) == IF i >= 1 /\ i <= Len(ts) THEN ts[i] ELSE EOF
IsKw(ts, i, w) == At(ts, i).t = "kw" /\ At(ts, i).s = w
IsP(ts, i, c) == At(ts, i).t = "p" /\ At(ts, i).s = c
IsSoft(ts, i, w) == At(ts, i).t = "id" /\ At(ts, i).s = w
IsId(ts, i) == At(ts, i).t = "id"
CmpSyms == {"<", "<=", ">", ">=", "=", "!=", "~", "!~"}
CmpOf(s) == CASE s = "<" -> "lt" [] s = "<=" -> "le" [] s = ">" -> "gt" [] s = ">=" -> "ge" [] s = "=" -> "eq"
              [] s = "!=" -> "ne" [] s = "~" -> "match" [] s = "!~" -> "notmatch"
NoAst == [k |-> "none"]

RECURSIVE PExpr(_, _)
RECURSIVE PDisj(_, _, _, _)
RECURSIVE PConj(_, _, _, _)
RECURSIVE PNot(_, _)
RECURSIVE PCmp(_, _)
RECURSIVE PSums(_, _, _)
RECURSIVE PSum(_, _, _, _, _)
RECURSIVE PTerm(_, _, _, _, _)
RECURSIVE PFactor(_, _)
RECURSIVE PPrimary(_, _, _)
RECURSIVE PPostfix(_, _, _)
RECURSIVE PAtom(_, _)
RECURSIVE PArgs(_, _, _, _, _)
RECURSIVE PListRest(_, _, _)
RECURSIVE PSelect(_, _)
RECURSIVE PItem(_, _, _)
RECURSIVE PItems(_, _, _, _, _)
RECURSIVE PFromClause(_, _, _)

\* expression = disjunction;  or = conjunction {'OR' conjunction}+ | conjunction
PExpr(ts, i) ==
    LET r == PDisj(ts, <<>>, i, i) IN
    IF ~r.ok THEN Fail ELSE IF Len(r.ast) = 1 THEN R(r.ast[1], r.i) ELSE R(Or(r.ast), r.i)
PDisj(ts, acc, i, back) ==
    LET a == PConj(ts, <<>>, i, i) IN
    IF ~a.ok THEN (IF acc = <<>> THEN Fail ELSE R(acc, back))
    ELSE LET x == IF Len(a.ast) = 1 THEN a.ast[1] ELSE And(a.ast)
         IN IF IsKw(ts, a.i, "OR") THEN PDisj(ts, Append(acc, x), a.i + 1, a.i) ELSE R(Append(acc, x), a.i)
\* and = inversion {'AND' inversion}+ | inversion
PConj(ts, acc, i, back) ==
    LET a == PNot(ts, i) IN
    IF ~a.ok THEN (IF acc = <<>> THEN Fail ELSE R(acc, back))
    ELSE IF IsKw(ts, a.i, "AND") THEN PConj(ts, Append(acc, a.ast), a.i + 1, a.i) ELSE R(Append(acc, a.ast), a.i)
\* inversion = 'NOT' inversion | comparison
PNot(ts, i) ==
    IF IsKw(ts, i, "NOT")
    THEN LET r == PNot(ts, i + 1) IN IF r.ok THEN R(Un("not", r.ast), r.i) ELSE Fail
    ELSE PCmp(ts, i)
\* comparison = sum OP sum | sum IS [NOT] NULL | sum BETWEEN sum AND sum | sum      (no chaining: operands are sums)
PCmp(ts, i) ==
    LET l == PSums(ts, i, 1) IN
    IF ~l.ok THEN Fail
    ELSE LET j == l.i
             tk == At(ts, j)
             left == R(l.ast[1], j)
             \* the operator that follows: its name and its length in tokens (0: none)
             opn == IF tk.t = "p" /\ tk.s \in CmpSyms THEN <<CmpOf(tk.s), 1>>
                    ELSE IF IsKw(ts, j, "IN") THEN <<"in", 1>>
                    ELSE IF IsKw(ts, j, "NOT") /\ IsKw(ts, j + 1, "IN") THEN <<"notin", 2>>
                    ELSE IF IsSoft(ts, j, "between") THEN <<"between", 1>>
                    ELSE <<"", 0>>
             r == IF opn[2] > 0 THEN PSums(ts, j + opn[2], IF opn[1] = "between" THEN 2 ELSE 1) ELSE Fail
         IN IF IsKw(ts, j, "IS") /\ IsSoft(ts, j + 1, "null") THEN R(Un("isnull", left.ast), j + 2)
            ELSE IF IsKw(ts, j, "IS") /\ IsKw(ts, j + 1, "NOT") /\ IsSoft(ts, j + 2, "null") THEN R(Un("isnotnull", left.ast), j + 3)
            ELSE IF ~r.ok THEN left                         \* the last alternative of the rule: a bare sum
            ELSE IF opn[1] = "between" THEN R(Between(left.ast, r.ast[1], r.ast[2]), r.i)
            ELSE R(Bin(opn[1], left.ast, r.ast[1]), r.i)
\* n sums separated by AND (n = 2: the bounds of BETWEEN)
PSums(ts, i, n) ==
    LET s == PSum(ts, NoAst, "", i, i) IN
    IF ~s.ok THEN Fail
    ELSE IF n = 1 THEN R(<<s.ast>>, s.i)
    ELSE IF IsKw(ts, s.i, "AND")
    THEN LET rest == PSums(ts, s.i + 1, n - 1) IN IF rest.ok THEN R(<<s.ast>> \o rest.ast, rest.i) ELSE Fail
    ELSE Fail
\* sum = sum '+' term | sum '-' term | term        (left recursive: left associative)
\* acc op _ : the sum so far and the operator just read ("" at the start)
PSum(ts, acc, op, i, back) ==
    LET t == PTerm(ts, NoAst, "", i, i) IN
    IF ~t.ok THEN (IF op = "" THEN Fail ELSE R(acc, back))
    ELSE LET cur == IF op = "" THEN t.ast ELSE Bin(op, acc, t.ast)
         IN IF IsP(ts, t.i, "+") THEN PSum(ts, cur, "add", t.i + 1, t.i)
            ELSE IF IsP(ts, t.i, "-") THEN PSum(ts, cur, "sub", t.i + 1, t.i)
            ELSE R(cur, t.i)
\* term = term '*' factor | term '/' factor | term '%' factor | factor
PTerm(ts, acc, op, i, back) ==
    LET f == PFactor(ts, i) IN
    IF ~f.ok THEN (IF op = "" THEN Fail ELSE R(acc, back))
    ELSE LET cur == IF op = "" THEN f.ast ELSE Bin(op, acc, f.ast)
         IN IF IsP(ts, f.i, "*") THEN PTerm(ts, cur, "mul", f.i + 1, f.i)
            ELSE IF IsP(ts, f.i, "/") THEN PTerm(ts, cur, "div", f.i + 1, f.i)
            ELSE IF IsP(ts, f.i, "%") THEN PTerm(ts, cur, "mod", f.i + 1, f.i)
            ELSE R(cur, f.i)
\* factor = unary | '(' expression ')';  unary = '+' atom | '-' factor | primary
PFactor(ts, i) ==
    IF IsP(ts, i, "-") THEN (LET r == PFactor(ts, i + 1) IN IF r.ok THEN R(Un("neg", r.ast), r.i) ELSE Fail)
    ELSE LET plus == IsP(ts, i, "+")
             p == PPrimary(ts, IF plus THEN i + 1 ELSE i, ~plus)      \* after a unary plus: an atom, no postfix operators
         IN IF p.ok THEN p
            ELSE IF ~plus /\ IsP(ts, i, "(")
            THEN (LET e == PExpr(ts, i + 1) IN IF e.ok /\ IsP(ts, e.i, ")") THEN R(e.ast, e.i + 1) ELSE Fail)
            ELSE Fail
\* primary = primary '.' identifier | primary '[' string ']' | atom
PPrimary(ts, i, postfix) ==
    LET a == PAtom(ts, i) IN IF ~a.ok THEN Fail ELSE IF postfix THEN PPostfix(ts, a.ast, a.i) ELSE a
PPostfix(ts, acc, i) ==
    IF IsP(ts, i, ".") /\ IsId(ts, i + 1) THEN PPostfix(ts, Attr(acc, At(ts, i + 1).s), i + 2)
    ELSE IF IsP(ts, i, "[") /\ At(ts, i + 1).t = "str" /\ IsP(ts, i + 2, "]") THEN PPostfix(ts, Sub(acc, At(ts, i + 1).s), i + 3)
    ELSE R(acc, i)
\* atom = select | function | constant (literal | list) | column | placeholder
\* function = identifier '(' ','.{expression} ')' | identifier '(' '*' ')'
PAtom(ts, i) ==
    IF IsKw(ts, i, "SELECT") THEN (LET r == PSelect(ts, i) IN IF r.ok THEN R(SubSel(r.ast), r.i) ELSE Fail)
    ELSE LET args == IF IsId(ts, i) /\ IsP(ts, i + 1, "(") THEN PArgs(ts, <<>>, i + 2, i + 2, TRUE) ELSE Fail
             ls == IF IsP(ts, i, "(") /\ IsLitTok(At(ts, i + 1)) /\ IsP(ts, i + 2, ",")
                   THEN PListRest(ts, <<LitVal(At(ts, i + 1))>>, i + 2) ELSE Fail
         IN IF args.ok /\ IsP(ts, args.i, ")") THEN R(Call(At(ts, i).s, args.ast), args.i + 1)
            ELSE IF IsId(ts, i) /\ IsP(ts, i + 1, "(") /\ IsP(ts, i + 2, "*") /\ IsP(ts, i + 3, ")") THEN R(Call(At(ts, i).s, <<Star>>), i + 4)
            ELSE IF IsLitTok(At(ts, i)) THEN R(Const(LitVal(At(ts, i))), i + 1)
            ELSE IF ls.ok THEN ls
            ELSE IF IsId(ts, i) THEN R(Col(At(ts, i).s), i + 1)
            ELSE IF IsP(ts, i, "%s") THEN R(Ph(""), i + 1)
            ELSE IF IsP(ts, i, "%(") /\ IsId(ts, i + 1) /\ IsP(ts, i + 2, ")s") THEN R(Ph(At(ts, i + 1).s), i + 3)
            ELSE Fail
\* ','.{expression}: zero or more; the first element may be missing (f(,a) has one argument).  Never fails.
PArgs(ts, acc, i, back, first) ==
    LET a == PExpr(ts, i) IN
    IF ~a.ok THEN (IF first /\ IsP(ts, i, ",") THEN PArgs(ts, <<>>, i + 1, i, FALSE) ELSE R(acc, back))
    ELSE IF IsP(ts, a.i, ",") THEN PArgs(ts, Append(acc, a.ast), a.i + 1, a.i, FALSE) ELSE R(Append(acc, a.ast), a.i)
\* list = '(' &(literal ',') ','.{literal | ()}+ ')'       (an empty element contributes nothing)
PListRest(ts, acc, i) ==
    IF IsP(ts, i, ",")
    THEN IF IsLitTok(At(ts, i + 1)) THEN PListRest(ts, Append(acc, LitVal(At(ts, i + 1))), i + 2) ELSE PListRest(ts, acc, i + 1)
    ELSE IF IsP(ts, i, ")") THEN R(ListConst(acc), i + 1)
    ELSE Fail

\* one element of a comma-separated clause:
\*   target = expression ['AS' identifier]
\*   GROUP BY item = integer | expression             ORDER BY item = (integer | expression) ['DESC' | 'ASC']
\* `integer` comes first and takes the leading digits of whatever is there: a decimal or a date at this place is cut
\* in two (never an item; see Unmodelled below)
PItem(ts, kind, i) ==
    LET isint == kind # "target" /\ At(ts, i).t = "int"
        e == IF kind # "target" /\ DigitLead(At(ts, i)) THEN Fail ELSE PExpr(ts, i)
        c == IF isint THEN R(Idx(DigitsVal(At(ts, i).d)), i + 1) ELSE e
    IN IF ~c.ok THEN Fail
       ELSE IF kind = "target"
       THEN (IF IsKw(ts, c.i, "AS") /\ IsId(ts, c.i + 1) THEN R(Target(c.ast, <<At(ts, c.i + 1).s>>), c.i + 2)
             ELSE R(Target(c.ast, <<>>), c.i))
       ELSE IF kind = "order"
       THEN (IF IsKw(ts, c.i, "DESC") THEN R(OrderItem(c.ast, TRUE), c.i + 1)
             ELSE IF IsKw(ts, c.i, "ASC") THEN R(OrderItem(c.ast, FALSE), c.i + 1)
             ELSE R(OrderItem(c.ast, FALSE), c.i))
       ELSE c
\* ','.{item}+
PItems(ts, kind, acc, i, back) ==
    LET a == PItem(ts, kind, i) IN
    IF ~a.ok THEN (IF acc = <<>> THEN Fail ELSE R(acc, back))
    ELSE IF IsP(ts, a.i, ",") THEN PItems(ts, kind, Append(acc, a.ast), a.i + 1, a.i) ELSE R(Append(acc, a.ast), a.i)
\* ['CLOSE' ('ON' date | {})] ['CLEAR'] after an optional expression and an optional OPEN ON date
PCloseClear(ts, e, open, j) ==
    LET cl == IF IsSoft(ts, j, "close")
              THEN (IF IsSoft(ts, j + 1, "on") /\ At(ts, j + 2).t = "date"
                    THEN [v |-> <<At(ts, j + 2).d>>, i |-> j + 3] ELSE [v |-> << <<>> >>, i |-> j + 1])
              ELSE [v |-> <<>>, i |-> j]
        clr == IsSoft(ts, cl.i, "clear")
    IN R(From(e, open, cl.v, clr), IF clr THEN cl.i + 1 ELSE cl.i)
\* from_clause of SELECT = table | '(' select ')' | from;  from = 'OPEN' ~ ... | 'CLOSE' ~ ... | 'CLEAR' ~ | expression [...]
\* (~ commits: a FROM that starts with the word open / close / clear is never read as an expression)
PFromClause(ts, i, inselect) ==
    LET sq == IF inselect /\ IsP(ts, i, "(") /\ IsKw(ts, i + 1, "SELECT")
              THEN (LET r == PSelect(ts, i + 1) IN IF r.ok /\ IsP(ts, r.i, ")") THEN R(FSubq(r.ast), r.i + 1) ELSE Fail)
              ELSE Fail
    IN IF inselect /\ At(ts, i).t = "table" THEN R(FTable(At(ts, i).s), i + 1)
       ELSE IF sq.ok THEN sq
       ELSE IF IsSoft(ts, i, "open")
       THEN (IF IsSoft(ts, i + 1, "on") /\ At(ts, i + 2).t = "date" THEN PCloseClear(ts, <<>>, <<At(ts, i + 2).d>>, i + 3) ELSE Fail)
       ELSE IF IsSoft(ts, i, "close") THEN PCloseClear(ts, <<>>, <<>>, i)
       ELSE IF IsSoft(ts, i, "clear") THEN R(From(<<>>, <<>>, <<>>, TRUE), i + 1)
       ELSE LET e == PExpr(ts, i) IN
            IF ~e.ok THEN Fail
            ELSE LET op == IsSoft(ts, e.i, "open") /\ IsSoft(ts, e.i + 1, "on") /\ At(ts, e.i + 2).t = "date"
                 IN PCloseClear(ts, <<e.ast>>, IF op THEN <<At(ts, e.i + 2).d>> ELSE <<>>, IF op THEN e.i + 3 ELSE e.i)
PPivCol(ts, i) ==
    IF At(ts, i).t = "int" THEN R(Idx(DigitsVal(At(ts, i).d)), i + 1)
    ELSE IF IsId(ts, i) THEN R(Col(At(ts, i).s), i + 1) ELSE Fail
PPivot(ts, i) ==
    LET a == PPivCol(ts, i)
        b == PPivCol(ts, a.i + 1)
    IN IF a.ok /\ IsP(ts, a.i, ",") /\ b.ok THEN R(<<a.ast, b.ast>>, b.i) ELSE Fail
\* select = 'SELECT' ['DISTINCT'] (','.{target}+ | '*') ['FROM' ..] ['WHERE' expression]
\*          ['GROUP' 'BY' ','.{item}+ ['HAVING' expression]] ['ORDER' 'BY' ','.{order}+] ['PIVOT' 'BY' c ',' c] ['LIMIT' integer]
PSelect(ts, i) ==
    IF ~IsKw(ts, i, "SELECT") THEN Fail
    ELSE LET dist == IsKw(ts, i + 1, "DISTINCT")
             j0 == IF dist THEN i + 2 ELSE i + 1
             tl == PItems(ts, "target", <<>>, j0, j0)
             tg == IF tl.ok THEN tl ELSE IF IsP(ts, j0, "*") THEN R(<<>>, j0 + 1) ELSE Fail
         IN IF ~tg.ok THEN Fail
            ELSE LET fr == IF IsKw(ts, tg.i, "FROM") THEN PFromClause(ts, tg.i + 1, TRUE) ELSE Fail
                     j1 == IF fr.ok THEN fr.i ELSE tg.i
                     wh == IF IsKw(ts, j1, "WHERE") THEN PExpr(ts, j1 + 1) ELSE Fail
                     j2 == IF wh.ok THEN wh.i ELSE j1
                     gc == IF IsKw(ts, j2, "GROUP") /\ IsKw(ts, j2 + 1, "BY") THEN PItems(ts, "col", <<>>, j2 + 2, j2 + 2) ELSE Fail
                     hv == IF gc.ok /\ IsKw(ts, gc.i, "HAVING") THEN PExpr(ts, gc.i + 1) ELSE Fail
                     j3 == IF hv.ok THEN hv.i ELSE IF gc.ok THEN gc.i ELSE j2
                     od == IF IsKw(ts, j3, "ORDER") /\ IsKw(ts, j3 + 1, "BY") THEN PItems(ts, "order", <<>>, j3 + 2, j3 + 2) ELSE Fail
                     j4 == IF od.ok THEN od.i ELSE j3
                     pv == IF IsKw(ts, j4, "PIVOT") /\ IsKw(ts, j4 + 1, "BY") THEN PPivot(ts, j4 + 2) ELSE Fail
                     j5 == IF pv.ok THEN pv.i ELSE j4
                     lm == IsKw(ts, j5, "LIMIT") /\ At(ts, j5 + 1).t = "int"
                     j6 == IF lm THEN j5 + 2 ELSE j5
                 IN R(Select(dist, ~tl.ok, tg.ast, Opt(fr), Opt(wh),
                             IF gc.ok THEN <<GroupBy(gc.ast, Opt(hv))>> ELSE <<>>, IF od.ok THEN od.ast ELSE <<>>,
                             IF pv.ok THEN pv.ast ELSE <<>>, IF lm THEN <<DigitsVal(At(ts, j5 + 1).d)>> ELSE <<>>), j6)
\* balances = 'BALANCES' ['AT' identifier] ['FROM' from] ['WHERE' expression]
\* journal = 'JOURNAL' [string] ['AT' identifier] ['FROM' from]
\* print = 'PRINT' ['FROM' from]
POther(ts, kind) ==
    LET acc == kind = "journal" /\ At(ts, 2).t = "str"
        j0 == IF acc THEN 3 ELSE 2
        at == kind # "print" /\ IsSoft(ts, j0, "at") /\ IsId(ts, j0 + 1)
        j1 == IF at THEN j0 + 2 ELSE j0
        fr == IF IsKw(ts, j1, "FROM") THEN PFromClause(ts, j1 + 1, FALSE) ELSE Fail
        j2 == IF fr.ok THEN fr.i ELSE j1
        wh == IF kind = "balances" /\ IsKw(ts, j2, "WHERE") THEN PExpr(ts, j2 + 1) ELSE Fail
        j3 == IF wh.ok THEN wh.i ELSE j2
        fn == IF at THEN <<At(ts, j0 + 1).s>> ELSE <<>>
    IN CASE kind = "balances" -> R(Balances(fn, Opt(fr), Opt(wh)), j3)
         [] kind = "journal" -> R(Journal(IF acc THEN <<At(ts, 2).s>> ELSE <<>>, fn, Opt(fr)), j3)
         [] kind = "print" -> R(PrintStmt(Opt(fr)), j3)
\* bql = statement [';'] $      (a `;` is the start of a comment for the tokenizer: it never reaches the token level)
Parse(ts) ==
    LET r == IF IsKw(ts, 1, "SELECT") THEN PSelect(ts, 1)
             ELSE IF IsKw(ts, 1, "BALANCES") THEN POther(ts, "balances")
             ELSE IF IsKw(ts, 1, "JOURNAL") THEN POther(ts, "journal")
             ELSE IF IsKw(ts, 1, "PRINT") THEN POther(ts, "print")
             ELSE Fail
    IN IF r.ok /\ r.i = Len(ts) + 1 THEN [ok |-> TRUE, ast |-> r.ast] ELSE [ok |-> FALSE, ast |-> NoAst]


-----------------------------------------------------------------------------
(* Token sequences on which the scannerless parser may cut a token in two, so that the token level says nothing:
   - a number with a point, or a date, where the grammar reads `integer` first (after BY / LIMIT, or after a comma
     that follows a BY): the digits before the point / dash are taken as the integer;
   - %s / %( where an operator may stand (the % is the modulo operator there), )s that does not close %( name;
   and list literals with a NULL element (the runtime drops it unless it is the first element): left unjudged. *)
OperandEnd(tk) == \/ tk.t \in {"id", "int", "dec", "date", "str", "table"}
                  \/ (tk.t = "kw" /\ tk.s \in {"TRUE", "FALSE"})
                  \/ (tk.t = "p" /\ tk.s \in {")", "]", ")s", "%s", "*"})
Unmodelled(ts) ==
    \E i \in 1..Len(ts) :
        \/ /\ i >= 2 /\ DigitLead(ts[i]) /\ ts[i].t # "int"
           /\ \/ IsKw(ts, i - 1, "BY") \/ IsKw(ts, i - 1, "LIMIT")
              \/ (IsP(ts, i - 1, ",") /\ \E j \in 1..(i - 1) : IsKw(ts, j, "BY"))
        \/ /\ i >= 2 /\ (IsP(ts, i, "%s") \/ IsP(ts, i, "%(")) /\ OperandEnd(ts[i - 1])
        \/ /\ IsP(ts, i, ")s") /\ ~(i >= 3 /\ IsP(ts, i - 2, "%(") /\ IsId(ts, i - 1))
        \/ /\ IsSoft(ts, i, "null") /\ (IsP(ts, i - 1, "(") \/ IsP(ts, i - 1, ","))
           /\ (IsP(ts, i + 1, ",") \/ IsP(ts, i + 1, ")"))

=============================================================================
