\* the mechanism as shipped before fix 678e809: one process-wide entry.  TLC must find  balance, x IN (SELECT .. balance ..), balance
CONSTANTS
  Threads = {1}
  CacheMode = "process-wide one entry"
  Split = FALSE
  Programs <- Progs12_shipped
INIT Init
NEXT Next
INVARIANTS SerialInv
CHECK_DEADLOCK FALSE
