\* thorough: spines of depth <= 3 (all operators up to depth 2, class representatives at depth 3), every slot up to depth 2
CONSTANTS
  Variant = "ok"
  MaxDepth = 3
  FullDepth = 2
  CtxDepth = 0
  StmtFull = FALSE
INIT InitSpine
NEXT NextSpine
INVARIANTS WellFormed RoundTrip Minimal NoSpareParens
CHECK_DEADLOCK FALSE
