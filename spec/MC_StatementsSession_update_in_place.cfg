\* non-vacuity: broken mechanism update_in_place must be rejected
CONSTANTS
  Headers <- Empty
  Pool <- Empty
  MaxPostings = 0
  Shapes <- Empty
  DirPool <- Empty
  MaxDirs = 0
  PrintShapes <- Empty
  KnownStrings <- NoStrings
  KnownPats <- NoStrings
  Variant = "shipped"
  NConn = 2
  MaxSteps = 3
  Mech = "update_in_place"
INIT SInit
NEXT SNext
INVARIANTS Independent
CHECK_DEADLOCK FALSE
