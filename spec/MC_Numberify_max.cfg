\* the formatter given is built for the precision setting "maximum" (dcontext.build(precision=Precision.MAXIMUM)):
\* the mechanism (the formatter forwards its own setting to the context) satisfies the property, stated over the
\* display precisions of THIS formatter
CONSTANTS
  Space = "max"
  Shapes <- ShapesOf
  FmtChoices <- Fmt1
  DCtx <- DCAB
  Prec = "maximum"
  CurSeq <- CS3
  InvNull = "skip"
  Mut = "none"
INIT Init
NEXT Next
INVARIANTS TypeOK Total Correct CorrectGen NoCurrencyDropped SumPreserved NothingInvented PlainIdentity RowsPreserved FreqOrdered
CHECK_DEADLOCK FALSE
