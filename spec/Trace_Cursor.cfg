CONSTANTS
  NCursors = 2
  Queries = 0
  FetchSizes = 0
  ArraySizes = 0
  RowCountFrom = "result"
  IterMayConsume = TRUE
  None = None
INIT TInit
NEXT TNext
INVARIANTS PrefixInv SuffixInv RowNumberInv RowCountInv DescInv ExhaustInv
POSTCONDITION TraceConsumed
CHECK_DEADLOCK FALSE
