\* quick tier: every 7th date of 1900..2100 (the thorough tier visits every date); the date_bin laws are checked by
\* MC_Calendar_binq.cfg
CONSTANTS
  Lo = 693596
  Hi = 767009
  Step = 7
  ChainLen = 511
  BinImpl = "spec"
  BinFull = FALSE
INIT Init
NEXT Next
INVARIANTS Anchors CivilInv TruncInv NestInv PartInv AddDiffInv IvalInv
CHECK_DEADLOCK FALSE
