--------------------------- MODULE MC_Statements ---------------------------
(* Constants for the exhaustive model-checking and generator instances of Statements. *)
EXTENDS Statements

Some(s) == <<s>>
Null == <<>>
\* date literals as they are written in BQL; the abstract date is the integer yyyymmdd
D20200105 == "2020-01-05"
D20200301 == "2020-03-01"
D20200601 == "2020-06-01"
D20210101 == "2021-01-01"

HeadersDef == <<
    [date |-> 20200105, flag |-> Some("*"), payee |-> Some("Shop"), narration |-> Some("Food")],
    [date |-> 20200105, flag |-> Some("!"), payee |-> Null,         narration |-> Some("Buy")],
    [date |-> 20210210, flag |-> Some("*"), payee |-> Some("Job"),  narration |-> Some("Pay")] >>

\* a posting without a flag of its own (the usual case) / with one.  The flagged ones sit in transactions whose own flag
\* is the other one (2, 5, 14), the same one (8, 13) -- "one leg of the transaction is still to be checked"
PF(t, a, c, k, n, fl) == [txn |-> t, account |-> a, lot |-> <<c, k, n>>, pflag |-> fl]
PT(t, a, c, k, n) == PF(t, a, c, k, n, Null)
K3 == <<3, "USD", 20200105>>
K4 == <<4, "USD", 20210210>>
K2 == <<2, "USD", 20200105>>
PoolAll == <<
    PT(1, "Assets:Bank",      "USD", NoCost, -5),
    PF(1, "Expenses:Food",    "USD", NoCost, 5, Some("!")),
    PT(1, "Liabilities:Card", "USD", NoCost, -5),
    PT(2, "Assets:Broker",    "HOO", K3, 2),
    PF(2, "Assets:Bank",      "USD", NoCost, -6, Some("*")),
    PT(2, "Expenses:Bank",    "USD", NoCost, 2),
    PT(3, "Assets:Bank",      "USD", NoCost, 5),
    PF(3, "Income:Job",       "USD", NoCost, -7, Some("*")),
    PT(3, "Assets:Broker",    "HOO", K3, -2),
    PT(3, "Equity:Open",      "USD", NoCost, 4),
    PT(2, "Assets:Broker",    "HOO", NoCost, 1),
    PT(3, "Assets:Broker",    "HOO", K4, 1),
    PF(2, "Expenses:Food",    "HOO", K2, 3, Some("!")),
    PF(1, "Equity:Open",      "HOO", NoCost, -1, Some("!")) >>
Pool10 == SubSeq(PoolAll, 1, 10)
Pool14 == PoolAll
\* the account order is a strict total order on the accounts in use (evaluated once)
ASSUME LET A == {PoolAll[k].account : k \in DOMAIN PoolAll} IN OrderLaws(A)

(* ---- statement shapes ---- *)
CmpE(c, o, v, lit) == [k |-> "cmp", col |-> c, op |-> o, v |-> v, lit |-> lit]
MatchE(c, anch, s) == [k |-> "match", col |-> c, p |-> [anch |-> anch, s |-> s]]
HasAcct(anch, s) == [k |-> "hasacct", p |-> [anch |-> anch, s |-> s]]
InE(v, c) == [k |-> "in", v |-> v, col |-> c]
IsNullE(c) == [k |-> "isnull", col |-> c]
NotNullE(c) == [k |-> "notnull", col |-> c]
AndE(a, b) == [k |-> "and", l |-> a, r |-> b]
OrE(a, b) == [k |-> "or", l |-> a, r |-> b]
NotE(a) == [k |-> "not", e |-> a]
FromE(e) == [present |-> TRUE, expr |-> e, open |-> <<>>, close |-> [k |-> "none", d |-> ""], clear |-> FALSE]
NoAcct == [present |-> FALSE, p |-> [anch |-> FALSE, s |-> ""]]
Acct(anch, s) == [present |-> TRUE, p |-> [anch |-> anch, s |-> s]]

Fs == <<"none", "units", "cost">>
Froms == <<
    NoFrom,
    FromE(CmpE("year", "=", 2020, "2020")),
    FromE(AndE(CmpE("date", ">=", 20200105, D20200105), CmpE("payee", "=", "Shop", Quote("Shop")))),
    FromE(HasAcct(FALSE, "Broker")),
    FromE(OrE(CmpE("payee", "=", "Shop", Quote("Shop")), CmpE("flag", "=", "!", Quote("!")))),
    FromE(NotE(CmpE("year", "=", 2020, "2020"))) >>
Wheres == <<
    TrueE,
    MatchE("account", FALSE, "Assets"),
    CmpE("currency", "=", "USD", Quote("USD")),
    AndE(MatchE("account", FALSE, "bank"), CmpE("number", "<", 0, "0")),
    \* the flag of the transaction, whatever flags its postings carry
    CmpE("flag", "=", "!", Quote("!")) >>
Accts == << NoAcct, Acct(FALSE, "Assets"), Acct(TRUE, "Assets:Bank"), Acct(FALSE, "Bank"), Acct(FALSE, "food"),
            Acct(TRUE, "Expenses"), Acct(FALSE, "Nomatch") >>

\* all combinations, as sequences (a statement is identified by its index)
MkBal(froms, wheres) ==
    [n \in 1..(3 * Len(froms) * Len(wheres)) |->
        [kind |-> "balances", f |-> Fs[((n - 1) % 3) + 1], from |-> froms[(((n - 1) \div 3) % Len(froms)) + 1],
         where |-> wheres[((n - 1) \div (3 * Len(froms))) + 1], acct |-> NoAcct]]
MkJrn(froms, accts) ==
    [n \in 1..(3 * Len(froms) * Len(accts)) |->
        [kind |-> "journal", f |-> Fs[((n - 1) % 3) + 1], from |-> froms[(((n - 1) \div 3) % Len(froms)) + 1],
         where |-> TrueE, acct |-> accts[((n - 1) \div (3 * Len(froms))) + 1]]]
MkPrint(froms) == [n \in DOMAIN froms |-> [kind |-> "print", f |-> "none", from |-> froms[n], where |-> TrueE, acct |-> NoAcct]]
ShapesDef == MkBal(Froms, Wheres) \o MkJrn(Froms, Accts)

(* ---- OPEN / CLOSE / CLEAR: every subset of the clauses except OPEN with a bare CLOSE (a separate defect, C13).
        The summarised entry list they produce is C13's subject: here the clauses only travel through the expansion,
        and the recorded rows are judged against the summarised posting table (Trace_Statements). ---- *)
ClauseFrom(e, o, ck, cd, cl) == [present |-> TRUE, expr |-> e, open |-> o, close |-> [k |-> ck, d |-> cd], clear |-> cl]
ClauseCombos == <<
    <<Some(D20200601), "none", "", FALSE>>, <<Some(D20200601), "none", "", TRUE>>,
    <<Some(D20200601), "on", D20210101, FALSE>>, <<Some(D20200601), "on", D20210101, TRUE>>,
    <<Null, "bare", "", FALSE>>, <<Null, "bare", "", TRUE>>,
    <<Null, "on", D20210101, FALSE>>, <<Null, "on", D20210101, TRUE>>,
    <<Null, "none", "", TRUE>> >>
ClauseExprs == << TrueE, CmpE("year", "=", 2020, "2020") >>
ClauseFroms == [n \in 1..(2 * Len(ClauseCombos)) |->
                  LET c == ClauseCombos[((n - 1) \div 2) + 1] IN ClauseFrom(ClauseExprs[((n - 1) % 2) + 1], c[1], c[2], c[3], c[4])]

(* ---- statement shapes for the recorded (code -> spec) runs on the Beancount example ledger and on random ledgers that
        use the same vocabulary; the driver takes texts AND filter expressions from the table TLC prints ---- *)
BigFroms == <<
    NoFrom,
    FromE(CmpE("year", "=", 2020, "2020")),
    FromE(AndE(CmpE("date", ">=", 20200601, D20200601), CmpE("payee", "=", "Kin Soy", Quote("Kin Soy")))),
    FromE(HasAcct(FALSE, "Vanguard")),
    FromE(OrE(CmpE("payee", "=", "Kin Soy", Quote("Kin Soy")), CmpE("flag", "=", "!", Quote("!")))),
    FromE(NotE(CmpE("year", "=", 2020, "2020"))),
    FromE(MatchE("narration", FALSE, "Eating out")) >> \o ClauseFroms
BigWheres == <<
    TrueE,
    MatchE("account", FALSE, "Assets"),
    CmpE("currency", "=", "USD", Quote("USD")),
    AndE(MatchE("account", FALSE, "food"), CmpE("year", "=", 2020, "2020")),
    CmpE("flag", "=", "!", Quote("!")),
    OrE(CmpE("posting_flag", "=", "!", Quote("!")), AndE(CmpE("flag", "=", "*", Quote("*")), MatchE("account", FALSE, "Assets"))) >>
BigAccts == << NoAcct, Acct(FALSE, "Assets"), Acct(TRUE, "Assets:US:BofA"), Acct(FALSE, "Checking"), Acct(FALSE, "food"),
               Acct(TRUE, "Expenses"), Acct(FALSE, "Nomatch") >>
BigPrintFroms == <<
    NoFrom,
    FromE(CmpE("year", "=", 2020, "2020")),
    FromE(CmpE("type", "=", "transaction", Quote("transaction"))),
    FromE(CmpE("flag", "=", "*", Quote("*"))),
    FromE(CmpE("payee", "=", "Kin Soy", Quote("Kin Soy"))),
    FromE(MatchE("narration", FALSE, "Eating out")),
    FromE(HasAcct(FALSE, "Vanguard")),
    FromE(AndE(CmpE("year", "=", 2020, "2020"), CmpE("payee", "=", "Kin Soy", Quote("Kin Soy")))),
    FromE(OrE(CmpE("payee", "=", "Kin Soy", Quote("Kin Soy")), CmpE("type", "=", "open", Quote("open")))),
    FromE(CmpE("date", "<", 20200601, D20200601)),
    FromE(NotE(CmpE("type", "=", "transaction", Quote("transaction")))),
    FromE(OrE(CmpE("flag", "=", "!", Quote("!")), CmpE("date", ">=", 20210101, D20210101))),
    FromE(HasAcct(TRUE, "Expenses:Food")),
    FromE(AndE(MatchE("payee", FALSE, "o"), CmpE("month", "<=", 2, "2"))),
    FromE(CmpE("type", "=", "balance", Quote("balance"))),
    FromE(OrE(CmpE("type", "=", "price", Quote("price")), CmpE("narration", "=", "Payroll", Quote("Payroll")))),
    \* the columns that are sets, NULL on every directive that is not a transaction (notes and documents have tags and
    \* links of their own)
    FromE(InE("trip", "tags")),
    FromE(InE("inv-1", "links")),
    FromE(NotNullE("tags")),
    FromE(IsNullE("links")),
    FromE(NotE(InE("trip", "tags"))),
    FromE(OrE(InE("food", "tags"), CmpE("type", "=", "open", Quote("open")))),
    FromE(AndE(InE("trip", "tags"), CmpE("date", "<", 20200601, D20200601))),
    \* has_account over every directive type: accounts that directives other than transactions name -- a pad names the
    \* account the amount is taken from next to the one it pads
    FromE(HasAcct(TRUE, "Equity:Opening")),
    FromE(HasAcct(FALSE, "slate")),
    FromE(AndE(HasAcct(FALSE, "Equity"), NotE(CmpE("type", "=", "transaction", Quote("transaction"))))) >> \o ClauseFroms
BigShapes == MkBal(BigFroms, BigWheres) \o MkJrn(BigFroms, BigAccts) \o MkPrint(BigPrintFroms)

(* ---- PRINT: one abstract directive of every type; the driver holds the concrete directive of every id ---- *)
\* what the directive carries: transactions, notes and documents have a set of tags and a set of links (possibly empty),
\* the other types have no such attribute
DirT(id, ty, d, fl, pa, na, ac, tg, lk) == [id |-> id, type |-> ty, date |-> d, flag |-> fl, payee |-> pa, narration |-> na,
                                            accounts |-> ac, tags |-> tg, links |-> lk]
Dir(id, ty, d, fl, pa, na, ac) == DirT(id, ty, d, fl, pa, na, ac, Null, Null)
DirPoolAll == <<
    Dir(1, "open", 20200101, Null, Null, Null, {"Assets:Bank"}),
    DirT(2, "transaction", 20200105, Some("*"), Some("Shop"), Some("Food"), {"Assets:Bank", "Expenses:Food"},
         Some({"trip", "a-b"}), Some({"inv-1"})),
    DirT(3, "transaction", 20200105, Some("!"), Null, Some("Buy"), {"Assets:Broker", "Assets:Bank"}, Some({}), Some({})),
    Dir(4, "price", 20200105, Null, Null, Null, {}),
    Dir(5, "balance", 20200201, Null, Null, Null, {"Assets:Bank"}),
    DirT(6, "note", 20200201, Null, Null, Null, {"Assets:Bank"}, Some({"trip"}), Some({"inv-1"})),
    Dir(7, "pad", 20200301, Null, Null, Null, {"Assets:Bank", "Equity:Open"}),
    DirT(8, "transaction", 20210210, Some("*"), Some("Job"), Some("Pay"), {"Assets:Bank", "Income:Job"}, Some({}), Some({"pay-2021"})),
    Dir(9, "close", 20210301, Null, Null, Null, {"Expenses:Food"}),
    Dir(10, "commodity", 20200101, Null, Null, Null, {}),
    Dir(11, "event", 20200301, Null, Null, Null, {}),
    Dir(12, "query", 20200301, Null, Null, Null, {}),
    DirT(13, "document", 20210101, Null, Null, Null, {"Assets:Bank"}, Some({"a-b"}), Some({})),
    Dir(14, "custom", 20210101, Null, Null, Null, {}),
    Dir(15, "open", 20200101, Null, Null, Null, {"Expenses:Food"}) >>
DirPool9 == SubSeq(DirPoolAll, 1, 9)

PrintFroms == <<
    NoFrom,
    FromE(CmpE("year", "=", 2020, "2020")),
    FromE(CmpE("type", "=", "transaction", Quote("transaction"))),
    FromE(CmpE("flag", "=", "*", Quote("*"))),
    FromE(CmpE("payee", "=", "Shop", Quote("Shop"))),
    FromE(MatchE("narration", FALSE, "Buy")),
    FromE(HasAcct(FALSE, "Bank")),
    FromE(AndE(CmpE("year", "=", 2020, "2020"), CmpE("payee", "=", "Shop", Quote("Shop")))),
    FromE(OrE(CmpE("payee", "=", "Shop", Quote("Shop")), CmpE("type", "=", "open", Quote("open")))),
    FromE(CmpE("date", "<", 20200301, D20200301)),
    FromE(NotE(CmpE("type", "=", "transaction", Quote("transaction")))),
    FromE(OrE(CmpE("flag", "=", "!", Quote("!")), CmpE("date", ">=", 20210101, D20210101))),
    FromE(HasAcct(TRUE, "Expenses")),
    FromE(AndE(MatchE("payee", FALSE, "o"), CmpE("month", "<=", 1, "1"))),
    FromE(InE("trip", "tags")),
    FromE(InE("inv-1", "links")),
    FromE(NotNullE("tags")),
    FromE(IsNullE("links")),
    FromE(NotE(InE("a-b", "tags"))),
    FromE(OrE(InE("pay-2021", "links"), CmpE("type", "=", "open", Quote("open")))),
    \* has_account: an account only a pad directive names (as the account the amount is taken from); case-insensitive
    FromE(HasAcct(TRUE, "Equity:Open")),
    FromE(AndE(HasAcct(FALSE, "open"), CmpE("year", "=", 2020, "2020"))) >>
\* memoisation tables: every string and pattern the constants above mention
RECURSIVE PatsOf(_)
PatsOf(e) == CASE e.k \in {"match", "hasacct"} -> {e.p}
               [] e.k \in {"and", "or"} -> PatsOf(e.l) \cup PatsOf(e.r)
               [] e.k = "not" -> PatsOf(e.e)
               [] OTHER -> {}
OptSet(o) == {o[j] : j \in DOMAIN o}
KnownStringsDef ==
    {PoolAll[k].account : k \in DOMAIN PoolAll}
    \cup UNION {DirPoolAll[k].accounts : k \in DOMAIN DirPoolAll}
    \cup UNION {OptSet(HeadersDef[k].payee) \cup OptSet(HeadersDef[k].narration) : k \in DOMAIN HeadersDef}
    \cup UNION {OptSet(DirPoolAll[k].payee) \cup OptSet(DirPoolAll[k].narration) : k \in DOMAIN DirPoolAll}
KnownPatsDef ==
    UNION {PatsOf(Froms[k].expr) : k \in DOMAIN Froms} \cup UNION {PatsOf(Wheres[k]) : k \in DOMAIN Wheres}
    \cup {Accts[k].p : k \in DOMAIN Accts} \cup UNION {PatsOf(PrintFroms[k].expr) : k \in DOMAIN PrintFroms}
PrintShapesDef == MkPrint(PrintFroms)
=============================================================================
