\* C20, exhaustive: 3 threads x 2 rows
CONSTANTS
  Threads = {1, 2, 3}
  CacheMode = "per row context"
  Split = FALSE
  Programs <- Progs20_2rows
INIT Init
NEXT Next
INVARIANTS TypeOK SerialInv ConsultedInv
PROPERTIES NonInterference NoSharedState ProgConstant
CHECK_DEADLOCK FALSE
