---------------------------- MODULE Gen_BQLSession ----------------------------
(* Behaviour generator for the spec->code replay of BQLSession: the same actions with a history variable that
   records every public call when it completes (parse / execute(object) / execute(text) / executemany) with the
   result the specification demands; one JSON line per behaviour of Depth calls.
   EmitFold: one line per constant expression with the value the specification gives it (folding replay).
   EmitSetup: the statements, parameter values and tables of the configuration. *)
EXTENDS MC_BQLSession
VARIABLE hist
CONSTANTS Depth,        \* number of public calls per emitted behaviour
          GenTextIdx    \* parameter sets offered to execute(text) (all of them are offered to execute(object))

Call(op, s, ps, res) == [op |-> op, s |-> s, ps |-> ps, res |-> res, match |-> AllMatch(s, ps)]

(* every statement object exists when a history starts (the usual way: parse once, execute many times);
   Parse replaces an object by a new one *)
GInit == /\ Init!2 /\ Init!3 /\ Init!4 /\ Init!5
         /\ stmts = [s \in 1..NStmts |-> [parsed |-> TRUE, names |-> FreshNames(Text(s))]]
         /\ hist = <<>>
GNext ==
    /\ Len(hist) < Depth \/ cur.phase # "idle"
    /\ \/ \E s \in 1..NStmts : Parse(s) /\ Len(hist) < Depth
                               /\ hist' = Append(hist, [op |-> "parse", s |-> s, ps |-> <<>>, res |-> ErrorResult, match |-> TRUE])
       \/ /\ \/ \E s \in 1..NStmts : \E i \in 1..Len(StmtParams[s]) : Execute(s, i)
             \/ \E s \in 1..NStmts : \E i \in GenTextIdx : ExecuteText(s, i)
             \/ \E s \in 1..NStmts : \E ij \in ManyPairs : ExecuteMany(s, ij)
             \/ Number \/ Bind \/ Run
          /\ hist' = IF results'.n = results.n + 1
                     THEN Append(hist, Call(results'.op, results'.s, results'.ps, results'.res))
                     ELSE hist
Emit == (Len(hist) = Depth /\ cur.phase = "idle") => PrintT(ToJson([hist |-> hist]))

EmitSetup == hist = hist /\ PrintT(ToJson([stmts |-> Stmts, params |-> StmtParams, tabs |-> Data]))

(* ---- folding cases: one state per constant expression ---- *)
VARIABLE fe
FInit(space) == GInit /\ fe \in space
FInitQuick == FInit(ConstSpaceQuick(0))
FInitAll == FInit(ConstSpaceAll(0))
FNext == FALSE /\ UNCHANGED <<vars, hist, fe>>
EmitFold == PrintT(ToJson([e |-> fe, v |-> EvalX(fe, <<>>), folded |-> Fold(fe)]))
HInit == GInit /\ fe = 0
HNext == GNext /\ UNCHANGED fe
=============================================================================
