CONSTANTS
  Lines = {}
  LedgerQueries <- NoQueries
  BadStmts = {}
  Formats <- TFormats
  NonFieldAttrs = {}
  NameLookup = "fields"
  HonourQuiet = TRUE
  MainQuery = ""
  LedgerHasErrors = FALSE
INIT TInit
NEXT TNext
INVARIANTS TypeOK ShowRoundTrip
POSTCONDITION TraceConsumed
CHECK_DEADLOCK FALSE
