\* every history of 3 commands over the 32-letter alphabet, default shell
CONSTANTS
  Lines <- LinesGen3
  LedgerQueries <- QFixed
  BadStmts <- BadFixed
  Formats <- FormatsShipped
  NonFieldAttrs <- AttrNames
  NameLookup = "fields"
  HonourQuiet = TRUE
  MainQuery = "BALANCES"
  LedgerHasErrors = TRUE
  Depth = 3
  Boots <- BootsDefault
INIT GInit
NEXT GNext
INVARIANT Emit
CHECK_DEADLOCK FALSE
