\* date_bin as the code computes it (walk from the origin, `n > source`), full set of strides and origins, every date
\* of 2020-01-01 .. 2020-04-30 (quick tier): the mechanism must satisfy the laws of the statement
CONSTANTS
  Lo = 737425
  Hi = 737545
  Step = 1
  ChainLen = 16
  BinImpl = "walk"
  BinFull = TRUE
INIT Init
NEXT Next
INVARIANTS BinInv WalkInv
CHECK_DEADLOCK FALSE
