\* non-vacuity: the formatter built at the first numberified statement is kept across reloads: must violate
CONSTANTS
  Ledgers <- SessLedgers
  Build = "once per shell"
  MaxStmts = 3
  Shapes = 0
  FmtChoices = 0
  DCtx <- NoDCtx
  Prec = "most_common"
  CurSeq = 0
  InvNull = "skip"
  Mut = "none"
INIT SInit
NEXT SNext
INVARIANTS FormatterOfLoadedLedger StalePrecisionVisible
CHECK_DEADLOCK FALSE
