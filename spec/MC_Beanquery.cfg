CONSTANTS
  NCursors = 2
  Sch <- MSch
  Table <- MTable
  Queries <- MQueries
  FetchSizes <- Sizes
INIT Init
NEXT Next
INVARIANTS PrefixInv RowNumberInv ShapeInv
PROPERTIES RejectedChangesNothing HistoryIndependent
CHECK_DEADLOCK FALSE
