CONSTANTS
  Stmts <- Stmts1
  StmtParams <- Params1
  ManyPairs <- Pairs0
  Data <- DataA
  NumberMode = "conforming"
  MaxCalls = 0
  GenTextIdx <- Idx123
  Depth = 0
INIT FInitQuick
NEXT FNext
INVARIANT EmitFold
CHECK_DEADLOCK FALSE
