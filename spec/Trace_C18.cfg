INIT Init
NEXT Next
POSTCONDITION AllJudged
CHECK_DEADLOCK FALSE
