--------------------------- MODULE MC_BQLSubquery ---------------------------
(* Model-checking instance of BQLSubquery: two tables with different schemas (two data sets), inner queries that
   are filtered / aggregated / ordered by hidden keys / DISTINCT / LIMIT / aliased / expression-named, and outer
   queries over their outputs, nested to depth 3, with IN / NOT IN (subquery) in targets and in WHERE. *)
EXTENDS BQLSubquery, Json

NullTab == [cols |-> <<>>, rows |-> << <<>> >>]
TabsA == [n \in {"t", "u", ""} |->
    CASE n = "t" -> [cols |-> << <<"x", "int">>, <<"s", "str">> >>,
                     rows |-> << <<I(1), S(1)>>, <<I(2), S(2)>>, <<Null, S(1)>>, <<I(0), S(2)>>, <<I(2), S(3)>> >>]
      [] n = "u" -> [cols |-> << <<"y", "int">>, <<"z", "int">> >>,
                     rows |-> << <<I(2), I(5)>>, <<I(0), I(7)>>, <<I(3), Null>>, <<I(2), I(5)>> >>]
      [] OTHER -> NullTab]
TabsB == [n \in {"t", "u", ""} |->
    CASE n = "t" -> [cols |-> << <<"x", "int">>, <<"s", "str">> >>,
                     rows |-> << <<I(3), S(2)>>, <<I(3), S(2)>>, <<I(-1), S(0)>>, <<I(7), Null>> >>]
      [] n = "u" -> [cols |-> << <<"y", "int">>, <<"z", "int">> >>,
                     rows |-> << <<I(7), I(1)>>, <<Null, I(9)>>, <<I(1), I(6)>>, <<I(-1), I(6)>>, <<I(4), I(0)>> >>]
      [] OTHER -> NullTab]

None == NoExpr
Plain(tg, from) == Select(tg, from, None, <<>>, FALSE, -1)

(* ---- inner queries (depth 1) ---- *)
BaseT == {
    Select(<<Tg(Col("x"), ""), Tg(Col("s"), "")>>, Tab("t"), Bin("gt", Col("x"), Const(I(0))), <<>>, FALSE, -1),
    Plain(<<Tg(Col("s"), ""), Tg(CountStar, "n"), Tg(Agg("sum", Col("x")), "sx")>>, Tab("t")),
    Select(<<Tg(Col("s"), "")>>, Tab("t"), None, <<Desc(Col("x"))>>, FALSE, -1),
    Select(<<Tg(Col("s"), "")>>, Tab("t"), None, <<>>, TRUE, -1),
    Select(<<Tg(Col("x"), "")>>, Tab("t"), None, <<Asc(Col("x"))>>, FALSE, 2),
    Plain(<<Tg(Col("x"), "a"), Tg(Col("s"), "b")>>, Tab("t")),
    Plain(<<Tg(Bin("add", Col("x"), Const(I(1))), ""), Tg(Col("s"), "")>>, Tab("t")),
    Select(<<Tg(Col("x"), "")>>, Tab("t"), Bin("gt", Col("x"), Const(I(100))), <<>>, FALSE, -1),
    Plain(<<Tg(Agg("min", Col("x")), "lo"), Tg(Agg("count", Col("x")), "c")>>, Tab("t")) }
BaseU == {
    Select(<<Tg(Col("y"), ""), Tg(Col("z"), "")>>, Tab("u"), Bin("gt", Col("z"), Const(I(5))), <<>>, FALSE, -1),
    Plain(<<Tg(Col("y"), ""), Tg(Agg("sum", Col("z")), "sz")>>, Tab("u")),
    Select(<<Tg(Col("z"), "")>>, Tab("u"), None, <<Desc(Col("y")), Asc(Col("z"))>>, FALSE, -1),
    Select(<<Tg(Col("y"), "")>>, Tab("u"), None, <<>>, TRUE, -1),
    Select(<<Tg(Bin("sub", Col("y"), Col("z")), ""), Tg(Col("y"), "")>>, Tab("u"), None, <<Asc(Col("z"))>>, FALSE, 3),
    Plain(<<Tg(Col("y"), "a")>>, Tab("u")),
    Select(<<Tg(Col("y"), "")>>, Tab("u"), Bin("gt", Col("y"), Const(I(100))), <<>>, FALSE, -1),
    Select(<<Tg(Col("z"), "v"), Tg(Col("y"), "")>>, Tab("u"), None, <<Desc(Bin("add", Col("y"), Col("z")))>>, TRUE, -1) }
Base == BaseT \cup BaseU

(* ---- single-column queries used on the right of IN / NOT IN ---- *)
InQs == {
    Plain(<<Tg(Col("y"), "")>>, Tab("u")),
    Plain(<<Tg(Col("x"), "")>>, Tab("t")),
    Select(<<Tg(Col("x"), "")>>, Tab("t"), Bin("gt", Col("x"), Const(I(100))), <<>>, FALSE, -1),
    Plain(<<Tg(Col("a"), "")>>, Sub(Select(<<Tg(Col("y"), "a"), Tg(Col("z"), "")>>, Tab("u"),
                                          Bin("gt", Col("y"), Const(I(0))), <<Desc(Col("z"))>>, FALSE, 2))),
    Plain(<<Tg(Const(I(2)), "k")>>, Tab("")) }
InQsQuick == { g \in InQs : g.from.k = "tab" }

(* ---- outer queries over a source F whose columns are sch ---- *)
Idents == {"x", "s", "y", "z", "a", "b", "n", "sx", "sz", "m", "lo", "c", "r", "v", "k", "w"}
FirstInt(sch) == LET h == {i \in 1..Len(sch) : sch[i][2] = "int" /\ sch[i][1] \in Idents} IN IF h = {} THEN 0 ELSE MinOf(h)
FirstId(sch) == LET h == {i \in 1..Len(sch) : sch[i][1] \in Idents} IN IF h = {} THEN 0 ELSE MinOf(h)
LastId(sch) == LET h == {i \in 1..Len(sch) : sch[i][1] \in Idents} IN IF h = {} THEN 0 ELSE CHOOSE i \in h : \A j \in h : j <= i

PlainKinds == {"star", "starwhere", "expr", "agg", "hidden", "distinct"}
InKinds == {"intarget", "notintarget", "inwhere", "notinwhere"}
Applicable(sch, kind) ==
    CASE kind = "star" -> TRUE
      [] kind = "distinct" -> FirstId(sch) # 0
      [] OTHER -> FirstInt(sch) # 0

Outer(F, sch, kind, g) ==
    LET ic == Col(sch[FirstInt(sch)][1])
        ac == Col(sch[FirstId(sch)][1])
        lc == Col(sch[LastId(sch)][1])
    IN CASE kind = "star" -> SelectStar(F, None)
         [] kind = "starwhere" -> SelectStar(F, Bin("gt", ic, Const(I(0))))
         [] kind = "expr" -> Plain(<<Tg(Bin("add", ic, Const(I(1))), "r"), Tg(lc, "w")>>, F)
         [] kind = "agg" -> Plain(<<Tg(CountStar, "n"), Tg(Agg("sum", ic), "k")>>, F)
         [] kind = "hidden" -> Select(<<Tg(lc, "v")>>, F, None, <<Desc(ic)>>, FALSE, 2)
         [] kind = "distinct" -> Select(<<Tg(ac, "")>>, F, None, <<>>, TRUE, -1)
         [] kind = "intarget" -> Plain(<<Tg(ic, ""), Tg(InQ(ic, g), "m")>>, F)
         [] kind = "notintarget" -> Plain(<<Tg(NotInQ(ic, g), "m")>>, F)
         [] kind = "inwhere" -> Select(<<Tg(ac, "")>>, F, InQ(ic, g), <<>>, FALSE, -1)
         [] kind = "notinwhere" -> Select(<<Tg(ac, "")>>, F, And2(NotInQ(ic, g), Bin("ge", ic, Const(I(0)))), <<>>, FALSE, -1)

G0 == Plain(<<Tg(Col("y"), "")>>, Tab("u"))
Outers(F, sch, gs) ==
    { Outer(F, sch, kind, G0) : kind \in {k \in PlainKinds : Applicable(sch, k)} }
    \cup { Outer(F, sch, kind, g) : kind \in {k \in InKinds : Applicable(sch, k)}, g \in gs }

OverTables(tabs, gs) == UNION { Outers(Tab(n), tabs[n].cols, gs) : n \in {"t", "u"} }
Over(qs, tabs, gs) == UNION { Outers(Sub(b), OutSchema(b, tabs), gs) : b \in qs }

(* depth <= 2 : base queries, the templates over the plain tables and over every base query *)
QDepth2(tabs) == Base \cup InQs \cup OverTables(tabs, InQs) \cup Over(Base, tabs, InQs)
(* depth 3 : the templates over depth-2 queries built on a FROM-subquery *)
QDepth3(tabs, gs2, gs3) == Over(Over(Base, tabs, gs2), tabs, gs3)

GEmpty == Select(<<Tg(Col("x"), "")>>, Tab("t"), Bin("gt", Col("x"), Const(I(100))), <<>>, FALSE, -1)
QQuick(tabs) == QDepth2(tabs) \cup QDepth3(tabs, {G0}, {G0})
QAll(tabs) == QDepth2(tabs) \cup QDepth3(tabs, InQs, InQs)

(* the statement of the counterexample on the mechanism as shipped:  SELECT x IN (SELECT y FROM #u) FROM #t *)
QShipped == { Plain(<<Tg(InQ(Col("x"), Plain(<<Tg(Col("y"), "")>>, Tab("u"))), "")>>, Tab("t")) }
QOne == { Plain(<<Tg(Col("x"), "")>>, Tab("t")) }

(* INIT predicates (state-level, so that TLC builds only the set a configuration asks for) *)
InitQuick == InitWith(QQuick(Tabs))
InitAll == InitWith(QAll(Tabs))
InitShipped == InitWith(QShipped)
InitOne == InitWith(QOne)
=============================================================================
