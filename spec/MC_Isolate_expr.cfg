\* C20 (function calls evaluated operand by operand, FROM-subqueries), exhaustive: 2 threads, every interleaving of the
\* compilation steps (inner targets, subquery table, names) and of the evaluation steps (operand, operand, apply),
\* property-conforming mechanism; termination under weak fairness
CONSTANTS
  Threads = {1, 2}
  CompilerScope = "per execution"
  ColumnMemo = "none"
  ParserScope = "per call"
  ScanMemo = "none"
  OperandScope = "per call"
  SubqueryColumns = "per table object"
  JobSet = "expr"
SPECIFICATION FairSpec
INVARIANTS TypeOK SerialInv OwnParameters OwnRow OwnStatement OwnOperands OwnNames
PROPERTIES NonInterference NoSharedState JobConstant Termination
CHECK_DEADLOCK FALSE
