SPECIFICATION Spec
POSTCONDITION Consumed
CHECK_DEADLOCK FALSE
