\* quick: boundary dates of 2010-01-01 .. 2030-12-31 plus the century edges of 1900 .. 2101
CONSTANTS
  Family = "calendar"
  GenLo = 733773
  GenHi = 741442
  MaxLen = 0
INIT Init
NEXT Next
CHECK_DEADLOCK FALSE
