----------------------------- MODULE ScalarLib -----------------------------
(* C18 -- the function table: one entry per BQL scalar function form, mapping (constant arguments c, column
   arguments v) to the value the specification (Calendar, Accounts, Strings, Numeric) says must be observed.
   Shared by the generator (Gen_C18: spec -> code cases) and the judge (Trace_C18: code -> spec lines).

   Values are tagged so that every comparison is type-safe:
     <<"n">> NULL | <<"i", n>> | <<"d", ordinal>> | <<"s", text>> | <<"b", 0|1>> | <<"q", num, den>> decimal |
     <<"x", name>> NaN / Infinity | <<"qa", floor(value * 10^6)>> a decimal too long for the model (28-digit quotient)
     | <<"err", class>> an exception | <<"ood">> outside the stated domain: nothing is claimed.
   Arguments are untagged (their type is fixed by the form): dates are ordinals, decimals <<num, den>>, patterns
   records, sets sorted sequences, intervals a count and a unit.                                             *)
EXTENDS Calendar, Accounts, Numeric

N == <<"n">>
OOD == <<"ood">>
I(x) == <<"i", x>>
D(x) == IF InRange(x) THEN <<"d", x>> ELSE OOD
S(x) == <<"s", x>>
B(x) == <<"b", IF x THEN 1 ELSE 0>>
Q(x) == <<"q", x[1], x[2]>>
OptD(o) == IF o = <<>> THEN N ELSE D(o[1])
OptS(o) == IF o = <<>> THEN N ELSE S(o[1])
OptI(o) == IF o = <<>> THEN N ELSE I(o[1])
OptQ(o) == IF o = <<>> THEN N ELSE Q(o[1])

(* ---- date(str): the text is read in the format "%Y-%m-%d" of strptime, Python's documented semantics: %Y is a
   year of exactly four digits, and "when used with the strptime() method, the leading zero is optional for
   formats %d, %m" - so YYYY-M-D with a month and a day of one or two digits each is that date (NULL if there is
   no such day), and every other text is NULL: other ISO 8601 spellings (20200105, 2020-W01-7, 2020-005) are not
   in the format.  Not judged: a blank right after a dash (CPython's day field also takes " 5"), characters
   outside the table (the digits of other scripts).                                                          *)
DateFieldsOK(p) == /\ Len(p) = 3 /\ Len(p[1]) = 4 /\ Len(p[2]) \in {1, 2} /\ Len(p[3]) \in {1, 2}
                   /\ \A i \in 1..3 : IsDigits(p[i])
DateOfStr(s) ==
  IF \E i \in 1..Len(s) : Ch(s, i) \notin Chars THEN OOD
  ELSE IF \E i \in 1..(Len(s) - 1) : Ch(s, i) = "-" /\ Ch(s, i + 1) = " " THEN OOD
  ELSE LET p == Split(s, "-")
       IN IF DateFieldsOK(p) THEN OptD(DateFromYMD(DigitsVal(p[1]), DigitsVal(p[2]), DigitsVal(p[3]))) ELSE N
\* spellings of a date: YYYY-M-D with the month / the day zero padded or not; other ISO 8601 spellings
Spell(o, pm, pd) == LET c == Civil(o) IN Pad4(c.y) \o "-" \o (IF pm THEN Pad2(c.m) ELSE ToString(c.m))
                                         \o "-" \o (IF pd THEN Pad2(c.d) ELSE ToString(c.d))
SpellCompact(o) == LET c == Civil(o) IN Pad4(c.y) \o Pad2(c.m) \o Pad2(c.d)
SpellWeek(o, dashes, day) ==
  Pad4(IsoYear(o)) \o (IF dashes THEN "-W" ELSE "W") \o Pad2(IsoWeek(o))
  \o (IF day THEN (IF dashes THEN "-" ELSE "") \o ToString(IsoWeekday(o)) ELSE "")
SpellOrdinal(o) == LET c == Civil(o)
                       n == o - Ord(c.y, 1, 1) + 1
                   IN Pad4(c.y) \o "-" \o (IF n < 100 THEN "0" ELSE "") \o Pad2(n)
Spellings(o) == {Spell(o, pm, pd) : pm \in BOOLEAN, pd \in BOOLEAN}
OtherSpellings(o) == {SpellCompact(o), SpellOrdinal(o)} \cup {SpellWeek(o, ds, dy) : ds \in BOOLEAN, dy \in BOOLEAN}

\* a tagged input value (object-typed columns, special decimals)
CastObj(target, t) ==
  CASE target = "int" ->
         (CASE t[1] = "i" -> I(t[2])
            [] t[1] = "b" -> I(t[2])
            [] t[1] = "q" -> I(IntOfDec(<<t[2], t[3]>>))
            [] t[1] = "s" -> IF ParseIntDomain(t[2]) THEN OptI(ParseInt(t[2])) ELSE OOD
            [] t[1] = "d" -> N                              \* no integer value: NULL, never an error
            [] t[1] = "x" -> N
            [] OTHER -> OOD)
    [] target = "decimal" ->
         (CASE t[1] = "i" -> Q(RInt(t[2]))
            [] t[1] = "b" -> Q(RInt(t[2]))
            [] t[1] = "q" -> Q(<<t[2], t[3]>>)
            [] t[1] = "s" -> IF ParseDecDomain(t[2]) THEN OptQ(ParseDec(t[2])) ELSE OOD
            [] t[1] = "d" -> N
            [] t[1] = "x" -> <<"x", t[2]>>
            [] OTHER -> OOD)
    [] target = "date" ->
         (CASE t[1] = "d" -> D(t[2])
            [] t[1] = "s" -> DateOfStr(t[2])
            [] t[1] \in {"i", "b", "q", "x"} -> N
            [] OTHER -> OOD)
    [] target = "bool" ->
         (CASE t[1] = "i" -> B(BoolOfInt(t[2]))
            [] t[1] = "b" -> B(t[2] = 1)
            [] t[1] = "q" -> B(BoolOfDec(<<t[2], t[3]>>))
            [] t[1] = "s" -> B(BoolOfStr(t[2]))
            [] t[1] = "d" -> B(TRUE)
            [] OTHER -> OOD)
    [] target = "str" ->
         (CASE t[1] = "i" -> S(StrOfInt(t[2]))
            [] t[1] = "b" -> S(IF t[2] = 1 THEN "TRUE" ELSE "FALSE")
            [] t[1] = "q" -> IF StrOfDecDomain(<<t[2], t[3]>>) THEN S(StrOfDec(<<t[2], t[3]>>)) ELSE OOD
            [] t[1] = "s" -> S(t[2])
            [] t[1] = "d" -> S(DateStr(t[2]))
            [] OTHER -> OOD)
    [] OTHER -> OOD

IvalOK(n, unit) == unit \in IvalUnits
\* the type table of the connection: the first five constants of the "_t" account forms
Types(c) == SubSeq(c, 1, 5)

Apply(f, c, v) ==
  CASE f = "date_trunc" -> IF c[1] \in TruncUnitSet THEN D(DateTrunc(c[1], v[1])) ELSE N
    [] f = "date_part"  -> IF c[1] \notin PartFieldSet THEN N
                           ELSE IF c[1] = "epoch" /\ ~EpochRepresentable(v[1]) THEN OOD
                           ELSE I(DatePart(c[1], v[1]))
    [] f = "year"       -> I(Year(v[1]))
    [] f = "month"      -> I(Month(v[1]))
    [] f = "day"        -> I(Day(v[1]))
    [] f = "yearmonth"  -> D(YearMonth(v[1]))
    [] f = "quarter"    -> S(QuarterName(v[1]))
    [] f = "weekday"    -> S(WeekdayName(v[1]))
    [] f = "date_add"       -> D(DateAdd(v[1], c[1]))
    [] f = "date_add_col"   -> D(DateAdd(v[1], v[2]))
    [] f = "date_diff"      -> I(DateDiff(v[1], v[2]))
    [] f = "add_date_int"   -> D(v[1] + c[1])
    [] f = "add_int_date"   -> D(c[1] + v[1])
    [] f = "sub_date_int"   -> D(v[1] - c[1])
    [] f = "sub_date_date"  -> I(v[1] - v[2])
    [] f = "add_date_ival"  -> IF IvalOK(c[1], c[2]) THEN D(AddIval(v[1], Ival(c[1], c[2]))) ELSE OOD
    [] f = "add_ival_date"  -> IF IvalOK(c[1], c[2]) THEN D(AddIval(v[1], Ival(c[1], c[2]))) ELSE OOD
    [] f = "sub_date_ival"  -> IF IvalOK(c[1], c[2]) THEN D(SubIval(v[1], Ival(c[1], c[2]))) ELSE OOD
    [] f = "add_date_ival2" -> IF IvalOK(c[1], c[2]) /\ IvalOK(c[3], c[4])
                               THEN D(AddIval(v[1], IvalSum(Ival(c[1], c[2]), Ival(c[3], c[4])))) ELSE OOD
    [] f \in {"date_bin", "date_bin_s"}                      \* stride given as interval(..) / as the same text
                            -> IF IvalOK(c[1], c[2]) /\ BinDomain(Ival(c[1], c[2]), c[3])
                               THEN D(DateBin(Ival(c[1], c[2]), v[1], c[3])) ELSE OOD
    [] f = "date_bin_col"   -> IF IvalOK(c[1], c[2]) /\ BinDomain(Ival(c[1], c[2]), v[2])
                               THEN D(DateBin(Ival(c[1], c[2]), v[1], v[2])) ELSE OOD
    [] f = "date_ymd"   -> OptD(DateFromYMD(v[1], v[2], v[3]))
    \* accounts
    [] f = "root"       -> S(Root(v[1], v[2]))
    [] f = "root1"      -> S(Root1(v[1]))
    [] f = "parent"     -> OptS(Parent(v[1]))
    [] f = "leaf"       -> OptS(Leaf(v[1]))
    [] f = "account_sortkey" -> IF KnownRoot(v[1]) THEN S(SortKey(v[1])) ELSE OOD
    [] f = "possign"    -> IF KnownRoot(v[2]) THEN Q(PosSign(v[1], v[2])) ELSE OOD
    \* the same on a connection to a ledger whose options name the five root types c[1..5] (assets, liabilities,
    \* equity, income, expenses); possign_tk: the account is a literal of the statement (c[6]); possign_amt / _pos /
    \* _inv: the overloads for an amount, a position and an inventory of one currency (the number is observed)
    [] f = "account_sortkey_t" -> IF TypeTableOK(Types(c)) /\ KnownRootT(Types(c), v[1])
                                  THEN S(SortKeyT(Types(c), v[1])) ELSE OOD
    [] f \in {"possign_t", "possign_amt", "possign_pos", "possign_inv"}
                        -> IF TypeTableOK(Types(c)) /\ KnownRootT(Types(c), v[2])
                           THEN Q(PosSignT(Types(c), v[1], v[2])) ELSE OOD
    [] f = "possign_tk" -> IF TypeTableOK(Types(c)) /\ KnownRootT(Types(c), c[6])
                           THEN Q(PosSignT(Types(c), v[1], c[6])) ELSE OOD
    \* strings
    [] f = "upper"      -> S(Upper(v[1]))
    [] f = "lower"      -> S(Lower(v[1]))
    [] f = "length"     -> I(Length(v[1]))
    [] f = "length_set" -> I(Len(v[1]))
    [] f = "substr"     -> S(Substr(v[1], v[2], v[3]))
    [] f = "splitcomp"  -> IF SplitCompDomain(v[1], v[2], v[3]) THEN S(SplitComp(v[1], v[2], v[3])) ELSE OOD
    [] f = "maxwidth"   -> IF MaxWidthDomain(v[1], v[2]) THEN S(MaxWidth(v[1], v[2])) ELSE OOD
    [] f = "grep"       -> OptS(Grep(v[1], v[2]))
    [] f = "grepn"      -> IF GrepNDomain(v[1], v[2], v[3]) THEN OptS(GrepN(v[1], v[2], v[3])) ELSE OOD
    [] f = "subst"      -> S(Subst(v[1], v[2], v[3]))
    [] f = "findfirst"  -> OptS(FindFirst(v[1], v[2]))
    [] f = "joinstr"    -> <<"anyof", JoinStrSet(v[1])>>
    \* numeric
    [] f = "abs"        -> Q(Abs(v[1]))
    [] f = "neg"        -> Q(Neg(v[1]))
    [] f = "round1"     -> Q(Round(v[1], 0))
    [] f = "round"      -> Q(Round(v[1], v[2]))
    [] f = "round_int1" -> I(RoundInt(v[1], 0))
    [] f = "round_int"  -> I(RoundInt(v[1], v[2]))
    [] f = "safediv"    -> Q(SafeDiv(v[1], v[2]))
    [] f = "safediv_int" -> Q(SafeDiv(v[1], RInt(v[2])))
    \* casts: c = <<target type, input type>>; typed inputs are wrapped into the tagged form
    [] f = "cast" -> CastObj(c[1],
                             CASE c[2] = "int"  -> <<"i", v[1]>>
                               [] c[2] = "bool" -> <<"b", v[1]>>
                               [] c[2] = "dec"  -> <<"q", v[1][1], v[1][2]>>
                               [] c[2] = "str"  -> <<"s", v[1]>>
                               [] c[2] = "date" -> <<"d", v[1]>>
                               [] OTHER -> v[1])              \* "obj", "decx": already tagged
    \* a cast of a text written as a literal in the statement: c = <<target type, text>> (the column is not used)
    [] f = "cast_k" -> CastObj(c[1], <<"s", c[2]>>)
    [] OTHER -> OOD

\* does the observation conform to the expected value e?  (joinstr: any enumeration order; a long quotient:
\* within 10^-6)
Conforms(e, obs) ==
  \/ e[1] = "anyof" /\ obs[1] = "s" /\ obs[2] \in e[2]
  \/ e[1] = obs[1] /\ e = obs
  \/ e[1] = "q" /\ obs[1] = "qa" /\ AbsI(e[2]) <= 2000
       /\ (RFloor(RMul(<<e[2], e[3]>>, RInt(1000000))) - obs[2]) \in {-1, 0, 1}
Accepts(f, c, v, obs) == LET e == Apply(f, c, v) IN e = OOD \/ Conforms(e, obs)
IsOOD(f, c, v) == Apply(f, c, v) = OOD

\* named deviations (a known finding of the shipped code, or the behaviour before a repair): a rejected observation
\* that is exactly the deviation gets its own key; any other rejected observation keeps the generic key of its
\* function.  date_bin:month-stride:on-boundary = the walk before repair 5c4d63a (a regression to it is reported
\* under that key); cast:int:decimal-infinity = int() of an infinite decimal raises OverflowError.
Deviation(f, c, v, obs) ==
  IF f \in {"date_bin", "date_bin_s", "date_bin_col"}
    THEN LET iv == Ival(c[1], c[2])
             origin == IF f = "date_bin_col" THEN v[2] ELSE c[3] IN
         IF IvalOK(c[1], c[2]) /\ BinDomain(iv, origin) /\ OnBoundaryAfterOrigin(iv, v[1], origin)
            /\ obs = D(PrevBin(iv, v[1], origin))
         THEN "date_bin:month-stride:on-boundary" ELSE ""
  ELSE IF f = "cast" /\ c[1] = "int" /\ c[2] \in {"obj", "decx"} /\ v[1][1] = "x"
          /\ v[1][2] \in {"Infinity", "-Infinity"} /\ obs = <<"err", "OverflowError">>
    THEN "cast:int:decimal-infinity"
  ELSE ""
=============================================================================
