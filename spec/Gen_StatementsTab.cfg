CONSTANTS
  Headers <- HeadersDef
  Pool <- Pool14
  MaxPostings = 0
  Shapes <- ShapesDef
  DirPool <- DirPoolAll
  MaxDirs = 0
  PrintShapes <- PrintShapesDef
  KnownStrings <- KnownStringsDef
  KnownPats <- KnownPatsDef
  Variant = "shipped"
INIT TabInit
NEXT Stutter
INVARIANT EmitTables
CHECK_DEADLOCK FALSE
