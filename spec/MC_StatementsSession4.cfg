\* sessions (thorough): every sequence of <= 4 statements (18 shapes) on 2 connections
CONSTANTS
  Headers <- Empty
  Pool <- Empty
  MaxPostings = 0
  Shapes <- Empty
  DirPool <- Empty
  MaxDirs = 0
  PrintShapes <- Empty
  KnownStrings <- NoStrings
  KnownPats <- NoStrings
  Variant = "shipped"
  NConn = 2
  MaxSteps = 4
  Routes = {"typed"}
  Mech = "shipped"
INIT SInit
NEXT SNext
INVARIANTS Independent RegisteredUntouched
CHECK_DEADLOCK FALSE
