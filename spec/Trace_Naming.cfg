CONSTANTS
  MaxTargets = 1
  Mode = "plain"
INIT TInit
NEXT TNext
POSTCONDITION Consumed
CHECK_DEADLOCK FALSE
