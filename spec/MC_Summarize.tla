---------------------------- MODULE MC_Summarize ----------------------------
(* Model-checking instance of Summarize: a universe of 10 accounts over the five root types, two operating
   currencies, one commodity held at cost (a lot), price conversions, and every ledger of at most MaxTxns
   transactions drawn from the balanced templates below. *)
EXTENDS Summarize, Json

MCBase == 1000000

K(a, r, c, lot, vc, kn) == [a |-> a, r |-> r, c |-> c, lot |-> lot, vc |-> vc, kn |-> kn]
MCKeyTab == <<       \* sorted by account: the keys of one account are consecutive
    K("Assets:Bank", "A", "USD", "", "USD", 0),                     \*  1
    K("Assets:Bank", "A", "EUR", "", "EUR", 0),                     \*  2
    K("Assets:Inv", "A", "HOOL", "2 USD", "USD", 2),                \*  3   HOOL {2 USD}
    K("Equity:Conversions:Current", "Q", "USD", "", "USD", 0),      \*  4
    K("Equity:Conversions:Current", "Q", "EUR", "", "EUR", 0),      \*  5
    K("Equity:Conversions:Previous", "Q", "USD", "", "USD", 0),     \*  6
    K("Equity:Conversions:Previous", "Q", "EUR", "", "EUR", 0),     \*  7
    K("Equity:Earnings:Current", "Q", "USD", "", "USD", 0),         \*  8
    K("Equity:Earnings:Current", "Q", "EUR", "", "EUR", 0),         \*  9
    K("Equity:Earnings:Previous", "Q", "USD", "", "USD", 0),        \* 10
    K("Equity:Earnings:Previous", "Q", "EUR", "", "EUR", 0),        \* 11
    K("Equity:Opening-Balances", "Q", "USD", "", "USD", 0),         \* 12
    K("Equity:Opening-Balances", "Q", "EUR", "", "EUR", 0),         \* 13
    K("Expenses:Food", "X", "USD", "", "USD", 0),                   \* 14
    K("Expenses:Food", "X", "EUR", "", "EUR", 0),                   \* 15
    K("Income:Salary", "I", "USD", "", "USD", 0),                   \* 16
    K("Income:Salary", "I", "HOOL", "2 USD", "USD", 2),             \* 17   income paid in kind, held at cost
    K("Liabilities:Card", "L", "EUR", "", "EUR", 0) >>              \* 18
MCCurSeq == << "EUR", "USD" >>
MCSpecial == [opening |-> "Equity:Opening-Balances", prev_earn |-> "Equity:Earnings:Previous",
              prev_conv |-> "Equity:Conversions:Previous", cur_earn |-> "Equity:Earnings:Current",
              cur_conv |-> "Equity:Conversions:Current"]

(* a posting of units u on key k, optionally with a unit price pn in currency pc *)
P(k, u, pn, pcur) ==
    LET kt == MCKeyTab[k]
        v == IF kt.lot # "" THEN u * kt.kn ELSE u
    IN [k |-> k, u |-> <<u, 0>>, v |-> <<v, 0>>,
        w |-> IF kt.lot # "" THEN <<v, 0>> ELSE IF pn > 0 THEN <<u * pn, 0>> ELSE <<u, 0>>,
        wc |-> IF kt.lot # "" THEN kt.vc ELSE IF pn > 0 THEN pcur ELSE kt.c,
        px |-> IF pn > 0 THEN ToString(pn) \o " " \o pcur ELSE "",
        pn |-> pn, pcur |-> pcur]

BANK == 1  BANKE == 2  INV == 3  OPENBAL == 12  FOOD == 14  FOODE == 15  SALARY == 16  SALARYK == 17  CARD == 18
Templates == <<
    << P(BANK, 5, 0, ""), P(SALARY, -5, 0, "") >>,                              \* 1 salary
    << P(FOOD, 2, 0, ""), P(BANK, -2, 0, "") >>,                                \* 2 food paid from the bank
    << P(FOODE, 3, 0, ""), P(CARD, -3, 0, "") >>,                               \* 3 food on the card, second currency
    << P(BANK, -6, 0, ""), P(BANKE, 3, 2, "USD") >>,                            \* 4 currency conversion at a price
    << P(BANK, -4, 0, ""), P(INV, 2, 0, "") >>,                                 \* 5 buy a lot at cost
    << P(INV, -1, 3, "USD"), P(BANK, 3, 0, ""), P(SALARY, -1, 0, "") >>,        \* 6 sell from the lot at a price, gains
    << P(BANK, 7, 0, ""), P(OPENBAL, -7, 0, "") >>,                             \* 7 funding against an Equity account
    << P(CARD, 3, 0, ""), P(BANKE, -3, 0, "") >>,                               \* 8 pay the card
    << P(INV, 1, 0, ""), P(SALARYK, -1, 0, "") >> >>                            \* 9 income in kind: a lot on Income

NonDecreasing(f, n) == \A i \in 1..(n - 1) : f[i] <= f[i + 1]
LedgersOf(n, dates, tmpls) ==
    { [i \in 1..n |-> [date |-> ds[i], flag |-> "*", t |-> i, ps |-> Templates[ts[i]]]] :
        ds \in {f \in [1..n -> dates] : NonDecreasing(f, n)}, ts \in [1..n -> tmpls] }

AllT == 1..9
(* The ledger sets are selected by name through an operator WITH a parameter: TLC evaluates every zero-arity constant
   definition eagerly at start-up, in every run -- tens of thousands of ledgers that most runs never use. *)
LedgerSet(name) ==
    CASE name = "none" -> LedgersOf(0, {2}, AllT)
      \* quick: every 1-transaction ledger; 2 transactions: all 81 template pairs on dates {2, 4} and the interacting
      \* templates (salary, card, conversion, sale with gains) on all date pairs; 3 transactions over salary / conversion / sale
      [] name = "quick" ->
            LedgersOf(0, {2}, AllT) \cup LedgersOf(1, 2..4, AllT) \cup LedgersOf(2, {2, 4}, AllT)
              \cup LedgersOf(2, 2..4, {1, 3, 4, 6}) \cup LedgersOf(3, 2..4, {1, 4, 6})
      \* thorough: <= 2 transactions on dates 2..5 (all templates); 3 transactions: all 729 template triples on dates 2..4
      \* and four interacting templates on dates 2..5; 4 transactions over salary / conversion / sale on dates 2..4
      [] name = "thorough" ->
            LedgersOf(0, {2}, AllT) \cup LedgersOf(1, 2..5, AllT) \cup LedgersOf(2, 2..5, AllT)
              \cup LedgersOf(3, 2..4, AllT) \cup LedgersOf(3, 2..5, {1, 3, 4, 6}) \cup LedgersOf(4, 2..4, {1, 4, 6})
      \* small instance for the coverage and the non-vacuity runs
      [] name = "cover" ->
            LedgersOf(0, {2}, AllT) \cup LedgersOf(1, {3}, {1, 4, 6}) \cup LedgersOf(2, {2, 4}, {1, 4})
      \* nested statements: ledgers whose transactions differ in date and in accounts (what a subquery selects differs
      \* between the ledger and its period reports)
      [] name = "nested" ->
            LedgersOf(1, {3}, {1, 6}) \cup { l \in LedgersOf(2, {2, 4}, {1, 3, 4, 7}) : l[1].date < l[2].date /\ l[1].ps # l[2].ps }
      [] name = "nestedthorough" ->
            LedgersOf(1, {3}, {1, 6}) \cup { l \in LedgersOf(2, {2, 4}, {1, 3, 4, 6, 7, 9}) : l[1].date < l[2].date /\ l[1].ps # l[2].ps }
              \cup { l \in LedgersOf(3, {2, 3, 4}, {1, 4, 6}) : l[1].date = 2 /\ l[2].date = 3 /\ l[3].date = 4 /\ l[1].ps # l[2].ps }
      \* entry points: the hook of the shell works on the FROM clause alone -- few ledgers (one of them with income, expenses, a
      \* conversion and a sale on different dates), every clause combination, every door
      [] name = "doors" ->
            LedgersOf(0, {2}, AllT) \cup LedgersOf(1, {3}, {1, 4}) \cup LedgersOf(2, {2, 4}, {1, 3, 4, 6})
      [] name = "doorscover" ->
            LedgersOf(0, {2}, AllT) \cup LedgersOf(1, {3}, {1, 4}) \cup LedgersOf(2, {2, 4}, {1, 4})
InitDoors == InitWith(LedgerSet("doors"))
InitDoorsCover == InitWith(LedgerSet("doorscover"))
InitNone == InitWith(LedgerSet("none"))
InitNested == InitWith(LedgerSet("nested"))
InitNestedThorough == InitWith(LedgerSet("nestedthorough"))
InitQuick == InitWith(LedgerSet("quick"))
InitThorough == InitWith(LedgerSet("thorough"))
InitCover == InitWith(LedgerSet("cover"))

Open05 == 0..5
Close05 == -1..5
Open06 == 0..6
Close06 == -1..6
F(n, a) == [n |-> n, a |-> a]
FNone == {NoFilter}
FSome == {NoFilter, F("nott", 1), F("ge", 3)}
FAll == {NoFilter, F("orig", 0), F("synth", 0), F("nott", 1), F("onlyt", 2), F("ge", 3), F("lt", 4)}
Open03 == {0, 3}
OpenDoors == {0, 2, 3, 5}
CloseDoors == {-1, 0, 1, 3, 4}
Close04 == {-1, 0, 4}
Close024 == {-1, 0, 2, 4}
InnersNone == {NoInner}
\* subqueries: every clause subset (CLOSE bare / dated, once before the OPEN date: rejected) x a filter expression; a
\* subquery without any FROM clause is outside the statement
InnersOf(opens, closes, filters) ==
    { [on |-> TRUE, c |-> c] : c \in { x \in [open : opens, close : closes, clear : BOOLEAN, filter : filters] : HasFrom(x) } }
InnersQuick == InnersOf(Open03, Close04, {NoFilter, F("onlyt", 2), F("ge", 3)})
InnersCover == InnersOf(Open03, {-1, 4}, {F("ge", 3)})
InnersThorough == InnersOf(Open03, Close024, {NoFilter, F("orig", 0), F("onlyt", 2), F("ge", 3), F("lt", 4)})
\* entry points: the DB-API, the shell (typed statement / command line), named queries whose directive is dated before, on,
\* between and after the entry dates
DoorsApi == {ApiDoor}
DoorsAll == {ApiDoor, ShellDoor} \cup {RunDoor(q) : q \in 1..5}
DoorsShell == {ShellDoor, RunDoor(3)}
OrderStated == <<"open", "close", "clear", "filter">>
OrderClearFirst == <<"open", "clear", "close", "filter">>
OrderClearAlso == <<"open", "clear", "close", "clear", "filter">>      \* the recorded edit: CLEAR also applied before CLOSE
OrderCloseFirst == <<"close", "open", "clear", "filter">>
OrderFilterFirst == <<"filter", "open", "close", "clear">>
=============================================================================
