\* thorough: nested statements over more ledgers, five filter expressions in the subquery, a
\* rejected subquery (CLOSE before OPEN)
CONSTANTS
  Base <- MCBase
  KeyTab <- MCKeyTab
  CurSeq <- MCCurSeq
  Special <- MCSpecial
  Ledgers = {}
  OpenArgs <- Open03
  CloseArgs <- Close04
  ClearArgs = {TRUE, FALSE}
  Filters <- FNone
  Order <- OrderStated
  CompileMode = "stated"
  Inners <- InnersThorough
  ScopeMode = "stated"
  Doors <- DoorsApi
  HookMode = "stated"
INIT InitNestedThorough
NEXT Next
INVARIANTS KeepInv BalanceSheetInv IncomeInv EquityInv TxBalanceInv LayoutInv FilterInv CompileInv SortedInv ExpectInv ScopeInv
CHECK_DEADLOCK FALSE
