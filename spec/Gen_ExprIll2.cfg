CONSTANTS
  MaxDepth = 2
  EmitMode = "illtyped"
INIT Init
NEXT Next
INVARIANTS Emit
CHECK_DEADLOCK FALSE
