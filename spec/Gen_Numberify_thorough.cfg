\* thorough replay space
CONSTANTS
  Space = "gen-thorough"
  Shapes <- ShapesOf
  FmtChoices <- Fmt01
  Q <- QAB
  CurSeq <- CS3
  InvNull = "skip"
  Mut = "none"
INIT Init
NEXT GNext
INVARIANT Emit
CHECK_DEADLOCK FALSE
