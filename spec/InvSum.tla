------------------------------- MODULE InvSum -------------------------------
(***************************************************************************)
(* C12, the clause "sum() over ... INVENTORIES equals the Beancount        *)
(* inventory sum of the group's values and commutes with units(), cost(),  *)
(* value() and convert()", stated declaratively for a table whose rows     *)
(* HOLD inventories (a user table, or the rows of a sub-select) and for    *)
(* any aggregate statement over it.  Transcribed from the property         *)
(* statement, not from the code; the operators of Inventory do the sums.   *)
(*                                                                         *)
(* row        [g, null, v]   g: group key (integer >= 1), null: the cell   *)
(*            is NULL, v: the inventory the cell holds (EmptyInv if NULL)  *)
(* node       <<kind, f>>    one aggregate expression of the target list   *)
(*            "sum"   sum(inv)           "fsum"  f(sum(inv))               *)
(*            "sumf"  sum(f(inv))        f as in Inventory!ApplyP          *)
(* statement  [nodes, grouped, having, limit]                              *)
(*            SELECT [g,] nodes FROM table [GROUP BY g]                    *)
(*            [HAVING NOT empty(sum(inv))] [LIMIT limit]   (0: no LIMIT)   *)
(* The expected result depends on the table's values and the statement     *)
(* ONLY: not on how many nodes aggregate the same operand, not on what has *)
(* been executed before on the table (by any cursor or connection).        *)
(* A LIMIT clause restricts HOW MANY of the groups are returned (C12 does  *)
(* not say which ones: that is the business of C03), never what a returned *)
(* row carries: every returned row is a row of the statement without LIMIT *)
(* -- the sums of ALL the rows of its group.                               *)
(***************************************************************************)
EXTENDS Inventory

NoF == <<"", "", 0>>
Node(kind, f) == <<kind, f>>
Row(g, null, v) == [g |-> g, null |-> null, v |-> v]
StmtL(nodes, grouped, having, limit) == [nodes |-> nodes, grouped |-> grouped, having |-> having, limit |-> limit]
Stmt(nodes, grouped, having) == StmtL(nodes, grouped, having, 0)
CellInv(r) == IF r.null THEN EmptyInv ELSE r.v

(* the inventory sum of the cells of the rows I (NULL cells do not contribute) *)
RECURSIVE SumRows(_, _)
SumRows(tab, I) ==
    IF I = {} THEN EmptyInv
    ELSE LET i == CHOOSE i \in I : \A k \in I : k <= i IN Add(SumRows(tab, I \ {i}), CellInv(tab[i]))
(* the inventory sum of f applied to every cell of the rows I *)
RECURSIVE SumFRows(_, _, _, _, _)
SumFRows(f, tab, I, prices, sc) ==
    IF I = {} THEN EmptyInv
    ELSE LET i == CHOOSE i \in I : \A k \in I : k <= i
         IN Add(SumFRows(f, tab, I \ {i}, prices, sc), ApplyI(f, CellInv(tab[i]), prices, sc))

NodeValue(nd, tab, I, prices, sc) ==
    CASE nd[1] = "sum" -> SumRows(tab, I)
      [] nd[1] = "fsum" -> ApplyI(nd[2], SumRows(tab, I), prices, sc)
      [] nd[1] = "sumf" -> SumFRows(nd[2], tab, I, prices, sc)

GroupKeys(tab, s) == IF s.grouped THEN {tab[i].g : i \in 1..Len(tab)} ELSE IF Len(tab) = 0 THEN {} ELSE {0}
GroupRows(tab, s, k) == {i \in 1..Len(tab) : ~s.grouped \/ tab[i].g = k}
(* the result of statement s on table tab: a set of rows (one per group; the order of groups is not C12's business) *)
Expected(tab, s, prices, sc) ==
    { [key |-> k, vals |-> [n \in 1..Len(s.nodes) |-> NodeValue(s.nodes[n], tab, GroupRows(tab, s, k), prices, sc)]] :
        k \in {k \in GroupKeys(tab, s) : ~s.having \/ SumRows(tab, GroupRows(tab, s, k)) # EmptyInv} }

(* res is an acceptable result of statement s: without LIMIT exactly the expected rows; with LIMIT n any n of them
   (all of them when there are fewer), each one complete *)
MinOf(a, b) == IF a <= b THEN a ELSE b
Conforms(res, tab, s, prices, sc) ==
    LET E == Expected(tab, s, prices, sc)
    IN IF s.limit = 0 THEN res = E
       ELSE res \subseteq E /\ Cardinality(res) = MinOf(s.limit, Cardinality(E))

(* laws: f of the sum is the sum of the f's; the group sums add up to the sum of the whole *)
LawCommute(f, tab, I, prices, sc) == ApplyI(f, SumRows(tab, I), prices, sc) = SumFRows(f, tab, I, prices, sc)
LawRowsPartition(tab) ==
    LET G == {tab[i].g : i \in 1..Len(tab)}
        RECURSIVE Tot(_)
        Tot(S) == IF S = {} THEN EmptyInv
                  ELSE LET x == CHOOSE x \in S : TRUE
                       IN Add(Tot(S \ {x}), SumRows(tab, {i \in 1..Len(tab) : tab[i].g = x}))
    IN Tot(G) = SumRows(tab, 1..Len(tab))
=============================================================================
