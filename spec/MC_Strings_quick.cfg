\* all strings of length <= 3 (quick tier) over {a, B, ':', ' '}, index arguments -6..6; 672 texts x widths 5..17 for maxwidth
CONSTANTS
  Alphabet = {"a", "B", ":", " "}
  MaxLen = 3
  IdxMax = 6
INIT Init
NEXT Next
INVARIANTS SliceInv CaseInv SplitInv JoinInv PatternInv OrderInv MaxWidthInv
CHECK_DEADLOCK FALSE
