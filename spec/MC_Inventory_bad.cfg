\* non-vacuity: a sum that loses the cost must break f(sum) = sum(f) for f = cost
CONSTANTS
  MaxLen = 2
  HomLots = 4
INIT Init
NEXT Next
INVARIANTS BadLaw
CHECK_DEADLOCK FALSE
