\* exhaustive: set and inventory columns of <= 3 values x 2^5 options x separator lengths 0, 1, 3 x placeholder 0, 3
CONSTANTS
  Tables <- TSep
  NullLens <- NL03
  SepLens <- SL013
  WidthRule = "full"
  ExpandRule = "atleast1"
  CsvCtx = "own"
INIT Init
NEXT Next
INVARIANTS TypeOK ProtocolInv RectInv OffsetsInv StyleInv HeaderInv ShowsInv DotsInv SkeletonInv TightInv CsvInv
CHECK_DEADLOCK FALSE
