CONSTANTS
  Family = "strings"
  GenLo = 0
  GenHi = 0
  MaxLen = 4
INIT Init
NEXT Next
CHECK_DEADLOCK FALSE
