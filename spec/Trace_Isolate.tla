---------------------------- MODULE Trace_Isolate ----------------------------
(* Code -> spec for C20 (Isolate).  One ndjson file holds many independent runs; line kinds (field k):

   begin   {id, jobs}       a concurrent run starts: thread t executes jobs[t] (abstract jobs of Isolate)
   grant   {id, t}          the scheduler granted thread t the turn: t runs -- with the ACTIONS of Isolate, several TLC
                            steps per line -- until it passes a pause point or finishes
   end     {id, rows, desc} all threads have finished; rows[t] = the rows thread t RECEIVED from the cursor its execute()
                            gave it (column values projected to the identities of the directives / postings they
                            show), desc[t] = the descriptions it read (one per delivery step; a sequence of target kinds)
   serial  {id, job, rows}  a statement run alone: rows must be DeliveredRows(job) (all of SerialRows(job) unless the job's
                            delivery steps ask for fewer rows)

   A line the specification does not explain is reported as a JSON verdict and the run goes on (total verdicts);
   the last step prints a "consumed" verdict with the number of lines read, which the driver requires. *)
EXTENDS Isolate, Json, IOUtils

TraceLog == ndJsonDeserialize(IOEnv.TRACE_FILE)

VARIABLES l, turn, dead, nbad
tvars == <<vars, l, turn, dead, nbad>>

TInit == InitWith([t \in Threads |-> Job0]) /\ l = 1 /\ turn = 0 /\ dead = TRUE /\ nbad = 0

Begin1(e) ==
    LET jobs == [t \in Threads |-> IF t <= Len(e.jobs) THEN e.jobs[t] ELSE Job0] IN
    /\ job' = jobs
    /\ exe' = [t \in Threads |-> Exe(jobs[t])]
    /\ scratch' = [t \in Threads |-> Scratch0]
    /\ bound' = [t \in Threads |-> [lo |-> 0, hi |-> 0]]
    /\ ctx' = [t \in Threads |-> Ctx0]
    /\ parser' = [t \in Threads |-> Parser0]
    /\ got' = [t \in Threads |-> <<>>]
    /\ tmemo' = [t \in Threads |-> TMemo0]
    /\ pc' = [t \in Threads |-> IF jobs[t] = Job0 THEN Pc("done", 0) ELSE Pc("compile", 1)]
    /\ cur' = [t \in Threads |-> <<>>]
    /\ out' = [t \in Threads |-> <<>>]
    /\ memo' = [c \in 1..NCols |-> [rowid |-> 0, val |-> 0]]
    /\ opnd' = [k \in Threads \cup {0} |-> Opnd0]
    /\ names' = [k \in Threads \cup {0} |-> NoNames]
    /\ slot' = [t \in Threads |-> NoNames]
    /\ store' = [t \in Threads |-> Store0]
    /\ recv' = [t \in Threads |-> Recv0]

FirstBad(rows, obs) ==
    IF Len(obs) # Len(rows) THEN 0
    ELSE LET B == {n \in 1..Len(rows) : rows[n] # obs[n]}
         IN IF B = {} THEN 0 ELSE CHOOSE n \in B : \A m \in B : n <= m

Reject(e, why, t, n) ==
    PrintT(ToJson([verdict |-> "rejected", id |-> e.id, line |-> l, kind |-> e.k, why |-> why, thread |-> t, row |-> n]))

Stay == UNCHANGED <<vars, turn>>
TNext ==
    IF l = Len(TraceLog) + 1
    THEN /\ PrintT(ToJson([verdict |-> "consumed", lines |-> l - 1, bad |-> nbad]))
         /\ l' = l + 1 /\ UNCHANGED <<vars, turn, dead, nbad>>
    ELSE
    /\ l <= Len(TraceLog)
    /\ LET e == TraceLog[l] IN
       CASE e.k = "begin" ->
              Begin1(e) /\ l' = l + 1 /\ turn' = 0 /\ dead' = FALSE /\ UNCHANGED nbad
         [] e.k = "grant" ->
              IF dead THEN l' = l + 1 /\ Stay /\ UNCHANGED <<dead, nbad>>
              ELSE IF turn = 0
              THEN IF e.t \notin Threads \/ Done(e.t)
                   THEN /\ Reject(e, "turn granted to a thread the specification has finished", e.t, 0)
                        /\ l' = l + 1 /\ dead' = TRUE /\ nbad' = nbad + 1 /\ Stay
                   ELSE turn' = e.t /\ UNCHANGED <<vars, l, dead, nbad>>
              ELSE /\ Step(turn)
                   /\ IF YieldStep(turn) \/ pc'[turn].ph = "done"
                      THEN turn' = 0 /\ l' = l + 1
                      ELSE UNCHANGED <<turn, l>>
                   /\ UNCHANGED <<dead, nbad>>
         [] e.k = "end" ->
              IF dead THEN l' = l + 1 /\ Stay /\ UNCHANGED <<dead, nbad>>
              ELSE LET n == Len(e.rows)
                       late == {t \in Threads : ~Done(t)}
                       bad == {t \in 1..n : recv[t].rows # e.rows[t]}
                       badd == {t \in 1..n : recv[t].desc # e.desc[t]}
                   IN /\ l' = l + 1 /\ dead' = TRUE /\ Stay
                      /\ IF late # {}
                         THEN /\ Reject(e, "the run ended but the specification's thread still has steps", CHOOSE t \in late : TRUE, 0)
                              /\ nbad' = nbad + 1
                         ELSE IF bad # {}
                         THEN /\ LET t == CHOOSE t \in bad : \A u \in bad : t <= u
                                 IN Reject(e, "rows differ from the specification", t, FirstBad(recv[t].rows, e.rows[t]))
                              /\ nbad' = nbad + 1
                         ELSE IF badd # {}
                         THEN /\ Reject(e, "description differs from the specification", CHOOSE t \in badd : \A u \in badd : t <= u, 0)
                              /\ nbad' = nbad + 1
                         ELSE UNCHANGED nbad
         [] e.k = "serial" ->
              LET rows == DeliveredRows(e.job)
              IN /\ l' = l + 1 /\ Stay /\ UNCHANGED dead
                 /\ IF rows # e.rows
                    THEN Reject(e, "rows differ from SerialRows", 1, FirstBad(rows, e.rows)) /\ nbad' = nbad + 1
                    ELSE UNCHANGED nbad

TSpec == TInit /\ [][TNext]_tvars
(* the invariants of Isolate hold in every state of every replayed run as well (cfg) *)
=============================================================================
