-------------------------- MODULE Trace_BQLSubquery --------------------------
(* Code -> spec for C08.  The driver runs random nestings (depth <= 4) on harness tables and on tables of a real
   ledger and records one ndjson line per case; this module replays the file through BQLSubquery's own actions:

     line 1   {"op":"tables","tabs":{..}}          the tables of the file (the constant Tabs)
     "query"  {"q":.., "nested":{ok,desc,rows}, "mat":{ok,desc,rows}}
              the statement is walked by EnterSelect .. LeaveSelect (unlogged internal steps); when the walk is
              complete the line is judged: what the code returned for the nested statement, and for the outer
              statement over the materialised inner result, must both be Exec (rows and description)
     "in"     {"neg":b, "xs":[..], "col":[..], "obs":[..]}   x IN (q) per outer row against the logged inner column:
              obs[i] = NULL if xs[i] is NULL or col is empty, else membership (negated for NOT IN)
     "inwh"   {"neg":b, "xs":[..], "col":[..], "kept":[..]}  SELECT x FROM t WHERE x IN (q): kept = the xs for which the
              operator is TRUE, in order (xs and col from separate plain statements, values of any datatype)
     "rel"    {"nested":{..}, "mat":{..}}   statements over columns outside the model (decimals, dates, ...): values
              are opaque, the nested and the materialised form must agree (rows and description)

   A line the specification cannot explain is reported (PrintT of a JSON verdict) and the replay continues, so
   every line gets a verdict.  The declarative invariants of BQLSubquery are checked in every state as well. *)
EXTENDS BQLSubquery, Json, IOUtils

TraceLog == ndJsonDeserialize(IOEnv.TRACE_FILE)
FileTabs == TraceLog[1].tabs

VARIABLES l, nbad
tvars == <<vars, l, nbad>>

Obs(x) == [ok |-> x.ok, desc |-> x.desc, rows |-> x.rows]
QueryAt(i) == IF i <= Len(TraceLog) /\ TraceLog[i].op = "query" THEN TraceLog[i].q ELSE TraceLog[1].dummy

Load(i) ==        \* start the walk of the statement of line i (or park on the dummy statement)
    /\ q' = QueryAt(i)
    /\ pc' = 1 /\ curTable' = Nil /\ stack' = <<>>
    /\ nodes' = Empty /\ colres' = Empty /\ starx' = Empty /\ iter' = Empty /\ outs' = Empty

TInit == /\ l = 2 /\ nbad = 0
         /\ q = QueryAt(2)
         /\ pc = 1 /\ curTable = Nil /\ stack = <<>>
         /\ nodes = Empty /\ colres = Empty /\ starx = Empty /\ iter = Empty /\ outs = Empty

\* x IN (q) / x NOT IN (q) for one value x against the logged column of q.  The values of x and of the column are
\* opaque pairs (any datatype: untyped metadata values, amounts, positions, sets, ...); equality is all that is used.
InValue(x, col, neg) ==
    LET member == \E m \in 1..Len(col) : col[m] = x
    IN IF IsNull(x) \/ col = <<>> THEN Null ELSE B(IF neg THEN ~member ELSE member)

InLaw(e) ==
    /\ Len(e.obs) = Len(e.xs)
    /\ \A i \in 1..Len(e.xs) : e.obs[i] = InValue(e.xs[i], e.col, e.neg)

\* ... WHERE x IN (q): the rows kept are those for which the operator is TRUE (not FALSE, not NULL), in order
InWhereLaw(e) == e.kept = SelectSeq(e.xs, LAMBDA x : InValue(x, e.col, e.neg) = B(TRUE))

Judge(e) ==
    CASE e.op = "query" -> /\ Obs(e.nested) = Exec
                           /\ ((e.hasmat /\ Restore) => Obs(e.mat) = Exec)
      [] e.op = "in" -> InLaw(e)
      [] e.op = "inwh" -> InWhereLaw(e)
      [] e.op = "rel" -> Obs(e.nested) = Obs(e.mat) /\ e.nested.ok
      [] OTHER -> FALSE

TNext ==
    /\ l <= Len(TraceLog)
    /\ LET e == TraceLog[l] IN
       IF e.op = "query" /\ Running
       THEN Next /\ UNCHANGED <<l, nbad>>                       \* one step of the compilation walk
       ELSE LET good == Judge(e)
                nb == IF good THEN nbad ELSE nbad + 1
            IN /\ IF good THEN TRUE
                  ELSE PrintT(ToJson([verdict |-> "rejected", line |-> l, id |-> e.id, op |-> e.op,
                                      spec |-> IF e.op = "query" THEN Exec ELSE Failed,
                                      cfail |-> (e.op = "query" /\ CompileFailed)]))
               /\ IF Restore \/ e.op # "query" THEN TRUE      \* classification run: how the walk as shipped went
                  ELSE PrintT(ToJson([verdict |-> "class", id |-> e.id, same |-> good,
                                      clean |-> (ResolvesOwnTable /\ StarOwnTable /\ IteratesOwnTable)]))
               /\ nbad' = nb
               /\ IF l < Len(TraceLog) THEN TRUE
                  ELSE PrintT(ToJson([verdict |-> "done", lines |-> Len(TraceLog), nbad |-> nb]))
               /\ l' = l + 1
               /\ Load(l + 1)

TSpec == TInit /\ [][TNext]_tvars
TraceConsumed == l = Len(TraceLog) + 1
\* POSTCONDITION: evaluated on the final state graph; every line has been consumed
Consumed == TLCGet("stats").diameter >= Len(TraceLog)
=============================================================================
