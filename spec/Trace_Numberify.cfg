CONSTANTS
  Shapes = 0
  FmtChoices = 0
  DCtx <- NoDC
  Prec = "most_common"
  CurSeq = 0
  InvNull = "skip"
  Mut = "none"
INIT TInit
NEXT TNext
POSTCONDITION TraceConsumed
CHECK_DEADLOCK FALSE
