----------------------------- MODULE BQLMiniSem -----------------------------
(***************************************************************************)
(* A small, self-contained BQL query semantics shared by BQLSubquery (C08) *)
(* and BQLSession (C09).  Operators only (no variables).                   *)
(*                                                                         *)
(* Values     <<tag, n>> : <<"n",0>> NULL, <<"i",k>> int, <<"s",r>> string *)
(*            (r = rank of the string in the case's ordered string table,  *)
(*            0 = the empty string), <<"b",0|1>> bool, <<"e",0>> run-time  *)
(*            error (TypeError/IndexError in the implementation).          *)
(* Tables     name |-> [cols |-> <<<<name, type>>..>>, rows |-> <<row..>>] *)
(* Statements [k |-> "select", star, tg, from, wh, ord, dis, lim]          *)
(*   tg   : <<[e |-> Expr, nm |-> alias or ""]..>>                         *)
(*   from : [k |-> "tab", n |-> name] | [k |-> "sub", q |-> Statement]     *)
(*   wh   : Expr | [k |-> "none"]                                          *)
(*   ord  : <<[e |-> Expr, desc |-> BOOLEAN]..>>     lim : -1 = no LIMIT   *)
(* Expr   [k|->"c",v] [k|->"col",n] [k|->"bin",op,l,r] [k|->"and",l,r]     *)
(*        [k|->"in",neg,l,q] [k|->"agg",f,e] [k|->"ph",pos,nm]             *)
(*                                                                         *)
(* A statement is first RESOLVED (every column reference becomes a         *)
(* positional accessor into the rows of some table, every SELECT gets the  *)
(* table it iterates) and then RUN.  Denote = RunQ o DResolve where         *)
(* DResolve is the declarative resolution: every SELECT resolves against,  *)
(* and iterates over, the table named by ITS OWN FROM clause.              *)
(***************************************************************************)
EXTENDS Integers, Sequences, FiniteSets, TLC

Null == <<"n", 0>>
Err  == <<"e", 0>>
I(k) == <<"i", k>>
S(k) == <<"s", k>>
B(b) == <<"b", IF b THEN 1 ELSE 0>>
IsNull(v) == v[1] = "n"
IsErr(v)  == v[1] = "e"
Truthy(v) == v[1] \in {"b", "i", "s"} /\ v[2] # 0      \* None, False, 0, '' are false

NoExpr == [k |-> "none"]
Failed == [ok |-> FALSE, desc |-> <<>>, rows |-> <<>>]

RECURSIVE FlattenSeq(_)
FlattenSeq(ss) == IF ss = <<>> THEN <<>> ELSE Head(ss) \o FlattenSeq(Tail(ss))

RECURSIVE SumSeq(_)
SumSeq(s) == IF s = <<>> THEN 0 ELSE Head(s) + SumSeq(Tail(s))

(* first index of an element satisfying membership in a set of indices *)
MinOf(ss) == CHOOSE i \in ss : \A j \in ss : i <= j
IndexOfName(schema, n) ==
    LET hits == {i \in 1..Len(schema) : schema[i][1] = n} IN IF hits = {} THEN 0 ELSE MinOf(hits)

(* keep the first occurrence of every element, in order (Python: uniquify / dict insertion order) *)
Dedup(s) == LET idx == SelectSeq([i \in 1..Len(s) |-> i], LAMBDA i : \A j \in 1..(i - 1) : s[j] # s[i])
            IN [k \in 1..Len(idx) |-> s[idx[k]]] \o <<>>

-----------------------------------------------------------------------------
(* ordering of values: NULL below everything, then by payload (ints, string ranks, False < True) *)
ValLess(a, b) == IF IsNull(a) THEN ~IsNull(b) ELSE IF IsNull(b) THEN FALSE ELSE a[2] < b[2]

(* lexicographic comparison of key tuples with a direction per key *)
KeyLess(ka, kb, descs) ==
    LET diff == {d \in 1..Len(descs) : ka[d] # kb[d]} IN
    IF diff = {} THEN FALSE
    ELSE LET d == MinOf(diff) IN IF descs[d] THEN ValLess(kb[d], ka[d]) ELSE ValLess(ka[d], kb[d])

(* stable sort of items [keys, vals]: an item's position is the number of items that are smaller, or equal and
   earlier (no recursion: tables of a few hundred rows are sorted while replaying recorded statements) *)
StableSort(s, descs) ==
    LET n == Len(s)
        before(j, i) == KeyLess(s[j].keys, s[i].keys, descs) \/ (j < i /\ ~KeyLess(s[i].keys, s[j].keys, descs))
        rank == [i \in 1..n |-> 1 + Cardinality({j \in 1..n : j # i /\ before(j, i)})] \o <<>>
    IN [k \in 1..n |-> s[CHOOSE i \in 1..n : rank[i] = k]] \o <<>>

-----------------------------------------------------------------------------
(* scalar operators: operands of the right kinds or a run-time error *)
ApplyBin(op, a, b) ==
    CASE op \in {"add", "sub"} ->
           IF a[1] = "i" /\ b[1] = "i" THEN I(IF op = "add" THEN a[2] + b[2] ELSE a[2] - b[2]) ELSE Err
      [] op \in {"gt", "lt", "ge", "le", "eq", "ne"} ->
           \* well-typed statements compare int with int and str with str.  The other combinations only arise when
           \* the mechanism as shipped reads a column of the wrong table; Python then says: bool is a number,
           \* a string never equals a number, and ordering a string against a number is a TypeError.
           LET num(t) == t \in {"i", "b"} IN
           IF (a[1] = b[1] /\ a[1] \in {"i", "s", "b"}) \/ (num(a[1]) /\ num(b[1]))
           THEN B(CASE op = "gt" -> a[2] > b[2] [] op = "lt" -> a[2] < b[2] [] op = "ge" -> a[2] >= b[2]
                    [] op = "le" -> a[2] <= b[2] [] op = "eq" -> a[2] = b[2] [] op = "ne" -> a[2] # b[2])
           ELSE IF op = "eq" THEN B(FALSE) ELSE IF op = "ne" THEN B(TRUE) ELSE Err
      [] OTHER -> Err

TypeOfVal(v) == CASE v[1] = "i" -> "int" [] v[1] = "s" -> "str" [] v[1] = "b" -> "bool" [] OTHER -> "NoneType"

(* type of a resolved expression *)
RECURSIVE TypeOfR(_)
TypeOfR(e) ==
    CASE e.k = "c" -> TypeOfVal(e.v)
      [] e.k = "acc" -> e.ty
      [] e.k = "bin" -> IF e.op \in {"add", "sub"} THEN "int" ELSE "bool"
      [] e.k \in {"and", "in"} -> "bool"
      [] e.k = "agg" -> IF e.f \in {"count", "countstar"} THEN "int" ELSE TypeOfR(e.e)
      [] OTHER -> "none"

(* the text of an expression-named target (only left-nested +/- chains over columns and integers are generated) *)
RECURSIVE ExprText(_)
ExprText(e) ==
    CASE e.k = "col" -> e.n
      [] e.k = "c" -> ToString(e.v[2])
      [] e.k = "bin" -> ExprText(e.l) \o (IF e.op = "add" THEN " + " ELSE " - ") \o ExprText(e.r)
      [] OTHER -> "?"
NameOf(t) == IF t.nm # "" THEN t.nm ELSE IF t.e.k = "col" THEN t.e.n ELSE ExprText(t.e)

-----------------------------------------------------------------------------
(* RUN (RunQ) a resolved statement rq = [tg |-> <<[e, nm, ty]..>>, src, wh, ord, dis, lim]
     src : [k |-> "tab", n] | [k |-> "sub", q |-> rq]
     ord : <<[k |-> "tgt", i, desc] | [k |-> "expr", e, desc]..>>
   over the tables `tabs`.  Returns [ok, desc, rows].

   The single output column of every IN-subquery of a SELECT is computed ONCE, before its rows are scanned
   (PreE: the "in" node becomes an "inv" node holding the column) -- this is the per-statement cache of the
   implementation, and it keeps the evaluation polynomial.  Mat forces TLC to build a sequence (a lazily
   evaluated function constructor would be re-evaluated at every application). *)
Mat(f) == f \o <<>>

RECURSIVE RunQ(_, _), PreE(_, _)

EvalR(e, row) ==
    LET RECURSIVE Ev(_)
        Ev(x) ==
            CASE x.k = "c" -> x.v
              [] x.k = "acc" -> IF x.i >= 1 /\ x.i <= Len(row) THEN row[x.i] ELSE Err
              [] x.k = "bin" ->
                   LET a == Ev(x.l) IN
                   IF IsErr(a) THEN Err ELSE IF IsNull(a) THEN Null
                   ELSE LET b == Ev(x.r) IN
                        IF IsErr(b) THEN Err ELSE IF IsNull(b) THEN Null ELSE ApplyBin(x.op, a, b)
              [] x.k = "and" ->
                   LET a == Ev(x.l) IN
                   IF IsErr(a) THEN Err ELSE IF IsNull(a) THEN Null ELSE IF ~Truthy(a) THEN B(FALSE)
                   ELSE LET b == Ev(x.r) IN
                        IF IsErr(b) THEN Err ELSE IF IsNull(b) THEN Null ELSE B(Truthy(b))
              [] x.k = "inv" ->
                   LET a == Ev(x.l) IN
                   IF IsErr(a) THEN Err ELSE IF IsNull(a) THEN Null
                   ELSE IF ~x.ok THEN Err
                   ELSE IF x.col = <<>> THEN Null
                   ELSE LET member == \E m \in 1..Len(x.col) : x.col[m] = a
                        IN B(IF x.neg THEN ~member ELSE member)
              [] OTHER -> Err
    IN Ev(e)

PreE(e, tabs) ==
    CASE e.k = "bin" -> [k |-> "bin", op |-> e.op, l |-> PreE(e.l, tabs), r |-> PreE(e.r, tabs)]
      [] e.k = "and" -> [k |-> "and", l |-> PreE(e.l, tabs), r |-> PreE(e.r, tabs)]
      [] e.k = "agg" -> [k |-> "agg", f |-> e.f, e |-> PreE(e.e, tabs)]
      [] e.k = "in" -> LET sub == RunQ(e.q, tabs) IN
                       [k |-> "inv", neg |-> e.neg, l |-> PreE(e.l, tabs), ok |-> sub.ok,
                        col |-> Mat([m \in 1..Len(sub.rows) |-> sub.rows[m][1]])]
      [] OTHER -> e

AggVal(e, rows) ==
    IF e.f = "countstar" THEN I(Len(rows))
    ELSE LET vals == Mat([i \in 1..Len(rows) |-> EvalR(e.e, rows[i])])
             nn == SelectSeq(vals, LAMBDA v : ~IsNull(v))
         IN IF \E i \in 1..Len(vals) : IsErr(vals[i]) THEN Err
            ELSE CASE e.f = "count" -> I(Len(nn))
                   [] e.f = "sum" -> IF \E i \in 1..Len(nn) : nn[i][1] # "i" THEN Err
                                     ELSE I(SumSeq([i \in 1..Len(nn) |-> nn[i][2]]))
                   [] e.f = "min" -> IF nn = <<>> THEN Null
                                     ELSE nn[MinOf({i \in 1..Len(nn) : \A j \in 1..Len(nn) : ~ValLess(nn[j], nn[i])})]
                   [] OTHER -> Err

RunQ(rq, tabs) ==
    LET src == IF rq.src.k = "tab" THEN [ok |-> TRUE, rows |-> tabs[rq.src.n].rows]
               ELSE IF rq.src.k = "sub" THEN RunQ(rq.src.q, tabs)
               ELSE [ok |-> FALSE, rows |-> <<>>]
    IN
    IF ~src.ok THEN Failed
    ELSE
    LET rows == src.rows
        n == Len(rows)
        nt == Len(rq.tg)
        te == Mat([j \in 1..nt |-> PreE(rq.tg[j].e, tabs)])                 \* target expressions, IN columns computed
        we == IF rq.wh = NoExpr THEN NoExpr ELSE PreE(rq.wh, tabs)
        oe == Mat([k \in 1..Len(rq.ord) |-> IF rq.ord[k].k = "tgt" THEN NoExpr ELSE PreE(rq.ord[k].e, tabs)])
        wv == Mat([i \in 1..n |-> IF we = NoExpr THEN B(TRUE) ELSE EvalR(we, rows[i])])
        keptidx == SelectSeq([i \in 1..n |-> i], LAMBDA i : Truthy(wv[i]))
        kept == Mat([k \in 1..Len(keptidx) |-> rows[keptidx[k]]])
        isagg == \E j \in 1..nt : te[j].k = "agg"
        descs == Mat([k \in 1..Len(rq.ord) |-> rq.ord[k].desc])
        KeysOf(vals, row) == Mat([k \in 1..Len(rq.ord) |->
                                    IF rq.ord[k].k = "tgt" THEN vals[rq.ord[k].i] ELSE EvalR(oe[k], row)])
        \* one item per kept row (plain query) or per group in order of first appearance (aggregate query)
        items ==
            IF ~isagg
            THEN Mat([i \in 1..Len(kept) |->
                        LET vals == Mat([j \in 1..nt |-> EvalR(te[j], kept[i])])
                        IN [vals |-> vals, keys |-> KeysOf(vals, kept[i])]])
            ELSE LET keyidx == SelectSeq([j \in 1..nt |-> j], LAMBDA j : te[j].k # "agg")
                     rowkeys == Mat([i \in 1..Len(kept) |-> Mat([m \in 1..Len(keyidx) |-> EvalR(te[keyidx[m]], kept[i])])])
                     gkeys == Dedup(rowkeys)
                 IN Mat([g \in 1..Len(gkeys) |->
                       LET gidx == SelectSeq([i \in 1..Len(kept) |-> i], LAMBDA i : rowkeys[i] = gkeys[g])
                           grows == Mat([k \in 1..Len(gidx) |-> kept[gidx[k]]])
                           vals == Mat([j \in 1..nt |->
                                      IF te[j].k = "agg" THEN AggVal(te[j], grows)
                                      ELSE gkeys[g][MinOf({m \in 1..Len(keyidx) : keyidx[m] = j})]])
                       IN [vals |-> vals, keys |-> KeysOf(vals, grows[1])]])
        bad == \/ \E i \in 1..n : IsErr(wv[i])
               \/ \E i \in 1..Len(items) : \/ \E j \in 1..nt : IsErr(items[i].vals[j])
                                            \/ \E k \in 1..Len(descs) : IsErr(items[i].keys[k])
        sorted == IF rq.ord = <<>> THEN items ELSE StableSort(items, descs)
        proj == Mat([i \in 1..Len(sorted) |-> sorted[i].vals])
        uniq == IF rq.dis THEN Dedup(proj) ELSE proj
        lim == IF rq.lim >= 0 /\ rq.lim < Len(uniq) THEN SubSeq(uniq, 1, rq.lim) ELSE uniq
    IN IF bad THEN Failed
       ELSE [ok |-> TRUE, desc |-> Mat([j \in 1..nt |-> <<rq.tg[j].nm, rq.tg[j].ty>>]), rows |-> Mat(lim)]

-----------------------------------------------------------------------------
(* DECLARATIVE RESOLUTION: every SELECT against the table of its own FROM clause *)
RECURSIVE OutSchema(_, _), DResolve(_, _), DExpr(_, _, _)

SrcSchema(q, tabs) == IF q.from.k = "tab" THEN tabs[q.from.n].cols ELSE OutSchema(q.from.q, tabs)

DExpr(e, schema, tabs) ==
    CASE e.k = "col" -> LET i == IndexOfName(schema, e.n) IN
                        IF i = 0 THEN [k |-> "bad"] ELSE [k |-> "acc", i |-> i, ty |-> schema[i][2]]
      [] e.k = "bin" -> [k |-> "bin", op |-> e.op, l |-> DExpr(e.l, schema, tabs), r |-> DExpr(e.r, schema, tabs)]
      [] e.k = "and" -> [k |-> "and", l |-> DExpr(e.l, schema, tabs), r |-> DExpr(e.r, schema, tabs)]
      [] e.k = "in" -> [k |-> "in", neg |-> e.neg, l |-> DExpr(e.l, schema, tabs), q |-> DResolve(e.q, tabs)]
      [] e.k = "agg" -> [k |-> "agg", f |-> e.f, e |-> DExpr(e.e, schema, tabs)]
      [] OTHER -> e

DTargets(q, schema, tabs) ==
    IF q.star THEN [j \in 1..Len(schema) |-> [e |-> [k |-> "acc", i |-> j, ty |-> schema[j][2]],
                                             nm |-> schema[j][1], ty |-> schema[j][2]]]
    ELSE [j \in 1..Len(q.tg) |-> LET re == DExpr(q.tg[j].e, schema, tabs)
                                 IN [e |-> re, nm |-> NameOf(q.tg[j]), ty |-> TypeOfR(re)]]

OutSchema(q, tabs) == LET t == DTargets(q, SrcSchema(q, tabs), tabs) IN [j \in 1..Len(t) |-> <<t[j].nm, t[j].ty>>]

(* ORDER BY <name of an output> refers to that output; anything else is an expression over the source table *)
OrdTargetIndex(q, k) ==
    IF q.star \/ q.ord[k].e.k # "col" THEN 0
    ELSE LET hits == {j \in 1..Len(q.tg) : NameOf(q.tg[j]) = q.ord[k].e.n}
         IN IF hits = {} THEN 0 ELSE CHOOSE j \in hits : \A m \in hits : m <= j

DResolve(q, tabs) ==
    LET schema == SrcSchema(q, tabs) IN
    [tg |-> DTargets(q, schema, tabs),
     src |-> IF q.from.k = "tab" THEN q.from ELSE [k |-> "sub", q |-> DResolve(q.from.q, tabs)],
     wh |-> IF q.wh = NoExpr THEN NoExpr ELSE DExpr(q.wh, schema, tabs),
     ord |-> [k \in 1..Len(q.ord) |->
                IF OrdTargetIndex(q, k) # 0 THEN [k |-> "tgt", i |-> OrdTargetIndex(q, k), desc |-> q.ord[k].desc]
                ELSE [k |-> "expr", e |-> DExpr(q.ord[k].e, schema, tabs), desc |-> q.ord[k].desc]],
     dis |-> q.dis, lim |-> q.lim]

Denote(q, tabs) == RunQ(DResolve(q, tabs), tabs)

(* the table holding a result *)
Materialise(res) == [cols |-> res.desc, rows |-> res.rows]
WithTable(tabs, name, t) == [x \in (DOMAIN tabs) \cup {name} |-> IF x = name THEN t ELSE tabs[x]]

(* builders used by the MC / Gen modules *)
Col(n) == [k |-> "col", n |-> n]
Const(v) == [k |-> "c", v |-> v]
Bin(op, l, r) == [k |-> "bin", op |-> op, l |-> l, r |-> r]
And2(l, r) == [k |-> "and", l |-> l, r |-> r]
InQ(l, q) == [k |-> "in", neg |-> FALSE, l |-> l, q |-> q]
NotInQ(l, q) == [k |-> "in", neg |-> TRUE, l |-> l, q |-> q]
Agg(f, e) == [k |-> "agg", f |-> f, e |-> e]
CountStar == [k |-> "agg", f |-> "countstar", e |-> Const(Null)]
Tg(e, nm) == [e |-> e, nm |-> nm]
Tab(n) == [k |-> "tab", n |-> n]
Sub(q) == [k |-> "sub", q |-> q]
Asc(e) == [e |-> e, desc |-> FALSE]
Desc(e) == [e |-> e, desc |-> TRUE]
Select(tg, from, wh, ord, dis, lim) ==
    [k |-> "select", star |-> FALSE, tg |-> tg, from |-> from, wh |-> wh, ord |-> ord, dis |-> dis, lim |-> lim]
SelectStar(from, wh) ==
    [k |-> "select", star |-> TRUE, tg |-> <<>>, from |-> from, wh |-> wh, ord |-> <<>>, dis |-> FALSE, lim |-> -1]
=============================================================================
