CONSTANTS
  Variant = "ok"
  Texts <- TextsSmall
  Conns <- Conns2
  MaxOps = 0
  Mode = "fresh"
INIT TInit
NEXT TNext
POSTCONDITION TraceConsumed
CHECK_DEADLOCK FALSE
