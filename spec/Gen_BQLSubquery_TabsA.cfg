CONSTANTS
  Tabs <- TabsA
  Restore = FALSE
INIT InitOne
NEXT GNext
INVARIANT EmitTabs
CHECK_DEADLOCK FALSE
