-------------------------- MODULE Trace_Statements --------------------------
(* Code -> spec for C14.  The driver records, from the real code, one ndjson line per event:

     {"k":"ledger","id":..,"posts":[[date, flag, payee, narration, account, lot, [accounts of the entry], currency,
                                     flag of the posting itself]..]}
         the posting table AFTER OPEN / CLOSE / CLEAR and with the summary function already applied to the position.
         It is read off the DIRECTIVES (the transactions of the summarised entry list and their postings, attribute by
         attribute: date, flag, payee, narration of the transaction; account, units, cost, flag of the posting), not
         obtained through the columns of the postings table -- those are what the statements under observation use;
         it becomes the current table
     {"k":"balances","id":..,"from":E,"where":E,"rows":[[account, [lot..]]..]}        observed BALANCES rows
     {"k":"journal","id":..,"from":E,"acct":{present,p},"rows":[[date, flag, payee, narration, account, [lot], [lot..]]..]}
     {"k":"dirs","id":..,"dirs":[[type, date, flag, payee, narration, [accounts], tags, links]..]}  the current directive
         table: what every directive CARRIES (tags / links: [] when its type has no such attribute, [[tag..]] otherwise --
         notes and documents have them like transactions); what the columns of its row mean is Statements!DirRow
     {"k":"print","id":..,"from":E,"kept":[index..]}   indices of the directives re-read from the PRINT output

   and TLC judges every statement line with the operators of Statements: which rows are selected (three-valued FROM /
   WHERE / account pattern), account order (type then name), every account once, per-account sums, register in ledger
   order, running balance = prefix sums, PRINT = the directives whose FROM expression is TRUE, in order.
   One TLC step per line; a rejected line is reported with the first failing clause and the run continues.

   Provenance (sessions, see StatementsSession): the statement lines of a ledger are recorded on ONE shell / connection
   that executes them one after the other (in random order, some of them repeatedly); every "ledger" / "dirs" line is
   obtained on a connection of its own that executes nothing else.  A statement is judged against the table of ITS
   OWN clauses, whatever the connection executed before: a result that depends on the history is rejected here. *)
EXTENDS Statements, Json, IOUtils

TraceLog == ndJsonDeserialize(IOEnv.TRACE_FILE)

VARIABLES l, nbad, posts, dirs
tvars == <<vars, l, nbad, posts, dirs>>
Empty == <<>>
NoStrings == {}

PostRec(p) == [type |-> "transaction", date |-> p[1], flag |-> p[2], payee |-> p[3], narration |-> p[4], account |-> p[5],
               lot |-> p[6], accounts |-> {p[7][k] : k \in DOMAIN p[7]}, currency |-> p[8], pflag |-> p[9]]
SeqSet(s) == {s[k] : k \in DOMAIN s}
OptSetOf(o) == IF Len(o) = 0 THEN <<>> ELSE <<SeqSet(o[1])>>
DirRec(d) == DirRow([type |-> d[1], date |-> d[2], flag |-> d[3], payee |-> d[4], narration |-> d[5],
                     accounts |-> {d[6][k] : k \in DOMAIN d[6]}, tags |-> OptSetOf(d[7]), links |-> OptSetOf(d[8])])
ObsInv(lots) == SeqSet(lots)
ObsInvOK(lots) == Cardinality(SeqSet(lots)) = Len(lots) /\ IsInventory(SeqSet(lots))

Increasing(s) == \A k \in 1..(Len(s) - 1) : s[k] < s[k + 1]

(* ---- BALANCES ---- *)
BalSel(e) == SelectSeq(posts, LAMBDA p : Eval3(e.from, PostRec(p)) = "T" /\ Eval3(e.where, PostRec(p)) = "T")
BalClauses(e) ==
    LET sel == BalSel(e)
        A == {sel[j][5] : j \in DOMAIN sel}
        lots == [j \in DOMAIN sel |-> sel[j][6]]
        rows == e.rows
    IN << <<"accounts", {rows[k][1] : k \in DOMAIN rows} = A>>,
          <<"once", \A k1 \in DOMAIN rows, k2 \in DOMAIN rows : rows[k1][1] = rows[k2][1] => k1 = k2>>,
          <<"order", \A k \in 1..(Len(rows) - 1) : AccountLess(rows[k][1], rows[k + 1][1])>>,
          <<"inventory", \A k \in DOMAIN rows : ObsInvOK(rows[k][2])>>,
          <<"sums", \A k \in DOMAIN rows : ObsInv(rows[k][2]) = InvOfIdx(lots, {j \in DOMAIN sel : sel[j][5] = rows[k][1]})>>,
          \* on small selections additionally the literal equality with the declarative report
          <<"report", Len(sel) <= 12 =>
                        [k \in DOMAIN rows |-> <<rows[k][1], ObsInv(rows[k][2])>>]
                        = BalancesReport("none", [k \in DOMAIN sel |-> PostRec(sel[k])])>> >>

(* ---- JOURNAL ---- *)
JrnSel(e) == SelectSeq(posts, LAMBDA p : Eval3(e.from, PostRec(p)) = "T" /\ (e.acct.present => Matches(p[5], e.acct.p)))
\* MAXWIDTH = textwrap.shorten: NULL stays NULL; a string that fits is returned unchanged unless it has
\* blank runs / leading / trailing blanks (which shorten collapses); a longer one is shortened to at most n characters -- how is not modelled
IsPlain(s) == /\ s # "" => (Ch(s, 1) # " " /\ Ch(s, Len(s)) # " ")
              /\ \A k \in 1..(Len(s) - 1) : ~(Ch(s, k) = " " /\ Ch(s, k + 1) = " ")
WidthOK(obs, src, n) == IF src = <<>> THEN obs = <<>>
                        ELSE IF Len(src[1]) <= n /\ IsPlain(src[1]) THEN obs = src
                        ELSE obs # <<>> /\ Len(obs[1]) <= n
JrnClauses(e) ==
    LET sel == JrnSel(e)
        rows == e.rows
        same == Len(rows) = Len(sel)
    IN << <<"length", same>>,
          <<"fields", same => \A k \in DOMAIN rows :
                LET p == sel[k] r == rows[k] IN
                /\ r[1] = p[1] /\ r[2] = p[2] /\ r[5] = p[5]
                /\ r[6] = <<p[6]>>>>,
          <<"width", same => \A k \in DOMAIN rows : WidthOK(rows[k][3], sel[k][3], 48) /\ WidthOK(rows[k][4], sel[k][4], 80)>>,
          <<"inventory", \A k \in DOMAIN rows : ObsInvOK(rows[k][7])>>,
          <<"running", same => \A k \in DOMAIN rows :
                ObsInv(rows[k][7]) = InvAdd(IF k = 1 THEN {} ELSE ObsInv(rows[k - 1][7]), sel[k][6])>>,
          <<"prefixsum", (same /\ Len(rows) <= 40) => \A k \in DOMAIN rows :
                ObsInv(rows[k][7]) = InvOfLots([j \in 1..k |-> sel[j][6]])>> >>

(* ---- PRINT ---- *)
PrintClauses(e) ==
    LET S == {j \in DOMAIN dirs : Eval3(e.from, DirRec(dirs[j])) = "T"}
    IN << <<"order", Increasing(e.kept)>>,
          <<"kept", SeqSet(e.kept) = S>> >>

Clauses(e) == CASE e.k = "balances" -> BalClauses(e) [] e.k = "journal" -> JrnClauses(e) [] e.k = "print" -> PrintClauses(e)
FirstFailed(cs) == LET F == {k \in DOMAIN cs : ~cs[k][2]} IN IF F = {} THEN "" ELSE cs[SetMin(F)][1]

\* the variables of the statement machine are not used here
Idle == tbl = "none" /\ ledger = <<>> /\ si = 0 /\ phase = "none" /\ pos = 0 /\ ctxbal = {} /\ out = <<>> /\ gkeys = <<>> /\ gvals = <<>>
TInit == l = 1 /\ nbad = 0 /\ posts = <<>> /\ dirs = <<>> /\ Idle
TNext ==
    /\ l <= Len(TraceLog)
    /\ l' = l + 1
    /\ UNCHANGED vars
    /\ LET e == TraceLog[l] IN
       CASE e.k = "ledger" -> posts' = e.posts /\ UNCHANGED <<nbad, dirs>>
         [] e.k = "dirs" -> dirs' = e.dirs /\ UNCHANGED <<nbad, posts>>
         [] OTHER ->
              LET bad == FirstFailed(Clauses(e)) IN
              IF bad = "" THEN UNCHANGED <<nbad, posts, dirs>>
              ELSE /\ PrintT(ToJson([verdict |-> "rejected", line |-> l, id |-> e.id, clause |-> bad]))
                   /\ nbad' = nbad + 1 /\ UNCHANGED <<posts, dirs>>
TSpec == TInit /\ [][TNext]_tvars
TraceConsumed == TLCGet("stats").diameter - 1 = Len(TraceLog)
=============================================================================
