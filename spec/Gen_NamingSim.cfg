CONSTANTS
  MaxTargets = 4
  Mode = "plain"
INIT Init
NEXT Next
INVARIANTS ShapeLaw NameLaw Emit
CHECK_DEADLOCK FALSE
