------------------------------ MODULE Calendar ------------------------------
(* C18 -- calendar operators, transcribed from the property statement and from the documented semantics of
   Python's datetime.date (proleptic Gregorian ordinal, 0001-01-01 = 1, Monday = weekday 0), ISO 8601 week
   dates and dateutil.relativedelta (add years and months first, clip the day to the end of the month, then
   add days).  Nothing here is taken from beanquery's code except DateBinWalk (the walk the code
   performs, checked against the law by MC_Calendar_walk.cfg) and DateBinShipped (the walk before repair 5c4d63a,
   the deliberately broken mechanism of the non-vacuity configuration; it also names a regression).

   A date is its ordinal.  An interval is a record [y, m, d] (years, months, days).                      *)
EXTENDS Integers, Sequences, TLC

Min2(a, b) == IF a <= b THEN a ELSE b
Max2(a, b) == IF a >= b THEN a ELSE b

(* ---- civil <-> ordinal ------------------------------------------------------------------------------- *)
IsLeap(y) == (y % 4 = 0 /\ y % 100 # 0) \/ y % 400 = 0
DaysInMonth(y, m) == IF m = 2 THEN (IF IsLeap(y) THEN 29 ELSE 28)
                     ELSE IF m \in {4, 6, 9, 11} THEN 30 ELSE 31
CumDays == <<0, 31, 59, 90, 120, 151, 181, 212, 243, 273, 304, 334>>
DaysBeforeYear(y) == LET p == y - 1 IN 365 * p + p \div 4 - p \div 100 + p \div 400
DaysBeforeMonth(y, m) == CumDays[m] + (IF m > 2 /\ IsLeap(y) THEN 1 ELSE 0)
\* the definition: number of days up to and including y-m-d, counted from 0001-01-01 = 1
Ord(y, m, d) == DaysBeforeYear(y) + DaysBeforeMonth(y, m) + d
ValidYMD(y, m, d) == /\ y >= 1 /\ y <= 9999 /\ m >= 1 /\ m <= 12 /\ d >= 1
                     /\ d <= DaysInMonth(y, m)

\* the inverse, computed with the era algorithm (MC_Calendar checks Ord(Civil(o)) = o for every o of the range,
\* and that consecutive ordinals are consecutive civil dates)
Civil(o) ==
  LET z   == o + 305                 \* days since 0000-03-01
      era == z \div 146097
      doe == z - era * 146097
      yoe == (doe - doe \div 1460 + doe \div 36524 - doe \div 146096) \div 365
      y   == yoe + era * 400
      doy == doe - (365 * yoe + yoe \div 4 - yoe \div 100)
      mp  == (5 * doy + 2) \div 153
      d   == doy - (153 * mp + 2) \div 5 + 1
      m   == IF mp < 10 THEN mp + 3 ELSE mp - 9
  IN [y |-> IF m <= 2 THEN y + 1 ELSE y, m |-> m, d |-> d]

MinOrd == 1
MaxOrd == 3652059                    \* 9999-12-31
InRange(o) == o >= MinOrd /\ o <= MaxOrd

Weekday(o) == (o + 6) % 7            \* Monday = 0 ... Sunday = 6  (0001-01-01 is a Monday)
IsoWeekday(o) == Weekday(o) + 1
WeekdayNames == <<"Mon", "Tue", "Wed", "Thu", "Fri", "Sat", "Sun">>
WeekdayName(o) == WeekdayNames[Weekday(o) + 1]

(* ---- ISO 8601 week dates: a week belongs to the year that holds its Thursday ------------------------ *)
IsoThursday(o) == o - Weekday(o) + 3
IsoYear(o) == Civil(IsoThursday(o)).y
IsoWeek(o) == (IsoThursday(o) - Ord(IsoYear(o), 1, 1)) \div 7 + 1

(* ---- units ------------------------------------------------------------------------------------------ *)
TruncUnits == <<"week", "month", "quarter", "year", "decade", "century", "millennium">>
TruncUnitSet == {TruncUnits[i] : i \in 1..Len(TruncUnits)}

\* which instance of the unit a date lies in (the statement: "d's unit"); weeks start on Monday; centuries
\* and millennia start in years ...01 / ...001 (the convention of SQL date_trunc, Appendix B)
UnitIndex(u, o) ==
  LET c == Civil(o) IN
  CASE u = "week"       -> (o - 1) \div 7
    [] u = "month"      -> c.y * 12 + (c.m - 1)
    [] u = "quarter"    -> c.y * 4 + (c.m - 1) \div 3
    [] u = "year"       -> c.y
    [] u = "decade"     -> c.y \div 10
    [] u = "century"    -> (c.y - 1) \div 100
    [] u = "millennium" -> (c.y - 1) \div 1000

\* the first day of d's unit (constructively; MC_Calendar checks that it IS the first day with the same UnitIndex)
DateTrunc(u, o) ==
  LET c == Civil(o) IN
  CASE u = "week"       -> o - Weekday(o)
    [] u = "month"      -> Ord(c.y, c.m, 1)
    [] u = "quarter"    -> Ord(c.y, 3 * ((c.m - 1) \div 3) + 1, 1)
    [] u = "year"       -> Ord(c.y, 1, 1)
    [] u = "decade"     -> Ord(10 * (c.y \div 10), 1, 1)
    [] u = "century"    -> Ord(100 * ((c.y - 1) \div 100) + 1, 1, 1)
    [] u = "millennium" -> Ord(1000 * ((c.y - 1) \div 1000) + 1, 1, 1)

PartFields == <<"weekday", "dow", "isoweekday", "isodow", "week", "month", "quarter", "year", "isoyear",
                "decade", "century", "millennium", "epoch">>
PartFieldSet == {PartFields[i] : i \in 1..Len(PartFields)}
EpochOrd == 719163                   \* 1970-01-01
EpochRepresentable(o) == o - EpochOrd < 24800 /\ EpochOrd - o < 24800      \* seconds fit TLC's 32-bit integers
DatePart(f, o) ==
  LET c == Civil(o) IN
  CASE f \in {"weekday", "dow"}       -> Weekday(o)
    [] f \in {"isoweekday", "isodow"} -> IsoWeekday(o)
    [] f = "week"       -> IsoWeek(o)
    [] f = "month"      -> c.m
    [] f = "quarter"    -> (c.m - 1) \div 3 + 1
    [] f = "year"       -> c.y
    [] f = "isoyear"    -> IsoYear(o)
    [] f = "decade"     -> c.y \div 10
    [] f = "century"    -> (c.y - 1) \div 100 + 1
    [] f = "millennium" -> (c.y - 1) \div 1000 + 1
    [] f = "epoch"      -> (o - EpochOrd) * 86400

Year(o) == Civil(o).y
Month(o) == Civil(o).m
Day(o) == Civil(o).d
YearMonth(o) == DateTrunc("month", o)
Pad2(n) == IF n < 10 THEN "0" \o ToString(n) ELSE ToString(n)
Pad4(n) == IF n < 10 THEN "000" \o ToString(n) ELSE IF n < 100 THEN "00" \o ToString(n)
           ELSE IF n < 1000 THEN "0" \o ToString(n) ELSE ToString(n)
QuarterName(o) == LET c == Civil(o) IN Pad4(c.y) \o "-Q" \o ToString((c.m - 1) \div 3 + 1)
DateStr(o) == LET c == Civil(o) IN Pad4(c.y) \o "-" \o Pad2(c.m) \o "-" \o Pad2(c.d)

(* ---- day arithmetic --------------------------------------------------------------------------------- *)
DateAdd(o, n) == o + n
DateDiff(a, b) == a - b

(* ---- intervals -------------------------------------------------------------------------------------- *)
IvalUnits == {"day", "month", "year"}
Ival(n, unit) == CASE unit = "day"   -> [y |-> 0, m |-> 0, d |-> n]
                   [] unit = "month" -> [y |-> 0, m |-> n, d |-> 0]
                   [] unit = "year"  -> [y |-> n, m |-> 0, d |-> 0]
IvalNeg(iv) == [y |-> -iv.y, m |-> -iv.m, d |-> -iv.d]
IvalSum(a, b) == [y |-> a.y + b.y, m |-> a.m + b.m, d |-> a.d + b.d]
IvalMul(k, iv) == [y |-> k * iv.y, m |-> k * iv.m, d |-> k * iv.d]
IvalMonths(iv) == 12 * iv.y + iv.m
MonthIndex(o) == LET c == Civil(o) IN c.y * 12 + (c.m - 1)

\* calendar arithmetic: move by whole months keeping the day of the month, clipped to the length of the target
\* month; then move by days
AddIval(o, iv) ==
  LET c  == Civil(o)
      mi == MonthIndex(o) + IvalMonths(iv)
      y2 == mi \div 12
      m2 == (mi % 12) + 1
      d2 == Min2(c.d, DaysInMonth(y2, m2))
  IN Ord(y2, m2, d2) + iv.d
SubIval(o, iv) == AddIval(o, IvalNeg(iv))

(* ---- date_bin --------------------------------------------------------------------------------------- *)
\* stated domain: a positive stride of one kind (days, or months/years); for month strides an origin day <= 28,
\* so that "origin + k * stride" is unambiguous (no month-end clipping)
MonthStride(iv) == IvalMonths(iv) # 0
BinDomain(iv, origin) ==
  \/ IvalMonths(iv) = 0 /\ iv.d > 0
  \/ IvalMonths(iv) > 0 /\ iv.d = 0 /\ Civil(origin).d <= 28
Boundary(iv, origin, k) == AddIval(origin, IvalMul(k, iv))

\* the law of the statement: b is the start of the stride-aligned bin [b, b + stride) that contains src
BinLaw(b, iv, src, origin) ==
  /\ b <= src
  /\ src < AddIval(b, iv)
  /\ IF MonthStride(iv)
       THEN /\ (MonthIndex(b) - MonthIndex(origin)) % IvalMonths(iv) = 0
            /\ Civil(b).d = Civil(origin).d
       ELSE (b - origin) % iv.d = 0

\* constructive
DateBin(iv, src, origin) ==
  IF MonthStride(iv)
    THEN LET m == IvalMonths(iv)
             q == (MonthIndex(src) - MonthIndex(origin)) \div m
             cand == Boundary(iv, origin, q)
         IN IF cand <= src THEN cand ELSE Boundary(iv, origin, q - 1)
    ELSE origin + iv.d * ((src - origin) \div iv.d)

\* the mechanism of the code (query_env.date_bin): walk from the origin one stride at a time; a boundary belongs to
\* the bin it starts (strict comparison going up)
RECURSIVE WalkUp(_, _, _), WalkDown(_, _, _), WalkUpGE(_, _, _)
WalkUp(prev, iv, src) == LET n == AddIval(prev, iv) IN IF n > src THEN prev ELSE WalkUp(n, iv, src)
WalkDown(cur, iv, src) == LET n == SubIval(cur, iv) IN IF n <= src THEN n ELSE WalkDown(n, iv, src)
DateBinWalk(iv, src, origin) ==
  IF MonthStride(iv)
    THEN IF src >= origin THEN WalkUp(origin, iv, src) ELSE WalkDown(origin, iv, src)
    ELSE origin + iv.d * ((src - origin) \div iv.d)
\* the walk as it was before repair 5c4d63a (`n >= source`): kept as the deliberately broken mechanism of the
\* non-vacuity configuration, and to give a regression to it its own key
WalkUpGE(prev, iv, src) == LET n == AddIval(prev, iv) IN IF n >= src THEN prev ELSE WalkUpGE(n, iv, src)
DateBinShipped(iv, src, origin) ==
  IF MonthStride(iv)
    THEN IF src >= origin THEN WalkUpGE(origin, iv, src) ELSE WalkDown(origin, iv, src)
    ELSE origin + iv.d * ((src - origin) \div iv.d)
\* the named deviation: exactly on a bin boundary after the origin the pre-repair walk answers the previous bin
OnBoundaryAfterOrigin(iv, src, origin) ==
  MonthStride(iv) /\ src > origin /\ DateBin(iv, src, origin) = src
PrevBin(iv, src, origin) == SubIval(src, iv)

(* ---- date constructors ------------------------------------------------------------------------------ *)
DateFromYMD(y, m, d) == IF ValidYMD(y, m, d) THEN <<Ord(y, m, d)>> ELSE <<>>      \* <<>> = NULL
=============================================================================
