-------------------------- MODULE MC_ParserSession --------------------------
(* Model values for ParserSession: the statement texts of a session (as token sequences).  Positional placeholders,
   named ones, both kinds (refused by the compiler), none, a text the grammar rejects; placeholders in every
   statement kind and inside a sub-SELECT. *)
EXTENDS ParserSession

A == ID("a")
One == INT(<<1>>)
TextsSmall ==
    << <<KW("SELECT"), P("%s"), P("+"), One, P(","), P("%s")>>,                  \* SELECT %s + 1, %s
       <<KW("SELECT"), P("%("), ID("n"), P(")s")>>,                              \* SELECT %(n)s
       <<KW("SELECT"), P("%s"), P(","), P("%("), ID("n"), P(")s")>>,             \* both kinds
       <<KW("SELECT"), A, ID("b")>> >>                                           \* rejected
TextsGen ==
    TextsSmall \o
    << <<KW("SELECT"), A, KW("FROM"), ID("t"), KW("WHERE"), ID("b"), P(">"), P("%s"), KW("AND"), ID("c"), KW("IN"),
         P("("), KW("SELECT"), P("%s"), P(")")>>,
       <<KW("BALANCES"), KW("FROM"), ID("year"), P("="), P("%s"), KW("WHERE"), ID("account"), P("~"), P("%s")>>,
       <<KW("JOURNAL"), STR("s1"), ID("at"), ID("cost"), KW("FROM"), P("%s")>>,
       <<KW("PRINT"), KW("FROM"), ID("year"), P("="), P("%("), ID("y"), P(")s")>>,
       <<KW("SELECT"), One, P("+"), INT(<<2>>), P("*"), INT(<<3>>)>>,
       <<KW("SELECT"), ID("f"), P("("), P("%s"), P(","), A, P(")"), KW("AS"), ID("x"), KW("GROUP"), KW("BY"), One,
         KW("ORDER"), KW("BY"), P("-"), P("%s"), KW("DESC"), KW("LIMIT"), INT(<<3>>)>>,
       <<KW("SELECT"), P("-"), P("%s"), P("*"), P("("), P("%s"), P("-"), P("%s"), P(")"), ID("between"), One, KW("AND"), P("%s")>>,
       <<KW("SELECT"), KW("DISTINCT"), P("%s"), KW("FROM"), TABLE("t"), KW("WHERE"), KW("NOT"), P("%s"), KW("IS"), ID("null")>> >>
Conns2 == {1, 2}
\* the model's texts are all judged by Parse: none of them is one the scannerless parser may cut differently
ASSUME \A i \in 1..Len(TextsGen) : ~Unmodelled(TextsGen[i])
ASSUME NumberingShowsIn(TextsGen)
=============================================================================
