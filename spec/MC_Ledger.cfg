\* exhaustive: every well-formed ledger of <= 3 directives over the 16-letter alphabet x every table
CONSTANTS
  Alpha <- SmallAlpha
  MaxLen = 3
  Keys <- SmallKeys
  Mech = "ok"
  MaxStmts = 1
  QualOpts <- QNone
INIT Init
NEXT Next
INVARIANTS TypeOK MechEqDecl LookupsEqDecl RowidInv Laws HelperLaws
CHECK_DEADLOCK FALSE
