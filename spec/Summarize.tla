------------------------------ MODULE Summarize ------------------------------
(***************************************************************************)
(* C13 -- FROM ... OPEN ON d  CLOSE [ON e]  CLEAR presents the ledger as a *)
(* period report preserving balances.                                      *)
(*                                                                         *)
(* Code anchors: beanquery/compiler.py:_compile_from (date order check,    *)
(* table.update(open, close, clear)), beanquery/query_env.py:              *)
(* BeanTable.prepare (summarize.open_opt ; close_opt ; clear_opt, in that  *)
(* order, before the FROM expression is evaluated row by row), and         *)
(* beancount/ops/summarize.py (conversions, transfer_balances, summarize,  *)
(* truncate).                                                              *)
(*                                                                         *)
(* Two halves:                                                             *)
(*   - the DECLARATIVE property (operators KeepOK .. FilterOK): stated     *)
(*     over the flat list LP of the ledger's postings, the clause          *)
(*     configuration c and the flat list R of returned rows.  It never     *)
(*     mentions how the report is produced.  The same operators judge      *)
(*     recorded executions of the real code (Trace_Summarize).             *)
(*   - the MECHANISM (actions Compile, OpenConversions, OpenTransfer,      *)
(*     OpenSummarize, CloseTruncate, CloseConversions, ClearTransfer,      *)
(*     ApplyFilter), one action per step the code takes, in the order      *)
(*     given by the constant Order.  TLC checks mechanism => property for  *)
(*     all small ledgers; with a permuted Order it must find a             *)
(*     counterexample.                                                     *)
(*   - the ENTRY POINT (door) the statement is given through: the DB-API   *)
(*     (Connection.execute), the shell (a statement typed at the prompt or *)
(*     given on the bean-query command line), or a named query of the      *)
(*     ledger executed with .run.  beanquery/shell.py: BQLShell.parse      *)
(*     (action Hook) rewrites the FROM clause of what it parsed before it  *)
(*     reaches the compiler; the period report presented must be that of   *)
(*     the clauses written in the statement (Presented), whichever door.   *)
(*                                                                         *)
(* Numbers are pairs <<hi, lo>> meaning hi + lo / Base with 0 <= lo < Base *)
(* (TLC integers are 32 bit; real ledgers need 6 decimals and 10^6 units). *)
(* A position key (account, currency, lot) is an index into a key table    *)
(* kt: kt[k] = [a, r, c, lot, vc] with r the root type "A" "L" "Q" "I" "X" *)
(* (Assets, Liabilities, Equity, Income, Expenses) and vc the currency of  *)
(* the position's value at cost (= c without a lot).                       *)
(* A row / posting is [t, date, flag, g, k, u, v, w, wc, px]:              *)
(*   t transaction tag of the original transaction (0 for synthetic ones), *)
(*   g index of the transaction in the list it was flattened from,         *)
(*   u units, v value at cost (currency kt[k].vc), w weight in currency    *)
(*   wc, px the price annotation as text ("" = none).                      *)
(***************************************************************************)
EXTENDS Integers, Sequences, FiniteSets, SequencesExt, TLC

CONSTANTS
    Base,         \* 1000000
    KeyTab,       \* MECHANISM ONLY: key table of the model-checked universe (records also carry kn, the unit cost),
                  \*   sorted by account, the keys of one account consecutive
    CurSeq,       \* MECHANISM ONLY: the at-cost currencies, sorted
    Special,      \* MECHANISM ONLY: [opening, prev_earn, prev_conv, cur_earn, cur_conv] -> account
    Ledgers,      \* set of ledgers (sequences of transactions [date, flag, t, ps], sorted by date)
    OpenArgs,     \* set of OPEN arguments: 0 = clause absent, d >= 1 = OPEN ON d
    CloseArgs,    \* set of CLOSE arguments: -1 = absent, 0 = bare CLOSE, e >= 1 = CLOSE ON e
    ClearArgs,    \* subset of BOOLEAN
    Filters,      \* set of filters [n, a] (see Pass)
    Order,        \* the phases in the order they are applied: <<"open","close","clear","filter">> as stated (permuted or with
                  \*   a phase repeated in the non-vacuity configurations)
    CompileMode,  \* "stated": as the statement says (and as /repo does since 41a2136);  "shipped": the compile step as shipped
                  \*   before that fix -- OPEN with a bare CLOSE crashes (TypeError); kept for the non-vacuity run
    Inners,       \* set of subquery descriptors [on, c]: the statement is
                  \*     ... FROM <filter> <clauses> WHERE account IN (SELECT account FROM <c.filter> <c's clauses>)
                  \*   when on, a plain statement otherwise ({NoInner} in the configurations without nesting)
    Doors,        \* set of entry points [ep, q] the statement is given through: ApiDoor, ShellDoor, RunDoor(q) (q = the date of the
                  \*   query directive holding the statement)
    HookMode,     \* "stated": BQLShell.parse gives a FROM clause WITHOUT a CLOSE the default CLOSE date of the door (none for a
                  \*   typed statement, the date of the query directive for .run) and leaves everything else as parsed;
                  \*   "rebuilt": it builds a new FROM clause from (expression, OPEN, default CLOSE) -- CLEAR is not carried over;
                  \*   "override": it assigns the default CLOSE date whether or not a CLOSE is written.  Both kept for the
                  \*   non-vacuity runs.
    ScopeMode     \* "stated": every FROM clause ranges over the table carrying exactly the clauses written in it;
                  \*   "inherit": a FROM clause without OPEN / CLOSE / CLEAR leaves the current table as it is (the subquery
                  \*   inherits the clauses of the enclosing statement);  "norestore": the table of the subquery stays current
                  \*   for the enclosing statement.  Both kept for the non-vacuity runs.

-----------------------------------------------------------------------------
(* Numbers *)
Z == <<0, 0>>
N(i) == <<i, 0>>
Add(a, b) == LET lo == a[2] + b[2] hi == a[1] + b[1] IN <<hi + (lo \div Base), lo % Base>>
Neg(a) == IF a[2] = 0 THEN <<0 - a[1], 0>> ELSE <<(0 - a[1]) - 1, Base - a[2]>>

Inf == 1073741824     \* later than every date
NoDate == 0

-----------------------------------------------------------------------------
(* The clause configuration c = [open, close, clear, filter]  (open: 0 | d; close: -1 | 0 | e) *)
HasOpen(c) == c.open > 0
HasClose(c) == c.close >= 0
Lo(c) == IF HasOpen(c) THEN c.open ELSE 0
Hi(c) == IF c.close > 0 THEN c.close ELSE Inf
InWin(c, dt) == Lo(c) <= dt /\ dt < Hi(c)
Rejected(c) == HasOpen(c) /\ c.close > 0 /\ c.close < c.open      \* CLOSE date before OPEN date
HasClauses(c) == c.open > 0 \/ c.close >= 0 \/ c.clear
HasFrom(c) == HasClauses(c) \/ c.filter.n # "none"                 \* the statement has a FROM clause at all

(* The entry point dr = [ep, q] the statement is given through, and the clauses it PRESENTS there: the clauses written in it
   -- every subset of them, through every door.  The one thing a door adds: a named query run with .run closes the books on
   the date q of its query directive when its FROM clause says nothing about CLOSE (shell.py: "default close date"); a
   statement without any FROM clause, or with a CLOSE (bare or dated), is presented as written. *)
ApiDoor == [ep |-> "api", q |-> 0]
ShellDoor == [ep |-> "shell", q |-> 0]
RunDoor(q) == [ep |-> "run", q |-> q]
Presented(c, dr) == IF dr.ep = "run" /\ HasFrom(c) /\ ~HasClose(c) THEN [c EXCEPT !.close = dr.q] ELSE c

Synthetic(flag) == flag \in {"S", "T", "C"}      \* summarize, transfer, conversions
Core(p) == <<p.t, p.date, p.flag, p.k, p.u, p.v, p.w, p.wc, p.px>>
CoreSeq(s) == [i \in 1..Len(s) |-> Core(s[i])]

(* FROM filter expressions (over transaction-level attributes only, as in the FROM clause): f = [n |-> name, a |-> argument] *)
Pass(f, p) ==
    CASE f.n = "none"  -> TRUE
      [] f.n = "orig"  -> p.flag = "*"                  \* flag = '*'
      [] f.n = "synth" -> p.flag # "*"                  \* flag != '*'
      [] f.n = "nott"  -> p.t # f.a                     \* narration != 'x<a>'
      [] f.n = "onlyt" -> p.t = f.a                     \* narration = 'x<a>'
      [] f.n = "ge"    -> p.date >= f.a                 \* date >= <a>
      [] f.n = "lt"    -> p.date < f.a                  \* date < <a>
NoFilter == [n |-> "none", a |-> 0]

-----------------------------------------------------------------------------
(* Totals *)
TotU(n, s) == FoldLeft(LAMBDA acc, p : [acc EXCEPT ![p.k] = Add(@, p.u)], [i \in 1..n |-> Z], s)
VSum(kt, s, cur) == FoldLeft(LAMBDA acc, p : IF kt[p.k].vc = cur THEN Add(acc, p.v) ELSE acc, Z, s)
VCurs(kt) == {kt[k].vc : k \in 1..Len(kt)}

(***************************************************************************)
(* THE PROPERTY.  LP: the ledger's postings (flattened, in ledger order),  *)
(* c: the clauses, R: the rows returned WITHOUT a filter expression.       *)
(***************************************************************************)
\* no posting of an original transaction dated outside [d, e); those inside unchanged and in order
KeepOK(LP, c, R) ==
    CoreSeq(SelectSeq(R, LAMBDA p : ~Synthetic(p.flag))) = CoreSeq(SelectSeq(LP, LAMBDA p : InWin(c, p.date)))

\* every Assets / Liabilities position totals to its balance as of e (or the ledger end) in the full ledger
BalanceSheetOK(kt, LP, c, R) ==
    LET tr == TotU(Len(kt), R)
        tl == TotU(Len(kt), SelectSeq(LP, LAMBDA p : p.date < Hi(c)))
    IN \A k \in 1..Len(kt) : kt[k].r \in {"A", "L"} => tr[k] = tl[k]

\* Income / Expenses positions carry only the activity in [d, e); nothing at all with CLEAR
IncomeOK(kt, LP, c, R) ==
    LET tr == TotU(Len(kt), R)
        tl == TotU(Len(kt), SelectSeq(LP, LAMBDA p : InWin(c, p.date)))
    IN \A k \in 1..Len(kt) : kt[k].r \in {"I", "X"} => tr[k] = IF c.clear THEN Z ELSE tl[k]

\* the difference is carried by Equity accounts: valued at cost, the Equity rows offset all the other rows -- exactly
\* when the report is closed (CLOSE inserts the conversions entry), up to the unconverted remainder of the
\* transactions of the period otherwise (synthetic entries never create or destroy value)
EquityOK(kt, LP, c, R) ==
    \A cur \in VCurs(kt) :
        LET eq == VSum(kt, SelectSeq(R, LAMBDA p : kt[p.k].r = "Q"), cur)
            other == VSum(kt, SelectSeq(R, LAMBDA p : kt[p.k].r # "Q"), cur)
            rest == IF HasClose(c) THEN Z ELSE VSum(kt, SelectSeq(LP, LAMBDA p : InWin(c, p.date)), cur)
        IN eq = Add(Neg(other), rest)

\* every returned transaction balances (by weight).  exact = FALSE: the ledger's own transactions balance only within
\* Beancount's tolerance; they are returned unchanged (KeepOK), so only the synthetic ones are summed.
TxBalanceOK(R, exact) ==
    LET S == IF exact THEN R ELSE SelectSeq(R, LAMBDA p : Synthetic(p.flag))
        G == {S[i].g : i \in 1..Len(S)}
        W == {S[i].wc : i \in 1..Len(S)}
        tot == FoldLeft(LAMBDA acc, p : [acc EXCEPT ![<<p.g, p.wc>>] = Add(@, p.w)], [x \in G \X W |-> Z], S)
    IN \A x \in G \X W : tot[x] = Z

\* the clauses apply in the fixed order OPEN, CLOSE, CLEAR: what OPEN contributes (the opening balances, flag S) precedes the
\* transactions of the period, what CLOSE contributes (the conversions entry, flag C) follows them, and what CLEAR
\* contributes (the transfers to Equity, flag T) comes last
Phase(flag) == CASE flag = "S" -> 1 [] flag = "C" -> 3 [] flag = "T" -> 4 [] OTHER -> 2
LayoutOK(R) == \A i \in 1..(Len(R) - 1) : Phase(R[i].flag) <= Phase(R[i + 1].flag)

\* the clauses apply before and independently of the filter expression:
\* RF (rows returned with filter f) are exactly the rows of R whose transaction satisfies f
FilterOK(R, f, RF) == CoreSeq(RF) = CoreSeq(SelectSeq(R, LAMBDA p : Pass(f, p)))

PeriodReportClauses(kt, LP, c, R, exact) ==
    <<KeepOK(LP, c, R), BalanceSheetOK(kt, LP, c, R), IncomeOK(kt, LP, c, R), EquityOK(kt, LP, c, R),
      TxBalanceOK(R, exact), LayoutOK(R)>>
ClauseNames == <<"KeepOK", "BalanceSheetOK", "IncomeOK", "EquityOK", "TxBalanceOK", "LayoutOK">>

(***************************************************************************)
(* EVERY FROM clause presents the period report of the clauses written in  *)
(* it -- of every subset of them, the empty one included -- wherever the   *)
(* FROM clause stands: in the statement itself or in a subquery of it.     *)
(* For  ... FROM f <c> WHERE account IN (SELECT account FROM fi <ci>)      *)
(* with RO the report of c, RI the report of ci (both without filter):     *)
(* the rows RN returned are the rows of RO whose transaction satisfies f   *)
(* and whose account is among the accounts of the rows of RI whose         *)
(* transaction satisfies fi.  (A subquery WITHOUT any FROM clause is not   *)
(* covered: the statement says nothing about the table it ranges over.)    *)
(***************************************************************************)
AcctsOf(kt, R) == {kt[R[i].k].a : i \in 1..Len(R)}
ScopeOK(kt, RO, f, RI, fi, RN) ==
    LET A == AcctsOf(kt, SelectSeq(RI, LAMBDA p : Pass(fi, p)))
    IN CoreSeq(RN) = CoreSeq(SelectSeq(RO, LAMBDA p : Pass(f, p) /\ kt[p.k].a \in A))
NoInner == [on |-> FALSE, c |-> [open |-> 0, close |-> -1, clear |-> FALSE, filter |-> NoFilter]]

-----------------------------------------------------------------------------
(***************************************************************************)
(* What the statement determines of the rows returned WITH filter f, as a  *)
(* function of the ledger alone (used by the generator for the spec->code  *)
(* leg): the original postings kept, and -- when f passes either every or  *)
(* no synthetic transaction -- the totals of the non-Equity positions and  *)
(* the value at cost of all rows.                                          *)
(***************************************************************************)
SynthPass(f) == CASE f.n \in {"none", "synth", "nott"} -> "all" [] f.n \in {"orig", "onlyt"} -> "none" [] OTHER -> "some"
ExpectKept(LP, c) == SelectSeq(LP, LAMBDA p : InWin(c, p.date) /\ Pass(c.filter, p))
ExpectTotals(kt, LP, c) ==      \* [k |-> total] for the non-Equity keys
    LET n == Len(kt)
        keptAll == TotU(n, SelectSeq(LP, LAMBDA p : InWin(c, p.date)))
        keptF == TotU(n, ExpectKept(LP, c))
        asof == TotU(n, SelectSeq(LP, LAMBDA p : p.date < Hi(c)))
        full(k) == IF kt[k].r \in {"A", "L"} THEN asof[k] ELSE IF c.clear THEN Z ELSE keptAll[k]
    IN [k \in 1..n |->
          IF SynthPass(c.filter) = "all" THEN Add(Add(full(k), Neg(keptAll[k])), keptF[k]) ELSE keptF[k]]
ExpectValue(kt, LP, c, cur) ==  \* value at cost of all returned rows, per currency
    LET keptAll == VSum(kt, SelectSeq(LP, LAMBDA p : InWin(c, p.date)), cur)
        keptF == VSum(kt, ExpectKept(LP, c), cur)
        full == IF HasClose(c) THEN Z ELSE keptAll
    IN IF SynthPass(c.filter) = "all" THEN Add(Add(full, Neg(keptAll)), keptF) ELSE keptF

(* Nested statements: the accounts the subquery FROM ci.filter <ci> selects are determined by the ledger alone when its
   report has no synthetic row (no clause) or its filter passes none of them; then so are the original postings the
   enclosing statement keeps and the totals of its non-Equity positions (restricted to those accounts). *)
InnerDetermined(ci) == ~HasClauses(ci) \/ SynthPass(ci.filter) = "none"
ExpectAccts(kt, LP, ci) == AcctsOf(kt, ExpectKept(LP, ci))
ExpectKeptN(kt, LP, c, ci) == LET A == ExpectAccts(kt, LP, ci) IN SelectSeq(ExpectKept(LP, c), LAMBDA p : kt[p.k].a \in A)
ExpectTotalsN(kt, LP, c, ci) ==
    LET A == ExpectAccts(kt, LP, ci)
        tot == ExpectTotals(kt, LP, c)
    IN [k \in 1..Len(kt) |-> IF kt[k].a \in A THEN tot[k] ELSE Z]

-----------------------------------------------------------------------------
(***************************************************************************)
(* THE MECHANISM (over the universe of KeyTab)                             *)
(***************************************************************************)
VARIABLES
    ledger,    \* the input entries (never modified)
    cfg,       \* the clauses and the filter of the statement, as written
    door,      \* the entry point the statement is given through
    node,      \* the FROM clause as it reaches the compiler (= cfg as parsed; rewritten by the shell's parse hook)
    status,    \* "parse" | "hook" | "compile" | "run" | "done" | "rejected" (CompilationError) | "crashed" (any other exception)
    pc,        \* the steps still to take
    entries,   \* the list being transformed
    report,    \* ghost: the list as the last clause step left it (what the filter expression is evaluated on)
    inner,     \* the subquery of the statement: [on, c] (NoInner = none)
    tab,       \* the tables still to be prepared, each the clauses [open, close, clear] it carries: the subquery's (if any), then
               \*   the statement's own
    sub        \* what the subquery yielded: [accts |-> the accounts it selects, report |-> ghost, its list as its last clause step left it]
vars == <<ledger, cfg, door, node, status, pc, entries, report, inner, tab, sub>>

NK == Len(KeyTab)
KeyOf(a, c) == CHOOSE k \in 1..NK : KeyTab[k].a = a /\ KeyTab[k].c = c /\ KeyTab[k].lot = ""

RowsOf(es) ==
    FoldLeft(LAMBDA acc, i : acc \o [j \in 1..Len(es[i].ps) |->
                 [t |-> es[i].t, date |-> es[i].date, flag |-> es[i].flag, g |-> i,
                  k |-> es[i].ps[j].k, u |-> es[i].ps[j].u, v |-> es[i].ps[j].v, w |-> es[i].ps[j].w,
                  wc |-> es[i].ps[j].wc, px |-> es[i].ps[j].px]],
             <<>>, [i \in 1..Len(es) |-> i])

Before(es, dt) == IF dt = NoDate THEN es ELSE SelectSeq(es, LAMBDA x : x.date < dt)
After(es, dt) == IF dt = NoDate THEN <<>> ELSE SelectSeq(es, LAMBDA x : x.date >= dt)
InsertAtDate(es, dt, new) == Before(es, dt) \o new \o After(es, dt)        \* at bisect_left(dt), or at the end
SynthDate(es, dt) == IF dt = NoDate THEN es[Len(es)].date ELSE dt - 1

Cat(f(_), n) == FoldLeft(LAMBDA acc, i : acc \o f(i), <<>>, [i \in 1..n |-> i])

\* summarize.conversions(entries, account, currency, date)
Conversions(es, dt, acct) ==
    LET rows == RowsOf(Before(es, dt))
        val(i) == VSum(KeyTab, rows, CurSeq[i])
        post(i) == IF val(i) = Z THEN <<>>
                   ELSE <<[k |-> KeyOf(acct, CurSeq[i]), u |-> Neg(val(i)), v |-> Neg(val(i)), w |-> Z,
                           wc |-> "NOTHING", px |-> "0 NOTHING"]>>
        ps == Cat(post, Len(CurSeq))
    IN IF ps = <<>> THEN es
       ELSE InsertAtDate(es, dt, <<[date |-> SynthDate(es, dt), flag |-> "C", t |-> 0, ps |-> ps]>>)

\* summarize.create_entries_from_balances(balances of the entries before dt, date, source_account, direction, flag)
\* restricted to the accounts whose root type is in roots: one transaction per account with a non-empty balance,
\* accounts in sorted order (KeyTab lists the keys of one account consecutively, accounts sorted)
EntriesFromBalances(es, dt, date, source, toAccount, flag, roots) ==
    LET rows == RowsOf(Before(es, dt))
        bu == TotU(NK, rows)
        bv == FoldLeft(LAMBDA acc, p : [acc EXCEPT ![p.k] = Add(@, p.v)], [i \in 1..NK |-> Z], rows)
        sgn(x) == IF toAccount THEN x ELSE Neg(x)
        legs(k) == << [k |-> k, u |-> sgn(bu[k]), v |-> sgn(bv[k]), w |-> sgn(bv[k]), wc |-> KeyTab[k].vc, px |-> ""],
                      [k |-> KeyOf(source, KeyTab[k].vc), u |-> Neg(sgn(bv[k])), v |-> Neg(sgn(bv[k])),
                       w |-> Neg(sgn(bv[k])), wc |-> KeyTab[k].vc, px |-> ""] >>
        nz == SelectSeq([k \in 1..NK |-> k], LAMBDA k : bu[k] # Z /\ KeyTab[k].r \in roots)
        add(acc, k) ==      \* acc = <<transactions so far, account of the last one>>
            IF acc[1] # <<>> /\ acc[2] = KeyTab[k].a
            THEN <<[acc[1] EXCEPT ![Len(acc[1])].ps = @ \o legs(k)], acc[2]>>
            ELSE <<Append(acc[1], [date |-> date, flag |-> flag, t |-> 0, ps |-> legs(k)]), KeyTab[k].a>>
    IN FoldLeft(add, <<<<>>, "">>, nz)[1]

\* summarize.transfer_balances(entries, date, is_income_statement_account, account)
TransferBalances(es, dt, acct) ==
    IF es = <<>> THEN es
    ELSE InsertAtDate(es, dt, EntriesFromBalances(es, dt, SynthDate(es, dt), acct, FALSE, "T", {"I", "X"}))

\* summarize.summarize(entries, date, account_opening)
Summarise(es, d, acct) ==
    EntriesFromBalances(es, d, d - 1, acct, TRUE, "S", {"A", "L", "Q", "I", "X"}) \o After(es, d)

\* summarize.truncate(entries, date)
Truncate(es, e) == Before(es, e)

CloseDate(c) == IF c.close > 0 THEN c.close ELSE NoDate

StepsOf(c, phase) ==
    CASE phase = "open"   -> IF HasOpen(c) THEN <<"OpenConversions", "OpenTransfer", "OpenSummarize">> ELSE <<>>
      [] phase = "close"  -> IF c.close > 0 THEN <<"CloseTruncate", "CloseConversions">>
                             ELSE IF c.close = 0 THEN <<"CloseConversions">> ELSE <<>>
      [] phase = "clear"  -> IF c.clear THEN <<"ClearTransfer">> ELSE <<>>
      [] phase = "filter" -> <<"ApplyFilter">>
Program(c) == FoldLeft(LAMBDA acc, ph : acc \o StepsOf(c, ph), <<>>, Order)
ClauseSteps(c) == FoldLeft(LAMBDA acc, ph : acc \o StepsOf(c, ph), <<>>, SelectSeq(Order, LAMBDA ph : ph # "filter"))

\* compiler._compile_from on a FROM clause: table.update(open, close, clear) with the clauses written in THAT clause -- the
\* absent ones reset -- whatever table was current (cur) before
PlainTable == [open |-> 0, close |-> -1, clear |-> FALSE]
TableOf(cur, c) ==
    IF ScopeMode = "inherit" /\ ~HasClauses(c) THEN cur
    ELSE [open |-> c.open, close |-> c.close, clear |-> c.clear]
NoSub == [accts |-> {}, report |-> <<>>]

InitWith(L) ==
    /\ ledger \in L
    /\ cfg = [open |-> 0, close |-> -1, clear |-> FALSE, filter |-> NoFilter]
    /\ door = ApiDoor
    /\ node = cfg
    /\ status = "parse"
    /\ pc = <<>>
    /\ entries = ledger
    /\ report = ledger
    /\ inner = NoInner
    /\ tab = <<>>
    /\ sub = NoSub

Init == InitWith(Ledgers)

\* the statement arrives through one of the doors and is parsed: any combination of the clauses and a filter expression.
\* Connection.execute hands the parsed statement to the compiler; the shell passes it through its parse hook first
Arrives(cfgs, inners, doors) ==
    /\ status = "parse"
    /\ cfg' \in cfgs
    /\ inner' \in inners
    /\ door' \in doors
    /\ node' = cfg'
    /\ status' = IF door'.ep = "api" THEN "compile" ELSE "hook"
    /\ UNCHANGED <<ledger, pc, entries, report, tab, sub>>
Statement == Arrives([open : OpenArgs, close : CloseArgs, clear : ClearArgs, filter : Filters], Inners, Doors)

\* shell.BQLShell.parse, for SELECT / BALANCES / JOURNAL: a FROM clause without CLOSE gets the default CLOSE date of the door
\* -- none for a statement typed at the prompt or given on the command line, the date of the query directive for .run;
\* nothing else of the parsed statement changes
Hook ==
    /\ status = "hook"
    /\ LET dflt == IF door.ep = "run" THEN door.q ELSE -1
           hit == HasFrom(node) /\ (HookMode = "override" \/ ~HasClose(node))
       IN node' = IF ~hit THEN node
                  ELSE IF HookMode = "rebuilt" THEN [node EXCEPT !.close = dflt, !.clear = FALSE]
                  ELSE [node EXCEPT !.close = dflt]
    /\ status' = "compile"
    /\ UNCHANGED <<ledger, cfg, door, pc, entries, report, inner, tab, sub>>

\* compiler._compile_from, for the FROM clause of the statement and then (the WHERE clause is compiled after it, the table
\* of the statement being current) for the FROM clause of the subquery: date order check, then table.update(open, close,
\* clear); the table of the enclosing statement is current again when the subquery is compiled
RejectedNode == Rejected(node) \/ (inner.on /\ Rejected(inner.c))
Compile ==
    /\ status = "compile"
    /\ LET tOwn == TableOf(PlainTable, node)
           tSub == TableOf(tOwn, inner.c)
           tOuter == IF inner.on /\ ScopeMode = "norestore" THEN tSub ELSE tOwn
       IN
       IF CompileMode = "shipped" /\ HasOpen(node) /\ node.close = 0
       THEN status' = "crashed" /\ UNCHANGED <<pc, tab>>    \* before 41a2136: `node.open > node.close` with close = True
       ELSE IF RejectedNode THEN status' = "rejected" /\ UNCHANGED <<pc, tab>>
       ELSE /\ status' = "run"
            /\ pc' = IF inner.on THEN ClauseSteps(tSub) \o <<"SubCollect">> \o Program(tOuter) \o <<"ApplyWhere">>
                      ELSE Program(tOuter)
            /\ tab' = IF inner.on THEN <<tSub, tOuter>> ELSE <<tOuter>>
    /\ UNCHANGED <<ledger, cfg, door, node, entries, report, inner, sub>>

At(name) == status = "run" /\ pc # <<>> /\ Head(pc) = name
T == tab[1]      \* the table being prepared
Becomes(new, isClause) ==
    /\ entries' = new
    /\ report' = IF isClause THEN new ELSE report
    /\ pc' = Tail(pc)
    /\ status' = IF Tail(pc) = <<>> THEN "done" ELSE "run"
    /\ UNCHANGED <<ledger, cfg, door, node, inner, tab, sub>>

\* OPEN ON d = summarize.open(): conversions before d; transfer Income / Expenses before d; summarize everything before d
OpenConversions ==
    /\ At("OpenConversions")
    /\ Becomes(Conversions(entries, T.open, Special.prev_conv), TRUE)
OpenTransfer ==
    /\ At("OpenTransfer")
    /\ Becomes(TransferBalances(entries, T.open, Special.prev_earn), TRUE)
OpenSummarize ==
    /\ At("OpenSummarize")
    /\ Becomes(Summarise(entries, T.open, Special.opening), TRUE)
\* CLOSE [ON e] = summarize.close(): truncate at e (if given); conversions entry at the end
CloseTruncate ==
    /\ At("CloseTruncate")
    /\ Becomes(Truncate(entries, T.close), TRUE)
CloseConversions ==
    /\ At("CloseConversions")
    /\ Becomes(Conversions(entries, CloseDate(T), Special.cur_conv), TRUE)
\* CLEAR = summarize.clear(date = None): transfer Income / Expenses at the end
ClearTransfer ==
    /\ At("ClearTransfer")
    /\ Becomes(TransferBalances(entries, NoDate, Special.cur_earn), TRUE)
\* the FROM expression is evaluated entry by entry on the prepared list
ApplyFilter ==
    /\ At("ApplyFilter")
    /\ Becomes(SelectSeq(entries, LAMBDA x : Pass(node.filter, [t |-> x.t, date |-> x.date, flag |-> x.flag])), FALSE)
\* the subquery SELECT account FROM <inner.c.filter> <its clauses> has been prepared on ITS table: its FROM expression is
\* evaluated entry by entry, the accounts of the postings of the passing entries are collected; the table of the statement
\* itself is prepared next, from the ledger
SubCollect ==
    /\ At("SubCollect")
    /\ sub' = [accts |-> AcctsOf(KeyTab, SelectSeq(RowsOf(entries), LAMBDA p : Pass(inner.c.filter, p))), report |-> report]
    /\ entries' = ledger
    /\ report' = ledger
    /\ tab' = Tail(tab)
    /\ pc' = Tail(pc)
    /\ UNCHANGED <<ledger, cfg, door, node, inner, status>>
\* WHERE account IN (<the subquery>): evaluated posting by posting
ApplyWhere ==
    /\ At("ApplyWhere")
    /\ Becomes([i \in 1..Len(entries) |->
                   [entries[i] EXCEPT !.ps = SelectSeq(@, LAMBDA q : KeyTab[q.k].a \in sub.accts)]], FALSE)

Next ==
    \/ Statement
    \/ Hook
    \/ Compile
    \/ OpenConversions \/ OpenTransfer \/ OpenSummarize
    \/ CloseTruncate \/ CloseConversions
    \/ ClearTransfer
    \/ ApplyFilter
    \/ SubCollect
    \/ ApplyWhere

Spec == Init /\ [][Next]_vars

-----------------------------------------------------------------------------
(* Invariants: the property holds of what the mechanism produces *)
LP == RowsOf(ledger)
Done == status = "done"
W == Presented(cfg, door)      \* the clauses the statement presents through its door
RejectedStmt == Rejected(W) \/ (inner.on /\ Rejected(inner.c))

KeepInv == Done => KeepOK(LP, W, RowsOf(report))
BalanceSheetInv == Done => BalanceSheetOK(KeyTab, LP, W, RowsOf(report))
IncomeInv == Done => IncomeOK(KeyTab, LP, W, RowsOf(report))
EquityInv == Done => EquityOK(KeyTab, LP, W, RowsOf(report))
\* in every intermediate list as well (not of the rows a WHERE clause picks out of the transactions)
TxBalanceInv == ~(Done /\ inner.on) => TxBalanceOK(RowsOf(entries), TRUE)
LayoutInv == Done => LayoutOK(RowsOf(report)) /\ LayoutOK(RowsOf(entries))
FilterInv == (Done /\ ~inner.on) => FilterOK(RowsOf(report), W.filter, RowsOf(entries))
\* the FROM clause of a subquery presents the period report of ITS OWN clauses (every clause of the property, with the
\* clauses as written in the subquery), and the statement returns the rows of its own report the subquery selects
ScopeInv ==
    (Done /\ inner.on) =>
      /\ \A i \in 1..Len(ClauseNames) : PeriodReportClauses(KeyTab, LP, inner.c, RowsOf(sub.report), TRUE)[i]
      /\ ScopeOK(KeyTab, RowsOf(report), W.filter, RowsOf(sub.report), inner.c.filter, RowsOf(entries))
\* compile time: rejected exactly when a CLOSE date precedes the OPEN date of the same FROM clause; everything else runs
\* to completion
CompileInv ==
    /\ status # "crashed"
    /\ status = "rejected" => RejectedStmt
    /\ status \in {"run", "done"} => ~RejectedStmt
SortedInv == \A i \in 1..(Len(entries) - 1) : entries[i].date <= entries[i + 1].date
\* what the generator emits is what the mechanism yields (ties the spec->code expectations to the model-checked spec)
ExpectInv ==
    Done =>
      LET R == RowsOf(entries) IN
      IF ~inner.on THEN
          /\ CoreSeq(SelectSeq(R, LAMBDA p : ~Synthetic(p.flag))) = CoreSeq(ExpectKept(LP, W))
          /\ SynthPass(W.filter) # "some" =>
               /\ \A k \in 1..NK : KeyTab[k].r # "Q" => TotU(NK, R)[k] = ExpectTotals(KeyTab, LP, W)[k]
               /\ \A i \in 1..Len(CurSeq) : VSum(KeyTab, R, CurSeq[i]) = ExpectValue(KeyTab, LP, W, CurSeq[i])
      ELSE InnerDetermined(inner.c) =>
          /\ sub.accts = ExpectAccts(KeyTab, LP, inner.c)
          /\ CoreSeq(SelectSeq(R, LAMBDA p : ~Synthetic(p.flag))) = CoreSeq(ExpectKeptN(KeyTab, LP, W, inner.c))
          /\ SynthPass(W.filter) # "some" =>
               \A k \in 1..NK : KeyTab[k].r # "Q" => TotU(NK, R)[k] = ExpectTotalsN(KeyTab, LP, W, inner.c)[k]

=============================================================================
