\* sessions (quick): every sequence of <= 3 statements (18 shapes) on 2 connections
CONSTANTS
  Headers <- Empty
  Pool <- Empty
  MaxPostings = 0
  Shapes <- Empty
  DirPool <- Empty
  MaxDirs = 0
  PrintShapes <- Empty
  KnownStrings <- NoStrings
  KnownPats <- NoStrings
  Variant = "shipped"
  NConn = 2
  MaxSteps = 3
  Routes = {"typed"}
  Mech = "shipped"
INIT SInit
NEXT SNext
INVARIANTS Independent RegisteredUntouched
CHECK_DEADLOCK FALSE
