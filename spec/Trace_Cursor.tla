---------------------------- MODULE Trace_Cursor ----------------------------
(* Code -> spec: histories recorded from real cursors (one ndjson event per public call, logged when the call
   returns) are replayed through Cursor's own actions.  Many independent traces are batched in one file; a
   "begin" event starts a new trace (fresh connection).  An event that no action of the specification explains
   is reported (PrintT of a JSON verdict) and the rest of that trace is skipped, so every trace gets a verdict. *)
EXTENDS Cursor, Json, IOUtils

TraceLog == ndJsonDeserialize(IOEnv.TRACE_FILE)

VARIABLES l, dead, nbad
tvars == <<vars, l, dead, nbad>>

\* ret is always logged as a list of row ids: fetchone None -> [], a row -> [r]
RetOf(o) == IF o.op = "fetchone" THEN (IF o.val = None THEN <<>> ELSE <<o.val>>)
            ELSE IF o.op \in {"execute", "setarraysize"} THEN <<>> ELSE o.val
DescOf(d) == IF d = None THEN <<>> ELSE d

Matches(e) ==      \* evaluated on the primed state: what the code showed when the call returned
    /\ RetOf(out') = e.ret
    /\ pos'[e.c] = e.rownumber
    /\ (IF ~executed'[e.c] THEN -1 ELSE Len(result'[e.c])) = e.rowcount
    /\ arraysize'[e.c] = e.arraysize
    /\ DescOf(desc'[e.c]) = e.desc
    /\ \A d \in Cursors : d # e.c => UNCHANGED <<pos[d], result[d], buf[d]>>

Step(e) ==
    \/ e.op = "execute" /\ ExecuteRec(e.c, [n |-> e.n, cols |-> e.desc])
    \/ e.op = "fetchone" /\ FetchOne(e.c)
    \/ e.op = "fetchmany" /\ FetchMany(e.c, e.arg)
    \/ e.op = "fetchmanydefault" /\ FetchManyDefault(e.c)
    \/ e.op = "fetchall" /\ FetchAll(e.c)
    \/ e.op = "iterate" /\ Iterate(e.c)
    \/ e.op = "setarraysize" /\ SetArraysize(e.c, e.arg)

Good(e) == Step(e) /\ Matches(e)

TInit == Init /\ l = 1 /\ dead = FALSE /\ nbad = 0

Reset ==
    /\ executed' = [c \in Cursors |-> FALSE]
    /\ result' = [c \in Cursors |-> <<>>]
    /\ buf' = [c \in Cursors |-> <<>>]
    /\ pos' = [c \in Cursors |-> 0]
    /\ arraysize' = [c \in Cursors |-> 1]
    /\ desc' = [c \in Cursors |-> None]
    /\ fetched' = [c \in Cursors |-> <<>>]
    /\ out' = [op |-> "init", c |-> 0, arg |-> None, val |-> None]

TNext ==
    /\ l <= Len(TraceLog)
    /\ l' = l + 1
    /\ LET e == TraceLog[l] IN
       IF e.op = "begin" THEN Reset /\ dead' = FALSE /\ UNCHANGED nbad
       ELSE IF dead THEN UNCHANGED <<vars, dead, nbad>>
       ELSE IF ENABLED Good(e) THEN Good(e) /\ UNCHANGED <<dead, nbad>>
       ELSE /\ PrintT(ToJson([verdict |-> "rejected", tid |-> e.tid, line |-> l, op |-> e.op,
                              spec_rownumber |-> pos[e.c], spec_buf |-> buf[e.c]]))
            /\ dead' = TRUE /\ nbad' = nbad + 1 /\ UNCHANGED vars

TSpec == TInit /\ [][TNext]_tvars

\* the declarative invariants of Cursor are evaluated in every state of every recorded history as well
TraceConsumed == TLCGet("stats").diameter - 1 = Len(TraceLog)
=============================================================================
