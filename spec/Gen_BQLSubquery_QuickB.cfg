CONSTANTS
  Tabs <- TabsB
  Restore = FALSE
INIT InitQuick
NEXT GNext
INVARIANT Emit
CHECK_DEADLOCK FALSE
