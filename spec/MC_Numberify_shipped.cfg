\* the mechanism as shipped BEFORE fix e9990d2: a NULL cell in an Inventory column raises.  TLC must violate Total.
CONSTANTS
  Space = "invnull"
  Shapes <- ShapesOf
  FmtChoices <- Fmt0
  DCtx <- DCAB
  Prec = "most_common"
  CurSeq <- CS3
  InvNull = "raise"
  Mut = "none"
INIT Init
NEXT Next
INVARIANTS Total
CHECK_DEADLOCK FALSE
