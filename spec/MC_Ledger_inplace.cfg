\* non-vacuity: the FROM qualifiers are deliberately set on the REGISTERED table instead of a copy (they survive the
\* statement).  TLC must violate HistoryFree.
CONSTANTS
  Alpha <- ConnAlpha
  MaxLen = 1
  Keys <- SmallKeys
  Mech = "updateinplace"
  MaxStmts = 2
  QualOpts <- QConn
INIT Init
NEXT Next
INVARIANTS HistoryFree
CHECK_DEADLOCK FALSE
