\* the mechanism as shipped (truthiness classification): TLC must find  Parse; Execute; Execute  on a statement with
\* two positional placeholders ending in an error although the parameters match
CONSTANTS
  Stmts <- Stmts1
  StmtParams <- Params1
  ManyPairs <- Pairs0
  Data <- DataA
  NumberMode = "shipped"
  MaxCalls = 3
INIT Init
NEXT Next
INVARIANTS ResultInv
CHECK_DEADLOCK FALSE
