CONSTANTS
  Headers <- Empty
  Pool <- Empty
  MaxPostings = 0
  Shapes <- Empty
  DirPool <- Empty
  MaxDirs = 0
  PrintShapes <- Empty
  KnownStrings <- NoStrings
  KnownPats <- NoStrings
  Variant = "shipped"
INIT TInit
NEXT TNext
POSTCONDITION TraceConsumed
CHECK_DEADLOCK FALSE
