------------------------------- MODULE MC_ExprLoops -------------------------------
(* C01: the AND / OR / COALESCE / NOT evaluation loops equal the truth tables of the statement, for every
   operand vector of length 1..4 over {TRUE, FALSE, NULL}. *)
EXTENDS BQLExpr
VARIABLE vec
TVs == {"T", "F", "N"}
Init == vec \in UNION {[1..n -> TVs] : n \in 1..4}
Next == FALSE /\ vec' = vec
NoRow == [x |-> Null]
NoSch == [x |-> "int"]
Args == [i \in 1..Len(vec) |-> Const(TV(vec[i]))]
AndLaw == VT(Eval(AndE(Args), NoRow, NoSch)) = AndTable(vec)
OrLaw == VT(Eval(OrE(Args), NoRow, NoSch)) = OrTable(vec)
NotLaw == \A i \in 1..Len(vec) : VT(Eval(Un("not", Args[i]), NoRow, NoSch)) = NotTable(vec[i])
IsNullLaw == \A i \in 1..Len(vec) :
    /\ Eval(Un("isnull", Args[i]), NoRow, NoSch) = BoolV(vec[i] = "N")
    /\ Eval(Un("isnotnull", Args[i]), NoRow, NoSch) = BoolV(vec[i] # "N")
\* COALESCE returns the first non-NULL operand (FALSE is a value), NULL if there is none
CoalesceLaw ==
    LET v == Eval(Call("coalesce", Args), NoRow, NoSch) IN
    IF \A i \in 1..Len(vec) : vec[i] = "N" THEN v = Null
    ELSE v = TV(vec[CHOOSE i \in 1..Len(vec) : vec[i] # "N" /\ \A j \in 1..(i - 1) : vec[j] = "N"])
\* non-vacuity: a table that treats NULL as FALSE in AND must be refuted
AndWrong == VT(Eval(AndE(Args), NoRow, NoSch)) = (IF \A i \in 1..Len(vec) : vec[i] = "T" THEN "T" ELSE "F")
=============================================================================
