\* exhaustive (thorough): data set A, every template over every depth-2 statement, conforming mechanism
CONSTANTS
  Tabs <- TabsA
  Restore = TRUE
INIT InitAll
NEXT Next
INVARIANTS ResolvesOwnTable StarOwnTable IteratesOwnTable ExecIsDenote StarIdentity MaterialisedForm InIsMembership InWhereIsMembership StackInv DistinctOutputs
CHECK_DEADLOCK FALSE
