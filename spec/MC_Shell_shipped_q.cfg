\* the mechanism as shipped: -q/--no-errors is parsed and never used.  TLC must violate MainQuiet.
CONSTANTS
  Lines <- LinesGen3
  LedgerQueries <- QFixed
  BadStmts <- BadFixed
  Formats <- FormatsShipped
  NonFieldAttrs <- AttrNames
  NameLookup = "fields"
  HonourQuiet = FALSE
  MainQuery = "BALANCES"
  LedgerHasErrors = TRUE
INIT Init
NEXT Next
VIEW MCView
INVARIANTS MainQuiet
CHECK_DEADLOCK FALSE
