\* non-vacuity: one compiler kept per connection -- TLC must find the schedule on which a statement is compiled with
\* the parameters of the other thread
CONSTANTS
  Threads = {1, 2}
  CompilerScope = "per connection"
  ColumnMemo = "none"
  ParserScope = "per call"
  ScanMemo = "none"
  OperandScope = "per call"
  SubqueryColumns = "per table object"
  ResultScope = "per execute call"
  JobSet = "compiler"
INIT Init
NEXT Next
INVARIANTS OwnParameters
CHECK_DEADLOCK FALSE
