\* quick: every ledger of <= 2 postings (pool of 10) x 198 shapes; every directive list of <= 2 (15 directives) x 20 filters
CONSTANTS
  Headers <- HeadersDef
  Pool <- Pool10
  MaxPostings = 2
  Shapes <- ShapesDef
  DirPool <- DirPoolAll
  MaxDirs = 2
  PrintShapes <- PrintShapesDef
  KnownStrings <- KnownStringsDef
  KnownPats <- KnownPatsDef
  Variant = "shipped"
INIT Init
NEXT Stutter
INVARIANT EmitCase
CHECK_DEADLOCK FALSE
