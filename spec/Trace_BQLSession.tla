--------------------------- MODULE Trace_BQLSession ---------------------------
(* Code -> spec for C09.  Random histories (<= 40 calls on one connection, statement objects re-used, interleaved,
   execute / execute(text) / executemany / re-parse) are recorded, one ndjson line per public call, and replayed
   through BQLSession's steps: every logged call is Number ; Bind ; Run for each of its parameter sets on the
   statement object the specification holds (ExecSeq composes NumberOp, BindOp, RunOp -- the operators the actions
   Number, Bind and Run are made of).

     line 1     {"op":"setup","stmts":[{q, swapped, opaque}..],"params":[[..]..],"tabs":{..}}
     "begin"    a new connection with no parsed statement
     "data"     the tables of the statements outside the model have been replaced by tables holding OTHER data on every
                connection: a result is a function of (text, params, data as they are now) -- what has been seen so far
                says nothing about the results from here on
     "parse"    {"s":k}                      statement object k is (re)created from its text
     "execute"  {"s":k,"ps":[i],"res":R,"same":b}     on the shared object       R = {ok,desc,rows} (modelled statement)
     "text"     {"s":k,"ps":[i],...}                  on a private object            = {ok,hash} (opaque statement: a
     "many"     {"s":k,"ps":[i,j,..],...}             parse once, execute each           ledger statement outside the model)
     "fresh"    {"s":k,"ps":[i],...}                  execute(text) on a NEW connection over the same data (no history at
                                                      all: the reference every other execution must agree with)
                {.., "process":"new","order":o}       the same in a NEW process that executes nothing but these references,
                                                      o = "backwards" | "forwards": the order in which it takes the statements
                                                      (two of them that share anything process-wide -- a constant both
                                                      hand to different operators, say -- meet it in either order)
                {.., "literal":text}                  the same on a new connection with the parameter values WRITTEN AS LITERALS
                                                      into the text: what DenoteStmt defines the parametrised result to be
     "fold"     {"folded":V,"perrow":V,"params":V}    a constant expression folded by the compiler / evaluated per row
                                                      from columns / with the constants passed as parameters
   `same` = the source tables / ledger entries compared equal before and after the call.

   For a modelled statement the logged result must be Denote(text, params, data).  For an opaque statement the
   specification only says that the result is a FUNCTION of (text, params): the first result seen for a pair is
   remembered and every later one (any connection, any history) must equal it; never an error when the parameters
   match.  A rejected line is reported and the replay continues from the specification's own successor state. *)
EXTENDS BQLSession, Json, IOUtils

TraceLog == ndJsonDeserialize(IOEnv.TRACE_FILE)
FileStmts == TraceLog[1].stmts
FileParams == TraceLog[1].params
FileTabs == TraceLog[1].tabs

VARIABLES l, nbad, seen
tvars == <<vars, l, nbad, seen>>

(* Number ; Bind ; Run for the parameter sets k.. of ps on a statement object with the given names *)
RECURSIVE ExecSeq(_, _, _, _, _)
ExecSeq(s, names, ps, k, last) ==
    IF k > Len(ps) THEN [names |-> names, res |-> last]
    ELSE LET p == StmtParams[s][ps[k]]
             r == NumberOp(Text(s), names, p)
         IN IF ~r.ok THEN [names |-> names, res |-> ErrorResult]
            ELSE ExecSeq(s, r.names, ps, k + 1,
                         IF Stmts[s].opaque THEN [ok |-> TRUE, desc |-> <<>>, rows |-> <<>>]
                         ELSE RunOp(Text(s), BindOp(r.names, p), data))

TInit == Init /\ l = 2 /\ nbad = 0 /\ seen = EmptyFn

Key(e) == <<e.s, e.ps[Len(e.ps)]>>
Judge(e, out) ==
    CASE e.op \in {"begin", "parse", "data"} -> TRUE
      [] e.op = "fold" -> e.folded = e.perrow /\ e.params = e.folded
      [] OTHER ->
           /\ e.same
           /\ AllMatch(e.s, e.ps) =>
                IF Stmts[e.s].opaque
                THEN /\ out.res.ok /\ e.res.ok
                     /\ (Key(e) \in DOMAIN seen) => seen[Key(e)] = e.res.hash
                ELSE /\ out.res.ok
                     /\ [ok |-> e.res.ok, desc |-> e.res.desc, rows |-> e.res.rows] = out.res

TNext ==
    /\ l <= Len(TraceLog)
    /\ LET e == TraceLog[l]
           call == e.op \in {"execute", "text", "many", "fresh"}
           shared == e.op = "execute"
           out == IF call THEN ExecSeq(e.s, IF shared THEN stmts[e.s].names ELSE FreshNames(Text(e.s)), e.ps, 1, ErrorResult)
                  ELSE [names |-> EmptyFn, res |-> ErrorResult]
           good == Judge(e, out) /\ (shared => stmts[e.s].parsed)
           nb == IF good THEN nbad ELSE nbad + 1
       IN /\ stmts' = CASE e.op = "begin" -> [s \in 1..NStmts |-> [parsed |-> FALSE, names |-> EmptyFn]]
                        [] e.op = "parse" -> [stmts EXCEPT ![e.s] = [parsed |-> TRUE, names |-> FreshNames(Text(e.s))]]
                        [] shared -> [stmts EXCEPT ![e.s].names = out.names]
                        [] OTHER -> stmts
          /\ results' = IF call THEN [n |-> results.n + 1, op |-> e.op, s |-> e.s, ps |-> e.ps, res |-> out.res] ELSE results
          /\ seen' = IF e.op = "data" THEN EmptyFn
                     ELSE IF call /\ Stmts[e.s].opaque /\ AllMatch(e.s, e.ps) /\ e.res.ok /\ Key(e) \notin DOMAIN seen
                     THEN [x \in (DOMAIN seen) \cup {Key(e)} |-> IF x = Key(e) THEN e.res.hash ELSE seen[x]]
                     ELSE seen
          /\ IF good THEN TRUE
             ELSE PrintT(ToJson([verdict |-> "rejected", line |-> l, id |-> e.id, op |-> e.op,
                                 spec |-> out.res, matches |-> (call /\ AllMatch(e.s, e.ps))]))
          /\ nbad' = nb
          /\ IF l < Len(TraceLog) THEN TRUE
             ELSE PrintT(ToJson([verdict |-> "done", lines |-> Len(TraceLog), nbad |-> nb]))
          /\ l' = l + 1
          /\ UNCHANGED <<data, cur, cache>>

TSpec == TInit /\ [][TNext]_tvars
Consumed == TLCGet("stats").diameter - 1 = Len(TraceLog) - 1
=============================================================================
