CONSTANTS
  MaxDepth = 2
  EmitMode = "none"
INIT Init
NEXT Next
INVARIANTS TypeSound StrictNull DivModLaw
CHECK_DEADLOCK FALSE
