\* non-vacuity: every dictionary lookup lower-cases the key typed in the query first ("keys are lower case anyway").
\* Keys that carry an upper-case letter then read as NULL although present, and a missing key whose lower-case twin is
\* present reads as the twin.  TLC must violate LookupsEqDecl.
CONSTANTS
  Alpha <- SmallAlpha
  MaxLen = 2
  Keys <- SmallKeys
  Mech = "foldcase"
  MaxStmts = 1
  QualOpts <- QNone
INIT Init
NEXT Next
INVARIANTS LookupsEqDecl
CHECK_DEADLOCK FALSE
