\* all names of 1..5 components over the five roots and a 3-name alphabet (605); pairs over names of <= 3 components
CONSTANTS
  Names = {"A", "Bb", "C1"}
  MaxComps = 5
  SignTypes = "connection"
  PairComps = 3
INIT Init
NEXT Next
INVARIANTS DecomposeInv SortKeyInv PosSignInv TypesInv MechInv TypesSortInv
CHECK_DEADLOCK FALSE
