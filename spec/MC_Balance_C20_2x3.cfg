\* C20, exhaustive: 2 threads x 3 rows, every interleaving of the per-row steps, property-conforming cache
CONSTANTS
  Threads = {1, 2}
  CacheMode = "per row context"
  Split = FALSE
  Programs <- Progs20_3rows
INIT Init
NEXT Next
INVARIANTS TypeOK SerialInv ConsultedInv
PROPERTIES NonInterference NoSharedState ProgConstant
CHECK_DEADLOCK FALSE
