\* quick: spines of depth <= 2 with all operators in every slot, depth 3 with class representatives as a target
CONSTANTS
  Variant = "ok"
  MaxDepth = 2
  FullDepth = 2
  CtxDepth = 1
  StmtFull = FALSE
INIT InitSpine
NEXT NextSpine
INVARIANTS WellFormed RoundTrip Minimal NoSpareParens
CHECK_DEADLOCK FALSE
