\* deeper: every ledger of <= 4 directives over the 10-letter alphabet of repeated open / close / commodity directives
CONSTANTS
  Alpha <- DupAlpha
  MaxLen = 4
  Keys <- SmallKeys
  Mech = "ok"
  MaxStmts = 1
  QualOpts <- QNone
INIT Init
NEXT Next
INVARIANTS TypeOK MechEqDecl LookupsEqDecl RowidInv Laws
CHECK_DEADLOCK FALSE
