CONSTANTS
  NCursors = 1
  Queries <- QGen
  FetchSizes <- Sizes13
  ArraySizes <- AS2
  RowCountFrom = "result"
  IterMayConsume = FALSE
  None = None
  Depth = 0
INIT DInit
NEXT DNext
INVARIANT EmitDesc
CHECK_DEADLOCK FALSE
