CONSTANTS
  MaxRows = 3
  QuerySet = "order"
  EmitMode = "cases"
  TableStride = 8
  Variant = "ok"
INIT Init
NEXT Next
INVARIANTS CompileIffValid SteppedIsExec ScanLaw GroupLaw Additivity HavingLaw SortLaw PhaseOrderLaw DistinctLaw PivotLaw Emit EmitTable
PROPERTIES ScanPrefix GroupIsolation
CHECK_DEADLOCK FALSE
