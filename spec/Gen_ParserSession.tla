-------------------------- MODULE Gen_ParserSession --------------------------
(* Spec -> code for ParserSession: simulated sessions (call sequences on two connections over two or three of the
   statement texts of the table, so that the same text recurs) with what every parsing call has to return.
   One JSON line per complete session. *)
EXTENDS MC_ParserSession, Json

VARIABLE pool          \* the texts this session uses
gvars == <<heap, memo, hist, pool>>
GInit == SInit /\ pool \in {s \in SUBSET (1..NT) : Cardinality(s) \in {2, 3}}
GNext == /\ \E t \in pool : \/ ParseCall(t)
                            \/ \E c \in Conns : ConnParse(c, t) \/ Execute(c, t)
         /\ UNCHANGED pool
EmitSession == (Len(hist) = MaxOps) => PrintT(ToJson([texts |-> Texts, pool |-> pool, calls |-> hist]))
=============================================================================
