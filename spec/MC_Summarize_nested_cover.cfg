\* coverage run for the nested statements: the steps of the subquery and of the WHERE clause must be taken
CONSTANTS
  Base <- MCBase
  KeyTab <- MCKeyTab
  CurSeq <- MCCurSeq
  Special <- MCSpecial
  Ledgers = {}
  OpenArgs <- Open03
  CloseArgs <- Close04
  ClearArgs = {TRUE, FALSE}
  Filters <- FNone
  Order <- OrderStated
  CompileMode = "stated"
  Inners <- InnersCover
  ScopeMode = "stated"
  Doors <- DoorsApi
  HookMode = "stated"
INIT InitNested
NEXT Next
INVARIANTS KeepInv BalanceSheetInv IncomeInv EquityInv TxBalanceInv LayoutInv FilterInv CompileInv SortedInv ExpectInv ScopeInv
CHECK_DEADLOCK FALSE
