------------------------- MODULE NumberifySession -------------------------
(* The shell as a caller of numberify over a SESSION (history on one shell object).

   The property is stated per result: cells are "quantized to the currency's display precision when a formatter is
   given".  The shell gives the formatter itself; the display precisions are those of the ledger it has LOADED,
   which a session replaces: the file on disk is edited (the same currencies written with other numbers of digits,
   new currencies) and `.reload` attaches it anew.  Declaratively: the formatter given to the numberification of a
   statement has the display precisions (FormatterQ, Numberify.tla) of the ledger loaded WHEN THE STATEMENT RUNS.

   Mechanism: where the shell builds that formatter.
     Build = "per statement"   on_Select builds it from options['dcontext'] for every statement (the code)
     Build = "per load"        built at the first numberified statement after a (re)load, dropped by the reload
     Build = "once per shell"  built at the first numberified statement and kept (non-vacuity: must violate)
   The conformance legs (c17.py, s2c_shell_session) drive such sessions on a real BQLShell: every statement's
   output is judged against what Gen_Numberify emits for (table, FormatterQ of the ledger then loaded). *)
EXTENDS Numberify

CONSTANTS Ledgers,    \* the display contexts the file on disk can have: Seq(Seq(<<currency, most common, maximum>>))
          Build,
          MaxStmts

VARIABLES disk,       \* index in Ledgers of what the file holds
          loaded,     \* index in Ledgers of what the shell has attached
          cached,     \* the formatter (its display precisions) the shell keeps, <<>> = none
          given,      \* last numberified statement: <<display precisions given to numberify, ledger loaded then>>, <<>> = none yet
          nst
svars == <<disk, loaded, cached, given, nst>>

SessLedgers == << << <<"AAA", 0, 0>>, <<"BBB", 1, 1>>, <<"CCC", 2, 2>> >>,
                  << <<"AAA", 1, 1>>, <<"BBB", 0, 0>>, <<"CCC", 0, 0>> >>,
                  << <<"AAA", 0, 0>>, <<"BBB", 1, 1>>, <<"CCC", 2, 2>>, <<"DDD", 3, 3>> >> >>
NoDCtx == <<>>

SInit ==
    /\ disk = 1 /\ loaded = 1 /\ cached = <<>> /\ given = <<>> /\ nst = 0
    /\ gen = 0 /\ tbl = 0 /\ fmt = 0 /\ pc = "session" /\ ci = 0 /\ ri = 0 /\ cmap = 0 /\ convs = 0 /\ orows = 0 /\ err = 0

(* the user edits the ledger file *)
Edit(k) ==
    /\ k # disk
    /\ disk' = k
    /\ UNCHANGED <<loaded, cached, given, nst>>

(* `.reload`: options.clear() + attach() *)
Reload ==
    /\ loaded' = disk
    /\ cached' = IF Build = "per load" THEN <<>> ELSE cached
    /\ UNCHANGED <<disk, given, nst>>

(* a SELECT with the numberify setting off / on *)
Statement(nfy) ==
    /\ nst < MaxStmts
    /\ nst' = nst + 1
    /\ IF nfy = 0 THEN UNCHANGED <<cached, given>>
       ELSE LET fresh == FormatterQ(Ledgers[loaded], "most_common")
                q == IF Build = "per statement" \/ cached = <<>> THEN fresh ELSE cached
            IN /\ given' = <<q, loaded>>
               /\ cached' = IF Build = "per statement" THEN <<>> ELSE q
    /\ UNCHANGED <<disk, loaded>>

SNext ==
    /\ \/ \E k \in DOMAIN Ledgers : Edit(k)
       \/ Reload
       \/ \E nfy \in {0, 1} : Statement(nfy)
    /\ UNCHANGED vars

(* the property of the session *)
FormatterOfLoadedLedger ==
    given # <<>> => given[1] = FormatterQ(Ledgers[given[2]], "most_common")
(* ... observably: some currency would be quantised to another number of digits *)
StalePrecisionVisible ==
    given # <<>> => \A c \in {"AAA", "BBB", "CCC", "DDD"} :
        QOf(given[1], c) = QOf(FormatterQ(Ledgers[given[2]], "most_common"), c)
=============================================================================
