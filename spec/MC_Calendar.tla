---------------------------- MODULE MC_Calendar ----------------------------
(* MC leg of C18 (calendar half): the state enumerates every date of [Lo, Hi] (parallel chains of ChainLen days,
   one action per day); the laws of the statement are invariants over the current date d (and its successor).

   BinImpl selects the date_bin mechanism: "spec" = Calendar!DateBin (closed form), "walk" = the walk the code
   performs (MC_Calendar_walk.cfg: it must satisfy the same laws), "shipped" = the walk before repair 5c4d63a,
   `n >= source` (non-vacuity configuration: TLC must violate BinInv on it).                                *)
EXTENDS Calendar, FiniteSets

CONSTANTS Lo, Hi, Step, ChainLen, BinImpl, BinFull

VARIABLE d
vars == <<d>>

Starts == {Lo + k * ChainLen : k \in 0..((Hi - Lo) \div ChainLen)}
Init == d \in Starts
Advance == /\ d + Step <= Hi
           /\ ((d - Lo) % ChainLen) + Step < ChainLen
           /\ d' = d + Step
Next == Advance
Spec == Init /\ [][Next]_vars

(* ---- the calendar itself ---------------------------------------------------------------------------- *)
CivilInv ==
  LET c == Civil(d)
      n == Civil(d + 1) IN
  /\ ValidYMD(c.y, c.m, c.d)
  /\ Ord(c.y, c.m, c.d) = d
  \* the next ordinal is the next civil day
  /\ IF c.d < DaysInMonth(c.y, c.m) THEN n = [y |-> c.y, m |-> c.m, d |-> c.d + 1]
     ELSE IF c.m < 12 THEN n = [y |-> c.y, m |-> c.m + 1, d |-> 1]
     ELSE n = [y |-> c.y + 1, m |-> 1, d |-> 1]
  /\ Weekday(d + 1) = (Weekday(d) + 1) % 7
  /\ DateFromYMD(c.y, c.m, c.d) = <<d>>
  /\ DateFromYMD(c.y, c.m, DaysInMonth(c.y, c.m) + 1) = <<>>
  /\ DateFromYMD(c.y, 13, c.d) = <<>> /\ DateFromYMD(c.y, 0, c.d) = <<>> /\ DateFromYMD(c.y, c.m, 0) = <<>>
Anchors ==           \* fixed points of the civil calendar (documented examples)
  /\ Ord(1, 1, 1) = 1 /\ Ord(1970, 1, 1) = EpochOrd /\ Ord(2020, 1, 1) = 737425 /\ Ord(9999, 12, 31) = MaxOrd
  /\ Weekday(Ord(2020, 1, 1)) = 2          \* a Wednesday
  /\ IsLeap(2000) /\ ~IsLeap(1900) /\ ~IsLeap(2100) /\ IsLeap(2024)
  /\ IsoWeek(Ord(2021, 1, 3)) = 53 /\ IsoYear(Ord(2021, 1, 3)) = 2020
  /\ IsoWeek(Ord(2018, 12, 31)) = 1 /\ IsoYear(Ord(2018, 12, 31)) = 2019
  /\ DateStr(Ord(2020, 2, 9)) = "2020-02-09" /\ QuarterName(Ord(1999, 12, 31)) = "1999-Q4"

(* ---- date_trunc: first day of d's unit, hence not after d, idempotent, monotone ---------------------- *)
TruncInv ==
  \A u \in TruncUnitSet :
    LET t == DateTrunc(u, d) IN
    /\ t <= d                                               \* not after d
    /\ UnitIndex(u, t) = UnitIndex(u, d)                    \* in d's unit ...
    /\ UnitIndex(u, t - 1) # UnitIndex(u, d)                \* ... and the first day of it
    /\ UnitIndex(u, d) <= UnitIndex(u, d + 1)               \* (units are consecutive runs of days)
    /\ UnitIndex(u, d + 1) <= UnitIndex(u, d) + 1
    /\ DateTrunc(u, t) = t                                  \* idempotent
    /\ t <= DateTrunc(u, d + 1)                             \* monotone
    /\ DateTrunc(u, d + 1) \in {t, d + 1}
\* coarser units contain finer ones
NestInv ==
  /\ DateTrunc("millennium", d) <= DateTrunc("century", d)
  /\ DateTrunc("century", d) <= DateTrunc("year", d)
  /\ DateTrunc("decade", d) <= DateTrunc("year", d)
  /\ DateTrunc("year", d) <= DateTrunc("quarter", d)
  /\ DateTrunc("quarter", d) <= DateTrunc("month", d)
  /\ DateTrunc("month", d) <= d

(* ---- year / month / day / quarter / weekday / date_part agree with the truncation --------------------- *)
PartInv ==
  LET c == Civil(d) IN
  /\ Year(d) = c.y /\ Month(d) = c.m /\ Day(d) = c.d
  /\ YearMonth(d) = DateTrunc("month", d)
  /\ Day(DateTrunc("month", d)) = 1
  /\ d - DateTrunc("month", d) = Day(d) - 1
  /\ Month(DateTrunc("quarter", d)) = 3 * (DatePart("quarter", d) - 1) + 1
  /\ Month(DateTrunc("year", d)) = 1 /\ Day(DateTrunc("year", d)) = 1
  /\ \A f \in {"month", "quarter", "year", "decade", "century", "millennium", "week", "isoyear"} :
       \* a part that names the unit is constant on the unit and changes at its start
       LET u == IF f = "isoyear" THEN "week" ELSE f IN
       /\ DatePart(f, DateTrunc(u, d)) = DatePart(f, d)
       /\ (f \notin {"isoyear", "month", "quarter", "week"}) =>
             DatePart(f, DateTrunc(u, d) - 1) = DatePart(f, d) - 1
  /\ DatePart("month", d) = Month(d) /\ DatePart("year", d) = Year(d)
  /\ DatePart("quarter", d) \in 1..4 /\ DatePart("quarter", d) = (Month(d) + 2) \div 3
  /\ QuarterName(d) = ToString(Year(d)) \o "-Q" \o ToString(DatePart("quarter", d))
  /\ DatePart("decade", d) * 10 <= Year(d) /\ Year(d) <= DatePart("decade", d) * 10 + 9
  /\ (DatePart("century", d) - 1) * 100 + 1 <= Year(d) /\ Year(d) <= DatePart("century", d) * 100
  /\ (DatePart("millennium", d) - 1) * 1000 + 1 <= Year(d) /\ Year(d) <= DatePart("millennium", d) * 1000
  /\ Year(DateTrunc("century", d)) % 100 = 1 /\ Year(DateTrunc("millennium", d)) % 1000 = 1
  /\ Year(DateTrunc("decade", d)) % 10 = 0
  \* weekdays
  /\ DatePart("dow", d) = DatePart("weekday", d) /\ DatePart("isodow", d) = DatePart("isoweekday", d)
  /\ DatePart("isodow", d) = DatePart("dow", d) + 1 /\ DatePart("dow", d) \in 0..6
  /\ DatePart("dow", d) = d - DateTrunc("week", d)
  /\ DatePart("dow", DateTrunc("week", d)) = 0
  /\ WeekdayName(d) = WeekdayNames[DatePart("isodow", d)]
  \* ISO weeks: 1..53, constant on Monday..Sunday, the week of January 4th is week 1 of its year, the ISO year
  \* is the civil year of the week's Thursday, weeks count up by one
  /\ DatePart("week", d) \in 1..53
  /\ DatePart("isoyear", d) = Year(DateTrunc("week", d) + 3)
  /\ DatePart("week", Ord(c.y, 1, 4)) = 1 /\ DatePart("isoyear", Ord(c.y, 1, 4)) = c.y
  /\ LET mon == DateTrunc("week", d) IN
     \/ DatePart("week", mon + 7) = DatePart("week", mon) + 1 /\ DatePart("isoyear", mon + 7) = DatePart("isoyear", mon)
     \/ DatePart("week", mon + 7) = 1 /\ DatePart("isoyear", mon + 7) = DatePart("isoyear", mon) + 1
                                      /\ DatePart("week", mon) \in {52, 53}
  /\ EpochRepresentable(d) => DatePart("epoch", d) = DateDiff(d, Ord(1970, 1, 1)) * 86400
  \* str(date) / date(y, m, d) round trip
  /\ DateStr(d) = Pad4(c.y) \o "-" \o Pad2(c.m) \o "-" \o Pad2(c.d) /\ Len(DateStr(d)) = 10

(* ---- date_add, date_diff and date +/- integer are mutually inverse ------------------------------------ *)
Offsets == {-36525, -366, -31, -1, 0, 1, 28, 365, 40000}
AddDiffInv ==
  \A n \in Offsets :
    /\ DateDiff(DateAdd(d, n), d) = n
    /\ DateAdd(d, DateDiff(d + n, d)) = d + n
    /\ DateAdd(DateAdd(d, n), -n) = d
    /\ DateDiff(d, DateAdd(d, n)) = -n
    /\ DateAdd(d, n) - n = d /\ (d + n) - d = n /\ d - (d - n) = n

(* ---- interval arithmetic = calendar arithmetic with month-end clipping -------------------------------- *)
MonthShifts == {-25, -12, -2, -1, 0, 1, 2, 11, 12, 13, 48}
IvalInv ==
  /\ \A k \in MonthShifts :
       LET r == AddIval(d, Ival(k, "month"))
           c == Civil(d)
           rc == Civil(r) IN
       /\ MonthIndex(r) = MonthIndex(d) + k                               \* lands in the k-th next month
       /\ rc.d = Min2(c.d, DaysInMonth(rc.y, rc.m))                       \* same day, clipped to the month end
       /\ SubIval(d, Ival(-k, "month")) = r
       /\ (c.d <= 28) => SubIval(r, Ival(k, "month")) = d                 \* inverse where nothing is clipped
       /\ AddIval(d, Ival(k, "month")) <= AddIval(d + 1, Ival(k, "month")) \* monotone
       /\ (k % 12 = 0) => AddIval(d, Ival(k \div 12, "year")) = r         \* a year is twelve months
       /\ AddIval(d, IvalSum(Ival(k, "month"), Ival(3, "day"))) = r + 3   \* months first, then days
  /\ \A n \in Offsets : AddIval(d, Ival(n, "day")) = DateAdd(d, n) /\ SubIval(d, Ival(n, "day")) = DateAdd(d, -n)
  /\ \A y \in {-4, -1, 1, 4, 100} :
       LET r == AddIval(d, Ival(y, "year")) IN
       /\ Year(r) = Year(d) + y /\ Month(r) = Month(d)
       /\ Day(r) = IF Month(d) = 2 /\ Day(d) = 29 /\ ~IsLeap(Year(d) + y) THEN 28 ELSE Day(d)

(* ---- date_bin: start of the stride-aligned bin containing the date ------------------------------------ *)
Bin(iv, src, origin) == CASE BinImpl = "shipped" -> DateBinShipped(iv, src, origin)
                          [] BinImpl = "walk"    -> DateBinWalk(iv, src, origin)
                          [] OTHER               -> DateBin(iv, src, origin)
StridesFull == {Ival(1, "day"), Ival(2, "day"), Ival(7, "day"), Ival(30, "day"),
                Ival(1, "month"), Ival(2, "month"), Ival(3, "month"), Ival(5, "month"), Ival(12, "month"),
                Ival(1, "year"), Ival(3, "year")}
OriginsFull == {d, d + 1, d - 1, d - 45, d + 45, DateTrunc("year", d), DateTrunc("month", d), DateTrunc("month", d) + 14,
                AddIval(DateTrunc("month", d), Ival(6, "month")), AddIval(DateTrunc("month", d), Ival(-6, "month")),
                AddIval(d, Ival(-1, "year")), AddIval(d, Ival(2, "year")),
                DateTrunc("decade", d) + 27}
\* BinFull = FALSE: a lighter set per date so that every date of the range can be visited
Strides == IF BinFull THEN StridesFull
           ELSE {Ival(1, "day"), Ival(7, "day"), Ival(1, "month"), Ival(3, "month"), Ival(1, "year")}
Origins == IF BinFull THEN OriginsFull
           ELSE {d + 1, d - 45, DateTrunc("year", d), DateTrunc("month", d) + 14,
                 AddIval(DateTrunc("month", d), Ival(-6, "month"))}
BinInv ==
  \A iv \in Strides : \A o \in Origins :
    BinDomain(iv, o) =>
      LET b == Bin(iv, d, o) IN
      /\ BinLaw(b, iv, d, o)
      /\ Bin(iv, b, o) = b                         \* a bin start is its own bin
      /\ b <= Bin(iv, d + 1, o)                    \* monotone in the source
      /\ Bin(iv, d, b) = b                         \* re-anchoring at a boundary does not move the bins

\* the mechanisms: the walk the code performs equals the closed form; the pre-repair walk is exactly the named deviation
WalkInv ==
  \A iv \in Strides : \A o \in Origins :
    BinDomain(iv, o) =>
      /\ DateBinWalk(iv, d, o) = DateBin(iv, d, o)
      /\ DateBinShipped(iv, d, o) =
           IF OnBoundaryAfterOrigin(iv, d, o) THEN PrevBin(iv, d, o) ELSE DateBin(iv, d, o)
=============================================================================
