---------------------------- MODULE Trace_Balance ----------------------------
(* Code -> spec for C12 and C20.  One ndjson file holds many independent cases; line kinds (field k):

   begin   {id, progs}      a concurrent run starts: thread t executes progs[t] (abstract programs of Balance)
   grant   {id, t}          the scheduler granted thread t the turn: t runs -- with the ACTIONS of Balance, several TLC
                            steps per line -- until it passes a pause point or finishes
   end     {id, rows}       all threads have finished; rows[t] = what thread t's query returned
   serial  {id, prog, rows, sv, lim} a query run alone: rows must be SerialRows(prog), the IN-subquery values
                            SubResult(prog); lim > 0: the statement carried LIMIT lim -- the first lim of those rows
   hom     {id, f, sc, pos, fpos, sum_pos, sum_f, f_sum, groups, op, prices, lim, lgroups, lastb}
                            one aggregate query family: per-row positions and f(position), sum(position),
                            sum(f(position)), f(sum(position)), per-group sums; judged with the Inventory operators;
                            lim > 0: lgroups = what the grouped statement returned with LIMIT lim (no ORDER BY): that
                            many of the groups (which ones is not C12's business), each with the sums of ALL its rows;
                            lastb = last(balance) of the ungrouped statement.  The selection (pos) may be made by a FROM
                            clause with OPEN ON / CLOSE / CLEAR: the rows are then read on a connection without history,
                            the sums on one with a history of statements (which postings the clause leaves: C13)

   A line the specification does not explain is reported as a JSON verdict and the run goes on (total verdicts);
   the last step prints a "consumed" verdict with the number of lines read, which the driver requires. *)
EXTENDS Balance, Json, IOUtils

TraceLog == ndJsonDeserialize(IOEnv.TRACE_FILE)

VARIABLES l, turn, dead, nbad
tvars == <<vars, l, turn, dead, nbad>>

PEmpty == [ledger |-> <<>>, mask |-> <<>>, where |-> <<>>, targets |-> <<>>, subbal |-> FALSE, agg |-> FALSE]
TInit == InitWith([t \in Threads |-> PEmpty]) /\ l = 1 /\ turn = 0 /\ dead = TRUE /\ nbad = 0

Begin(e) ==
    /\ prog' = [t \in Threads |-> IF t <= Len(e.progs) THEN e.progs[t] ELSE PEmpty]
    /\ ctx' = [t \in Threads |-> Ctx0]
    /\ pc' = [t \in Threads |-> IF t <= Len(e.progs) THEN Pc("next", 0) ELSE Pc("done", 0)]
    /\ cur' = [t \in Threads |-> <<>>]
    /\ out' = [t \in Threads |-> <<>>]
    /\ subdone' = [t \in Threads |-> {}]
    /\ cache' = NoEntry
    /\ consulted' = [t \in Threads |-> {}]

(* observed rows  [[rowid, [inventory as a list of positions, ...]], ...]  against rows of the specification *)
RowsMatch(rows, obs) ==
    /\ Len(obs) = Len(rows)
    /\ \A n \in 1..Len(rows) :
         /\ obs[n][1] = rows[n].rowid
         /\ Len(obs[n][2]) = Len(rows[n].vals)
         /\ \A j \in 1..Len(rows[n].vals) : InvOfSeq(obs[n][2][j]) = rows[n].vals[j]
FirstBad(rows, obs) ==
    IF Len(obs) # Len(rows) THEN 0
    ELSE LET B == {n \in 1..Len(rows) : ~RowsMatch(<<rows[n]>>, <<obs[n]>>)}
         IN IF B = {} THEN 0 ELSE CHOOSE n \in B : \A m \in B : n <= m

(* the values of the IN-subquery targets: [[rowid, [0 | 1 | 2 (NULL: the subquery returned nothing), ...]], ...] *)
SvalsOK(P, sv) ==
    LET R == SubResult(P) IN
    \A n \in 1..Len(sv) : \A j \in 1..Len(sv[n][2]) :
        sv[n][2][j] = (IF R = {} THEN 2 ELSE IF sv[n][1] \in R THEN 1 ELSE 0)

Reject(e, why, t, n) ==
    PrintT(ToJson([verdict |-> "rejected", id |-> e.id, line |-> l, kind |-> e.k, why |-> why, thread |-> t, row |-> n,
                   mode |-> CacheMode]))

Range(s) == {s[i] : i \in 1..Len(s)}
(* the clauses of a hom line, numbered for the report *)
HomClauses(e) ==
    LET pr == Range(e.prices)
        total == SumSeq(e.pos)
        ftotal == SumSeq(e.fpos)
        RECURSIVE AddUp(_, _)
        AddUp(gs, which) == IF gs = <<>> THEN EmptyInv
                            ELSE Add(AddUp(SubSeq(gs, 1, Len(gs) - 1), which), InvOfSeq(gs[Len(gs)][which]))
    IN << Len(e.pos) = Len(e.fpos),
          InvOfSeq(e.sum_pos) = total,                 \* sum(position) is the inventory sum of the rows
          InvOfSeq(e.sum_f) = ftotal,                  \* sum(f(position)) is the inventory sum of the per-row results
          InvOfSeq(e.f_sum) = InvOfSeq(e.sum_f),       \* f(sum(position)) = sum(f(position))
          e.op = 0 \/ \A i \in 1..Len(e.pos) : e.fpos[i] = ApplyP(e.f, e.pos[i], pr, e.sc),
          e.op = 0 \/ InvOfSeq(e.f_sum) = ApplyI(e.f, total, pr, e.sc),
          \A g \in 1..Len(e.groups) :                  \* every group: its own sums
              /\ InvOfSeq(e.groups[g][2]) = SumIdx(e.pos, Range(e.groups[g][1]))
              /\ InvOfSeq(e.groups[g][3]) = SumIdx(e.fpos, Range(e.groups[g][1]))
              /\ InvOfSeq(e.groups[g][4]) = InvOfSeq(e.groups[g][3]),
          e.groups = <<>> \/ (AddUp(e.groups, 2) = total /\ AddUp(e.groups, 3) = ftotal),  \* partition additivity
          e.lim = 0 \/                                 \* LIMIT: that many groups, distinct, each one complete
              /\ Len(e.lgroups) = (IF e.lim <= Len(e.groups) THEN e.lim ELSE Len(e.groups))
              /\ \A g \in 1..Len(e.lgroups) :
                    /\ \E h \in 1..Len(e.groups) : Range(e.groups[h][1]) = Range(e.lgroups[g][1])
                    /\ \A h \in 1..Len(e.lgroups) : h # g => Range(e.lgroups[h][1]) # Range(e.lgroups[g][1])
                    /\ InvOfSeq(e.lgroups[g][2]) = SumIdx(e.pos, Range(e.lgroups[g][1]))
                    /\ InvOfSeq(e.lgroups[g][3]) = SumIdx(e.fpos, Range(e.lgroups[g][1]))
                    /\ InvOfSeq(e.lgroups[g][4]) = InvOfSeq(e.lgroups[g][3]),
          \* "... so the last balance equals sum(position) of the same selection" (last(balance) of the ungrouped statement)
          e.pos = <<>> \/ InvOfSeq(e.lastb) = total
       >>
FirstFalse(cl) == LET B == {i \in 1..Len(cl) : ~cl[i]} IN IF B = {} THEN 0 ELSE CHOOSE i \in B : \A j \in B : i <= j

Stay == UNCHANGED <<vars, turn>>
TNext ==
    IF l = Len(TraceLog) + 1
    THEN /\ PrintT(ToJson([verdict |-> "consumed", lines |-> l - 1, bad |-> nbad, mode |-> CacheMode]))
         /\ l' = l + 1 /\ UNCHANGED <<vars, turn, dead, nbad>>
    ELSE
    /\ l <= Len(TraceLog)
    /\ LET e == TraceLog[l] IN
       CASE e.k = "begin" ->
              Begin(e) /\ l' = l + 1 /\ turn' = 0 /\ dead' = FALSE /\ UNCHANGED nbad
         [] e.k = "grant" ->
              IF dead THEN l' = l + 1 /\ Stay /\ UNCHANGED <<dead, nbad>>
              ELSE IF turn = 0
              THEN IF e.t \notin Threads \/ Done(e.t)
                   THEN /\ Reject(e, "turn granted to a thread the specification has finished", e.t, 0)
                        /\ l' = l + 1 /\ dead' = TRUE /\ nbad' = nbad + 1 /\ Stay
                   ELSE turn' = e.t /\ UNCHANGED <<vars, l, dead, nbad>>
              ELSE /\ Step(turn)
                   /\ IF YieldStep(turn) \/ pc'[turn].ph = "done"
                      THEN turn' = 0 /\ l' = l + 1
                      ELSE UNCHANGED <<turn, l>>
                   /\ UNCHANGED <<dead, nbad>>
         [] e.k = "end" ->
              IF dead THEN l' = l + 1 /\ Stay /\ UNCHANGED <<dead, nbad>>
              ELSE LET n == Len(e.rows)
                       late == {t \in Threads : ~Done(t)}
                       bad == {t \in 1..n : ~RowsMatch(out[t], e.rows[t])}
                   IN /\ l' = l + 1 /\ dead' = TRUE /\ Stay
                      /\ IF late # {}
                         THEN /\ Reject(e, "the run ended but the specification's thread still has steps", CHOOSE t \in late : TRUE, 0)
                              /\ nbad' = nbad + 1
                         ELSE IF bad # {}
                         THEN /\ LET t == CHOOSE t \in bad : \A u \in bad : t <= u
                                 IN Reject(e, "rows differ from the specification", t, FirstBad(out[t], e.rows[t]))
                              /\ nbad' = nbad + 1
                         ELSE UNCHANGED nbad
         [] e.k = "serial" ->
              LET all == SerialRows(e.prog)
                  rows == IF e.lim = 0 \/ e.lim >= Len(all) THEN all ELSE SubSeq(all, 1, e.lim)
              IN /\ l' = l + 1 /\ Stay /\ UNCHANGED dead
                 /\ IF ~RowsMatch(rows, e.rows)
                    THEN Reject(e, "rows differ from SerialRows", 1, FirstBad(rows, e.rows)) /\ nbad' = nbad + 1
                    ELSE IF ~SvalsOK(e.prog, e.sv)
                    THEN Reject(e, "IN-subquery values differ from SubResult", 1, 0) /\ nbad' = nbad + 1
                    ELSE UNCHANGED nbad
         [] e.k = "hom" ->
              LET bad == FirstFalse(HomClauses(e))
              IN /\ l' = l + 1 /\ Stay /\ UNCHANGED dead
                 /\ IF bad = 0 THEN UNCHANGED nbad
                    ELSE Reject(e, "law", 0, bad) /\ nbad' = nbad + 1

TSpec == TInit /\ [][TNext]_tvars
(* the invariants of Balance hold in every state of every replayed run as well (cfg) *)
=============================================================================
