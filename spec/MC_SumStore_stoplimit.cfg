\* non-vacuity: a scan that ends when group number LIMIT + 1 shows up must be rejected (GROUP BY g LIMIT 1 over g = 1, 2, 1)
CONSTANTS
  Mode = "stop at limit"
  Scale = 1
  MaxRows = 3
  HistLen = 1
  Rich = FALSE
  RichCells = FALSE
  Limits = {1}
  Prices <- MCPrices
INIT InitLimit
NEXT SNext
INVARIANTS ResultInv
CHECK_DEADLOCK FALSE
