\* thorough, second run: the quick ledgers with all seven filter expressions
CONSTANTS
  Base <- MCBase
  KeyTab <- MCKeyTab
  CurSeq <- MCCurSeq
  Special <- MCSpecial
  Ledgers = {}
  OpenArgs <- Open05
  CloseArgs <- Close05
  ClearArgs = {TRUE, FALSE}
  Filters <- FAll
  Order <- OrderStated
  CompileMode = "stated"
  Inners <- InnersNone
  ScopeMode = "stated"
  Doors <- DoorsApi
  HookMode = "stated"
INIT InitQuick
NEXT Next
INVARIANTS KeepInv BalanceSheetInv IncomeInv EquityInv TxBalanceInv LayoutInv FilterInv CompileInv SortedInv ExpectInv
CHECK_DEADLOCK FALSE
