----------------------------- MODULE MC_Balance -----------------------------
(* Model-checking instances of Balance: the program spaces of C12 (one thread) and C20 (2-3 threads). *)
EXTENDS Balance, Json

CONSTANTS Programs     \* the set of programs a thread may run: [Threads -> Programs] are the initial states

D1 == 737434   \* 2020-01-10
D2 == 737444
C1 == <<10, "USD", D1, "">>
C2 == <<12, "USD", D2, "">>
pU == Pos("USD", NoCost, 1)
pH == Pos("HOOL", C1, 2)
pR == Pos("HOOL", C1, -2)      \* a sale reducing the lot
pK == Pos("HOOL", C2, 1)

Prg(ledger, mask, where, targets, subbal, agg) ==
    [ledger |-> ledger, mask |-> mask, where |-> where, targets |-> targets, subbal |-> subbal, agg |-> agg]
SeqsUpTo(n, S) == UNION { [1..k -> S] : k \in 0..n }
Has(s, a) == \E j \in 1..Len(s) : s[j] = a
AllTrue(n) == [i \in 1..n |-> TRUE]

(* ---- C12: every ledger of up to MaxRows postings x selection x conjuncts x 0..3 references x interposed scan *)
Wheres12 == { <<>>, <<"M">>, <<"BT", "M">>, <<"M", "BT">>, <<"M", "BN">>, <<"BN">>, <<"BN", "M">>, <<"S", "M">> }
Targets12 == { <<>>, <<"B">>, <<"B", "B">>, <<"B", "S", "B">>, <<"S", "B", "B">>, <<"B", "B", "B">>,
               <<"B", "S", "B", "B">>, <<"B", "S", "S", "B">> }
ProgsC12(maxrows) ==
    { Prg(l, m, w, tg, sb, FALSE) :
        l \in SeqsUpTo(maxrows, {pU, pH, pR}), m \in SeqsUpTo(maxrows, BOOLEAN),
        w \in Wheres12, tg \in Targets12, sb \in BOOLEAN }
Canon(P) ==      \* one representative per behaviourally different program
    /\ Len(P.mask) = Len(P.ledger)
    /\ (Has(P.where, "M") \/ (P.subbal = FALSE /\ Has(P.where \o P.targets, "S"))) \/ P.mask = AllTrue(Len(P.ledger))
    /\ Has(P.where \o P.targets, "S") \/ P.subbal = TRUE
AggC12(maxrows) ==
    { Prg(l, m, w, <<"A">>, TRUE, TRUE) :
        l \in SeqsUpTo(maxrows, {pU, pH, pR}), m \in SeqsUpTo(maxrows, BOOLEAN), w \in {<<>>, <<"M">>, <<"BN", "M">>} }
Progs12_3 == {P \in ProgsC12(3) \cup AggC12(3) : Canon(P)}
Progs12_2 == {P \in ProgsC12(2) \cup AggC12(2) : Canon(P)}
(* the counterexample family only: enough for the run on the mechanism as shipped *)
Progs12_shipped == {P \in ProgsC12(2) : Canon(P) /\ P.where = <<>>}

(* ---- C12: balance as an operand of an enclosing expression whose other operand is NULL (decides) on some rows:
   every ledger x row filter x NULL pattern of the other operand x conjuncts x target lists.  The sets hide behind
   operators with parameters and INIT predicates: they are not built at the startup of the other configurations. *)
PrgN(ledger, mask, nul, where, targets, subbal) ==
    [ledger |-> ledger, mask |-> mask, nul |-> nul, where |-> where, targets |-> targets, subbal |-> subbal, agg |-> FALSE]
TargetsNest == { <<"XB">>, <<"BX">>, <<"XB", "XB">>, <<"B", "XB">>, <<"XB", "BX">>, <<"S", "XB">>, <<"XB", "S", "BX">> }
TargetsLazy == { <<"XL">>, <<"XL", "XL">>, <<"S", "XL">> }
WheresNest == { <<>>, <<"M">>, <<"M", "BT">> }
NestProgs(maxrows, TG) ==
    UNION { { PrgN(l, m, nu, w, tg, TRUE) :
                l \in [1..k -> {pU, pH, pR}], m \in [1..k -> BOOLEAN], nu \in [1..k -> BOOLEAN], tg \in TG,
                w \in WheresNest } : k \in 0..maxrows }
NestCanon(P) == Has(P.where, "M") \/ P.mask = AllTrue(Len(P.ledger))
InitOver(S) == \E p \in [Threads -> S] : InitWith(p)
Init12q == InitOver(Progs12_2 \cup {P \in NestProgs(2, TargetsNest) : NestCanon(P)})
(* thorough: every target list on ledgers of up to 2 postings, the lists without an IN-subquery on 3 postings *)
TargetsNest3 == { <<"XB">>, <<"BX">>, <<"XB", "XB">>, <<"B", "XB">>, <<"XB", "BX">> }
Init12 == InitOver(Progs12_3 \cup {P \in NestProgs(2, TargetsNest) \cup NestProgs(3, TargetsNest3) : NestCanon(P)})
(* non-vacuity: function calls that stop at the first NULL operand (ArgEval overridden in the cfg) *)
InitNest2 == InitOver({P \in NestProgs(2, TargetsNest) : NestCanon(P)})
(* short-circuit operators AS SHIPPED: TLC must reject them (known finding) *)
InitLazy2 == InitOver({P \in NestProgs(2, TargetsLazy) : NestCanon(P)})

(* ---- C20: per row  NextRow, EvalBalance, Yield, EvalBalance, EmitRow *)
LA == <<pU, pH, pR>>
LB == <<pH, pK, pU>>
T3 == AllTrue(3)
Progs20_3rows ==
    { Prg(LA, T3, <<>>, <<"B", "P", "B">>, TRUE, FALSE),
      Prg(LB, T3, <<"P">>, <<"B", "P", "B">>, TRUE, FALSE),
      Prg(LA, <<TRUE, FALSE, TRUE>>, <<"P", "M", "BT">>, <<"P", "B">>, TRUE, FALSE),
      Prg(LB, T3, <<"P">>, <<"B", "S", "P", "B">>, TRUE, FALSE),
      Prg(LA, <<TRUE, TRUE, FALSE>>, <<"P", "M">>, <<"A">>, TRUE, TRUE) }
Progs20_2rows ==
    { Prg(<<pU, pH>>, AllTrue(2), <<>>, <<"B", "P", "B">>, TRUE, FALSE),
      Prg(<<pH, pR>>, AllTrue(2), <<"P">>, <<"B", "P", "B">>, TRUE, FALSE),
      Prg(<<pH, pU>>, AllTrue(2), <<"BN", "P">>, <<"B", "S", "P", "B">>, TRUE, FALSE),
      Prg(<<pU, pK>>, <<FALSE, TRUE>>, <<"P", "M">>, <<"A">>, TRUE, TRUE) }
Progs20_2rows_q ==
    { Prg(<<pU, pH>>, AllTrue(2), <<>>, <<"B", "P", "B">>, TRUE, FALSE),
      Prg(<<pH, pU>>, AllTrue(2), <<"BN", "P">>, <<"B", "S", "P", "B">>, TRUE, FALSE),
      Prg(<<pU, pK>>, <<FALSE, TRUE>>, <<"P", "M">>, <<"A">>, TRUE, TRUE) }
Progs20_min == { Prg(<<pU, pH>>, AllTrue(2), <<>>, <<"B", "P", "B">>, TRUE, FALSE) }

Init == \E p \in [Threads -> Programs] : InitWith(p)
Spec == Init /\ [][Next]_vars
FairSpec == Spec /\ Fairness
=============================================================================
