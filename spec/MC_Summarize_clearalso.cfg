\* non-vacuity: CLEAR applied before CLOSE and again after it (a recorded realistic edit): every balance is still right, but the
\* clauses no longer apply in the fixed order -- TLC must violate LayoutInv (and nothing else: LayoutInv is listed last)
CONSTANTS
  Base <- MCBase
  KeyTab <- MCKeyTab
  CurSeq <- MCCurSeq
  Special <- MCSpecial
  Ledgers = {}
  OpenArgs <- Open05
  CloseArgs <- Close05
  ClearArgs = {TRUE, FALSE}
  Filters <- FNone
  Order <- OrderClearAlso
  CompileMode = "stated"
  Inners <- InnersNone
  ScopeMode = "stated"
  Doors <- DoorsApi
  HookMode = "stated"
INIT InitCover
NEXT Next
INVARIANTS KeepInv BalanceSheetInv IncomeInv EquityInv TxBalanceInv FilterInv CompileInv SortedInv ExpectInv LayoutInv
CHECK_DEADLOCK FALSE
