--------------------------- MODULE Trace_Summarize ---------------------------
(* Code -> spec for C13.  The driver runs real ledgers (the beancount example ledger, seeded random ledgers with lots at
   cost, price conversions and decimals) through FROM ... OPEN / CLOSE / CLEAR and logs, one ndjson line each:
     {"ev":"ledger","lid",..,"exact":bool,"kt":[[a,r,c,lot,vc]..],"lp":[row..]}      the ledger's postings, projected
     {"ev":"case","id",..,"c":{open,close,clear,filter:{n,a}},"via":..,"err":"", "rows":[row..]}   what the code returned
   A case without filter is judged by the DECLARATIVE clauses of Summarize (PeriodReportClauses: the totals of the
   full ledger are computed here, by the spec, from the logged postings); a case with a filter is judged against the
   rows of the preceding unfiltered case of the same clauses (FilterOK); the error path against Rejected.
   A NESTED case ("sub":{"on":true,"c":{..}}: ... FROM <filter> <clauses> WHERE account IN (SELECT account FROM <sub.c.filter>
   <sub.c's clauses>)) is judged by ScopeOK against the rows of the recorded unfiltered cases of the statement's clauses
   and of the subquery's clauses on the same ledger (each of them judged by the declarative clauses in its own line).
   A case carries the ENTRY POINT it was given through ("door":{"ep":"api"|"shell"|"run","q":date of the query directive}):
   it is judged as the report of the clauses it PRESENTS there (Presented) -- the clauses written, through every door.
   One TLC step per line; a rejected line is reported and the run continues. *)
EXTENDS Summarize, Json, IOUtils

TraceLog == ndJsonDeserialize(IOEnv.TRACE_FILE)

VARIABLES l, led, base, bases, nbad
tvars == <<vars, l, led, base, bases, nbad>>

Pair(x) == <<x[1], x[2]>>
Row(r) == [t |-> r.t, date |-> r.date, flag |-> r.flag, g |-> r.g, k |-> r.k, u |-> Pair(r.u), v |-> Pair(r.v),
           w |-> Pair(r.w), wc |-> r.wc, px |-> r.px]
RowsIn(s) == [i \in 1..Len(s) |-> Row(s[i])]
KeyRec(x) == [a |-> x[1], r |-> x[2], c |-> x[3], lot |-> x[4], vc |-> x[5]]
Cfg(c) == [open |-> c.open, close |-> c.close, clear |-> c.clear, filter |-> [n |-> c.filter.n, a |-> c.filter.a]]

NoLedger == [kt |-> <<>>, lp |-> <<>>, exact |-> TRUE]
NoBase == [c |-> [open |-> 0, close |-> -1, clear |-> FALSE, filter |-> NoFilter], rows |-> <<>>, ok |-> FALSE]

\* the mechanism's variables are not used here (the real code is the mechanism): parked
Parked == /\ ledger = <<>> /\ cfg = NoBase.c /\ door = ApiDoor /\ node = NoBase.c /\ status = "trace" /\ pc = <<>> /\ entries = <<>> /\ report = <<>>
          /\ inner = NoInner /\ tab = <<>> /\ sub = NoSub
TInit == Parked /\ l = 1 /\ led = NoLedger /\ base = NoBase /\ bases = <<>> /\ nbad = 0

SameClauses(c1, c2) == c1.open = c2.open /\ c1.close = c2.close /\ c1.clear = c2.clear

\* the unfiltered cases of the current ledger recorded so far, by clauses
HasBase(c) == \E i \in 1..Len(bases) : SameClauses(bases[i].c, c)
BaseRows(c) == bases[CHOOSE i \in 1..Len(bases) : SameClauses(bases[i].c, c)].rows

\* names of the clauses a case fails (empty = accepted)
Failed(e) ==
    LET c == Presented(Cfg(e.c), [ep |-> e.door.ep, q |-> e.door.q])
        ci == Cfg(e.sub.c)
        rejected == Rejected(c) \/ (e.sub.on /\ Rejected(ci))
    IN
    IF e.err # "" THEN
        (IF e.err = "CompilationError" /\ rejected THEN <<>> ELSE <<"err:" \o e.err>>)
    ELSE IF rejected THEN <<"CompileOK">>
    ELSE IF e.sub.on THEN
        (IF ~HasBase(c) \/ ~HasBase(ci) THEN <<"NoBaseCase">>
         ELSE IF ScopeOK(led.kt, BaseRows(c), c.filter, BaseRows(ci), ci.filter, RowsIn(e.rows)) THEN <<>> ELSE <<"ScopeOK">>)
    ELSE IF c.filter.n = "none" THEN
        LET res == PeriodReportClauses(led.kt, led.lp, c, RowsIn(e.rows), led.exact)
        IN SelectSeq(ClauseNames, LAMBDA nm : ~res[CHOOSE i \in 1..Len(ClauseNames) : ClauseNames[i] = nm])
    ELSE IF base.ok /\ SameClauses(base.c, c) THEN
        (IF FilterOK(base.rows, c.filter, RowsIn(e.rows)) THEN <<>> ELSE <<"FilterOK">>)
    ELSE IF ~HasBase(c) THEN <<"NoBaseCase">>
    ELSE IF FilterOK(BaseRows(c), c.filter, RowsIn(e.rows)) THEN <<>> ELSE <<"FilterOK">>

TNext ==
    /\ l <= Len(TraceLog)
    /\ l' = l + 1
    /\ UNCHANGED vars
    /\ LET e == TraceLog[l] IN
       IF e.ev = "ledger"
       THEN /\ led' = [kt |-> [i \in 1..Len(e.kt) |-> KeyRec(e.kt[i])], lp |-> RowsIn(e.lp), exact |-> e.exact]
            /\ base' = NoBase
            /\ bases' = <<>>
            /\ UNCHANGED nbad
       ELSE LET bad == Failed(e) IN
            /\ IF bad = <<>> THEN UNCHANGED nbad
               ELSE /\ PrintT(ToJson([verdict |-> "rejected", line |-> l, id |-> e.id, failed |-> bad]))
                    /\ nbad' = nbad + 1
            /\ LET isBase == e.err = "" /\ e.c.filter.n = "none" /\ ~e.sub.on /\ ~Rejected(Cfg(e.c)) /\ e.door.ep = "api" IN
               /\ base' = IF isBase THEN [c |-> Cfg(e.c), rows |-> RowsIn(e.rows), ok |-> TRUE] ELSE base
               /\ bases' = IF isBase /\ ~HasBase(Cfg(e.c)) THEN Append(bases, [c |-> Cfg(e.c), rows |-> RowsIn(e.rows)]) ELSE bases
            /\ UNCHANGED led

TSpec == TInit /\ [][TNext]_tvars
TraceConsumed == TLCGet("stats").diameter - 1 = Len(TraceLog)
TypeInv == nbad >= 0
=============================================================================
