CONSTANTS
  Variant = "ok"
  Texts <- TextsGen
  Conns <- Conns2
  MaxOps = 7
  Mode = "fresh"
INIT GInit
NEXT GNext
INVARIANT EmitSession
CHECK_DEADLOCK FALSE
