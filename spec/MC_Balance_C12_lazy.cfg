\* the short-circuit operators AS SHIPPED (AND, OR, coalesce, binary operators do not evaluate the operands after the
\* deciding one): balance under such an operator loses the postings on which the other operand decides.  TLC must
\* reject: a genuine defect of the shipped code (known finding balance-under-short-circuit-operator)
CONSTANTS
  Threads = {1}
  CacheMode = "per row context"
  Split = FALSE
  Programs = 0
INIT InitLazy2
NEXT Next
INVARIANTS PrefixSumInv
CHECK_DEADLOCK FALSE
