CONSTANTS
  NCursors = 2
  Queries <- QSmall
  FetchSizes <- Sizes01235
  ArraySizes <- AS123
  RowCountFrom = "result"
  IterMayConsume = FALSE
  None = None
  Depth = 14
INIT GInit
NEXT GNext
INVARIANT Emit
CHECK_DEADLOCK FALSE
