------------------------------- MODULE MC_Select -------------------------------
(* Model-checking / generator instance of BQLSelect: every table of <= MaxRows rows drawn (with repetition, in
   any order) from eight row values x a query space built by comprehension.  The execution mechanism is stepped
   phase by phase (one action per source row / sort pass / phase) and the declarative statements of C01, C02,
   C03, C05, C15 are invariants of the terminal states. *)
EXTENDS BQLSelect, Json

CONSTANTS MaxRows, QuerySet, EmitMode, TableStride,
          Variant      \* "ok", or a deliberately broken mechanism for the non-vacuity runs

Sch == [k |-> "int", s |-> "str", v |-> "int", w |-> "dec", p |-> "int"]
Cols == <<"k", "s", "v", "w", "p">>
RV(k, s, v, w) == [k |-> k, s |-> s, v |-> v, w |-> w]
N == Null
RowVals == <<
    RV(IntV(1), StrV("a"), IntV(1), Rat(1, 2)),
    RV(IntV(1), StrV("a"), N,       N),
    RV(IntV(2), StrV("a"), IntV(2), Rat(1, 2)),
    RV(N,       N,         IntV(0), N),
    RV(IntV(2), N,         IntV(1), Rat(3, 2)),
    RV(N,       StrV("b"), N,       Rat(1, 2)),
    RV(IntV(1), StrV("b"), IntV(2), N),
    RV(IntV(2), StrV("a"), IntV(0), Rat(-1, 2)) >>
NV == Len(RowVals)
\* a table is a sequence of row-value indexes; the payload column p is the source position
TableCodes == UNION {[1..n -> 1..NV] : n \in 0..MaxRows}
MkRow(code, i) == [k |-> RowVals[code[i]].k, s |-> RowVals[code[i]].s, v |-> RowVals[code[i]].v,
                   w |-> RowVals[code[i]].w, p |-> IntV(i)]
TableOf(code) == [i \in 1..Len(code) |-> MkRow(code, i)]
CodeSum(code) == IF Len(code) = 0 THEN 0 ELSE IF Len(code) = 1 THEN code[1]
                 ELSE IF Len(code) = 2 THEN code[1] + 3 * code[2] ELSE IF Len(code) = 3 THEN code[1] + 3 * code[2] + 5 * code[3]
                 ELSE code[1] + 3 * code[2] + 5 * code[3] + 7 * code[4]

(* ---- the query space ---- *)
T(e, as) == [e |-> e, as |-> as]
Q(tg, wh, gr, hv, od, pv, ds, lm) ==
    [targets |-> tg, where |-> wh, group |-> gr, having |-> hv, order |-> od, pivot |-> pv, distinct |-> ds, limit |-> lm]
O(r, desc) == [r |-> r, desc |-> desc]
cK == Col("k")  cS == Col("s")  cV == Col("v")  cW == Col("w")  cP == Col("p")
Wheres == {NoE, Bin("gt", cV, Const(IntV(0))), Un("isnull", cK), AndE(<<Un("isnotnull", cK), Bin("lt", cV, Const(IntV(2)))>>),
           OrE(<<Bin("eq", cS, Const(StrV("a"))), Un("isnull", cV)>>), cV, Const(Null), Un("not", cV)}

\* C01: plain selections
QPlain == {Q(<<T(cP, ""), T(cK, ""), T(Bin("add", cV, Const(IntV(1))), "v1"), T(Bin("div", cV, cK), "q")>>, wh,
             <<>>, NoE, <<>>, <<>>, FALSE, -1) : wh \in Wheres}

\* C03: ordering.  key references: by position, by name, by expression (visible or hidden)
OrdKeys == {RefIdx(2), RefE(cS), RefE(cV), RefE(Un("neg", cV)), RefE(Col("kk"))}
OrdTargets == {<<T(cP, ""), T(cK, "kk"), T(cS, "")>>, <<T(cK, "kk"), T(cS, "")>>}
Ord1 == {<<O(r, d)>> : r \in OrdKeys, d \in BOOLEAN}
Ord2 == {<<O(r1, d1), O(r2, d2)>> : r1 \in {RefE(cS), RefIdx(1)}, r2 \in {RefE(cV), RefE(Col("kk"))}, d1 \in BOOLEAN, d2 \in BOOLEAN}
Ord3 == {<<O(RefE(cS), d1), O(RefE(cK), d2), O(RefE(cV), d3)>> : d1 \in BOOLEAN, d2 \in BOOLEAN, d3 \in BOOLEAN}
QOrder == {Q(tg, NoE, <<>>, NoE, od, <<>>, ds, lm) :
              tg \in OrdTargets, od \in Ord1 \cup Ord2 \cup Ord3, ds \in BOOLEAN, lm \in {-1, 0, 2}}
\* an output name that hides a table column of the same name: ORDER BY / GROUP BY by that name mean the OUTPUT
QOrderHide == {Q(tg, NoE, <<>>, NoE, od, <<>>, FALSE, lm) :
                  tg \in {<<T(Un("neg", cV), "v"), T(cP, "")>>, <<T(cK, "v"), T(cV, "k"), T(cP, "")>>, <<T(cP, ""), T(Bin("sub", Const(IntV(0)), cK), "k")>>},
                  od \in {<<O(RefE(Col("v")), FALSE)>>, <<O(RefE(Col("v")), TRUE)>>, <<O(RefE(Col("k")), FALSE), O(RefE(Col("v")), TRUE)>>, <<O(RefE(Col("k")), TRUE)>>},
                  lm \in {-1, 2}}
QGroupHide == {Q(<<T(Un("isnull", cV), "k"), T(Agg("count", Star), "n")>>, NoE, gr, NoE, od, <<>>, FALSE, -1) :
                  gr \in {<<RefE(Col("k"))>>, <<RefIdx(1)>>}, od \in {<<>>, <<O(RefE(Col("k")), TRUE)>>}}
QDistinct == {Q(tg, NoE, <<>>, NoE, <<>>, <<>>, TRUE, lm) : tg \in {<<T(cK, ""), T(cS, "")>>, <<T(cS, "")>>, <<T(cK, ""), T(cV, "")>>},
                 lm \in {-1, 0, 1, 2, 9}}
          \cup {Q(<<T(cK, "")>>, NoE, <<>>, NoE, <<O(RefE(cV), d)>>, <<>>, TRUE, lm) : d \in BOOLEAN, lm \in {-1, 1, 2}}
\* DISTINCT over aggregate rows: groups whose visible values coincide (a GROUP BY key that is not selected) are duplicates
QDistinctAgg == {Q(tg, NoE, gr, NoE, od, <<>>, TRUE, lm) :
                    tg \in {<<T(Agg("count", Star), "c")>>, <<T(cK, "kk"), T(Agg("count", Star), "c")>>},
                    gr \in {<<RefE(cK), RefE(cS)>>, <<RefE(cS)>>}, od \in {<<>>, <<O(RefIdx(1), TRUE)>>}, lm \in {-1, 1, 2}}

\* C02: aggregation.  grouping references by expression / output name / position, visible / hidden, implicit
AggsV == {Agg("count", Star), Agg("count", cV), Agg("sum", cV), Agg("min", cV), Agg("max", cV), Agg("first", cV),
          Agg("last", cV), Agg("sum", cW), Agg("min", cS), Agg("max", cW), Agg("last", cS),
          Bin("add", Agg("sum", cV), Agg("count", Star)), Bin("div", Agg("sum", cV), Agg("count", cV)),
          Un("neg", Agg("max", cV))}
QGroup1 == {Q(<<T(cK, "kk"), T(a, "a")>>, NoE, gr, NoE, <<>>, <<>>, FALSE, -1) :
               a \in AggsV, gr \in {<<RefE(cK)>>, <<RefIdx(1)>>, <<RefE(Col("kk"))>>, <<>>}}
QGroup2 == {Q(<<T(cK, ""), T(cS, ""), T(Agg("count", Star), "c"), T(Agg("sum", cV), "sv")>>, wh, gr, hv, <<>>, <<>>, FALSE, -1) :
               wh \in {NoE, Bin("gt", cV, Const(IntV(0)))},
               gr \in {<<RefE(cK), RefE(cS)>>, <<RefIdx(2), RefIdx(1)>>, <<>>},
               hv \in {NoE}}
\* the same target named twice in GROUP BY (by position and by name, twice by expression): still one key, one column
QGroupDup == {Q(<<T(cK, "kk"), T(cS, "ss"), T(a, "a")>>, NoE, gr, NoE, <<>>, <<>>, FALSE, -1) :
                 a \in {Agg("count", Star), Agg("sum", cV)},
                 gr \in {<<RefIdx(1), RefE(Col("kk")), RefIdx(2)>>, <<RefE(cK), RefE(cK), RefE(cS)>>, <<RefIdx(1), RefIdx(2), RefIdx(1)>>,
                         <<RefE(cS), RefIdx(1), RefE(Col("ss"))>>, <<RefIdx(2), RefIdx(2), RefIdx(1)>>}}
\* two aggregates of one function whose operands differ only below a unary operator / a test (sum(-v), sum(-k)): each
\* cell is the fold of ITS operand; grouping without any aggregate function (every target a key, some keys not selected)
QAggPairs == {Q(<<T(Agg(f, w[1]), "a"), T(Agg(f, w[2]), "b")>>, NoE, gr, NoE, <<>>, <<>>, FALSE, -1) :
                 f \in {"sum", "min", "max", "first", "last", "count"},
                 w \in {<<Un("neg", cV), Un("neg", cK)>>, <<Un("neg", cK), Un("neg", cV)>>},
                 gr \in {<<>>, <<RefE(cS)>>}}
             \cup {Q(<<T(Agg(f, Un("isnull", cV)), "a"), T(Agg(f, Un("isnull", cS)), "b"), T(Agg(f, Un("isnotnull", cV)), "c")>>, NoE, gr, NoE, <<>>, <<>>, FALSE, -1) :
                 f \in {"first", "last", "count", "max"}, gr \in {<<>>, <<RefE(cK)>>}}
             \cup {Q(<<T(Agg("count", Star), "a"), T(Agg("count", Const(Null)), "b"), T(Agg("count", cV), "c")>>, NoE, <<>>, NoE, <<>>, <<>>, FALSE, -1)}
QGroupNoAgg == {Q(tg, NoE, gr, NoE, od, <<>>, FALSE, lm) :
                   tg \in {<<T(cK, "")>>, <<T(cS, ""), T(cK, "")>>}, gr \in {<<RefE(cK), RefE(cS)>>, <<RefE(cS), RefE(cK), RefE(Un("isnull", cV))>>},
                   od \in {<<>>, <<O(RefIdx(1), TRUE)>>}, lm \in {-1, 2}}
\* aggregates only (one group), ordered by an aggregate that is not selected: the helper is not a column of the row
QAggOnlyOrd == {Q(<<T(Agg("count", cV), "n")>>, wh, <<>>, NoE, <<O(RefE(Agg("sum", cV)), d)>>, <<>>, ds, lm) :
                   wh \in {NoE, Bin("gt", cV, Const(IntV(5)))}, d \in BOOLEAN, ds \in BOOLEAN, lm \in {-1, 0, 1}}
QHaving == {Q(<<T(cK, ""), T(Agg("sum", cV), "sv")>>, NoE, <<RefE(cK)>>, hv, od, <<>>, FALSE, -1) :
               hv \in {Bin("gt", Agg("count", Star), Const(IntV(1))), Bin("gt", Agg("sum", cV), Const(IntV(1))),
                       Un("isnull", Agg("min", cV)), Agg("sum", cV)},
               od \in {<<>>, <<O(RefE(Agg("count", Star)), TRUE)>>, <<O(RefIdx(2), FALSE), O(RefIdx(1), TRUE)>>}}
QHidden == {Q(<<T(Agg("count", Star), "c"), T(Agg("sum", cV), "sv")>>, NoE, gr, NoE, od, <<>>, FALSE, lm) :
               gr \in {<<RefE(cK)>>, <<RefE(cS), RefE(cK)>>, <<RefE(Un("isnull", cV))>>},
               od \in {<<>>, <<O(RefIdx(1), TRUE)>>, <<O(RefE(Agg("max", cV)), FALSE)>>}, lm \in {-1, 1}}
QNoRows == {Q(<<T(Agg("count", Star), "c"), T(Agg("sum", cV), "sv"), T(Agg("min", cV), "m")>>, wh, <<>>, NoE, <<>>, <<>>, FALSE, -1) :
               wh \in {NoE, Const(Null), Bin("gt", cV, Const(IntV(5)))}}

\* C15: pivot
\* the pivoted rows come out by ascending first key whatever the ORDER BY of the un-pivoted query says
QPivotOrd == {Q(<<T(cK, "kk"), T(cS, "ss"), T(Agg("sum", cV), "sv")>>, NoE, <<RefIdx(1), RefIdx(2)>>, NoE, od, pv, FALSE, -1) :
                 od \in {<<O(RefIdx(1), TRUE)>>, <<O(RefE(Col("kk")), TRUE), O(RefIdx(2), FALSE)>>, <<O(RefIdx(2), TRUE)>>, <<O(RefIdx(3), TRUE)>>,
                         <<O(RefIdx(1), FALSE)>>},
                 pv \in {<<RefIdx(1), RefIdx(2)>>, <<RefIdx(2), RefIdx(1)>>}}
\* helper targets (HAVING, ORDER BY on an aggregate that is not selected) are not columns of the pivoted result
QPivotHid == {Q(tg, NoE, <<RefIdx(1), RefIdx(2)>>, ho[1], ho[2], <<RefIdx(1), RefIdx(2)>>, FALSE, -1) :
                 tg \in {<<T(cK, "kk"), T(cS, "ss"), T(Agg("sum", cV), "sv")>>,
                         <<T(cK, "kk"), T(cS, "ss"), T(Agg("sum", cV), "sv"), T(Agg("count", Star), "c")>>},
                 ho \in {<<Bin("gt", Agg("count", cV), Const(IntV(0))), <<>>>>, <<NoE, <<O(RefE(Agg("max", cV)), TRUE)>>>>,
                         <<Un("isnotnull", Agg("min", cW)), <<O(RefE(Agg("count", Star)), FALSE)>>>>}}
QPivot == QPivotOrd \cup QPivotHid \cup {Q(tg, NoE, <<RefIdx(g1), RefIdx(g2)>>, NoE, <<>>, pv, FALSE, -1) :
              tg \in {<<T(cK, "kk"), T(cS, "ss"), T(Agg("sum", cV), "sv")>>,
                      <<T(cK, "kk"), T(cS, "ss"), T(Agg("sum", cV), "sv"), T(Agg("count", Star), "c")>>},
              g1 \in {1}, g2 \in {2},
              pv \in {<<RefIdx(1), RefIdx(2)>>, <<RefE(Col("kk")), RefE(Col("ss"))>>, <<RefIdx(2), RefIdx(1)>>, <<RefE(Col("ss")), RefIdx(1)>>}}
       \cup {Q(<<T(Agg("sum", cV), "sv"), T(cS, "ss"), T(cK, "kk")>>, NoE, <<RefIdx(2), RefIdx(3)>>, NoE, <<>>, <<RefIdx(3), RefIdx(2)>>, FALSE, -1)}

\* C15: invalid PIVOT BY references must be rejected at compile time
QPivotInvalid == {
    Q(<<T(cK, "kk"), T(cS, "ss"), T(Agg("sum", cV), "sv")>>, NoE, <<RefIdx(1), RefIdx(2)>>, NoE, <<>>, pv, FALSE, -1) :
        pv \in {<<RefIdx(1), RefIdx(1)>>, <<RefIdx(1), RefIdx(3)>>, <<RefIdx(2), RefIdx(3)>>, <<RefIdx(1), RefIdx(4)>>, <<RefIdx(0), RefIdx(2)>>,
                <<RefE(Col("zz")), RefIdx(2)>>, <<RefE(Col("kk")), RefE(Col("sv"))>>, <<RefE(Col("ss")), RefE(Col("ss"))>>,
                <<RefE(Col("kk")), RefIdx(1)>>, <<RefIdx(2), RefE(Col("ss"))>>, <<RefIdx(1), RefE(Col("kk"))>>}}
    \cup {Q(<<T(cK, "kk"), T(Agg("sum", cV), "sv")>>, NoE, gr, NoE, <<>>, pv, FALSE, -1) :
             gr \in {<<RefE(cK), RefE(cS)>>, <<RefIdx(1), RefE(cS)>>},
             pv \in {<<RefE(Col("kk")), RefE(Col("s"))>>, <<RefE(Col("s")), RefE(Col("kk"))>>, <<RefIdx(1), RefE(Col("s"))>>, <<RefE(Col("k")), RefE(Col("s"))>>}}
    \cup {Q(<<T(cK, "kk"), T(cS, "ss"), T(cV, "vv")>>, NoE, <<>>, NoE, <<>>, <<RefIdx(1), RefIdx(2)>>, FALSE, -1)}

\* C05: invalid statements of every rule (and a few valid neighbours)
\* C05, the aggregate rules under every node kind: a boolean expression holding an aggregate below each operator /
\* connective / function / membership / match form, placed at every site where the rules decide (WHERE, a grouping
\* key, the operand of another aggregate, next to a bare column, HAVING, ORDER BY of an aggregate and of a plain query)
AggI == Agg("sum", cV)
AggS == Agg("min", cS)
One == Const(IntV(1))
WrapBool == {Bin(op, AggI, One) : op \in {"eq", "ne", "lt", "le", "gt", "ge"}}
            \cup {Bin(op, Bin(ar, AggI, One), One) : op \in {"gt"}, ar \in {"add", "sub", "mul", "div", "mod"}}
            \cup {Bin("gt", Un("neg", AggI), One), Un("isnull", AggI), Un("isnotnull", AggS), Un("not", Bin("gt", AggI, One)),
                  Between(AggI, Const(IntV(0)), Const(IntV(5))), Between(One, AggI, Const(IntV(5))), Between(One, One, AggI),
                  Bin("in", AggI, Const(ListV(<<IntV(1), IntV(2)>>))), Bin("notin", AggS, Const(ListV(<<StrV("a")>>))),
                  Bin("match", AggS, Const(StrV("a"))), Bin("notmatch", AggS, Const(StrV("a"))), Bin("match", Const(StrV("ab")), AggS),
                  AndE(<<Const(BoolV(TRUE)), Bin("gt", AggI, One)>>), OrE(<<Bin("gt", AggI, One), Const(BoolV(FALSE))>>),
                  Bin("gt", Call("coalesce", <<AggI, One>>), One), Bin("eq", Call("upper", <<AggS>>), Const(StrV("A"))),
                  Bin("gt", Call("abs", <<AggI>>), One), Bin("eq", Call("str", <<AggI>>), Const(StrV("1")))}
QAggSites == UNION {{
    Q(<<T(cK, "")>>, w, <<>>, NoE, <<>>, <<>>, FALSE, -1),                                                \* in WHERE: rejected
    Q(<<T(Agg("count", Star), "c")>>, NoE, <<RefE(w)>>, NoE, <<>>, <<>>, FALSE, -1),                      \* as a grouping key: rejected
    Q(<<T(Agg("count", w), "c")>>, NoE, <<>>, NoE, <<>>, <<>>, FALSE, -1),                                \* aggregate of an aggregate: rejected
    Q(<<T(AndE(<<w, Un("isnull", cK)>>), "x")>>, NoE, <<>>, NoE, <<>>, <<>>, FALSE, -1),                  \* mixed with a bare column: rejected
    Q(<<T(cK, "")>>, NoE, <<>>, NoE, <<O(RefE(w), FALSE)>>, <<>>, FALSE, -1),                            \* ORDER BY of a plain query: rejected
    Q(<<T(w, "x")>>, NoE, <<>>, NoE, <<>>, <<>>, FALSE, -1),                                              \* a target: one row
    Q(<<T(cK, ""), T(Agg("count", Star), "c")>>, NoE, <<RefE(cK)>>, w, <<>>, <<>>, FALSE, -1),            \* HAVING: accepted
    Q(<<T(cK, ""), T(Agg("count", Star), "c")>>, NoE, <<RefE(cK)>>, NoE, <<O(RefE(w), TRUE)>>, <<>>, FALSE, -1)   \* ORDER BY of an aggregate query
  } : w \in WrapBool}

QInvalid == QAggSites \cup {
    Q(<<T(Bin("add", cS, cV), "x")>>, NoE, <<>>, NoE, <<>>, <<>>, FALSE, -1),
    Q(<<T(Col("nope"), "")>>, NoE, <<>>, NoE, <<>>, <<>>, FALSE, -1),
    Q(<<T(Call("nofn", <<cV>>), "x")>>, NoE, <<>>, NoE, <<>>, <<>>, FALSE, -1),
    Q(<<T(cK, "")>>, Bin("gt", Agg("sum", cV), Const(IntV(1))), <<>>, NoE, <<>>, <<>>, FALSE, -1),
    Q(<<T(cK, ""), T(Agg("sum", cV), "sv")>>, NoE, <<RefE(Agg("count", Star))>>, NoE, <<>>, <<>>, FALSE, -1),
    Q(<<T(cK, ""), T(Agg("sum", cV), "sv")>>, NoE, <<RefIdx(2)>>, NoE, <<>>, <<>>, FALSE, -1),
    Q(<<T(cK, ""), T(Agg("sum", cV), "sv")>>, NoE, <<RefIdx(0)>>, NoE, <<>>, <<>>, FALSE, -1),
    Q(<<T(cK, ""), T(Agg("sum", cV), "sv")>>, NoE, <<RefIdx(3)>>, NoE, <<>>, <<>>, FALSE, -1),
    Q(<<T(Agg("sum", Agg("count", cV)), "x")>>, NoE, <<>>, NoE, <<>>, <<>>, FALSE, -1),
    Q(<<T(Agg("sum", Bin("add", cV, Agg("max", cV))), "x")>>, NoE, <<>>, NoE, <<>>, <<>>, FALSE, -1),
    Q(<<T(Agg("count", Un("neg", Agg("count", Star))), "x")>>, NoE, <<>>, NoE, <<>>, <<>>, FALSE, -1),
    Q(<<T(Agg("sum", Call("abs", <<Agg("sum", cW)>>)), "x")>>, NoE, <<>>, NoE, <<>>, <<>>, FALSE, -1),
    Q(<<T(Agg("count", Un("isnull", Agg("sum", cV))), "x")>>, NoE, <<>>, NoE, <<>>, <<>>, FALSE, -1),
    Q(<<T(cK, ""), T(Agg("sum", cV), "sv")>>, NoE, <<RefE(cK)>>, Bin("gt", Agg("max", Bin("sub", cV, Agg("min", cV))), Const(IntV(0))), <<>>, <<>>, FALSE, -1),
    Q(<<T(cK, ""), T(Agg("sum", cV), "sv")>>, NoE, <<RefE(cK)>>, NoE, <<O(RefE(Agg("sum", Bin("mul", cV, Agg("count", Star)))), FALSE)>>, <<>>, FALSE, -1),
    Q(<<T(Bin("add", cK, Agg("sum", cV)), "x")>>, NoE, <<>>, NoE, <<>>, <<>>, FALSE, -1),
    Q(<<T(cK, ""), T(cS, ""), T(Agg("sum", cV), "sv")>>, NoE, <<RefE(cK)>>, NoE, <<>>, <<>>, FALSE, -1),
    Q(<<T(cK, ""), T(Agg("sum", cV), "sv")>>, NoE, <<RefE(cK)>>, NoE, <<O(RefE(cS), FALSE)>>, <<>>, FALSE, -1),
    Q(<<T(cK, ""), T(Agg("sum", cV), "sv")>>, NoE, <<RefE(cK)>>, Bin("gt", cK, Const(IntV(1))), <<>>, <<>>, FALSE, -1),
    Q(<<T(cK, ""), T(Agg("sum", cV), "sv")>>, NoE, <<RefE(cK)>>, Bin("gt", Agg("sum", cV), cV), <<>>, <<>>, FALSE, -1),
    Q(<<T(cK, ""), T(Agg("sum", cV), "sv")>>, NoE, <<RefE(cK)>>, NoE, <<O(RefE(Bin("add", Agg("sum", cV), cV)), FALSE)>>, <<>>, FALSE, -1),
    Q(<<T(cK, ""), T(Agg("sum", cV), "sv")>>, NoE, <<RefE(cK)>>, NoE, <<O(RefE(Agg("sum", Agg("count", cV))), FALSE)>>, <<>>, FALSE, -1),
    Q(<<T(cK, "")>>, NoE, <<>>, NoE, <<O(RefE(Agg("sum", cV)), FALSE)>>, <<>>, FALSE, -1),
    Q(<<T(cK, ""), T(cS, "")>>, NoE, <<>>, NoE, <<O(RefIdx(3), FALSE)>>, <<>>, FALSE, -1),
    Q(<<T(cK, ""), T(Agg("sum", cV), "sv")>>, NoE, <<RefE(cK), RefE(cS)>>, NoE, <<O(RefIdx(3), FALSE)>>, <<>>, FALSE, -1),
    Q(<<T(cK, ""), T(Agg("sum", cV), "sv")>>, NoE, <<RefE(cK)>>, Bin("gt", Agg("sum", cV), Const(IntV(0))), <<O(RefIdx(3), TRUE)>>, <<>>, FALSE, -1),
    Q(<<T(cK, ""), T(Agg("sum", cV), "sv")>>, NoE, <<RefE(cK), RefE(cS)>>, NoE, <<O(RefIdx(2), FALSE)>>, <<RefIdx(1), RefIdx(3)>>, FALSE, -1),
    Q(<<T(Agg("count", Star), "c")>>, NoE, <<RefE(cK), RefIdx(2)>>, NoE, <<>>, <<>>, FALSE, -1),
    Q(<<T(cK, ""), T(cS, "")>>, NoE, <<>>, NoE, <<O(RefIdx(0), FALSE)>>, <<>>, FALSE, -1),
    Q(<<T(cK, ""), T(cS, "")>>, NoE, <<>>, NoE, <<O(RefE(Col("nope")), FALSE)>>, <<>>, FALSE, -1),
    Q(<<T(cK, ""), T(cS, "")>>, NoE, <<>>, NoE, <<>>, <<RefIdx(1), RefIdx(2)>>, FALSE, -1),
    Q(<<T(cK, "kk"), T(cS, "ss"), T(Agg("sum", cV), "sv")>>, NoE, <<RefIdx(1), RefIdx(2)>>, NoE, <<>>, <<RefIdx(1), RefIdx(1)>>, FALSE, -1),
    Q(<<T(cK, "kk"), T(cS, "ss"), T(Agg("sum", cV), "sv")>>, NoE, <<RefIdx(1), RefIdx(2)>>, NoE, <<>>, <<RefIdx(1), RefIdx(3)>>, FALSE, -1),
    Q(<<T(cK, "kk"), T(cS, "ss"), T(Agg("sum", cV), "sv")>>, NoE, <<RefIdx(1), RefIdx(2)>>, NoE, <<>>, <<RefIdx(1), RefIdx(4)>>, FALSE, -1),
    Q(<<T(cK, "kk"), T(cS, "ss"), T(Agg("sum", cV), "sv")>>, NoE, <<RefIdx(1), RefIdx(2)>>, NoE, <<>>, <<RefE(Col("zz")), RefIdx(2)>>, FALSE, -1),
    Q(<<T(Call("coalesce", <<cK, cS>>), "x")>>, NoE, <<>>, NoE, <<>>, <<>>, FALSE, -1),
    Q(<<T(Between(cK, Const(IntV(1)), Const(StrV("a"))), "x")>>, NoE, <<>>, NoE, <<>>, <<>>, FALSE, -1),
    Q(<<T(cK, ""), T(Agg("sum", cS), "x")>>, NoE, <<>>, NoE, <<>>, <<>>, FALSE, -1)
}

Queries ==
    CASE QuerySet = "plain" -> QPlain
      [] QuerySet = "order" -> QOrder \cup QDistinct \cup QDistinctAgg \cup QOrderHide
      [] QuerySet = "group" -> QGroup1 \cup QGroup2 \cup QHaving \cup QHidden \cup QNoRows \cup QGroupDup \cup QAggPairs \cup QGroupNoAgg \cup QAggOnlyOrd \cup QGroupHide
      [] QuerySet = "pivot" -> QPivot \cup QPivotInvalid
      [] QuerySet = "invalid" -> QInvalid \cup QPivotInvalid
      [] OTHER -> QPlain \cup QOrder \cup QOrderHide \cup QGroupHide \cup QDistinct \cup QDistinctAgg \cup QGroupDup \cup QAggPairs \cup QGroupNoAgg \cup QAggOnlyOrd \cup QGroup1 \cup QGroup2 \cup QHaving \cup QHidden \cup QNoRows \cup QPivot \cup QPivotInvalid \cup QInvalid

-----------------------------------------------------------------------------
VARIABLES code, q, phase, i, keys, groups, rows, passhi, out, table, cq
vars == <<code, q, phase, i, keys, groups, rows, passhi, out, table, cq>>

Init ==
    /\ code \in {c \in TableCodes : CodeSum(c) % TableStride = 0}
    /\ q \in Queries
    /\ phase = "compile" /\ i = 1 /\ keys = <<>> /\ groups = <<>> /\ rows = <<>> /\ passhi = 0 /\ out = <<>>
    /\ table = TableOf(code) /\ cq = Fail("")

DoCompile ==
    /\ phase = "compile"
    /\ cq' = IF Variant = "rejectorder" /\ Len(q.order) > 1 THEN Fail("variant")
              ELSE IF Variant = "nopivotcheck" THEN Compile([q EXCEPT !.pivot = <<>>], Sch) ELSE Compile(q, Sch)
    /\ phase' = IF cq'.ok THEN "scan" ELSE "rejected"
    /\ UNCHANGED <<code, q, i, keys, groups, rows, passhi, out, table>>
ScanRow ==        \* one source row: WHERE, then either a result row or the row's group is created / updated
    /\ phase = "scan" /\ i <= Len(table)
    /\ i' = i + 1
    /\ IF (IF Variant = "wherenotnull" THEN q.where # NoE /\ Eval(q.where, table[i], Sch).t = "null" ELSE ~WhereOK(q, table[i], Sch))
       THEN UNCHANGED <<keys, groups, rows>>
       ELSE IF cq.gmode = "none"
            THEN /\ rows' = Append(rows, [j \in 1..Len(cq.ts) |-> Eval(cq.ts[j].e, table[i], Sch)])
                 /\ UNCHANGED <<keys, groups>>
            ELSE LET key == KeyOf(cq, table[i], Sch)
                     pp == IF Variant = "sharedgroup" /\ Len(keys) > 0 THEN 1 ELSE PosIn(keys, key) IN
                 /\ UNCHANGED rows
                 /\ IF pp = 0 THEN keys' = Append(keys, key) /\ groups' = Append(groups, <<table[i]>>)
                    ELSE keys' = keys /\ groups' = [groups EXCEPT ![pp] = Append(@, table[i])]
    /\ UNCHANGED <<code, q, table, cq, phase, passhi, out>>
EndScan ==
    /\ phase = "scan" /\ i > Len(table)
    /\ phase' = IF cq.gmode = "none" THEN "sort" ELSE "finalize"
    /\ passhi' = Len(cq.ospec)
    /\ UNCHANGED <<code, q, table, cq, i, keys, groups, rows, out>>
Finalize ==
    /\ phase = "finalize"
    /\ rows' = FinalizeGroups(q, cq, keys, groups, Sch)
    /\ phase' = "sort"
    /\ UNCHANGED <<code, q, table, cq, i, keys, groups, passhi, out>>
SortPass ==       \* one stable sort per maximal run of equal direction, from the right
    /\ phase = "sort" /\ passhi > 0
    /\ LET dir == cq.ospec[passhi][2]
           lo == CHOOSE l \in 1..passhi : (\A m \in l..passhi : cq.ospec[m][2] = dir) /\ (l = 1 \/ cq.ospec[l - 1][2] # dir)
           idxs == [m \in 1..(passhi - lo + 1) |-> cq.ospec[lo + m - 1][1]]
       IN rows' = SortRun(rows, idxs, dir) /\ passhi' = lo - 1
    /\ UNCHANGED <<code, q, table, cq, phase, i, keys, groups, out>>
EndSort ==
    /\ phase = "sort" /\ passhi = 0
    /\ out' = Project(rows, cq) /\ phase' = "distinct"
    /\ UNCHANGED <<code, q, table, cq, i, keys, groups, rows, passhi>>
Distinct ==
    /\ phase = "distinct"
    /\ out' = IF Variant = "limitfirst" THEN Cut(out, q.limit) ELSE (IF q.distinct THEN Uniq(out, <<>>) ELSE out)
    /\ phase' = "limit"
    /\ UNCHANGED <<code, q, table, cq, i, keys, groups, rows, passhi>>
Limit ==
    /\ phase = "limit"
    /\ out' = IF Variant = "limitfirst" THEN (IF q.distinct THEN Uniq(out, <<>>) ELSE out) ELSE Cut(out, q.limit)
    /\ phase' = IF Len(cq.pivot) = 0 THEN "done" ELSE "pivot"
    /\ UNCHANGED <<code, q, table, cq, i, keys, groups, rows, passhi>>
Pivot ==
    /\ phase = "pivot"
    /\ out' = IF Variant = "nopivot" THEN out ELSE PivotRows(out, cq.nvis, cq.pivot[1], cq.pivot[2])
    /\ phase' = "done"
    /\ UNCHANGED <<code, q, table, cq, i, keys, groups, rows, passhi>>
Next == DoCompile \/ ScanRow \/ EndScan \/ Finalize \/ SortPass \/ EndSort \/ Distinct \/ Limit \/ Pivot
Spec == Init /\ [][Next]_vars

-----------------------------------------------------------------------------
(* C05: the mechanism's accept / reject decision is exactly the rule list *)
CompileIffValid == (phase \in {"scan", "rejected"}) => (cq.ok <=> Valid(q, Sch))

(* the stepped mechanism composes to Exec *)
SteppedIsExec == (phase = "done") => out = Exec(q, cq, table, Sch)

qual == SelectSeq(table, LAMBDA r : WhereOK(q, r, Sch))
Plain == cq.ok /\ cq.gmode = "none"
(* C01: one row per qualifying source row, in source order, each cell computed from that row alone *)
ScanLaw ==
    (Plain /\ phase = "sort" /\ passhi = Len(cq.ospec)) =>
        /\ Len(rows) = Len(qual)
        /\ \A n \in 1..Len(rows) : \A j \in 1..Len(cq.ts) : rows[n][j] = Eval(cq.ts[j].e, qual[n], Sch)
ScanPrefix == [][(phase = "scan" /\ phase' = "scan") => \A n \in 1..Len(rows) : rows'[n] = rows[n]]_vars
(* C02: state isolation -- a row only ever touches its own group *)
GroupIsolation ==
    [][(phase = "scan" /\ phase' = "scan") =>
          \A g \in 1..Len(groups) : groups'[g] = groups[g] \/ (keys[g] = KeyOf(cq, table[i], Sch) /\ Len(groups'[g]) = Len(groups[g]) + 1)]_vars
(* C02: groups partition the qualifying rows by key, in order of first appearance; folds per group *)
GroupLaw ==
    (cq.ok /\ cq.gmode = "agg" /\ phase = "finalize") =>
        /\ \A g1, g2 \in 1..Len(keys) : g1 # g2 => keys[g1] # keys[g2]
        /\ \A g \in 1..Len(keys) : groups[g] = SelectSeq(qual, LAMBDA r : KeyOf(cq, r, Sch) = keys[g])
        /\ \A n \in 1..Len(qual) : PosIn(keys, KeyOf(cq, qual[n], Sch)) # 0
        /\ \A g1, g2 \in 1..Len(keys) : g1 < g2 =>
              PosIn([n \in 1..Len(qual) |-> KeyOf(cq, qual[n], Sch)], keys[g1])
                < PosIn([n \in 1..Len(qual) |-> KeyOf(cq, qual[n], Sch)], keys[g2])
        /\ (qual = <<>>) => keys = <<>>
\* additivity: group-wise count(*) and sum(v) add up to the ungrouped totals; no qualifying row -> no output row
Additivity ==
    (cq.ok /\ cq.gmode = "agg" /\ phase = "sort" /\ passhi = Len(cq.ospec) /\ cq.hidx = 0) =>
        /\ (qual = <<>>) => rows = <<>>
        /\ \A j \in 1..Len(cq.ts) :
              /\ cq.ts[j].e = Agg("count", Star) =>
                    SumSeq([n \in 1..Len(rows) |-> rows[n][j]], IntV(0)) = IntV(Len(qual))
              /\ cq.ts[j].e = Agg("sum", cV) =>
                    SumSeq([n \in 1..Len(rows) |-> rows[n][j]], IntV(0)) = AggVal("sum", cV, qual, Sch)
HavingLaw ==
    (cq.ok /\ cq.gmode = "agg" /\ phase = "sort" /\ passhi = Len(cq.ospec) /\ cq.hidx # 0) =>
        \A n \in 1..Len(rows) : rows[n][cq.hidx].t = "ood" \/ (rows[n][cq.hidx].t # "null" /\ Truthy(rows[n][cq.hidx]))
(* C03: the multi-pass sort yields the stable, direction-aware lexicographic order; then project, distinct, limit *)
unsorted == IF cq.gmode = "none" THEN ScanPlain(q, cq, table, Sch)
            ELSE LET gs == GroupScan(q, cq, table, 1, <<>>, <<>>, Sch) IN FinalizeGroups(q, cq, gs[1], gs[2], Sch)
SortLaw ==
    (cq.ok /\ phase = "distinct" /\ Len(cq.ospec) > 0) =>
        /\ Len(rows) = Len(unsorted)
        /\ \E f \in [1..Len(rows) -> 1..Len(rows)] :
              /\ \A a, b \in 1..Len(rows) : a # b => f[a] # f[b]
              /\ \A a \in 1..Len(rows) : rows[a] = unsorted[f[a]]
              /\ \A a, b \in 1..Len(rows) : a < b =>
                    /\ ~SpecLess(rows[b], rows[a], cq.ospec, 1)
                    /\ (~SpecLess(rows[a], rows[b], cq.ospec, 1)) => f[a] < f[b]
PhaseOrderLaw ==
    (cq.ok /\ phase = "done" /\ Len(cq.pivot) = 0) =>
        out = Cut((IF q.distinct THEN Uniq(Project(rows, cq), <<>>) ELSE Project(rows, cq)), q.limit)
DistinctLaw ==
    (cq.ok /\ phase = "limit" /\ q.distinct) =>
        /\ \A a, b \in 1..Len(out) : a # b => ~RowEq(out[a], out[b])
        /\ \A n \in 1..Len(rows) : \E a \in 1..Len(out) : RowEq(out[a], Project(rows, cq)[n])
(* C15: un-pivoting reproduces the un-pivoted result *)
PivotLaw ==
    (cq.ok /\ phase = "done" /\ Len(cq.pivot) = 2) =>
        LET un == Exec([q EXCEPT !.pivot = <<>>], [cq EXCEPT !.pivot = <<>>], table, Sch)
            p1 == cq.pivot[1] p2 == cq.pivot[2]
            others == SelectSeq([j \in 1..cq.nvis |-> j], LAMBDA j : j # p1 /\ j # p2)
            no == Len(others)
            k2 == DistinctAsc([n \in 1..Len(un) |-> un[n][p2]])
        IN /\ \A n \in 1..Len(un) :
                 \E r \in 1..Len(out) : /\ KeyEq(out[r][1], un[n][p1])
                                        /\ LET kk == PosIn(k2, un[n][p2]) IN
                                           \A oo \in 1..no : out[r][1 + (kk - 1) * no + oo] = un[n][others[oo]]
           /\ \A r \in 1..Len(out) : Len(out[r]) = 1 + Len(k2) * no
           /\ \A r \in 1..Len(out) : \A kk \in 1..Len(k2) :
                 (\A n \in 1..Len(un) : ~(KeyEq(un[n][p1], out[r][1]) /\ KeyEq(un[n][p2], k2[kk]))) =>
                     \A oo \in 1..no : out[r][1 + (kk - 1) * no + oo] = Null
           /\ \A r1, r2 \in 1..Len(out) : r1 < r2 => KeyLess(out[r1][1], out[r2][1])

(* ---- emission for the spec -> code replay ---- *)
EncV(x) == <<x.t, x.n, x.d, x.s>>
EncRows(rs) == [a \in 1..Len(rs) |-> [b \in 1..Len(rs[a]) |-> EncV(rs[a][b])]]
Names == IF cq.ok THEN [j \in 1..cq.nvis |-> cq.ts[j].name] ELSE <<>>
Types == IF cq.ok THEN [j \in 1..cq.nvis |-> TypeOf(cq.ts[j].e, Sch)] ELSE <<>>
Piv == cq.ok /\ Len(cq.pivot) = 2 /\ phase = "done" /\ ~ExecOOD(q, cq, table, Sch)
PHead == PivotHead(ExecCut(q, cq, table, Sch), Names, Types, cq.nvis, cq.pivot[1], cq.pivot[2])
Emit ==
    IF EmitMode = "cases" /\ phase \in {"done", "rejected"}
    THEN PrintT(ToJson([code |-> code, q |-> q, ok |-> cq.ok, err |-> cq.err,
                        ood |-> (cq.ok /\ ExecOOD(q, cq, table, Sch)),
                        names |-> IF Piv THEN PHead.names ELSE Names,
                        types |-> IF Piv THEN PHead.types ELSE Types,
                        out |-> EncRows(out)]))
    ELSE TRUE
EmitTable ==
    IF EmitMode # "none" /\ phase = "compile" /\ code = <<>> /\ q = (CHOOSE x \in Queries : TRUE) THEN PrintT(ToJson([rowvals |-> [n \in 1..NV |-> [c \in 1..4 |-> EncV(RowVals[n][Cols[c]])]], i |-> i]))
    ELSE TRUE
=============================================================================
