CONSTANTS
  Stmts <- Stmts5
  StmtParams <- Params5
  ManyPairs <- Pairs2
  Data <- DataA
  NumberMode = "conforming"
  MaxCalls = 3
  GenTextIdx <- Idx2
  Depth = 3
INIT HInit
NEXT HNext
INVARIANT Emit
CHECK_DEADLOCK FALSE
