\* quick: all 1-transaction ledgers, 2 transactions (81 template pairs on dates {2,4}; 4 templates on all date pairs),
\* 3 transactions over 3 templates; all 8 clause subsets, CLOSE bare / dated, d and e in 1..5 around entry dates 2..4
CONSTANTS
  Base <- MCBase
  KeyTab <- MCKeyTab
  CurSeq <- MCCurSeq
  Special <- MCSpecial
  Ledgers = {}
  OpenArgs <- Open05
  CloseArgs <- Close05
  ClearArgs = {TRUE, FALSE}
  Filters <- FNone
  Order <- OrderStated
  CompileMode = "stated"
  Inners <- InnersNone
  ScopeMode = "stated"
  Doors <- DoorsApi
  HookMode = "stated"
INIT InitQuick
NEXT Next
INVARIANTS KeepInv BalanceSheetInv IncomeInv EquityInv TxBalanceInv LayoutInv FilterInv CompileInv SortedInv ExpectInv
CHECK_DEADLOCK FALSE
