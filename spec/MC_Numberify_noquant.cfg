\* non-vacuity: quantisation skipped.  TLC must violate SumPreserved.
CONSTANTS
  Space = "pos"
  Shapes <- ShapesOf
  FmtChoices <- Fmt1
  DCtx <- DCAB
  Prec = "most_common"
  CurSeq <- CS3
  InvNull = "skip"
  Mut = "noquant"
INIT Init
NEXT Next
INVARIANTS SumPreserved
CHECK_DEADLOCK FALSE
