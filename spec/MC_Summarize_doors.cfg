\* entry points: the statement given through the DB-API, typed into the shell / given on the command line, and run as a named
\* query (.run, the query directive dated 1..5 around entry dates 2..4): every clause subset, CLOSE bare / dated, d and e before /
\* on / between / after the entry dates -- the report presented is that of the clauses written (Presented), whichever door
CONSTANTS
  Base <- MCBase
  KeyTab <- MCKeyTab
  CurSeq <- MCCurSeq
  Special <- MCSpecial
  Ledgers = {}
  OpenArgs <- OpenDoors
  CloseArgs <- CloseDoors
  ClearArgs = {TRUE, FALSE}
  Filters <- FNone
  Order <- OrderStated
  CompileMode = "stated"
  Inners <- InnersNone
  ScopeMode = "stated"
  Doors <- DoorsAll
  HookMode = "stated"
INIT InitDoors
NEXT Next
INVARIANTS KeepInv BalanceSheetInv IncomeInv EquityInv TxBalanceInv LayoutInv FilterInv CompileInv SortedInv ExpectInv
CHECK_DEADLOCK FALSE
