\* tables replayed through a text ledger and the shell, second display context: the ledger a shell session reloads
\* after an edit writes every currency with another number of digits (see s2c_shell_sessions in c17.py)
CONSTANTS
  Space = "gen-shell"
  Shapes <- ShapesOf
  FmtChoices <- Fmt01
  DCtx <- DCABC2
  Prec = "most_common"
  CurSeq <- CS3
  InvNull = "skip"
  Mut = "none"
INIT Init
NEXT GNext
INVARIANT Emit
CHECK_DEADLOCK FALSE
