\* deeper: every well-formed ledger of <= 4 directives over a 10-letter sub-alphabet x every table
CONSTANTS
  Alpha <- SmallAlpha10
  MaxLen = 4
  Keys <- SmallKeys
  Mech = "ok"
  MaxStmts = 1
  QualOpts <- QNone
INIT Init
NEXT Next
INVARIANTS TypeOK MechEqDecl LookupsEqDecl RowidInv Laws HelperLaws
CHECK_DEADLOCK FALSE
