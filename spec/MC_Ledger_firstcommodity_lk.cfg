\* non-vacuity: as MC_Ledger_firstcommodity, for commodity_meta(): TLC must violate LookupsEqDecl.
CONSTANTS
  Alpha <- DupAlpha
  MaxLen = 3
  Keys <- SmallKeys
  Mech = "firstcommodity"
  MaxStmts = 1
  QualOpts <- QNone
INIT Init
NEXT Next
INVARIANTS LookupsEqDecl
CHECK_DEADLOCK FALSE
