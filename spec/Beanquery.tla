------------------------------- MODULE Beanquery -------------------------------
(***************************************************************************)
(* API grain: one connection as its users see it.  Composes the statement   *)
(* semantics (BQLSelect: Run = Compile / Exec with wildcard and nesting)    *)
(* with the cursor protocol (Cursor) and the connection's table registry:   *)
(*   register(n, t)  conn.tables[n] = t: a new name or a replacement, with   *)
(*                   whatever columns and rows; cursors keep what they have  *)
(*   execute(c, q, n) compile q against the table CURRENTLY registered as n; *)
(*                   an unknown name or a rejected statement raises and      *)
(*                   leaves the cursor untouched; an accepted one replaces   *)
(*                   result / description / position                         *)
(*   fetchone / fetchmany(k) / fetchall    as in Cursor.tla, but delivering  *)
(*                   the actual rows Run produced                            *)
(* A statement is a value: executing the same statement again - on another   *)
(* cursor, after other statements, after the table was replaced - gives what  *)
(* Run gives for (statement, table registered now), nothing else.            *)
(* The mechanism-grain modules refine the atomic `Run` into the steps the    *)
(* code takes; this module is what every recorder's `execute` / `fetch*`     *)
(* events are finally checked against (Trace_Beanquery).                     *)
(***************************************************************************)
EXTENDS BQLSelect

CONSTANTS NCursors, TableNames, TableValues, Queries, FetchSizes,
          Variant      \* "shipped" | "cachebyname" (a per-connection compile cache keyed by the table NAME: must be refuted)
\* a table value: [sch |-> [column -> type], cols |-> <<declaration order>>, rows |-> <<[column -> value]>>]

Cursors == 1..NCursors
Min(a, b) == IF a < b THEN a ELSE b
EncV(x) == <<x.t, x.n, x.d, x.s>>
EncRows(rs) == [a \in 1..Len(rs) |-> [b \in 1..Len(rs[a]) |-> EncV(rs[a][b])]]

VARIABLES
    tables,                                      \* name -> <<>> (not registered) | <<table value>>
    executed, result, buf, pos, desc, fetched,   \* per cursor, as in Cursor.tla (rows are real rows here)
    out,                                         \* [op, c, val, err]
    cache                                        \* variant "cachebyname" only: name -> the table value first compiled against

cvars == <<executed, result, buf, pos, desc, fetched>>
vars == <<tables, executed, result, buf, pos, desc, fetched, out, cache>>

Init ==
    /\ tables = [n \in TableNames |-> <<>>]
    /\ executed = [c \in Cursors |-> FALSE]
    /\ result = [c \in Cursors |-> <<>>]
    /\ buf = [c \in Cursors |-> <<>>]
    /\ pos = [c \in Cursors |-> 0]
    /\ desc = [c \in Cursors |-> <<>>]
    /\ fetched = [c \in Cursors |-> <<>>]
    /\ out = [op |-> "init", c |-> 0, val |-> <<>>, err |-> ""]
    /\ cache = [n \in TableNames |-> <<>>]

Register(n, tv) ==
    /\ tables' = [tables EXCEPT ![n] = <<tv>>]
    /\ out' = [op |-> "register", c |-> 0, val |-> <<>>, err |-> ""]
    /\ UNCHANGED <<cvars, cache>>

\* what executing q against the table registered as n gives right now
Outcome(q, n) ==
    IF n \notin DOMAIN tables \/ tables[n] = <<>>
    THEN [ok |-> FALSE, err |-> "no such table", ood |-> FALSE, names |-> <<>>, types |-> <<>>, rows |-> <<>>]
    ELSE LET tv == IF Variant = "cachebyname" /\ cache[n] # <<>> THEN cache[n][1] ELSE tables[n][1] IN Run(q, tv.rows, tv.sch, tv.cols)
DescOf(r) == [j \in 1..Len(r.names) |-> <<r.names[j], r.types[j]>>]

Execute(c, q, n) ==
    LET r == Outcome(q, n) IN
    /\ ~r.ood                                    \* outside the exact-value domain: not modelled
    /\ UNCHANGED tables
    /\ cache' = IF Variant = "cachebyname" /\ n \in DOMAIN tables /\ tables[n] # <<>> /\ cache[n] = <<>> THEN [cache EXCEPT ![n] = tables[n]] ELSE cache
    /\ IF ~r.ok
       THEN /\ out' = [op |-> "execute", c |-> c, val |-> <<>>, err |-> "CompilationError"]
            /\ UNCHANGED cvars
       ELSE /\ executed' = [executed EXCEPT ![c] = TRUE]
            /\ result' = [result EXCEPT ![c] = r.rows]
            /\ buf' = [buf EXCEPT ![c] = r.rows]
            /\ pos' = [pos EXCEPT ![c] = 0]
            /\ desc' = [desc EXCEPT ![c] = DescOf(r)]
            /\ fetched' = [fetched EXCEPT ![c] = <<>>]
            /\ out' = [op |-> "execute", c |-> c, val |-> <<>>, err |-> ""]

Deliver(c, m, op) ==
    /\ out' = [op |-> op, c |-> c, val |-> SubSeq(buf[c], 1, m), err |-> ""]
    /\ buf' = [buf EXCEPT ![c] = SubSeq(buf[c], m + 1, Len(buf[c]))]
    /\ pos' = [pos EXCEPT ![c] = @ + m]
    /\ fetched' = [fetched EXCEPT ![c] = @ \o SubSeq(buf[c], 1, m)]
    /\ UNCHANGED <<tables, executed, result, desc, cache>>
FetchOne(c) == Deliver(c, Min(1, Len(buf[c])), "fetchone")
FetchMany(c, k) == Deliver(c, Min(k, Len(buf[c])), "fetchmany")
FetchAll(c) == Deliver(c, Len(buf[c]), "fetchall")

Next ==
    \/ \E n \in TableNames, tv \in TableValues : Register(n, tv)
    \/ \E c \in Cursors :
        \/ \E q \in Queries, n \in TableNames : Execute(c, q, n)
        \/ FetchOne(c)
        \/ \E k \in FetchSizes : FetchMany(c, k)
        \/ FetchAll(c)
Spec == Init /\ [][Next]_vars

(* ---- API-grain properties ---- *)
IsPrefix(s, t) == Len(s) <= Len(t) /\ s = SubSeq(t, 1, Len(s))
PrefixInv == \A c \in Cursors : IsPrefix(fetched[c], result[c]) /\ fetched[c] \o buf[c] = result[c]
RowNumberInv == \A c \in Cursors : pos[c] = Len(fetched[c])
\* every row has exactly one value per described column (C07) and conforms to the announced datatype (C04)
ShapeInv == \A c \in Cursors : \A r \in 1..Len(result[c]) :
                /\ Len(result[c][r]) = Len(desc[c])
                /\ \A j \in 1..Len(desc[c]) : result[c][r][j].t = "ood" \/ Conforms(result[c][r][j], desc[c][j][2])
\* a rejected statement changes nothing (history independence of failures)
RejectedChangesNothing ==
    [][(out'.err # "" ) => UNCHANGED <<tables, executed, result, buf, pos, desc, fetched>>]_vars
\* registering or replacing a table never reaches into what a cursor already holds
RegisterKeepsCursors == [][(out'.op = "register") => UNCHANGED cvars]_vars
\* the result of execute depends on the statement and on the table registered under the name NOW, not on the
\* connection's history: earlier statements, earlier versions of the table, other cursors (C09)
HistoryIndependent ==
    [][\A c \in Cursors : (out'.op = "execute" /\ out'.c = c /\ out'.err = "") =>
          \E q \in Queries, n \in TableNames :
              /\ tables[n] # <<>>
              /\ LET r == Run(q, tables[n][1].rows, tables[n][1].sch, tables[n][1].cols) IN
                 r.ok /\ result'[c] = r.rows /\ desc'[c] = DescOf(r)]_vars
=============================================================================
