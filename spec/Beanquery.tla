------------------------------- MODULE Beanquery -------------------------------
(***************************************************************************)
(* API grain: one connection as its users see it.  Composes the statement   *)
(* semantics (BQLSelect: Compile / Exec) with the cursor protocol (Cursor): *)
(*   execute(c, q)   compile q against the connection's table; a rejected    *)
(*                   statement raises and leaves the cursor untouched; an    *)
(*                   accepted one replaces result / description / position   *)
(*   fetchone / fetchmany(n) / fetchall / iterate    as in Cursor.tla, but   *)
(*                   delivering the actual rows Exec produced                *)
(* The mechanism-grain modules refine the atomic `Exec` into the steps the   *)
(* code takes; this module is what every recorder's `execute` / `fetch*`     *)
(* events are finally checked against (Trace_Beanquery).                     *)
(***************************************************************************)
EXTENDS BQLSelect

CONSTANTS NCursors, Sch, Table, Queries, FetchSizes

Cursors == 1..NCursors
Min(a, b) == IF a < b THEN a ELSE b
EncV(x) == <<x.t, x.n, x.d, x.s>>
EncRows(rs) == [a \in 1..Len(rs) |-> [b \in 1..Len(rs[a]) |-> EncV(rs[a][b])]]

VARIABLES
    executed, result, buf, pos, desc, fetched,   \* per cursor, as in Cursor.tla (rows are real rows here)
    out                                          \* [op, c, val, err]

vars == <<executed, result, buf, pos, desc, fetched, out>>

Init ==
    /\ executed = [c \in Cursors |-> FALSE]
    /\ result = [c \in Cursors |-> <<>>]
    /\ buf = [c \in Cursors |-> <<>>]
    /\ pos = [c \in Cursors |-> 0]
    /\ desc = [c \in Cursors |-> <<>>]
    /\ fetched = [c \in Cursors |-> <<>>]
    /\ out = [op |-> "init", c |-> 0, val |-> <<>>, err |-> ""]

Description(cq) == [j \in 1..cq.nvis |-> <<cq.ts[j].name, TypeOf(cq.ts[j].e, Sch)>>]

Execute(c, q) ==
    LET cq == Compile(q, Sch) IN
    IF ~cq.ok
    THEN /\ out' = [op |-> "execute", c |-> c, val |-> <<>>, err |-> "CompilationError"]
         /\ UNCHANGED <<executed, result, buf, pos, desc, fetched>>
    ELSE LET rows == Exec(q, cq, Table, Sch) IN
         /\ executed' = [executed EXCEPT ![c] = TRUE]
         /\ result' = [result EXCEPT ![c] = rows]
         /\ buf' = [buf EXCEPT ![c] = rows]
         /\ pos' = [pos EXCEPT ![c] = 0]
         /\ desc' = [desc EXCEPT ![c] = Description(cq)]
         /\ fetched' = [fetched EXCEPT ![c] = <<>>]
         /\ out' = [op |-> "execute", c |-> c, val |-> <<>>, err |-> ""]

Deliver(c, m, op) ==
    /\ out' = [op |-> op, c |-> c, val |-> SubSeq(buf[c], 1, m), err |-> ""]
    /\ buf' = [buf EXCEPT ![c] = SubSeq(buf[c], m + 1, Len(buf[c]))]
    /\ pos' = [pos EXCEPT ![c] = @ + m]
    /\ fetched' = [fetched EXCEPT ![c] = @ \o SubSeq(buf[c], 1, m)]
    /\ UNCHANGED <<executed, result, desc>>
FetchOne(c) == Deliver(c, Min(1, Len(buf[c])), "fetchone")
FetchMany(c, k) == Deliver(c, Min(k, Len(buf[c])), "fetchmany")
FetchAll(c) == Deliver(c, Len(buf[c]), "fetchall")

Next ==
    \E c \in Cursors :
        \/ \E q \in Queries : Execute(c, q)
        \/ FetchOne(c)
        \/ \E k \in FetchSizes : FetchMany(c, k)
        \/ FetchAll(c)
Spec == Init /\ [][Next]_vars

(* ---- API-grain properties ---- *)
IsPrefix(s, t) == Len(s) <= Len(t) /\ s = SubSeq(t, 1, Len(s))
PrefixInv == \A c \in Cursors : IsPrefix(fetched[c], result[c]) /\ fetched[c] \o buf[c] = result[c]
RowNumberInv == \A c \in Cursors : pos[c] = Len(fetched[c])
\* every row has exactly one value per described column (C07) and conforms to the announced datatype (C04)
ShapeInv == \A c \in Cursors : \A r \in 1..Len(result[c]) :
                /\ Len(result[c][r]) = Len(desc[c])
                /\ \A j \in 1..Len(desc[c]) : result[c][r][j].t = "ood" \/ Conforms(result[c][r][j], desc[c][j][2])
\* a rejected statement changes nothing (history independence of failures)
RejectedChangesNothing ==
    [][(out'.err # "" ) => UNCHANGED <<executed, result, buf, pos, desc, fetched>>]_vars
\* the result of execute depends on the statement and the data only, not on the cursor's history (C09)
HistoryIndependent ==
    [][\A c \in Cursors : (out'.op = "execute" /\ out'.c = c /\ out'.err = "") =>
          \E q \in Queries : Compile(q, Sch).ok /\ result'[c] = Exec(q, Compile(q, Sch), Table, Sch)]_vars
=============================================================================
