CONSTANT Route = "shared"
SPECIFICATION Spec
INVARIANT AcceptInv
INVARIANT Emit
CHECK_DEADLOCK FALSE
