------------------------------- MODULE BQLSelect -------------------------------
(***************************************************************************)
(* SELECT: static validation / reference resolution (compiler.py) and the   *)
(* execution mechanism (query_execute.py: scan, group, aggregate, HAVING,   *)
(* multi-pass sort, projection, DISTINCT, LIMIT, PIVOT) -- C01 C02 C03 C05  *)
(* C07 C15.                                                                 *)
(*                                                                         *)
(* Source-level query q:                                                    *)
(*   targets  : Seq([e, as])            as = "" when there is no alias       *)
(*   where    : E or NoE                                                     *)
(*   group    : Seq(Ref)   having : E or NoE                                 *)
(*   order    : Seq([r : Ref, desc : BOOLEAN])                               *)
(*   pivot    : Seq(Ref) of length 0 or 2                                    *)
(*   distinct : BOOLEAN    limit : -1 (none) or n >= 0                       *)
(*   Ref = [k |-> "idx", i |-> n]  |  [k |-> "expr", e |-> E]                *)
(*         (a bare column reference is an expr Ref holding Col(name):       *)
(*          it denotes the target of that NAME if there is one)             *)
(***************************************************************************)
EXTENDS BQLExpr

RefIdx(i) == [k |-> "idx", i |-> i]
RefE(e) == [k |-> "expr", e |-> e]

RECURSIVE IsAgg(_)
IsAgg(e) ==
    CASE e.k = "agg" -> TRUE
      [] e.k = "un" -> IsAgg(e.a)
      [] e.k = "bin" -> IsAgg(e.a) \/ IsAgg(e.b)
      [] e.k = "between" -> IsAgg(e.a) \/ IsAgg(e.lo) \/ IsAgg(e.hi)
      [] e.k \in {"and", "or", "call"} -> \E i \in 1..Len(e.args) : IsAgg(e.args[i])
      [] e.k = "inlist" -> IsAgg(e.a)
      [] OTHER -> FALSE
RECURSIVE ColsOutsideAgg(_)
ColsOutsideAgg(e) ==          \* does e read a column that is not below an aggregate?
    CASE e.k = "col" -> TRUE
      [] e.k = "un" -> ColsOutsideAgg(e.a)
      [] e.k = "bin" -> ColsOutsideAgg(e.a) \/ ColsOutsideAgg(e.b)
      [] e.k = "between" -> ColsOutsideAgg(e.a) \/ ColsOutsideAgg(e.lo) \/ ColsOutsideAgg(e.hi)
      [] e.k \in {"and", "or", "call"} -> \E i \in 1..Len(e.args) : ColsOutsideAgg(e.args[i])
      [] e.k = "inlist" -> ColsOutsideAgg(e.a)
      [] OTHER -> FALSE
RECURSIVE AggOfAgg(_)
AggOfAgg(e) ==
    CASE e.k = "agg" -> e.a # Star /\ IsAgg(e.a)
      [] e.k = "un" -> AggOfAgg(e.a)
      [] e.k = "bin" -> AggOfAgg(e.a) \/ AggOfAgg(e.b)
      [] e.k = "between" -> AggOfAgg(e.a) \/ AggOfAgg(e.lo) \/ AggOfAgg(e.hi)
      [] e.k \in {"and", "or", "call"} -> \E i \in 1..Len(e.args) : AggOfAgg(e.args[i])
      [] e.k = "inlist" -> AggOfAgg(e.a)
      [] OTHER -> FALSE

TName(t) == IF t.as # "" THEN t.as ELSE IF t.e.k = "col" THEN t.e.n ELSE "?"
\* index (1-based) of the LAST target in ts bearing that name, 0 if none (a name map keeps the last)
LastNamed(ts, n) ==
    IF \E i \in 1..Len(ts) : ts[i].name = n /\ ts[i].vis
    THEN CHOOSE i \in 1..Len(ts) : ts[i].name = n /\ ts[i].vis /\ \A j \in (i + 1)..Len(ts) : ~(ts[j].name = n /\ ts[j].vis)
    ELSE 0
FirstEqual(ts, e) ==
    IF \E i \in 1..Len(ts) : ts[i].e = e
    THEN CHOOSE i \in 1..Len(ts) : ts[i].e = e /\ \A j \in 1..(i - 1) : ts[j].e # e
    ELSE 0
Tgt(e, name, vis) == [e |-> e, name |-> name, vis |-> vis, agg |-> IsAgg(e)]
Fail(why) == [ok |-> FALSE, err |-> why]
Hashable(t) == t # "list"

-----------------------------------------------------------------------------
(* Compilation as the code orders it: targets, WHERE, GROUP BY (+ HAVING), ORDER BY, coverage, PIVOT.
   Each phase is a function from the accumulated state to a new state or a failure. *)
CompileTargets(q, sch) ==
    LET n == Len(q.targets)
        bad(i) == LET e == q.targets[i].e IN
                  IF TypeOf(e, sch) = ERR THEN "type"
                  ELSE IF IsAgg(e) /\ ColsOutsideAgg(e) THEN "mixed"
                  ELSE IF AggOfAgg(e) THEN "aggofagg" ELSE ""
    IN IF n = 0 THEN Fail("notargets")
       ELSE IF \E i \in 1..n : bad(i) # ""
       THEN Fail(bad(CHOOSE i \in 1..n : bad(i) # "" /\ \A j \in 1..(i - 1) : bad(j) = ""))
       ELSE [ok |-> TRUE, ts |-> [i \in 1..n |-> Tgt(q.targets[i].e, TName(q.targets[i]), TRUE)]]

CompileWhere(q, sch) ==
    IF q.where = NoE THEN "" ELSE IF TypeOf(q.where, sch) = ERR THEN "type"
    ELSE IF IsAgg(q.where) THEN "aggwhere" ELSE ""

\* one GROUP BY reference against the targets accumulated so far: <<err, ts', index>>
ResolveGroupRef(ts, nvis, r, sch) ==
    IF r.k = "idx" THEN
        (IF r.i >= 1 /\ r.i <= nvis THEN <<"", ts, r.i>> ELSE <<"groupidx", ts, 0>>)
    ELSE IF r.e.k = "col" /\ LastNamed(SubSeq(ts, 1, nvis), r.e.n) # 0
         THEN <<"", ts, LastNamed(SubSeq(ts, 1, nvis), r.e.n)>>
    ELSE IF TypeOf(r.e, sch) = ERR THEN <<"type", ts, 0>>
    ELSE IF IsAgg(r.e) THEN <<"groupagg", ts, 0>>
    ELSE IF FirstEqual(ts, r.e) # 0 THEN <<"", ts, FirstEqual(ts, r.e)>>
    ELSE <<"", Append(ts, Tgt(r.e, "", FALSE)), Len(ts) + 1>>
RECURSIVE GroupLoop(_, _, _, _, _, _)
GroupLoop(refs, k, ts, nvis, gidx, sch) ==
    IF k > Len(refs) THEN [ok |-> TRUE, ts |-> ts, gidx |-> gidx]
    ELSE LET r == ResolveGroupRef(ts, nvis, refs[k], sch) IN
         IF r[1] # "" THEN Fail(r[1])
         ELSE IF r[2][r[3]].agg THEN Fail("groupagg")
         ELSE IF ~Hashable(TypeOf(r[2][r[3]].e, sch)) THEN Fail("unhashable")
         ELSE GroupLoop(refs, k + 1, r[2], nvis, Append(gidx, r[3]), sch)

\* gmode: "none" (not an aggregate query) | "agg" (group indexes in gidx, possibly empty)
CompileGroup(q, ts, sch) ==
    IF Len(q.group) > 0 THEN
        LET g == GroupLoop(q.group, 1, ts, Len(ts), <<>>, sch) IN
        IF ~g.ok THEN g
        ELSE IF q.having = NoE THEN [ok |-> TRUE, ts |-> g.ts, gmode |-> "agg", gidx |-> g.gidx, hidx |-> 0]
        ELSE IF TypeOf(q.having, sch) = ERR THEN Fail("type")
        ELSE IF ~IsAgg(q.having) THEN Fail("havingnotagg")
        ELSE [ok |-> TRUE, ts |-> Append(g.ts, Tgt(q.having, "", FALSE)), gmode |-> "agg", gidx |-> g.gidx,
              hidx |-> Len(g.ts) + 1]
    ELSE IF \E i \in 1..Len(ts) : ts[i].agg THEN
        \* implicit GROUP BY: the non-aggregate targets (none when all targets are aggregates)
        [ok |-> TRUE, ts |-> ts, gmode |-> "agg", hidx |-> 0,
         gidx |-> SelectSeq([i \in 1..Len(ts) |-> i], LAMBDA i : ~ts[i].agg)]
    ELSE [ok |-> TRUE, ts |-> ts, gmode |-> "none", gidx |-> <<>>, hidx |-> 0]

ResolveOrderRef(ts, nvis, r, sch) ==
    IF r.k = "idx" THEN
        (IF r.i >= 1 /\ r.i <= nvis THEN <<"", ts, r.i>> ELSE <<"orderidx", ts, 0>>)
    ELSE IF r.e.k = "col" /\ LastNamed(SubSeq(ts, 1, nvis), r.e.n) # 0
         THEN <<"", ts, LastNamed(SubSeq(ts, 1, nvis), r.e.n)>>
    ELSE IF TypeOf(r.e, sch) = ERR THEN <<"type", ts, 0>>
    ELSE IF FirstEqual(ts, r.e) # 0 THEN <<"", ts, FirstEqual(ts, r.e)>>
    ELSE <<"", Append(ts, Tgt(r.e, "", FALSE)), Len(ts) + 1>>
RECURSIVE OrderLoop(_, _, _, _, _, _)
OrderLoop(specs, k, ts, nvis, ospec, sch) ==
    IF k > Len(specs) THEN [ok |-> TRUE, ts |-> ts, ospec |-> ospec]
    ELSE LET r == ResolveOrderRef(ts, nvis, specs[k].r, sch) IN
         IF r[1] # "" THEN Fail(r[1])
         ELSE OrderLoop(specs, k + 1, r[2], nvis, Append(ospec, <<r[3], specs[k].desc>>), sch)

SeqToSet(s) == {s[i] : i \in 1..Len(s)}
ResolvePivotRef(ts, nvis, r) ==
    IF r.k = "idx" THEN (IF r.i >= 1 /\ r.i <= nvis THEN r.i ELSE 0)
    ELSE IF r.e.k = "col" THEN LastNamed(SubSeq(ts, 1, nvis), r.e.n) ELSE 0

Compile(q, sch) ==
    LET t == CompileTargets(q, sch) IN
    IF ~t.ok THEN t
    ELSE LET nvis == Len(t.ts) w == CompileWhere(q, sch) IN
    IF w # "" THEN Fail(w)
    ELSE LET g == CompileGroup(q, t.ts, sch) IN
    IF ~g.ok THEN g
    ELSE LET o == OrderLoop(q.order, 1, g.ts, nvis, <<>>, sch) IN
    IF ~o.ok THEN o
    ELSE LET ts == o.ts
             nonagg == {i \in 1..Len(ts) : ~ts[i].agg}
         IN
    IF \E i \in (nvis + 1)..Len(ts) : ts[i].agg /\ (ColsOutsideAgg(ts[i].e) \/ AggOfAgg(ts[i].e)) THEN Fail("mixed")
    ELSE IF g.gmode = "agg" /\ nonagg # SeqToSet(g.gidx) THEN Fail("coverage")
    ELSE IF g.gmode = "none" /\ \E i \in 1..Len(ts) : ts[i].agg THEN Fail("coverage")
    ELSE IF Len(q.pivot) = 0 THEN
        [ok |-> TRUE, err |-> "", ts |-> ts, nvis |-> nvis, gmode |-> g.gmode, gidx |-> g.gidx, hidx |-> g.hidx,
         ospec |-> o.ospec, pivot |-> <<>>]
    ELSE LET p1 == ResolvePivotRef(ts, nvis, q.pivot[1]) p2 == ResolvePivotRef(ts, nvis, q.pivot[2]) IN
    IF p1 = 0 \/ p2 = 0 THEN Fail("pivotref")
    ELSE IF p1 = p2 THEN Fail("pivotsame")
    ELSE IF g.gmode # "agg" \/ p2 \notin SeqToSet(g.gidx) THEN Fail("pivotgroup")
    ELSE [ok |-> TRUE, err |-> "", ts |-> ts, nvis |-> nvis, gmode |-> g.gmode, gidx |-> g.gidx, hidx |-> g.hidx,
          ospec |-> o.ospec, pivot |-> <<p1, p2>>]

-----------------------------------------------------------------------------
(* The rule list of the statement (C05), declaratively: a query is valid iff ... *)
RefTargetIdx(q, r, nvis) ==       \* the visible target a reference denotes by position or by name (0: none)
    IF r.k = "idx" THEN (IF r.i >= 1 /\ r.i <= nvis THEN r.i ELSE 0)
    ELSE IF r.e.k = "col" /\ \E i \in 1..nvis : TName(q.targets[i]) = r.e.n
         THEN CHOOSE i \in 1..nvis : TName(q.targets[i]) = r.e.n /\ \A j \in (i + 1)..nvis : TName(q.targets[j]) # r.e.n
         ELSE 0
RefExpr(q, r, nvis) == IF RefTargetIdx(q, r, nvis) # 0 THEN q.targets[RefTargetIdx(q, r, nvis)].e ELSE r.e
RefDefined(q, r, nvis) == RefTargetIdx(q, r, nvis) # 0 \/ r.k = "expr"
Valid(q, sch) ==
    LET nvis == Len(q.targets)
        texprs == {q.targets[i].e : i \in 1..nvis}
        gexprs == {RefExpr(q, q.group[k], nvis) : k \in {k \in 1..Len(q.group) : RefDefined(q, q.group[k], nvis)}}
        oexprs == {RefExpr(q, q.order[k].r, nvis) : k \in {k \in 1..Len(q.order) : RefDefined(q, q.order[k].r, nvis)}}
        allx == texprs \cup oexprs \cup (IF q.having = NoE THEN {} ELSE {q.having})
        aggquery == Len(q.group) > 0 \/ \E e \in allx : IsAgg(e)
        \* with no GROUP BY clause the non-aggregate targets are the (implicit) grouping keys
        keys == IF Len(q.group) > 0 THEN gexprs
                ELSE IF \E e \in texprs : IsAgg(e) THEN {e \in texprs : ~IsAgg(e)} ELSE {}
    IN
    /\ nvis >= 1
    \* every name resolves and every operator / function has an overload for its operand types
    /\ \A e \in texprs : TypeOf(e, sch) # ERR
    /\ q.where # NoE => TypeOf(q.where, sch) # ERR
    /\ q.having # NoE => TypeOf(q.having, sch) # ERR
    \* positional references in range
    /\ \A k \in 1..Len(q.group) : RefDefined(q, q.group[k], nvis)
    /\ \A k \in 1..Len(q.order) : RefDefined(q, q.order[k].r, nvis)
    /\ \A e \in gexprs \cup oexprs : TypeOf(e, sch) # ERR
    \* no aggregate in WHERE or in a grouping key; no aggregate of an aggregate; no mixing
    /\ q.where # NoE => ~IsAgg(q.where)
    /\ \A e \in gexprs : ~IsAgg(e) /\ Hashable(TypeOf(e, sch))
    /\ \A e \in allx : ~AggOfAgg(e) /\ ~(IsAgg(e) /\ ColsOutsideAgg(e))
    \* HAVING only with GROUP BY, and aggregate
    /\ q.having # NoE => (Len(q.group) > 0 /\ IsAgg(q.having))
    \* every non-aggregate target / ordering expression is a grouping key of an aggregate query,
    \* and a non-aggregate query has no aggregate ordering expression
    /\ aggquery => \A e \in texprs \cup oexprs : IsAgg(e) \/ e \in keys
    /\ aggquery => \A e \in keys : e \in texprs \cup oexprs \cup gexprs
    \* PIVOT BY: two distinct visible targets, the second one a grouping key
    /\ Len(q.pivot) # 0 =>
         LET p1 == RefTargetIdx(q, q.pivot[1], nvis) p2 == RefTargetIdx(q, q.pivot[2], nvis) IN
         /\ Len(q.pivot) = 2 /\ p1 # 0 /\ p2 # 0 /\ p1 # p2
         /\ aggquery /\ q.targets[p2].e \in keys /\ ~IsAgg(q.targets[p2].e)

-----------------------------------------------------------------------------
(* Aggregate folds over a group's rows in source order *)
NonNull(vals) == SelectSeq(vals, LAMBDA v : v.t # "null")
RECURSIVE SumSeq(_, _)
SumSeq(vals, zero) == IF vals = <<>> THEN zero ELSE
    LET r == SumSeq(Tail(vals), zero) IN IF r.t = "ood" \/ Head(vals).t = "ood" THEN OOD ELSE NumAdd(Head(vals), r)
RECURSIVE MinSeq(_)
MinSeq(vals) == IF Len(vals) = 1 THEN vals[1] ELSE
    LET m == MinSeq(Tail(vals)) IN IF ValLess(m, Head(vals)) THEN m ELSE Head(vals)
RECURSIVE MaxSeq(_)
MaxSeq(vals) == IF Len(vals) = 1 THEN vals[1] ELSE
    LET m == MaxSeq(Tail(vals)) IN IF ValLess(Head(vals), m) THEN m ELSE Head(vals)
AggVal(f, a, rows, sch) ==
    IF a = Star THEN IntV(Len(rows))
    ELSE LET vals == [i \in 1..Len(rows) |-> Eval(a, rows[i], sch)]
             nn == NonNull(vals)
             t == TypeOf(a, sch)
         IN IF \E i \in 1..Len(vals) : vals[i].t = "ood" THEN OOD
            ELSE CASE f = "count" -> IntV(Len(nn))
                   [] f = "sum" -> SumSeq(nn, IF t = "dec" THEN Rat(0, 1) ELSE IntV(0))
                   [] f = "min" -> IF nn = <<>> THEN Null ELSE MinSeq(nn)
                   [] f = "max" -> IF nn = <<>> THEN Null ELSE MaxSeq(nn)
                   [] f = "first" -> IF nn = <<>> THEN Null ELSE nn[1]
                   [] f = "last" -> vals[Len(vals)]
\* replace every aggregate node by the constant it folds to over `rows`
RECURSIVE Subst(_, _, _)
Subst(e, rows, sch) ==
    CASE e.k = "agg" -> Const(AggVal(e.f, e.a, rows, sch))
      [] e.k = "un" -> Un(e.op, Subst(e.a, rows, sch))
      [] e.k = "bin" -> Bin(e.op, Subst(e.a, rows, sch), Subst(e.b, rows, sch))
      [] e.k = "between" -> Between(Subst(e.a, rows, sch), Subst(e.lo, rows, sch), Subst(e.hi, rows, sch))
      [] e.k \in {"and", "or"} -> [k |-> e.k, args |-> [i \in 1..Len(e.args) |-> Subst(e.args[i], rows, sch)]]
      [] e.k = "call" -> Call(e.f, [i \in 1..Len(e.args) |-> Subst(e.args[i], rows, sch)])
      [] OTHER -> e
\* the value of an aggregate target over a group: types are those of the un-substituted expression, so that
\* the same overloads (and casts) are used
RECURSIVE EvalG(_, _, _)
EvalG(e, rows, sch) ==
    CASE e.k = "agg" -> AggVal(e.f, e.a, rows, sch)
      [] e.k = "const" -> e.v
      [] e.k = "un" ->
            LET a == EvalG(e.a, rows, sch) IN
            IF a.t = "ood" THEN OOD
            ELSE IF e.op = "isnull" THEN BoolV(a.t = "null")
            ELSE IF e.op = "isnotnull" THEN BoolV(a.t # "null")
            ELSE IF e.op = "not" THEN (IF a.t = "null" THEN BoolV(TRUE) ELSE BoolV(~Truthy(a)))
            ELSE IF a.t = "null" THEN Null
            ELSE IF a.t = "dec" THEN Rat(-a.n, a.d) ELSE IntV(-a.n)
      [] e.k = "bin" ->
            LET a == EvalG(e.a, rows, sch) IN
            IF a.t \in {"ood", "null"} THEN a
            ELSE LET b == EvalG(e.b, rows, sch) IN
                 IF b.t \in {"ood", "null"} THEN b ELSE BinApply(e.op, a, b)
      [] e.k = "and" -> IF \E i \in 1..Len(e.args) : EvalG(e.args[i], rows, sch).t = "ood" THEN OOD
                        ELSE TV(AndTable([i \in 1..Len(e.args) |-> VT(EvalG(e.args[i], rows, sch))]))
      [] e.k = "or" -> IF \E i \in 1..Len(e.args) : EvalG(e.args[i], rows, sch).t = "ood" THEN OOD
                       ELSE TV(OrTable([i \in 1..Len(e.args) |-> VT(EvalG(e.args[i], rows, sch))]))
      [] OTHER -> OOD          \* other forms over aggregates are outside the generated domain

-----------------------------------------------------------------------------
(* Execution mechanism, one step function per phase of execute_select.  State `st`:
     phase, i (next source row), rows (full-width rows accumulated), keys / groups (aggregate store in first-
     appearance order), pass (remaining sort passes), out *)
KeyOf(cq, row, sch) == [k \in 1..Len(cq.gidx) |-> Eval(cq.ts[cq.gidx[k]].e, row, sch)]
PosIn(s, x) == IF \E i \in 1..Len(s) : s[i] = x THEN CHOOSE i \in 1..Len(s) : s[i] = x ELSE 0
WhereOK(q, row, sch) == q.where = NoE \/ Qualifies(q.where, row, sch)
WhereOOD(q, row, sch) == q.where # NoE /\ Eval(q.where, row, sch).t = "ood"

\* scan: non-aggregate -> one full-width row per qualifying source row, in source order
ScanPlain(q, cq, table, sch) ==
    LET sel == SelectSeq(table, LAMBDA r : WhereOK(q, r, sch)) IN
    [i \in 1..Len(sel) |-> [j \in 1..Len(cq.ts) |-> Eval(cq.ts[j].e, sel[i], sch)]]
\* scan: aggregate -> groups keyed by the tuple of grouping values, in order of first appearance
RECURSIVE GroupScan(_, _, _, _, _, _, _)
GroupScan(q, cq, table, i, keys, groups, sch) ==
    IF i > Len(table) THEN <<keys, groups>>
    ELSE IF ~WhereOK(q, table[i], sch) THEN GroupScan(q, cq, table, i + 1, keys, groups, sch)
    ELSE LET key == KeyOf(cq, table[i], sch) p == PosIn(keys, key) IN
         IF p = 0 THEN GroupScan(q, cq, table, i + 1, Append(keys, key), Append(groups, <<table[i]>>), sch)
         ELSE GroupScan(q, cq, table, i + 1, keys, [groups EXCEPT ![p] = Append(@, table[i])], sch)
FinalizeGroups(q, cq, keys, groups, sch) ==
    LET full == [g \in 1..Len(keys) |->
                    [j \in 1..Len(cq.ts) |->
                        IF PosIn(cq.gidx, j) # 0 THEN keys[g][PosIn(cq.gidx, j)]
                        ELSE EvalG(cq.ts[j].e, groups[g], sch)]]
    IN IF cq.hidx = 0 THEN full
       ELSE \* rows whose HAVING value is out of domain are kept so that ExecOOD sees them
            SelectSeq(full, LAMBDA r : r[cq.hidx].t = "ood" \/ (r[cq.hidx].t # "null" /\ Truthy(r[cq.hidx])))

\* sort key order with NULL smallest; values of one column have one type
KeyLess(a, b) == IF a.t = "null" THEN b.t # "null" ELSE IF b.t = "null" THEN FALSE ELSE ValLess(a, b)
KeyEq(a, b) == IF a.t = "null" \/ b.t = "null" THEN a.t = b.t ELSE ValEq(a, b)
\* lexicographic "less" on the index list idxs (all ascending)
RECURSIVE TupLess(_, _, _, _)
TupLess(r1, r2, idxs, k) ==
    IF k > Len(idxs) THEN FALSE
    ELSE IF KeyLess(r1[idxs[k]], r2[idxs[k]]) THEN TRUE
    ELSE IF KeyLess(r2[idxs[k]], r1[idxs[k]]) THEN FALSE
    ELSE TupLess(r1, r2, idxs, k + 1)
\* stable insertion sort by TupLess; `rev` models list.sort(reverse=True): descending, ties keep their order
RECURSIVE InsertSorted(_, _, _, _)
InsertSorted(sorted, r, idxs, rev) ==
    IF sorted = <<>> THEN <<r>>
    ELSE LET last == sorted[Len(sorted)]
             before == IF rev THEN TupLess(last, r, idxs, 1) ELSE TupLess(r, last, idxs, 1)
         IN IF before THEN Append(InsertSorted(SubSeq(sorted, 1, Len(sorted) - 1), r, idxs, rev), last)
            ELSE Append(sorted, r)
SortRun(rows, idxs, rev) ==
    LET n == Len(rows)
        RECURSIVE Build(_)
        Build(k) == IF k = 0 THEN <<>> ELSE InsertSorted(Build(k - 1), rows[k], idxs, rev)
    IN Build(n)
\* the passes: walk the order spec from the right, maximal runs of equal direction, one stable sort per run
RECURSIVE SortPasses(_, _, _)
SortPasses(rows, ospec, hi) ==          \* hi = index of the last not yet processed spec entry
    IF hi = 0 THEN rows
    ELSE LET dir == ospec[hi][2]
             lo == CHOOSE l \in 1..hi : (\A m \in l..hi : ospec[m][2] = dir) /\ (l = 1 \/ ospec[l - 1][2] # dir)
             idxs == [m \in 1..(hi - lo + 1) |-> ospec[lo + m - 1][1]]
         IN SortPasses(SortRun(rows, idxs, dir), ospec, lo - 1)
Project(rows, cq) == [i \in 1..Len(rows) |-> [j \in 1..cq.nvis |-> rows[i][j]]]
RowEq(r1, r2) == \A j \in 1..Len(r1) : KeyEq(r1[j], r2[j])
RECURSIVE Uniq(_, _)
Uniq(rows, acc) ==
    IF rows = <<>> THEN acc
    ELSE IF \E i \in 1..Len(acc) : RowEq(acc[i], Head(rows)) THEN Uniq(Tail(rows), acc)
    ELSE Uniq(Tail(rows), Append(acc, Head(rows)))
Cut(rows, n) == IF n < 0 \/ n >= Len(rows) THEN rows ELSE SubSeq(rows, 1, n)

\* PIVOT: keys = ascending distinct values of the second column; one row per distinct first value ascending
DistinctAsc(vals) ==
    LET RECURSIVE Ins(_, _)
        Ins(sorted, v) == IF \E i \in 1..Len(sorted) : KeyEq(sorted[i], v) THEN sorted
                          ELSE LET lt == SelectSeq(sorted, LAMBDA x : KeyLess(x, v))
                                   ge == SelectSeq(sorted, LAMBDA x : ~KeyLess(x, v))
                               IN lt \o <<v>> \o ge
        RECURSIVE Go(_)
        Go(k) == IF k = 0 THEN <<>> ELSE Ins(Go(k - 1), vals[k])
    IN Go(Len(vals))
PivotRows(rows, nvis, p1, p2) ==
    LET others == SelectSeq([j \in 1..nvis |-> j], LAMBDA j : j # p1 /\ j # p2)
        no == Len(others)
        k2 == DistinctAsc([i \in 1..Len(rows) |-> rows[i][p2]])
        k1 == DistinctAsc([i \in 1..Len(rows) |-> rows[i][p1]])
        cell(r, c) ==        \* r-th first-key, c-th output column (c >= 2)
            LET kk == ((c - 2) \div no) + 1  oo == ((c - 2) % no) + 1
                m == SelectSeq(rows, LAMBDA x : KeyEq(x[p1], k1[r]) /\ KeyEq(x[p2], k2[kk]))
            IN IF m = <<>> THEN Null ELSE m[Len(m)][others[oo]]
    IN [r \in 1..Len(k1) |-> [c \in 1..(1 + Len(k2) * no) |-> IF c = 1 THEN k1[r] ELSE cell(r, c)]]

FullRows(q, cq, table, sch) ==
    IF cq.gmode = "none" THEN ScanPlain(q, cq, table, sch)
    ELSE LET gs == GroupScan(q, cq, table, 1, <<>>, <<>>, sch) IN FinalizeGroups(q, cq, gs[1], gs[2], sch)
(* The header of a pivoted result: `first/second`, then per second-key value (ascending, NULL first) one column per
   remaining visible column, named `value` when exactly one visible column remains and `value/column` otherwise
   (helper targets of HAVING / ORDER BY are not columns), typed like the remaining columns.  Key values are written
   as Python writes them; names are <<>> (not judged) when a key is a decimal or a date. *)
KeyText(v) == CASE v.t = "int" -> IntToStr(v.n) [] v.t = "str" -> v.s [] v.t = "null" -> "None"
                [] v.t = "bool" -> (IF v.n = 1 THEN "True" ELSE "False") [] OTHER -> "?"
PivotHead(rows, names, types, nvis, p1, p2) ==
    LET others == SelectSeq([j \in 1..nvis |-> j], LAMBDA j : j # p1 /\ j # p2)
        no == Len(others)
        k2 == DistinctAsc([i \in 1..Len(rows) |-> rows[i][p2]])
        ok == \A i \in 1..Len(k2) : k2[i].t \in {"int", "str", "null", "bool"}
        one(kk) == IF no = 1 THEN <<KeyText(k2[kk])>> ELSE [o \in 1..no |-> KeyText(k2[kk]) \o "/" \o names[others[o]]]
        onet == [o \in 1..no |-> types[others[o]]]
        RECURSIVE CatN(_)
        CatN(kk) == IF kk = 0 THEN <<>> ELSE CatN(kk - 1) \o one(kk)
        RECURSIVE CatT(_)
        CatT(kk) == IF kk = 0 THEN <<>> ELSE CatT(kk - 1) \o onet
    IN [names |-> IF ok THEN <<names[p1] \o "/" \o names[p2]>> \o CatN(Len(k2)) ELSE <<>>,
        types |-> <<types[p1]>> \o CatT(Len(k2))]
ExecCut(q, cq, table, sch) ==
    LET full == FullRows(q, cq, table, sch)
        sorted == IF Len(cq.ospec) = 0 THEN full ELSE SortPasses(full, cq.ospec, Len(cq.ospec))
        proj == Project(sorted, cq)
        dist == IF q.distinct THEN Uniq(proj, <<>>) ELSE proj
    IN Cut(dist, q.limit)
Exec(q, cq, table, sch) ==
    LET cut == ExecCut(q, cq, table, sch)
    IN IF Len(cq.pivot) = 0 THEN cut ELSE PivotRows(cut, cq.nvis, cq.pivot[1], cq.pivot[2])
HasOOD(rows) == \E i \in 1..Len(rows) : \E j \in 1..Len(rows[i]) : rows[i][j].t = "ood"
AnyWhereOOD(q, table, sch) == \E i \in 1..Len(table) : WhereOOD(q, table[i], sch)
\* a statement is outside the model's domain when any evaluated cell (visible or hidden: sort keys, HAVING) is
TableOOD(table) == \E i \in 1..Len(table) : \E c \in DOMAIN table[i] : table[i][c].t = "str" /\ ~StrOK(table[i][c].s)
ExecOOD(q, cq, table, sch) == TableOOD(table) \/ AnyWhereOOD(q, table, sch) \/ HasOOD(FullRows(q, cq, table, sch))

-----------------------------------------------------------------------------
(* Nesting (C08) and the wildcard (C07) on top of Compile / Exec.
   A query may carry  sub  (an inner query: FROM (sub); NoE or absent: the base table) and  star  (TRUE: the wildcard target).
   FROM (q) iterates the rows q returns, as a table whose columns are q's visible outputs, addressed by their
   names, in order, typed alike; the wildcard expands to the columns of the table in declaration order. *)
HasSub(q) == "sub" \in DOMAIN q /\ q.sub # NoE
IsStar(q) == "star" \in DOMAIN q /\ q.star
Flat(q, cols) == IF IsStar(q) THEN [q EXCEPT !.targets = [j \in 1..Len(cols) |-> [e |-> Col(cols[j]), as |-> ""]]] ELSE q
RunFlat(q, table, sch, cols) ==
    LET fq == Flat(q, cols) cq == Compile(fq, sch) IN
    IF ~cq.ok THEN [ok |-> FALSE, err |-> cq.err, ood |-> FALSE, names |-> <<>>, types |-> <<>>, rows |-> <<>>]
    ELSE LET names == [j \in 1..cq.nvis |-> cq.ts[j].name]
             types == [j \in 1..cq.nvis |-> TypeOf(cq.ts[j].e, sch)] IN
         IF ExecOOD(fq, cq, table, sch) THEN [ok |-> TRUE, err |-> "", ood |-> TRUE, names |-> names, types |-> types, rows |-> <<>>]
         ELSE IF Len(cq.pivot) = 0 THEN [ok |-> TRUE, err |-> "", ood |-> FALSE, names |-> names, types |-> types, rows |-> Exec(fq, cq, table, sch)]
         ELSE LET cut == ExecCut(fq, cq, table, sch)
                  hd == PivotHead(cut, names, types, cq.nvis, cq.pivot[1], cq.pivot[2]) IN
              [ok |-> TRUE, err |-> "", ood |-> FALSE, names |-> hd.names, types |-> hd.types,
               rows |-> PivotRows(cut, cq.nvis, cq.pivot[1], cq.pivot[2])]
AllDistinct(s) == \A i, j \in 1..Len(s) : i # j => s[i] # s[j]
RECURSIVE Run(_, _, _, _)
RECURSIVE ResolveE(_, _, _, _)
(* x [NOT] IN (subquery): the subquery is evaluated once, against the same base table, before the enclosing statement
   runs; it must compile and have exactly one output column; no row at all makes the result NULL. *)
InList(a, l, neg) == [k |-> "inlist", a |-> a, l |-> l, neg |-> neg]
Bad == [k |-> "bad"]
ResolveE(e, table, sch, cols) ==
    CASE e.k = "insub" ->
            LET r == Run(e.q, table, sch, cols) IN
            IF ~r.ok \/ Len(e.q.pivot) # 0 \/ Len(r.names) # 1 THEN Bad          \* a pivoted statement is no subquery
            ELSE InList(ResolveE(e.a, table, sch, cols),
                        IF r.ood THEN OOD ELSE IF r.rows = <<>> THEN Null
                        ELSE ListV([i \in 1..Len(r.rows) |-> r.rows[i][1]] \o <<>>), e.neg)
      [] e.k = "un" -> Un(e.op, ResolveE(e.a, table, sch, cols))
      [] e.k = "bin" -> Bin(e.op, ResolveE(e.a, table, sch, cols), ResolveE(e.b, table, sch, cols))
      [] e.k = "between" -> Between(ResolveE(e.a, table, sch, cols), ResolveE(e.lo, table, sch, cols), ResolveE(e.hi, table, sch, cols))
      [] e.k \in {"and", "or"} -> [k |-> e.k, args |-> [i \in 1..Len(e.args) |-> ResolveE(e.args[i], table, sch, cols)] \o <<>>]
      [] e.k = "call" -> Call(e.f, [i \in 1..Len(e.args) |-> ResolveE(e.args[i], table, sch, cols)] \o <<>>)
      [] e.k = "agg" -> IF e.a = Star THEN e ELSE Agg(e.f, ResolveE(e.a, table, sch, cols))
      [] OTHER -> e
ResolveRef(r, table, sch, cols) == IF r.k = "expr" THEN RefE(ResolveE(r.e, table, sch, cols)) ELSE r
ResolveQ(q, table, sch, cols) ==
    [q EXCEPT !.targets = [j \in 1..Len(q.targets) |-> [e |-> ResolveE(q.targets[j].e, table, sch, cols), as |-> q.targets[j].as]] \o <<>>,
              !.where = IF q.where = NoE THEN NoE ELSE ResolveE(q.where, table, sch, cols),
              !.having = IF q.having = NoE THEN NoE ELSE ResolveE(q.having, table, sch, cols),
              !.group = [j \in 1..Len(q.group) |-> ResolveRef(q.group[j], table, sch, cols)] \o <<>>,
              !.order = [j \in 1..Len(q.order) |-> [r |-> ResolveRef(q.order[j].r, table, sch, cols), desc |-> q.order[j].desc]] \o <<>>]
Run(q, table, sch, cols) ==
    IF ~HasSub(q) THEN RunFlat(ResolveQ(q, table, sch, cols), table, sch, cols)
    ELSE LET inner == Run(q.sub, table, sch, cols) IN
         IF ~inner.ok THEN inner
         ELSE IF Len(q.sub.pivot) # 0        \* PIVOT BY reshapes the final result of a statement: not available in a subquery
              THEN [ok |-> FALSE, err |-> "pivot in subquery", ood |-> FALSE, names |-> <<>>, types |-> <<>>, rows |-> <<>>]
         ELSE IF inner.ood THEN inner
         ELSE IF ~AllDistinct(inner.names) THEN [inner EXCEPT !.ood = TRUE]   \* duplicate inner names: not modelled
         ELSE LET n == Len(inner.names)
                  sch2 == [c \in SeqToSet(inner.names) |-> inner.types[PosIn(inner.names, c)]]
                  tab2 == [i \in 1..Len(inner.rows) |-> [c \in SeqToSet(inner.names) |-> inner.rows[i][PosIn(inner.names, c)]]]
              IN RunFlat(ResolveQ(q, table, sch, cols), tab2, sch2, inner.names)   \* IN-subqueries name the base table

-----------------------------------------------------------------------------
(* Declarative statements (C01 C02 C03 C15) about the result, checked against the mechanism by TLC *)
IsPerm(a, b) == Len(a) = Len(b) /\ \E f \in [1..Len(a) -> 1..Len(a)] :
                    (\A i, j \in 1..Len(a) : i # j => f[i] # f[j]) /\ \A i \in 1..Len(a) : a[i] = b[f[i]]
\* direction-aware lexicographic order over the whole order spec
RECURSIVE SpecLess(_, _, _, _)
SpecLess(r1, r2, ospec, k) ==
    IF k > Len(ospec) THEN FALSE
    ELSE LET a == r1[ospec[k][1]] b == r2[ospec[k][1]]
             lt == IF ospec[k][2] THEN KeyLess(b, a) ELSE KeyLess(a, b)
             gt == IF ospec[k][2] THEN KeyLess(a, b) ELSE KeyLess(b, a)
         IN IF lt THEN TRUE ELSE IF gt THEN FALSE ELSE SpecLess(r1, r2, ospec, k + 1)
\* `sorted` is the stable sort of `rows` (rows carry a unique payload in column `tag` to make positions visible)
SortedStable(rows, sorted, ospec, tag) ==
    /\ IsPerm(rows, sorted)
    /\ \A i, j \in 1..Len(sorted) : i < j =>
         /\ ~SpecLess(sorted[j], sorted[i], ospec, 1)
         /\ (~SpecLess(sorted[i], sorted[j], ospec, 1)) =>
               PosIn([m \in 1..Len(rows) |-> rows[m][tag]], sorted[i][tag])
                 < PosIn([m \in 1..Len(rows) |-> rows[m][tag]], sorted[j][tag])
=============================================================================
