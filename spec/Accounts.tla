------------------------------ MODULE Accounts ------------------------------
(* C18 -- account-name operators, transcribed from the property statement: an account name is a list of
   components joined by ":"; root(a, n) is the first n components; parent(a):leaf(a) = a; account_sortkey
   orders by account type (the position of the root among the five root types) then by name; possign flips
   the sign exactly for credit-normal accounts (Liabilities, Equity, Income).

   Optional results are sequences: <<>> = NULL, <<v>> = v.                                                 *)
EXTENDS Strings

Sep == ":"
RootNames == <<"Assets", "Liabilities", "Equity", "Income", "Expenses">>
CreditNormalRoots == {"Liabilities", "Equity", "Income"}

Comps(a) == Split(a, Sep)
JoinAcc(cs) == JoinSeq(cs, Sep)
NComps(a) == Len(Comps(a))

\* the first n components (n counts like a Python slice bound: beyond the end = all, negative = all but the last -n)
Root(a, n) == JoinAcc(SubSeq(Comps(a), 1, SliceIdx(n, NComps(a))))
Root1(a) == Root(a, 1)
\* the empty name has neither parent nor leaf
Parent(a) == IF a = "" THEN <<>> ELSE <<JoinAcc(SubSeq(Comps(a), 1, NComps(a) - 1))>>
Leaf(a) == IF a = "" THEN <<>> ELSE <<Comps(a)[NComps(a)]>>

KnownRoot(a) == \E i \in 1..5 : RootNames[i] = Comps(a)[1]
TypeIndex(a) == CHOOSE i \in 1..5 : RootNames[i] = Comps(a)[1]          \* 1..5, defined when KnownRoot(a)
\* a string whose order is (type, name): the type index is a single digit
SortKey(a) == ToString(TypeIndex(a) - 1) \o "-" \o a
SortsBefore(a, b) == TypeIndex(a) < TypeIndex(b) \/ (TypeIndex(a) = TypeIndex(b) /\ StrLess(a, b))

CreditNormal(a) == Comps(a)[1] \in CreditNormalRoots
\* x as a rational <<num, den>>
PosSign(x, a) == IF CreditNormal(a) THEN <<-x[1], x[2]>> ELSE x
=============================================================================
