------------------------------ MODULE Accounts ------------------------------
(* C18 -- account-name operators, transcribed from the property statement: an account name is a list of
   components joined by ":"; root(a, n) is the first n components; parent(a):leaf(a) = a; account_sortkey
   orders by account type (the position of the root among the five root types) then by name; possign flips
   the sign exactly for credit-normal accounts (Liabilities, Equity, Income).

   Optional results are sequences: <<>> = NULL, <<v>> = v.                                                 *)
EXTENDS Strings

Sep == ":"
RootNames == <<"Assets", "Liabilities", "Equity", "Income", "Expenses">>
CreditNormalRoots == {"Liabilities", "Equity", "Income"}

Comps(a) == Split(a, Sep)
JoinAcc(cs) == JoinSeq(cs, Sep)
NComps(a) == Len(Comps(a))

\* the first n components (n counts like a Python slice bound: beyond the end = all, negative = all but the last -n)
Root(a, n) == JoinAcc(SubSeq(Comps(a), 1, SliceIdx(n, NComps(a))))
Root1(a) == Root(a, 1)
\* the empty name has neither parent nor leaf
Parent(a) == IF a = "" THEN <<>> ELSE <<JoinAcc(SubSeq(Comps(a), 1, NComps(a) - 1))>>
Leaf(a) == IF a = "" THEN <<>> ELSE <<Comps(a)[NComps(a)]>>

KnownRoot(a) == \E i \in 1..5 : RootNames[i] = Comps(a)[1]
TypeIndex(a) == CHOOSE i \in 1..5 : RootNames[i] = Comps(a)[1]          \* 1..5, defined when KnownRoot(a)
\* a string whose order is (type, name): the type index is a single digit
SortKey(a) == ToString(TypeIndex(a) - 1) \o "-" \o a
SortsBefore(a, b) == TypeIndex(a) < TypeIndex(b) \/ (TypeIndex(a) = TypeIndex(b) /\ StrLess(a, b))

CreditNormal(a) == Comps(a)[1] \in CreditNormalRoots
\* x as a rational <<num, den>>
PosSign(x, a) == IF CreditNormal(a) THEN <<-x[1], x[2]>> ELSE x

(* ---- the five root names are OPTIONS of the ledger (name_assets, name_liabilities, name_equity, name_income,
   name_expenses): the type of an account is the POSITION of its root in the type table T of the ledger the
   query runs on (a sequence of five distinct names; RootNames is the table of a ledger that sets no option).
   Credit-normal = of type liabilities, equity or income (positions 2, 3, 4), whatever those types are called. *)
TypeTableOK(T) == Len(T) = 5 /\ \A i, j \in 1..5 : (T[i] = T[j]) => (i = j)
KnownRootT(T, a) == LET r == Comps(a)[1] IN \E i \in 1..5 : T[i] = r
TypeIndexT(T, a) == LET r == Comps(a)[1] IN CHOOSE i \in 1..5 : T[i] = r      \* defined when KnownRootT(T, a)
SortKeyT(T, a) == ToString(TypeIndexT(T, a) - 1) \o "-" \o a
SortsBeforeT(T, a, b) == TypeIndexT(T, a) < TypeIndexT(T, b) \/ (TypeIndexT(T, a) = TypeIndexT(T, b) /\ StrLess(a, b))
CreditNormalT(T, a) == TypeIndexT(T, a) \in {2, 3, 4}
PosSignT(T, x, a) == IF CreditNormalT(T, a) THEN <<-x[1], x[2]>> ELSE x
=============================================================================
