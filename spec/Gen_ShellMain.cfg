\* the 16 command-line option sets
CONSTANTS
  Lines <- LinesExtra
  LedgerQueries <- QFixed
  BadStmts <- BadFixed
  Formats <- FormatsShipped
  NonFieldAttrs <- AttrNames
  NameLookup = "fields"
  HonourQuiet = TRUE
  MainQuery = "BALANCES"
  LedgerHasErrors = TRUE
  Depth = 0
  Boots <- BootsDefault
INIT MInit
NEXT MNext
INVARIANTS EmitConsts EmitMain
CHECK_DEADLOCK FALSE
