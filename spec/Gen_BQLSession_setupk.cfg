CONSTANTS
  Stmts <- StmtsK
  StmtParams <- ParamsK
  ManyPairs <- Pairs12
  Data <- DataA
  NumberMode = "conforming"
  MaxCalls = 0
  GenTextIdx <- Idx1234
  Depth = 0
INIT HInit
NEXT HNext
INVARIANT EmitSetup
CHECK_DEADLOCK FALSE
