\* exhaustive: the full reachable settings space under the 71-letter alphabet, both entry points
CONSTANTS
  Lines <- LinesMC
  LedgerQueries <- QFixed
  BadStmts <- BadFixed
  Formats <- FormatsShipped
  NonFieldAttrs <- AttrNames
  NameLookup = "fields"
  HonourQuiet = TRUE
  MainQuery = "BALANCES"
  LedgerHasErrors = TRUE
INIT Init
NEXT Next
VIEW MCView
INVARIANTS TypeOK ShowRoundTrip MainAppliesOptions MainQuiet MainReports
PROPERTIES NoCrash InvalidChangesNothing ValidSetExact OnlySetChanges NoCrossExecution RunIsTyping BootSettings
CHECK_DEADLOCK FALSE
