\* non-vacuity: a column accessor remembering `the current row' by rowid -- TLC must find the lock-step schedule of
\* two scans over different ledgers
CONSTANTS
  Threads = {1, 2}
  CompilerScope = "per execution"
  ColumnMemo = "process-wide, keyed by rowid"
  ParserScope = "per call"
  ScanMemo = "none"
  OperandScope = "per call"
  SubqueryColumns = "per table object"
  ResultScope = "per execute call"
  JobSet = "memo"
INIT Init
NEXT Next
INVARIANTS OwnRow
CHECK_DEADLOCK FALSE
