\* non-vacuity: the parenthesis table deliberately wrong (overparen); TLC must reject
CONSTANTS
  Variant = "overparen"
  MaxDepth = 2
  FullDepth = 0
  CtxDepth = 0
  StmtFull = FALSE
INIT InitSpine
NEXT NextSpine
INVARIANTS Minimal
CHECK_DEADLOCK FALSE
