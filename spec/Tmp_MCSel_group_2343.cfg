CONSTANTS
  MaxRows = 3
  QuerySet = "group"
  EmitMode = "cases"
  TableStride = 2
  Variant = "ok"
INIT Init
NEXT Next
INVARIANTS CompileIffValid SteppedIsExec ScanLaw GroupLaw Additivity HavingLaw SortLaw PhaseOrderLaw DistinctLaw PivotLaw Emit EmitTable
PROPERTIES ScanPrefix GroupIsolation
CHECK_DEADLOCK FALSE
