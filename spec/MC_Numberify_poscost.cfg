\* non-vacuity: PositionConverter reports the cost number.  TLC must violate SumPreserved.
CONSTANTS
  Space = "pos"
  Shapes <- ShapesOf
  FmtChoices <- Fmt0
  DCtx <- DCAB
  Prec = "most_common"
  CurSeq <- CS3
  InvNull = "skip"
  Mut = "poscost"
INIT Init
NEXT Next
INVARIANTS SumPreserved
CHECK_DEADLOCK FALSE
