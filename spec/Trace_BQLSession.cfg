CONSTANTS
  Stmts <- FileStmts
  StmtParams <- FileParams
  ManyPairs = 0
  Data <- FileTabs
  NumberMode = "conforming"
  MaxCalls = 1000000
INIT TInit
NEXT TNext
INVARIANTS DataUnchanged
POSTCONDITION Consumed
CHECK_DEADLOCK FALSE
