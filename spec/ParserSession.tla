--------------------------- MODULE ParserSession ---------------------------
(***************************************************************************)
(* C06 over call histories: "writing it as text and parsing that text      *)
(* yields the same AST" quantifies over texts only -- parsing is a         *)
(* FUNCTION OF THE TEXT.  Whatever the process did before (the same text   *)
(* parsed before, the same text executed with parameters on this or on     *)
(* another connection, other texts parsed or executed in between), the     *)
(* call returns Parse(tokens of the text), or rejects when Parse rejects.  *)
(*                                                                         *)
(* The mechanism, shaped like the code.  A tree handed out by the parser   *)
(* is a mutable object (heap[o] = its present value).  The entry points:   *)
(*   parse      beanquery.parser.parse(text)                               *)
(*   cparse     Connection.parse(text)          (connection c)             *)
(*   execute    Connection.execute / Cursor.execute / executemany (text,   *)
(*              parameters): parses the text, then compiles the tree --    *)
(*              and the compiler NUMBERS the positional placeholders of    *)
(*              the tree it is given IN PLACE, in text order (named ones   *)
(*              are looked up by name; a statement mixing both kinds is    *)
(*              refused before anything is touched).                       *)
(* Mode says what the parser keeps between calls:                          *)
(*   "fresh"     nothing: a new tree per call                (as shipped)  *)
(*   "memocopy"  the tree per text, handing out a copy per call  (allowed: *)
(*               the statement does not forbid remembering)                *)
(*   "memo"      the tree per text, handing out the very same object       *)
(*               (non-vacuity: the in-place numbering of one execution     *)
(*               shows in every later parse of the same text, on every     *)
(*               connection -- TLC must refute it)                         *)
(* The retained table is one per process, not one per connection: that is  *)
(* why the connection of a call appears in the history but not in the      *)
(* state.                                                                  *)
(*                                                                         *)
(* hist records every call; for the parsing ones the object handed out and *)
(* its value at the time of the return.                                    *)
(***************************************************************************)
EXTENDS Parser

CONSTANTS Texts,     \* sequence of token sequences: the statement texts a session uses (the same text recurs)
          Conns,     \* connection ids
          MaxOps,    \* calls per session
          Mode

VARIABLES heap, memo, hist
svars == <<heap, memo, hist>>

NT == Len(Texts)
ParseOps == {"parse", "cparse"}

\* what a parsing call has to return for a text with these tokens: nothing but the tokens enters
Required(ts) == Parse(ts)

-----------------------------------------------------------------------------
(* the compiler's numbering: the i-th positional placeholder in text order gets the name i.  In token terms: the
   i-th `%s` reads like `%(i)s` afterwards. *)
HasPositional(ts) == \E i \in 1..Len(ts) : IsP(ts, i, "%s")
HasNamed(ts) == \E i \in 1..Len(ts) : IsP(ts, i, "%(")
RECURSIVE NumToks(_, _, _)
NumToks(ts, i, n) ==
    IF i > Len(ts) THEN <<>>
    ELSE IF IsP(ts, i, "%s") THEN <<P("%("), ID(ToString(n)), P(")s")>> \o NumToks(ts, i + 1, n + 1)
    ELSE <<ts[i]>> \o NumToks(ts, i + 1, n)
Numbered(ts) == Parse(NumToks(ts, 1, 0)).ast
\* the value of the tree of text ts after a compilation with well-formed parameters (v: its value before, pristine or
\* numbered already: numbering is idempotent)
AfterCompile(ts, v) == IF HasPositional(ts) /\ ~HasNamed(ts) THEN Numbered(ts) ELSE v

-----------------------------------------------------------------------------
SInit == heap = <<>> /\ memo = [t \in 1..NT |-> 0] /\ hist = <<>>

\* parser.parse(Texts[t]) in the present state: the object handed out (0: the text is rejected; a rejection is not
\* retained) and what the heap and the retained table look like afterwards
Lookup(t) ==
    LET p == Parse(Texts[t])
        new == Len(heap) + 1
    IN IF ~p.ok THEN [obj |-> 0, heap |-> heap, memo |-> memo]
       ELSE IF Mode = "fresh" THEN [obj |-> new, heap |-> Append(heap, p.ast), memo |-> memo]
       ELSE IF Mode = "memo"
       THEN (IF memo[t] = 0 THEN [obj |-> new, heap |-> Append(heap, p.ast), memo |-> [memo EXCEPT ![t] = new]]
             ELSE [obj |-> memo[t], heap |-> heap, memo |-> memo])
       ELSE (IF memo[t] = 0                                                                \* "memocopy"
             THEN [obj |-> new + 1, heap |-> heap \o <<p.ast, p.ast>>, memo |-> [memo EXCEPT ![t] = new]]
             ELSE [obj |-> new, heap |-> Append(heap, heap[memo[t]]), memo |-> memo])

CallRec(op, t, c, obj, h) ==
    [op |-> op, t |-> t, c |-> c, obj |-> obj, ok |-> obj # 0, ast |-> IF obj = 0 THEN NoAst ELSE h[obj]]

ParseCall(t) ==
    /\ Len(hist) < MaxOps
    /\ LET r == Lookup(t) IN
       /\ heap' = r.heap
       /\ memo' = r.memo
       /\ hist' = Append(hist, CallRec("parse", t, 0, r.obj, r.heap))

ConnParse(c, t) ==
    /\ Len(hist) < MaxOps
    /\ LET r == Lookup(t) IN
       /\ heap' = r.heap
       /\ memo' = r.memo
       /\ hist' = Append(hist, CallRec("cparse", t, c, r.obj, r.heap))

\* execution of the text with as many parameters as it has placeholders: parse, then compile (numbering in place)
Execute(c, t) ==
    /\ Len(hist) < MaxOps
    /\ LET r == Lookup(t) IN
       /\ heap' = IF r.obj = 0 THEN r.heap ELSE [r.heap EXCEPT ![r.obj] = AfterCompile(Texts[t], @)]
       /\ memo' = r.memo
       /\ hist' = Append(hist, [op |-> "execute", t |-> t, c |-> c, obj |-> 0, ok |-> r.obj # 0, ast |-> NoAst])

SNext == \E t \in 1..NT : \/ ParseCall(t)
                          \/ \E c \in Conns : ConnParse(c, t) \/ Execute(c, t)
SSpec == SInit /\ [][SNext]_svars

-----------------------------------------------------------------------------
(* the property *)
\* every parsing call of every history returned what the text alone requires
HistoryFree ==
    \A i \in 1..Len(hist) :
        hist[i].op \in ParseOps =>
            LET q == Required(Texts[hist[i].t]) IN hist[i].ok = q.ok /\ (q.ok => hist[i].ast = q.ast)
\* and a tree that a parsing call handed out is not changed by later calls that are given texts
HeldUnchanged ==
    \A i \in 1..Len(hist) :
        (hist[i].op \in ParseOps /\ hist[i].obj # 0) => heap[hist[i].obj] = Required(Texts[hist[i].t]).ast
\* an execution does change the tree it compiled (the hazard is real: without this the two invariants above would
\* hold for "memo" too)
NumberingShowsIn(texts) ==
    \A t \in 1..Len(texts) : (HasPositional(texts[t]) /\ ~HasNamed(texts[t]) /\ Parse(texts[t]).ok)
                                 => Numbered(texts[t]) # Parse(texts[t]).ast
=============================================================================
