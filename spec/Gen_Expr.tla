------------------------------- MODULE Gen_Expr -------------------------------
(* Enumerates every well-typed expression SPINE up to MaxDepth over the base table (every parent operator x
   child x operand position x overload), model-checks type soundness and the strictness law on each, and emits
   each with the values the specification assigns to it on the ten base rows (spec -> code replay, C01/C04). *)
EXTENDS ExprTab, Json

CONSTANTS MaxDepth, EmitMode      \* EmitMode: "typed" | "illtyped" | "none"

ConstLeaves == {Const(IntV(0)), Const(IntV(2)), Const(IntV(-3)), Const(Rat(1, 2)), Const(Rat(-3, 2)), Const(Rat(0, 1)),
                Const(StrV("a")), Const(StrV("")), Const(StrV("b")), Const(DateV(737484)), Const(DateV(737425)),
                Const(T), Const(F), Const(Null)}
AllLeaves == {Col(ColNames[k]) : k \in 1..Len(ColNames)} \cup ConstLeaves
SibLeaves == {Col("i"), Col("x"), Col("s"), Col("d"), Col("b"), Col("o"),
              Const(IntV(2)), Const(Rat(1, 2)), Const(StrV("a")), Const(DateV(737425)), Const(Null)}
BoolSibs == {Col("b"), Col("c"), Const(Null), Const(F)}
Lists == {Const(ListV(<<IntV(1), IntV(2), IntV(7)>>)), Const(ListV(<<StrV("a"), StrV("B")>>)), Const(ListV(<<>>)),
          Const(ListV(<<Rat(1, 2), IntV(0)>>))}
Fn1 == {"abs", "neg", "length", "upper", "lower", "year", "month", "day", "round", "bool", "int", "decimal", "date", "str"}
Fn2 == {"date_add", "date_diff", "safediv"}

Parents(e, S) ==
    {Un(op, e) : op \in UnOps}
    \cup {Bin(op, e, l) : op \in (ArithOps \cup CmpOps \cup MatchOps), l \in S}
    \cup {Bin(op, l, e) : op \in (ArithOps \cup CmpOps \cup MatchOps), l \in S}
    \cup {Bin(op, e, l) : op \in InOps, l \in Lists}
    \cup {Between(e, l1, l2) : l1 \in S, l2 \in S}
    \cup {Between(l1, e, l2) : l1 \in S, l2 \in S}
    \cup {Between(l1, l2, e) : l1 \in S, l2 \in S}
    \cup {AndE(<<e, l>>) : l \in S} \cup {AndE(<<l, e>>) : l \in S}
    \cup {OrE(<<e, l>>) : l \in S} \cup {OrE(<<l, e>>) : l \in S}
    \cup {AndE(<<l1, e, l2>>) : l1 \in BoolSibs, l2 \in BoolSibs}
    \cup {OrE(<<l1, e, l2>>) : l1 \in BoolSibs, l2 \in BoolSibs}
    \cup {Call(f, <<e>>) : f \in Fn1}
    \cup {Call(f, <<e, l>>) : f \in Fn2, l \in S} \cup {Call(f, <<l, e>>) : f \in Fn2, l \in S}
    \cup {Call("substr", <<e, Const(IntV(a)), Const(IntV(b))>>) : a \in {0, 1, -2}, b \in {1, 3, -1}}
    \cup {Call("substr", <<Col("s"), e, Const(IntV(2))>>), Call("substr", <<Col("s"), Const(IntV(0)), e>>)}
    \cup {Call("coalesce", <<e, l>>) : l \in S} \cup {Call("coalesce", <<l, e>>) : l \in S}
    \cup {Call("coalesce", <<l, e, l>>) : l \in S}

VARIABLES e, depth
vars == <<e, depth>>
WellTyped(x) == TypeOf(x, Schema) # ERR
Init == e \in AllLeaves /\ depth = 0
Next == /\ depth < MaxDepth
        /\ \E p \in Parents(e, IF depth = 0 THEN AllLeaves ELSE SibLeaves) :
              /\ (WellTyped(p) \/ (EmitMode = "illtyped" /\ depth = MaxDepth - 1))
              /\ e' = p
        /\ depth' = depth + 1
Spec == Init /\ [][Next]_vars

Enc(v) == <<v.t, v.n, v.d, v.s>>
Vals(x) == [r \in 1..Len(BaseRows) |-> Enc(Eval(x, BaseRows[r], Schema))]
EmitTab ==
    (EmitMode # "none" /\ depth = 0 /\ e = Col("i")) =>
        PrintT(ToJson([table |-> [r \in 1..Len(BaseRows) |-> [c \in 1..Len(ColNames) |-> Enc(BaseRows[r][ColNames[c]])]],
                       cols |-> ColNames, types |-> [c \in 1..Len(ColNames) |-> Schema[ColNames[c]]]]))
Emit ==
    CASE EmitMode = "typed" ->
            (WellTyped(e) /\ depth >= 1) => PrintT(ToJson([e |-> e, t |-> TypeOf(e, Schema), vals |-> Vals(e)]))
      [] EmitMode = "illtyped" ->
            (~WellTyped(e)) => PrintT(ToJson([e |-> e, t |-> ERR]))
      [] OTHER -> TRUE

(* ---- properties model-checked on every generated expression ---- *)
\* C04: the announced type is truthful on every row, and evaluation never leaves the typed domain
TypeSound ==
    WellTyped(e) => \A r \in 1..Len(BaseRows) :
        LET v == Eval(e, BaseRows[r], Schema) IN v.t = "ood" \/ Conforms(v, TypeOf(e, Schema))
\* C01: strict nodes yield NULL whenever a direct operand is NULL
Operands(x) ==
    CASE x.k = "un" -> <<x.a>> [] x.k = "bin" -> <<x.a, x.b>> [] x.k = "between" -> <<x.a, x.lo, x.hi>>
      [] x.k = "call" -> x.args [] OTHER -> <<>>
IsStrict(x) ==
    \/ x.k \in {"bin", "between"}
    \/ (x.k = "un" /\ x.op = "neg")
    \/ (x.k = "call" /\ x.f # "coalesce")
StrictNull ==
    (WellTyped(e) /\ IsStrict(e)) => \A r \in 1..Len(BaseRows) :
        (\E k \in 1..Len(Operands(e)) : Eval(Operands(e)[k], BaseRows[r], Schema).t = "null")
            => Eval(e, BaseRows[r], Schema).t \in {"null", "ood"}
\* division and modulo by zero are NULL; int / int is decimal; mixes promote
DivModLaw ==
    (WellTyped(e) /\ e.k = "bin" /\ e.op \in {"div", "mod"}) => \A r \in 1..Len(BaseRows) :
        LET b == Eval(e.b, BaseRows[r], Schema) v == Eval(e, BaseRows[r], Schema) IN
        /\ (b.t \in {"int", "dec"} /\ b.n = 0) => v.t \in {"null", "ood"}
        /\ (e.op = "div" /\ v.t \notin {"null", "ood"}) => v.t = "dec"
TableOK == NullPatternOK /\ DataConforms
=============================================================================
