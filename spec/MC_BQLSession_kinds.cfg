\* parameters of different literal kinds that the host language calls equal (1 / TRUE, 0 / FALSE) as outputs, all
\* histories of <= 2 (quick) or 4 calls, on a connection that keeps compiled statements under (text, parameters as BQL values)
CONSTANTS
  Stmts <- StmtsK
  StmtParams <- ParamsK
  ManyPairs <- Pairs12
  Data <- DataA
  NumberMode = "conforming"
  MaxCalls = 2
  CacheMode <- CacheExact
INIT Init
NEXT Next
INVARIANTS TypeOK ResultInv DataUnchanged
PROPERTIES ResultIsDenote DataNeverChanges
CHECK_DEADLOCK FALSE
