\* C12 sum() over inventory values, thorough: up to 3 rows, histories (one of 3 statements, then any of 24 x no LIMIT | LIMIT 1 | LIMIT 2)
CONSTANTS
  Mode = "copy"
  Scale = 1
  MaxRows = 3
  HistLen = 2
  Rich = TRUE
  RichCells = FALSE
  Limits = {0, 1, 2}
  Prices <- MCPrices
INIT Init
NEXT SNext
INVARIANTS SumTypeOK ResultInv InputsInv NoAliasInv PartialInv LawsInv
PROPERTIES ResultsGrow
CHECK_DEADLOCK FALSE
