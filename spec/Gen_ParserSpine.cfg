CONSTANTS
  Variant = "ok"
  MaxDepth = 2
  FullDepth = 1
  CtxDepth = 0
  StmtFull = FALSE
  Salts = {1}
  EmitMod = 4
  GenFam = {}
INIT GInitSpine
NEXT GNextSpine
INVARIANT Emit
CHECK_DEADLOCK FALSE
