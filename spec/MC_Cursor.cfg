\* exhaustive: 2 cursors, results of 0/1/3/4 rows, sizes 0..5, arraysize 1..3
CONSTANTS
  NCursors = 2
  Queries <- QSmall
  FetchSizes <- Sizes01235
  ArraySizes <- AS123
  RowCountFrom = "result"
  IterMayConsume = TRUE
  None = None
INIT Init
NEXT Next
INVARIANTS TypeOK PrefixInv SuffixInv RowNumberInv RowCountInv DescInv ExhaustInv DescLaws
PROPERTIES ExecuteResets Isolation FetchMonotone
CHECK_DEADLOCK FALSE
