\* non-vacuity: the compile step as shipped before the fix 41a2136 (OPEN with a bare CLOSE raises TypeError) -- TLC must violate CompileInv
CONSTANTS
  Base <- MCBase
  KeyTab <- MCKeyTab
  CurSeq <- MCCurSeq
  Special <- MCSpecial
  Ledgers = {}
  OpenArgs <- Open05
  CloseArgs <- Close05
  ClearArgs = {TRUE, FALSE}
  Filters <- FNone
  Order <- OrderStated
  CompileMode = "shipped"
  Inners <- InnersNone
  ScopeMode = "stated"
  Doors <- DoorsApi
  HookMode = "stated"
INIT InitCover
NEXT Next
INVARIANTS KeepInv BalanceSheetInv IncomeInv EquityInv TxBalanceInv LayoutInv FilterInv CompileInv SortedInv ExpectInv
CHECK_DEADLOCK FALSE
