----------------------------- MODULE MC_Strings -----------------------------
(* MC leg of C18 (string half): the state enumerates all strings of length <= MaxLen over Alphabet (and, for
   maxwidth, texts of up to three words); the slice / split / join / shorten / literal-pattern definitions are
   checked against the laws that characterise them.                                                        *)
EXTENDS Strings

CONSTANTS Alphabet, MaxLen, IdxMax

RECURSIVE StrUpTo(_)
StrUpTo(k) == IF k = 0 THEN {""} ELSE StrUpTo(k - 1) \cup {s \o c : s \in StrUpTo(k - 1), c \in Alphabet}
AllStr == StrUpTo(MaxLen)
Short == StrUpTo(2)
Idx == (-IdxMax)..IdxMax

WordSet == {"a", "Bb", "a:B:", "aaaaaaa"}
WordSeqs == {<<>>} \cup {<<w>> : w \in WordSet} \cup {<<w, v>> : w \in WordSet, v \in WordSet}
            \cup {<<w, v, u>> : w \in WordSet, v \in WordSet, u \in WordSet}
Texts == {pre \o JoinSeq(ws, sp) \o post : ws \in WordSeqs, sp \in {" ", "  "}, pre \in {"", " "}, post \in {"", " "}}
Widths == 5..17

Pats == {[bol |-> bo, pre |-> "", grp |-> l, post |-> "", eol |-> eo, g |-> 0] : bo \in {0, 1}, eo \in {0, 1}, l \in Short}
        \cup {[bol |-> bo, pre |-> x, grp |-> y, post |-> z, eol |-> eo, g |-> 1] :
                bo \in {0, 1}, eo \in {0, 1}, x \in StrUpTo(1), y \in StrUpTo(1), z \in StrUpTo(1)}
XPat == [bol |-> 0, pre |-> "", grp |-> "x", post |-> "", eol |-> 0, g |-> 0]      \* "x" is not in Alphabet

\* phase 0: root; 3: group by first character; 1: a string s; 4: a text (maxwidth)
VARIABLES phase, s
Init == phase = 0 /\ s = ""
Next == \/ phase = 0 /\ phase' = 3 /\ s' \in StrUpTo(1)
        \/ phase = 3 /\ phase' = 1 /\ s' \in {x \in AllStr : Substr(x, 0, 1) = s}
        \/ phase = 0 /\ phase' = 4 /\ s' \in Texts

\* the normalised slice bounds, stated once more in the words of the Python reference ("negative indices are
\* relative to the end; bounds beyond the ends are clipped")
Norm(i, n) == IF i >= 0 THEN (IF i > n THEN n ELSE i) ELSE (IF n + i < 0 THEN 0 ELSE n + i)
SliceInv ==
  (phase = 1) =>
  LET n == Len(s) IN
  /\ Substr(s, 0, n) = s /\ Length(s) = n
  /\ \A a \in Idx, b \in Idx :
       LET r == Substr(s, a, b)
           lo == Norm(a, n)
           hi == Norm(b, n) IN
       /\ Len(r) = (IF hi > lo THEN hi - lo ELSE 0)
       /\ \A k \in 1..Len(r) : Ch(r, k) = Ch(s, lo + k)               \* characters lo .. hi-1 (zero based)
       /\ (a >= 0 /\ a <= b /\ b <= n) => r = SubSeq(s, a + 1, b)
       /\ (a < 0 /\ -a <= n) => r = Substr(s, n + a, b)                \* negative = from the end
       /\ (b < 0 /\ -b <= n) => r = Substr(s, a, n + b)
       /\ (b > n) => r = Substr(s, a, n)                               \* clipped
       /\ (a < -n) => r = Substr(s, 0, b)
       /\ \A c \in {0, 1, n, b + 1} :
            (lo <= hi /\ hi <= Norm(c, n)) => r \o Substr(s, b, c) = Substr(s, a, c)
CaseInv ==
  (phase = 1) =>
  /\ Len(Upper(s)) = Len(s) /\ Len(Lower(s)) = Len(s)
  /\ Upper(Upper(s)) = Upper(s) /\ Lower(Lower(s)) = Lower(s)
  /\ Upper(Lower(s)) = Upper(s) /\ Lower(Upper(s)) = Lower(s)
  /\ \A i \in 1..Len(s) :
       LET c == Ch(s, i) IN
       /\ (c \in {":", " ", "1", "-"}) => Ch(Upper(s), i) = c /\ Ch(Lower(s), i) = c
       /\ (c = "a") => Ch(Upper(s), i) = "A" /\ Ch(Lower(s), i) = "a"
       /\ (c = "B") => Ch(Upper(s), i) = "B" /\ Ch(Lower(s), i) = "b"
  /\ Upper("az") = "AZ" /\ Lower("AZ") = "az" /\ Upper("a1:Bz ") = "A1:BZ "
SplitInv ==
  (phase = 1) =>
  \A d \in {":", " ", "a", "a:", "::", "aa"} :
    LET p == Split(s, d)
        n == Len(p) IN
    /\ n >= 1 /\ JoinSeq(p, d) = s                                     \* join inverts split
    /\ (Len(d) = 1) => \A i \in 1..n : \A j \in 1..Len(p[i]) : Ch(p[i], j) # d
    /\ \A i \in 1..n : \A j \in 1..(Len(p[i]) - Len(d) + 1) : SubSeq(p[i], j, j + Len(d) - 1) # d   \* no piece holds d
    /\ \A k \in Idx :
         /\ SplitCompDomain(s, d, k) <=> (k >= -n /\ k <= n - 1)
         /\ SplitCompDomain(s, d, k) => SplitComp(s, d, k) = p[IF k >= 0 THEN k + 1 ELSE n + k + 1]
    /\ Split("a:b", ":") = <<"a", "b">> /\ Split("", ":") = <<"">> /\ Split(":", ":") = <<"", "">>
JoinInv ==
  (phase = 1) =>
  \A t \in Short : \A u \in {"B", "a a"} :
    (s # t /\ s # u /\ t # u /\ \A i \in 1..Len(s) : Ch(s, i) # ",") =>
      LET vals == <<s, t, u>>
          js == JoinStrSet(vals) IN
      /\ Cardinality(js) <= 6 /\ js # {}
      /\ \A r \in js : LET p == Split(r, ",") IN
                       Len(p) = 3 /\ {p[i] : i \in 1..3} = {s, t, u} /\ Len(r) = Len(s) + Len(t) + Len(u) + 2
      /\ JoinSeq(vals, ",") \in js
      /\ JoinStrSet(<<s>>) = {s} /\ JoinStrSet(<<>>) = {""}
PatternInv ==
  (phase = 1) =>
  \A p \in Pats :
    LET L == Len(Lit(p))
        M == Matches(p, s) IN
    \* a match is a decomposition s = x lit y (x empty under ^, y empty under $)
    /\ \A i \in 1..(Len(s) + 1) :
         (i \in M) <=> /\ i + L - 1 <= Len(s)
                       /\ SubSeq(s, 1, i - 1) \o Lit(p) \o SubSeq(s, i + L, Len(s)) = s
                       /\ (p.bol = 1 => i = 1) /\ (p.eol = 1 => i + L - 1 = Len(s))
    /\ Grep(p, s) = (IF M = {} THEN <<>> ELSE <<Lit(p)>>)
    /\ GrepNDomain(p, s, 0) /\ GrepN(p, s, 0) = Grep(p, s)
    /\ (p.g = 1) => GrepNDomain(p, s, 1) /\ GrepN(p, s, 1) = (IF M = {} THEN <<>> ELSE <<p.grp>>)
    /\ (M # {}) => ~GrepNDomain(p, s, 2) /\ (p.g = 0 => ~GrepNDomain(p, s, 1))
    \* substitution: nothing to replace = unchanged; replacing by itself = unchanged; marking every match with a
    \* foreign character and putting the literal back restores s; the first mark stands where the first match is
    /\ (M = {}) => Subst(p, "zz", s) = s
    /\ Subst(p, Lit(p), s) = s
    /\ Subst(XPat, Lit(p), Subst(p, "x", s)) = s
    /\ (M # {}) => Substr(Subst(p, "x", s), 0, SMin(M)) = Substr(s, 0, SMin(M) - 1) \o "x"
    /\ (L > 0) => (Len(s) - Len(Subst(p, "", s))) % L = 0
    /\ PatText(p) = (IF p.bol = 1 THEN "^" ELSE "") \o p.pre \o (IF p.g = 1 THEN "(" ELSE "") \o p.grp
                    \o (IF p.g = 1 THEN ")" ELSE "") \o p.post \o (IF p.eol = 1 THEN "$" ELSE "")
    \* findfirst: an element that matches at its start, and no smaller one does
    /\ \A t \in {"a", "B:"} :
         LET vals == <<"aB", s, t>>
             r == FindFirst(p, vals) IN
         /\ (r = <<>>) <=> \A i \in 1..3 : ~MatchAt(p, vals[i], 1)
         /\ (r # <<>>) => /\ \E i \in 1..3 : vals[i] = r[1]
                          /\ MatchAt(p, r[1], 1)
                          /\ \A i \in 1..3 : MatchAt(p, vals[i], 1) => StrLeq(r[1], vals[i])
OrderInv ==
  (phase = 1) =>
  \A t \in Short :
    /\ ~StrLess(s, s)
    /\ (s # t) => (StrLess(s, t) <=> ~StrLess(t, s))
    /\ StrLess(s, s \o "a") /\ (StrLess(s, t) => StrLess("B" \o s, "B" \o t))
    /\ StrLess(" ", ":") /\ StrLess(":", "B") /\ StrLess("B", "a") /\ StrLess("-", "0") /\ StrLess("9", ":")
MaxWidthInv ==
  (phase = 4) =>
  \A n \in Widths :
    LET w == Words(s)
        text == JoinSeq(w, " ")
        r == MaxWidth(s, n) IN
    /\ MaxWidthDomain(s, n) /\ ~MaxWidthDomain(s, 4)
    /\ Len(r) <= n                                                      \* never wider than asked
    /\ \A i \in 1..Len(w) : w[i] # "" /\ \A j \in 1..Len(w[i]) : Ch(w[i], j) # " "
    /\ (Len(text) <= n) <=> (r = text)                                  \* fits: blanks collapsed, nothing dropped
    /\ (Len(text) > n) =>
         \E k \in 0..(Len(w) - 1) :                                     \* a prefix of whole words + placeholder
           /\ r = (IF k = 0 THEN "[...]" ELSE JoinSeq(SubSeq(w, 1, k), " ") \o " [...]")
           /\ Len(JoinSeq(SubSeq(w, 1, k + 1), " ")) + 6 > n            \* maximal: one more word does not fit
    /\ MaxWidth(r, n) = r                                               \* idempotent
=============================================================================
