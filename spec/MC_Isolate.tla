----------------------------- MODULE MC_Isolate -----------------------------
(* Model-checking instances of Isolate: 2-3 threads, every interleaving of the compilation and scan steps. *)
EXTENDS Isolate, Json

CONSTANTS JobSet     \* name of the set of jobs a thread may run: [Threads -> Jobs(JobSet)] are the initial states

D(u, posts) == [u |-> u, posts |-> posts]
(* two ledgers; row n of one scan is not the directive of row n of another scan (other ledger, or other table) *)
LA == << D(11, <<111, 112>>), D(12, <<121>>), D(13, <<131>>) >>
LB == << D(21, <<211>>), D(22, <<221, 222>>), D(23, <<231>>) >>
LA2 == << D(11, <<111, 112>>), D(12, <<121>>) >>
LB2 == << D(21, <<211>>), D(22, <<221>>) >>

Mk(conn, ledger, tab, star, targets, where, lo, hi, lit, wp, pp) ==
    [conn |-> conn, ledger |-> ledger, tab |-> tab, star |-> star, targets |-> targets, where |-> where,
     lo |-> lo, hi |-> hi, lit |-> lit, wpause |-> wp, ppause |-> pp]
col(i) == At("col", i)
aRp == At("rp", 0)
aCp == At("cp", 0)
aLo == At("lo", 0)
aHi == At("hi", 0)

(* connection 1 holds LA, connection 2 LB, connection 3 LA again (a separate connection over the same ledger) *)
Jobs3 ==
    { Mk(1, LA, "e", FALSE, <<col(2), aRp, col(3)>>, <<aLo, aHi>>, 11, 12, FALSE, FALSE, TRUE),      \* parameters, pause after each lookup
      Mk(1, LA, "e", FALSE, <<col(2), aRp, col(3)>>, <<aLo, aHi>>, 12, 13, FALSE, FALSE, TRUE),      \* same text, other parameters
      Mk(1, LA, "p", FALSE, <<col(2), aRp, col(1)>>, <<aRp>>, 0, 0, TRUE, FALSE, FALSE),            \* other table, same connection
      Mk(1, LA, "p", TRUE, <<>>, <<aLo, aCp, aHi>>, 112, 131, FALSE, TRUE, FALSE),                   \* SELECT *, pause in the wildcard and between the parameters
      Mk(2, LB, "e", FALSE, <<col(2), aRp>>, <<>>, 0, 0, TRUE, FALSE, FALSE),                      \* other ledger
      Mk(2, LB, "p", FALSE, <<aCp, col(2), col(3)>>, <<aHi, aRp>>, 0, 222, TRUE, FALSE, FALSE),
      Mk(3, LA, "e", FALSE, <<col(1), aCp, col(2)>>, <<aRp, aLo>>, 12, 0, FALSE, FALSE, FALSE) }     \* same ledger, separate connection
Jobs2 ==
    { Mk(1, LA2, "e", FALSE, <<col(2), aRp>>, <<aLo, aHi>>, 11, 11, FALSE, FALSE, TRUE),
      Mk(1, LA2, "p", TRUE, <<>>, <<aCp, aHi>>, 0, 112, FALSE, TRUE, FALSE),
      Mk(2, LB2, "e", FALSE, <<col(2), aRp, col(3)>>, <<>>, 0, 0, TRUE, FALSE, FALSE),
      Mk(3, LA2, "p", FALSE, <<col(2), aRp>>, <<aLo>>, 112, 0, FALSE, FALSE, FALSE) }
(* quick tier, 3 threads: thread t runs the t-th job (the threads are interchangeable; pairs of EQUAL jobs are in "3rows") *)
JobSeq2 == << Mk(1, LA2, "e", FALSE, <<col(2), aRp>>, <<aLo, aHi>>, 11, 11, FALSE, FALSE, TRUE),
              Mk(1, LA2, "p", TRUE, <<>>, <<aCp, aHi>>, 0, 112, FALSE, TRUE, FALSE),
              Mk(2, LB2, "e", FALSE, <<col(2), aRp, col(3)>>, <<>>, 0, 0, TRUE, FALSE, FALSE) >>
(* the smallest families the broken mechanisms fail on *)
JobsCompiler ==
    { Mk(1, LA2, "e", FALSE, <<col(2)>>, <<aLo, aHi>>, 11, 11, FALSE, FALSE, TRUE),
      Mk(1, LA2, "e", FALSE, <<col(2)>>, <<aLo, aHi>>, 12, 12, FALSE, FALSE, TRUE) }
JobsMemo ==
    { Mk(1, LA2, "e", FALSE, <<col(2), aRp>>, <<>>, 0, 0, TRUE, FALSE, FALSE),
      Mk(2, LB2, "e", FALSE, <<col(2), aRp>>, <<>>, 0, 0, TRUE, FALSE, FALSE) }
Jobs(name) ==
    CASE name = "3rows" -> Jobs3 [] name = "2rows" -> Jobs2
      [] name = "compiler" -> JobsCompiler [] name = "memo" -> JobsMemo

(* a connection holds one ledger *)
Coherent(p) == \A t, u \in Threads : p[t].conn = p[u].conn => p[t].ledger = p[u].ledger
Init == \E p \in [Threads -> Jobs(JobSet)] : Coherent(p) /\ InitWith(p)
InitFixed == InitWith([t \in Threads |-> JobSeq2[t]])
Spec == Init /\ [][Next]_vars
FairSpec == Spec /\ Fairness
=============================================================================
