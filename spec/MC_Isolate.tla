----------------------------- MODULE MC_Isolate -----------------------------
(* Model-checking instances of Isolate: 2-3 threads, every interleaving of the compilation and scan steps. *)
EXTENDS Isolate, Json

CONSTANTS JobSet     \* name of the set of jobs a thread may run: [Threads -> Jobs(JobSet)] are the initial states

D(u, posts) == [u |-> u, posts |-> posts, ty |-> 0]      \* a transaction
DT(u, ty) == [u |-> u, posts |-> <<>>, ty |-> ty]          \* a directive of another type (1 price, 2 event, ...)
(* two ledgers; row n of one scan is not the directive of row n of another scan (other ledger, or other table) *)
LA == << D(11, <<111, 112>>), D(12, <<121>>), D(13, <<131>>) >>
LB == << D(21, <<211>>), D(22, <<221, 222>>), D(23, <<231>>) >>
LA2 == << D(11, <<111, 112>>), D(12, <<121>>) >>
LB2 == << D(21, <<211>>), D(22, <<221>>) >>
(* mixed ledgers: the typed tables are proper selections of the directives *)
LM == << DT(41, 1), D(42, <<421>>), DT(43, 1), DT(44, 2), DT(45, 1) >>
LM2 == << DT(41, 1), D(42, <<421>>), DT(43, 2), DT(44, 1) >>

Mk(conn, ledger, tab, star, targets, where, lo, hi, lit, wp, pp) ==
    [conn |-> conn, ledger |-> ledger, tab |-> tab, star |-> star, targets |-> targets, where |-> where,
     lo |-> lo, hi |-> hi, lit |-> lit, wpause |-> wp, ppause |-> pp, ty |-> 0, parse |-> 0, sub |-> <<>>,
     via |-> "cursor", fetch |-> <<>>]
Ty(j, ty) == [j EXCEPT !.ty = ty]                  \* tab "x": the directive type of the typed table
Text(j, n) == [j EXCEPT !.parse = n]               \* submitted as text, n places inside the parser where it can be descheduled
Sub(j, s) == [j EXCEPT !.sub = s]                  \* FROM (SELECT col s[1] AS n<s[1]>, ... FROM tab)
(* handed to the connection through `via', the results delivered in the steps f (thread descheduled before each) *)
Dl(j, via, f) == [j EXCEPT !.via = via, !.fetch = f]
col(i) == At("col", i)
aFlo == At("flo", 0)
aFhi == At("fhi", 0)
aRp == At("rp", 0)
aCp == At("cp", 0)
aLo == At("lo", 0)
aHi == At("hi", 0)

(* connection 1 holds LA, connection 2 LB, connection 3 LA again (a separate connection over the same ledger) *)
Jobs3 ==
    { Mk(1, LA, "e", FALSE, <<col(2), aRp, col(3)>>, <<aLo, aHi>>, 11, 12, FALSE, FALSE, TRUE),      \* parameters, pause after each lookup
      Mk(1, LA, "e", FALSE, <<col(2), aRp, col(3)>>, <<aLo, aHi>>, 12, 13, FALSE, FALSE, TRUE),      \* same text, other parameters
      Mk(1, LA, "p", FALSE, <<col(2), aRp, col(1)>>, <<aRp>>, 0, 0, TRUE, FALSE, FALSE),            \* other table, same connection
      Mk(1, LA, "p", TRUE, <<>>, <<aLo, aCp, aHi>>, 112, 131, FALSE, TRUE, FALSE),                   \* SELECT *, pause in the wildcard and between the parameters
      Mk(2, LB, "e", FALSE, <<col(2), aRp>>, <<>>, 0, 0, TRUE, FALSE, FALSE),                      \* other ledger
      Mk(2, LB, "p", FALSE, <<aCp, col(2), col(3)>>, <<aHi, aRp>>, 0, 222, TRUE, FALSE, FALSE),
      Mk(3, LA, "e", FALSE, <<col(1), aCp, col(2)>>, <<aRp, aLo>>, 12, 0, FALSE, FALSE, FALSE),      \* same ledger, separate connection
      Ty(Mk(4, LM, "x", FALSE, <<col(2), aRp, col(3)>>, <<>>, 0, 0, TRUE, FALSE, FALSE), 1),         \* a typed table, pause in every row
      Text(Ty(Mk(4, LM, "x", FALSE, <<col(3)>>, <<aRp, aHi>>, 0, 43, TRUE, FALSE, FALSE), 1), 1),   \* the same typed table; submitted as text
      Text(Mk(2, LB, "e", FALSE, <<col(2)>>, <<aHi>>, 0, 22, FALSE, FALSE, FALSE), 2) }              \* text, two places inside the parser
Jobs2 ==
    { Mk(1, LA2, "e", FALSE, <<col(2), aRp>>, <<aLo, aHi>>, 11, 11, FALSE, FALSE, TRUE),
      Mk(1, LA2, "p", TRUE, <<>>, <<aCp, aHi>>, 0, 112, FALSE, TRUE, FALSE),
      Mk(2, LB2, "e", FALSE, <<col(2), aRp, col(3)>>, <<>>, 0, 0, TRUE, FALSE, FALSE),
      Mk(3, LA2, "p", FALSE, <<col(2), aRp>>, <<aLo>>, 112, 0, FALSE, FALSE, FALSE),
      Text(Ty(Mk(4, LM2, "x", FALSE, <<col(2), aRp>>, <<>>, 0, 0, TRUE, FALSE, FALSE), 1), 1),
      Ty(Mk(4, LM2, "x", FALSE, <<aRp, col(3)>>, <<aLo>>, 41, 0, TRUE, FALSE, FALSE), 1) }
(* quick tier, 3 threads: thread t runs the t-th job (the threads are interchangeable; pairs of EQUAL jobs are in "3rows") *)
JobSeq2 == << Mk(1, LA2, "e", FALSE, <<col(2), aRp>>, <<aLo, aHi>>, 11, 11, FALSE, FALSE, TRUE),
              Mk(1, LA2, "p", TRUE, <<>>, <<aCp, aHi>>, 0, 112, FALSE, TRUE, FALSE),
              Text(Mk(2, LB2, "e", FALSE, <<col(2), aRp, col(3)>>, <<>>, 0, 0, TRUE, FALSE, FALSE), 1) >>
(* the smallest families the broken mechanisms fail on *)
JobsCompiler ==
    { Mk(1, LA2, "e", FALSE, <<col(2)>>, <<aLo, aHi>>, 11, 11, FALSE, FALSE, TRUE),
      Mk(1, LA2, "e", FALSE, <<col(2)>>, <<aLo, aHi>>, 12, 12, FALSE, FALSE, TRUE) }
JobsMemo ==
    { Mk(1, LA2, "e", FALSE, <<col(2), aRp>>, <<>>, 0, 0, TRUE, FALSE, FALSE),
      Mk(2, LB2, "e", FALSE, <<col(2), aRp>>, <<>>, 0, 0, TRUE, FALSE, FALSE) }
JobsParser ==
    { Text(Mk(1, LA2, "e", FALSE, <<col(2)>>, <<>>, 0, 0, TRUE, FALSE, FALSE), 1),
      Text(Mk(2, LB2, "e", FALSE, <<col(2)>>, <<>>, 0, 0, TRUE, FALSE, FALSE), 1) }
JobsScan ==
    { Ty(Mk(4, LM2, "x", FALSE, <<col(2), aRp>>, <<>>, 0, 0, TRUE, FALSE, FALSE), 1) }
(* function calls (the operands evaluated one by one, the thread descheduled between them) and FROM-subqueries (the
   same names at different positions), 2 threads, every interleaving *)
JobsExpr ==
    { Mk(1, LA2, "p", FALSE, <<Fn("add", 2, 1)>>, <<>>, 0, 0, TRUE, FALSE, FALSE),                      \* add(col 2, col 1)
      Mk(2, LB2, "p", FALSE, <<col(3), Fn("add", 2, 3)>>, <<aFhi>>, 0, 221, FALSE, FALSE, FALSE),       \* other ledger; cmp(<hi>, key) in WHERE
      Mk(1, LA2, "e", FALSE, <<Fn("first", 2, 3)>>, <<aFlo>>, 12, 0, FALSE, FALSE, TRUE),               \* same connection, other table
      Sub(Mk(1, LA2, "p", FALSE, <<aCp, col(2), col(1)>>, <<>>, 0, 0, TRUE, FALSE, FALSE), <<1, 2>>),   \* FROM (SELECT c1 AS n1, c2 AS n2 ..)
      Sub(Mk(1, LA2, "p", FALSE, <<aCp, col(2)>>, <<aHi>>, 0, 112, FALSE, FALSE, TRUE), <<2, 3, 1>>),   \* n2 first, n1 last
      Sub(Mk(2, LB2, "p", TRUE, <<>>, <<aCp, aLo>>, 211, 0, TRUE, FALSE, FALSE), <<3, 2, 1>>),          \* SELECT * FROM (subquery)
      Sub(Mk(3, LA2, "p", FALSE, <<aCp, Fn("add", 2, 3), aRp>>, <<>>, 0, 0, TRUE, FALSE, FALSE), <<3, 2>>) }  \* a call over the names
JobsOperands ==
    { Mk(1, LA2, "p", FALSE, <<Fn("add", 2, 1)>>, <<>>, 0, 0, TRUE, FALSE, FALSE),
      Mk(2, LB2, "p", FALSE, <<Fn("add", 2, 1)>>, <<>>, 0, 0, TRUE, FALSE, FALSE) }
JobsSubcols ==
    { Sub(Mk(1, LA2, "p", FALSE, <<aCp, col(2)>>, <<>>, 0, 0, TRUE, FALSE, FALSE), <<1, 2>>),
      Sub(Mk(2, LB2, "p", FALSE, <<aCp, col(2)>>, <<>>, 0, 0, TRUE, FALSE, FALSE), <<2, 1>>) }
(* delivery of the results: the statement goes through the connection's execute() shortcut (or a cursor the thread
   made), the thread is descheduled after execute() has returned and between its fetches *)
JobsDeliver ==
    { Dl(Mk(1, LA2, "e", FALSE, <<col(2)>>, <<>>, 0, 0, TRUE, FALSE, FALSE), "conn", <<0>>),               \* conn.execute(..); fetchall
      Dl(Mk(1, LA2, "p", FALSE, <<col(2), col(3)>>, <<aHi>>, 0, 121, FALSE, FALSE, FALSE), "conn", <<1, 0>>), \* same connection: fetchone, fetchall
      Dl(Mk(1, LA2, "p", FALSE, <<aRp, col(1)>>, <<>>, 0, 0, TRUE, FALSE, FALSE), "cursor", <<2, 0>>),     \* a cursor of its own on that connection
      Dl(Mk(1, LA2, "e", FALSE, <<col(3), col(2)>>, <<aLo>>, 12, 0, FALSE, FALSE, FALSE), "conn", <<>>),   \* results taken at once
      Dl(Mk(2, LB2, "p", TRUE, <<>>, <<>>, 0, 0, TRUE, FALSE, FALSE), "conn", <<1, 1, 0>>),                \* another connection
      Dl(Mk(2, LB2, "e", FALSE, <<col(2)>>, <<>>, 0, 0, TRUE, FALSE, FALSE), "conn", <<1>>) }             \* only the first row is asked for
JobsResults ==
    { Dl(Mk(1, LA2, "e", FALSE, <<col(2)>>, <<>>, 0, 0, TRUE, FALSE, FALSE), "conn", <<0>>),
      Dl(Mk(1, LA2, "p", FALSE, <<col(2)>>, <<>>, 0, 0, TRUE, FALSE, FALSE), "conn", <<0>>) }
Jobs(name) ==
    CASE name = "3rows" -> Jobs3 [] name = "2rows" -> Jobs2
      [] name = "deliver" -> JobsDeliver [] name = "results" -> JobsResults
      [] name = "expr" -> JobsExpr [] name = "operands" -> JobsOperands [] name = "subcols" -> JobsSubcols
      [] name = "compiler" -> JobsCompiler [] name = "memo" -> JobsMemo
      [] name = "parser" -> JobsParser [] name = "scan" -> JobsScan

(* a connection holds one ledger *)
Coherent(p) == \A t, u \in Threads : p[t].conn = p[u].conn => p[t].ledger = p[u].ledger
Init == \E p \in [Threads -> Jobs(JobSet)] : Coherent(p) /\ InitWith(p)
InitFixed == InitWith([t \in Threads |-> JobSeq2[t]])
Spec == Init /\ [][Next]_vars
FairSpec == Spec /\ Fairness
=============================================================================
