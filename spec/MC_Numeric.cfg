\* decimals k/4, |k| <= 40 (and pairs of them), digits -2..2
CONSTANTS
  MaxK = 40
  Den = 4
  MaxDigits = 2
INIT Init
NEXT Next
INVARIANTS RatInv AbsNegInv RoundInv RoundAnchors SafeDivInv CastInv CastAnchors
CHECK_DEADLOCK FALSE
