\* non-vacuity: broken mechanism run_closes_any (the default closing date of .run applied to PRINT as well) must be rejected
CONSTANTS
  Headers <- Empty
  Pool <- Empty
  MaxPostings = 0
  Shapes <- Empty
  DirPool <- Empty
  MaxDirs = 0
  PrintShapes <- Empty
  KnownStrings <- NoStrings
  KnownPats <- NoStrings
  Variant = "shipped"
  NConn = 1
  MaxSteps = 3
  Routes = {"typed", "run"}
  Mech = "run_closes_any"
INIT SInit
NEXT SNext
INVARIANTS Independent
CHECK_DEADLOCK FALSE
