\* non-vacuity: the converters quantise through the display context with ITS default setting instead of through the
\* formatter given (built for "maximum").  TLC must violate SumPreserved.
CONSTANTS
  Space = "pos"
  Shapes <- ShapesOf
  FmtChoices <- Fmt1
  DCtx <- DCAB
  Prec = "maximum"
  CurSeq <- CS3
  InvNull = "skip"
  Mut = "ctxdefault"
INIT Init
NEXT Next
INVARIANTS SumPreserved
CHECK_DEADLOCK FALSE
