CONSTANTS
  MaxDepth = 2
  EmitMode = "typed"
INIT Init
NEXT Next
INVARIANTS TypeSound StrictNull DivModLaw Emit
CHECK_DEADLOCK FALSE
