\* date_bin as the code computes it (walk from the origin, `n > source`), full set of strides and origins, every date
\* of 2019-07-01 .. 2020-12-31: the mechanism must satisfy the laws of the statement
CONSTANTS
  Lo = 737241
  Hi = 737790
  Step = 1
  ChainLen = 16
  BinImpl = "walk"
  BinFull = TRUE
INIT Init
NEXT Next
INVARIANTS BinInv WalkInv
CHECK_DEADLOCK FALSE
