-------------------------- MODULE StatementsSession --------------------------
(***************************************************************************)
(* C14, sessions -- the property quantifies over ledgers and statements:    *)
(* what BALANCES / JOURNAL / PRINT return is a function of (ledger,         *)
(* statement) and of nothing else.  In particular it does not depend on     *)
(* what the connection executed before, on other connections of the         *)
(* process, or on whether the same text was executed before.                *)
(*                                                                         *)
(* Statements.tla runs ONE statement on ONE ledger.  This module is the     *)
(* grain above it: connections with their registered table objects, and    *)
(* sessions = sequences of statements on them, shaped like the code:        *)
(*                                                                         *)
(*   connect            source.attach: tables[name] = Table(entries, opts)  *)
(*   SCompile           Compiler: table = context.tables[name]; a FROM      *)
(*                      clause replaces it by table.update(open, close,     *)
(*                      clear) -- a shallow COPY of the table object        *)
(*   SExecute           iterating the table calls table.prepare(), which    *)
(*                      computes the entry list after OPEN / CLOSE / CLEAR  *)
(*                      from the attributes of THAT object                  *)
(*                                                                         *)
(* The summarisation itself is C13's subject: here Summ(ledger, clauses) is *)
(* an uninterpreted (injective) pairing, the VERSION of the entry list.     *)
(* Declaratively every statement must be evaluated on the version           *)
(* (ledger of its connection, its own clauses): invariant Independent.      *)
(*                                                                         *)
(* Mech = "shipped" is the mechanism as the code has it (a table object     *)
(* carries nothing but its clauses).  The other values are broken           *)
(* mechanisms in which state survives a statement (TLC must reject each):   *)
(*   memo_on_object   prepare() remembers its outcome on the object it is   *)
(*                    called on -- update() copies the attribute along      *)
(*   update_in_place  update() sets the clauses on the registered object    *)
(*   memo_on_class    the outcome is remembered per table class             *)
(*                    (process-wide: leaks between connections)             *)
(*                                                                         *)
(* ROUTES.  The property speaks of the STATEMENT, not of the way it is      *)
(* submitted.  A step of a session therefore also carries its route:        *)
(*   "typed"  the text handed to Connection.execute / typed at the shell    *)
(*            prompt (BQLShell.default -> dispatch)                         *)
(*   "run"    the text stored in the ledger by a `query` directive dated    *)
(*            QDate and submitted with the shell command `.run <name>`:     *)
(*            BQLShell.parse(text, default_close_date = QDate) sits         *)
(*            between the text and the compiler                             *)
(* Declaratively PRINT emits the directives satisfying the FROM expression  *)
(* after the OPEN / CLOSE / CLEAR of THE STATEMENT, on every route.  For a   *)
(* stored BALANCES / JOURNAL whose FROM clause has no CLOSE the shell        *)
(* supplies the date of the query directive as default closing date (as it  *)
(* does for the SELECT it expands into); the property statement is silent   *)
(* about that feature, so both readings are admitted (Admitted).            *)
(*   run_closes_any   broken: the default closing date is applied to every  *)
(*                    statement that has a FROM clause -- PRINT included    *)
(* CLAUSE COMBINATIONS.  "after OPEN / CLOSE / CLEAR": a FROM clause with   *)
(* several clauses means their application one after the other, in that     *)
(* order; the version Summ(ledger, clauses) is the ledger with the chain of  *)
(* single clauses applied to it.                                            *)
(*   fused_period     broken: OPEN ON d CLOSE ON e is computed by a routine  *)
(*                    of its own instead of OPEN, then CLOSE                *)
(***************************************************************************)
EXTENDS MC_Statements, Json

CONSTANTS NConn,      \* connections 1..NConn, connection c is attached to ledger c
          MaxSteps,   \* statements per session
          Mech,
          Routes      \* subset of {"typed", "run"}: how the statements of a session may be submitted

\* the date of the `query` directives that store the statements of SessionShapes in the ledger (route "run")
QDate == D20200601

Empty == <<>>
NoStrings == {}

(* ---- the statements of a session: every kind x {no FROM, FROM expression, FROM with each clause, all clauses} ---- *)
SessFroms == <<
    NoFrom,
    FromE(CmpE("year", "=", 2020, "2020")),
    ClauseFrom(TrueE, Null, "on", D20210101, FALSE),
    ClauseFrom(TrueE, Some(D20200601), "none", "", FALSE),
    ClauseFrom(TrueE, Null, "none", "", TRUE),
    ClauseFrom(CmpE("year", "=", 2020, "2020"), Some(D20200105), "on", D20210101, TRUE) >>
SessKinds == <<"print", "balances", "journal">>
SessStmt(kind, fc) == [kind |-> kind, f |-> IF kind = "balances" THEN "cost" ELSE "none", from |-> fc, where |-> TrueE,
                       acct |-> IF kind = "journal" THEN Acct(FALSE, "Assets") ELSE NoAcct]
SessionShapes == [n \in 1..(3 * Len(SessFroms)) |-> SessStmt(SessKinds[((n - 1) % 3) + 1], SessFroms[((n - 1) \div 3) + 1])]

Clauses(fc) == [open |-> fc.open, close |-> fc.close, clear |-> fc.clear]
NoClauses == Clauses(NoFrom)
TableOf(s) == IF s.kind = "print" THEN "entries" ELSE "postings"
TableNames == {"entries", "postings"}
\* the clauses a statement asks for: those of its FROM clause; none when it has no FROM clause
OwnClauses(s) == IF s.from.present THEN Clauses(s.from) ELSE NoClauses

\* the entry list of ledger c after the clauses cl.  What one clause does to a ledger is uninterpreted (C13 judges the
\* summarisation); a combination of clauses is their application one after the other, OPEN then CLOSE then CLEAR
\* (Statements!ClauseChain): the version is the ledger and the sequence of single clauses applied to it.
Summ(c, cl) == [ledger |-> c, applied |-> ClauseChain(cl)]
\* BeanTable.prepare() on a table object carrying the clauses cl.  As shipped: open(), then close(), then clear().
\*   fused_period   broken: a clause pair OPEN ON d CLOSE ON e is computed in one pass by a routine of its own (a "clamp"
\*                  to the period) -- not the entry list after OPEN, closed
Prepare(c, cl) ==
    IF Mech = "fused_period" /\ cl.open # <<>> /\ cl.close.k = "on"
    THEN [ledger |-> c, applied |-> <<[open |-> cl.open, close |-> cl.close, clear |-> FALSE]>>
                                    \o (IF cl.clear THEN <<[open |-> <<>>, close |-> NoClose, clear |-> TRUE]>> ELSE <<>>)]
    ELSE Summ(c, cl)

-----------------------------------------------------------------------------
VARIABLES
    steps,      \* the session so far: sequence of [c |-> connection, s |-> index into SessionShapes, r |-> route]
    reg,        \* reg[c][t]: the table object registered under name t on connection c: [cl, memo]
    classmemo,  \* classmemo[t]: state kept on the table CLASS (used by the broken mechanism "memo_on_class" only)
    spc,        \* "idle" | "compiled"
    cur,        \* the table object the compiled statement holds
    curisreg,   \* is it the registered object itself (identity, not equality)?
    scanned     \* per executed statement, the version of the entry list its table delivered
svars == <<steps, reg, classmemo, spc, cur, curisreg, scanned>>

NewTable == [cl |-> NoClauses, memo |-> <<>>]

\* the variables of the one-statement machine are not used here
Idle == tbl = "none" /\ ledger = <<>> /\ si = 0 /\ phase = "none" /\ pos = 0 /\ ctxbal = {} /\ out = <<>> /\ gkeys = <<>> /\ gvals = <<>>
SInit ==
    /\ steps = <<>> /\ scanned = <<>> /\ spc = "idle" /\ cur = NewTable /\ curisreg = FALSE
    /\ reg = [c \in 1..NConn |-> [t \in TableNames |-> NewTable]]
    /\ classmemo = [t \in TableNames |-> <<>>]
    /\ Idle

\* BeanTable.update(open=, close=, clear=): copy.copy(self), then set the three attributes -- whatever else the object
\* carries is carried along
UpdateCopy(obj, cl) == [obj EXCEPT !.cl = cl]

\* BQLShell.parse(line, default_close_date): the FROM clause that reaches the compiler.  `.run <name>` passes the date
\* of the query directive; it is put into the FROM clause of a SELECT / BALANCES / JOURNAL that has a FROM clause
\* without CLOSE.  A typed statement (default_close_date = None) and a PRINT go through unchanged.
DefaultClosed(fc) == [fc EXCEPT !.close = [k |-> "on", d |-> QDate]]
DefaultCloseApplies(s) == s.from.present /\ s.from.close.k = "none"
ShellParse(s, r) ==
    IF r = "run" /\ DefaultCloseApplies(s) /\ (s.kind # "print" \/ Mech = "run_closes_any")
    THEN DefaultClosed(s.from) ELSE s.from

\* Compiler._print / _select (through _balances / _journal): pick the registered table, apply the FROM clause
SCompile ==
    /\ spc = "idle" /\ Len(steps) < MaxSteps
    /\ \E c \in 1..NConn, n \in DOMAIN SessionShapes, r \in Routes :
          LET s == SessionShapes[n]
              t == TableOf(s)
              obj == reg[c][t]
              fc == ShellParse(s, r)
          IN /\ steps' = Append(steps, [c |-> c, s |-> n, r |-> r])
             /\ IF ~fc.present
                THEN /\ cur' = obj /\ curisreg' = TRUE /\ reg' = reg
                ELSE IF Mech = "update_in_place"
                     THEN /\ cur' = UpdateCopy(obj, Clauses(fc)) /\ curisreg' = TRUE
                          /\ reg' = [reg EXCEPT ![c][t] = UpdateCopy(obj, Clauses(fc))]
                     ELSE /\ cur' = UpdateCopy(obj, Clauses(fc)) /\ curisreg' = FALSE /\ reg' = reg
    /\ spc' = "compiled"
    /\ UNCHANGED <<classmemo, scanned, vars>>

\* table.prepare() at the start of the scan
SExecute ==
    /\ spc = "compiled"
    /\ LET st == steps[Len(steps)]
           c == st.c
           t == TableOf(SessionShapes[st.s])
           fresh == Prepare(c, cur.cl)
           v == CASE Mech = "memo_on_object" -> IF cur.memo # <<>> THEN cur.memo[1] ELSE fresh
                  [] Mech = "memo_on_class" -> IF classmemo[t] # <<>> THEN classmemo[t][1] ELSE fresh
                  [] OTHER -> fresh
       IN /\ scanned' = Append(scanned, v)
          \* an attribute set by prepare() lands on the object it was called on: the registered one or a copy that
          \* nobody holds after the statement
          /\ reg' = IF Mech = "memo_on_object" /\ curisreg THEN [reg EXCEPT ![c][t].memo = <<v>>] ELSE reg
          /\ classmemo' = IF Mech = "memo_on_class" THEN [classmemo EXCEPT ![t] = <<v>>] ELSE classmemo
    /\ spc' = "idle" /\ cur' = NewTable /\ curisreg' = FALSE
    /\ UNCHANGED <<steps, vars>>

SNext == SCompile \/ SExecute
SSpec == SInit /\ [][SNext]_<<svars, vars>>

-----------------------------------------------------------------------------
(* the property: every statement is evaluated on (the ledger of its connection, its own clauses) -- whatever ran before
   and whatever the route.  The one freedom: a stored BALANCES / JOURNAL with a FROM clause without CLOSE may be closed
   at the date of its query directive (see ROUTES above).  PRINT has no such freedom: `exactly the directives satisfying
   the FROM expression after OPEN / CLOSE / CLEAR`. *)
AdmittedClauses(st) ==
    LET s == SessionShapes[st.s] IN
    IF st.r = "run" /\ s.kind # "print" /\ DefaultCloseApplies(s)
    THEN {OwnClauses(s), Clauses(DefaultClosed(s.from))}
    ELSE {OwnClauses(s)}
Admitted(st) == {Summ(st.c, cl) : cl \in AdmittedClauses(st)}
Independent == \A k \in DOMAIN scanned : scanned[k] \in Admitted(steps[k])
\* and the registered tables stay as attached
RegisteredUntouched == \A c \in 1..NConn, t \in TableNames : reg[c][t] = NewTable

-----------------------------------------------------------------------------
(* spec -> code: the statement table (texts) and every complete session with, per statement, the version it must be
   evaluated on.  The driver realises `evaluated on version (c, cl)` as: the same statement on a connection that has
   executed nothing else, attached to ledger c.  For a step on route "run" the admitted versions come with the text
   of the statement carrying exactly those clauses: the driver types that text at the prompt of a shell that has
   executed nothing else and requires the output of `.run <name>` to be one of them. *)
WithClauses(s, cl) == IF s.from.present THEN [s EXCEPT !.from.open = cl.open, !.from.close = cl.close, !.from.clear = cl.clear] ELSE s
AdmittedSeq(st) ==
    LET s == SessionShapes[st.s]
        own == OwnClauses(s)
        rest == SetToSeq(AdmittedClauses(st) \ {own})
        cls == <<own>> \o rest
    IN [j \in DOMAIN cls |-> [ledger |-> st.c, cl |-> cls[j], stmt |-> StmtTokens(WithClauses(s, cls[j]))]]
\* composition: a statement whose FROM clause carries several clauses returns what the statement with the LAST of them
\* only returns on the ledger that the clauses before it give (chain: the single clauses, in the order of application)
LastOnly(s) == LET ch == ClauseChain(s.from) IN IF Len(ch) < 2 THEN s ELSE WithClauses(s, ch[Len(ch)])
SessShapeInfo(s) == [kind |-> s.kind, f |-> s.f, from |-> s.from, where |-> s.where, acct |-> s.acct, short |-> StmtTokens(s),
                     expanded |-> IF s.kind = "print" THEN <<>> ELSE SelectTokens(Expand(s)),
                     clauses |-> HasClauses(s.from), own |-> OwnClauses(s),
                     chain |-> ClauseChain(s.from), last |-> StmtTokens(LastOnly(s))]
QueryName(n) == "s" \o ToString(n)
EmitSession ==
    IF steps = <<>> /\ spc = "idle"
    THEN PrintT(ToJson([k |-> "shapes", qdate |-> QDate, names |-> [n \in DOMAIN SessionShapes |-> QueryName(n)],
                        shapes |-> [n \in DOMAIN SessionShapes |-> SessShapeInfo(SessionShapes[n])]]))
    ELSE IF Len(steps) = MaxSteps /\ spc = "idle"
    THEN PrintT(ToJson([k |-> "session", steps |-> steps, want |-> [j \in DOMAIN steps |-> AdmittedSeq(steps[j])]]))
    ELSE TRUE
=============================================================================
