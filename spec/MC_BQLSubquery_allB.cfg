\* exhaustive (thorough): data set B, every template over every depth-2 statement, conforming mechanism
CONSTANTS
  Tabs <- TabsB
  Restore = TRUE
INIT InitAll
NEXT Next
INVARIANTS ResolvesOwnTable StarOwnTable IteratesOwnTable ExecIsDenote StarIdentity MaterialisedForm InIsMembership InWhereIsMembership StackInv DistinctOutputs
CHECK_DEADLOCK FALSE
