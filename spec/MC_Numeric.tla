----------------------------- MODULE MC_Numeric -----------------------------
(* MC leg of C18 (numeric half and casts): the state enumerates the decimals k/Den, |k| <= MaxK, paired with a
   second operand; the laws of decimal arithmetic that characterise abs, neg, round (half to even) and safediv,
   and the round trips of the casts, are invariants.                                                        *)
EXTENDS Numeric

CONSTANTS MaxK, Den, MaxDigits

Ks == (-MaxK)..MaxK
DigitsRange == (-MaxDigits)..MaxDigits

\* phase 0 root; phase 1: x = k/Den; phase 2: (x, y)
VARIABLES phase, k, j
Init == phase = 0 /\ k = 0 /\ j = 0
Next == \/ phase = 0 /\ phase' = 1 /\ k' \in Ks /\ j' = 0
        \/ phase = 1 /\ phase' = 2 /\ k' = k /\ j' \in Ks
X == Rat(k, Den)
Y == Rat(j, Den)

RatInv == (phase >= 1) => /\ IsRat(X) /\ X[1] * Den = k * X[2]
                          /\ Rat(3, -6) = <<-1, 2>> /\ Rat(0, 5) = <<0, 1>> /\ Rat(-10, 4) = <<-5, 2>>
AbsNegInv ==
  (phase = 1) =>
  /\ Neg(Neg(X)) = X /\ RAdd(X, Neg(X)) = RZero
  /\ RLeq(RZero, Abs(X)) /\ Abs(X) \in {X, Neg(X)} /\ Abs(Neg(X)) = Abs(X)
  /\ (RLeq(RZero, X) => Abs(X) = X) /\ (RLess(X, RZero) => Abs(X) = Neg(X))
\* round(x, n) is a multiple of 10^-n within half a unit of x; a tie goes to the even multiple
RoundInv ==
  (phase = 1) =>
  \A n \in DigitsRange :
    LET r == Round(X, n)
        unit == Scale(RInt(1), -n)                          \* 10^-n
        m == Scale(r, n)                                    \* r / unit
        err == RAbs(RSub(X, r)) IN
    /\ IsRat(r) /\ RIsInt(m)
    /\ RLeq(RMul(err, RInt(2)), unit)
    /\ (RMul(err, RInt(2)) = unit) => m[1] % 2 = 0
    /\ Round(r, n) = r                                      \* idempotent
    /\ RLeq(Round(X, n), Round(RAdd(X, Rat(1, Den)), n))    \* monotone
    /\ Round(Neg(X), n) = Neg(r)                            \* symmetric
    /\ (n >= 0 /\ RIsInt(X)) => r = X /\ RoundInt(X[1], n) = X[1]
    /\ RIsInt(X) => RInt(RoundInt(X[1], n)) = r
RoundAnchors ==
  /\ Round(<<5, 2>>, 0) = <<2, 1>> /\ Round(<<7, 2>>, 0) = <<4, 1>> /\ Round(<<-5, 2>>, 0) = <<-2, 1>>
  /\ Round(<<1, 8>>, 2) = <<3, 25>> /\ Round(<<3, 8>>, 2) = <<19, 50>>        \* 0.125 -> 0.12, 0.375 -> 0.38
  /\ RoundInt(25, -1) = 20 /\ RoundInt(15, -1) = 20 /\ RoundInt(-15, -1) = -20 /\ RoundInt(150, -2) = 200
  /\ RoundInt(250, -2) = 200 /\ RoundInt(7, 1) = 7
SafeDivInv ==
  (phase = 2) =>
  /\ (Y[1] = 0) => SafeDiv(X, Y) = RZero
  /\ (Y[1] # 0) => RMul(SafeDiv(X, Y), Y) = X /\ IsRat(SafeDiv(X, Y))
  /\ (j # 0) => SafeDiv(X, RInt(j)) = Rat(k, Den * j)
  /\ SafeDiv(X, RInt(0)) = RZero
CastInv ==
  (phase = 1) =>
  /\ BoolOfDec(X) <=> (k # 0)
  /\ BoolOfInt(k) <=> (k # 0)
  \* int(decimal) truncates toward zero
  /\ LET t == IntOfDec(X) IN
     /\ RLeq(RAbs(RInt(t)), RAbs(X)) /\ RLess(RAbs(X), RAdd(RAbs(RInt(t)), RInt(1)))
     /\ (t # 0) => (t > 0 <=> k > 0)
     /\ IntOfDec(Neg(X)) = -t
     /\ RIsInt(X) => t = X[1]
  /\ IntOfDec(DecOfInt(k)) = k
  \* str / parse round trips
  /\ ParseIntDomain(StrOfInt(k)) /\ ParseInt(StrOfInt(k)) = <<k>>
  /\ ParseInt(" " \o StrOfInt(k) \o " ") = <<k>> /\ ParseInt("+" \o StrOfInt(AbsI(k))) = <<AbsI(k)>>
  /\ ParseDec(StrOfInt(k)) = <<RInt(k)>>
  /\ StrOfDecDomain(X) => /\ ParseDecDomain(StrOfDec(X)) /\ ParseDec(StrOfDec(X)) = <<X>>
                          /\ RIsInt(X) => StrOfDec(X) = StrOfInt(X[1])
                          /\ ParseInt(StrOfDec(X)) = (IF RIsInt(X) THEN <<X[1]>> ELSE <<>>)
CastAnchors ==
  /\ ParseInt("12") = <<12>> /\ ParseInt("-3") = <<-3>> /\ ParseInt(" 7 ") = <<7>> /\ ParseInt("007") = <<7>>
  /\ ParseInt("") = <<>> /\ ParseInt("a") = <<>> /\ ParseInt("1.5") = <<>> /\ ParseInt("1 2") = <<>>
  /\ ParseInt("--1") = <<>> /\ ParseInt("+") = <<>> /\ ParseInt("2020-01-01") = <<>>
  /\ ~ParseIntDomain("1_0") /\ ~ParseDecDomain("1e3") /\ ~ParseDecDomain("NaN") /\ ~ParseDecDomain("Infinity")
  /\ ParseDec("1.5") = <<<<3, 2>>>> /\ ParseDec("-0.25") = <<<<-1, 4>>>> /\ ParseDec(".5") = <<<<1, 2>>>>
  /\ ParseDec("1.") = <<<<1, 1>>>> /\ ParseDec(" 2.50 ") = <<<<5, 2>>>> /\ ParseDec("+3") = <<<<3, 1>>>>
  /\ ParseDec(".") = <<>> /\ ParseDec("") = <<>> /\ ParseDec("1.2.3") = <<>> /\ ParseDec("a") = <<>>
  /\ ParseDec("1 2") = <<>> /\ ParseDec("-") = <<>> /\ ParseDec("B:") = <<>>
  /\ StrOfDec(<<-11, 4>>) = "-2.75" /\ StrOfDec(<<1, 2>>) = "0.5" /\ StrOfDec(<<0, 1>>) = "0"
  /\ StrOfDec(<<41, 20>>) = "2.05" /\ StrOfDec(<<10, 1>>) = "10" /\ ~StrOfDecDomain(<<1, 3>>) /\ ~StrOfDecDomain(<<1, 8>>)
  /\ BoolOfStr("a") /\ ~BoolOfStr("") /\ BoolOfStr(" ") /\ BoolOfStr("0")
=============================================================================
