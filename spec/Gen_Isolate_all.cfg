\* C20 schedule generator (Isolate): every pause-point schedule of the job families
CONSTANTS
  Threads = {1, 2, 3}
  CompilerScope = "per execution"
  ColumnMemo = "none"
  ParserScope = "per call"
  ScanMemo = "none"
  OperandScope = "per call"
  SubqueryColumns = "per table object"
  ResultScope = "per execute call"
  JobSet = ""
  Family = "all"
INIT SInit
NEXT SNext
INVARIANTS SEmit SEmitJobs
CHECK_DEADLOCK FALSE
