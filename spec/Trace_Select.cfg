INIT Init
NEXT Next
POSTCONDITION Consumed
CHECK_DEADLOCK FALSE
