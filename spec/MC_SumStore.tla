---------------------------- MODULE MC_SumStore ----------------------------
(* Model-checking instances of SumStore (C12: sum() over inventory values): every table of up to MaxRows rows
   (two groups; NULL cells, cash, a lot at cost, a sale reducing that lot, a second lot) x every history of HistLen
   statements (one to three aggregate nodes over the SAME inventory operand: sum(inv), units / cost of it, sum of
   units / cost; grouped or not; grouped ones with or without HAVING NOT empty(sum(inv))). *)
EXTENDS SumStore

CONSTANTS MaxRows, HistLen, Rich, RichCells,
          Limits      \* the LIMIT clauses of the last statement of a history (0: none)

D1 == 737434   \* 2020-01-10
D2 == 737444
C1 == <<10, "USD", D1, "">>
C2 == <<12, "USD", D2, "">>
pU == Pos("USD", NoCost, 1)
pH == Pos("HOOL", C1, 2)
pR == Pos("HOOL", C1, -2)      \* a sale reducing the lot
pK == Pos("HOOL", C2, 1)

MCPrices == { <<"HOOL", "USD", D1, 11>> }
FU == <<"units", "", 0>>
FC == <<"cost", "", 0>>
FV == <<"value", "", 0>>
S == Node("sum", NoF)
SeqsUpTo(n, X) == UNION { [1..k -> X] : k \in 0..n }

Cells(rich, nulls) == { Row(g, FALSE, v) : g \in 1..2, v \in {Single(pU), Single(pH), Single(pR)}
                                                  \cup (IF rich THEN {AddPos(Single(pU), pK), EmptyInv} ELSE {}) }
               \cup { Row(g, TRUE, EmptyInv) : g \in (IF nulls THEN 1..2 ELSE {1}) }
NodeLists(rich) ==
    { <<S>>, <<S, S>>, <<S, Node("fsum", FU)>>, <<Node("fsum", FC), S>>, <<Node("fsum", FU), Node("sumf", FU)>> }
    \cup (IF rich THEN { <<S, Node("sumf", FC), Node("fsum", FC)>>, <<Node("sumf", FV), S, Node("fsum", FV)>>,
                         <<Node("fsum", FU), Node("fsum", FC)>> } ELSE {})
(* BQL has HAVING after GROUP BY only *)
Stmts(rich) == { s \in { StmtL(nl, gr, hv, lm) : nl \in NodeLists(rich), gr \in BOOLEAN, hv \in BOOLEAN, lm \in Limits } :
                     s.having => s.grouped }

(* sets behind an operator with a parameter: not evaluated at the startup of the other configurations *)
(* histories: what has been executed before (one of a few shapes: one node, two nodes over the same operand grouped,
   in the rich instance also f of the sum next to the sum of f with HAVING), then any statement *)
Before(rich) == { Stmt(<<S>>, FALSE, FALSE), Stmt(<<S, S>>, TRUE, FALSE) }
                \cup (IF rich THEN { Stmt(<<Node("fsum", FU), Node("sumf", FU)>>, TRUE, TRUE) } ELSE {})
Plans(rich) == { b \o <<s>> : b \in [1..(HistLen - 1) -> Before(rich)], s \in Stmts(rich) }
Init == InitWith(SeqsUpTo(MaxRows, Cells(RichCells, Rich)), Plans(Rich))
(* the counterexample family only (non-vacuity run on the Adopt mechanism) *)
InitSmall == InitWith(SeqsUpTo(2, Cells(FALSE, FALSE)), [1..2 -> {Stmt(<<S>>, FALSE, FALSE), Stmt(<<S, S>>, FALSE, FALSE)}])

(* ... and with one aggregate node only: the damage shows when a statement is executed the second time *)
InitHist == InitWith(SeqsUpTo(2, Cells(FALSE, FALSE)), [1..2 -> {Stmt(<<S>>, FALSE, FALSE), Stmt(<<S>>, TRUE, FALSE)}])

(* ... and for the run on the StopAtLimit mechanism: one grouped statement with LIMIT 1, tables of up to 3 rows (the
   damage needs a row of the first group after the first row of the second one) *)
InitLimit == InitWith(SeqsUpTo(3, Cells(FALSE, FALSE)), { <<StmtL(<<S>>, TRUE, FALSE, 1)>> })

(* the laws of InvSum on the tables of this instance, once per table (in its initial state) *)
LawsInv ==
    (st = 0 /\ results = <<>>) =>
       /\ LawRowsPartition(tab)
       /\ \A f \in {FU, FC, FV} : \A g \in 0..2 :
             LawCommute(f, tab, {r \in 1..Len(tab) : g = 0 \/ tab[r].g = g}, Prices, Scale)
=============================================================================
