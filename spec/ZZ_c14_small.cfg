\* exhaustive (quick): every ledger of <= 3 postings from a pool of 10, 198 BALANCES / JOURNAL shapes;
\* every directive list of <= 3 of 9 directives, 14 PRINT filters
CONSTANTS
  Headers <- HeadersDef
  Pool <- Pool10
  MaxPostings = 2
  Shapes <- ShapesDef
  DirPool <- DirPool9
  MaxDirs = 2
  PrintShapes <- PrintShapesDef
  KnownStrings <- KnownStringsDef
  KnownPats <- KnownPatsDef
  Variant = "no_sortkey_group"
INIT Init
NEXT Next
INVARIANTS DenoteIsMeaning WellFormed
CHECK_DEADLOCK FALSE
