CONSTANTS
  Variant = "ok"
  Texts <- TextsSmall
  Conns <- Conns2
  MaxOps = 3
  Mode = "memo"
INIT SInit
NEXT SNext
INVARIANT HistoryFree
CHECK_DEADLOCK FALSE
