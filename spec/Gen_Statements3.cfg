\* thorough: <= 3 postings, <= 3 directives
CONSTANTS
  Headers <- HeadersDef
  Pool <- Pool14
  MaxPostings = 3
  Shapes <- ShapesDef
  DirPool <- DirPoolAll
  MaxDirs = 3
  PrintShapes <- PrintShapesDef
  KnownStrings <- KnownStringsDef
  KnownPats <- KnownPatsDef
  Variant = "shipped"
INIT Init
NEXT Stutter
INVARIANT EmitCase
CHECK_DEADLOCK FALSE
