\* non-vacuity: function calls that stop evaluating their operands at the first NULL one never call the balance accessor
\* in that row: g(x, balance) loses the postings on which x is NULL.  TLC must reject.
CONSTANTS
  Threads = {1}
  CacheMode = "per row context"
  Split = FALSE
  Programs = 0
  ArgEval <- StopAtNull
INIT InitNest2
NEXT Next
INVARIANTS PrefixSumInv
CHECK_DEADLOCK FALSE
