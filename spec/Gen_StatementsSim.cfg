\* simulation: ledgers of exactly 5 postings / 6 directives grown step by step
CONSTANTS
  Headers <- HeadersDef
  Pool <- Pool14
  MaxPostings = 5
  Shapes <- ShapesDef
  DirPool <- DirPoolAll
  MaxDirs = 6
  PrintShapes <- PrintShapesDef
  KnownStrings <- KnownStringsDef
  KnownPats <- KnownPatsDef
  Variant = "shipped"
INIT GrowInit
NEXT GrowNext
INVARIANT EmitGrown
CHECK_DEADLOCK FALSE
