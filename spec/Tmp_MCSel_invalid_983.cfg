CONSTANTS
  MaxRows = 2
  QuerySet = "invalid"
  EmitMode = "cases"
  TableStride = 1
  Variant = "ok"
INIT Init
NEXT Next
INVARIANTS CompileIffValid SteppedIsExec ScanLaw GroupLaw Additivity HavingLaw SortLaw PhaseOrderLaw DistinctLaw PivotLaw Emit EmitTable
PROPERTIES ScanPrefix GroupIsolation
CHECK_DEADLOCK FALSE
