\* date_bin with the full set of strides (days, months, years) and origins, every date of 2018-01-01 .. 2024-12-31
CONSTANTS
  Lo = 736695
  Hi = 739251
  Step = 1
  ChainLen = 64
  BinImpl = "spec"
  BinFull = TRUE
INIT Init
NEXT Next
INVARIANTS BinInv WalkInv
CHECK_DEADLOCK FALSE
