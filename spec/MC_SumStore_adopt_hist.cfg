\* non-vacuity, history only: one aggregate node per statement; the Adopt mechanism must be rejected at the second execution
CONSTANTS
  Mode = "adopt"
  Scale = 1
  MaxRows = 2
  HistLen = 2
  Rich = FALSE
  RichCells = FALSE
  Limits = {0, 1}
  Prices <- MCPrices
INIT InitHist
NEXT SNext
INVARIANTS ResultInv
CHECK_DEADLOCK FALSE
