\* clause combinations (the full product of clause options), BALANCES / JOURNAL / PRINT
CONSTANTS
  Variant = "ok"
  MaxDepth = 0
  FullDepth = 0
  CtxDepth = 0
  StmtFull = TRUE
INIT InitStmt
NEXT NextStmt
INVARIANTS WellFormed RoundTrip Minimal NoSpareParens
CHECK_DEADLOCK FALSE
