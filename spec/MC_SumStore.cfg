\* C12 sum() over inventory values, quick: tables of up to 2 rows (3 cell values + NULL, 2 groups) x histories (one of 2 statements, then any of 15 x no LIMIT | LIMIT 1)
CONSTANTS
  Mode = "copy"
  Scale = 1
  MaxRows = 2
  HistLen = 2
  Rich = FALSE
  RichCells = FALSE
  Limits = {0, 1}
  Prices <- MCPrices
INIT Init
NEXT SNext
INVARIANTS SumTypeOK ResultInv InputsInv NoAliasInv PartialInv LawsInv
CHECK_DEADLOCK FALSE
