--------------------------- MODULE MC_Numberify ---------------------------
(* Exhaustive model-checking instances of Numberify: the table spaces.
   Layout of the one-amount-column tables: i (int), x (Amount | Position | Inventory), s (str).
   Numbers: 0, 1, -1, 3/2 (an exact tie at precision 0), 1/4 (quantises to zero at precision 0, a tie at 1).
   Display context: AAA is mostly written with 0 fractional digits and at most with 1, BBB mostly with 1 and at
   most with 2, CCC is unknown to it.  A formatter built with the defaults ("most_common") therefore has precision
   0 for AAA and 1 for BBB; one built for "maximum" has 1 for AAA (3/2 is exact, 1/4 a tie) and 2 for BBB. *)
EXTENDS Numberify

CS3 == <<"AAA", "BBB", "CCC">>
DCAB == << <<"AAA", 0, 1>>, <<"BBB", 1, 2>> >>
Fmt01 == {0, 1}
Fmt0 == {0}
Fmt1 == {1}

N5 == {<<0, 1>>, <<1, 1>>, <<-1, 1>>, <<3, 2>>, <<1, 4>>}
N3 == {<<1, 1>>, <<-1, 1>>, <<3, 2>>}
N2 == {<<1, 1>>, <<-1, 1>>}
N2q == {<<1, 1>>, <<3, 2>>}
NoCost == <<>>
Cost7 == <<7, 1>>

Lot(n, c, k) == [n |-> n, c |-> c, k |-> k]
NullCell == [tok |-> -1, isnull |-> 1, lots |-> <<>>]
Plain(t) == [tok |-> t, isnull |-> 0, lots |-> <<>>]
Val(lots) == [tok |-> -1, isnull |-> 0, lots |-> lots]

AmtCells(N) == {NullCell} \cup {Val(<<Lot(n, c, NoCost)>>) : n \in N, c \in Range(CS3)}
PosCells(N) == {NullCell} \cup {Val(<<Lot(n, c, k)>>) : n \in N, c \in Range(CS3), k \in {NoCost, Cost7}}

(* inventories: at most one lot per (currency, cost) key, never a zero lot -- what a real Inventory can hold.
   key 1..6 = (AAA, no cost), (AAA, at cost), (BBB, no cost), ... *)
KeyCur(k) == CS3[(k + 1) \div 2]
KeyCost(k) == IF k % 2 = 1 THEN NoCost ELSE Cost7
Bag(g) ==
    LET ks == SelectSeq(<<1, 2, 3, 4, 5, 6>>, LAMBDA k : g[k] # <<>>)
    IN Val([i \in 1..Len(ks) |-> Lot(g[ks[i]], KeyCur(ks[i]), KeyCost(ks[i]))])
InvCells(N, keys, maxlots) ==
    {NullCell} \cup
    {Bag(g) : g \in {h \in [1..6 -> N \cup {<<>>}] :
                        /\ \A k \in 1..6 : k \notin keys => h[k] = <<>>
                        /\ Cardinality({k \in 1..6 : h[k] # <<>>}) <= maxlots}}

Col(n, t) == [name |-> n, ty |-> t]
(* one amount-like column between two plain ones: i (int), x, s (str) *)
S1(ty, C, R) == [cols |-> <<Col("i", "int"), Col("x", ty), Col("s", "str")>>, cells |-> <<{}, C, {}>>, max |-> R]
(* two amount-like columns around a plain one, and a plain Decimal column *)
S2(C1, C2, R) == [cols |-> <<Col("x", "Amount"), Col("i", "int"), Col("y", "Inventory"), Col("d", "Decimal")>>,
                  cells |-> <<C1, {}, C2, {}>>, max |-> R]
S2p(C1, C2, R) == [cols |-> <<Col("p", "Position"), Col("q", "Position")>>, cells |-> <<C1, C2>>, max |-> R]
(* equally NAMED columns (`SELECT units(position) AS x, cost(position) AS x`, `SELECT account AS s, narration AS s`):
   two adjacent amount-like columns of one name and datatype followed by two plain ones of one name and datatype ... *)
D1(ty, C1, C2, R) == [cols |-> <<Col("x", ty), Col("x", ty), Col("s", "str"), Col("s", "str")>>,
                      cells |-> <<C1, C2, {}, {}>>, max |-> R]
(* ... and interleaved (of one datatype, or of two: equal names, different descriptions) *)
D2(ty1, ty2, C1, C2, R) == [cols |-> <<Col("s", "str"), Col("x", ty1), Col("s", "str"), Col("x", ty2)>>,
                            cells |-> <<{}, C1, {}, C2>>, max |-> R]

OddKeys == {1, 3, 5}
AllKeys == 1..6
N01q == {<<0, 1>>, <<1, 1>>, <<3, 2>>}
N1 == {<<1, 1>>}

(* the cell sets, as zero-arity definitions: TLC evaluates these once at start-up and caches them (an overridden
   constant such as Shapes is re-evaluated at every use, so it must be cheap: it only mentions cached sets) *)
A1 == AmtCells(N1)
A2q == AmtCells(N2q)
A3 == AmtCells(N3)
A01q == AmtCells(N01q)
A5 == AmtCells(N5)
P1 == PosCells(N1)
Pq == PosCells({<<3, 2>>})
P2q == PosCells(N2q)
P01q == PosCells(N01q)
P5 == PosCells(N5)
I1o1 == InvCells(N1, OddKeys, 1)        \* NULL, empty, one lot without cost
I1o2 == InvCells(N1, OddKeys, 2)
I1o3 == InvCells(N1, OddKeys, 3)        \* presence patterns of the three currencies
I2qo2 == InvCells(N2q, OddKeys, 2)
I2qo3 == InvCells(N2q, OddKeys, 3)
I3o3 == InvCells(N3, OddKeys, 3)
I2a2 == InvCells(N2, AllKeys, 2)        \* <= 2 lots among the six (currency, cost) keys, numbers 1 / -1 (cancelling lots)
I2qa2 == InvCells(N2q, AllKeys, 2)
I3a2 == InvCells(N3, AllKeys, 2)
I1a2 == InvCells(N1, AllKeys, 2)
I2m2 == InvCells(N2, {1, 2, 3, 4}, 2)   \* AAA / BBB, with and without cost, 1 / -1
I2a3 == InvCells(N2, AllKeys, 3)
I2a6 == InvCells(N2, AllKeys, 6)        \* 3 currencies x <= 2 lots per currency
I3a6 == InvCells(N3, AllKeys, 6)

CONSTANT Space   \* which input space this run explores
ShapesOf ==
    CASE Space = "quick" ->
           \* every kind over 3 rows x 3 currencies; inventories: 3 rows x presence patterns, 2 rows x (<= 2 lots of AAA /
           \* BBB with and without cost, 1 / -1: cancelling lots), 2 rows x (<= 2 currencies, 1 / 3/2), 1 row x the full
           \* 3 currencies x <= 2 lots per currency space (numbers 1, -1)
           << S1("Amount", A01q, 3), S1("Amount", A5, 2), S1("Position", P1, 3), S1("Position", P5, 2),
              S1("Inventory", I1o3, 3), S1("Inventory", I2m2, 2), S1("Inventory", I2qo2, 2), S1("Inventory", I2a6, 1),
              S2(A1, I1o2, 2), S2p(P1, Pq, 2),
              \* equally named columns: 2 rows x two Amount / Position / Inventory columns, one name
              D1("Amount", A01q, A1, 2), D1("Position", P1, Pq, 2), D2("Inventory", "Inventory", I1o2, I1o2, 2),
              D2("Position", "Amount", P1, A1, 2) >>
      [] Space = "thorough" ->
           \* 3 rows for every kind (inventories: 3 numbers x presence patterns; <= 2 lots over the six keys; cancelling
           \* lots of two currencies), 2 rows x <= 3 lots, 1 row x the full space with 3 numbers
           << S1("Amount", A5, 3), S1("Position", P5, 3),
              S1("Inventory", I2qo3, 3), S1("Inventory", I1a2, 3), S1("Inventory", I2m2, 3),
              S1("Inventory", I3o3, 2), S1("Inventory", I2a2, 2), S1("Inventory", I2a3, 2), S1("Inventory", I3a6, 1),
              S2(A3, I2qo2, 2), S2p(P2q, P2q, 2),
              D1("Amount", A5, A3, 2), D1("Amount", A1, A1, 3), D1("Position", P2q, P2q, 2), D1("Inventory", I1o3, I1o3, 2),
              D2("Inventory", "Inventory", I2qo2, I1o2, 2), D2("Position", "Amount", P2q, A2q, 2),
              D2("Amount", "Inventory", A2q, I1o3, 2) >>
      \* small spaces for the non-vacuity runs
      [] Space = "invnull" -> << S1("Inventory", I1o1, 2) >>
      [] Space = "inv3" -> << S1("Inventory", I1o3, 2) >>
      [] Space = "pos" -> << S1("Position", P2q, 2) >>
      [] Space = "inv2lots" -> << S1("Inventory", I2qa2, 1) >>
      [] Space = "dup" -> << D1("Amount", A1, A1, 1) >>
      \* a formatter built for another precision setting than the default (MC_Numberify_max.cfg): every kind, the
      \* numbers on which the two settings differ included (3/2, 1/4), several lots of one currency
      [] Space = "max" ->
           << S1("Amount", A5, 2), S1("Position", P5, 1), S1("Position", Pq, 2), S1("Inventory", I2qo2, 2),
              S1("Inventory", I2qa2, 1), S2(A2q, I2qo2, 1), D1("Amount", A2q, A2q, 1) >>
      [] Space = "gen-max" ->
           << S1("Amount", A5, 2), S1("Position", P5, 1), S1("Position", Pq, 3), S1("Inventory", I2qa2, 1),
              S1("Inventory", I2qo2, 2), S2(A2q, I2qo2, 1), D1("Amount", A2q, A2q, 1) >>
      \* spaces emitted for the spec -> code replay (Gen_Numberify)
      [] Space = "gen-quick" ->
           << S1("Amount", A01q, 2), S1("Position", P01q, 2), S1("Inventory", I1o3, 3), S1("Inventory", I2qa2, 2),
              S1("Inventory", I2a6, 1), S2(A1, I1o2, 2),
              D1("Amount", A01q, A1, 2), D1("Position", P1, Pq, 1), D2("Inventory", "Inventory", I1o1, I1o2, 2),
              D2("Position", "Amount", P1, A1, 1) >>
      [] Space = "gen-shell" -> << S1("Inventory", I2qo3, 2), S1("Inventory", I1o3, 3) >>
      \* thorough replay, in two runs (bounds the memory of the driver)
      [] Space = "gen-thorough-1" ->
           << S1("Amount", A5, 3), S1("Position", P01q, 3), S1("Position", P5, 2), S1("Inventory", I2qo3, 3) >>
      [] Space = "gen-thorough-2" ->
           << S1("Inventory", I3a2, 2), S1("Inventory", I3a6, 1), S2(A2q, I1o2, 2), S2p(P2q, Pq, 2) >>
      \* part 3: equally named columns
      [] Space = "gen-thorough-3" ->
           << D1("Amount", A5, A2q, 2), D1("Amount", A1, A1, 3), D1("Position", P2q, Pq, 2), D1("Inventory", I1o2, I1o3, 2),
              D2("Inventory", "Inventory", I2qo2, I1o1, 2), D2("Position", "Amount", P2q, A2q, 2),
              D2("Amount", "Inventory", A2q, I1o3, 2) >>
=============================================================================
