\* quick replay space; formatter knows AAA (0 digits) and BBB (1 digit), not CCC
CONSTANTS
  Space = "gen-quick"
  Shapes <- ShapesOf
  FmtChoices <- Fmt01
  DCtx <- DCAB
  Prec = "most_common"
  CurSeq <- CS3
  InvNull = "skip"
  Mut = "none"
INIT Init
NEXT GNext
INVARIANT Emit
CHECK_DEADLOCK FALSE
