\* quick replay space; formatter knows AAA (0 digits) and BBB (1 digit), not CCC
CONSTANTS
  Space = "gen-quick"
  Shapes <- ShapesOf
  FmtChoices <- Fmt01
  Q <- QAB
  CurSeq <- CS3
  InvNull = "skip"
  Mut = "none"
INIT Init
NEXT GNext
INVARIANT Emit
CHECK_DEADLOCK FALSE
