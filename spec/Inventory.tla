----------------------------- MODULE Inventory -----------------------------
(***************************************************************************)
(* The inventory algebra of C12 (and C17), transcribed from the property   *)
(* statement and the Beancount documentation, not from beanquery.          *)
(*                                                                         *)
(* lot key   <<currency, cost>>   cost = <<number, currency, date, label>> *)
(*           NoCost = <<0, "", 0, "">> (every field keeps one type so that *)
(*           TLC can compare any two keys)                                 *)
(* position  <<key, number>>                                               *)
(* inventory function from a finite set of lot keys to NON-ZERO integers   *)
(*           (a lot whose number reaches zero disappears)                  *)
(* numbers   integers in minor units: a value x is represented by x * sc   *)
(*           where sc (the scale) is passed to the operators that multiply *)
(* prices    set of <<base, quote, date, rate>>, at most one per           *)
(*           (base, quote, date); date 0 in a query means "latest"         *)
(***************************************************************************)
EXTENDS Integers, Sequences, FiniteSets

NoCost == <<0, "", 0, "">>
Pos(cur, cost, n) == <<<<cur, cost>>, n>>
PKey(p) == p[1]
PCur(p) == p[1][1]
PCost(p) == p[1][2]
PNum(p) == p[2]
HasCost(p) == PCost(p) # NoCost

EmptyInv == [k \in {} |-> 0]
Num(inv, k) == IF k \in DOMAIN inv THEN inv[k] ELSE 0
IsInventory(inv) == \A k \in DOMAIN inv : inv[k] # 0

(* inventory addition: lots with equal key (currency AND cost) merge, everything else stays apart *)
Add(a, b) ==
    LET ks == {k \in (DOMAIN a) \cup (DOMAIN b) : Num(a, k) + Num(b, k) # 0}
    IN [k \in ks |-> Num(a, k) + Num(b, k)]
Single(p) == IF PNum(p) = 0 THEN EmptyInv ELSE [k \in {PKey(p)} |-> PNum(p)]
AddPos(inv, p) == Add(inv, Single(p))

RECURSIVE SumSeq(_)
SumSeq(ps) == IF ps = <<>> THEN EmptyInv ELSE AddPos(SumSeq(SubSeq(ps, 1, Len(ps) - 1)), ps[Len(ps)])
(* sum of the positions of ps whose index is in I *)
RECURSIVE SumIdx(_, _)
SumIdx(ps, I) ==
    IF I = {} THEN EmptyInv
    ELSE LET i == CHOOSE i \in I : \A j \in I : j <= i IN AddPos(SumIdx(ps, I \ {i}), ps[i])
RECURSIVE SumInvs(_)
SumInvs(is) == IF is = <<>> THEN EmptyInv ELSE Add(SumInvs(SubSeq(is, 1, Len(is) - 1)), is[Len(is)])
(* sum of a set of <<tag, position>> pairs (the tag keeps equal positions apart) *)
RECURSIVE SumTagged(_)
SumTagged(S) ==
    IF S = {} THEN EmptyInv
    ELSE LET x == CHOOSE x \in S : TRUE IN AddPos(SumTagged(S \ {x}), x[2])

Positions(inv) == {<<k, inv[k]>> : k \in DOMAIN inv}
(* an inventory read from a sequence of positions (JSON side) *)
InvOfSeq(s) == SumSeq(s)

-----------------------------------------------------------------------------
(* prices *)
Mul(a, b, sc) == (a * b) \div sc
RatesAt(prices, b, q, d) == {e \in prices : e[1] = b /\ e[2] = q /\ (d = 0 \/ e[3] <= d)}
HasRate(prices, b, q, d) == b = q \/ RatesAt(prices, b, q, d) # {}
Rate(prices, b, q, d, sc) ==
    IF b = q THEN sc
    ELSE LET R == RatesAt(prices, b, q, d) IN (CHOOSE e \in R : \A f \in R : f[3] <= e[3])[4]

-----------------------------------------------------------------------------
(* the four functions on one position; each returns a position without cost (an amount) *)
UnitsP(p) == Pos(PCur(p), NoCost, PNum(p))
CostP(p, sc) == IF HasCost(p) THEN Pos(PCost(p)[2], NoCost, Mul(PNum(p), PCost(p)[1], sc)) ELSE UnitsP(p)
(* market value: only positions held at cost have a value currency; no price on or before d: units *)
ValueP(p, prices, d, sc) ==
    IF HasCost(p) /\ HasRate(prices, PCur(p), PCost(p)[2], d)
    THEN Pos(PCost(p)[2], NoCost, Mul(PNum(p), Rate(prices, PCur(p), PCost(p)[2], d, sc), sc))
    ELSE UnitsP(p)
(* conversion to a target currency: directly, else through the cost currency, else units *)
ConvertP(p, prices, tgt, d, sc) ==
    IF HasRate(prices, PCur(p), tgt, d)
    THEN Pos(tgt, NoCost, Mul(PNum(p), Rate(prices, PCur(p), tgt, d, sc), sc))
    ELSE IF HasCost(p) /\ PCost(p)[2] # tgt /\ HasRate(prices, PCur(p), PCost(p)[2], d)
              /\ HasRate(prices, PCost(p)[2], tgt, d)
         THEN Pos(tgt, NoCost, Mul(Mul(PNum(p), Rate(prices, PCur(p), PCost(p)[2], d, sc), sc),
                                   Rate(prices, PCost(p)[2], tgt, d, sc), sc))
         ELSE UnitsP(p)

(* one name for the four: f = <<"units", "", 0>> | <<"cost", "", 0>> | <<"value", "", d>> | <<"convert", tgt, d>> *)
ApplyP(f, p, prices, sc) ==
    CASE f[1] = "units" -> UnitsP(p)
      [] f[1] = "cost" -> CostP(p, sc)
      [] f[1] = "value" -> ValueP(p, prices, f[3], sc)
      [] f[1] = "convert" -> ConvertP(p, prices, f[2], f[3], sc)

(* ... and on an inventory: apply to every lot and add up (what Inventory.reduce is documented to do) *)
ApplyI(f, inv, prices, sc) == SumTagged({<<p[1], ApplyP(f, p, prices, sc)>> : p \in Positions(inv)})
MapSeq(f, ps, prices, sc) == [i \in 1..Len(ps) |-> ApplyP(f, ps[i], prices, sc)]

-----------------------------------------------------------------------------
(* the laws of C12 on this algebra; TLC checks them over an enumerated argument space (MC_Inventory) *)
LawMonoid(a, b, c) ==
    /\ Add(a, EmptyInv) = a /\ Add(EmptyInv, a) = a
    /\ Add(a, b) = Add(b, a)
    /\ Add(Add(a, b), c) = Add(a, Add(b, c))
    /\ IsInventory(Add(a, b))
LawHom(f, a, b, prices, sc) ==          \* F(a + b) = F(a) + F(b)
    ApplyI(f, Add(a, b), prices, sc) = Add(ApplyI(f, a, prices, sc), ApplyI(f, b, prices, sc))
LawHomSeq(f, ps, prices, sc) ==         \* f(sum(position)) = sum(f(position))
    ApplyI(f, SumSeq(ps), prices, sc) = SumSeq(MapSeq(f, ps, prices, sc))
LawPartition(ps, g) ==                  \* g: 1..Len(ps) -> group id; group sums add up to the total
    LET G == {g[i] : i \in 1..Len(ps)}
        part(x) == {i \in 1..Len(ps) : g[i] = x}
        RECURSIVE Tot(_)
        Tot(S) == IF S = {} THEN EmptyInv
                  ELSE LET x == CHOOSE x \in S : TRUE IN Add(Tot(S \ {x}), SumIdx(ps, part(x)))
    IN Tot(G) = SumSeq(ps)
LawPrefix(ps) ==                        \* the running sum is the prefix sum; the last one is the total
    /\ \A i \in 1..Len(ps) : SumIdx(ps, 1..i) = SumSeq(SubSeq(ps, 1, i))
    /\ SumIdx(ps, 1..Len(ps)) = SumSeq(ps)
=============================================================================
