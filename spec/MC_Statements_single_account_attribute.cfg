\* non-vacuity: has_account looks at one account attribute of a directive that is not a transaction (a pad names two); TLC must violate DenoteIsMeaning
CONSTANTS
  Headers <- HeadersDef
  Pool <- Pool10
  MaxPostings = 2
  Shapes <- ShapesDef
  DirPool <- DirPool9
  MaxDirs = 2
  PrintShapes <- PrintShapesDef
  KnownStrings <- KnownStringsDef
  KnownPats <- KnownPatsDef
  Variant = "single_account_attribute"
INIT Init
NEXT Next
INVARIANTS DenoteIsMeaning WellFormed
CHECK_DEADLOCK FALSE
