------------------------------- MODULE Trace_Types -------------------------------
(* C04, registry-driven leg: one ndjson line per (overload / column / clause, operand tuple) executed through the
   public API:  [id, what, declared (announced datatype name), mro (class names of the value, most specific first;
   <<>> for NULL), exc ("" or the exception class), phase ("compile" | "run" | "render"),
   implicit (1: an operator over plain columns - no value-dependent failure exists there, any exception is a typing failure)]
   Judged: the value is NULL or an instance of the announced datatype (bool is an int, collections by kind, object
   admits anything); an accepted statement never fails with a type error on conforming data; renderers and numberify
   can format every value. *)
EXTENDS Integers, Sequences, FiniteSets, TLC, Json, IOUtils
Cases == ndJsonDeserialize(IOEnv.TRACE_FILE)
VARIABLE l
SetKind == {"set", "frozenset", "list", "tuple"}
DictKind == {"dict", "Metadata"}
TypeErrors == {"TypeError", "AttributeError"}
InSeq(x, s) == \E i \in 1..Len(s) : s[i] = x
ConformsK(mro, declared) ==
    \/ mro = <<>>                                   \* NULL
    \/ declared \in {"object", "any"}
    \/ InSeq(declared, mro)                          \* instance of the announced type (bool's mro holds int)
    \/ (declared \in SetKind /\ \E i \in 1..Len(mro) : mro[i] \in SetKind)
    \/ (declared \in DictKind /\ \E i \in 1..Len(mro) : mro[i] \in DictKind)
Verdict(c) ==
    IF c.exc \in TypeErrors \/ (c.implicit = 1 /\ c.exc # "") THEN "type error in an accepted statement"
    ELSE IF c.phase = "render" /\ c.exc # "" THEN "renderer cannot format the value"
    ELSE IF c.exc # "" THEN "ok"            \* other run-time errors (value errors of specific functions) are not typing
    ELSE IF ~ConformsK(c.mro, c.declared) THEN "value does not conform to the announced datatype"
    ELSE "ok"
Judge(c) == IF Verdict(c) = "ok" THEN TRUE
            ELSE PrintT(ToJson([verdict |-> "rejected", id |-> c.id, line |-> l, clause |-> Verdict(c)]))
Init == l = 1
Next == l <= Len(Cases) /\ Judge(Cases[l]) /\ l' = l + 1
Consumed == TLCGet("stats").diameter - 1 = Len(Cases)
\* laws of the kind lattice itself (model-checked as ASSUME-like invariants in MC_Types.cfg)
LatticeLaws ==
    /\ ConformsK(<<>>, "int") /\ ConformsK(<<"bool", "int">>, "int") /\ ~ConformsK(<<"int">>, "bool")
    /\ ConformsK(<<"frozenset">>, "set") /\ ConformsK(<<"list">>, "set") /\ ~ConformsK(<<"dict">>, "set")
    /\ ConformsK(<<"Metadata", "dict">>, "dict") /\ ConformsK(<<"relativedelta">>, "object")
    /\ ~ConformsK(<<"relativedelta">>, "date") /\ ~ConformsK(<<"int">>, "Decimal") /\ ~ConformsK(<<"str">>, "int")
=============================================================================
