CONSTANTS
  MaxDepth = 1
  EmitMode = "typed"
INIT Init
NEXT Next
INVARIANTS TypeSound StrictNull DivModLaw Emit EmitTab
CHECK_DEADLOCK FALSE
