\* C20 (delivery of the results), exhaustive: 2 threads, statements handed to the connection's execute() shortcut or to a
\* cursor of the thread's own, every interleaving of compilation, scan and DELIVERY steps (execute() returned; description
\* read + rows fetched, in one or several steps), property-conforming mechanism; termination under weak fairness
CONSTANTS
  Threads = {1, 2}
  CompilerScope = "per execution"
  ColumnMemo = "none"
  ParserScope = "per call"
  ScanMemo = "none"
  OperandScope = "per call"
  SubqueryColumns = "per table object"
  ResultScope = "per execute call"
  JobSet = "deliver"
SPECIFICATION FairSpec
INVARIANTS TypeOK SerialInv OwnParameters OwnRow OwnStatement OwnOperands OwnNames OwnResults
PROPERTIES NonInterference NoSharedState JobConstant Termination
CHECK_DEADLOCK FALSE
