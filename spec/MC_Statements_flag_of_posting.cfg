\* non-vacuity: the expansion / mechanism deliberately broken (flag_of_posting: the column `flag` of a posting row is looked up on the posting first); TLC must violate DenoteIsMeaning
CONSTANTS
  Headers <- HeadersDef
  Pool <- Pool10
  MaxPostings = 2
  Shapes <- ShapesDef
  DirPool <- DirPool9
  MaxDirs = 2
  PrintShapes <- PrintShapesDef
  KnownStrings <- KnownStringsDef
  KnownPats <- KnownPatsDef
  Variant = "flag_of_posting"
INIT Init
NEXT Next
INVARIANTS DenoteIsMeaning WellFormed
CHECK_DEADLOCK FALSE
