\* non-vacuity: a statement cache keyed by (text, parameters as the host language compares them) must be rejected
CONSTANTS
  Stmts <- StmtsK
  StmtParams <- ParamsK
  ManyPairs <- Pairs0
  Data <- DataA
  NumberMode = "conforming"
  MaxCalls = 2
  CacheMode <- CacheHost
INIT Init
NEXT Next
INVARIANTS ResultInv
CHECK_DEADLOCK FALSE
