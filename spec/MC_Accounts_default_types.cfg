\* non-vacuity: possign consulting the built-in English names instead of the type table of the ledger must be
\* rejected (MechInv) -- names of <= 2 components suffice
CONSTANTS
  Names = {"A"}
  MaxComps = 2
  SignTypes = "default"
  PairComps = 1
INIT Init
NEXT Next
INVARIANTS MechInv
CHECK_DEADLOCK FALSE
