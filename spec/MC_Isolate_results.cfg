\* non-vacuity: ONE cursor kept by the connection behind its execute() shortcut -- TLC must find the schedule on which a
\* thread receives the description / rows of a statement another thread executed through the same connection
CONSTANTS
  Threads = {1, 2}
  CompilerScope = "per execution"
  ColumnMemo = "none"
  ParserScope = "per call"
  ScanMemo = "none"
  OperandScope = "per call"
  SubqueryColumns = "per table object"
  ResultScope = "per connection"
  JobSet = "results"
INIT Init
NEXT Next
INVARIANTS OwnResults
CHECK_DEADLOCK FALSE
