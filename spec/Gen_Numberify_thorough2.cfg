\* thorough replay space, part 2
CONSTANTS
  Space = "gen-thorough-2"
  Shapes <- ShapesOf
  FmtChoices <- Fmt01
  DCtx <- DCAB
  Prec = "most_common"
  CurSeq <- CS3
  InvNull = "skip"
  Mut = "none"
INIT Init
NEXT GNext
INVARIANT Emit
CHECK_DEADLOCK FALSE
