\* the mechanism as shipped: .set looks NAME up with getattr, so any attribute of the settings object (methods ...)
\* is accepted as a setting name.  TLC must violate InvalidChangesNothing (.set getstr echoes; .set todict x crashes).
CONSTANTS
  Lines <- LinesGen3
  LedgerQueries <- QFixed
  BadStmts <- BadFixed
  Formats <- FormatsShipped
  NonFieldAttrs <- AttrNames
  NameLookup = "attrs"
  HonourQuiet = TRUE
  MainQuery = "BALANCES"
  LedgerHasErrors = TRUE
INIT Init
NEXT Next
VIEW MCView
PROPERTIES InvalidChangesNothing
CHECK_DEADLOCK FALSE
