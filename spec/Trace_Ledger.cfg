CONSTANTS
  Alpha = 0
  MaxLen = 0
  Keys = 0
  Mech = "ok"
  MaxStmts = 0
  QualOpts = 0
INIT TInit
NEXT TNext
POSTCONDITION TraceConsumed
CHECK_DEADLOCK FALSE
