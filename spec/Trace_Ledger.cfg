CONSTANTS
  Alpha = 0
  MaxLen = 0
  Keys = 0
  Mech = "ok"
INIT TInit
NEXT TNext
POSTCONDITION TraceConsumed
CHECK_DEADLOCK FALSE
