\* exhaustive (thorough): columns of <= 3 values x 2^5 options x placeholder 0..4 x header 1..6
CONSTANTS
  Tables <- T3
  NullLens <- NL04
  SepLens <- SL2
  WidthRule = "full"
  ExpandRule = "atleast1"
  CsvCtx = "own"
INIT Init
NEXT Next
INVARIANTS TypeOK ProtocolInv RectInv OffsetsInv StyleInv HeaderInv ShowsInv DotsInv SkeletonInv TightInv CsvInv
CHECK_DEADLOCK FALSE
