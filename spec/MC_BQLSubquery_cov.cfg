\* small set, run with -coverage 1: every action of the walk must be taken
CONSTANTS
  Tabs <- TabsA
  Restore = TRUE
INIT InitCov
NEXT Next
INVARIANTS ResolvesOwnTable StarOwnTable IteratesOwnTable ExecIsDenote StackInv
CHECK_DEADLOCK FALSE
