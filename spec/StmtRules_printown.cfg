CONSTANT Route = "printown"
SPECIFICATION Spec
INVARIANT AcceptInv
CHECK_DEADLOCK FALSE
