\* simulated ledgers of <= 6 directives over the generator alphabet (104 directives: every option product)
CONSTANTS
  Alpha <- GenAlpha
  MaxLen = 6
  Keys <- GenKeys
  Mech = "ok"
  MaxStmts = 1
  QualOpts <- QNone
INIT GInit
NEXT GNext
INVARIANT Emit
CHECK_DEADLOCK FALSE
