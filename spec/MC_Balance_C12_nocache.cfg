\* no memo at all: two references in one row add the posting twice.  TLC must reject.
CONSTANTS
  Threads = {1}
  CacheMode = "none"
  Split = FALSE
  Programs <- Progs12_shipped
INIT Init
NEXT Next
INVARIANTS ConsultedInv
CHECK_DEADLOCK FALSE
