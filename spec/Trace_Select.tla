------------------------------- MODULE Trace_Select -------------------------------
(* Code -> spec for SELECT (C01 C02 C03 C05 C07 C15): each ndjson line is one executed statement:
     [id, sch (column -> type), cols (declaration order), rows (sequence of column -> value records), q (source-level query, possibly nested / wildcard),
      ok (accepted by the real compiler), names, types, out (observed rows, cells as <<t, n, d, s>>)]
   TLC compiles q with the specification's rules, executes it with the specification's mechanism and compares.
   One TLC step per line; a line the specification does not explain is reported and the run continues. *)
EXTENDS BQLSelect, Json, IOUtils

Cases == ndJsonDeserialize(IOEnv.TRACE_FILE)
VARIABLES l, nbad
EncV(x) == <<x.t, x.n, x.d, x.s>>
EncRows(rs) == [a \in 1..Len(rs) |-> [b \in 1..Len(rs[a]) |-> EncV(rs[a][b])]]
Report(c, clause, exp) == PrintT(ToJson([verdict |-> "rejected", id |-> c.id, line |-> l, clause |-> clause, expected |-> exp]))

Judge(c) ==
    LET r == Run(c.q, c.rows, c.sch, c.cols) IN
    IF r.ok # c.ok THEN Report(c, IF r.ok THEN "spec accepts, code rejects" ELSE "spec rejects, code accepts", <<r.err>>)
    ELSE IF ~r.ok THEN TRUE
    ELSE IF r.ood THEN TRUE                              \* outside the model's domain: not judged
    ELSE IF (Len(c.q.pivot) = 0 \/ r.names # <<>>) /\ r.names # c.names THEN Report(c, "names", r.names)
    ELSE IF r.types # c.types THEN Report(c, "types", r.types)
    ELSE IF EncRows(r.rows) # c.out THEN Report(c, "rows", EncRows(r.rows))
    ELSE TRUE

Init == l = 1 /\ nbad = 0
Next == /\ l <= Len(Cases)
        /\ Judge(Cases[l])
        /\ l' = l + 1
        /\ UNCHANGED nbad
Spec == Init /\ [][Next]_<<l, nbad>>
Consumed == TLCGet("stats").diameter - 1 = Len(Cases)
=============================================================================
