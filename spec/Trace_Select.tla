------------------------------- MODULE Trace_Select -------------------------------
(* Code -> spec for SELECT (C01 C02 C03 C05 C07 C15): each ndjson line is one executed statement:
     [id, sch (column -> type), rows (sequence of column -> value records), q (source-level query),
      ok (accepted by the real compiler), names, types, out (observed rows, cells as <<t, n, d, s>>)]
   TLC compiles q with the specification's rules, executes it with the specification's mechanism and compares.
   One TLC step per line; a line the specification does not explain is reported and the run continues. *)
EXTENDS BQLSelect, Json, IOUtils

Cases == ndJsonDeserialize(IOEnv.TRACE_FILE)
VARIABLES l, nbad
EncV(x) == <<x.t, x.n, x.d, x.s>>
EncRows(rs) == [a \in 1..Len(rs) |-> [b \in 1..Len(rs[a]) |-> EncV(rs[a][b])]]
Report(c, clause, exp) == PrintT(ToJson([verdict |-> "rejected", id |-> c.id, line |-> l, clause |-> clause, expected |-> exp]))

Judge(c) ==
    LET cq == Compile(c.q, c.sch) IN
    IF cq.ok # c.ok THEN Report(c, IF cq.ok THEN "spec accepts, code rejects" ELSE "spec rejects, code accepts", <<cq.err>>)
    ELSE IF ~cq.ok THEN TRUE
    ELSE LET out == Exec(c.q, cq, c.rows, c.sch) IN
         IF ExecOOD(c.q, cq, c.rows, c.sch) THEN TRUE        \* outside the model's domain: not judged
         ELSE IF Len(cq.pivot) = 0 /\ [j \in 1..cq.nvis |-> cq.ts[j].name] # c.names THEN Report(c, "names", [j \in 1..cq.nvis |-> cq.ts[j].name])
         ELSE IF Len(cq.pivot) = 0 /\ [j \in 1..cq.nvis |-> TypeOf(cq.ts[j].e, c.sch)] # c.types THEN Report(c, "types", [j \in 1..cq.nvis |-> TypeOf(cq.ts[j].e, c.sch)])
         ELSE IF EncRows(out) # c.out THEN Report(c, "rows", EncRows(out))
         ELSE TRUE

Init == l = 1 /\ nbad = 0
Next == /\ l <= Len(Cases)
        /\ Judge(Cases[l])
        /\ l' = l + 1
        /\ UNCHANGED nbad
Spec == Init /\ [][Next]_<<l, nbad>>
Consumed == TLCGet("stats").diameter - 1 = Len(Cases)
=============================================================================
