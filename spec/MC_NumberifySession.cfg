\* the shell builds the numberify formatter for every statement (as the code does)
CONSTANTS
  Ledgers <- SessLedgers
  Build = "per statement"
  MaxStmts = 3
  Shapes = 0
  FmtChoices = 0
  DCtx <- NoDCtx
  Prec = "most_common"
  CurSeq = 0
  InvNull = "skip"
  Mut = "none"
INIT SInit
NEXT SNext
INVARIANTS FormatterOfLoadedLedger StalePrecisionVisible
CHECK_DEADLOCK FALSE
