\* the formatter is kept between statements and dropped by a reload: conforming too
CONSTANTS
  Ledgers <- SessLedgers
  Build = "per load"
  MaxStmts = 3
  Shapes = 0
  FmtChoices = 0
  DCtx <- NoDCtx
  Prec = "most_common"
  CurSeq = 0
  InvNull = "skip"
  Mut = "none"
INIT SInit
NEXT SNext
INVARIANTS FormatterOfLoadedLedger StalePrecisionVisible
CHECK_DEADLOCK FALSE
