----------------------------- MODULE Trace_C18 -----------------------------
(* Code -> spec judge of C18.  Each line of the recorded ndjson file is a batch of evaluations of one function
   form THROUGH BQL:
      {"f": form, "c": [constants], "w": k + 1, "rt": tag, "flat": [a1, .., ak, r,  a1, .., ak, r, ...],
       "xrows": [[a1, .., ak, [tag, ...]], ...]}
   "flat" holds the rows whose result cell has the regular type of the form (tag rt; the result is stored
   untagged to keep the file small), "xrows" the rows with any other observation (NULL, another type, an
   exception class, a value outside the model).  One state per line, so that TLC's workers share the file (the
   functions are pure: there is no order between lines); the action judges every row with the operators of the
   specification (ScalarLib!Apply) and prints one verdict for the line and one for every row the specification
   does not explain.  Rows outside the stated domain are counted, not judged.                               *)
EXTENDS ScalarLib, Json, IOUtils

TraceLog == ndJsonDeserialize(IOEnv.TRACE_FILE)

VARIABLE l
MaxShown == 25
MaxShownKnown == 3
Init == l \in 1..Len(TraceLog)

ObsOf(rt, x) == IF rt = "q" THEN <<"q", x[1], x[2]>> ELSE <<rt, x>>
\* 0 = conforms, 1 = outside the stated domain, 2 = not explained by the specification
Verdict(f, c, v, obs) == LET x == Apply(f, c, v) IN IF x = OOD THEN 1 ELSE IF Conforms(x, obs) THEN 0 ELSE 2

Judge(i) ==
  LET e == TraceLog[i]
      W == e.w
      nf == Len(e.flat) \div W
      nx == Len(e.xrows)
      \* row k: 1..nf from flat, nf+1..nf+nx from xrows
      V(k) == IF k <= nf THEN SubSeq(e.flat, (k - 1) * W + 1, k * W - 1) ELSE SubSeq(e.xrows[k - nf], 1, W - 1)
      O(k) == IF k <= nf THEN ObsOf(e.rt, e.flat[k * W]) ELSE e.xrows[k - nf][W]
      odd == {k \in 1..(nf + nx) : Verdict(e.f, e.c, V(k), O(k)) # 0}
      bad == {k \in odd : Verdict(e.f, e.c, V(k), O(k)) = 2}
      \* rejected rows that are exactly a named deviation of the shipped code (known findings) / all others
      badK == {k \in bad : Deviation(e.f, e.c, V(k), O(k)) # ""}
      badU == bad \ badK
      \* at most MaxShown rows of each kind are printed (the line verdict carries the counts)
      FirstN(XS, n) == IF Cardinality(XS) <= n THEN XS
                       ELSE LET m == CHOOSE m \in XS : Cardinality({j \in XS : j <= m}) = n IN {j \in XS : j <= m}
      shown == FirstN(badU, MaxShown) \cup FirstN(badK, MaxShownKnown)
      \* (evaluated as a state-level value, "= TRUE": TLC's action evaluation of a quantifier recurses per element)
      printed == \A k \in shown :
                   PrintT(ToJson([verdict |-> "rejected", line |-> i, row |-> k, f |-> e.f, c |-> e.c,
                                  v |-> V(k), obs |-> O(k), exp |-> Apply(e.f, e.c, V(k)),
                                  key |-> Deviation(e.f, e.c, V(k), O(k))]))
  IN /\ printed = TRUE
     /\ PrintT(ToJson([verdict |-> "line", line |-> i, f |-> e.f, n |-> nf + nx,
                       ood |-> Cardinality(odd) - Cardinality(bad), bad |-> Cardinality(bad),
                       badknown |-> Cardinality(badK)]))

Next == Judge(l) /\ UNCHANGED l
AllJudged == TLCGet("distinct") = Len(TraceLog)
=============================================================================
