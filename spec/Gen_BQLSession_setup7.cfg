CONSTANTS
  Stmts <- Stmts7
  StmtParams <- Params7
  ManyPairs <- Pairs1
  Data <- DataA
  NumberMode = "conforming"
  MaxCalls = 0
  GenTextIdx <- Idx123
  Depth = 0
INIT HInit
NEXT HNext
INVARIANT EmitSetup
CHECK_DEADLOCK FALSE
