---------------------------- MODULE MC_Accounts ----------------------------
(* MC leg of C18 (account half): the state enumerates pairs of account names of 1..MaxComps components over the
   five root types and the sub-account alphabet Names; the laws of the statement are invariants.            *)
EXTENDS Accounts

CONSTANTS Names, MaxComps, PairComps

RECURSIVE Paths(_)
Paths(k) == IF k = 0 THEN {<<>>} ELSE Paths(k - 1) \cup {Append(p, n) : p \in Paths(k - 1), n \in Names}
AllAccounts(k) == {JoinAcc(<<RootNames[r]>> \o p) : r \in 1..5, p \in Paths(k - 1)}
Accts == AllAccounts(MaxComps)
Small == AllAccounts(PairComps)

\* phase 0: root; phase 3: a group (a name of <= 2 components); phase 1: one name a of the group (b = a);
\* phase 2: a pair (a, b) of short names.  Several levels so that TLC's workers share the work.
VARIABLES phase, a, b
Groups == AllAccounts(2)
Init == phase = 0 /\ a = "Assets" /\ b = "Assets"
Next == \/ phase = 0 /\ phase' = 3 /\ a' \in Groups /\ b' = a'
        \/ phase = 3 /\ phase' = 1 /\ a' \in {x \in Accts : Root(x, 2) = a} /\ b' = a'
        \/ phase = 1 /\ NComps(a) <= PairComps /\ phase' = 2 /\ a' = a /\ b' \in Small

Amounts == {<<-5, 2>>, <<0, 1>>, <<1, 4>>, <<3, 1>>}

DecomposeInv ==
  (phase = 1) =>
  LET cs == Comps(a)
      n == NComps(a) IN
  /\ n \in 1..MaxComps /\ JoinAcc(cs) = a
  /\ \A i \in 1..n : cs[i] # "" /\ \A j \in 1..Len(cs[i]) : Ch(cs[i], j) # Sep
  \* root(a, n) is the first n components
  /\ \A k \in 0..(MaxComps + 1) :
       /\ Root(a, k) = JoinAcc([i \in 1..SMin2(k, n) |-> cs[i]])
       /\ (k >= n) => Root(a, k) = a
       /\ (k >= 1 /\ k < n) => Root(a, k) \o Sep = SubSeq(a, 1, Len(Root(a, k)) + 1)      \* a proper prefix of a
       /\ (k >= 1) => Root(Root(a, k), k) = Root(a, k)
       /\ \A j \in 0..k : Root(Root(a, k), j) = Root(a, j)
  /\ \A k \in 1..n : Root(a, -k) = Root(a, n - k)
  /\ Root(a, 1) = cs[1] /\ Root(a, 0) = ""
  \* parent(a):leaf(a) = a
  /\ Leaf(a) = <<cs[n]>>
  /\ (n >= 2) => Parent(a)[1] \o Sep \o Leaf(a)[1] = a
  /\ (n >= 2) => Parent(a) = <<Root(a, n - 1)>>
  /\ (n = 1) => Parent(a) = <<"">> /\ Leaf(a) = <<a>>
  /\ Parent("") = <<>> /\ Leaf("") = <<>>

SortKeyInv ==
  (phase = 2) =>
  /\ KnownRoot(a) /\ TypeIndex(a) \in 1..5 /\ RootNames[TypeIndex(a)] = Root(a, 1)
  \* the key orders by account type, then by name
  /\ StrLess(SortKey(a), SortKey(b)) <=> SortsBefore(a, b)
  /\ (SortKey(a) = SortKey(b)) <=> (a = b)
  /\ (TypeIndex(a) < TypeIndex(b)) => StrLess(SortKey(a), SortKey(b))
  /\ ~(StrLess(a, b) /\ StrLess(b, a)) /\ (a # b => StrLess(a, b) \/ StrLess(b, a))

PosSignInv ==
  (phase = 1) =>
  \A x \in Amounts :
    /\ PosSign(x, a) = (IF Root(a, 1) \in {"Liabilities", "Equity", "Income"} THEN <<-x[1], x[2]>> ELSE x)
    /\ (Root(a, 1) \in {"Assets", "Expenses"}) => PosSign(x, a) = x
    /\ PosSign(PosSign(x, a), a) = x
    /\ CreditNormal(a) <=> ~(TypeIndex(a) \in {1, 5})
=============================================================================
