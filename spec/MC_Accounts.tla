---------------------------- MODULE MC_Accounts ----------------------------
(* MC leg of C18 (account half): the state enumerates pairs of account names of 1..MaxComps components over the
   five root types and the sub-account alphabet Names; the laws of the statement are invariants.
   The names of the five root types are ledger options: every name is also renamed into each type table of
   TypeTables (translated names, a partial renaming, a renaming of the assets root only, the English names
   PERMUTED) and the laws are checked there, together with possign as the code computes it (PosSignMech).   *)
EXTENDS Accounts

CONSTANTS Names, MaxComps, PairComps,
          SignTypes      \* which type table possign consults: "connection" (the table of the ledger the query
                         \* runs on -- the code) | "default" (the built-in English names whatever the ledger
                         \* says -- the non-vacuity run: TLC must reject it)

RECURSIVE Paths(_)
Paths(k) == IF k = 0 THEN {<<>>} ELSE Paths(k - 1) \cup {Append(p, n) : p \in Paths(k - 1), n \in Names}
AllAccounts(k) == {JoinAcc(<<RootNames[r]>> \o p) : r \in 1..5, p \in Paths(k - 1)}
Accts == AllAccounts(MaxComps)
Small == AllAccounts(PairComps)

\* phase 0: root; phase 3: a group (a name of <= 2 components); phase 1: one name a of the group (b = a);
\* phase 2: a pair (a, b) of short names.  Several levels so that TLC's workers share the work.
VARIABLES phase, a, b
Groups == AllAccounts(2)
Init == phase = 0 /\ a = "Assets" /\ b = "Assets"
Next == \/ phase = 0 /\ phase' = 3 /\ a' \in Groups /\ b' = a'
        \/ phase = 3 /\ phase' = 1 /\ a' \in {x \in Accts : Root(x, 2) = a} /\ b' = a'
        \/ phase = 1 /\ NComps(a) <= PairComps /\ phase' = 2 /\ a' = a /\ b' \in Small

Amounts == {<<-5, 2>>, <<0, 1>>, <<1, 4>>, <<3, 1>>}

DecomposeInv ==
  (phase = 1) =>
  LET cs == Comps(a)
      n == NComps(a) IN
  /\ n \in 1..MaxComps /\ JoinAcc(cs) = a
  /\ \A i \in 1..n : cs[i] # "" /\ \A j \in 1..Len(cs[i]) : Ch(cs[i], j) # Sep
  \* root(a, n) is the first n components
  /\ \A k \in 0..(MaxComps + 1) :
       /\ Root(a, k) = JoinAcc([i \in 1..SMin2(k, n) |-> cs[i]])
       /\ (k >= n) => Root(a, k) = a
       /\ (k >= 1 /\ k < n) => Root(a, k) \o Sep = SubSeq(a, 1, Len(Root(a, k)) + 1)      \* a proper prefix of a
       /\ (k >= 1) => Root(Root(a, k), k) = Root(a, k)
       /\ \A j \in 0..k : Root(Root(a, k), j) = Root(a, j)
  /\ \A k \in 1..n : Root(a, -k) = Root(a, n - k)
  /\ Root(a, 1) = cs[1] /\ Root(a, 0) = ""
  \* parent(a):leaf(a) = a
  /\ Leaf(a) = <<cs[n]>>
  /\ (n >= 2) => Parent(a)[1] \o Sep \o Leaf(a)[1] = a
  /\ (n >= 2) => Parent(a) = <<Root(a, n - 1)>>
  /\ (n = 1) => Parent(a) = <<"">> /\ Leaf(a) = <<a>>
  /\ Parent("") = <<>> /\ Leaf("") = <<>>

SortKeyInv ==
  (phase = 2) =>
  /\ KnownRoot(a) /\ TypeIndex(a) \in 1..5 /\ RootNames[TypeIndex(a)] = Root(a, 1)
  \* the key orders by account type, then by name
  /\ StrLess(SortKey(a), SortKey(b)) <=> SortsBefore(a, b)
  /\ (SortKey(a) = SortKey(b)) <=> (a = b)
  /\ (TypeIndex(a) < TypeIndex(b)) => StrLess(SortKey(a), SortKey(b))
  /\ ~(StrLess(a, b) /\ StrLess(b, a)) /\ (a # b => StrLess(a, b) \/ StrLess(b, a))

PosSignInv ==
  (phase = 1) =>
  \A x \in Amounts :
    /\ PosSign(x, a) = (IF Root(a, 1) \in {"Liabilities", "Equity", "Income"} THEN <<-x[1], x[2]>> ELSE x)
    /\ (Root(a, 1) \in {"Assets", "Expenses"}) => PosSign(x, a) = x
    /\ PosSign(PosSign(x, a), a) = x
    /\ CreditNormal(a) <=> ~(TypeIndex(a) \in {1, 5})

(* ---- type tables other than the default one ------------------------------------------------------------------ *)
TypeTables == {RootNames,
               <<"Actif", "Passif", "Capital", "Revenus", "Depenses">>,
               <<"Assets", "Liabilities", "Equity", "Revenue", "Costs">>,
               <<"Cash", "Liabilities", "Equity", "Income", "Expenses">>,
               <<"Income", "Assets", "Expenses", "Liabilities", "Equity">>}
\* the account of the same type and sub-path in the ledger whose type table is T
Rename(T, x) == JoinAcc(<<T[TypeIndex(x)]>> \o Tail(Comps(x)))
\* possign as the code computes it: the sign is kept for the names the consulted table gives to assets / expenses
MechTable(T) == IF SignTypes = "connection" THEN T ELSE RootNames
PosSignMech(T, x, acc) == IF Comps(acc)[1] \in {MechTable(T)[1], MechTable(T)[5]} THEN x ELSE <<-x[1], x[2]>>

\* every table and amount for the names of <= 3 components; the translated and the permuted table for the deeper
\* ones (the renaming touches the root only)
DeepTables == {<<"Actif", "Passif", "Capital", "Revenus", "Depenses">>, <<"Income", "Assets", "Expenses", "Liabilities", "Equity">>}
TablesFor(x) == IF NComps(x) <= 3 THEN TypeTables ELSE DeepTables
AmountsFor(x) == IF NComps(x) <= 3 THEN Amounts ELSE {<<-5, 2>>, <<1, 4>>}

TypesInv ==
  (phase = 1) =>
  \A T \in TablesFor(a) :
    LET ar == Rename(T, a) IN
    /\ TypeTableOK(T)
    /\ KnownRootT(T, ar) /\ TypeIndexT(T, ar) = TypeIndex(a) /\ T[TypeIndexT(T, ar)] = Root(ar, 1)
    /\ Tail(Comps(ar)) = Tail(Comps(a))
    \* the type, hence the sign and the sort class, does not depend on what the ledger calls the type
    /\ CreditNormalT(T, ar) <=> CreditNormal(a)
    /\ SortKeyT(T, ar) = ToString(TypeIndex(a) - 1) \o "-" \o ar
    /\ \A x \in AmountsFor(a) :
         /\ PosSignT(T, x, ar) = PosSign(x, a)
         /\ PosSignT(T, PosSignT(T, x, ar), ar) = x
         /\ (TypeIndexT(T, ar) \in {1, 5}) => PosSignT(T, x, ar) = x
         /\ (TypeIndexT(T, ar) \in {2, 3, 4}) => PosSignT(T, x, ar) = <<-x[1], x[2]>>
    \* a name of the default table that the table T also knows has the type T gives it
    /\ KnownRootT(T, a) => (CreditNormalT(T, a) <=> \E i \in {2, 3, 4} : T[i] = Root(a, 1))
    /\ (T = RootNames) => (ar = a /\ SortKeyT(T, a) = SortKey(a)
                           /\ \A x \in AmountsFor(a) : PosSignT(T, x, a) = PosSign(x, a))

\* the mechanism (possign consults a type table) computes the specified sign in every ledger
MechInv ==
  (phase = 1) =>
  \A T \in TablesFor(a) : \A x \in AmountsFor(a) :
    /\ PosSignMech(T, x, Rename(T, a)) = PosSignT(T, x, Rename(T, a))
    /\ KnownRootT(T, a) => PosSignMech(T, x, a) = PosSignT(T, x, a)

PairTables == DeepTables
\* (pairs of names of <= 2 components: the renaming touches the root only)
TypesSortInv ==
  (phase = 2 /\ NComps(a) <= 2 /\ NComps(b) <= 2) =>
  \A T \in PairTables :
    LET ar == Rename(T, a)
        br == Rename(T, b) IN
    /\ StrLess(SortKeyT(T, ar), SortKeyT(T, br)) <=> SortsBeforeT(T, ar, br)
    /\ (TypeIndex(a) < TypeIndex(b)) => StrLess(SortKeyT(T, ar), SortKeyT(T, br))
    /\ (SortKeyT(T, ar) = SortKeyT(T, br)) <=> (a = b)
=============================================================================
