CONSTANTS
  MaxLen = 2
  HomLots = 4
INIT Init
NEXT Next
INVARIANTS Laws Sanity
CHECK_DEADLOCK FALSE
