------------------------------ MODULE Gen_Shell ------------------------------
(* Behaviour generator for the spec->code replay of Shell: the same actions with a history variable; one JSON line
   per behaviour of length Depth (every shorter behaviour is a prefix of one of them); the 16 option sets of Main. *)
EXTENDS MC_Shell

VARIABLE hist
CONSTANTS Depth, Boots


BootsAll == {<<f, m>> : f \in FormatsShipped, m \in BOOLEAN}
BootsDefault == {<<"text", FALSE>>}

GInit == Init /\ hist = <<>>
GNext ==
    \/ /\ \E b \in Boots : Start(b[1], b[2])
       /\ hist' = hist
    \/ /\ Len(hist) < Depth
       /\ \E l \in DOMAIN ParsedLines : OneCmd(l, Accepts)
       /\ hist' = Append(hist, [line |-> line', s |-> Vec(settings'), err |-> lastErr',
                                k |-> lastOut'.k, a |-> lastOut'.a, lines |-> lastOut'.lines])
Emit == (Len(hist) = Depth) => PrintT(ToJson([f |-> boot.f, m |-> boot.m, hist |-> hist]))

(* the 16 command-line option sets *)
MInit == GInit
MNext == /\ \E o \in MainOpts : Main(o)
         /\ hist' = hist
(* the constants the driver has to agree with: the ledger's query directives are BUILT from this line *)
EmitConsts == (hist = <<>> /\ ~started) =>
    PrintT(ToJson([queries |-> LedgerQueries, bad |-> BadStmts, formats |-> Formats, mainquery |-> MainQuery,
                   fields |-> Fields, lines |-> Lines]))
EmitMain == (boot.via = "main") =>
    PrintT(ToJson([f |-> boot.f, m |-> boot.m, o |-> boot.o, q |-> boot.q, s |-> Vec(settings), err |-> lastErr,
                   k |-> lastOut.k, a |-> lastOut.a, dest |-> lastOut.dest]))
=============================================================================
