\* C20, termination under weak fairness of every thread
CONSTANTS
  Threads = {1, 2}
  CacheMode = "per row context"
  Split = FALSE
  Programs <- Progs20_2rows
SPECIFICATION FairSpec
PROPERTIES Termination
CHECK_DEADLOCK FALSE
