\* recorded histories of aggregate statements over tables holding inventories, judged with InvSum!Expected
INIT TInit
NEXT TNext
CHECK_DEADLOCK FALSE
