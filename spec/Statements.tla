----------------------------- MODULE Statements -----------------------------
(***************************************************************************)
(* C14 -- BALANCES / JOURNAL / PRINT equal their SELECT expansions; PRINT   *)
(* keeps exactly the directives whose FROM expression is TRUE.             *)
(*                                                                         *)
(*  part 1  strings (code-point order, case folding, literal / prefix      *)
(*          pattern match), accounts (type index, then name), lots and     *)
(*          inventories over integers                                      *)
(*  part 2  a small abstract ledger: posting rows and directive rows,      *)
(*          three-valued FROM / WHERE expressions                          *)
(*  part 3  the DECLARATIVE meaning of the three statements                *)
(*  part 4  the EXPANSION of BALANCES / JOURNAL into an abstract SELECT,    *)
(*          as the templates of beanquery/compiler.py do it, a printer to  *)
(*          token sequences, and a small SELECT evaluator written as the   *)
(*          code executes it (row scan, group store, finalize, stable      *)
(*          sort, hidden targets) -- one action per step                   *)
(*  part 5  the PRINT mechanism (compile the FROM expression against the   *)
(*          entries table, scan, keep the truthy rows)                     *)
(*                                                                         *)
(* Variant = "shipped" is the mechanism as the code has it; the other      *)
(* values are deliberately broken expansions used by the non-vacuity runs  *)
(* (TLC must reject each of them).                                         *)
(***************************************************************************)
EXTENDS Integers, Sequences, FiniteSets, TLC

CONSTANTS
    Headers,      \* sequence of transaction headers [date, flag, payee, narration]
    Pool,         \* sequence of posting templates [txn |-> index into Headers, account, lot, pflag];
                  \*   pflag: the flag the posting carries itself, <<>> when it has none (the usual case)
    MaxPostings,  \* ledgers = sequences of <= MaxPostings pool items, transactions in order
    Shapes,       \* sequence of BALANCES / JOURNAL statements
    DirPool,      \* sequence of abstract directives [id, type, date, flag, payee, narration, accounts, tags, links]:
                  \*   the attributes the directive itself CARRIES, <<>> where its type has no such attribute; tags and
                  \*   links are <<set>>: transactions have them, and so do notes and documents
    MaxDirs,
    PrintShapes,  \* sequence of PRINT statements
    KnownStrings, \* memoisation only: strings / patterns whose order and matches are tabulated once at start-up
    KnownPats,    \*   (any other argument is computed directly by the same operators)
    Variant       \* "shipped" | "no_where" | "order_by_name" | "balance_raw" | "print_keeps_null" | "journal_no_match" | "flag_of_posting" | "attr_of_any_directive" | "single_account_attribute"
                  \* | "flag_of_posting" | "attr_of_any_directive"

\* TLC evaluates a constant that the configuration overrides by a definition at EVERY reference; the aliases
\* below are ordinary constant-level definitions, which TLC evaluates once at start-up
HeadersV == Headers
PoolV == Pool
ShapesV == Shapes
DirPoolV == DirPool
PrintShapesV == PrintShapes
KnownStringsV == KnownStrings
KnownPatsV == KnownPats

-----------------------------------------------------------------------------
(* part 1a: strings *)
Min2(a, b) == IF a < b THEN a ELSE b
SetMin(S) == CHOOSE x \in S : \A y \in S : x <= y

\* the characters the model knows, in code-point order
Alphabet == "-0123456789:ABCDEFGHIJKLMNOPQRSTUVWXYZ_abcdefghijklmnopqrstuvwxyz"
CharSet == {SubSeq(Alphabet, i, i) : i \in 1..Len(Alphabet)}
RankOf == [c \in CharSet |-> CHOOSE i \in 1..Len(Alphabet) : SubSeq(Alphabet, i, i) = c]
Ch(s, i) == SubSeq(s, i, i)
InAlphabet(s) == \A i \in 1..Len(s) : Ch(s, i) \in CharSet
\* 'a'..'z' are ranks 40..65, 'A'..'Z' 13..38
FoldRank(c) == LET r == RankOf[c] IN IF r >= 40 THEN r - 27 ELSE r

\* strict code-point lexicographic order (Python's str <)
StrLess0(a, b) ==
    LET n == Min2(Len(a), Len(b))
        D == {i \in 1..n : Ch(a, i) # Ch(b, i)}
    IN IF D = {} THEN Len(a) < Len(b)
       ELSE LET i == SetMin(D) IN RankOf[Ch(a, i)] < RankOf[Ch(b, i)]

\* patterns: [anch |-> BOOLEAN, s |-> literal]: re.search(('^' if anch) + s, x, IGNORECASE)
FoldEq(c, d) == c = d \/ (c \in CharSet /\ d \in CharSet /\ FoldRank(c) = FoldRank(d))
MatchAt(x, s, i) == /\ i + Len(s) - 1 <= Len(x)
                    /\ \A k \in 1..Len(s) : FoldEq(Ch(x, i + k - 1), Ch(s, k))
Matches0(x, p) == IF p.anch THEN MatchAt(x, p.s, 1)
                  ELSE \E i \in 1..(Len(x) - Len(p.s) + 1) : MatchAt(x, p.s, i)
\* tabulated once for the known strings (TLC evaluates constant definitions at start-up)
StrLessTab == [a \in KnownStringsV, b \in KnownStringsV |-> StrLess0(a, b)]
StrLess(a, b) == IF a \in KnownStringsV /\ b \in KnownStringsV THEN StrLessTab[a, b] ELSE StrLess0(a, b)
MatchTab == [x \in KnownStringsV, p \in KnownPatsV |-> Matches0(x, p)]
Matches(x, p) == IF x \in KnownStringsV /\ p \in KnownPatsV THEN MatchTab[x, p] ELSE Matches0(x, p)
PatText(p) == (IF p.anch THEN "^" ELSE "") \o p.s

(* part 1b: accounts *)
RootTypes == <<"Assets", "Liabilities", "Equity", "Income", "Expenses">>
RootOf(a) == LET C == {i \in 1..Len(a) : Ch(a, i) = ":"}
             IN IF C = {} THEN a ELSE SubSeq(a, 1, SetMin(C) - 1)
HasRootType(a) == \E i \in 1..5 : RootTypes[i] = RootOf(a)
TypeIndex0(a) == (CHOOSE i \in 1..5 : RootTypes[i] = RootOf(a)) - 1
TypeIndexTab == [a \in {x \in KnownStringsV : HasRootType(x)} |-> TypeIndex0(a)]
TypeIndex(a) == IF a \in DOMAIN TypeIndexTab THEN TypeIndexTab[a] ELSE TypeIndex0(a)
AccountSortKey(a) == <<TypeIndex(a), a>>
SortKeyLess(x, y) == x[1] < y[1] \/ (x[1] = y[1] /\ StrLess(x[2], y[2]))
AccountLess(a, b) == SortKeyLess(AccountSortKey(a), AccountSortKey(b))

(* part 1c: lots and inventories.  A lot is <<currency, cost, number>>, cost = <<number, currency, date>> or NoCost;
   an inventory is a set of lots with pairwise different (currency, cost) and non-zero numbers. *)
NoCost == <<0, "", 0>>
LotKey(l) == <<l[1], l[2]>>
Units(l) == <<l[1], NoCost, l[3]>>
CostOf(l) == IF l[2] = NoCost THEN Units(l) ELSE <<l[2][2], NoCost, l[3] * l[2][1]>>
ApplyF(f, l) == CASE f = "none" -> l [] f = "units" -> Units(l) [] f = "cost" -> CostOf(l)

RECURSIVE SumNum(_, _)       \* sum of lots[i][3] over the index set I
SumNum(lots, I) == IF I = {} THEN 0 ELSE LET i == CHOOSE i \in I : TRUE IN lots[i][3] + SumNum(lots, I \ {i})
\* declarative: the inventory holding a sequence of lots
InvOfIdx(lots, I) ==
    LET keys == {LotKey(lots[i]) : i \in I}
        tot(k) == SumNum(lots, {i \in I : LotKey(lots[i]) = k})
    IN {<<k[1], k[2], tot(k)>> : k \in {k \in keys : tot(k) # 0}}
InvOfLots(lots) == InvOfIdx(lots, DOMAIN lots)
IsInventory(inv) == /\ \A l \in inv : l[3] # 0
                    /\ \A l1 \in inv, l2 \in inv : LotKey(l1) = LotKey(l2) => l1 = l2
RECURSIVE SetToSeq(_)
SetToSeq(S) == IF S = {} THEN <<>> ELSE LET x == CHOOSE x \in S : TRUE IN <<x>> \o SetToSeq(S \ {x})
MapF(f, lots) == [i \in DOMAIN lots |-> ApplyF(f, lots[i])]
ApplyFInv(f, inv) == InvOfLots(MapF(f, SetToSeq(inv)))

\* mechanism: Inventory.add_position
InvAdd(inv, l) ==
    LET same == {x \in inv : LotKey(x) = LotKey(l)} IN
    IF l[3] = 0 THEN inv
    ELSE IF same = {} THEN inv \cup {l}
    ELSE LET x == CHOOSE x \in same : TRUE
             n == x[3] + l[3]
         IN (inv \ {x}) \cup (IF n = 0 THEN {} ELSE {<<l[1], l[2], n>>})

-----------------------------------------------------------------------------
(* part 2: rows and three-valued expressions.
   A row is a record; optional string attributes are <<>> (NULL) or <<s>>.
     directive rows : type, date (yyyymmdd), flag, payee, narration, accounts (set), tags, links (<<>> or <<set>>)
     posting rows   : the same attributes of the parent transaction + account, lot, currency (of the raw position)
                      + pflag, the flag of the posting itself.  A posting and its transaction BOTH have a flag: the
                      register, and the column `flag` in any expression, mean the transaction's (`posting_flag` is the
                      posting's own, NULL for most postings)
   Expressions:  [k |-> "true"]                                     (clause absent)
                 [k |-> "cmp", col, op, v, lit]     col in year date type flag payee narration account currency number
                                                            posting_flag
                 [k |-> "match", col, p]            col ~ pattern
                 [k |-> "hasacct", p]               has_account(pattern)
                 [k |-> "in", v, col]               'v' IN col          col in tags links (NULL when the column is NULL)
                 [k |-> "isnull" | "notnull", col]  col IS [NOT] NULL   (never NULL itself)
                 [k |-> "and" | "or", l, r]   [k |-> "not", e]
   Values "T" "F" "N" (three-valued logic with BQL's NULL-aware NOT; a row is selected iff the value is "T"). *)
TrueE == [k |-> "true"]
\* mechanism: how the column `flag` of a row is resolved.  Directive rows have one flag.  A posting row has two objects
\* behind it, the posting and its parent transaction: the code reads `flag` from the transaction.  The broken variant
\* looks on the posting first and falls back to the transaction when the posting "does not carry" the attribute.
FlagCol(r) == IF Variant = "flag_of_posting" /\ "pflag" \in DOMAIN r /\ r.pflag # <<>> THEN r.pflag ELSE r.flag
ColVal(r, c) ==
    CASE c = "year" -> <<r.date \div 10000>>
      [] c = "month" -> <<(r.date \div 100) % 100>>
      [] c = "date" -> <<r.date>>
      [] c = "type" -> <<r.type>>
      [] c = "flag" -> FlagCol(r)
      [] c = "posting_flag" -> r.pflag
      [] c = "payee" -> r.payee
      [] c = "narration" -> r.narration
      [] c = "account" -> <<r.account>>
      [] c = "currency" -> <<r.currency>>
      [] c = "number" -> <<r.lot[3]>>
      [] c = "tags" -> r.tags
      [] c = "links" -> r.links
Cmp(op, a, b) ==
    CASE op = "=" -> a = b
      [] op = "!=" -> a # b
      [] op = "<" -> a < b
      [] op = "<=" -> a <= b
      [] op = ">" -> a > b
      [] op = ">=" -> a >= b
B3(b) == IF b THEN "T" ELSE "F"
And3(a, b) == IF a = "F" \/ b = "F" THEN "F" ELSE IF a = "N" \/ b = "N" THEN "N" ELSE "T"
Or3(a, b) == IF a = "T" \/ b = "T" THEN "T" ELSE IF a = "N" \/ b = "N" THEN "N" ELSE "F"
\* BQL's NOT is NULL-aware: NOT NULL is TRUE (the truth table property C01 states; And3 / Or3 are selection-equivalent to
\* the code's loops, also under NOT: a NULL or FALSE conjunction is negated to TRUE either way)
Not3(a) == IF a = "T" THEN "F" ELSE "T"
RECURSIVE Eval3(_, _)
Eval3(e, r) ==
    CASE e.k = "true" -> "T"
      [] e.k = "cmp" -> LET v == ColVal(r, e.col) IN IF v = <<>> THEN "N" ELSE B3(Cmp(e.op, v[1], e.v))
      [] e.k = "match" -> LET v == ColVal(r, e.col) IN IF v = <<>> THEN "N" ELSE B3(Matches(v[1], e.p))
      [] e.k = "hasacct" -> B3(\E a \in r.accounts : Matches(a, e.p))
      [] e.k = "in" -> LET v == ColVal(r, e.col) IN IF v = <<>> THEN "N" ELSE B3(e.v \in v[1])
      [] e.k = "isnull" -> B3(ColVal(r, e.col) = <<>>)
      [] e.k = "notnull" -> B3(ColVal(r, e.col) # <<>>)
      [] e.k = "and" -> And3(Eval3(e.l, r), Eval3(e.r, r))
      [] e.k = "or" -> Or3(Eval3(e.l, r), Eval3(e.r, r))
      [] e.k = "not" -> Not3(Eval3(e.e, r))

\* FROM clause: [present, expr, open, close, clear]; open = <<>> | <<date literal>>;
\* close = [k |-> "none" | "bare" | "on", d |-> date literal]
NoFrom == [present |-> FALSE, expr |-> TrueE, open |-> <<>>, close |-> [k |-> "none", d |-> ""], clear |-> FALSE]
HasClauses(fc) == fc.open # <<>> \/ fc.close.k # "none" \/ fc.clear
\* "after OPEN / CLOSE / CLEAR": three transformations of the entry list.  A FROM clause that carries several of them
\* means their application ONE AFTER THE OTHER, in that order: the entry list after the clauses fc is the entry list after
\* the LAST clause of ClauseChain(fc), applied to the ledger that the clauses before it give.  (What a single clause does
\* to a ledger is C13's subject.)  ClauseChain(fc): the clauses of fc as a sequence of single-clause records.
NoClose == [k |-> "none", d |-> ""]
ClauseChain(fc) ==
    (IF fc.open = <<>> THEN <<>> ELSE <<[open |-> fc.open, close |-> NoClose, clear |-> FALSE]>>)
    \o (IF fc.close.k = "none" THEN <<>> ELSE <<[open |-> <<>>, close |-> fc.close, clear |-> FALSE]>>)
    \o (IF fc.clear THEN <<[open |-> <<>>, close |-> NoClose, clear |-> TRUE]>> ELSE <<>>)

\* the postings table of a ledger (sequence of pool indices): one row per posting, in ledger order
PostingRows(led) ==
    [i \in 1..Len(led) |->
        LET p == PoolV[led[i]]
            h == HeadersV[p.txn]
        IN [type |-> "transaction", date |-> h.date, flag |-> h.flag, payee |-> h.payee, narration |-> h.narration,
            accounts |-> {PoolV[led[j]].account : j \in {j \in 1..Len(led) : PoolV[led[j]].txn = p.txn}},
            account |-> p.account, lot |-> p.lot, currency |-> p.lot[1], pflag |-> p.pflag]]
\* The entries table has one row per directive, of ANY type.  Its columns flag, payee, narration, tags and links are
\* "the flag / ... / the set of tags / the set of links of the TRANSACTION": NULL on every row that is not a transaction
\* -- also on the rows of notes and documents, which carry tags and links of their own (DirPool holds what the
\* directive carries; the row holds what the columns mean).
TxnOnly(d, v) == IF d.type = "transaction" THEN v ELSE <<>>
DirRow(d) == [d EXCEPT !.flag = TxnOnly(d, d.flag), !.payee = TxnOnly(d, d.payee), !.narration = TxnOnly(d, d.narration),
                       !.tags = TxnOnly(d, d.tags), !.links = TxnOnly(d, d.links)]
DirRows(led) == [i \in 1..Len(led) |-> DirRow(DirPoolV[led[i]])]
\* mechanism: the accessor of such a column applied to the directive object behind the row.  The code checks the type of
\* the directive first; the broken variant hands out the attribute of whatever directive carries one of that name.
AttrCol(d, v) == IF Variant = "attr_of_any_directive" THEN v ELSE TxnOnly(d, v)
\* has_account(p) is about EVERY account a directive names, whatever attribute holds it: the postings of a transaction,
\* `account` of open / close / balance / note / document -- and a pad names two (the account it pads AND the account the
\* amount is taken from).  The broken variant looks at a single account attribute of a directive that is not a transaction.
OneAccount(A) == IF A = {} THEN {} ELSE {CHOOSE a \in A : \A b \in A : a = b \/ StrLess(a, b)}
AcctsCol(d) == IF Variant = "single_account_attribute" /\ d.type # "transaction" THEN OneAccount(d.accounts) ELSE d.accounts
MechDirRow(d) == [d EXCEPT !.flag = AttrCol(d, d.flag), !.payee = AttrCol(d, d.payee), !.narration = AttrCol(d, d.narration),
                           !.tags = AttrCol(d, d.tags), !.links = AttrCol(d, d.links), !.accounts = AcctsCol(d)]

\* (operators with a parameter: TLC evaluates parameterless constant definitions at start-up even when unused)
Ledgers(m) == UNION {{s \in [1..n -> 1..Len(PoolV)] : \A i \in 1..(n - 1) : PoolV[s[i]].txn <= PoolV[s[i + 1]].txn}
                     : n \in 0..m}
DirLedgers(m) == UNION {{s \in [1..n -> 1..Len(DirPoolV)] : \A i \in 1..(n - 1) : DirPoolV[s[i]].date <= DirPoolV[s[i + 1]].date}
                        : n \in 0..m}

-----------------------------------------------------------------------------
(* part 3: the declarative meaning (rows: the FROM-summarised posting / directive rows, in ledger order) *)
SelectIdx(rows, P(_)) == LET I == {i \in DOMAIN rows : P(rows[i])} IN
                         [k \in 1..Cardinality(I) |-> CHOOSE i \in I : Cardinality({j \in I : j < i}) = k - 1]
Selected(rows, P(_)) == LET ix == SelectIdx(rows, P) IN [k \in DOMAIN ix |-> rows[ix[k]]]

\* accounts of a set in type-then-name order: the k-th is the one with k-1 smaller ones
AccountsInOrder(A) == [k \in 1..Cardinality(A) |-> CHOOSE a \in A : Cardinality({b \in A : AccountLess(b, a)}) = k - 1]

\* BALANCES AT f FROM from WHERE where : per-account sum of f(position), ordered by account type then name
BalancesReport(f, sel) ==
    LET A == {sel[i].account : i \in DOMAIN sel}
        ord == AccountsInOrder(A)
        lots == [j \in DOMAIN sel |-> ApplyF(f, sel[j].lot)]
    IN [k \in DOMAIN ord |-> <<ord[k], InvOfIdx(lots, {j \in DOMAIN sel : sel[j].account = ord[k]})>>]
BalancesMeaning(s, rows) ==
    BalancesReport(s.f, Selected(rows, LAMBDA r : Eval3(s.from.expr, r) = "T" /\ Eval3(s.where, r) = "T"))

\* JOURNAL a AT f FROM from : register of the postings whose account matches a, in ledger order, with running balance;
\* date, flag, payee and narration are those of the transaction the posting belongs to
JournalReport(f, sel) ==
    [k \in DOMAIN sel |->
        <<sel[k].date, sel[k].flag, sel[k].payee, sel[k].narration, sel[k].account, ApplyF(f, sel[k].lot),
          InvOfLots([j \in 1..k |-> ApplyF(f, sel[j].lot)])>>]
JournalMeaning(s, rows) ==
    JournalReport(s.f, Selected(rows, LAMBDA r : Eval3(s.from.expr, r) = "T"
                                                  /\ (s.acct.present => Matches(r.account, s.acct.p))))

\* PRINT FROM from : the (indices of the) directives whose FROM expression is TRUE, in ledger order
PrintMeaning(s, rows) == SelectIdx(rows, LAMBDA r : Eval3(s.from.expr, r) = "T")

-----------------------------------------------------------------------------
(* part 4a: abstract SELECT and the expansion templates (compiler.py transform_balances / transform_journal) *)
Col(n) == [k |-> "col", n |-> n, a |-> <<>>, v |-> 0]
Fn(n, args) == [k |-> "fn", n |-> n, a |-> args, v |-> 0]
IntLit(v) == [k |-> "int", n |-> "", a |-> <<>>, v |-> v]
WrapF(f, x) == IF f = "none" THEN x ELSE Fn(f, <<x>>)
SortKeyE == Fn("account_sortkey", <<Col("account")>>)

ExpandBalances(s) ==
    [targets |-> <<Col("account"), Fn("sum", <<WrapF(s.f, Col("position"))>>)>>,
     from |-> s.from,
     where |-> IF Variant = "no_where" THEN TrueE ELSE s.where,
     group |-> <<Col("account"), SortKeyE>>,
     order |-> IF Variant = "order_by_name" THEN <<Col("account")>> ELSE <<SortKeyE>>]
ExpandJournal(s) ==
    [targets |-> <<Col("date"), Col("flag"), Fn("maxwidth", <<Col("payee"), IntLit(48)>>),
                   Fn("maxwidth", <<Col("narration"), IntLit(80)>>), Col("account"),
                   WrapF(s.f, Col("position")),
                   IF Variant = "balance_raw" THEN Col("balance") ELSE WrapF(s.f, Col("balance"))>>,
     from |-> s.from,
     where |-> IF s.acct.present /\ Variant # "journal_no_match"
               THEN [k |-> "match", col |-> "account", p |-> s.acct.p] ELSE TrueE,
     group |-> <<>>,
     order |-> <<>>]
Expand(s) == IF s.kind = "balances" THEN ExpandBalances(s) ELSE ExpandJournal(s)

(* part 4b: printer to token sequences (the texts submitted to the real parser) *)
Quote(s) == "'" \o s \o "'"
RECURSIVE ETokens(_)
ETokens(e) ==
    CASE e.k = "true" -> <<>>
      [] e.k = "cmp" -> <<e.col, e.op, e.lit>>
      [] e.k = "match" -> <<e.col, "~", Quote(PatText(e.p))>>
      [] e.k = "hasacct" -> <<"has_account", "(", Quote(PatText(e.p)), ")">>
      [] e.k = "in" -> <<Quote(e.v), "IN", e.col>>
      [] e.k = "isnull" -> <<e.col, "IS", "NULL">>
      [] e.k = "notnull" -> <<e.col, "IS", "NOT", "NULL">>
      [] e.k = "and" -> <<"(">> \o ETokens(e.l) \o <<")", "AND", "(">> \o ETokens(e.r) \o <<")">>
      [] e.k = "or" -> <<"(">> \o ETokens(e.l) \o <<")", "OR", "(">> \o ETokens(e.r) \o <<")">>
      [] e.k = "not" -> <<"NOT", "(">> \o ETokens(e.e) \o <<")">>
FromTokens(fc) ==
    IF ~fc.present THEN <<>>
    ELSE <<"FROM">> \o ETokens(fc.expr)
         \o (IF fc.open = <<>> THEN <<>> ELSE <<"OPEN", "ON", fc.open[1]>>)
         \o (CASE fc.close.k = "none" -> <<>> [] fc.close.k = "bare" -> <<"CLOSE">> [] fc.close.k = "on" -> <<"CLOSE", "ON", fc.close.d>>)
         \o (IF fc.clear THEN <<"CLEAR">> ELSE <<>>)
WhereTokens(e) == IF e.k = "true" THEN <<>> ELSE <<"WHERE">> \o ETokens(e)
FnToken(n) == CASE n = "sum" -> "SUM" [] n = "maxwidth" -> "MAXWIDTH" [] n = "account_sortkey" -> "ACCOUNT_SORTKEY"
                [] OTHER -> n
RECURSIVE TTokens(_)
RECURSIVE TListTokens(_)
TListTokens(ts) == IF ts = <<>> THEN <<>>
                   ELSE IF Len(ts) = 1 THEN TTokens(ts[1])
                   ELSE TTokens(ts[1]) \o <<",">> \o TListTokens(Tail(ts))
TTokens(t) ==
    CASE t.k = "col" -> <<t.n>>
      [] t.k = "int" -> <<ToString(t.v)>>
      [] t.k = "fn" -> <<FnToken(t.n), "(">> \o TListTokens(t.a) \o <<")">>
SelectTokens(q) ==
    <<"SELECT">> \o TListTokens(q.targets) \o FromTokens(q.from) \o WhereTokens(q.where)
    \o (IF q.group = <<>> THEN <<>> ELSE <<"GROUP", "BY">> \o TListTokens(q.group))
    \o (IF q.order = <<>> THEN <<>> ELSE <<"ORDER", "BY">> \o TListTokens(q.order))
AtTokens(f) == IF f = "none" THEN <<>> ELSE <<"AT", f>>
StmtTokens(s) ==
    CASE s.kind = "balances" -> <<"BALANCES">> \o AtTokens(s.f) \o FromTokens(s.from) \o WhereTokens(s.where)
      [] s.kind = "journal" -> <<"JOURNAL">> \o (IF s.acct.present THEN <<Quote(PatText(s.acct.p))>> ELSE <<>>)
                               \o AtTokens(s.f) \o FromTokens(s.from)
      [] s.kind = "print" -> <<"PRINT">> \o FromTokens(s.from)

(* part 4c: the SELECT evaluator, written as query_execute.execute_select runs it *)
IsAgg(t) == t.k = "fn" /\ t.n = "sum"
RECURSIVE IsInvE(_)
IsInvE(t) == \/ (t.k = "col" /\ t.n = "balance")
             \/ (t.k = "fn" /\ t.n \in {"units", "cost"} /\ IsInvE(t.a[1]))
InSeq(x, s) == \E i \in DOMAIN s : s[i] = x
IndexOf(x, s) == SetMin({i \in DOMAIN s : s[i] = x})
\* the compiled target list: the targets, then the GROUP BY expressions that are not targets, then the ORDER BY
\* expressions that are neither (hidden targets, dropped from the result at the end)
AllTargets(q) ==
    LET a1 == q.targets \o SelectSeq(q.group, LAMBDA e : ~InSeq(e, q.targets))
    IN a1 \o SelectSeq(q.order, LAMBDA e : ~InSeq(e, a1))

\* textwrap.shorten is the identity on strings without blank runs that fit; anything longer is outside the model
MaxWidth(s, n) == IF s = <<>> THEN <<>> ELSE IF Len(s[1]) <= n THEN s ELSE <<"<shortened>">>

RECURSIVE EvalT(_, _, _)
EvalT(t, r, bal) ==
    CASE t.k = "int" -> t.v
      [] t.k = "col" -> (CASE t.n = "date" -> r.date [] t.n = "flag" -> FlagCol(r) [] t.n = "payee" -> r.payee
                           [] t.n = "narration" -> r.narration [] t.n = "account" -> r.account
                           [] t.n = "position" -> r.lot [] t.n = "balance" -> bal)
      [] t.k = "fn" ->
           (CASE t.n \in {"units", "cost"} -> IF IsInvE(t.a[1]) THEN ApplyFInv(t.n, EvalT(t.a[1], r, bal))
                                               ELSE ApplyF(t.n, EvalT(t.a[1], r, bal))
              [] t.n = "maxwidth" -> MaxWidth(EvalT(t.a[1], r, bal), t.a[2].v)
              [] t.n = "account_sortkey" -> AccountSortKey(EvalT(t.a[1], r, bal)))

\* WHERE of the compiled query = EvalAnd([from expression, where]) with Python truthiness (None is falsy)
MechAnd(a, b) == IF a = "N" THEN "N" ELSE IF a = "F" THEN "F" ELSE b
RowPasses(q, r) == MechAnd(Eval3(q.from.expr, r), Eval3(q.where, r)) = "T"

NonAggIdx(all) == SelectIdx(all, LAMBDA t : ~IsAgg(t))
AggIdx(all) == SelectIdx(all, LAMBDA t : IsAgg(t))
IsAggregateQuery(q) == q.group # <<>>

\* order keys: account_sortkey values compare as (index, name), strings by code point
ValLess(t, x, y) == IF t.k = "fn" /\ t.n = "account_sortkey" THEN SortKeyLess(x, y) ELSE StrLess(x, y)
RECURSIVE RowLess(_, _, _, _)
RowLess(x, y, idxs, all) ==
    IF idxs = <<>> THEN FALSE
    ELSE LET j == Head(idxs) IN
         IF ValLess(all[j], x[j], y[j]) THEN TRUE
         ELSE IF ValLess(all[j], y[j], x[j]) THEN FALSE
         ELSE RowLess(x, y, Tail(idxs), all)
\* stable: a row goes before the first row that is strictly greater
InsertStable(s, x, idxs, all) ==
    LET G == {p \in DOMAIN s : RowLess(x, s[p], idxs, all)}
        p == IF G = {} THEN Len(s) + 1 ELSE SetMin(G)
    IN SubSeq(s, 1, p - 1) \o <<x>> \o SubSeq(s, p, Len(s))
RECURSIVE SortStable(_, _, _, _)
SortStable(acc, rest, idxs, all) ==
    IF rest = <<>> THEN acc ELSE SortStable(InsertStable(acc, Head(rest), idxs, all), Tail(rest), idxs, all)

-----------------------------------------------------------------------------
(* part 4d / 5: the state machine.  One behaviour = one statement executed on one ledger.

   Compilation (Compiler._balances / _journal -> transform_* -> _select) is a function of the statement only, so
   the compiled form of every statement of ShapesV is tabulated once: targets with the hidden GROUP BY / ORDER BY
   targets appended, which targets are aggregates, the target index of every ORDER BY expression. *)
Compile(sel) ==
    LET all == AllTargets(sel) IN
    [sel |-> sel, all |-> all, nix |-> NonAggIdx(all), aix |-> AggIdx(all),
     oidx |-> [k \in DOMAIN sel.order |-> IndexOf(sel.order[k], all)],
     agg |-> IsAggregateQuery(sel), ntargets |-> Len(sel.targets)]
QTab == [n \in DOMAIN ShapesV |-> Compile(Expand(ShapesV[n]))] \o <<>>
PrintQTab == [n \in DOMAIN PrintShapesV |->
                Compile([targets |-> <<>>, from |-> PrintShapesV[n].from, where |-> TrueE, group |-> <<>>, order |-> <<>>])] \o <<>>

VARIABLES
    tbl,      \* "postings" | "entries"
    ledger,      \* the ledger: sequence of indices into PoolV (postings) or DirPoolV (entries)
    si,       \* index of the statement in ShapesV / PrintShapesV
    phase,    \* "stmt" -> "scan" -> "final" -> "sorted" -> "done"
    pos,        \* next row to scan
    ctxbal,      \* running balance of the row context
    out,      \* result rows so far (non-aggregate) / kept directive indices (PRINT)
    gkeys,    \* aggregate query: group keys in order of first appearance
    gvals     \* aggregate query: per group, one inventory per aggregate target
vars == <<tbl, ledger, si, phase, pos, ctxbal, out, gkeys, gvals>>

Stmt == IF tbl = "postings" THEN ShapesV[si] ELSE PrintShapesV[si]
Rows == IF tbl = "postings" THEN PostingRows(ledger) ELSE DirRows(ledger)
Q == IF tbl = "postings" THEN QTab[si] ELSE PrintQTab[si]       \* the compiled query (defined once phase # "stmt")

Init ==
    /\ \/ tbl = "postings" /\ ledger \in Ledgers(MaxPostings) /\ si \in 1..Len(ShapesV)
       \/ tbl = "entries" /\ ledger \in DirLedgers(MaxDirs) /\ si \in 1..Len(PrintShapesV)
    /\ phase = "stmt" /\ pos = 1 /\ ctxbal = {} /\ out = <<>> /\ gkeys = <<>> /\ gvals = <<>>

\* Compiler._balances / _journal: rewrite into a SELECT, compile it
Rewrite ==
    /\ phase = "stmt" /\ tbl = "postings"
    /\ phase' = "scan"
    /\ UNCHANGED <<tbl, ledger, si, pos, ctxbal, out, gkeys, gvals>>
\* Compiler._print: table = entries, compile the FROM expression
CompilePrint ==
    /\ phase = "stmt" /\ tbl = "entries"
    /\ phase' = "scan"
    /\ UNCHANGED <<tbl, ledger, si, pos, ctxbal, out, gkeys, gvals>>

\* one iteration of the row loop
ScanSkip(pass) ==
    /\ ~pass
    /\ pos' = pos + 1
    /\ UNCHANGED <<tbl, ledger, si, phase, ctxbal, out, gkeys, gvals>>
ScanTakeRow(r, pass) ==      \* non-aggregate: evaluate the targets (the balance column adds the posting to the context)
    /\ pass /\ ~Q.agg
    /\ LET b == InvAdd(ctxbal, r.lot)
           all == Q.all
       IN /\ ctxbal' = b
          /\ out' = Append(out, [j \in DOMAIN all |-> EvalT(all[j], r, b)])
    /\ pos' = pos + 1
    /\ UNCHANGED <<tbl, ledger, si, phase, gkeys, gvals>>
ScanTakeGroup(r, pass) ==    \* aggregate: find or allocate the group of the row's key, update its accumulators
    /\ pass /\ Q.agg
    /\ LET all == Q.all
           nix == Q.nix
           aix == Q.aix
           key == [k \in DOMAIN nix |-> EvalT(all[nix[k]], r, ctxbal)]
           isnew == ~InSeq(key, gkeys)
           keys2 == IF isnew THEN Append(gkeys, key) ELSE gkeys
           vals2 == IF isnew THEN Append(gvals, [k \in DOMAIN aix |-> {}]) ELSE gvals
           g == IndexOf(key, keys2)
       IN /\ gkeys' = keys2
          /\ gvals' = [vals2 EXCEPT ![g] = [k \in DOMAIN aix |-> InvAdd(vals2[g][k], EvalT(all[aix[k]].a[1], r, ctxbal))]]
    /\ pos' = pos + 1
    /\ UNCHANGED <<tbl, ledger, si, phase, ctxbal, out>>
Scan ==
    /\ phase = "scan" /\ tbl = "postings" /\ pos <= Len(ledger)
    /\ LET r == Rows[pos]
           pass == RowPasses(Q.sel, r)
       IN ScanSkip(pass) \/ ScanTakeRow(r, pass) \/ ScanTakeGroup(r, pass)
\* finalize: one row per group, in order of first appearance
Finalize ==
    /\ phase = "scan" /\ tbl = "postings" /\ pos > Len(ledger)
    /\ out' = IF Q.agg
              THEN [g \in DOMAIN gkeys |->
                      [j \in DOMAIN Q.all |-> IF IsAgg(Q.all[j]) THEN gvals[g][IndexOf(j, Q.aix)]
                                              ELSE gkeys[g][IndexOf(j, Q.nix)]]]
              ELSE out
    /\ phase' = "final"
    /\ UNCHANGED <<tbl, ledger, si, pos, ctxbal, gkeys, gvals>>
\* ORDER BY: stable sort on the order expressions' target indexes
Order ==
    /\ phase = "final"
    /\ out' = IF Q.oidx = <<>> THEN out ELSE SortStable(<<>>, out, Q.oidx, Q.all)
    /\ phase' = "sorted"
    /\ UNCHANGED <<tbl, ledger, si, pos, ctxbal, gkeys, gvals>>
\* drop the hidden targets
Strip ==
    /\ phase = "sorted"
    /\ out' = [k \in DOMAIN out |-> SubSeq(out[k], 1, Q.ntargets)]
    /\ phase' = "done"
    /\ UNCHANGED <<tbl, ledger, si, pos, ctxbal, gkeys, gvals>>

\* execute_print: `if expr is None or expr(row): entries.append(row.entry)`
PrintTruthy(v) == IF Variant = "print_keeps_null" THEN v # "F" ELSE v = "T"
PrintKeep(keep) ==
    /\ keep
    /\ out' = Append(out, pos)
    /\ pos' = pos + 1
    /\ UNCHANGED <<tbl, ledger, si, phase, ctxbal, gkeys, gvals>>
PrintDrop(keep) ==
    /\ ~keep
    /\ pos' = pos + 1
    /\ UNCHANGED <<tbl, ledger, si, phase, ctxbal, out, gkeys, gvals>>
PrintScan ==
    /\ phase = "scan" /\ tbl = "entries" /\ pos <= Len(ledger)
    /\ LET keep == PrintTruthy(Eval3(Q.sel.from.expr, MechDirRow(DirPoolV[ledger[pos]]))) IN PrintKeep(keep) \/ PrintDrop(keep)
PrintEmit ==
    /\ phase = "scan" /\ tbl = "entries" /\ pos > Len(ledger)
    /\ phase' = "done"
    /\ UNCHANGED <<tbl, ledger, si, pos, ctxbal, out, gkeys, gvals>>

Next == Rewrite \/ CompilePrint \/ Scan \/ Finalize \/ Order \/ Strip \/ PrintScan \/ PrintEmit
Spec == Init /\ [][Next]_vars

-----------------------------------------------------------------------------
(* the property: what the mechanism delivers is the declarative meaning *)
Meaning ==
    CASE Stmt.kind = "balances" -> BalancesMeaning(Stmt, Rows)
      [] Stmt.kind = "journal" -> JournalMeaning(Stmt, Rows)
      [] Stmt.kind = "print" -> PrintMeaning(Stmt, Rows)
DenoteIsMeaning == phase = "done" => out = Meaning

\* the rewrite keeps the FROM clause (filter expression and OPEN / CLOSE / CLEAR) verbatim (a constant-level law)
ExpansionKeepsFrom == \A n \in DOMAIN ShapesV : QTab[n].sel.from = ShapesV[n].from
\* results are well formed: inventories are inventories, BALANCES lists an account once, in order
WellFormed ==
    (phase = "done" /\ tbl = "postings") =>
        /\ Stmt.kind = "balances" => /\ \A k \in DOMAIN out : IsInventory(out[k][2])
                                     /\ \A k1 \in DOMAIN out, k2 \in DOMAIN out : out[k1][1] = out[k2][1] => k1 = k2
                                     /\ \A k \in 1..(Len(out) - 1) : AccountLess(out[k][1], out[k + 1][1])
        /\ Stmt.kind = "journal" => \A k \in DOMAIN out : IsInventory(out[k][7])
\* laws of the account order on a set of accounts
OrderLaws(A) ==
    /\ \A a \in A : InAlphabet(a) /\ HasRootType(a) /\ ~AccountLess(a, a)
    /\ \A a \in A, b \in A : a # b => (AccountLess(a, b) \/ AccountLess(b, a)) /\ ~(AccountLess(a, b) /\ AccountLess(b, a))
    /\ \A a \in A, b \in A, c \in A : AccountLess(a, b) /\ AccountLess(b, c) => AccountLess(a, c)
=============================================================================
