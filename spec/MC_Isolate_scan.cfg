\* non-vacuity: the rows of a typed table kept on the table object and published while the first scan is still filling
\* them -- TLC must find the schedule on which a second scan of the table starts in between and loses rows
CONSTANTS
  Threads = {1, 2}
  CompilerScope = "per execution"
  ColumnMemo = "none"
  ParserScope = "per call"
  ScanMemo = "rows published while the first scan fills them"
  OperandScope = "per call"
  SubqueryColumns = "per table object"
  ResultScope = "per execute call"
  JobSet = "scan"
INIT Init
NEXT Next
INVARIANTS SerialInv
CHECK_DEADLOCK FALSE
