\* the mechanism as shipped, executemany: the second parameter set fails on the object numbered by the first

CONSTANTS
  Stmts <- Stmts1
  StmtParams <- Params1
  ManyPairs <- Pairs1
  Data <- DataA
  NumberMode = "shipped"
  MaxCalls = 3
INIT Init
NEXT Next
INVARIANTS ResultInv
CHECK_DEADLOCK FALSE
