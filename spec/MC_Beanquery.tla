------------------------------- MODULE MC_Beanquery -------------------------------
EXTENDS Beanquery
MSch == [k |-> "int", s |-> "str", v |-> "int"]
R(k, s, v) == [k |-> k, s |-> s, v |-> v]
MTable == << R(IntV(1), StrV("a"), IntV(2)), R(IntV(2), Null, IntV(1)), R(IntV(1), StrV("b"), Null) >>
T(e, as) == [e |-> e, as |-> as]
Q(tg, wh, gr, od, ds, lm) == [targets |-> tg, where |-> wh, group |-> gr, having |-> NoE, order |-> od, pivot |-> <<>>, distinct |-> ds, limit |-> lm]
MQueries == {
    Q(<<T(Col("k"), ""), T(Col("s"), "")>>, NoE, <<>>, <<>>, FALSE, -1),
    Q(<<T(Col("k"), ""), T(Bin("add", Col("v"), Const(IntV(1))), "w")>>, Un("isnotnull", Col("v")), <<>>, <<[r |-> RefIdx(2), desc |-> TRUE]>>, FALSE, -1),
    Q(<<T(Col("k"), ""), T(Agg("count", Star), "n")>>, NoE, <<RefIdx(1)>>, <<>>, FALSE, -1),
    Q(<<T(Col("k"), "")>>, NoE, <<>>, <<>>, TRUE, 1),
    Q(<<T(Col("nope"), "")>>, NoE, <<>>, <<>>, FALSE, -1),
    Q(<<T(Bin("add", Col("k"), Col("s")), "x")>>, NoE, <<>>, <<>>, FALSE, -1),
    Q(<<T(Col("k"), "")>>, Bin("gt", Col("v"), Const(IntV(5))), <<>>, <<>>, FALSE, -1) }
Sizes == {1, 2}
=============================================================================
