------------------------------- MODULE MC_Beanquery -------------------------------
EXTENDS Beanquery
R(k, s, v) == [k |-> k, s |-> s, v |-> v]
\* three versions of a table: the same columns with other rows; fewer columns in another declaration order
TV1 == [sch |-> [k |-> "int", s |-> "str", v |-> "int"], cols |-> <<"k", "s", "v">>,
        rows |-> << R(IntV(1), StrV("a"), IntV(2)), R(IntV(2), Null, IntV(1)), R(IntV(1), StrV("b"), Null) >>]
TV2 == [sch |-> [k |-> "int", s |-> "str", v |-> "int"], cols |-> <<"k", "s", "v">>,
        rows |-> << R(IntV(3), StrV("c"), IntV(7)) >>]
TV3 == [sch |-> [v |-> "int", k |-> "str"], cols |-> <<"v", "k">>,
        rows |-> << [v |-> IntV(5), k |-> StrV("x")], [v |-> Null, k |-> StrV("y")] >>]
MTables == {TV1, TV2, TV3}
MNames == {"g", "h"}
T(e, as) == [e |-> e, as |-> as]
Q(tg, wh, gr, od, ds, lm) == [targets |-> tg, where |-> wh, group |-> gr, having |-> NoE, order |-> od, pivot |-> <<>>, distinct |-> ds, limit |-> lm,
                              sub |-> NoE, star |-> FALSE]
MQueries == {
    Q(<<T(Col("k"), ""), T(Col("s"), "")>>, NoE, <<>>, <<>>, FALSE, -1),
    [Q(<<>>, NoE, <<>>, <<>>, FALSE, -1) EXCEPT !.star = TRUE],
    Q(<<T(Col("k"), ""), T(Bin("add", Col("v"), Const(IntV(1))), "w")>>, Un("isnotnull", Col("v")), <<>>, <<[r |-> RefIdx(2), desc |-> TRUE]>>, FALSE, -1),
    Q(<<T(Col("k"), ""), T(Agg("count", Star), "n")>>, NoE, <<RefIdx(1)>>, <<>>, FALSE, -1),
    Q(<<T(Col("k"), "")>>, NoE, <<>>, <<>>, TRUE, 1),
    Q(<<T(Col("nope"), "")>>, NoE, <<>>, <<>>, FALSE, -1),
    Q(<<T(Bin("add", Col("k"), Col("v")), "x")>>, NoE, <<>>, <<>>, FALSE, -1) }
Sizes == {1, 2}
\* bound: behaviours of at most MaxLevel - 1 API calls
CONSTANT MaxLevel
Bounded == TLCGet("level") <= MaxLevel
=============================================================================
