\* exhaustive (quick): data set A, nesting depth <= 3, conforming mechanism (table saved / restored around a nested SELECT)
CONSTANTS
  Tabs <- TabsA
  Restore = TRUE
INIT InitQuick
NEXT Next
INVARIANTS ResolvesOwnTable StarOwnTable IteratesOwnTable ExecIsDenote StarIdentity MaterialisedForm InIsMembership InWhereIsMembership StackInv DistinctOutputs
CHECK_DEADLOCK FALSE
