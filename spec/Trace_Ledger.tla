---------------------------- MODULE Trace_Ledger ----------------------------
(* Code -> spec: every line of the trace file is one ledger (a window of the example ledger, a random ledger, a
   printed-and-reloaded ledger with padding) projected to the abstract vocabulary, with the rows the real tables
   showed for every modelled column AFTER the recorded history of statements (any form, any FROM qualifiers) was
   executed on the same connection.  The specification's traversal RowsAfter(history, ledger, keys) is the oracle: one TLC step
   per line, a line whose rows differ is reported (table, row number, column, expected cell) and the run goes on.
   Ledgers outside the domain of the property (WellFormed) are reported as skipped, never judged. *)
EXTENDS Ledger, Json, IOUtils

TraceLog == ndJsonDeserialize(IOEnv.TRACE_FILE)

VARIABLES l, nbad, nskip
tvars == <<vars, l, nbad, nskip>>

OptSetOf(o) == IF Len(o) = 0 THEN <<>> ELSE <<Range(o[1])>>
SetCols == {"tags", "links", "meta", "open_meta"}
(* JSON arrays that stand for sets become sets *)
Norm(r) == [c \in DOMAIN r |-> IF c \in SetCols THEN OptSetOf(r[c]) ELSE IF c = "other_accounts" THEN Range(r[c]) ELSE r[c]]

LkName == [k |-> "lookup-key", m |-> "meta()", em |-> "entry_meta()", am |-> "any_meta()", om |-> "open_meta()",
           cm |-> "commodity_meta()"]
(* the lookups of one row that differ, by function name *)
LkBad(s, o) ==
    IF Len(s) # Len(o) THEN {"lookups"}
    ELSE {LkName[x[2]] : x \in {y \in (1..Len(s)) \X {"k", "m", "em", "am", "om", "cm"} :
            /\ y[2] \in DOMAIN o[y[1]]
            /\ IF y[2] = "am" THEN o[y[1]].am # s[y[1]].am /\ o[y[1]].am # s[y[1]].am_alt
                ELSE o[y[1]][y[2]] # s[y[1]][y[2]]}}
(* s = the specification's row, o = the observed row (normalised); only the columns the driver recorded *)
CellOK(c, s, o) ==
    IF c = "lk" THEN LkBad(s.lk, o.lk) = {}
    ELSE IF c = "cost_label" THEN o[c] = s.cost_label \/ o[c] = s.cost_label_alt
    ELSE o[c] = s[c]

SeqTables == TableNames \ {"accounts", "commodities"}
RowBad(s, o) == {c \in DOMAIN o \ {"lk"} : ~CellOK(c, s, o)} \cup (IF "lk" \in DOMAIN o THEN LkBad(s.lk, o.lk) ELSE {})
Mismatches(S, O) ==
    UNION {
        IF Len(S[t]) # Len(O[t]) THEN {<<t, 0, "row-count">>}
        ELSE UNION { {<<t, n, c>> : c \in RowBad(S[t][n], Norm(O[t][n]))} : n \in 1..Len(S[t]) }
        : t \in SeqTables }
    \cup UNION {
        IF S[t] = {Norm(O[t][n]) : n \in 1..Len(O[t])} /\ Cardinality(S[t]) = Len(O[t]) THEN {} ELSE {<<t, 0, "rows">>}
        : t \in {"accounts", "commodities"} }

Expected(S, x) ==      \* the specification's cell for a mismatch, as JSON text
    IF x[2] = 0 THEN (IF x[1] \in SeqTables THEN ToJson(Len(S[x[1]])) ELSE ToJson(S[x[1]]))
    ELSE IF x[3] \in DOMAIN S[x[1]][x[2]] THEN ToJson(S[x[1]][x[2]][x[3]])
    ELSE ToJson(S[x[1]][x[2]].lk)

TInit ==
    /\ lx = <<>> /\ tab = "postings" /\ ei = 0 /\ pj = 0
    /\ ctx = [rowid |-> 0, entry |-> 0, posting |-> 0]
    /\ emitted = <<>> /\ dir = <<>> /\ done = FALSE /\ conn = Conn0
    /\ l = 1 /\ nbad = 0 /\ nskip = 0

TNext ==
    /\ l <= Len(TraceLog)
    /\ l' = l + 1
    /\ UNCHANGED vars
    /\ LET e == TraceLog[l] IN
       IF ~(WellFormed(e.ledger) /\ IsHistory(e.history))
       THEN /\ PrintT(ToJson([verdict |-> "skipped", id |-> e.id, line |-> l]))
            /\ nskip' = nskip + 1 /\ UNCHANGED nbad
       ELSE LET S == RowsAfter(e.history, e.ledger, e.keys)
                mm == Mismatches(S, e.rows)
            IN IF mm = {} THEN UNCHANGED <<nbad, nskip>>
               ELSE /\ PrintT(ToJson([verdict |-> "rejected", id |-> e.id, line |-> l, n |-> Cardinality(mm),
                                      mism |-> {<<x[1], x[2], x[3], Expected(S, x)>> : x \in {y \in mm : y[2] <= 2}}]))
                    /\ nbad' = nbad + 1 /\ UNCHANGED nskip

TSpec == TInit /\ [][TNext]_tvars
TraceConsumed == TLCGet("stats").diameter - 1 = Len(TraceLog)
=============================================================================
