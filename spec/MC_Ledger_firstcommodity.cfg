\* non-vacuity: the commodity map keeps the FIRST commodity directive of a currency (dict.setdefault) where a later
\* declaration supersedes it.  TLC must violate MechEqDecl (table of commodities) -- and LookupsEqDecl, see the next file.
CONSTANTS
  Alpha <- DupAlpha
  MaxLen = 2
  Keys <- SmallKeys
  Mech = "firstcommodity"
  MaxStmts = 1
  QualOpts <- QNone
INIT Init
NEXT Next
INVARIANTS MechEqDecl
CHECK_DEADLOCK FALSE
