------------------------------- MODULE Reload -------------------------------
(***************************************************************************)
(* C12, "sum() ... commutes with value() and convert(): applying the       *)
(* function to the summed inventory equals summing its per-row results",   *)
(* along the LIFE of one connection.  A connection is attached to a ledger *)
(* (postings and price directives); Connection.attach() -- what the shell  *)
(* does on .reload -- attaches the edited ledger to the SAME connection    *)
(* object.  Code anchors: beanquery/__init__.py Connection.attach,         *)
(* beanquery/sources/beancount.py attach (replaces the tables),            *)
(* beanquery/query_env.py convert_amount / convert_position /              *)
(* position_value (called once per posting with the connection as context: *)
(* the price map is reached through context.tables['prices']) and          *)
(* convert_inventory / inventory_value (Inventory.reduce, once per group). *)
(*                                                                         *)
(* A statement  SELECT sum(f(position)), f(sum(position))  is executed row *)
(* by row: the per-row result goes through the memo (if there is one) and  *)
(* is added up; f of the summed inventory is computed at the end, lot by   *)
(* lot, with the prices attached NOW (inventories are not hashable: no     *)
(* memo).                                                                  *)
(*                                                                         *)
(* Memo  "none"      what the code does                                    *)
(*       "by args"   a realistic edit (functools.lru_cache on the scalar   *)
(*                   conversions): keyed by connection, position, target   *)
(*                   currency and date -- the key looks complete, but the  *)
(*                   prices are not part of it.  Non-vacuity: TLC must     *)
(*                   reject it.                                            *)
(*       "dropped"   a memo that is emptied when the connection is         *)
(*                   attached again: conforms                              *)
(***************************************************************************)
EXTENDS Inventory, TLC

CONSTANTS Memos,        \* the memo disciplines explored (the discipline is fixed along a behaviour)
          Ledgers,      \* set of sequences of positions
          PriceTabs,    \* sequence of price tables
          Fs,           \* the conversions  <<"value", "", d>> | <<"convert", tgt, d>> | <<"cost", "", 0>>
          MaxAttach, MaxStmts

NoMemo == "none"
ByArgs == "by args"
Dropped == "dropped"
Idle == <<>>

VARIABLES
    memo,       \* the discipline
    led, att,   \* what the connection is attached to: postings, index of the price table (0: nothing yet)
    tab,        \* the memo table: <<position, f>> -> amount
    q, i, acc,  \* the statement being executed: its f, the next row, the sum of the per-row results so far
    obs,        \* the last finished statement: [f, rowwise, summed, led, att]
    nat, nst    \* attachments / statements so far

rvars == <<memo, led, att, tab, q, i, acc, obs, nat, nst>>

NoTab == [k \in {} |-> 0]
RInit ==
    /\ memo \in Memos
    /\ led = <<>> /\ att = 0 /\ tab = NoTab /\ q = Idle /\ i = 0 /\ acc = EmptyInv /\ obs = Idle /\ nat = 0 /\ nst = 0

Attach ==
    /\ q = Idle /\ nat < MaxAttach
    /\ led' \in Ledgers /\ att' \in 1..Len(PriceTabs)
    /\ tab' = IF memo = Dropped THEN NoTab ELSE tab
    /\ nat' = nat + 1
    /\ UNCHANGED <<memo, q, i, acc, obs, nst>>

BeginStmt ==
    /\ q = Idle /\ att # 0 /\ nst < MaxStmts
    /\ q' \in Fs /\ i' = 1 /\ acc' = EmptyInv /\ nst' = nst + 1
    /\ UNCHANGED <<memo, led, att, tab, obs, nat>>

(* one posting: f(position), through the memo *)
Row ==
    /\ q # Idle /\ i <= Len(led)
    /\ LET key == <<led[i], q>>
           hit == memo # NoMemo /\ key \in DOMAIN tab
           v == IF hit THEN tab[key] ELSE ApplyP(q, led[i], PriceTabs[att], 1)
       IN /\ acc' = AddPos(acc, v)
          /\ tab' = IF memo = NoMemo \/ hit THEN tab
                    ELSE [k \in DOMAIN tab \cup {key} |-> IF k = key THEN v ELSE tab[k]]
    /\ i' = i + 1
    /\ UNCHANGED <<memo, led, att, q, obs, nat, nst>>

(* the scan is over: f of the summed inventory, lot by lot, with the prices attached now *)
FinishStmt ==
    /\ q # Idle /\ i > Len(led)
    /\ obs' = [f |-> q, rowwise |-> acc, summed |-> ApplyI(q, SumSeq(led), PriceTabs[att], 1), led |-> led, att |-> att]
    /\ q' = Idle /\ i' = 0 /\ acc' = EmptyInv
    /\ UNCHANGED <<memo, led, att, tab, nat, nst>>

RNext == Attach \/ BeginStmt \/ Row \/ FinishStmt

-----------------------------------------------------------------------------
(* THE PROPERTY: what a statement returns depends on the data attached when it runs, and on nothing else: both sides
   are the inventory sum of f over the attached postings at the attached prices -- hence equal *)
ReloadInv ==
    obs # Idle =>
        /\ obs.rowwise = SumSeq(MapSeq(obs.f, obs.led, PriceTabs[obs.att], 1))
        /\ obs.summed = obs.rowwise
(* while a statement runs, the accumulator is the sum of f over the rows seen *)
RowsInv == q # Idle => acc = SumSeq(MapSeq(q, SubSeq(led, 1, i - 1), PriceTabs[att], 1))
(* the edit matters: some behaviour attaches twice with different prices and repeats a conversion (non-vacuity of
   the state space: checked by the run that must fail) *)
=============================================================================
