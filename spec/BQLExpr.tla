------------------------------- MODULE BQLExpr -------------------------------
(***************************************************************************)
(* Static typing (overload resolution) and three-valued row-level           *)
(* evaluation of BQL expressions (C01, C04, C05, C09).                      *)
(*                                                                         *)
(* Expressions (records, field k):                                          *)
(*   const v | col n | un op a | bin op a b | between a lo hi |             *)
(*   and args | or args | call f args      (coalesce is a call)             *)
(* A schema maps column names to declared types                             *)
(*   "int" "dec" "str" "date" "bool" "obj";  a row maps them to values.     *)
(***************************************************************************)
EXTENDS BQLValues

Const(v) == [k |-> "const", v |-> v]
Col(n) == [k |-> "col", n |-> n]
Un(op, a) == [k |-> "un", op |-> op, a |-> a]
Bin(op, a, b) == [k |-> "bin", op |-> op, a |-> a, b |-> b]
Between(a, lo, hi) == [k |-> "between", a |-> a, lo |-> lo, hi |-> hi]
AndE(args) == [k |-> "and", args |-> args]
OrE(args) == [k |-> "or", args |-> args]
Call(f, args) == [k |-> "call", f |-> f, args |-> args]
Agg(f, a) == [k |-> "agg", f |-> f, a |-> a]          \* aggregate call; a = Star for count(*)
Star == [k |-> "star"]
NoE == [k |-> "none"]
AggFns == {"count", "sum", "min", "max", "first", "last"}

ArithOps == {"mul", "div", "mod", "add", "sub"}
CmpOps == {"eq", "ne", "gt", "ge", "lt", "le"}
MatchOps == {"match", "notmatch"}
InOps == {"in", "notin"}
BinOps == ArithOps \cup CmpOps \cup MatchOps \cup InOps
UnOps == {"neg", "not", "isnull", "isnotnull"}
ERR == "ERR"

-----------------------------------------------------------------------------
(* Declared typing.  Binary operators match the operand types exactly; an untyped (obj) operand facing a typed
   one is cast to that type (int promotes to dec); unary operators and functions are looked up over the
   operand types' bases (bool is an int; everything else only itself; obj and null only match "any"). *)
NumPairs == {<<"dec", "dec">>, <<"dec", "int">>, <<"int", "dec">>, <<"int", "int">>}
BinType(op, ta, tb) ==
    CASE op \in {"mul", "add", "sub", "mod"} /\ <<ta, tb>> \in NumPairs ->
             IF ta = "int" /\ tb = "int" THEN "int" ELSE "dec"
      [] op = "div" /\ <<ta, tb>> \in NumPairs -> "dec"
      [] op = "add" /\ <<ta, tb>> \in {<<"date", "int">>, <<"int", "date">>} -> "date"
      [] op = "sub" /\ <<ta, tb>> = <<"date", "int">> -> "date"
      [] op = "sub" /\ <<ta, tb>> = <<"date", "date">> -> "int"
      [] op \in CmpOps /\ (<<ta, tb>> \in NumPairs \/ (ta = tb /\ ta \in {"date", "str"})) -> "bool"
      [] op \in MatchOps /\ ta = "str" /\ tb = "str" -> "bool"
      [] op \in InOps /\ tb = "list" -> "bool"
      [] OTHER -> ERR
Castable == {"bool", "date", "dec", "int", "str"}
CastTarget(t) == IF t = "int" THEN "dec" ELSE t
\* <<result type, cast applied to the left operand ("" = none), cast applied to the right operand>>
BinResolve(op, ta, tb) ==
    IF BinType(op, ta, tb) # ERR THEN <<BinType(op, ta, tb), "", "">>
    ELSE IF op \in InOps THEN <<ERR, "", "">>
    ELSE IF ta = "obj" /\ tb # "obj" /\ tb \in Castable
         THEN <<BinType(op, CastTarget(tb), tb), CastTarget(tb), "">>
    ELSE IF tb = "obj" /\ ta # "obj" /\ ta \in Castable
         THEN <<BinType(op, ta, CastTarget(ta)), "", CastTarget(ta)>>
    ELSE <<ERR, "", "">>

Bases(t) == IF t = "bool" THEN <<"bool", "int">> ELSE IF t = "null" THEN <<"obj">> ELSE <<t>>
\* scalar functions of the model: name, parameter types ("any" matches everything), result type
FnTable == <<
    [f |-> "abs", in |-> <<"dec">>, out |-> "dec"],
    [f |-> "neg", in |-> <<"dec">>, out |-> "dec"],
    [f |-> "length", in |-> <<"str">>, out |-> "int"],
    [f |-> "upper", in |-> <<"str">>, out |-> "str"],
    [f |-> "lower", in |-> <<"str">>, out |-> "str"],
    [f |-> "year", in |-> <<"date">>, out |-> "int"],
    [f |-> "month", in |-> <<"date">>, out |-> "int"],
    [f |-> "day", in |-> <<"date">>, out |-> "int"],
    [f |-> "date_add", in |-> <<"date", "int">>, out |-> "date"],
    [f |-> "date_diff", in |-> <<"date", "date">>, out |-> "int"],
    [f |-> "safediv", in |-> <<"dec", "dec">>, out |-> "dec"],
    [f |-> "safediv", in |-> <<"dec", "int">>, out |-> "dec"],
    [f |-> "round", in |-> <<"dec">>, out |-> "dec"],
    [f |-> "round", in |-> <<"int">>, out |-> "int"],
    [f |-> "substr", in |-> <<"str", "int", "int">>, out |-> "str"],
    [f |-> "bool", in |-> <<"any">>, out |-> "bool"],
    [f |-> "str", in |-> <<"any">>, out |-> "str"],
    [f |-> "int", in |-> <<"int">>, out |-> "int"],
    [f |-> "int", in |-> <<"bool">>, out |-> "int"],
    [f |-> "int", in |-> <<"dec">>, out |-> "int"],
    [f |-> "int", in |-> <<"str">>, out |-> "int"],
    [f |-> "int", in |-> <<"obj">>, out |-> "int"],
    [f |-> "decimal", in |-> <<"dec">>, out |-> "dec"],
    [f |-> "decimal", in |-> <<"int">>, out |-> "dec"],
    [f |-> "decimal", in |-> <<"bool">>, out |-> "dec"],
    [f |-> "decimal", in |-> <<"str">>, out |-> "dec"],
    [f |-> "decimal", in |-> <<"obj">>, out |-> "dec"],
    [f |-> "date", in |-> <<"date">>, out |-> "date"],
    [f |-> "date", in |-> <<"str">>, out |-> "date"],
    [f |-> "date", in |-> <<"obj">>, out |-> "date"]
>>
FnNames == {FnTable[i].f : i \in 1..Len(FnTable)}
SigMatches(sig, ts) == Len(sig) = Len(ts) /\ \A i \in 1..Len(sig) : sig[i] = "any" \/ sig[i] = ts[i]
HasSig(f, ts) == \E i \in 1..Len(FnTable) : FnTable[i].f = f /\ SigMatches(FnTable[i].in, ts)
OutOf(f, ts) == FnTable[CHOOSE i \in 1..Len(FnTable) : FnTable[i].f = f /\ SigMatches(FnTable[i].in, ts)].out
\* candidate signatures in the order the lookup tries them: product of the operands' bases, left-most slowest
Cands(ts) ==
    IF Len(ts) = 1 THEN [i \in 1..Len(Bases(ts[1])) |-> <<Bases(ts[1])[i]>>]
    ELSE IF Len(ts) = 2 THEN
        LET b1 == Bases(ts[1]) b2 == Bases(ts[2])
        IN [i \in 1..(Len(b1) * Len(b2)) |-> <<b1[((i - 1) \div Len(b2)) + 1], b2[((i - 1) % Len(b2)) + 1]>>]
    ELSE LET b1 == Bases(ts[1]) b2 == Bases(ts[2]) b3 == Bases(ts[3])
         IN [i \in 1..(Len(b1) * Len(b2) * Len(b3)) |->
                <<b1[((i - 1) \div (Len(b2) * Len(b3))) + 1],
                  b2[(((i - 1) \div Len(b3)) % Len(b2)) + 1],
                  b3[((i - 1) % Len(b3)) + 1]>>]
\* the signature the lookup settles on (<<>> if none)
FnResolve(f, ts) ==
    IF Len(ts) = 0 \/ Len(ts) > 3 THEN <<>>
    ELSE LET c == Cands(ts) IN
         IF \E i \in 1..Len(c) : HasSig(f, c[i])
         THEN c[CHOOSE i \in 1..Len(c) : HasSig(f, c[i]) /\ \A j \in 1..(i - 1) : ~HasSig(f, c[j])]
         ELSE <<>>
UnType(op, t) ==
    IF op \in {"not", "isnull", "isnotnull"} THEN "bool"
    ELSE \* neg: int -> int, dec -> dec; bool is looked up as an int
         IF t \in {"int", "bool"} THEN "int" ELSE IF t = "dec" THEN "dec" ELSE ERR
BetweenOK(ta, tl, th) ==
    \/ {ta, tl, th} \subseteq {"int", "dec"}
    \/ (ta = "date" /\ tl = "date" /\ th = "date")
    \/ (ta = "str" /\ tl = "str" /\ th = "str")
ConstType(v) == IF v.t = "ood" THEN ERR ELSE v.t
\* aggregates: count(*) and count(x) are int; sum keeps int / dec (a bool is summed as an int);
\* min / max / first / last return their argument's type
AggType(f, t) ==
    CASE f = "count" -> "int"
      [] f = "sum" -> IF t \in {"int", "bool"} THEN "int" ELSE IF t = "dec" THEN "dec" ELSE ERR
      [] f \in {"min", "max", "first", "last"} -> IF t = "star" THEN ERR ELSE t
      [] OTHER -> ERR

RECURSIVE TypeOf(_, _)
RECURSIVE TypeSeq(_, _, _, _)
\* the operand types as an explicit tuple (a function constructor would be re-evaluated at every application)
TypeSeq(args, i, sch, acc) == IF i > Len(args) THEN acc ELSE TypeSeq(args, i + 1, sch, Append(acc, TypeOf(args[i], sch)))
TypeOf(e, sch) ==
    CASE e.k = "const" -> ConstType(e.v)
      [] e.k = "col" -> IF e.n \in DOMAIN sch THEN sch[e.n] ELSE ERR
      [] e.k = "un" -> LET t == TypeOf(e.a, sch) IN IF t = ERR THEN ERR ELSE UnType(e.op, t)
      [] e.k = "bin" -> LET ta == TypeOf(e.a, sch) tb == TypeOf(e.b, sch)
                        IN IF ta = ERR \/ tb = ERR THEN ERR ELSE BinResolve(e.op, ta, tb)[1]
      [] e.k = "between" -> LET ta == TypeOf(e.a, sch) tl == TypeOf(e.lo, sch) th == TypeOf(e.hi, sch)
                            IN IF ERR \in {ta, tl, th} THEN ERR ELSE IF BetweenOK(ta, tl, th) THEN "bool" ELSE ERR
      [] e.k \in {"and", "or"} ->
            IF Len(e.args) >= 1 /\ \A i \in 1..Len(e.args) : TypeOf(e.args[i], sch) # ERR THEN "bool" ELSE ERR
      [] e.k = "call" ->
            LET ts == TypeSeq(e.args, 1, sch, <<>>) IN
            IF \E i \in 1..Len(ts) : ts[i] = ERR THEN ERR
            ELSE IF e.f = "coalesce" THEN
                 (IF Len(ts) >= 1 /\ \A i \in 1..Len(ts) : ts[i] = ts[1] THEN ts[1] ELSE ERR)
            ELSE LET sig == FnResolve(e.f, ts) IN IF sig = <<>> THEN ERR ELSE OutOf(e.f, sig)
      [] e.k = "inlist" ->          \* x [NOT] IN (subquery), after the subquery has been evaluated (BQLSelect!ResolveE)
            LET ta == TypeOf(e.a, sch) IN IF ta = ERR THEN ERR ELSE "bool"
      [] e.k = "agg" ->
            IF e.a = Star THEN AggType(e.f, "star")
            ELSE LET t == TypeOf(e.a, sch) IN IF t = ERR THEN ERR ELSE AggType(e.f, t)
      [] OTHER -> ERR

-----------------------------------------------------------------------------
(* Semantics of the casts the compiler inserts for untyped operands (and of the cast functions) *)
CastDec(v) ==
    CASE v.t = "dec" -> v
      [] v.t \in {"int", "bool"} -> Rat(v.n, 1)
      [] v.t = "str" -> IF StrOK(v.s) THEN ParseDec(v.s) ELSE OOD
      [] OTHER -> Null                       \* dates, lists: the conversion fails -> NULL
CastInt(v) ==
    CASE v.t \in {"int", "bool"} -> IntV(v.n)
      [] v.t = "dec" -> IntV(TruncDiv(v.n, v.d))
      [] v.t = "str" -> IF StrOK(v.s) THEN ParseInt(v.s) ELSE OOD
      [] OTHER -> Null
LooksLikeDate(s) == Len(s) >= 8 /\ \E i \in 1..Len(s) : Ch(s, i) = "-"
CastDate(v) ==
    CASE v.t = "date" -> v
      [] v.t = "str" -> IF ~StrOK(v.s) \/ (LooksLikeDate(v.s) /\ HasDigit(v.s)) THEN OOD ELSE Null
      [] OTHER -> Null
DigitCh(k) == Ch("0123456789", k + 1)
RECURSIVE NatToStr(_)
NatToStr(n) == IF n < 10 THEN DigitCh(n) ELSE NatToStr(n \div 10) \o DigitCh(n % 10)
IntToStr(n) == IF n < 0 THEN "-" \o NatToStr(-n) ELSE NatToStr(n)
CastStr(v) ==
    CASE v.t = "str" -> v
      [] v.t = "bool" -> StrV(IF v.n = 1 THEN "TRUE" ELSE "FALSE")     \* a boolean is not its integer value
      [] v.t = "int" -> StrV(IntToStr(v.n))
      [] OTHER -> OOD                        \* str() of decimals / dates: representation, not modelled
CastTo(t, v) ==
    CASE t = "dec" -> CastDec(v)
      [] t = "int" -> CastInt(v)
      [] t = "date" -> CastDate(v)
      [] t = "str" -> CastStr(v)
      [] t = "bool" -> BoolV(Truthy(v))
      [] OTHER -> OOD

DateShift(d, k) == IF d.n + k < MinDate \/ d.n + k > MaxDate \/ Abs(k) > 100000000 THEN OOD ELSE DateV(d.n + k)

\* binary operator on two non-null, in-domain values whose (post-cast) static types made the overload exist
BinApply(op, a, b) ==
    CASE op = "add" -> IF a.t = "date" THEN DateShift(a, b.n) ELSE IF b.t = "date" THEN DateShift(b, a.n)
                       ELSE NumAdd(a, b)
      [] op = "sub" -> IF a.t = "date" /\ b.t = "date" THEN IntV(a.n - b.n)
                       ELSE IF a.t = "date" THEN DateShift(a, -b.n) ELSE NumSub(a, b)
      [] op = "mul" -> NumMul(a, b)
      [] op = "div" -> NumDiv(a, b)
      [] op = "mod" -> NumMod(a, b)
      [] op = "eq" -> BoolV(ValEq(a, b))
      [] op = "ne" -> BoolV(~ValEq(a, b))
      [] op = "lt" -> BoolV(ValLess(a, b))
      [] op = "gt" -> BoolV(ValLess(b, a))
      [] op = "le" -> BoolV(~ValLess(b, a))
      [] op = "ge" -> BoolV(~ValLess(a, b))
      [] op = "match" -> IF LiteralPattern(b.s) /\ StrOK(a.s) THEN BoolV(Contains(Lower(a.s), Lower(b.s))) ELSE OOD
      [] op = "notmatch" -> IF LiteralPattern(b.s) /\ StrOK(a.s) THEN BoolV(~Contains(Lower(a.s), Lower(b.s))) ELSE OOD
      [] op = "in" -> BoolV(\E i \in 1..Len(b.l) : ValEq(a, b.l[i]))
      [] op = "notin" -> BoolV(~\E i \in 1..Len(b.l) : ValEq(a, b.l[i]))
StrArgsOK(vs) == \A i \in 1..Len(vs) : vs[i].t # "str" \/ StrOK(vs[i].s)

\* scalar function on non-null, in-domain arguments, `sig` = the resolved signature
FnApply(f, sig, a) ==
    CASE f = "abs" -> Rat(Abs(a[1].n), a[1].d)
      [] f = "neg" -> Rat(-a[1].n, a[1].d)
      [] f = "length" -> IntV(Len(a[1].s))
      [] f = "upper" -> StrV(Upper(a[1].s))
      [] f = "lower" -> StrV(Lower(a[1].s))
      [] f = "year" -> IntV(CivilFromOrdinal(a[1].n)[1])
      [] f = "month" -> IntV(CivilFromOrdinal(a[1].n)[2])
      [] f = "day" -> IntV(CivilFromOrdinal(a[1].n)[3])
      [] f = "date_add" -> DateShift(a[1], a[2].n)
      [] f = "date_diff" -> IntV(a[1].n - a[2].n)
      [] f = "safediv" -> IF a[2].n = 0 THEN Rat(0, 1) ELSE NumDiv(a[1], a[2])
      [] f = "round" -> IF sig[1] = "int" THEN IntV(a[1].n) ELSE Rat(RoundHalfEven(a[1].n, a[1].d), 1)
      [] f = "substr" -> StrV(PySlice(a[1].s, a[2].n, a[3].n))
      [] f = "bool" -> BoolV(Truthy(a[1]))
      [] f = "str" -> CastStr(a[1])
      [] f = "int" -> CastInt(a[1])
      [] f = "decimal" -> CastDec(a[1])
      [] f = "date" -> CastDate(a[1])

-----------------------------------------------------------------------------
(* Evaluation.  Strict nodes: NULL in, NULL out (operands left to right, stopping at the first NULL);
   AND / OR / COALESCE as the loops; NOT / IS NULL are NULL-aware. *)
RECURSIVE Eval(_, _, _)
RECURSIVE AndLoop(_, _, _, _)
RECURSIVE OrLoop(_, _, _, _, _)
RECURSIVE CoalesceLoop(_, _, _, _)
RECURSIVE ArgLoop(_, _, _, _, _)

AndLoop(args, i, row, sch) ==
    IF i > Len(args) THEN BoolV(TRUE)
    ELSE LET v == Eval(args[i], row, sch) IN
         IF v.t = "ood" THEN OOD ELSE IF v.t = "null" THEN Null
         ELSE IF ~Truthy(v) THEN BoolV(FALSE) ELSE AndLoop(args, i + 1, row, sch)
OrLoop(args, i, row, sch, r) ==
    IF i > Len(args) THEN r
    ELSE LET v == Eval(args[i], row, sch) IN
         IF v.t = "ood" THEN OOD ELSE IF v.t = "null" THEN OrLoop(args, i + 1, row, sch, Null)
         ELSE IF Truthy(v) THEN BoolV(TRUE) ELSE OrLoop(args, i + 1, row, sch, r)
CoalesceLoop(args, i, row, sch) ==
    IF i > Len(args) THEN Null
    ELSE LET v == Eval(args[i], row, sch) IN IF v.t = "null" THEN CoalesceLoop(args, i + 1, row, sch) ELSE v
\* evaluate call arguments left to right; all are evaluated, any NULL makes the call NULL
ArgLoop(args, i, row, sch, acc) ==
    IF i > Len(args) THEN acc ELSE ArgLoop(args, i + 1, row, sch, Append(acc, Eval(args[i], row, sch)))

Eval(e, row, sch) ==
    CASE e.k = "const" -> e.v
      [] e.k = "col" -> row[e.n]
      [] e.k = "un" ->
            LET a == Eval(e.a, row, sch) IN
            IF a.t = "ood" THEN OOD
            ELSE IF e.op = "isnull" THEN BoolV(a.t = "null")
            ELSE IF e.op = "isnotnull" THEN BoolV(a.t # "null")
            ELSE IF e.op = "not" THEN (IF a.t = "null" THEN BoolV(TRUE) ELSE BoolV(~Truthy(a)))
            ELSE IF a.t = "null" THEN Null
            ELSE IF a.t = "dec" THEN Rat(-a.n, a.d) ELSE IntV(-a.n)
      [] e.k = "bin" ->
            LET r == BinResolve(e.op, TypeOf(e.a, sch), TypeOf(e.b, sch))
                a0 == Eval(e.a, row, sch)
                a == IF r[2] = "" \/ a0.t \in {"null", "ood"} THEN a0 ELSE CastTo(r[2], a0)
            IN IF a.t = "ood" THEN OOD ELSE IF a.t = "null" THEN Null
               ELSE LET b0 == Eval(e.b, row, sch)
                        b == IF r[3] = "" \/ b0.t \in {"null", "ood"} THEN b0 ELSE CastTo(r[3], b0)
                    IN IF b.t = "ood" THEN OOD ELSE IF b.t = "null" THEN Null
                       ELSE IF ~StrArgsOK(<<a, b>>) THEN OOD ELSE BinApply(e.op, a, b)
      [] e.k = "between" ->
            LET a == Eval(e.a, row, sch) IN
            IF a.t \in {"ood", "null"} THEN a
            ELSE LET lo == Eval(e.lo, row, sch) IN
                 IF lo.t \in {"ood", "null"} THEN lo
                 ELSE LET hi == Eval(e.hi, row, sch) IN
                      IF hi.t \in {"ood", "null"} THEN hi
                      ELSE IF ~StrArgsOK(<<a, lo, hi>>) THEN OOD
                      ELSE BoolV(~ValLess(a, lo) /\ ~ValLess(hi, a))
      [] e.k = "and" -> AndLoop(e.args, 1, row, sch)
      [] e.k = "or" -> OrLoop(e.args, 1, row, sch, BoolV(FALSE))
      [] e.k = "inlist" ->
            \* membership in the subquery's single output column; NULL when x is NULL or the subquery returned no row
            LET a == Eval(e.a, row, sch) IN
            IF a.t = "ood" \/ e.l.t = "ood" THEN OOD
            ELSE IF a.t = "null" \/ e.l.t = "null" THEN Null
            ELSE LET m == \E i \in 1..Len(e.l.l) : ValEq(a, e.l.l[i]) IN BoolV(IF e.neg THEN ~m ELSE m)
      [] e.k = "call" ->
            IF e.f = "coalesce" THEN CoalesceLoop(e.args, 1, row, sch)
            ELSE LET vs == ArgLoop(e.args, 1, row, sch, <<>>)
                     ts == TypeSeq(e.args, 1, sch, <<>>)
                 IN IF \E i \in 1..Len(vs) : vs[i].t = "ood" THEN OOD
                    ELSE IF \E i \in 1..Len(vs) : vs[i].t = "null" THEN Null
                    ELSE IF ~StrArgsOK(vs) THEN OOD
                    ELSE FnApply(e.f, FnResolve(e.f, ts), vs)

\* the WHERE / FROM / HAVING test: a row qualifies iff the condition is true (NULL and false both exclude it)
Qualifies(c, row, sch) == LET v == Eval(c, row, sch) IN v.t \notin {"null", "ood"} /\ Truthy(v)

-----------------------------------------------------------------------------
(* The declarative truth tables of the statement, against which the loops above are model-checked *)
\* AND: the first NULL-or-false operand decides; all true -> TRUE
AndTable(vs) ==
    IF \E i \in 1..Len(vs) : vs[i] # "T"
    THEN LET i == CHOOSE i \in 1..Len(vs) : vs[i] # "T" /\ \A j \in 1..(i - 1) : vs[j] = "T"
         IN IF vs[i] = "N" THEN "N" ELSE "F"
    ELSE "T"
\* OR: TRUE if any operand is true, else NULL if any is NULL, else FALSE
OrTable(vs) ==
    IF \E i \in 1..Len(vs) : vs[i] = "T" THEN "T"
    ELSE IF \E i \in 1..Len(vs) : vs[i] = "N" THEN "N" ELSE "F"
NotTable(v) == IF v = "N" THEN "T" ELSE IF v = "T" THEN "F" ELSE "T"
TV(x) == IF x = "N" THEN Null ELSE BoolV(x = "T")
VT(v) == IF v.t = "null" THEN "N" ELSE IF Truthy(v) THEN "T" ELSE "F"

\* conformance of a value to a declared type (C04): NULL conforms to everything, bool is an int,
\* obj admits anything
Conforms(v, t) ==
    \/ v.t = "null"
    \/ t = "obj"
    \/ v.t = t
    \/ (v.t = "bool" /\ t = "int")
=============================================================================
