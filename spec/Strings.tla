------------------------------ MODULE Strings ------------------------------
(* C18 -- string operators, transcribed from the property statement ("string functions equal their slice / regex
   definitions") and Python's documented str semantics: slices with negative and out-of-range indices,
   str.split(delim)[i], ','.join, str.upper/lower on ASCII letters, textwrap.shorten's word algorithm, and
   re.search / re.sub / re.match for LITERAL patterns with optional ^ / $ anchors and at most one group.

   Strings are TLA+ strings (Len, \o, SubSeq apply).  Optional results are sequences: <<>> = NULL, <<v>> = v.
   Domain predicates (..Domain) say where the statement defines a value; outside, nothing is claimed.        *)
EXTENDS Integers, Sequences, FiniteSets, TLC

Ch(s, i) == SubSeq(s, i, i)
SMin(S) == CHOOSE x \in S : \A y \in S : x <= y
SMax(S) == CHOOSE x \in S : \A y \in S : x >= y
SMin2(a, b) == IF a <= b THEN a ELSE b
SMax2(a, b) == IF a >= b THEN a ELSE b

(* ---- characters: ASCII printable characters in code point order (no quote, backslash, backtick) ------- *)
ASCII == " !#$%&()*+,-./0123456789:;<=>?@ABCDEFGHIJKLMNOPQRSTUVWXYZ[]^_abcdefghijklmnopqrstuvwxyz{|}~"
Chars == {Ch(ASCII, i) : i \in 1..Len(ASCII)}
CharCode == [c \in Chars |-> CHOOSE i \in 1..Len(ASCII) : Ch(ASCII, i) = c]
Code(c) == CharCode[c]
LOWER == "abcdefghijklmnopqrstuvwxyz"
UPPER == "ABCDEFGHIJKLMNOPQRSTUVWXYZ"
UpMap == [c \in Chars |-> IF \E i \in 1..26 : Ch(LOWER, i) = c
                          THEN Ch(UPPER, CHOOSE i \in 1..26 : Ch(LOWER, i) = c) ELSE c]
LoMap == [c \in Chars |-> IF \E i \in 1..26 : Ch(UPPER, i) = c
                          THEN Ch(LOWER, CHOOSE i \in 1..26 : Ch(UPPER, i) = c) ELSE c]
RECURSIVE MapStr(_, _)
MapStr(f, s) == IF s = "" THEN "" ELSE f[Ch(s, 1)] \o MapStr(f, SubSeq(s, 2, Len(s)))
Upper(s) == MapStr(UpMap, s)
Lower(s) == MapStr(LoMap, s)
Length(s) == Len(s)

\* lexicographic order by code point (Python's str order on this alphabet)
StrLess(a, b) ==
  LET n == SMin2(Len(a), Len(b))
      diff == {i \in 1..n : Ch(a, i) # Ch(b, i)}
  IN IF diff = {} THEN Len(a) < Len(b)
     ELSE LET i == SMin(diff) IN Code(Ch(a, i)) < Code(Ch(b, i))
StrLeq(a, b) == a = b \/ StrLess(a, b)

(* ---- Python slices ---------------------------------------------------------------------------------- *)
\* s[a:b]: a negative index counts from the end; indices are clamped to [0, len]
SliceIdx(i, n) == IF i < 0 THEN SMax2(i + n, 0) ELSE SMin2(i, n)
Substr(s, a, b) ==
  LET n == Len(s)
      lo == SliceIdx(a, n)
      hi == SliceIdx(b, n)
  IN IF lo >= hi THEN "" ELSE SubSeq(s, lo + 1, hi)

(* ---- split / join ----------------------------------------------------------------------------------- *)
\* str.split(delim), delim non-empty: leftmost non-overlapping occurrences
RECURSIVE SplitFrom(_, _, _, _)
SplitFrom(s, delim, i, start) ==
  IF i + Len(delim) - 1 > Len(s) THEN <<SubSeq(s, start, Len(s))>>
  ELSE IF SubSeq(s, i, i + Len(delim) - 1) = delim
       THEN <<SubSeq(s, start, i - 1)>> \o SplitFrom(s, delim, i + Len(delim), i + Len(delim))
       ELSE SplitFrom(s, delim, i + 1, start)
Split(s, delim) == SplitFrom(s, delim, 1, 1)
RECURSIVE JoinSeq(_, _)
JoinSeq(parts, sep) == IF Len(parts) = 0 THEN ""
                       ELSE IF Len(parts) = 1 THEN parts[1]
                       ELSE parts[1] \o sep \o JoinSeq(Tail(parts), sep)
\* split(delim)[k]: defined when delim is non-empty and k indexes the list (Python index, negative from the end)
SplitCompDomain(s, delim, k) == delim # "" /\ LET n == Len(Split(s, delim)) IN k >= -n /\ k < n
SplitComp(s, delim, k) == LET p == Split(s, delim) IN IF k >= 0 THEN p[k + 1] ELSE p[Len(p) + k + 1]

\* ','.join(values) over an unordered collection: any enumeration order is acceptable
Perms(n) == {p \in [1..n -> 1..n] : \A i, j \in 1..n : p[i] = p[j] => i = j}
JoinStrSet(vals) == {JoinSeq([i \in 1..Len(vals) |-> vals[p[i]]], ",") : p \in Perms(Len(vals))}

(* ---- maxwidth = textwrap.shorten(text, width) --------------------------------------------------------- *)
\* words are separated by blanks (domain: no other whitespace, no hyphens); the text is the words joined by one
\* blank if that fits in width, otherwise the longest prefix of whole words that fits together with the
\* placeholder " [...]", or the bare placeholder "[...]" when not even the first word does
Words(s) == SelectSeq(Split(s, " "), LAMBDA w : w # "")
MaxWidthDomain(s, n) == n >= 5 /\ \A i \in 1..Len(s) : Ch(s, i) # "-"
MaxWidth(s, n) ==
  LET w == Words(s)
      text == JoinSeq(w, " ")
      fits == {k \in 1..Len(w) : Len(JoinSeq(SubSeq(w, 1, k), " ")) + 6 <= n}
  IN IF Len(text) <= n THEN text
     ELSE IF fits = {} THEN "[...]"
     ELSE JoinSeq(SubSeq(w, 1, SMax(fits)), " ") \o " [...]"

(* ---- literal / anchored patterns ---------------------------------------------------------------------- *)
\* a pattern is [bol, pre, grp, post, eol, g]: the regular expression  ^? pre ( grp ) post $?  where the
\* parentheses are present iff g = 1 and pre, grp, post are literal texts without metacharacters
Lit(p) == p.pre \o p.grp \o p.post
PatText(p) == (IF p.bol = 1 THEN "^" ELSE "") \o p.pre \o (IF p.g = 1 THEN "(" \o p.grp \o ")" ELSE p.grp)
              \o p.post \o (IF p.eol = 1 THEN "$" ELSE "")
\* the pattern matches s at position i (1-based; an empty literal matches between characters)
MatchAt(p, s, i) ==
  LET L == Len(Lit(p)) IN
  /\ i >= 1 /\ i + L - 1 <= Len(s)
  /\ (p.bol = 1) => i = 1
  /\ (p.eol = 1) => i + L - 1 = Len(s)
  /\ SubSeq(s, i, i + L - 1) = Lit(p)
Matches(p, s) == {i \in 1..(Len(s) + 1) : MatchAt(p, s, i)}
\* re.search(p, s).group(0) or NULL
Grep(p, s) == IF Matches(p, s) = {} THEN <<>> ELSE <<Lit(p)>>
\* re.search(p, s).group(n): defined for group 0 and, if the pattern has a group, group 1
GrepNDomain(p, s, n) == Matches(p, s) = {} \/ n = 0 \/ (n = 1 /\ p.g = 1)
GrepN(p, s, n) == IF Matches(p, s) = {} THEN <<>> ELSE IF n = 0 THEN <<Lit(p)>> ELSE <<p.grp>>
\* re.sub(p, repl, s): leftmost non-overlapping matches replaced (repl literal); an empty match also copies the
\* character it stands before
RECURSIVE SubstFrom(_, _, _, _)
SubstFrom(p, repl, s, i) ==
  IF i > Len(s) + 1 THEN ""
  ELSE LET c == IF i <= Len(s) THEN Ch(s, i) ELSE "" IN
       IF MatchAt(p, s, i)
       THEN IF Len(Lit(p)) > 0 THEN repl \o SubstFrom(p, repl, s, i + Len(Lit(p)))
            ELSE repl \o c \o SubstFrom(p, repl, s, i + 1)
       ELSE c \o SubstFrom(p, repl, s, i + 1)
Subst(p, repl, s) == SubstFrom(p, repl, s, 1)
\* findfirst(p, values): the first value in sorted order that re.match(p, value) accepts (match at the start)
FindFirst(p, vals) ==
  LET ok == {i \in 1..Len(vals) : MatchAt(p, vals[i], 1)} IN
  IF ok = {} THEN <<>>
  ELSE <<vals[CHOOSE i \in ok : \A j \in ok : StrLeq(vals[i], vals[j])]>>
=============================================================================
