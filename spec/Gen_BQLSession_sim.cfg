CONSTANTS
  Stmts <- Stmts9
  StmtParams <- Params9
  ManyPairs <- Pairs9
  Data <- DataA
  NumberMode = "conforming"
  MaxCalls = 7
  GenTextIdx <- Idx123
  Depth = 7
INIT HInit
NEXT HNext
INVARIANT Emit
CHECK_DEADLOCK FALSE
