CONSTANTS
  Stmts <- Stmts5
  StmtParams <- Params5
  ManyPairs <- Pairs9
  Data <- DataA
  NumberMode = "conforming"
  MaxCalls = 7
  GenTextIdx <- Idx123
  Depth = 7
INIT HInit
NEXT HNext
INVARIANT Emit
CHECK_DEADLOCK FALSE
